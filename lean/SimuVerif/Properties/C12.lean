import SimuVerif.Lemmas.C12_Centred
import SimuVerif.Lemmas.C12_OrientClosed
import SimuVerif.Lemmas.C12_Spectral
import SimuVerif.Gen.NodeNormals
/-
  C12 — volume, area, centroid, bounding box and normals are exact and frame-independent.

  The objects are the definitions of `SimuVerif/Model/Geometry.lean`, whose per-face / per-node
  arithmetic is `SimuVerif/Gen/Geometry.lean`, regenerated from `src/mesh/cell.cpp` on every run.
  All statements are for EVERY triangle list `T` (induction over the list), every position map,
  every ordered field `R` (exact arithmetic; ℚ and ℝ are instances).  `std::sqrt` enters through
  `Fn R` and the hypothesis `SqrtSpec` (non-negative root of non-negative numbers).

  "The reported volume equals the enclosed volume": the enclosed volume of a closed oriented
  triangulated surface IS, by the divergence theorem, (1/6)·Σ_faces det(p₁,p₂,p₃); that formula
  is taken as the definition here (`volume_is_enclosed_volume`), the divergence theorem itself
  is not formalised.  The code forms the determinants of the positions RELATIVE TO
  `get_volume_reference_point()` = the first node of the first used face (`volume_is_signed_tet_sum`:
  what it computes on every triangle list), so that nothing cancels far from the coordinate origin;
  `volume_centred_eq` shows that for a closed surface this is the same number whatever the reference
  point is.  What is proved is that this number has every invariance an enclosed
  volume must have (translation — now for EVERY triangle list, `volume_translate_exact` —, rotation,
  reflection up to sign, s³ scaling, node numbering; independence of the face order and of which node of
  a face comes first for closed surfaces: on an open one they move the reference point),
  and that it is the flux Σ 2·area·(p₁·n̂)/6 of the reported normals (`vol_eq_normal_flux`), which
  is what ties "normals point outward" to "signed volume positive".
-/
set_option linter.unusedSectionVars false
set_option linter.unusedSimpArgs false
namespace Simu.C12
open Simu Simu.Geo Simu.Gen.Geometry
variable {R : Type} [Field R] [LinearOrder R] [IsStrictOrderedRing R]

/-! ## volume -/

/-- what `compute_volume` returns on EVERY triangle list: |Σ_faces det(p₁−o, p₂−o, p₃−o)| / 6 with
    `o = get_volume_reference_point()` (the two 6-term formulas of the source — the one in `compute_volume` and the
    one in `check_face_normal_orientation` — are this determinant) -/
theorem volume_is_signed_tet_sum (pos : Nat → V3 R) (T : List Tri) :
    volume pos T = |(T.map (fun t => det3 (pos t.1 - refPoint pos T) (pos t.2.1 - refPoint pos T)
      (pos t.2.2 - refPoint pos T))).sum| / 6 :=
  volume_eq pos T

/-- the reference point is the first node of the first face (and the zero vector when there is no face) -/
theorem reference_point_is_first_node (pos : Nat → V3 R) (t : Tri) (T : List Tri) :
    refPoint pos (t :: T) = pos t.1 ∧ refPoint pos ([] : List Tri) = ⟨0, 0, 0⟩ :=
  ⟨refPoint_cons pos t T, refPoint_nil pos⟩

/-- **the repair is justified**: for a CLOSED surface the centred sum is the un-centred sum Σ det(p₁,p₂,p₃),
    for EVERY reference point `o` — in particular for the one the code uses -/
theorem volume_centred_eq (pos : Nat → V3 R) (T : List Tri) (hc : Closed T) (o : V3 R) :
    volSumAt pos o T = (T.map (fun t => det3 (pos t.1) (pos t.2.1) (pos t.2.2))).sum ∧
    volSum pos T = (T.map (fun t => det3 (pos t.1) (pos t.2.1) (pos t.2.2))).sum :=
  ⟨volSumAt_closed pos T hc o, volSum_closed pos T hc⟩

/-- the same for the sum of the orientation test -/
theorem orient_sum_centred_eq (pos : Nat → V3 R) (T : List Tri) (hc : Closed T) (o : V3 R) :
    svSumAt pos o T = (T.map (fun t => det3 (pos t.1) (pos t.2.1) (pos t.2.2))).sum ∧
    svSum pos T = (T.map (fun t => det3 (pos t.1) (pos t.2.1) (pos t.2.2))).sum :=
  ⟨svSumAt_closed pos T hc o, svSum_closed pos T hc⟩

/-- for any closed triangulated cell the reported volume is the enclosed volume |Σ_faces det(p₁,p₂,p₃)| / 6 -/
theorem volume_is_enclosed_volume (pos : Nat → V3 R) (T : List Tri) (hc : Closed T) :
    volume pos T = |(T.map (fun t => det3 (pos t.1) (pos t.2.1) (pos t.2.2))).sum| / 6 :=
  volume_closed pos T hc

/-- the sum used to decide the orientation is the sum used for the volume -/
theorem orient_sum_eq_volume_sum (pos : Nat → V3 R) (T : List Tri) : svSum pos T = volSum pos T := by
  rw [svSum_eq, volSum_eq]

/-- **exact translation invariance, for EVERY triangle list, closed or not**: the reference point moves along, every
    relative position is unchanged — no cancellation argument is needed.  Also with an explicit reference point. -/
theorem volume_translate_exact (pos : Nat → V3 R) (T : List Tri) (d : V3 R) :
    volSum (fun i => pos i + d) T = volSum pos T ∧ volume (fun i => pos i + d) T = volume pos T ∧
    ∀ o, volSumAt (fun i => pos i + d) (o + d) T = volSumAt pos o T := by
  have h : volSum (fun i => pos i + d) T = volSum pos T := by
    have := volSum_map (fun p => p + d) 1 (fun a b c o => by
      rw [V3.add_sub_add_right', V3.add_sub_add_right', V3.add_sub_add_right', one_mul]) pos T
    rw [one_mul] at this; exact this
  refine ⟨h, by unfold volume; rw [h], fun o => ?_⟩
  rw [volSumAt_eq, volSumAt_eq, rel_translate]

/-- the same for the signed sum of the orientation test, hence for the decision to flip every face -/
theorem orient_sum_translate_exact (pos : Nat → V3 R) (T : List Tri) (d : V3 R) :
    svSum (fun i => pos i + d) T = svSum pos T ∧ finalFlip (fun i => pos i + d) T = finalFlip pos T ∧
    ∀ o, svSumAt (fun i => pos i + d) (o + d) T = svSumAt pos o T := by
  have h : svSum (fun i => pos i + d) T = svSum pos T := by
    rw [orient_sum_eq_volume_sum, orient_sum_eq_volume_sum]; exact (volume_translate_exact pos T d).1
  refine ⟨h, by unfold finalFlip; rw [h], fun o => ?_⟩
  rw [svSumAt_eq, svSumAt_eq, rel_translate]

/-- translation invariance, for closed surfaces (every half-edge matched by its reverse) -/
theorem vol_translate (pos : Nat → V3 R) (T : List Tri) (hc : Closed T) (d : V3 R) :
    volSum (fun i => pos i + d) T = volSum pos T := (volume_translate_exact pos T d).1

theorem volume_translate (pos : Nat → V3 R) (T : List Tri) (hc : Closed T) (d : V3 R) :
    volume (fun i => pos i + d) T = volume pos T := (volume_translate_exact pos T d).2.1

/-- every rotation (orientation-preserving linear isometry) leaves the signed sum unchanged -/
theorem vol_rotate {M : V3 R → V3 R} (hM : Rot M) (pos : Nat → V3 R) (T : List Tri) :
    volSum (fun i => M (pos i)) T = volSum pos T := by
  have := volSum_map M 1 (fun a b c o => by
    rw [hM.map_sub, hM.map_sub, hM.map_sub, det3_rot hM, one_mul]) pos T
  rw [one_mul] at this; exact this

/-- a reflection flips the sign of the signed sum … -/
theorem vol_reflect {M : V3 R → V3 R} (hM : Refl M) (pos : Nat → V3 R) (T : List Tri) :
    volSum (fun i => M (pos i)) T = - volSum pos T := by
  have := volSum_map M (-1) (fun a b c o => by
    rw [hM.map_sub, hM.map_sub, hM.map_sub, det3_refl hM, neg_one_mul]) pos T
  rw [neg_one_mul] at this; exact this

/-- … so the reported volume is unchanged by rotations and by reflections -/
theorem volume_rotate {M : V3 R → V3 R} (hM : Rot M) (pos : Nat → V3 R) (T : List Tri) :
    volume (fun i => M (pos i)) T = volume pos T := by
  unfold volume; rw [vol_rotate hM]

theorem volume_reflect {M : V3 R → V3 R} (hM : Refl M) (pos : Nat → V3 R) (T : List Tri) :
    volume (fun i => M (pos i)) T = volume pos T := by
  unfold volume volFinish; rw [vol_reflect hM]
  simp only [sabs_eq_abs, neg_div, abs_neg]

/-- uniform scaling: the signed sum scales with s³ -/
theorem vol_scale (pos : Nat → V3 R) (T : List Tri) (s : R) :
    volSum (fun i => pos i * s) T = s * s * s * volSum pos T :=
  volSum_map (fun p => p * s) (s * s * s) (fun a b c o => by
    have e : ∀ u v : V3 R, u * s - v * s = (u - v) * s := fun u v => by apply V3.ext' <;> simp <;> ring
    rw [e, e, e, det3_smul]) pos T

theorem volume_scale (pos : Nat → V3 R) (T : List Tri) (s : R) (hs : 0 ≤ s) :
    volume (fun i => pos i * s) T = s * s * s * volume pos T := by
  unfold volume volFinish
  rw [vol_scale pos T s]
  simp only [sabs_eq_abs, lit_eq]
  rw [mul_div_assoc, abs_mul, abs_of_nonneg (mul_nonneg (mul_nonneg hs hs) hs)]

/-- the order of the faces is irrelevant (closed surfaces: on an open one the first face fixes the reference point) -/
theorem vol_perm_faces (pos : Nat → V3 R) {T T' : List Tri} (hc : Closed T) (h : T.Perm T') :
    volSum pos T' = volSum pos T :=
  volSum_closed_congr pos hc (closed_perm h hc) ((h.map _).sum_eq).symm

theorem volume_perm_faces (pos : Nat → V3 R) {T T' : List Tri} (hc : Closed T) (h : T.Perm T') :
    volume pos T' = volume pos T := by
  unfold volume; rw [vol_perm_faces pos hc h]

/-- renumbering the nodes (positions carried along) is irrelevant -/
theorem vol_rename_nodes (σ : Nat → Nat) (pos pos' : Nat → V3 R) (h : ∀ i, pos' (σ i) = pos i) (T : List Tri) :
    volSum pos' (T.map (Tri.map σ)) = volSum pos T := by
  have hr : refPoint pos' (T.map (Tri.map σ)) = refPoint pos T := by
    cases T with
    | nil => rfl
    | cons t T => rw [List.map_cons, refPoint_cons, refPoint_cons]; simp only [Tri.map, h]
  rw [volSum_eq, volSum_eq, hr, List.map_map]; congr 1
  apply List.map_congr_left; intro t _; simp only [Function.comp_def, tdet, rel, Tri.map, h]

/-- which node of a face comes first is irrelevant (closed surfaces: on an open one this moves the reference point) -/
theorem vol_cyclic (pos : Nat → V3 R) (T : List Tri) (hc : Closed T) :
    volSum pos (T.map (fun t => (t.2.1, t.2.2, t.1))) = volSum pos T := by
  have hp : ∀ U : List Tri, (he (U.map (fun t => (t.2.1, t.2.2, t.1)))).Perm (he U) := by
    intro U
    induction U with
    | nil => exact List.Perm.refl _
    | cons t U ih =>
      simp only [List.map_cons, he]
      refine List.Perm.append ?_ ih
      simp only [heTri]
      exact (List.perm_append_comm (l₁ := [(t.1, t.2.1)]) (l₂ := [(t.2.1, t.2.2), (t.2.2, t.1)])).symm
  have hc' : Closed (T.map (fun t => (t.2.1, t.2.2, t.1))) := by
    unfold Closed at *
    exact (((hp T).map Prod.swap).trans hc).trans (hp T).symm
  refine volSum_closed_congr pos hc hc' ?_
  rw [List.map_map]; congr 1
  apply List.map_congr_left; intro t _; simp only [Function.comp_def, tdet, det3_cyc]

/-- reversing every face flips the sign (so a consistently oriented surface has a definite sign) -/
theorem vol_reverse_all (pos : Nat → V3 R) (T : List Tri) : volSum pos (T.map swap23) = - volSum pos T := by
  rw [volSum_eq, volSum_eq, refPoint_mapTri swap23 (fun _ => rfl), List.map_map, ← sum_map_neg']; congr 1
  apply List.map_congr_left; intro t _; simp only [Function.comp_def, tdet, swap23]; exact det3_swap23 _ _ _

/-! ## area -/

/-- `compute_area` is the sum over the faces of ½·|(p₂−p₁)×(p₃−p₁)| -/
theorem area_is_sum_of_triangle_areas (fn : Fn R) (pos : Nat → V3 R) (T : List Tri) :
    area fn pos T = (T.map (fun t => 1 / 2 * fn.sqrt (V3.normSq (rawNormal pos t)))).sum := by
  rw [area_eq]; congr 1; apply List.map_congr_left; intro t _; exact faceArea_eq fn pos t

theorem faceArea_translate (fn : Fn R) (pos : Nat → V3 R) (d : V3 R) (t : Tri) :
    faceArea fn (fun i => pos i + d) t = faceArea fn pos t := by
  rw [faceArea_eq, faceArea_eq, rawNormal_translate]

theorem faceArea_linIso (fn : Fn R) {M : V3 R → V3 R} (hM : LinIso M) (pos : Nat → V3 R) (t : Tri) :
    faceArea fn (fun i => M (pos i)) t = faceArea fn pos t := by
  rw [faceArea_eq, faceArea_eq, rawNormal_linIso hM]

theorem faceArea_scale (fn : Fn R) (hf : SqrtSpec fn) (pos : Nat → V3 R) (s : R) (t : Tri) :
    faceArea fn (fun i => pos i * s) t = s * s * faceArea fn pos t := by
  rw [faceArea_eq, faceArea_eq, rawNormal_scale, normSq_smul,
    hf.sqrt_mul_sq (s * s) _ (mul_self_nonneg s) (V3.normSq_nonneg _)]
  ring

theorem area_translate (fn : Fn R) (pos : Nat → V3 R) (T : List Tri) (d : V3 R) :
    area fn (fun i => pos i + d) T = area fn pos T := by
  rw [area_eq, area_eq]; congr 1; apply List.map_congr_left; intro t _; exact faceArea_translate fn pos d t

/-- every linear isometry (rotation or reflection) preserves the area -/
theorem area_rotate (fn : Fn R) {M : V3 R → V3 R} (hM : LinIso M) (pos : Nat → V3 R) (T : List Tri) :
    area fn (fun i => M (pos i)) T = area fn pos T := by
  rw [area_eq, area_eq]; congr 1; apply List.map_congr_left; intro t _; exact faceArea_linIso fn hM pos t

/-- uniform scaling: the area scales with s² (any sign of s) -/
theorem area_scale (fn : Fn R) (hf : SqrtSpec fn) (pos : Nat → V3 R) (T : List Tri) (s : R) :
    area fn (fun i => pos i * s) T = s * s * area fn pos T := by
  rw [area_eq, area_eq, ← sum_map_mul_left']; congr 1
  apply List.map_congr_left; intro t _; exact faceArea_scale fn hf pos s t

theorem area_perm_faces (fn : Fn R) (pos : Nat → V3 R) {T T' : List Tri} (h : T.Perm T') :
    area fn pos T' = area fn pos T := by
  rw [area_eq, area_eq]; exact ((h.map _).sum_eq).symm

theorem area_rename_nodes (fn : Fn R) (σ : Nat → Nat) (pos pos' : Nat → V3 R) (h : ∀ i, pos' (σ i) = pos i)
    (T : List Tri) : area fn pos' (T.map (Tri.map σ)) = area fn pos T := by
  rw [area_eq, area_eq, List.map_map]; congr 1
  apply List.map_congr_left; intro t _
  simp only [Function.comp_def, faceArea_eq, rawNormal_rename σ pos pos' h]

/-- the area does not depend on the winding of any face: reverse or renumber each face at will -/
theorem area_any_winding (fn : Fn R) (pos : Nat → V3 R) {T T' : List Tri} (h : Rewound T T') :
    area fn pos T' = area fn pos T := by
  rw [area_eq, area_eq]
  induction h with
  | nil => rfl
  | keep t _ ih => simp only [List.map_cons, List.sum_cons, ih]
  | s13 t _ ih => simp only [List.map_cons, List.sum_cons, ih, faceArea_eq, rawNormal_swap13, normSq_neg]
  | s23 t _ ih => simp only [List.map_cons, List.sum_cons, ih, faceArea_eq, rawNormal_swap23, normSq_neg]
  | s12 t _ ih => simp only [List.map_cons, List.sum_cons, ih, faceArea_eq, normSq_rawNormal_swap12]
  | cyc t _ ih => simp only [List.map_cons, List.sum_cons, ih, faceArea_eq, normSq_rawNormal_cyc]

/-! ## centroid -/

/-- `compute_centroid` is the area-weighted mean of the triangle centroids -/
theorem centroid_is_weighted_mean (fn : Fn R) (pos : Nat → V3 R) (T : List Tri) :
    centroid fn pos T
      = vsum (T.map (fun t => triCentroid pos t * faceArea fn pos t)) / (T.map (faceArea fn pos)).sum := by
  unfold centroid centroidFinish
  rw [centroidSum_eq, area_eq]

theorem centroid_translate (fn : Fn R) (pos : Nat → V3 R) (T : List Tri) (d : V3 R) (hA : area fn pos T ≠ 0) :
    centroid fn (fun i => pos i + d) T = centroid fn pos T + d := by
  rw [centroid_is_weighted_mean, centroid_is_weighted_mean]
  rw [area_eq] at hA
  have h1 : (fun t => triCentroid (fun i => pos i + d) t * faceArea fn (fun i => pos i + d) t)
      = fun t => triCentroid pos t * faceArea fn pos t + d * faceArea fn pos t := by
    funext t; rw [triCentroid_translate, faceArea_translate, V3.smul_add']
  have h2 : faceArea fn (fun i => pos i + d) = faceArea fn pos := by
    funext t; exact faceArea_translate fn pos d t
  rw [h1, h2, vsum_add, vsum_const_smul]
  apply V3.ext' <;> simp <;> field_simp

/-- the centroid follows the cell under every linear isometry -/
theorem centroid_rotate (fn : Fn R) {M : V3 R → V3 R} (hM : LinIso M) (pos : Nat → V3 R) (T : List Tri) :
    centroid fn (fun i => M (pos i)) T = M (centroid fn pos T) := by
  rw [centroid_is_weighted_mean, centroid_is_weighted_mean]
  have h1 : (fun t => triCentroid (fun i => M (pos i)) t * faceArea fn (fun i => M (pos i)) t)
      = M ∘ (fun t => triCentroid pos t * faceArea fn pos t) := by
    funext t; simp only [Function.comp_def, triCentroid_linIso hM, faceArea_linIso fn hM, hM.map_smul]
  have h2 : faceArea fn (fun i => M (pos i)) = faceArea fn pos := by
    funext t; exact faceArea_linIso fn hM pos t
  rw [h1, h2, ← List.map_map, hM.map_vsum, hM.map_sdiv]

/-- the centroid follows the cell under uniform scaling -/
theorem centroid_scale (fn : Fn R) (hf : SqrtSpec fn) (pos : Nat → V3 R) (T : List Tri) (s : R) (hs : s ≠ 0) :
    centroid fn (fun i => pos i * s) T = centroid fn pos T * s := by
  rw [centroid_is_weighted_mean, centroid_is_weighted_mean]
  have h1 : (fun t => triCentroid (fun i => pos i * s) t * faceArea fn (fun i => pos i * s) t)
      = (fun v : V3 R => v * (s * s * s)) ∘ (fun t => triCentroid pos t * faceArea fn pos t) := by
    funext t
    simp only [Function.comp_def, triCentroid_scale, faceArea_scale fn hf, V3.smul_smul']
    congr 1; ring
  have h2 : faceArea fn (fun i => pos i * s) = fun t => s * s * faceArea fn pos t := by
    funext t; exact faceArea_scale fn hf pos s t
  rw [h1, h2, ← List.map_map, vsum_smul, sum_map_mul_left']
  by_cases hA : (T.map (faceArea fn pos)).sum = 0
  · rw [hA]; apply V3.ext' <;> simp
  · apply V3.ext' <;> simp <;> field_simp

/-! ## bounding box -/

/-- the live nodes are exactly the slots below `n` that some face refers to (`remove_unused_nodes`) -/
theorem live_iff (T : List Tri) (n i : Nat) :
    i ∈ liveNodes T n ↔ i < n ∧ ∃ t ∈ T, t.1 = i ∨ t.2.1 = i ∨ t.2.2 = i := by
  simp only [liveNodes, List.mem_filter, List.mem_range, nodeUsed, List.any_eq_true, Bool.or_eq_true, beq_iff_eq,
    or_assoc]

/-- the box contains every live node (whatever value plays the role of +∞) -/
theorem aabb_contains (inf : R) (pos : Nat → V3 R) (T : List Tri) (n : Nat) (i : Nat) (hi : i ∈ liveNodes T n) :
    (aabb inf pos T n).1 ≤ (pos i).x ∧ (aabb inf pos T n).2.1 ≤ (pos i).y ∧ (aabb inf pos T n).2.2.1 ≤ (pos i).z ∧
    (pos i).x ≤ (aabb inf pos T n).2.2.2.1 ∧ (pos i).y ≤ (aabb inf pos T n).2.2.2.2.1 ∧
    (pos i).z ≤ (aabb inf pos T n).2.2.2.2.2 := by
  unfold aabb; rw [aabbOf_eq]
  have hm : pos i ∈ (liveNodes T n).map pos := List.mem_map_of_mem hi
  refine ⟨minFold_le_mem _ _ _ ?_, minFold_le_mem _ _ _ ?_, minFold_le_mem _ _ _ ?_,
    maxFold_ge_mem _ _ _ ?_, maxFold_ge_mem _ _ _ ?_, maxFold_ge_mem _ _ _ ?_⟩ <;>
    exact List.mem_map_of_mem hm

/-- the box is tight: each of its six bounds is attained by a live node.  `inf` models IEEE +∞:
    every (finite) coordinate of a live node lies strictly between −inf and inf.  Slots that no
    face refers to never enter. -/
theorem aabb_tight (inf : R) (pos : Nat → V3 R) (T : List Tri) (n : Nat)
    (hne : liveNodes T n ≠ [])
    (hinf : ∀ i ∈ liveNodes T n, (-inf < (pos i).x ∧ (pos i).x < inf) ∧ (-inf < (pos i).y ∧ (pos i).y < inf)
      ∧ (-inf < (pos i).z ∧ (pos i).z < inf)) :
    (∃ i ∈ liveNodes T n, (pos i).x = (aabb inf pos T n).1) ∧
    (∃ i ∈ liveNodes T n, (pos i).y = (aabb inf pos T n).2.1) ∧
    (∃ i ∈ liveNodes T n, (pos i).z = (aabb inf pos T n).2.2.1) ∧
    (∃ i ∈ liveNodes T n, (pos i).x = (aabb inf pos T n).2.2.2.1) ∧
    (∃ i ∈ liveNodes T n, (pos i).y = (aabb inf pos T n).2.2.2.2.1) ∧
    (∃ i ∈ liveNodes T n, (pos i).z = (aabb inf pos T n).2.2.2.2.2) := by
  unfold aabb; rw [aabbOf_eq]
  obtain ⟨i0, hi0⟩ := List.exists_mem_of_ne_nil _ hne
  have key_min : ∀ (g : V3 R → R), (∀ i ∈ liveNodes T n, g (pos i) < inf) →
      ∃ i ∈ liveNodes T n, g (pos i) = minFold (((liveNodes T n).map pos).map g) inf := by
    intro g hg
    rcases minFold_mem_or_init (((liveNodes T n).map pos).map g) inf with h | h
    · simp only [List.mem_map] at h
      obtain ⟨p, ⟨i, hi, rfl⟩, hp⟩ := h
      exact ⟨i, hi, hp⟩
    · exfalso
      have h1 := minFold_le_mem (((liveNodes T n).map pos).map g) inf (g (pos i0))
        (List.mem_map_of_mem (List.mem_map_of_mem hi0))
      rw [h] at h1
      exact absurd (hg i0 hi0) (not_lt.mpr h1)
  have key_max : ∀ (g : V3 R → R), (∀ i ∈ liveNodes T n, -inf < g (pos i)) →
      ∃ i ∈ liveNodes T n, g (pos i) = maxFold (((liveNodes T n).map pos).map g) (-inf) := by
    intro g hg
    rcases maxFold_mem_or_init (((liveNodes T n).map pos).map g) (-inf) with h | h
    · simp only [List.mem_map] at h
      obtain ⟨p, ⟨i, hi, rfl⟩, hp⟩ := h
      exact ⟨i, hi, hp⟩
    · exfalso
      have h1 := maxFold_ge_mem (((liveNodes T n).map pos).map g) (-inf) (g (pos i0))
        (List.mem_map_of_mem (List.mem_map_of_mem hi0))
      rw [h] at h1
      exact absurd (hg i0 hi0) (not_lt.mpr h1)
  exact ⟨key_min (·.x) (fun i hi => (hinf i hi).1.2), key_min (·.y) (fun i hi => (hinf i hi).2.1.2),
    key_min (·.z) (fun i hi => (hinf i hi).2.2.2), key_max (·.x) (fun i hi => (hinf i hi).1.1),
    key_max (·.y) (fun i hi => (hinf i hi).2.1.1), key_max (·.z) (fun i hi => (hinf i hi).2.2.1)⟩

/-! ## orientation of the faces -/

/-- the relative-orientation test of `check_face_winding_order`: `r` traverses the shared edge
    as u → v, `c` has distinct nodes, contains u and v (in either order) and a third node `x`
    different from the third node `w` of `r`; then the test succeeds and returns `c` rewound so
    that it traverses the shared edge as v → u (opposite to `r`), i.e. one of the three ways of
    writing v → u → x.  All 3·3·2 relative positions. -/
theorem winding_pair_correct (u v w x : Nat) (huv : u ≠ v) (huw : u ≠ w) (hvw : v ≠ w) (hux : u ≠ x) (hvx : v ≠ x)
    (hwx : w ≠ x) (r c : Tri) (hr : r ∈ rots u v w) (hc : c ∈ rots v u x ∨ c ∈ rots u v x) :
    ∃ c', checkWinding r c = some c' ∧ c' ∈ rots v u x ∧ (c' = c ∨ c' = swap13 c) := by
  rcases hc with hc | hc
  · exact ⟨c, winding_rel u v w x huv huw hvw hux hvx hwx r c hr hc false false, hc, Or.inl rfl⟩
  · have hc0 : swap13 c ∈ rots v u x := by
      simp only [rots, List.mem_cons, List.mem_nil_iff, or_false] at hc
      rcases hc with rfl | rfl | rfl <;> simp [rots, swap13]
    have := winding_rel u v w x huv huw hvw hux hvx hwx r (swap13 c) hr hc0 false true
    exact ⟨swap13 c, this, hc0, Or.inr rfl⟩

/-- the finite table itself, on the node ids 0,1,2,3, by evaluation -/
theorem winding_table :
    ∀ r ∈ rots 0 1 2, ∀ c ∈ rots 1 0 3 ++ rots 0 1 3, ∃ c' ∈ rots 1 0 3, checkWinding r c = some c' := by
  decide

/-- the last step of `check_face_normal_orientation`: afterwards the signed sum is non-negative;
    it was negative exactly when every face has been reversed, and then it changed sign -/
theorem flip_makes_nonneg (pos : Nat → V3 R) (T : List Tri) :
    0 ≤ svSum pos (finalFlip pos T) ∧
    (svSum pos T < 0 → finalFlip pos T = T.map swap23 ∧ svSum pos (finalFlip pos T) = - svSum pos T) ∧
    (¬ svSum pos T < 0 → finalFlip pos T = T) := by
  have hsw : swapMembers flipSwap = swap23 := by funext t; simp [swapMembers, flipSwap]
  have hrev : svSum pos (T.map swap23) = - svSum pos T := by
    rw [orient_sum_eq_volume_sum, orient_sum_eq_volume_sum, vol_reverse_all]
  unfold finalFlip flipNeeded
  simp only [lit_zero, decide_eq_true_eq, hsw]
  split_ifs with h
  · refine ⟨by rw [hrev]; linarith, fun _ => ⟨rfl, hrev⟩, fun h' => absurd h h'⟩
  · exact ⟨not_lt.mp h, fun h' => absurd h' h, fun _ => rfl⟩

/-- PARTIAL (the breadth-first invariant of the flood fill, for every mesh and every mix of input windings).
    `O` is a consistent orientation of the surface, `T` the input: face by face `O`'s triangle or
    its reverse.  `NbGood O nb` says that the edge lookup only pairs faces that are properly
    adjacent in `O` (distinct nodes, exactly one shared edge, traversed in opposite directions):
    edge-manifoldness + orientability, as an explicit hypothesis.  Then, whatever the fuel, when
    the loop ends the queue is empty and every face that was reached carries `O` reversed by the
    single bit `σ` in which the seed face (face 0) differs from `O`.
    NOT proved: that the queue reaches every face (connectedness — hypothesis `hall` of
    `orient_all_consistent`), that the edge set built by `generate_edge_set` satisfies `NbGood`
    for every edge-manifold orientable input (checked by evaluation on the examples below and at
    run time by the oracle on every generated mesh), and termination within the fuel 3·F+4
    (`orient` returns `none` otherwise; never observed). -/
theorem orient_consistent_partial (O T : List Tri) (σ : Bool) (nb : Nat → Nat → Nat → Option Nat)
    (hnb : NbGood O nb) (hlen : T.length = O.length)
    (hT : ∀ (f : Nat) (t : Tri), O[f]? = some t → T[f]? = some t ∨ T[f]? = some (swap13 t))
    (hseed : ∀ t, O[0]? = some t → T[0]? = some (flipIf σ t))
    (s0 s : FS) (h0 : floodInit nb T = some s0) (fuel : Nat) (hrun : floodRun nb fuel s0 = some s) :
    s.queue = [] ∧ s.faces.length = O.length ∧
    (∀ (f : Nat) (t : Tri), O[f]? = some t → s.checked[f]? = some true → s.faces[f]? = some (flipIf σ t)) ∧
    (∀ (f : Nat) (t : Tri), O[f]? = some t → s.faces[f]? = some t ∨ s.faces[f]? = some (swap13 t)) := by
  have hI0 := floodInit_inv O T σ nb hnb hlen hT hseed s0 h0
  obtain ⟨hI, hq⟩ := floodRun_inv O σ nb hnb fuel s0 s hI0 hrun
  exact ⟨hq, hI.lenF, hI.done, hI.shape⟩

/-- if moreover every face was reached (the surface is connected), the result is `O` itself or
    `O` with every face reversed -/
theorem orient_all_consistent (O T : List Tri) (σ : Bool) (nb : Nat → Nat → Nat → Option Nat)
    (hnb : NbGood O nb) (hlen : T.length = O.length)
    (hT : ∀ (f : Nat) (t : Tri), O[f]? = some t → T[f]? = some t ∨ T[f]? = some (swap13 t))
    (hseed : ∀ t, O[0]? = some t → T[0]? = some (flipIf σ t))
    (s0 s : FS) (h0 : floodInit nb T = some s0) (fuel : Nat) (hrun : floodRun nb fuel s0 = some s)
    (hall : ∀ f, f < O.length → s.checked[f]? = some true) :
    s.faces = O.map (flipIf σ) := by
  obtain ⟨_, hl, hd, _⟩ := orient_consistent_partial O T σ nb hnb hlen hT hseed s0 s h0 fuel hrun
  apply List.ext_getElem?
  intro i
  by_cases hi : i < O.length
  · have hO : O[i]? = some O[i] := List.getElem?_eq_getElem hi
    rw [hd i _ hO (hall i hi), List.getElem?_map, hO]; rfl
  · have h1 : s.faces[i]? = none := List.getElem?_eq_none (by omega)
    have h2 : (O.map (flipIf σ))[i]? = none := List.getElem?_eq_none (by simp; omega)
    rw [h1, h2]

/-- a closed surface stays closed when all its faces are reversed together -/
theorem closed_flipAll (O : List Tri) (hc : Closed O) (σ : Bool) : Closed (O.map (flipIf σ)) := by
  cases σ
  · have : O.map (flipIf false) = O := by
      have e : flipIf false = id := by funext t; rfl
      rw [e, List.map_id]
    rw [this]; exact hc
  · have : O.map (flipIf true) = O.map swap13 := by
      have e : flipIf true = swap13 := by funext t; rfl
      rw [e]
    rw [this]; exact closed_swap13 O hc

/-- what `check_face_normal_orientation` leaves behind on a connected, edge-manifold, orientable
    surface, whatever the input windings: a closed (consistently oriented) surface whose signed
    volume is ≥ 0 — i.e. (by `vol_eq_normal_flux`) the normals recomputed from the windings
    have non-negative total flux: they point out of the cell -/
theorem orient_outward (pos : Nat → V3 R) (O T : List Tri) (σ : Bool) (nb : Nat → Nat → Nat → Option Nat)
    (hclosed : Closed O) (hnb : NbGood O nb) (hlen : T.length = O.length)
    (hT : ∀ (f : Nat) (t : Tri), O[f]? = some t → T[f]? = some t ∨ T[f]? = some (swap13 t))
    (hseed : ∀ t, O[0]? = some t → T[0]? = some (flipIf σ t))
    (s0 s : FS) (h0 : floodInit nb T = some s0) (fuel : Nat) (hrun : floodRun nb fuel s0 = some s)
    (hall : ∀ f, f < O.length → s.checked[f]? = some true) :
    Closed (finalFlip pos s.faces) ∧ 0 ≤ volSum pos (finalFlip pos s.faces) := by
  have hf := orient_all_consistent O T σ nb hnb hlen hT hseed s0 s h0 fuel hrun hall
  have hc : Closed s.faces := by rw [hf]; exact closed_flipAll O hclosed σ
  obtain ⟨h1, h2, h3⟩ := flip_makes_nonneg pos s.faces
  refine ⟨?_, by rw [← orient_sum_eq_volume_sum]; exact h1⟩
  by_cases hneg : svSum pos s.faces < 0
  · rw [(h2 hneg).1]; exact closed_swap23 _ hc
  · rw [h3 hneg]; exact hc

/-! ### the orientation theorem without hypotheses on the surface

`orient_consistent_partial` / `orient_all_consistent` / `orient_outward` above take a consistent orientation `O` of the
surface and the property `NbGood O nb` of the edge lookup as HYPOTHESES, and assume that the loop returned.  The theorems
below need none of that: their only hypotheses are the tests the code itself performs in `initialize_cell_properties(true)`
(`GatePre`: no repeated node, `generate_edge_set` met no third face, `is_manifold`: two faces per edge and V − E + F = 2 —
as modelled in `Model/Gate.lean`, which of them exist being read from the source) and, for the orientation, the test that
the flood fill reached every face.  The flood fill is the one of `Model/Geometry.lean` (`floodInit / floodRun / finalFlip`);
C13's gate model `Gate.orientChecked` calls these very definitions, so C13's lemmas apply verbatim
(`Lemmas/C12_OrientClosed.lean`): the flood fill builds a spanning tree of consistent adjacencies (`floodRun_tree`), which
on a surface of Euler characteristic 2 extends to ALL adjacencies (`sphere_oriented`: orientability is proved, not
assumed).  New here: the loop never reaches an undefined state and ends within the fuel (`floodStep_progress`,
`floodRun_some`: |queue| + 3·#unchecked decreases), so that nothing about the run is assumed any more. -/

/-- **termination within the fuel, no undefined behaviour**: on every triangle list that passes the tests before the flood
    fill, the initial state exists (the three edge lookups of the seed succeed), the `while` loop ends within the
    `3·F + 4` iterations the model allows (`floodRun` returns `none` on exhausted fuel and on every out-of-range access,
    empty-vector access or failed edge lookup), the queue is then empty and the faces are the input faces up to reversal -/
theorem orient_terminates (n : Nat) (T : List Tri) (es : List EdgeRec) (hpre : GatePre n T es) :
    ∃ s0 s, floodInit (nbr es) T = some s0 ∧ floodRun (nbr es) (3 * T.length + 4) s0 = some s ∧ s.queue = [] ∧
      s.faces.length = T.length ∧ s.checked.length = T.length ∧
      ∀ (f : Nat) (t : Tri), T[f]? = some t → s.faces[f]? = some t ∨ s.faces[f]? = some (swap13 t) := by
  obtain ⟨s0, s, G, h0, hs, hq, hJ⟩ := flood_terminates hpre
  exact ⟨s0, s, h0, hs, hq, hJ.lenF, hJ.lenC, hJ.shape⟩

/-- **orient_consistent** (closes `orient_consistent_partial`): for EVERY triangle list `T` with node ids in range — in
    particular for every mix of input windings — that passes the tests of `initialize_cell_properties(true)`, the flood
    fill of `check_face_normal_orientation` is defined and terminates within its fuel, and if it reached every face (the
    code's test after the loop) the faces it leaves are `T` face by face up to reversal and form a consistently oriented
    surface: every half-edge is matched by its reverse (`Closed`) and none occurs twice.  After the global sign test the
    surface is still consistently oriented and its signed volume is ≥ 0 (`orient_outward` without `NbGood`, `hall`, `O`).
    No connectedness, edge-manifoldness or orientability hypothesis: they are tested by the code, resp. proved. -/
theorem orient_consistent (pos : Nat → V3 R) (n : Nat) (T : List Tri) (es : List EdgeRec)
    (hin : ∀ t ∈ T, t.1 < n ∧ t.2.1 < n ∧ t.2.2 < n) (hpre : GatePre n T es) :
    ∃ s0 s, floodInit (nbr es) T = some s0 ∧ floodRun (nbr es) (3 * T.length + 4) s0 = some s ∧ s.queue = [] ∧
      (∀ (f : Nat) (t : Tri), T[f]? = some t → s.faces[f]? = some t ∨ s.faces[f]? = some (swap13 t)) ∧
      (s.checked.all id = true →
        Closed s.faces ∧ (he s.faces).Nodup ∧
        Closed (finalFlip pos s.faces) ∧ (he (finalFlip pos s.faces)).Nodup ∧ C13.Rew (finalFlip pos s.faces) T ∧
        0 ≤ volSum pos (finalFlip pos s.faces)) := by
  obtain ⟨s0, s, G, h0, hs, hq, hJ⟩ := flood_terminates hpre
  refine ⟨s0, s, h0, hs, hq, hJ.shape, fun hall => ?_⟩
  obtain ⟨c1, n1, _⟩ := flood_closed hin hpre hJ hall s.faces (Or.inl rfl)
  have hflip : finalFlip pos s.faces = s.faces ∨ finalFlip pos s.faces = s.faces.map swap23 := by
    obtain ⟨_, h2, h3⟩ := flip_makes_nonneg pos s.faces
    by_cases hneg : svSum pos s.faces < 0
    · right; exact (h2 hneg).1
    · left; exact h3 hneg
  obtain ⟨c2, n2, r2⟩ := flood_closed hin hpre hJ hall _ hflip
  refine ⟨c1, n1, c2, n2, r2, ?_⟩
  rw [← orient_sum_eq_volume_sum]
  exact (flip_makes_nonneg pos s.faces).1

/-- the same for the whole of `initialize_cell_properties(true)` as modelled by `Gate.accept` (tests, flood fill, test that
    every face was reached, sign test): the outcome is never the model's `undefined` (out-of-range access, empty-vector
    access, failed edge lookup, exhausted fuel), and a mesh that is accepted leaves consistently oriented, outward, and
    equal to the input face by face up to reversal -/
theorem orient_outward_proved (pos : Nat → V3 R) (n : Nat) (T : List Tri) :
    Gate.accept pos n T ≠ .error .undefined ∧
    ((∀ t ∈ T, t.1 < n ∧ t.2.1 < n ∧ t.2.2 < n) → ∀ T', Gate.accept pos n T = .ok T' →
      Closed T' ∧ (he T').Nodup ∧ C13.Rew T' T ∧ 0 ≤ volSum pos T') := by
  rcases accept_unfold pos n T with ⟨es, hpre, hacc⟩ | h | h
  · obtain ⟨s0', s', G', h0', hs', hJ', hoc⟩ := orientChecked_eq pos hpre
    rw [hacc, hoc]
    constructor
    · cases s'.checked.all id <;> simp
    · intro hin T' hT'
      obtain ⟨s0, s, h0, hs, _, _, hcl⟩ := orient_consistent pos n T es hin hpre
      have e0 : s0' = s0 := Option.some.inj (h0'.symm.trans h0)
      subst e0
      have e1 : s' = s := Option.some.inj (hs'.symm.trans hs)
      subst e1
      cases hck : s'.checked.all id with
      | false => simp [hck] at hT'
      | true =>
        simp only [hck, if_true, Except.ok.injEq] at hT'
        subst hT'
        obtain ⟨_, _, c2, n2, r2, v2⟩ := hcl hck
        exact ⟨c2, n2, r2, v2⟩
  · rw [h]; exact ⟨by simp, fun _ T' hT' => by simp at hT'⟩
  · rw [h]; exact ⟨by simp, fun _ T' hT' => by simp at hT'⟩

/-! ## normals -/

/-- the stored normal of a non-degenerate face is the unit vector along (p₂−p₁)×(p₃−p₁): it is
    determined by the winding -/
theorem normal_along_winding (fn : Fn R) (hf : SqrtSpec fn) (pos : Nat → V3 R) (t : Tri)
    (hnd : 0 < V3.normSq (rawNormal pos t)) :
    faceNormal fn pos t * (2 * faceArea fn pos t) = rawNormal pos t ∧
    V3.normSq (faceNormal fn pos t) = 1 ∧ 0 < faceArea fn pos t := by
  have hq0 : fn.sqrt (V3.normSq (rawNormal pos t)) ≠ 0 := fun h0 =>
    (ne_of_gt hnd) (hf.sqrt_eq_zero _ hnd.le h0)
  have hqpos : 0 < fn.sqrt (V3.normSq (rawNormal pos t)) := lt_of_le_of_ne (hf.nonneg _ hnd.le) (Ne.symm hq0)
  have hsq := hf.sq _ hnd.le
  rw [faceNormal_eq, faceArea_eq, if_neg hq0]
  generalize fn.sqrt (V3.normSq (rawNormal pos t)) = q at *
  generalize rawNormal pos t = nrm at *
  refine ⟨?_, ?_, by positivity⟩
  · apply V3.ext' <;> simp <;> field_simp
  · simp only [V3.normSq_def, V3.sdiv_x, V3.sdiv_y, V3.sdiv_z] at hsq ⊢
    rw [div_mul_div_comm, div_mul_div_comm, div_mul_div_comm, ← add_div, ← add_div, ← hsq]
    exact div_self (mul_ne_zero hq0 hq0)

/-- discrete divergence theorem in the direction that is used, for EVERY triangle list: the signed sum the code
    accumulates (6 × signed volume) is the flux of the stored normals seen from the reference point
    `o = get_volume_reference_point()`, Σ_f 2·area_f·((p₁−o)·n̂_f) -/
theorem vol_eq_normal_flux_centred (fn : Fn R) (hf : SqrtSpec fn) (pos : Nat → V3 R) (T : List Tri)
    (hnd : ∀ t ∈ T, 0 < V3.normSq (rawNormal pos t)) :
    volSum pos T = (T.map (fun t => 2 * faceArea fn pos t *
      V3.dot (pos t.1 - refPoint pos T) (faceNormal fn pos t))).sum := by
  rw [volSum_eq]; congr 1
  apply List.map_congr_left; intro t ht
  obtain ⟨h1, _, _⟩ := normal_along_winding fn hf pos t (hnd t ht)
  have hn : rawNormal (rel pos (refPoint pos T)) t = rawNormal pos t := by
    simp only [rawNormal, rel]; congr 1 <;> (apply V3.ext' <;> simp)
  rw [tdet_eq_dot_normal, hn, ← h1, V3.dot_smul_right]; rfl

/-- … and for a closed surface the flux Σ_f 2·area_f·(p₁·n̂_f) itself (the flux of a constant vector through a closed
    surface vanishes) -/
theorem vol_eq_normal_flux (fn : Fn R) (hf : SqrtSpec fn) (pos : Nat → V3 R) (T : List Tri) (hc : Closed T)
    (hnd : ∀ t ∈ T, 0 < V3.normSq (rawNormal pos t)) :
    volSum pos T = (T.map (fun t => 2 * faceArea fn pos t * V3.dot (pos t.1) (faceNormal fn pos t))).sum := by
  rw [volSum_closed pos T hc]; congr 1
  apply List.map_congr_left; intro t ht
  obtain ⟨h1, _, _⟩ := normal_along_winding fn hf pos t (hnd t ht)
  rw [tdet_eq_dot_normal, ← h1, V3.dot_smul_right]

theorem normal_translate (fn : Fn R) (pos : Nat → V3 R) (d : V3 R) (t : Tri) :
    faceNormal fn (fun i => pos i + d) t = faceNormal fn pos t := by
  rw [faceNormal_eq, faceNormal_eq, rawNormal_translate]

/-- the normals follow the cell under every rotation -/
theorem normal_rotate (fn : Fn R) {M : V3 R → V3 R} (hM : Rot M) (pos : Nat → V3 R) (t : Tri) :
    faceNormal fn (fun i => M (pos i)) t = M (faceNormal fn pos t) := by
  rw [faceNormal_eq, faceNormal_eq, rawNormal_rot hM, hM.toLinIso.normSq_map]
  split_ifs
  · exact hM.toLinIso.map_zero.symm
  · exact hM.toLinIso.map_sdiv _ _

/-! ## longest axis -/

/-- the covariance matrix handed to the eigen-solver follows the cell: for every linear isometry
    `M` and translation `d`, C′(M v) = M (C v), where C′ is built from the moved nodes and the
    moved reference point (the centroid, which moves along by `centroid_rotate`/`centroid_translate`) -/
theorem cov_follows (M : V3 R → V3 R) (hM : LinIso M) (d c : V3 R) (ps : List (V3 R)) (v : V3 R) :
    covApply (covRows (covOf (M c + d) (ps.map (fun p => M p + d)))) (M v)
      = M (covApply (covRows (covOf c ps)) v) := by
  have : ps.map (fun p => M p + d) = (ps.map M).map (· + d) := by rw [List.map_map]; rfl
  rw [this, covApply_translate, covApply_linIso hM]

/-- PARTIAL (the eigen-solver `gte::SymmetricEigensolver3x3` and the selection of the column are
    opaque: they enter as the hypotheses that the returned `v`, `v'` are unit eigenvectors for
    eigenvalues `l`, `l'` that are maximal).  If the top eigen-direction of the original cell is
    unique (its eigenspace is the line through `v`), the axis of the rotated / reflected /
    translated cell is ± the rotated axis. -/
theorem longest_axis_follows_partial (M N : V3 R → V3 R) (hM : LinIso M) (hN : LinIso N)
    (hMN : ∀ x, M (N x) = x) (hNM : ∀ x, N (M x) = x) (d c : V3 R) (ps : List (V3 R))
    (v v' : V3 R) (l l' : R)
    (hv : covApply (covRows (covOf c ps)) v = v * l) (hv1 : V3.normSq v = 1)
    (hv' : covApply (covRows (covOf (M c + d) (ps.map (fun p => M p + d)))) v' = v' * l') (hv1' : V3.normSq v' = 1)
    (hmax : ∀ w m, V3.normSq w ≠ 0 → covApply (covRows (covOf c ps)) w = w * m → m ≤ l)
    (hmax' : ∀ w m, V3.normSq w ≠ 0 →
      covApply (covRows (covOf (M c + d) (ps.map (fun p => M p + d)))) w = w * m → m ≤ l')
    (huniq : ∀ w, covApply (covRows (covOf c ps)) w = w * l → ∃ k : R, w = v * k) :
    v' = M v ∨ v' = -(M v) := by
  have hone : (1 : R) ≠ 0 := one_ne_zero
  -- M v is an eigenvector of the moved matrix for l
  have e1 : covApply (covRows (covOf (M c + d) (ps.map (fun p => M p + d)))) (M v) = M v * l := by
    rw [cov_follows M hM, hv, hM.map_smul]
  have h1 : l ≤ l' := hmax' (M v) l (by rw [hM.normSq_map, hv1]; exact hone) e1
  -- N v' is an eigenvector of the original matrix for l'
  have e2 : covApply (covRows (covOf c ps)) (N v') = N v' * l' := by
    have := cov_follows M hM d c ps (N v')
    rw [hMN, hv'] at this
    have h3 := congrArg N this
    rw [hNM, ← hN.map_smul] at h3
    exact h3.symm
  have h2 : l' ≤ l := hmax (N v') l' (by rw [hN.normSq_map, hv1']; exact hone) e2
  have hl : l' = l := le_antisymm h2 h1
  rw [hl] at e2
  obtain ⟨k, hk⟩ := huniq (N v') e2
  have hk2 : k * k = 1 := by
    have := hN.normSq_map v'
    rw [hk, normSq_smul, hv1, hv1'] at this
    linarith
  have hv'eq : v' = M v * k := by
    have := congrArg M hk
    rw [hMN, ← hM.map_smul] at this
    exact this
  have : k = 1 ∨ k = -1 := by
    have h0 : (k - 1) * (k + 1) = 0 := by ring_nf; linarith
    rcases mul_eq_zero.mp h0 with h | h
    · left; linarith
    · right; linarith
  rcases this with rfl | rfl
  · left; rw [hv'eq, V3.smul_one']
  · right; rw [hv'eq]; apply V3.ext' <;> simp

/-! ## the selection of the returned eigenvector column (`Gen.Geometry.axisColumn`, regenerated from the if-chain
      at the end of `cell::get_cell_longest_axis`) -/

/-- the matrix handed to the eigen-solver is positive semi-definite for every node cloud and reference point:
    v·(C v) = (1/n) Σ ((p − c)·v)² ≥ 0 -/
theorem cov_positive_semidefinite (c : V3 R) (ps : List (V3 R)) (v : V3 R) :
    V3.dot v (covApply (covRows (covOf c ps)) v)
        = (ps.map (fun p => V3.dot (p - c) v * V3.dot (p - c) v)).sum / (ps.length : R)
      ∧ 0 ≤ V3.dot v (covApply (covRows (covOf c ps)) v) :=
  ⟨cov_quadratic c ps v, cov_psd c ps v⟩

/-- so every eigenvalue is ≥ 0 and the `std::abs` of the selection compares the eigenvalues themselves -/
theorem cov_eigenvalues_nonneg (c : V3 R) (ps : List (V3 R)) (v : V3 R) (l : R)
    (hv : covApply (covRows (covOf c ps)) v = v * l) (hn : V3.normSq v ≠ 0) : 0 ≤ l ∧ sabs l = l :=
  ⟨cov_eigenvalue_nonneg c ps v l hv hn, sabs_of_nonneg (cov_eigenvalue_nonneg c ps v l hv hn)⟩

/-- What `gte::SymmetricEigensolver3x3` is ASSUMED to hand back for the symmetric operator `C` (the solver is opaque;
    the oracle checks this per executed instance through the eigen-residual): three unit eigenvectors (the columns)
    with their eigenvalues, and no eigenvalue of `C` is missing. -/
structure EigOut (C : V3 R → V3 R) (E : V3 R) (cols : V3 R × V3 R × V3 R) : Prop where
  eig : ∀ k, k < 3 → C (colOf cols k) = colOf cols k * comp E k
  unit : ∀ k, k < 3 → V3.normSq (colOf cols k) = 1
  complete : ∀ w m, V3.normSq w ≠ 0 → C w = w * m → ∃ k, k < 3 ∧ m = comp E k

/-- the if-chain returns the column of the largest eigenvalue whenever that eigenvalue is strictly the largest, and that
    eigenvalue bounds every eigenvalue of the matrix (the `hmax` hypothesis of `longest_axis_follows_partial`) -/
theorem selected_column_is_top (c : V3 R) (ps : List (V3 R)) (E : V3 R) (cols : V3 R × V3 R × V3 R)
    (h : EigOut (covApply (covRows (covOf c ps))) E cols) (i : Nat) (hi : i < 3)
    (hstrict : ∀ j, j < 3 → j ≠ i → comp E j < comp E i) :
    axisColumn E = i ∧
      ∀ w m, V3.normSq w ≠ 0 → covApply (covRows (covOf c ps)) w = w * m → m ≤ comp E i := by
  have hnn : ∀ k, k < 3 → sabs (comp E k) = comp E k := fun k hk =>
    sabs_of_nonneg (cov_eigenvalue_nonneg c ps _ _ (h.eig k hk) (by rw [h.unit k hk]; exact one_ne_zero))
  refine ⟨axisColumn_strict_max E i hi (fun j hj hji => ?_), fun w m hw hwm => ?_⟩
  · rw [hnn j hj, hnn i hi]; exact hstrict j hj hji
  · obtain ⟨k, hk, rfl⟩ := h.complete w m hw hwm
    by_cases hki : k = i
    · rw [hki]
    · exact le_of_lt (hstrict k hk hki)

/-- `mat33::eigen_decomposition` asks for ascending eigenvalues: the column returned is then column 2 -/
theorem selected_column_sorted (c : V3 R) (ps : List (V3 R)) (E : V3 R) (cols : V3 R × V3 R × V3 R)
    (h : EigOut (covApply (covRows (covOf c ps))) E cols) (h1 : E.x ≤ E.y) (h2 : E.y ≤ E.z) :
    axisColumn E = 2 := by
  have h0 : 0 ≤ E.x := by
    have := cov_eigenvalue_nonneg c ps _ _ (h.eig 0 (by omega)) (by rw [h.unit 0 (by omega)]; exact one_ne_zero)
    simpa [comp] using this
  exact axisColumn_sorted E h0 h1 h2

/-- the tie the if-chain does not resolve: the else-branch returns column 2 even when the eigenvalues of columns 0 and 1
    are equal and LARGER — the only case in which the selected column is not a maximum; the longest axis is then not
    unique (the property excludes it) and the ascending order of the solver never produces it -/
theorem selection_max_or_tie (E : V3 R) :
    (∀ j, j < 3 → sabs (comp E j) ≤ sabs (comp E (axisColumn E))) ∨
      (sabs E.x = sabs E.y ∧ sabs E.z < sabs E.x ∧ axisColumn E = 2) :=
  axisColumn_max_or_tie E

/-- THE LONGEST AXIS FOLLOWS THE CELL (selection included).  `get_cell_longest_axis` of the moved cell is ± the moved
    axis of the original cell, for every linear isometry `M` (rotation or reflection) and translation `d`, whenever the
    largest eigenvalue is strictly the largest in both outputs of the solver and its eigenspace is a line.  Compared with
    `longest_axis_follows_partial` the column selection is no longer a hypothesis: it is the regenerated if-chain, and the
    maximality of the selected eigenvalue is derived (positive semi-definiteness + `EigOut`).  Still assumed: `EigOut` of
    the opaque solver, for both matrices. -/
theorem longest_axis_follows (M N : V3 R → V3 R) (hM : LinIso M) (hN : LinIso N)
    (hMN : ∀ x, M (N x) = x) (hNM : ∀ x, N (M x) = x) (d c : V3 R) (ps : List (V3 R))
    (E E' : V3 R) (cols cols' : V3 R × V3 R × V3 R)
    (h : EigOut (covApply (covRows (covOf c ps))) E cols)
    (h' : EigOut (covApply (covRows (covOf (M c + d) (ps.map (fun p => M p + d))))) E' cols')
    (i i' : Nat) (hi : i < 3) (hi' : i' < 3)
    (hstrict : ∀ j, j < 3 → j ≠ i → comp E j < comp E i)
    (hstrict' : ∀ j, j < 3 → j ≠ i' → comp E' j < comp E' i')
    (huniq : ∀ w, covApply (covRows (covOf c ps)) w = w * comp E i → ∃ k : R, w = colOf cols i * k) :
    colOf cols' (axisColumn E') = M (colOf cols (axisColumn E)) ∨
      colOf cols' (axisColumn E') = -(M (colOf cols (axisColumn E))) := by
  obtain ⟨hs, hmax⟩ := selected_column_is_top c ps E cols h i hi hstrict
  obtain ⟨hs', hmax'⟩ := selected_column_is_top (M c + d) (ps.map (fun p => M p + d)) E' cols' h' i' hi' hstrict'
  rw [hs, hs']
  exact longest_axis_follows_partial M N hM hN hMN hNM d c ps (colOf cols i) (colOf cols' i') (comp E i) (comp E' i')
    (h.eig i hi) (h.unit i hi) (h'.eig i' hi') (h'.unit i' hi') hmax hmax' huniq

/-- The usual contract of a symmetric eigen-solver, and all that is still assumed about `gte::SymmetricEigensolver3x3`:
    the three columns are orthonormal and each is an eigenvector for the eigenvalue of the same index. -/
structure EigSolverSpec (C : V3 R → V3 R) (E : V3 R) (cols : V3 R × V3 R × V3 R) : Prop where
  eig : ∀ k, k < 3 → C (colOf cols k) = colOf cols k * comp E k
  ortho : Orthonormal3 cols.1 cols.2.1 cols.2.2

/-- "no eigenvalue is missing" (`EigOut.complete`) is not an assumption about the solver: three orthonormal eigenvectors of
    the symmetric matrix of `covRows` carry its whole spectrum (an orthonormal triple spans the space: dual-basis expansion
    and Gram determinant) -/
theorem eigOut_of_orthonormal (c : V3 R) (ps : List (V3 R)) (E : V3 R) (cols : V3 R × V3 R × V3 R)
    (h : EigSolverSpec (covApply (covRows (covOf c ps))) E cols) :
    EigOut (covApply (covRows (covOf c ps))) E cols := by
  refine ⟨h.eig, fun k hk => ?_, fun w m hw hwm => ?_⟩
  · obtain rfl | rfl | rfl : k = 0 ∨ k = 1 ∨ k = 2 := by omega
    · exact h.ortho.aa
    · exact h.ortho.bb
    · exact h.ortho.cc
  · have e0 := h.eig 0 (by omega); have e1 := h.eig 1 (by omega); have e2 := h.eig 2 (by omega)
    simp only [colOf, comp] at e0 e1 e2
    norm_num at e0 e1 e2
    rcases spectrum_complete (covOf c ps) cols.1 cols.2.1 cols.2.2 E.x E.y E.z h.ortho e0 e1 e2 w m hw hwm with r | r | r
    · exact ⟨0, by omega, by simpa [comp] using r⟩
    · exact ⟨1, by omega, by simpa [comp] using r⟩
    · exact ⟨2, by omega, by simpa [comp] using r⟩

/-- the longest axis follows the cell, assuming of the solver only `EigSolverSpec` (orthonormal eigenvectors) -/
theorem longest_axis_follows_orthonormal (M N : V3 R → V3 R) (hM : LinIso M) (hN : LinIso N)
    (hMN : ∀ x, M (N x) = x) (hNM : ∀ x, N (M x) = x) (d c : V3 R) (ps : List (V3 R))
    (E E' : V3 R) (cols cols' : V3 R × V3 R × V3 R)
    (h : EigSolverSpec (covApply (covRows (covOf c ps))) E cols)
    (h' : EigSolverSpec (covApply (covRows (covOf (M c + d) (ps.map (fun p => M p + d))))) E' cols')
    (i i' : Nat) (hi : i < 3) (hi' : i' < 3)
    (hstrict : ∀ j, j < 3 → j ≠ i → comp E j < comp E i)
    (hstrict' : ∀ j, j < 3 → j ≠ i' → comp E' j < comp E' i')
    (huniq : ∀ w, covApply (covRows (covOf c ps)) w = w * comp E i → ∃ k : R, w = colOf cols i * k) :
    colOf cols' (axisColumn E') = M (colOf cols (axisColumn E)) ∨
      colOf cols' (axisColumn E') = -(M (colOf cols (axisColumn E))) :=
  longest_axis_follows M N hM hN hMN hNM d c ps E E' cols cols' (eigOut_of_orthonormal c ps E cols h)
    (eigOut_of_orthonormal _ _ E' cols' h') i i' hi hi' hstrict hstrict' huniq

theorem ortho_colOf {cols : V3 R × V3 R × V3 R} (h : Orthonormal3 cols.1 cols.2.1 cols.2.2) (j k : Nat) (hj : j < 3) (hk : k < 3)
    (hjk : j ≠ k) : V3.dot (colOf cols j) (colOf cols k) = 0 := by
  have ab := h.ab; have bc := h.bc; have ca := h.ca
  have ba : V3.dot cols.2.1 cols.1 = 0 := by rw [V3.dot_comm]; exact ab
  have cb : V3.dot cols.2.2 cols.2.1 = 0 := by rw [V3.dot_comm]; exact bc
  have ac : V3.dot cols.1 cols.2.2 = 0 := by rw [V3.dot_comm]; exact ca
  (obtain rfl | rfl | rfl : j = 0 ∨ j = 1 ∨ j = 2 := by omega) <;>
    (obtain rfl | rfl | rfl : k = 0 ∨ k = 1 ∨ k = 2 := by omega) <;>
    first | exact absurd rfl hjk | (simp only [colOf]; norm_num; assumption)

/-- The strict maximum of the spectrum FOLLOWS the cell: if the largest eigenvalue of the original cell is strictly the
    largest and its eigenspace is a line, then whatever orthonormal eigen-decomposition the solver returns for the moved
    cell has a strictly largest eigenvalue too, equal to the original one.  (The moved matrix has the same spectrum —
    `cov_follows` + `eigOut_of_orthonormal` — and two orthogonal unit eigenvectors cannot both lie on the moved line.) -/
theorem strict_max_follows (M N : V3 R → V3 R) (hM : LinIso M) (hN : LinIso N)
    (hMN : ∀ x, M (N x) = x) (hNM : ∀ x, N (M x) = x) (d c : V3 R) (ps : List (V3 R))
    (E E' : V3 R) (cols cols' : V3 R × V3 R × V3 R)
    (h : EigSolverSpec (covApply (covRows (covOf c ps))) E cols)
    (h' : EigSolverSpec (covApply (covRows (covOf (M c + d) (ps.map (fun p => M p + d))))) E' cols')
    (i : Nat) (hi : i < 3)
    (hstrict : ∀ j, j < 3 → j ≠ i → comp E j < comp E i)
    (huniq : ∀ w, covApply (covRows (covOf c ps)) w = w * comp E i → ∃ k : R, w = colOf cols i * k) :
    ∃ i', i' < 3 ∧ comp E' i' = comp E i ∧ ∀ j, j < 3 → j ≠ i' → comp E' j < comp E' i' := by
  have ho := eigOut_of_orthonormal c ps E cols h
  have ho' := eigOut_of_orthonormal _ _ E' cols' h'
  have hone : (1 : R) ≠ 0 := one_ne_zero
  -- A. N col'_k is a unit eigenvector of the original matrix for E'_k
  have hA : ∀ k, k < 3 → covApply (covRows (covOf c ps)) (N (colOf cols' k)) = N (colOf cols' k) * comp E' k := by
    intro k hk
    have := cov_follows M hM d c ps (N (colOf cols' k))
    rw [hMN, h'.eig k hk] at this
    have h3 := congrArg N this
    rw [hNM, ← hN.map_smul] at h3
    exact h3.symm
  have hAn : ∀ k, k < 3 → V3.normSq (N (colOf cols' k)) = 1 := fun k hk => by rw [hN.normSq_map]; exact ho'.unit k hk
  have hle : ∀ k, k < 3 → comp E' k ≤ comp E i := by
    intro k hk
    obtain ⟨m, hm, hEm⟩ := ho.complete _ _ (by rw [hAn k hk]; exact hone) (hA k hk)
    rw [hEm]
    by_cases hmi : m = i
    · rw [hmi]
    · exact le_of_lt (hstrict m hm hmi)
  -- B. M col_i is a unit eigenvector of the moved matrix for E_i
  have hB : covApply (covRows (covOf (M c + d) (ps.map (fun p => M p + d)))) (M (colOf cols i)) = M (colOf cols i) * comp E i := by
    rw [cov_follows M hM, h.eig i hi, hM.map_smul]
  obtain ⟨k0, hk0, hEk0⟩ := ho'.complete _ _ (by rw [hM.normSq_map, ho.unit i hi]; exact hone) hB
  refine ⟨k0, hk0, hEk0.symm, fun j hj hjk => ?_⟩
  rw [← hEk0]
  rcases lt_or_eq_of_le (hle j hj) with hlt | heq
  · exact hlt
  · exfalso
    -- C. both N col'_j and N col'_k0 would lie on the line through col_i although they are orthogonal unit vectors
    have ej := hA j hj; rw [heq] at ej
    have ek := hA k0 hk0; rw [← hEk0] at ek
    obtain ⟨a, ha⟩ := huniq _ ej
    obtain ⟨b, hb⟩ := huniq _ ek
    have hdot : V3.dot (N (colOf cols' j)) (N (colOf cols' k0)) = 0 := by
      rw [hN.dot_map]; exact ortho_colOf h'.ortho j k0 hj hk0 hjk
    have hvv : V3.dot (colOf cols i) (colOf cols i) = 1 := ho.unit i hi
    rw [ha, hb, V3.dot_smul_left, V3.dot_smul_right, hvv] at hdot
    have hna := hAn j hj
    rw [ha] at hna
    have hna' : a * a = 1 := by
      have : V3.normSq (colOf cols i * a) = a * a * V3.dot (colOf cols i) (colOf cols i) := by
        simp only [V3.normSq_def, V3.dot_def, V3.smul_x, V3.smul_y, V3.smul_z]; ring
      rw [this, hvv] at hna; linarith
    have hnb := hAn k0 hk0
    rw [hb] at hnb
    have hnb' : b * b = 1 := by
      have : V3.normSq (colOf cols i * b) = b * b * V3.dot (colOf cols i) (colOf cols i) := by
        simp only [V3.normSq_def, V3.dot_def, V3.smul_x, V3.smul_y, V3.smul_z]; ring
      rw [this, hvv] at hnb; linarith
    have hab : a * b = 0 := by linarith
    have : (a * b) * (a * b) = 1 := by
      calc (a * b) * (a * b) = (a * a) * (b * b) := by ring
        _ = 1 := by rw [hna', hnb']; ring
    rw [hab] at this
    norm_num at this

/-- THE LONGEST AXIS FOLLOWS THE CELL — final form.  Hypotheses about the ORIGINAL cell only (largest eigenvalue of its node
    covariance strictly the largest, eigenspace a line: "whenever it is unique") and the contract `EigSolverSpec` of the opaque
    solver for the two matrices; every linear isometry `M` (rotations and reflections), every translation `d`, every node cloud. -/
theorem longest_axis_follows_final (M N : V3 R → V3 R) (hM : LinIso M) (hN : LinIso N)
    (hMN : ∀ x, M (N x) = x) (hNM : ∀ x, N (M x) = x) (d c : V3 R) (ps : List (V3 R))
    (E E' : V3 R) (cols cols' : V3 R × V3 R × V3 R)
    (h : EigSolverSpec (covApply (covRows (covOf c ps))) E cols)
    (h' : EigSolverSpec (covApply (covRows (covOf (M c + d) (ps.map (fun p => M p + d))))) E' cols')
    (i : Nat) (hi : i < 3)
    (hstrict : ∀ j, j < 3 → j ≠ i → comp E j < comp E i)
    (huniq : ∀ w, covApply (covRows (covOf c ps)) w = w * comp E i → ∃ k : R, w = colOf cols i * k) :
    colOf cols' (axisColumn E') = M (colOf cols (axisColumn E)) ∨
      colOf cols' (axisColumn E') = -(M (colOf cols (axisColumn E))) := by
  obtain ⟨i', hi', _, hstrict'⟩ := strict_max_follows M N hM hN hMN hNM d c ps E E' cols cols' h h' i hi hstrict huniq
  exact longest_axis_follows_orthonormal M N hM hN hMN hNM d c ps E E' cols cols' h h' i i' hi hi' hstrict hstrict' huniq

/-! ## the return statement: `return longest_axis.normalize();` (`Gen.NodeNormals.vnormalize`, regenerated from `vec3::normalize`) -/

/-- what `get_cell_longest_axis` returns, given the output `(E, cols)` of `mat33::eigen_decomposition` -/
def longestAxisOf (fx : FX R) (E : V3 R) (cols : V3 R × V3 R × V3 R) : V3 R :=
  Simu.Gen.NodeNormals.vnormalize fx (colOf cols (axisColumn E))

/-- `vec3::normalize` leaves a unit vector unchanged (exact arithmetic; `sqrt 1 = 1`, and `1 == 0` is false) -/
theorem vnormalize_unit (fx : FX R) (hs : fx.sqrt 1 = 1) (he : fx.eqb 1 0 = false) (v : V3 R) (hv : V3.normSq v = 1) :
    Simu.Gen.NodeNormals.vnormalize fx v = v := by
  unfold Simu.Gen.NodeNormals.vnormalize
  simp only [hv, hs, lit_zero, he, if_true]
  apply V3.ext' <;> simp

/-- the function returns exactly the selected column of the solver's output -/
theorem longestAxis_is_selected_column (fx : FX R) (hs : fx.sqrt 1 = 1) (he : fx.eqb 1 0 = false)
    (C : V3 R → V3 R) (E : V3 R) (cols : V3 R × V3 R × V3 R) (h : EigSolverSpec C E cols) :
    longestAxisOf fx E cols = colOf cols (axisColumn E) := by
  have hk := axisColumn_lt_three E
  have hu : V3.normSq (colOf cols (axisColumn E)) = 1 := by
    (obtain h0 | h1 | h2 : axisColumn E = 0 ∨ axisColumn E = 1 ∨ axisColumn E = 2 := by omega)
    · rw [h0]; exact h.ortho.aa
    · rw [h1]; exact h.ortho.bb
    · rw [h2]; exact h.ortho.cc
  exact vnormalize_unit fx hs he _ hu

/-- the longest axis REPORTED by the function follows the cell (selection, normalisation and spectrum inside the model) -/
theorem reported_longest_axis_follows (fx : FX R) (hs : fx.sqrt 1 = 1) (he : fx.eqb 1 0 = false)
    (M N : V3 R → V3 R) (hM : LinIso M) (hN : LinIso N)
    (hMN : ∀ x, M (N x) = x) (hNM : ∀ x, N (M x) = x) (d c : V3 R) (ps : List (V3 R))
    (E E' : V3 R) (cols cols' : V3 R × V3 R × V3 R)
    (h : EigSolverSpec (covApply (covRows (covOf c ps))) E cols)
    (h' : EigSolverSpec (covApply (covRows (covOf (M c + d) (ps.map (fun p => M p + d))))) E' cols')
    (i : Nat) (hi : i < 3)
    (hstrict : ∀ j, j < 3 → j ≠ i → comp E j < comp E i)
    (huniq : ∀ w, covApply (covRows (covOf c ps)) w = w * comp E i → ∃ k : R, w = colOf cols i * k) :
    longestAxisOf fx E' cols' = M (longestAxisOf fx E cols) ∨ longestAxisOf fx E' cols' = -(M (longestAxisOf fx E cols)) := by
  rw [longestAxis_is_selected_column fx hs he _ E cols h, longestAxis_is_selected_column fx hs he _ E' cols' h']
  exact longest_axis_follows_final M N hM hN hMN hNM d c ps E E' cols cols' h h' i hi hstrict huniq

/-! ## every rotation / reflection matrix is covered -/

/-- a matrix whose first two columns are orthonormal and whose third column is their cross product
    (every rotation matrix has this form) is a `Rot` -/
theorem rotation_matrix_is_rot (c1 c2 : V3 R) (h11 : V3.dot c1 c1 = 1) (h22 : V3.dot c2 c2 = 1)
    (h12 : V3.dot c1 c2 = 0) : Rot (colMul c1 c2 (V3.cross c1 c2)) := rot_of_frame c1 c2 h11 h22 h12

/-- with minus the cross product as third column (every improper orthogonal matrix) it is a `Refl` -/
theorem reflection_matrix_is_refl (c1 c2 : V3 R) (h11 : V3.dot c1 c1 = 1) (h22 : V3.dot c2 c2 = 1)
    (h12 : V3.dot c1 c2 = 0) : Refl (colMul c1 c2 (-(V3.cross c1 c2))) := refl_of_frame c1 c2 h11 h22 h12

/-- the shared lemma: an antisymmetric edge function sums to zero over a closed half-edge list -/
theorem closed_antisym_sum_zero (hs : List HE) (g : Nat → Nat → R) (hg : ∀ i j, g j i = - g i j)
    (hclosed : (hs.map Prod.swap).Perm hs) : (hs.map (fun e => g e.1 e.2)).sum = 0 :=
  antisym_sum_zero hs g hg hclosed

/-! ## non-vacuity: concrete instances (ℚ, the cube of the repository's tests) -/
section nonvacuous

/-- the cube of `test_cell.cpp` (`compute_volume_test`): consistently outward -/
def cubeO : List Tri := [(0,1,3),(2,3,1),(0,4,1),(5,1,4),(0,3,4),(6,4,3),(1,5,2),(7,2,5),(5,4,7),(6,7,4),(3,2,6),(7,6,2)]
/-- the cube of `check_face_normal_orientation_test`: "not all the normals are pointing outward" -/
def cubeT : List Tri := [(0,1,3),(2,3,1),(0,4,1),(5,1,4),(3,0,4),(6,4,3),(5,1,2),(7,2,5),(5,7,4),(6,7,4),(3,2,6),(7,6,2)]
def cubePos : Nat → V3 ℚ := fun i =>
  [(⟨0,0,0⟩ : V3 ℚ), ⟨1,0,0⟩, ⟨1,0,1⟩, ⟨0,0,1⟩, ⟨0,1,0⟩, ⟨1,1,0⟩, ⟨0,1,1⟩, ⟨1,1,1⟩].getD i ⟨0,0,0⟩
def cubeEs : List EdgeRec := (genEdges cubeT 0 []).getD []

example : Closed cubeO := by unfold Closed; decide
example : ¬ Closed cubeT := by unfold Closed; decide
example : isManifold cubeEs (liveNodes cubeT 8).length cubeT.length = true := by decide
/-- the edge lookup built by `generate_edge_set` satisfies the adjacency hypothesis on this cube -/
theorem cube_nbGood : NbGood cubeO (nbr cubeEs) := nbGoodB_sound _ _ (by decide)
/-- the flood fill of the model, run on the badly wound cube, returns the consistent one -/
example : ((floodInit (nbr cubeEs) cubeT).bind (floodRun (nbr cubeEs) 40)).map (·.faces) = some
    [(0,1,3),(2,3,1),(0,4,1),(5,1,4),(4,0,3),(6,4,3),(2,1,5),(7,2,5),(4,7,5),(6,7,4),(3,2,6),(7,6,2)] := by decide
example : Closed [(0,1,3),(2,3,1),(0,4,1),(5,1,4),(4,0,3),(6,4,3),(2,1,5),(7,2,5),(4,7,5),(6,7,4),(3,2,6),(7,6,2)] := by
  unfold Closed; decide
example : volume cubePos cubeO = 1 := by
  norm_num [volume, volSum, volSumAt, volOrigin, refPoint, volRefOfFace, volFinish, volStep, volInit, cubeO, cubePos, sabs, lit_eq]
example : volSum cubePos cubeO = 6 := by
  norm_num [volSum, volSumAt, volOrigin, refPoint, volRefOfFace, volStep, volInit, cubeO, cubePos, lit_eq]
/-- far from the origin, exactly the same number (ℚ has no rounding; `volume_translate_exact` says so for every mesh) -/
example : volSum (fun i => cubePos i + ⟨1000000, 1000000, 1000000⟩) cubeO = 6 := by
  rw [(volume_translate_exact cubePos cubeO _).1]
  norm_num [volSum, volSumAt, volOrigin, refPoint, volRefOfFace, volStep, volInit, cubeO, cubePos, lit_eq]
/-- the UN-centred sum (reference point 0) of an open surface is not translation invariant: one face alone … -/
example : volSumAt (fun i => cubePos i + ⟨1, 1, 1⟩) ⟨0, 0, 0⟩ [(1,5,2)] ≠ volSumAt cubePos ⟨0, 0, 0⟩ [(1,5,2)] := by
  norm_num [volSumAt, volStep, volInit, cubePos, lit_eq]
/-- … the centred one is (the reference point moves along) -/
example : volSum (fun i => cubePos i + ⟨1, 1, 1⟩) [(1,5,2)] = volSum cubePos [(1,5,2)] :=
  (volume_translate_exact cubePos _ _).1
/-- closedness is needed in `vol_perm_faces` / `vol_cyclic`: on an open surface the first node of the first face is
    the reference point, and the sum depends on it -/
example : volSum cubePos [(1,5,2),(0,4,1)] ≠ volSum cubePos [(0,4,1),(1,5,2)] := by
  norm_num [volSum, volSumAt, volOrigin, refPoint, volRefOfFace, volStep, volInit, cubePos, lit_eq]
example : volSum cubePos ([(1,5,2),(0,1,3)].map (fun t => (t.2.1, t.2.2, t.1))) ≠ volSum cubePos [(1,5,2),(0,1,3)] := by
  norm_num [volSum, volSumAt, volOrigin, refPoint, volRefOfFace, volStep, volInit, cubePos, lit_eq]
example : aabb (1000 : ℚ) cubePos cubeO 9 = (0, 0, 0, 1, 1, 1) := by
  norm_num [aabb, aabbOf, aabbInit, aabbStep, liveNodes, nodeUsed, cubeO, cubePos, List.range, List.range.loop]
example : Rot (colMul (⟨3/5, 4/5, 0⟩ : V3 ℚ) ⟨-(4/5), 3/5, 0⟩ (V3.cross ⟨3/5, 4/5, 0⟩ ⟨-(4/5), 3/5, 0⟩)) :=
  rot_of_frame _ _ (by norm_num [V3.dot_def]) (by norm_num [V3.dot_def]) (by norm_num [V3.dot_def])
example : Refl (colMul (⟨3/5, 4/5, 0⟩ : V3 ℚ) ⟨-(4/5), 3/5, 0⟩ (-(V3.cross ⟨3/5, 4/5, 0⟩ ⟨-(4/5), 3/5, 0⟩))) :=
  refl_of_frame _ _ (by norm_num [V3.dot_def]) (by norm_num [V3.dot_def]) (by norm_num [V3.dot_def])
/-- the hypotheses of `orient_consistent` hold for the mis-wound cube of the repo's test, and the flood fill reaches every face -/
theorem cube_gatePre : GatePre 8 cubeT cubeEs := ⟨by decide, by decide, by decide⟩
example : ∀ t ∈ cubeT, t.1 < 8 ∧ t.2.1 < 8 ∧ t.2.2 < 8 := by decide
/-- they also hold for the two-triangle "pillow" (two faces with all three nodes in common), for which `NbGood` is false
    (`GoodPair` demands exactly one common edge): `orient_consistent` covers meshes the partial theorem could not -/
example : GatePre 3 [(0,1,2),(0,2,1)] ((genEdges [(0,1,2),(0,2,1)] 0 []).getD []) := ⟨by decide, by decide, by decide⟩
example : (((floodInit (nbr cubeEs) cubeT).bind (floodRun (nbr cubeEs) (3 * cubeT.length + 4))).map
    (fun s => s.checked.all id)) = some true := by decide
example : GoodPair (0,1,3) (2,3,1) := ⟨1, 3, 0, 2, by decide, by decide, by decide, by decide, by decide, by decide,
  by decide, by decide⟩
/-- the selection on the ascending output of the solver for a 1 x 2 x 3 box cloud: column 2 -/
example : axisColumn (⟨1/3, 4/3, 3⟩ : V3 ℚ) = 2 := by
  norm_num [axisColumn, sabs, lit_eq]
/-- … and a strict maximum in column 0 / column 1 is found as well (an unsorted solver would be handled) -/
example : axisColumn (⟨3, 4/3, 1/3⟩ : V3 ℚ) = 0 ∧ axisColumn (⟨1/3, 3, 4/3⟩ : V3 ℚ) = 1 := by
  constructor <;> norm_num [axisColumn, sabs, lit_eq]
/-- the tie of `selection_max_or_tie` exists: equal largest eigenvalues in columns 0 and 1 → column 2 (the smallest) -/
example : axisColumn (⟨5, 5, 1⟩ : V3 ℚ) = 2 := by
  norm_num [axisColumn, sabs, lit_eq]
/-- the six face centres of a 2 x 4 x 6 box around the origin -/
def boxCloud : List (V3 ℚ) := [⟨1,0,0⟩, ⟨-1,0,0⟩, ⟨0,2,0⟩, ⟨0,-2,0⟩, ⟨0,0,3⟩, ⟨0,0,-3⟩]
theorem boxCloud_cov (w : V3 ℚ) :
    covApply (covRows (covOf ⟨0,0,0⟩ boxCloud)) w = ⟨w.x * (1/3), w.y * (4/3), w.z * 3⟩ := by
  apply V3.ext' <;>
    norm_num [covApply, covRows, covOf, covFinish, covStep, covInit, boxCloud, V3.dot_def, lit_eq] <;> ring
/-- `EigOut` is satisfiable: the diagonal covariance of `boxCloud` with the coordinate axes as columns -/
theorem boxCloud_eigOut :
    EigOut (covApply (covRows (covOf ⟨0,0,0⟩ boxCloud))) (⟨1/3, 4/3, 3⟩ : V3 ℚ) (⟨1,0,0⟩, ⟨0,1,0⟩, ⟨0,0,1⟩) := by
  refine ⟨fun k hk => ?_, fun k hk => ?_, fun w m hw hwm => ?_⟩
  · rw [boxCloud_cov]
    (obtain rfl | rfl | rfl : k = 0 ∨ k = 1 ∨ k = 2 := by omega) <;> apply V3.ext' <;> norm_num [colOf, comp]
  · (obtain rfl | rfl | rfl : k = 0 ∨ k = 1 ∨ k = 2 := by omega) <;> norm_num [colOf, V3.normSq_def]
  · rw [boxCloud_cov] at hwm
    have hx : w.x * (1/3) = w.x * m := congrArg V3.x hwm
    have hy : w.y * (4/3) = w.y * m := congrArg V3.y hwm
    have hz : w.z * 3 = w.z * m := congrArg V3.z hwm
    by_cases h0 : w.x = 0
    · by_cases h1 : w.y = 0
      · have h2 : w.z ≠ 0 := by
          intro h2; apply hw; simp [V3.normSq_def, h0, h1, h2]
        exact ⟨2, by omega, by simpa [comp] using (mul_left_cancel₀ h2 hz).symm⟩
      · exact ⟨1, by omega, by simpa [comp] using (mul_left_cancel₀ h1 hy).symm⟩
    · exact ⟨0, by omega, by simpa [comp] using (mul_left_cancel₀ h0 hx).symm⟩
/-- … with a strictly largest eigenvalue in column 2, whose eigenspace is the z axis: every hypothesis of
    `longest_axis_follows` about the original cell holds for it -/
example : (∀ j, j < 3 → j ≠ 2 → comp (⟨1/3, 4/3, 3⟩ : V3 ℚ) j < comp (⟨1/3, 4/3, 3⟩ : V3 ℚ) 2) ∧
    (∀ w : V3 ℚ, covApply (covRows (covOf ⟨0,0,0⟩ boxCloud)) w = w * comp (⟨1/3, 4/3, 3⟩ : V3 ℚ) 2 →
      ∃ k : ℚ, w = colOf ((⟨1,0,0⟩ : V3 ℚ), (⟨0,1,0⟩ : V3 ℚ), (⟨0,0,1⟩ : V3 ℚ)) 2 * k) := by
  constructor
  · intro j hj hj2
    (obtain rfl | rfl : j = 0 ∨ j = 1 := by omega) <;> norm_num [comp]
  · intro w hw
    rw [boxCloud_cov] at hw
    have hx : w.x * (1/3) = w.x * 3 := by simpa [comp] using congrArg V3.x hw
    have hy : w.y * (4/3) = w.y * 3 := by simpa [comp] using congrArg V3.y hw
    refine ⟨w.z, ?_⟩
    apply V3.ext' <;> norm_num [colOf] <;> linarith
example : Orthonormal3 (⟨1,0,0⟩ : V3 ℚ) ⟨0,1,0⟩ ⟨0,0,1⟩ := by constructor <;> norm_num [V3.dot_def]
example : Orthonormal3 (⟨3/5,4/5,0⟩ : V3 ℚ) ⟨-(4/5),3/5,0⟩ ⟨0,0,1⟩ := by constructor <;> norm_num [V3.dot_def]
end nonvacuous

end Simu.C12
