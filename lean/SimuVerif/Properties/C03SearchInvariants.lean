import SimuVerif.Properties.C03Search
import SimuVerif.Properties.C14TissueInvariants
/-
  C03 (addition) — the MESH hypotheses of Properties/C03Search.lean for Model/TissueR.lean (`FacesLive`, `QueueExact`, `replayOk`
  inside `refineLiveT`) discharged from the mesh invariant `TissueR.AllOk` (every cell `Remesh.CellOk`) that
  Properties/C14TissueInvariants.lean propagates through `tissueIterationR`; together with `FreeClean` (the free node queue carries no
  coupling — kept by what the model does, `iterationR_freeClean`) this gives, along every run of the tissue model with remeshing
  that starts from valid meshes with clean free queues:

      the coupling pass is defined,  `coupOk` holds,  the position update reads a symmetric matching (`Mutual`, `IdsAreIndices`)

  with NO hypothesis about the contact search and NO run-time evaluated predicate.  (Separate module because it needs the
  invariants package; Properties/C03Search.lean itself states the mesh facts as plain hypotheses.)
-/
set_option linter.unusedSectionVars false
set_option linter.unusedVariables false
namespace Simu.C03
open Simu Simu.Gen Simu.TissueR Simu.C03S Simu.Remesh Simu.PipelineR Simu.C14

variable {R : Type} [Field R] [LinearOrder R] [IsStrictOrderedRing R]

/-- the corners of a used face are used node slots: first clause of `liveCell`, from `CellOk` -/
theorem facesLive_of_allOk {cells : List (CellTR R)} (hc : AllOk cells) : FacesLive cells :=
  facesLive_of_liveCell cells fun c hm => by
    have := meshOk_of_cellOk (hc c hm)
    unfold meshOk at this
    simp only [Bool.and_eq_true] at this
    exact this.1.1.1

/-- the free queue lists exactly the unused slots: `NodesOk.free`, a field of `CellOk` -/
theorem queueExact_of_allOk {cells : List (CellTR R)} (hc : AllOk cells) : ∀ c ∈ cells, QueueExact c.mesh :=
  fun c hm => (hc c hm).nodes.free

/-- on valid meshes the two readings of "released slots carry no coupling" agree -/
theorem staleFree_iff_freeClean {cells : List (CellTR R)} (hc : AllOk cells) : StaleFree cells ↔ FreeClean cells :=
  ⟨freeClean_of_staleFree (queueExact_of_allOk hc), staleFree_of_freeClean (queueExact_of_allOk hc)⟩

/-- **one iteration from valid meshes whose free queues carry no coupling**: both are kept; the coupling pass is defined, `coupOk`
    holds and the position update reads a symmetric matching -/
theorem tissueIterationR_mutual_of_invariants {fn : Fn R} {fx : FX R} {K : ConstsTR R} {s s' : StateTR R}
    (h : tissueIterationR fn fx K s = .ok s') (hc : AllOk s.cells) (hf : FreeClean s.cells) :
    AllOk s'.cells ∧ FreeClean s'.cells ∧ ∃ s1, meshStageT fn K s = .ok s1 ∧ s' = physStage fn fx K s1 ∧
      (beforeIntegrationR fn fx K.base s1.cells).2 = true ∧ coupOk (beforeIntegrationR fn fx K.base s1.cells).1 = true ∧
      Mutual (topoR (beforeIntegrationR fn fx K.base s1.cells).1) ∧
      IdsAreIndices (topoR (beforeIntegrationR fn fx K.base s1.cells).1) := by
  have hmesh : ∀ s1, meshStageT fn K s = .ok s1 → (∀ c ∈ s1.cells, QueueExact c.mesh) ∧ FacesLive s1.cells :=
    fun s1 h1 => ⟨queueExact_of_allOk (meshStageT_invariants h1 hc), facesLive_of_allOk (meshStageT_invariants h1 hc)⟩
  obtain ⟨hf', s1, h1, hs', hst⟩ := iterationR_freeClean h (refineLiveT_of_invariants fn K hc) hmesh hf
  have hF := (hmesh s1 h1).2
  obtain ⟨hd, hco⟩ := beforeIntegrationR_defined_coupOk fn fx K.base s1.cells hF
  obtain ⟨hm, hi⟩ := tissueR_integrator_mutual fn fx K.base s1.cells hF hst
  exact ⟨tissueIterationR_invariants h hc, hf', s1, h1, hs', hd, hco, hm, hi⟩

/-- **along a run**: valid meshes and clean free queues are kept by any number of iterations (so the previous theorem applies to
    every iteration of the run) -/
theorem tissueRunR_freeClean {fn : Fn R} {fx : FX R} {K : ConstsTR R} (n : Nat) {s s' : StateTR R}
    (h : tissueRunR fn fx K n s = .ok s') (hc : AllOk s.cells) (hf : FreeClean s.cells) : AllOk s'.cells ∧ FreeClean s'.cells := by
  induction n generalizing s with
  | zero =>
    simp only [tissueRunR, Except.ok.injEq] at h
    subst h
    exact ⟨hc, hf⟩
  | succ m ih =>
    simp only [tissueRunR] at h
    cases hi : tissueIterationR fn fx K s with
    | error e => rw [hi] at h; cases h
    | ok s1 =>
      rw [hi] at h
      obtain ⟨hc1, hf1, _⟩ := tissueIterationR_mutual_of_invariants hi hc hf
      exact ih h hc1 hf1

/-- the `defined` flag of the tissue model with remeshing is never cleared on valid meshes -/
theorem tissueIterationR_defined_of_invariants {fn : Fn R} {fx : FX R} {K : ConstsTR R} {s s' : StateTR R}
    (h : tissueIterationR fn fx K s = .ok s') (hc : AllOk s.cells) : s'.defined = s.defined := by
  unfold tissueIterationR at h
  cases hm : meshStageT fn K s with
  | error e => rw [hm] at h; cases h
  | ok s1 =>
    rw [hm] at h
    simp only [Except.map, Except.ok.injEq] at h
    have hd := (beforeIntegrationR_defined_coupOk fn fx K.base s1.cells (facesLive_of_allOk (meshStageT_invariants hm hc))).1
    rw [← h]
    unfold physStage physFrom
    dsimp only
    rw [hd, Bool.and_true]
    -- the mesh stage does not touch the flag
    unfold meshStageT at hm
    cases hsv : saveMeshT fn K s with
    | error e => rw [hsv] at hm; cases hm
    | ok s0 =>
      rw [hsv] at hm
      simp only [Except.bind] at hm
      have h0 : s0.defined = s.defined := by
        unfold saveMeshT at hsv
        split at hsv
        · cases hcol : collect (s.cells.map rebaseCell) with
          | error e => rw [hcol] at hsv; cases hsv
          | ok cs =>
            rw [hcol] at hsv
            simp only [Except.map, Except.ok.injEq] at hsv
            rw [← hsv]
        · simp only [Except.ok.injEq] at hsv
          rw [← hsv]
      cases hcol : collect (s0.cells.map (refineCell fn K)) with
      | error e => rw [hcol] at hm; cases hm
      | ok cs =>
        rw [hcol] at hm
        simp only [Except.map, Except.ok.injEq] at hm
        rw [← hm]
        exact h0

end Simu.C03
