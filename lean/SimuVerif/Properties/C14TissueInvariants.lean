import SimuVerif.Properties.C14TissueR
import SimuVerif.Properties.C14Invariants
import SimuVerif.Lemmas.C14_TissueInvariants
import SimuVerif.Lemmas.RemeshPassChecks
/-
  C14 — the run-time mesh hypotheses of the TISSUE theorems as invariants (extension of Properties/C14Invariants.lean to
  `Model/TissueR.lean`).

  `stepOkTR` (Model/TissueR.lean) is the decidable domain predicate the driver evaluates on every iteration.  Its conjuncts:

    about MESHES — proved here from `Remesh.CellOk` of every cell (`TissueR.AllOk`), which every phase of the iteration
    preserves (`tissueIterationR_invariants`):
      * `refineLiveT`   = for every cell `save_mesh` leaves: `refineLiveCell` (the pass never reads a released node slot)
                          and `replayOk` (the replay of the log takes the slots the pass took);
      * of `cellMeshOk` of every refined cell: `PipelineR.meshOk` (`liveCell`, `edgesOk`, `closedB`, `hasNode`),
        `edgeFacesUsed`, `queueOk`, `usedCovered`;

    NOT about meshes — they remain hypotheses (`quietStepTR`):
      * `preOkTR`: the `defined` flag, all cells epithelial, no cell ready to divide, `attrsOk` of the cells (the attribute
        tables have one entry per node slot);
      * no `Err.fuel` from the mesh stage (an exception of the refiner / of rebase is allowed: the model reports it);
      * `attrsOk` of the refined cells (the attribute part of `cellMeshOk`);
      * the coupling pass is defined (`(beforeIntegrationR …).2`) — being proved separately for the table produced by the
        modelled search (`Properties/C03Search.lean`, another work package); it is left as a hypothesis here;
      * `coupOk`: every coupling of a used node names a used slot of another existing cell;
      * no cell below its minimal volume (removal).
-/
namespace Simu.C14
open Simu Simu.Forces Simu.Gen Simu.Remesh Simu.TissueR

section
variable {R : Type} [Field R] [LinearOrder R] [IsStrictOrderedRing R]

/-- **one tissue iteration keeps the mesh invariants of every cell**: rebase of every cell in `save_mesh`, face types, a
    whole pass of `refine_mesh` per cell; the contact model, the polarisation update, `apply_internal_forces` (cached face
    geometry, node normals) and the integrator do not touch connectivity, free queues or used flags -/
theorem tissueIterationR_invariants {fn : Fn R} {fx : FX R} {K : ConstsTR R} {s s' : StateTR R}
    (h : tissueIterationR fn fx K s = .ok s') (hc : AllOk s.cells) : AllOk s'.cells :=
  tissueIterationR_allOk h hc

/-- the phases 5–8 keep every mesh up to positions, momenta, face types and cached face geometry -/
theorem physStage_invariants (fn : Fn R) (fx : FX R) (K : ConstsTR R) {s : StateTR R} (hc : AllOk s.cells) :
    AllOk (physStage fn fx K s).cells := physStage_allOk fn fx K hc

/-- the mesh stage (steps 1, 3, 4) keeps the mesh invariants of every cell -/
theorem meshStageT_invariants {fn : Fn R} {K : ConstsTR R} {s s1 : StateTR R} (h : meshStageT fn K s = .ok s1)
    (hc : AllOk s.cells) : AllOk s1.cells := meshStageT_allOk h hc

/-- `refineLive` and `replayOk` of every cell `save_mesh` leaves -/
theorem refineLiveT_of_invariants (fn : Fn R) (K : ConstsTR R) {s : StateTR R} (hc : AllOk s.cells) :
    refineLiveT fn K s = true := refineLiveT_of_allOk fn K hc

/-- on a valid mesh `cellMeshOk` reduces to its attribute-table conjunct -/
theorem cellMeshOk_of_invariants {c : CellTR R} (hc : CellOk c.mesh) : cellMeshOk c = attrsOk c :=
  cellMeshOk_of_cellOk hc

/-- what is left of `stepOkTR` once the mesh conjuncts are theorems (see the header for the list) -/
def quietStepTR (fn : Fn R) (fx : FX R) (K : ConstsTR R) (s : StateTR R) : Bool :=
  preOkTR s &&
  match meshStageT fn K s with
  | .error e => e != Remesh.Err.fuel
  | .ok s1 => s1.cells.all attrsOk && (beforeIntegrationR fn fx K.base s1.cells).2 &&
      coupOk (beforeIntegrationR fn fx K.base s1.cells).1 && !(beforeIntegrationR fn fx K.base s1.cells).1.any belowMinT

def quietRunTR (fn : Fn R) (fx : FX R) (K : ConstsTR R) : Nat → StateTR R → Bool
  | 0, _ => true
  | n + 1, s => quietStepTR fn fx K s &&
    match tissueIterationR fn fx K s with
    | .error _ => true
    | .ok s' => quietRunTR fn fx K n s'

/-- **on a tissue of valid cells the domain predicate of one iteration is its non-mesh part** -/
theorem stepOkTR_of_invariants (fn : Fn R) (fx : FX R) (K : ConstsTR R) {s : StateTR R} (hc : AllOk s.cells) :
    stepOkTR fn fx K s = quietStepTR fn fx K s := by
  unfold stepOkTR stepOkFromT quietStepTR
  rw [refineLiveT_of_allOk fn K hc]
  cases hm : meshStageT fn K s with
  | error e => simp
  | ok s1 =>
    have h1 := meshStageT_allOk hm hc
    have : s1.cells.all cellMeshOk = s1.cells.all attrsOk := by
      rw [Bool.eq_iff_iff, List.all_eq_true, List.all_eq_true]
      constructor
      · intro hh c hm'; rw [← cellMeshOk_of_cellOk (h1 c hm')]; exact hh c hm'
      · intro hh c hm'; rw [cellMeshOk_of_cellOk (h1 c hm')]; exact hh c hm'
    simp only [this, Bool.and_true]

/-- … and likewise for n iterations -/
theorem runOkTR_of_invariants (fn : Fn R) (fx : FX R) (K : ConstsTR R) :
    ∀ (n : Nat) {s : StateTR R}, AllOk s.cells → runOkTR fn fx K n s = quietRunTR fn fx K n s
  | 0, _, _ => rfl
  | n + 1, s, hc => by
    unfold runOkTR quietRunTR
    rw [stepOkTR_of_invariants fn fx K hc]
    cases hi : tissueIterationR fn fx K s with
    | error e => rfl
    | ok s' => simp only [runOkTR_of_invariants fn fx K n (tissueIterationR_allOk hi hc)]

/-- **every iteration of a run from a tissue of valid cells works on valid cells**: after any number of iterations every mesh
    satisfies the invariants, hence `meshOk`, `edgeFacesUsed`, `queueOk`, `usedCovered`, and `refineLive` / `replayOk` for the
    next iteration -/
theorem tissueRunR_invariants (fn : Fn R) (fx : FX R) (K : ConstsTR R) (n : Nat) {s s' : StateTR R}
    (h : tissueRunR fn fx K n s = .ok s') (hc : AllOk s.cells) :
    AllOk s'.cells ∧ refineLiveT fn K s' = true ∧
      ∀ c ∈ s'.cells, PipelineR.meshOk c.mesh = true ∧ edgeFacesUsed c.mesh = true ∧ queueOk c.mesh = true ∧
        usedCovered c.mesh = true := by
  have hc' := tissueRunR_allOk n h hc
  exact ⟨hc', refineLiveT_of_allOk fn K hc', fun c hm => cellMeshOk_mesh_parts (hc' c hm)⟩

variable [FloorRing R]

/-- **n iterations of the translated tissue = the translate of n iterations, with mesh hypotheses on the INITIAL tissue
    only**: every cell of the start tissue satisfies the invariants, and along the reference run the non-mesh conditions
    `quietRunTR` hold (no division, no removal, no fuel exhaustion, attribute tables, defined coupling pass, couplings on
    used slots) -/
theorem tissueRunR_translate_of_invariants (fn : Fn R) (fx : FX R) (K : ConstsTR R) (S : TissueSetup fn K.base) (n : Nat)
    (s : StateTR R) (t : V3 R) (hc : AllOk s.cells) (hq : quietRunTR fn fx K n s = true) :
    tissueRunR fn fx K n (translateTR t s) = (tissueRunR fn fx K n s).map (translateTR t) :=
  tissueRunR_translate fn fx K S n s t (by rw [runOkTR_of_invariants fn fx K n hc]; exact hq)

/-- one iteration, likewise -/
theorem tissueIterationR_translate_of_invariants (fn : Fn R) (fx : FX R) (K : ConstsTR R) (S : TissueSetup fn K.base)
    (s : StateTR R) (t : V3 R) (hc : AllOk s.cells) (hq : quietStepTR fn fx K s = true) :
    tissueIterationR fn fx K (translateTR t s) = (tissueIterationR fn fx K s).map (translateTR t) :=
  tissueIterationR_translate fn fx K S s t (by rw [stepOkTR_of_invariants fn fx K hc]; exact hq)

end

/-- non-vacuity: both cells of the two-cell tissue of Properties/C14TissueR.lean (`sPairQ`, over ℚ) satisfy the invariants
    (kernel evaluation of the Boolean test `Remesh.cellOkB`) -/
theorem pairR_allOk : AllOk sPairQ.cells := by
  have h : sPairQ.cells.all (fun c => cellOkB c.mesh) = true := by decide +kernel
  intro c hc
  exact cellOk_of_B (List.all_eq_true.1 h c hc)

/-- … so on it the domain predicate IS its non-mesh part, and that part holds -/
theorem pairR_quiet : quietStepTR fnQ2 C02.fxQ KTRQ sPairQ = true := by
  rw [← stepOkTR_of_invariants fnQ2 C02.fxQ KTRQ pairR_allOk]; exact pairR_stepOk

end Simu.C14
