import SimuVerif.Lemmas.RefTraceSound
import SimuVerif.Gen.SafetyTables
/-
  C10 — no invalid memory access or undefined behaviour anywhere in a simulation.

  A theorem cannot speak about the C++ abstract machine.  What is logic is modelled and proved:
  * `safe_sound`: the static check on reference-invalidation traces is sound for EVERY capacity
    history (whichever growths happen to reallocate);
  * `all_traces_safe`: the traces that `tools/gen/c10_traces.py` extracts on every run from the
    functions that hold references into growing vectors (split/merge/swap, add_face, replace_node,
    ball pivoting, cell_divider::run …) are accepted by that check;
  * `virtual_dtor_ok`: every class that `solver` owns through a `unique_ptr<Base>` holding a derived
    object has a virtual destructor;
  * `node_scalars_initialised`: every scalar member of `node` that the contact phase reads before
    writing carries a default member initialiser;
  * `fmt_fits`: every `format_number` call site writes at most `buffer size − 1` characters (finite
    values; `%.3f` only for the contact-area fraction, assumed in [0,1]).
  The correspondence of these tables with reality is the sanitizer run of the real pipeline
  (tools/props/c10.py): a report at a site the tables call safe is a disagreement.
-/
namespace Simu.C10
open Simu Simu.RefTrace

/-- soundness of the static check, for every trace and every reallocation oracle -/
theorem safe_sound (tr : List Ev) (h : safe tr = true) (oracle : Nat → Bool) : execOk oracle tr = true :=
  RefTrace.safe_sound tr h oracle

/-- every extracted trace passes the static check -/
theorem all_traces_safe_bool : Gen.allTraces.all (fun p => safe p.2) = true := by decide +kernel

theorem all_traces_safe : ∀ p ∈ Gen.allTraces, safe p.2 = true := by
  intro p hp
  exact (List.all_eq_true.mp all_traces_safe_bool) p hp

/-- hence none of the analysed functions dereferences a stale reference, whatever the capacities -/
theorem no_stale_reference (name : String) (tr : List Ev) (h : (name, tr) ∈ Gen.allTraces) (oracle : Nat → Bool) :
    execOk oracle tr = true := safe_sound tr (all_traces_safe (name, tr) h) oracle

/-- objects owned through a base pointer are deleted through a virtual destructor -/
theorem virtual_dtor_ok : ∀ r ∈ Gen.ownedThroughBase, r.2.2.2 = true → r.2.2.1 = true := by decide

/-- the scalar members of `node` that are read before the first write are initialised -/
theorem node_scalars_initialised :
    ∀ m ∈ Gen.nodeScalarMembers, m.1 ∈ ["curvature_", "squared_distance_to_closest_node_", "is_used_"] → m.2 = true := by
  decide

/-- every `format_number` call site fits the stack buffer (terminating NUL included) -/
theorem fmt_fits : ∀ s ∈ Gen.fmtCallSites, 0 < s.2.2 ∧ s.2.2 + 1 ≤ Gen.fmtBufferSize := by decide

/-! non-vacuity: the tables are not empty and the check does reject the canonical bad trace -/
example : Gen.allTraces.length ≥ 15 ∧ Gen.ownedThroughBase.length ≥ 2 ∧ Gen.fmtCallSites.length ≥ 3 := by decide +kernel
example : safe [.bind 0 0, .grow 0, .use 0] = false := by decide
example : ∃ r ∈ Gen.ownedThroughBase, r.2.2.2 = true := by decide

end Simu.C10
