import SimuVerif.Gen.ParamTable
import SimuVerif.Lemmas.Params
/-
  C18 — every XML parameter reaches the simulation with its value and meaning intact.

  `Gen.paramTables` (tag ↦ struct member, conversion, validity tests, INF convention, loop shape) is
  regenerated from src/io/parameter_reader.cpp on every run; `Model/Params.lean` is the reader that
  interprets such tables.  Part A below pins the generated tables to the hand-written specification
  `spec…` (by `decide`: swapping two members, dropping or weakening a test, renaming a tag, changing
  the INF value re-opens these).  Part B proves the clauses of the property for EVERY table that
  satisfies the decidable well-formedness `wfTable` (which Part A establishes for the generated
  tables), every value assignment, every permutation of the tags inside a section, any unknown extra
  tags, any number of cell types and face types.  `R` is any type with decidable `<`, `≤` and a zero
  literal: the statements hold for the `Float` instance run by the driver as well as for ℚ or ℝ.
  `std::stod` / `std::stoi` are opaque (`Parsers`): hypotheses say what they return on the texts at hand.
-/
set_option linter.unusedSectionVars false
set_option linter.unusedSimpArgs false
namespace Simu.C18
open Simu Simu.Params

/-! ## Part A — the generated tables against the specification -/

/-- one line of the specification: tag, struct member, conversion, documented sign constraint, INF accepted -/
structure SpecRow where
  tag : String
  field : String
  kind : Kind
  sign : Sign
  inf : Bool
  deriving DecidableEq, Repr

def summary (e : Entry) : SpecRow := ⟨e.tag, e.field, e.kind, e.sign, e.inf.isSome⟩

-- SPEC-BEGIN numerical   (tools/props/c18.py reads these lines: keep one row per line)
def specNumerical : List SpecRow := [
  ⟨"input_mesh_file_path", "input_mesh_path_", .str, .none, false⟩,
  ⟨"output_mesh_folder_path", "output_folder_path_", .str, .none, false⟩,
  ⟨"damping_coefficient", "damping_coefficient_", .dbl, .nonneg, false⟩,
  ⟨"perform_initial_triangulation", "perform_initial_triangulation_", .bool, .none, false⟩,
  ⟨"simulation_duration", "simulation_duration_", .dbl, .pos, false⟩,
  ⟨"time_step", "time_step_", .dbl, .pos, false⟩,
  ⟨"sampling_period", "sampling_period_", .dbl, .pos, false⟩,
  ⟨"min_edge_length", "min_edge_len_", .dbl, .pos, false⟩,
  ⟨"contact_cutoff_adhesion", "contact_cutoff_adhesion_", .dbl, .pos, false⟩,
  ⟨"contact_cutoff_repulsion", "contact_cutoff_repulsion_", .dbl, .pos, false⟩,
  ⟨"enable_edge_swap_operation", "enable_edge_swap_operation_", .bool, .none, false⟩]
-- SPEC-END
-- SPEC-BEGIN cell
def specCell : List SpecRow := [
  ⟨"cell_type_name", "name_", .str, .none, false⟩,
  ⟨"global_cell_id", "global_type_id_", .int, .none, false⟩,
  ⟨"cell_mass_density", "mass_density_", .dbl, .none, false⟩,
  ⟨"cell_bulk_modulus", "bulk_modulus_", .dbl, .none, false⟩,
  ⟨"max_inner_pressure", "max_pressure_", .dbl, .none, true⟩,
  ⟨"area_elasticity_modulus", "area_elasticity_modulus_", .dbl, .none, false⟩,
  ⟨"avg_division_volume", "avg_division_vol_", .dbl, .none, true⟩,
  ⟨"std_division_volume", "std_division_vol_", .dbl, .none, false⟩,
  ⟨"avg_growth_rate", "avg_growth_rate_", .dbl, .none, false⟩,
  ⟨"std_growth_rate", "std_growth_rate_", .dbl, .none, false⟩,
  ⟨"target_isoperimetric_ratio", "target_isoperimetric_ratio_", .dbl, .pos, false⟩,
  ⟨"angle_regularization_factor", "angle_regularization_factor_", .dbl, .none, false⟩,
  ⟨"min_vol", "min_vol_", .dbl, .none, false⟩,
  ⟨"surface_coupling_max_curvature", "surface_coupling_max_curvature_", .dbl, .nonneg, false⟩]
-- SPEC-END
-- SPEC-BEGIN face
def specFace : List SpecRow := [
  ⟨"face_type_name", "name_", .str, .none, false⟩,
  ⟨"global_face_id", "face_type_global_id_", .int, .nonneg, false⟩,
  ⟨"surface_tension", "surface_tension_", .dbl, .nonneg, false⟩,
  ⟨"adherence_strength", "adherence_strength_", .dbl, .nonneg, false⟩,
  ⟨"repulsion_strength", "repulsion_strength_", .dbl, .nonneg, false⟩,
  ⟨"bending_modulus", "bending_modulus_", .dbl, .nonneg, false⟩]
-- SPEC-END

/-- documented relations between two members: `(a, b)` means `a ≥ b` is required -/
def specOrder : List (String × String) := [("sampling_period_", "time_step_")]

def orderChecks (T : List Entry) : List (String × String) :=
  T.flatMap (fun e => e.checks.filterMap (fun c => match c with | .ltField a b => some (a, b) | _ => none))

def allEntries : List Entry := Gen.numTable ++ Gen.cellTable ++ Gen.faceTable

/-- every tag is read into the member the specification names, with the documented conversion, sign
    constraint and INF convention — for all three sections, in this order -/
theorem tables_match_spec :
    Gen.numTable.map summary = specNumerical ∧ Gen.cellTable.map summary = specCell ∧
    Gen.faceTable.map summary = specFace := by decide

/-- the only relation between two members that is tested is `sampling_period ≥ time_step` -/
theorem order_checks_match_spec :
    orderChecks Gen.numTable = specOrder ∧ orderChecks Gen.cellTable = [] ∧ orderChecks Gen.faceTable = [] := by decide

/-- the generated tables are well formed: tags pairwise distinct, members pairwise distinct, every
    validity test is about the member just assigned (or one assigned before), getter and declared
    member type fit, INF is the literal "inf" on lower-cased text with value +infinity, both loops
    run forward and append -/
theorem tables_wf : Gen.paramTables.wf = true := by decide

/-- no tag name is used in two different sections -/
theorem tags_distinct_across_sections : nodupB (allEntries.map (·.tag)) = true := by decide

theorem structure_names :
    Gen.structureNames = [("cell_elem", "cell_type"), ("cell_root", "cell_types"), ("empty_tests", "2"),
      ("face_elem", "face_type"), ("face_root", "face_types"), ("numerical_root", "numerical_parameters")] := by decide

/-- struct members that cannot be set from the file (they keep their in-class initialisers) -/
theorem unread_members :
    Gen.unreadMembers = [("numerical", []), ("cell", ["additional_parameters_", "face_types_", "initial_pressure_"]),
      ("face", [])] := by decide

def entryOf (t : String) : Option Entry := allEntries.find? (fun e => e.tag = t)

def signAdmits : Sign → Int → Bool
  | .none, _ => true
  | .nonneg, s => s ≥ 0
  | .pos, s => s ≥ 1

/-- documentation cross-check: every leaf tag shown in doc/parameter_file_doc.md is a tag of the tables;
    every tag documented with "Set to INF" accepts INF; every example value of the documentation and of
    the shipped parameters_*.xml satisfies the sign constraint of its tag; no shipped file lacks a tag -/
theorem doc_agrees :
    Gen.docTags.all (fun t => (entryOf t).isSome) = true ∧
    Gen.docInfTags.all (fun t => match entryOf t with | some e => e.inf == some "inf" | none => false) = true ∧
    (Gen.docExamples ++ Gen.shippedExamples).all
      (fun p => match entryOf p.1 with | some e => signAdmits e.sign p.2 | none => true) = true ∧
    Gen.shippedMissing = [] := by decide

/-- syntactic trace of "the values govern the run": every member that is read from the file is
    consumed somewhere outside the reader, every expected use site (time step → integrator `dt_`,
    duration → main-loop condition, sampling period → file-number formula, l_min → mesh refiner and
    initial triangulation, cut-offs → contact model, moduli/tensions → force formulas …) is present
    in the sources, and every member has at least one such site -/
theorem values_consumed :
    allEntries.all (fun e => match assoc e.field Gen.consumers with | some n => decide (0 < n) | none => false) = true ∧
    Gen.wiring.all (fun w => w.2.2.2) = true ∧
    allEntries.all (fun e => Gen.wiring.any (fun w => w.1 == e.field)) = true := by decide

/-! ## Part B — the reader, for every well-formed table -/

section
variable {R : Type} [Lit R] [LT R] [LE R] [DecidableLT R] [DecidableLE R]

/-- a section with every table tag present once: tag `e.tag` carries the text `txt e` -/
def render (T : List Entry) (txt : Entry → String) : Children := T.map (fun e => (e.tag, txt e))

/-! ### conversions of a single element -/

theorem lowerS_empty : lowerS "" = "" := by decide
theorem lowerS_INF : lowerS "INF" = "inf" ∧ lowerS "Inf" = "inf" ∧ lowerS "inf" = "inf" := by decide

/-- a string member receives the text itself -/
theorem readValue_str (P : Parsers R) {e : Entry} (hk : e.kind = .str) (hl : e.lower = false) {text : String}
    (hne : text ≠ "") : readValue P e text = .ok (.str text) := by
  simp [readValue, hne, hk, hl]

/-- a double member receives what `std::stod` makes of the text (when the text is not the INF literal) -/
theorem readValue_dbl (P : Parsers R) {e : Entry} (hk : e.kind = .dbl) {text : String} {x : R} (hne : text ≠ "")
    (hninf : e.inf ≠ some (if e.lower then lowerS text else text))
    (hs : P.stod (if e.lower then lowerS text else text) = some x) : readValue P e text = .ok (.dbl x) := by
  simp [readValue, hne, hk, hninf, hs]

/-- an integer member receives `std::stoi` of the text, narrowed to the member's type -/
theorem readValue_int (P : Parsers R) {e : Entry} (hk : e.kind = .int) (hl : e.lower = false) {text : String} {n : Int}
    (hne : text ≠ "") (hs : P.stoi text = some n) : readValue P e text = .ok (.int (convInt e.ctype n)) := by
  simp [readValue, hne, hk, hl, hs]

/-- inside the range of `short` the narrowing is the identity -/
theorem convInt_id (ctype : String) {n : Int} (h1 : -32768 ≤ n) (h2 : n ≤ 32767) : convInt ctype n = n := by
  unfold convInt toShort; split <;> omega

/-- a boolean member is `stoi(text) != 0` -/
theorem readValue_bool (P : Parsers R) {e : Entry} (hk : e.kind = .bool) (hl : e.lower = false) {text : String} {n : Int}
    (hne : text ≠ "") (hs : P.stoi text = some n) : readValue P e text = .ok (.bool (n != 0)) := by
  simp [readValue, hne, hk, hl, hs]

/-- **INF maps to infinity**: in a well-formed entry that has the INF convention, every text that
    lower-cases to "inf" ("INF", "Inf", "inf" …) yields the value of `std::numeric_limits<double>::infinity()` -/
theorem inf_maps (P : Parsers R) {e : Entry} {earlier : List String} (hwf : e.wf earlier = true)
    (hinf : e.inf.isSome = true) {text : String} (ht : lowerS text = "inf") :
    readValue P e text = .ok (.dbl (P.const infinityExpr)) := by
  have hne : text ≠ "" := by
    intro h; rw [h, lowerS_empty] at ht; exact absurd ht (by decide)
  cases hi : e.inf with
  | none => rw [hi] at hinf; cases hinf
  | some l =>
    simp only [Entry.wf, hi, Bool.and_eq_true, decide_eq_true_eq] at hwf
    obtain ⟨_, ⟨⟨hl, hlow⟩, hk⟩, hv⟩ := hwf
    subst hl
    simp [readValue, hne, hk, hlow, hi, ht, hv]

/-- the entries that accept INF in the generated tables are exactly these two -/
theorem inf_entries : (allEntries.filter (fun e => e.inf.isSome)).map (·.tag) = ["max_inner_pressure", "avg_division_volume"] := by
  decide

/-! ### one section -/

theorem filter_render {T : List Entry} (hnd : (T.map (·.tag)).Nodup) (txt : Entry → String) {e : Entry} (he : e ∈ T) :
    (render T txt).filter (fun p => decide (p.1 = e.tag)) = [(e.tag, txt e)] := by
  induction T with
  | nil => cases he
  | cons a T ih =>
    simp only [List.map_cons, List.nodup_cons] at hnd
    rcases List.mem_cons.mp he with h | h
    · subst h
      have : (render T txt).filter (fun p => decide (p.1 = e.tag)) = [] := by
        rw [List.filter_eq_nil_iff]
        intro p hp hpe
        simp only [render, List.mem_map] at hp
        obtain ⟨e', he', rfl⟩ := hp
        simp only [decide_eq_true_eq] at hpe
        exact hnd.1 (List.mem_map.mpr ⟨e', he', hpe⟩)
      simp [render, List.filter_cons] at this ⊢
      exact this
    · have hne : a.tag ≠ e.tag := fun heq => hnd.1 (heq ▸ List.mem_map.mpr ⟨e, h, rfl⟩)
      have := ih hnd.2 h
      simp [render, List.filter_cons, hne] at this ⊢
      exact this

/-- looking a table tag up in any permutation of (rendered table tags ++ unknown extra elements) -/
theorem lookup_render {T : List Entry} (hnd : (T.map (·.tag)).Nodup) (txt : Entry → String) {extra children : Children}
    (hextra : ∀ x ∈ extra, x.1 ∉ T.map (·.tag)) (hperm : children.Perm (render T txt ++ extra)) {e : Entry} (he : e ∈ T) :
    assoc e.tag children = some (txt e) := by
  have hfe : extra.filter (fun p => decide (p.1 = e.tag)) = [] := by
    rw [List.filter_eq_nil_iff]
    intro p hp hpe
    simp only [decide_eq_true_eq] at hpe
    exact hextra p hp (hpe ▸ List.mem_map.mpr ⟨e, he, rfl⟩)
  have hf : (render T txt ++ extra).filter (fun p => decide (p.1 = e.tag)) = [(e.tag, txt e)] := by
    rw [List.filter_append, filter_render hnd txt he, hfe]; rfl
  rw [← assoc_perm_of_unique (by rw [hf]; exact Nat.le_refl 1) hperm.symm, assoc_eq_head_filter, hf]; rfl

/-- a validity test of a well-formed entry sees the same members in a prefix of the record that
    contains the entry as in the whole record -/
theorem fires_prefix {e : Entry} {earlier : List String} {c : Check} (hc : c.wfFor e earlier = true)
    (r1 r2 : Record R) (hearlier : ∀ f ∈ earlier, f ∈ r1.map Prod.fst) (hself : e.field ∈ r1.map Prod.fst) :
    c.fires (r1 ++ r2) = c.fires r1 := by
  cases c with
  | le0 f =>
    simp only [Check.wfFor, decide_eq_true_eq] at hc; subst hc
    obtain ⟨v, hv⟩ := assoc_isSome_of_mem hself
    simp [Check.fires, assoc_append_of_some hv, hv]
  | lt0 f =>
    simp only [Check.wfFor, decide_eq_true_eq] at hc; subst hc
    obtain ⟨v, hv⟩ := assoc_isSome_of_mem hself
    simp [Check.fires, assoc_append_of_some hv, hv]
  | ltField a b =>
    simp only [Check.wfFor, Bool.and_eq_true, decide_eq_true_eq] at hc
    obtain ⟨ha, hb⟩ := hc
    subst ha
    obtain ⟨v, hv⟩ := assoc_isSome_of_mem hself
    obtain ⟨w, hw⟩ := assoc_isSome_of_mem (hearlier b (List.contains_iff_mem.mp hb))
    simp [Check.fires, assoc_append_of_some hv, hv, assoc_append_of_some hw, hw]

/-- the blocks of a well-formed table go through one after the other when tags are found, texts convert
    and no validity test fires on the final record -/
theorem steps_ok (P : Parsers R) {T : List Entry} (hwf : wfTable T = true) (c : Children) (txt : Entry → String)
    (val : Entry → Value R) {pre : List Entry} {e : Entry} {post : List Entry} (hsplit : T = pre ++ e :: post)
    (hlook : assoc e.tag c = some (txt e)) (hval : readValue P e (txt e) = .ok (val e))
    (hchk : ∀ ch ∈ e.checks, ch.fires (recOf val T) = false) :
    StepOk P c e (recOf val pre) (val e) ∧ e.field ∉ (recOf val pre).map Prod.fst := by
  simp only [wfTable, Bool.and_eq_true] at hwf
  obtain ⟨⟨_, _⟩, hgo⟩ := hwf
  rw [hsplit] at hgo
  obtain ⟨hewf, hfresh⟩ := wfGo_split hgo
  simp only [List.nil_append] at hewf hfresh
  have hfresh' : e.field ∉ (recOf val pre).map Prod.fst := by rw [recOf_keys]; exact hfresh
  refine ⟨⟨txt e, hlook, hval, ?_⟩, hfresh'⟩
  rw [firstFiring_eq_none, setField_of_not_mem hfresh']
  intro ch hch
  have hcwf : ch.wfFor e (pre.map (·.field)) = true := by
    simp only [Entry.wf, Bool.and_eq_true, List.all_eq_true] at hewf
    exact hewf.1.1.2 ch hch
  have hrec : recOf val T = (recOf val pre ++ [(e.field, val e)]) ++ recOf val post := by
    rw [hsplit]; simp [recOf]
  rw [← hchk ch hch, hrec]
  symm
  apply fires_prefix hcwf
  · intro f hf
    rw [List.map_append, recOf_keys]; exact List.mem_append_left _ hf
  · simp

/-- **round trip of one section**: for a well-formed table, any permutation of the table tags mixed
    with any unknown elements, texts that convert to `val`, and values on which no validity test fires,
    the reader returns exactly the record `member ↦ val`, members in table order -/
theorem roundtrip_section (P : Parsers R) {T : List Entry} (hwf : wfTable T = true) (txt : Entry → String)
    (val : Entry → Value R) (hval : ∀ e ∈ T, readValue P e (txt e) = .ok (val e))
    (hchk : ∀ e ∈ T, ∀ ch ∈ e.checks, ch.fires (recOf val T) = false)
    {extra children : Children} (hextra : ∀ x ∈ extra, x.1 ∉ T.map (·.tag))
    (hperm : children.Perm (render T txt ++ extra)) :
    readSection P T children = .ok (recOf val T) := by
  have hnd : (T.map (·.tag)).Nodup := by
    simp only [wfTable, Bool.and_eq_true] at hwf; exact nodupB_iff.mp hwf.1.1
  have h := readGo_ok P children val T []
    (fun pre e post hs => by
      have he : e ∈ T := by rw [hs]; simp
      simpa using (steps_ok P hwf children txt val hs (lookup_render hnd txt hextra hperm he) (hval e he) (hchk e he)).1)
    (fun pre e post hs => by
      have he : e ∈ T := by rw [hs]; simp
      simpa using (steps_ok P hwf children txt val hs (lookup_render hnd txt hextra hperm he) (hval e he) (hchk e he)).2)
  simpa [readSection] using h

/-- elements whose name is not a table tag, and the order of the elements, do not matter at all
    (also when the section is rejected) -/
theorem order_and_unknown_tags_irrelevant (P : Parsers R) (T : List Entry) {c c' : Children}
    (h : ∀ e ∈ T, assoc e.tag c = assoc e.tag c') : readSection P T c = readSection P T c' :=
  readGo_congr P T [] h

/-- **duplicates: the first one wins** — an element whose name already occurred earlier in the
    section is never looked at (`FirstChildElement`) -/
theorem duplicate_first_wins (P : Parsers R) (T : List Entry) {pre post : Children} {tag text : String}
    (h : tag ∈ pre.map Prod.fst) : readSection P T (pre ++ (tag, text) :: post) = readSection P T (pre ++ post) :=
  readGo_congr P T [] (fun _ _ => assoc_insert_after h)

/-- **a missing tag is rejected by exception**: whatever else the section contains, when a table tag
    does not occur the reader does not return -/
theorem missing_tag_rejected (P : Parsers R) {T : List Entry} {e : Entry} (he : e ∈ T) {children : Children}
    (hmiss : e.tag ∉ children.map Prod.fst) : ∃ err, readSection P T children = .error err :=
  readGo_missing P children (assoc_eq_none_iff.mpr hmiss) T [] he

/-- the value breaks the documented sign constraint -/
def Violates (s : Sign) : Value R → Prop
  | .dbl x => (s = .pos ∧ x ≤ lit 0) ∨ (s = .nonneg ∧ x < lit 0)
  | .int n => (s = .pos ∧ n ≤ 0) ∨ (s = .nonneg ∧ n < 0)
  | _ => False

theorem fires_of_violates {e : Entry} {v : Value R} (hv : Violates e.sign v) (acc : Record R) :
    ∃ ch ∈ e.checks, ch.fires (setField e.field v acc) = true := by
  have hs := assoc_setField_self e.field v acc
  unfold Entry.sign at hv
  by_cases h1 : e.checks.contains (.le0 e.field) = true
  · refine ⟨.le0 e.field, List.contains_iff_mem.mp h1, ?_⟩
    simp only [h1, if_true] at hv
    cases v with
    | dbl x => simpa [Check.fires, hs, Violates] using hv
    | int n => simpa [Check.fires, hs, Violates] using hv
    | str s => simp [Violates] at hv
    | bool b => simp [Violates] at hv
  · simp only [h1] at hv
    by_cases h2 : e.checks.contains (.lt0 e.field) = true
    · refine ⟨.lt0 e.field, List.contains_iff_mem.mp h2, ?_⟩
      simp only [h2, if_true] at hv
      cases v with
      | dbl x => simpa [Check.fires, hs, Violates] using hv
      | int n => simpa [Check.fires, hs, Violates] using hv
      | str s => simp [Violates] at hv
      | bool b => simp [Violates] at hv
    · simp only [h2] at hv
      cases v <;> simp [Violates] at hv

/-- **a sign violation is rejected by exception**: whatever else the section contains, when the
    (first) element of a table tag converts to a value outside the sign constraint that the table
    records for it, the reader does not return -/
theorem sign_violation_rejected (P : Parsers R) {T : List Entry} {e : Entry} (he : e ∈ T) {children : Children}
    {text : String} {v : Value R} (hlook : assoc e.tag children = some text) (hconv : readValue P e text = .ok v)
    (hviol : Violates e.sign v) : ∃ err, readSection P T children = .error err :=
  readGo_rejected P children hlook hconv (fires_of_violates hviol) T [] he

/-- exact verdict when everything before the offending block is fine: the blocks `pre` go through,
    then block `e` stops the reader with the verdict `stop` of that block -/
theorem stops_at (P : Parsers R) {T : List Entry} (hwf : wfTable T = true) (c : Children) (txt : Entry → String)
    (val : Entry → Value R) {pre : List Entry} {e : Entry} {post : List Entry} (hsplit : T = pre ++ e :: post)
    (hlook : ∀ e' ∈ pre, assoc e'.tag c = some (txt e')) (hval : ∀ e' ∈ pre, readValue P e' (txt e') = .ok (val e'))
    (hchk : ∀ e' ∈ pre, ∀ ch ∈ e'.checks, ch.fires (recOf val T) = false) :
    readSection P T c = readGo P c (e :: post) (recOf val pre) := by
  have hpre : readGo P c pre [] = .ok (recOf val pre) := by
    have h := readGo_ok P c val pre []
      (fun p1 e1 q1 hs => by
        have he1 : e1 ∈ pre := by rw [hs]; simp
        have hs' : T = p1 ++ e1 :: (q1 ++ e :: post) := by rw [hsplit, hs]; simp
        simpa using (steps_ok P hwf c txt val hs' (hlook e1 he1) (hval e1 he1) (hchk e1 he1)).1)
      (fun p1 e1 q1 hs => by
        have he1 : e1 ∈ pre := by rw [hs]; simp
        have hs' : T = p1 ++ e1 :: (q1 ++ e :: post) := by rw [hsplit, hs]; simp
        simpa using (steps_ok P hwf c txt val hs' (hlook e1 he1) (hval e1 he1) (hchk e1 he1)).2)
    simpa using h
  rw [readSection, hsplit, readGo_append hpre]

/-- **a single omitted tag**: an otherwise admissible section from which exactly the tag of `e` is
    absent is rejected with "The xml markup e.tag was not found" -/
theorem single_omitted_tag (P : Parsers R) {T : List Entry} (hwf : wfTable T = true) (c : Children) (txt : Entry → String)
    (val : Entry → Value R) {pre : List Entry} {e : Entry} {post : List Entry} (hsplit : T = pre ++ e :: post)
    (hlook : ∀ e' ∈ pre, assoc e'.tag c = some (txt e')) (hval : ∀ e' ∈ pre, readValue P e' (txt e') = .ok (val e'))
    (hchk : ∀ e' ∈ pre, ∀ ch ∈ e'.checks, ch.fires (recOf val T) = false)
    (hmiss : e.tag ∉ c.map Prod.fst) : readSection P T c = .error (.missingTag e.tag) := by
  rw [stops_at P hwf c txt val hsplit hlook hval hchk]
  simp [readGo, assoc_eq_none_iff.mpr hmiss]

/-- **a single sign-violating tag**: an otherwise admissible section in which the value of `e` breaks
    its sign constraint is rejected by one of the validity tests of that very block -/
theorem single_sign_violation (P : Parsers R) {T : List Entry} (hwf : wfTable T = true) (c : Children) (txt : Entry → String)
    (val : Entry → Value R) {pre : List Entry} {e : Entry} {post : List Entry} (hsplit : T = pre ++ e :: post)
    (hlook : ∀ e' ∈ pre, assoc e'.tag c = some (txt e')) (hval : ∀ e' ∈ pre, readValue P e' (txt e') = .ok (val e'))
    (hchk : ∀ e' ∈ pre, ∀ ch ∈ e'.checks, ch.fires (recOf val T) = false)
    {text : String} {v : Value R} (hl : assoc e.tag c = some text) (hconv : readValue P e text = .ok v)
    (hviol : Violates e.sign v) : ∃ k, readSection P T c = .error (.rejected e.tag k) := by
  rw [stops_at P hwf c txt val hsplit hlook hval hchk]
  obtain ⟨ch, hch, hf⟩ := fires_of_violates hviol (recOf val pre)
  obtain ⟨k, hk⟩ := firstFiring_some_of_mem (k := 0) hch hf
  exact ⟨k, by simp [readGo, hl, hconv, hk]⟩

/-- **the relation between two members** (`sampling_period ≥ time_step`): in an otherwise admissible
    section, a value of `e` below the value of the earlier member `b` is rejected by that block -/
theorem single_order_violation (P : Parsers R) {T : List Entry} (hwf : wfTable T = true) (c : Children) (txt : Entry → String)
    (val : Entry → Value R) {pre : List Entry} {e : Entry} {post : List Entry} (hsplit : T = pre ++ e :: post)
    (hlook : ∀ e' ∈ pre, assoc e'.tag c = some (txt e')) (hval : ∀ e' ∈ pre, readValue P e' (txt e') = .ok (val e'))
    (hchk : ∀ e' ∈ pre, ∀ ch ∈ e'.checks, ch.fires (recOf val T) = false)
    {text : String} {x y : R} {eb : Entry} (hb : eb ∈ pre) (hbv : val eb = .dbl y)
    (hck : Check.ltField e.field eb.field ∈ e.checks)
    (hl : assoc e.tag c = some text) (hconv : readValue P e text = .ok (.dbl x)) (hlt : x < y) :
    ∃ k, readSection P T c = .error (.rejected e.tag k) := by
  rw [stops_at P hwf c txt val hsplit hlook hval hchk]
  have hfr : e.field ∉ (recOf val pre).map Prod.fst := by
    simp only [wfTable, Bool.and_eq_true] at hwf
    have hgo := hwf.2; rw [hsplit] at hgo
    have := (wfGo_split hgo).2
    simpa [recOf_keys] using this
  have hne : eb.field ≠ e.field := by
    intro heq; apply hfr; rw [recOf_keys, ← heq]; exact List.mem_map.mpr ⟨eb, hb, rfl⟩
  have hfd : (pre.map (·.field)).Nodup := by
    simp only [wfTable, Bool.and_eq_true] at hwf
    have := nodupB_iff.mp hwf.1.2
    rw [hsplit, List.map_append, List.nodup_append] at this
    exact this.1
  have hy : assoc eb.field (recOf val pre) = some (.dbl y) := by
    clear hlook hval hchk hfr hsplit
    induction pre with
    | nil => cases hb
    | cons a pre ih =>
      simp only [List.map_cons, List.nodup_cons] at hfd
      rcases List.mem_cons.mp hb with h | h
      · subst h; simp [recOf, assoc, hbv]
      · have hna : a.field ≠ eb.field := fun heq => hfd.1 (heq ▸ List.mem_map.mpr ⟨eb, h, rfl⟩)
        simpa [recOf, assoc, hna] using ih h hfd.2
  have hfire : (Check.ltField e.field eb.field).fires (setField e.field (.dbl x) (recOf val pre)) = true := by
    rw [setField_of_not_mem hfr]
    have h1 : assoc e.field (recOf val pre ++ [(e.field, Value.dbl x)]) = some (.dbl x) := by
      rw [assoc_append_of_none (assoc_eq_none_iff.mpr hfr)]; simp [assoc]
    simp [Check.fires, h1, assoc_append_of_some hy, hlt]
  obtain ⟨k, hk⟩ := firstFiring_some_of_mem (k := 0) hck hfire
  exact ⟨k, by simp [readGo, hl, hconv, hk]⟩

/-! ### the whole file -/

/-- what one section of a file says: text and expected value per table entry, plus unknown elements -/
structure SecDoc (R : Type) where
  txt : Entry → String
  val : Entry → Value R
  extra : Children

/-- the section is admissible for table `T`: texts convert, no validity test fires, extras are unknown tags -/
def SecDoc.Valid (P : Parsers R) (T : List Entry) (d : SecDoc R) : Prop :=
  (∀ e ∈ T, readValue P e (d.txt e) = .ok (d.val e)) ∧
  (∀ e ∈ T, ∀ ch ∈ e.checks, ch.fires (recOf d.val T) = false) ∧
  (∀ x ∈ d.extra, x.1 ∉ T.map (·.tag))

/-- `children` is the section written in some order -/
def SecDoc.Renders (T : List Entry) (d : SecDoc R) (children : Children) : Prop :=
  children.Perm (render T d.txt ++ d.extra)

structure CellDoc (R : Type) where
  sec : SecDoc R
  faces : List (SecDoc R)

def CellDoc.params (TB : Tables) (d : CellDoc R) : CellParams R :=
  ⟨recOf d.sec.val TB.cell, d.faces.map (fun fd => recOf fd.val TB.face)⟩

theorem readCell_roundtrip (P : Parsers R) {TB : Tables} (hwf : TB.wf = true) (d : CellDoc R)
    (hv : d.sec.Valid P TB.cell) (hfv : ∀ fd ∈ d.faces, fd.Valid P TB.face) (hne : d.faces ≠ [])
    (c : CellSec) (hr : d.sec.Renders TB.cell c.children)
    (hf : ∃ fs, c.faceTypes = some fs ∧ List.Forall₂ (fun f fd => SecDoc.Renders TB.face fd f) fs d.faces) :
    readCell P TB c = .ok (d.params TB) := by
  simp only [Tables.wf, Bool.and_eq_true] at hwf
  obtain ⟨⟨⟨⟨_, hwc⟩, hwfc⟩, _⟩, hfw⟩ := hwf
  obtain ⟨fs, hfs, hall⟩ := hf
  have hsec := roundtrip_section P hwc d.sec.txt d.sec.val hv.1 hv.2.1 hv.2.2 hr
  have hfaces : (loopOrder TB.faceLoopForward fs).mapM (readSection P TB.face) = .ok (d.faces.map (fun fd => recOf fd.val TB.face)) := by
    simp only [loopOrder, hfw, if_true]
    apply mapM_ok_map
    exact forall₂_imp_mem hall (fun f fd hfd h1 => by
      have hvd := hfv fd hfd
      exact roundtrip_section P hwfc fd.txt fd.val hvd.1 hvd.2.1 hvd.2.2 h1)
  have hfsne : fs ≠ [] := forall₂_ne_nil hall hne
  unfold readCell
  rw [hsec, hfs]
  cases fs with
  | nil => exact absurd rfl hfsne
  | cons f fs' => simp only [hfaces]; rfl

/-- **round trip of a parameter file**: for well-formed tables, ANY number ≥ 1 of cell types each with
    ANY number ≥ 1 of face types, every section written in ANY order of its tags with ANY unknown
    elements in between, admissible texts: the reader returns, member by member, exactly the values
    the texts denote — numerical section, then the cell types in file order, each with its face types
    in file order -/
theorem roundtrip (P : Parsers R) {TB : Tables} (hwf : TB.wf = true) (num : SecDoc R) (cells : List (CellDoc R))
    (hnv : num.Valid P TB.numerical) (hne : cells ≠ [])
    (hcv : ∀ d ∈ cells, d.sec.Valid P TB.cell ∧ (∀ fd ∈ d.faces, fd.Valid P TB.face) ∧ d.faces ≠ [])
    (t : XmlTree) (hnum : ∃ ch, t.numerical = some ch ∧ num.Renders TB.numerical ch)
    (hcells : ∃ cs, t.cellTypes = some cs ∧ List.Forall₂ (fun (c : CellSec) (d : CellDoc R) =>
        d.sec.Renders TB.cell c.children ∧
        ∃ fs, c.faceTypes = some fs ∧ List.Forall₂ (fun f fd => SecDoc.Renders TB.face fd f) fs d.faces) cs cells) :
    readParams P TB t = .ok ⟨recOf num.val TB.numerical, cells.map (fun d => d.params TB)⟩ := by
  have hwf' := hwf
  simp only [Tables.wf, Bool.and_eq_true] at hwf'
  obtain ⟨⟨⟨⟨hwn, _⟩, _⟩, hcw⟩, _⟩ := hwf'
  obtain ⟨ch, hch, hren⟩ := hnum
  obtain ⟨cs, hcs, hall⟩ := hcells
  have h1 : readNumerical P TB t = .ok (recOf num.val TB.numerical) := by
    simp only [readNumerical, hch]
    exact roundtrip_section P hwn num.txt num.val hnv.1 hnv.2.1 hnv.2.2 hren
  have hcsne : cs ≠ [] := forall₂_ne_nil hall hne
  have h2 : readCells P TB t = .ok (cells.map (fun d => d.params TB)) := by
    simp only [readCells, hcs]
    have hm : (loopOrder TB.cellLoopForward cs).mapM (readCell P TB) = .ok (cells.map (fun d => d.params TB)) := by
      simp only [loopOrder, hcw, if_true]
      apply mapM_ok_map
      exact forall₂_imp_mem hall (fun c d hd h1 => by
        have hdv := hcv d hd
        exact readCell_roundtrip P hwf d hdv.1 hdv.2.1 hdv.2.2 c h1.1 h1.2)
    cases cs with
    | nil => exact absurd rfl hcsne
    | cons c cs' => exact hm
  simp [readParams, h1, h2]

/-- **the order of the cell types is preserved**: when the reader returns, the i-th cell type of the
    result is what `read_cell_type_parameters` makes of the i-th `<cell_type>` element, and there are
    as many as in the file -/
theorem order_of_types_preserved (P : Parsers R) {TB : Tables} (hwf : TB.wf = true) (t : XmlTree) (p : Params R)
    (h : readParams P TB t = .ok p) :
    ∃ cs, t.cellTypes = some cs ∧ List.Forall₂ (fun c r => readCell P TB c = .ok r) cs p.cells := by
  simp only [Tables.wf, Bool.and_eq_true] at hwf
  have hcw := hwf.1.2
  unfold readParams at h
  cases h1 : readNumerical P TB t with
  | error e => rw [h1] at h; cases h
  | ok n =>
    rw [h1] at h
    cases h2 : readCells P TB t with
    | error e => rw [h2] at h; cases h
    | ok l =>
      rw [h2] at h; cases h
      unfold readCells at h2
      cases hc : t.cellTypes with
      | none => rw [hc] at h2; cases h2
      | some cs =>
        rw [hc] at h2
        cases cs with
        | nil => cases h2
        | cons c cs' =>
          simp only [loopOrder, hcw, if_true] at h2
          exact ⟨c :: cs', rfl, mapM_ok_forall₂ _ _ _ h2⟩

/-- **the order of the face types is preserved** inside every cell type -/
theorem order_of_face_types_preserved (P : Parsers R) {TB : Tables} (hwf : TB.wf = true) (c : CellSec) (r : CellParams R)
    (h : readCell P TB c = .ok r) :
    readSection P TB.cell c.children = .ok r.fields ∧
    ∃ fs, c.faceTypes = some fs ∧ List.Forall₂ (fun f fr => readSection P TB.face f = .ok fr) fs r.faces := by
  simp only [Tables.wf, Bool.and_eq_true] at hwf
  have hfw := hwf.2
  unfold readCell at h
  cases h1 : readSection P TB.cell c.children with
  | error e => rw [h1] at h; cases h
  | ok rec =>
    rw [h1] at h
    cases hf : c.faceTypes with
    | none => rw [hf] at h; cases h
    | some fs =>
      rw [hf] at h
      cases fs with
      | nil => cases h
      | cons f fs' =>
        simp only [loopOrder, hfw, if_true] at h
        cases h2 : (f :: fs').mapM (readSection P TB.face) with
        | error e => rw [h2] at h; cases h
        | ok l =>
          rw [h2] at h; cases h
          exact ⟨rfl, f :: fs', rfl, mapM_ok_forall₂ _ _ _ h2⟩

/-- a missing section or an empty list of cell / face types is rejected by exception -/
theorem missing_structure_rejected (P : Parsers R) (TB : Tables) (t : XmlTree) :
    (t.numerical = none → readParams P TB t = .error (.missingSection "numerical_parameters")) ∧
    (t.cellTypes = none → ∃ err, readParams P TB t = .error err) ∧
    (t.cellTypes = some [] → ∃ err, readParams P TB t = .error err) := by
  refine ⟨fun h => by simp [readParams, readNumerical, h], fun h => ?_, fun h => ?_⟩
  · unfold readParams
    cases readNumerical P TB t with
    | error e => exact ⟨_, rfl⟩
    | ok n => simp [readCells, h]
  · unfold readParams
    cases readNumerical P TB t with
    | error e => exact ⟨_, rfl⟩
    | ok n => simp [readCells, h]

end

/-! ## Non-vacuity: concrete files against the generated tables (R = Int, `stod` a finite table) -/

namespace Example

local instance : Lit Int := ⟨Int.ofNat⟩

/-- a toy `stod`: scaled integers stand for the numbers -/
def P : Parsers Int :=
  { stod := fun s => assoc s [("1e-7", 1), ("1E-6", 10), ("2.5e3", 25), ("0", 0), ("-0.5", -5), ("-1", -1), ("5e-10", 2), ("1.0e3", 9)],
    stoi := fun s => assoc s [("0", 0), ("1", 1), ("2", 2), ("-3", -3), ("70000", 70000)],
    const := fun _ => 1000000 }

def numCh : Children := [
  ("time_step", "1e-7"), ("input_mesh_file_path", "/m/cube.vtk"), ("sampling_period", "1E-6"),
  ("output_mesh_folder_path", "./out"), ("unknown_tag", "xyz"), ("damping_coefficient", "0"),
  ("perform_initial_triangulation", "1"), ("simulation_duration", "2.5e3"), ("min_edge_length", "1e-7"),
  ("contact_cutoff_adhesion", "1e-7"), ("contact_cutoff_repulsion", "1E-6"), ("enable_edge_swap_operation", "0"),
  ("time_step", "2.5e3")]   -- a later duplicate: ignored

def faceCh (id : String) : Children := [
  ("surface_tension", "0"), ("global_face_id", id), ("face_type_name", "apical"), ("bending_modulus", "1e-7"),
  ("adherence_strength", "2.5e3"), ("repulsion_strength", "2.5e3")]

def cellCh (name press : String) : Children := [
  ("cell_type_name", name), ("global_cell_id", "2"), ("cell_mass_density", "1.0e3"), ("cell_bulk_modulus", "2.5e3"),
  ("max_inner_pressure", press), ("area_elasticity_modulus", "0"), ("avg_division_volume", "inf"),
  ("std_division_volume", "0"), ("avg_growth_rate", "-0.5"), ("std_growth_rate", "0"),
  ("target_isoperimetric_ratio", "2.5e3"), ("angle_regularization_factor", "0"), ("min_vol", "1e-7"),
  ("surface_coupling_max_curvature", "2.5e3")]

def tree : XmlTree :=
  { numerical := some numCh,
    cellTypes := some [⟨cellCh "epi" "INF", some [faceCh "0", faceCh "1"]⟩, ⟨cellCh "ecm" "2.5e3", some [faceCh "2"]⟩] }

/-- what comes out, reduced to something decidable: names of the cell types in order, number of face
    types per cell type, max pressure of the first, time step, sampling period -/
def digest (r : Except Err (Params Int)) : Option (List (Option String) × List Nat × Option Int × Option Int) :=
  match r with
  | .error _ => none
  | .ok p =>
    let str := fun (v : Option (Value Int)) => match v with | some (.str s) => some s | _ => none
    let dbl := fun (v : Option (Value Int)) => match v with | some (.dbl x) => some x | _ => none
    some (p.cells.map (fun c => str (assoc "name_" c.fields)), p.cells.map (fun c => c.faces.length),
          (p.cells.head?.bind (fun c => dbl (assoc "max_pressure_" c.fields))), dbl (assoc "time_step_" p.numerical))

def errOf (r : Except Err (Params Int)) : Option Err := match r with | .error e => some e | .ok _ => none

/-- an admissible shuffled file with two cell types is read: order kept, INF ↦ the infinity constant,
    first duplicate wins, unknown tag ignored -/
example : digest (readParams P Gen.paramTables tree) = some ([some "epi", some "ecm"], [2, 1], some 1000000, some 1) := by decide

/-- omitting `min_edge_length` -/
example : errOf (readParams P Gen.paramTables { tree with numerical := some (numCh.filter (fun p => p.1 != "min_edge_length")) })
    = some (.missingTag "min_edge_length") := by decide

/-- a zero time step -/
example : errOf (readParams P Gen.paramTables { tree with numerical := some (("time_step", "0") :: numCh) })
    = some (.rejected "time_step" 0) := by decide

/-- sampling period below the time step -/
example : errOf (readParams P Gen.paramTables { tree with numerical := some (("time_step", "2.5e3") :: numCh) })
    = some (.rejected "sampling_period" 1) := by decide

/-- a negative surface tension in the second face type of the first cell type -/
example : errOf (readParams P Gen.paramTables { tree with
    cellTypes := some [⟨cellCh "epi" "INF", some [faceCh "0", ("surface_tension", "-1") :: faceCh "1"]⟩] })
    = some (.rejected "surface_tension" 0) := by decide

/-- a negative curvature limit (the repaired test) -/
example : errOf (readParams P Gen.paramTables { tree with
    cellTypes := some [⟨("surface_coupling_max_curvature", "-1") :: cellCh "epi" "INF", some [faceCh "0"]⟩] })
    = some (.rejected "surface_coupling_max_curvature" 0) := by decide

/-- an id outside `short` is silently wrapped by the code (70000 ↦ 4464): outside the admissible inputs -/
example : convInt "short" 70000 = 4464 := by decide

/-- the hypotheses of `roundtrip_section` are satisfiable on the generated face table -/
example : readSection P Gen.faceTable (faceCh "1") = .ok (recOf
    (fun e => match e.tag with
      | "face_type_name" => .str "apical" | "global_face_id" => .int 1 | "surface_tension" => .dbl 0
      | "bending_modulus" => .dbl 1 | _ => .dbl 25) Gen.faceTable) := by
  have hwf : wfTable Gen.faceTable = true := by decide
  apply roundtrip_section P hwf
    (fun e => match e.tag with
      | "face_type_name" => "apical" | "global_face_id" => "1" | "surface_tension" => "0"
      | "bending_modulus" => "1e-7" | _ => "2.5e3") _ _ _ (extra := [])
  · intro x hx; cases hx
  · decide
  · intro e he
    simp only [Gen.faceTable, List.mem_cons, List.mem_nil_iff, or_false] at he
    rcases he with rfl | rfl | rfl | rfl | rfl | rfl <;> decide
  · intro e he
    simp only [Gen.faceTable, List.mem_cons, List.mem_nil_iff, or_false] at he
    rcases he with rfl | rfl | rfl | rfl | rfl | rfl <;> decide

end Example

end Simu.C18
