import SimuVerif.Lemmas.Integrator
import Mathlib.Tactic.Ring
import Mathlib.Tactic.FieldSimp
import Mathlib.Tactic.NormNum
/-
  C03 — a time step advances every node by the documented integration law.

  The model (`Simu.Integ.step`, Model/Integrator.lean) is the sequential reading of
  `time_integration_scheme::update_nodes_positions`; all its arithmetic is the text generated from the C++
  source on every run (Gen/Integrator.lean), so the theorems below are statements about what the C++ says now,
  read in exact arithmetic over an arbitrary ordered field, for each of the six compile-time configurations
  (`cm : CM`, `dm : DM`), every population `topo`, every dynamic state `s`, every `dt`, `damping`, density and
  volume (no sign condition is needed for the algebraic laws), and every number `n` of consecutive steps.
-/
set_option linter.unusedSectionVars false
set_option linter.unusedVariables false
namespace Simu.C03
open Simu Simu.Integ

variable {R : Type} [Field R] [LinearOrder R] [IsStrictOrderedRing R]

/-! ## the documented law -/

/-- semi-implicit Euler: `momentum += (force - damping*momentum/mass)*dt`, then `position += momentum*dt/mass`,
    force accumulator back to zero -/
def lawSemi (dt damping m : R) (x : Dyn R) : Dyn R :=
  let p' : V3 R := x.mom + (x.force - (x.mom * damping) / m) * dt
  ⟨x.pos + (p' * dt) / m, p', ⟨0, 0, 0⟩⟩

/-- overdamped forward Euler: `position += force*dt/damping`, force accumulator back to zero -/
def lawOver (dt damping : R) (x : Dyn R) : Dyn R :=
  ⟨x.pos + (x.force * dt) / damping, x.mom, ⟨0, 0, 0⟩⟩

/-- componentwise reading of the vec3 operators -/
local macro "v3simp" : tactic =>
  `(tactic| simp only [V3.add_x, V3.add_y, V3.add_z, V3.sub_x, V3.sub_y, V3.sub_z, V3.smul_x, V3.smul_y, V3.smul_z,
      V3.sdiv_x, V3.sdiv_y, V3.sdiv_z, V3.neg_x, V3.neg_y, V3.neg_z])

theorem dyn_ext {x y : Dyn R} (h1 : x.pos = y.pos) (h2 : x.mom = y.mom) (h3 : x.force = y.force) : x = y := by
  cases x; cases y; simp_all

/-! ## time -/

/-- one position update advances the simulated time by exactly one time step -/
theorem time_advances (cm : CM) (dm : DM) (topo : List (CellT R)) (dt damping : R) (s : State R) :
    (step cm dm topo dt damping s).time = s.time + dt := rfl

/-- `n` consecutive updates advance it by `n * dt` -/
theorem time_n (cm : CM) (dm : DM) (topo : List (CellT R)) (dt damping : R) (n : Nat) :
    ∀ s : State R, (stepN cm dm topo dt damping n s).time = s.time + n * dt := by
  induction n with
  | zero => intro s; simp [stepN]
  | succ n ih =>
    intro s
    simp only [stepN]
    rw [ih, time_advances]
    push_cast; ring

/-! ## the per-node mass -/

theorem filter_count (l : List NodeT) :
    (l.filter (fun n => !n.used)).length + (l.filter (fun n => n.used)).length = l.length := by
  induction l with
  | nil => rfl
  | cons a t ih =>
    cases h : a.used <;> simp [List.filter_cons, h] <;> omega

/-- the node mass used by the update is the cell mass (density × volume) divided by the number of live slots -/
theorem node_mass_law (c : CellT R) :
    c.mass = c.density * c.volume / (((c.nodes.filter (fun n => n.used)).length : Nat) : R) := by
  have h := filter_count c.nodes
  have : c.nodes.length - c.nbFree = (c.nodes.filter (fun n => n.used)).length := by
    unfold CellT.nbFree; omega
  simp only [CellT.mass, Gen.nodeMass, Gen.cellMass, Gen.nbNodes, lit_eq, this]

/-! ## slots that are not written: unused slots, static cells -/

/-- a slot that no visit writes keeps its whole dynamic state -/
theorem untouched (cm : CM) (dm : DM) (topo : List (CellT R)) (dt damping : R) (s : State R) (q : Slot)
    (h : ∀ k, q ∉ (plan cm topo k).wset k) :
    getD (step cm dm topo dt damping s).dyn q = getD s.dyn q :=
  fold_frame cm dm topo dt damping q _ _ (fun k _ => h k)

/-- no coupling entry of the population names the slot `q` -/
def NoEntry (topo : List (CellT R)) (q : Slot) : Prop :=
  ∀ (k : Slot) (c : CellT R) (nt : NodeT), topo[k.1]? = some c → c.nodes[k.2]? = some nt → q ∉ nt.coup

/-- an unused slot which no coupling names is left untouched (position, momentum and force) -/
theorem unused_untouched (cm : CM) (dm : DM) (topo : List (CellT R)) (dt damping : R) (s : State R)
    (q : Slot) (c : CellT R) (nt : NodeT) (hc : topo[q.1]? = some c) (hn : c.nodes[q.2]? = some nt)
    (hu : nt.used = false) (hne : NoEntry topo q) :
    getD (step cm dm topo dt damping s).dyn q = getD s.dyn q := by
  apply untouched
  intro k hk
  obtain ⟨c', nt', hc', _, hn', hu', h⟩ := wset_subset cm topo k q hk
  rcases h with h | h
  · subst h
    rw [hc] at hc'; cases hc'
    rw [hn] at hn'; cases hn'
    rw [hu] at hu'; cases hu'
  · exact hne k c' nt' hc' hn' h

/-- no coupling entry of the population names a slot of a static cell -/
def NoStaticCoupling (topo : List (CellT R)) : Prop :=
  ∀ (k : Slot) (c : CellT R) (nt : NodeT), topo[k.1]? = some c → c.nodes[k.2]? = some nt →
    ∀ e ∈ nt.coup, ∀ c2 : CellT R, topo[e.1]? = some c2 → c2.isStatic = false

/-- nodes of static (ECM / static) cells never move — nor does anything else of their dynamic state change —
    provided no coupling names a slot of a static cell -/
theorem static_fixed (cm : CM) (dm : DM) (topo : List (CellT R)) (dt damping : R) (s : State R)
    (a b : Nat) (c : CellT R) (hc : topo[a]? = some c) (hs : c.isStatic = true) (hnsc : NoStaticCoupling topo) :
    getD (step cm dm topo dt damping s).dyn (a, b) = getD s.dyn (a, b) := by
  apply untouched
  intro k hk
  obtain ⟨c', nt', hc', hs', hn', _, h⟩ := wset_subset cm topo k (a, b) hk
  rcases h with h | h
  · subst h
    simp only at hc'
    rw [hc] at hc'; cases hc'
    rw [hs] at hs'; cases hs'
  · have := hnsc k c' nt' hc' hn' (a, b) h c hc
    rw [hs] at this; cases this

/-- … over any number of consecutive steps -/
theorem static_fixed_n (cm : CM) (dm : DM) (topo : List (CellT R)) (dt damping : R)
    (a b : Nat) (c : CellT R) (hc : topo[a]? = some c) (hs : c.isStatic = true) (hnsc : NoStaticCoupling topo) (n : Nat) :
    ∀ s : State R, getD (stepN cm dm topo dt damping n s).dyn (a, b) = getD s.dyn (a, b) := by
  induction n with
  | zero => intro s; rfl
  | succ n ih =>
    intro s
    simp only [stepN]
    rw [ih, static_fixed cm dm topo dt damping s a b c hc hs hnsc]

/-- why the contact phase cannot create a coupling with a static cell: in both coupling contact models every
    `set_coupled_node_and_min_distance` call sits under the guard `c1 type == t1 && c2 type == t2` with
    `(t1, t2) ∈ Gen.couplingGuards` (translated from the sources), and no such type id belongs to a class whose
    constructor sets `is_static_` (`Gen.staticTypeIds`, translated from the class dispatch) -/
theorem contact_creates_no_static_coupling (c1 c2 : CellT R) (h : (c1.kind, c2.kind) ∈ Gen.couplingGuards) :
    c1.isStatic = false ∧ c2.isStatic = false := by
  have key : ∀ g ∈ Gen.couplingGuards, Gen.staticTypeIds.contains g.1 = false ∧ Gen.staticTypeIds.contains g.2 = false := by
    decide
  exact key _ h

/-! ## live, uncoupled nodes: the closed form of the documented law -/

theorem single_semi (cm : CM) (dt damping m : R) (x : Dyn R) :
    single cm .semiImplicit dt damping m x = lawSemi dt damping m x := by
  cases cm <;>
  · simp only [single, ofT, Gen.node00, Gen.single10, lawSemi, lit_zero]
    apply dyn_ext <;> apply V3.ext' <;> (try v3simp) <;> (try ring)

theorem single_over (cm : CM) (dt damping m : R) (x : Dyn R) :
    single cm .overdamped dt damping m x = lawOver dt damping x := by
  cases cm <;>
  · simp only [single, ofT, Gen.node01, Gen.single11, lawOver, lit_zero]
    apply dyn_ext <;> apply V3.ext' <;> (try v3simp) <;> (try ring)

theorem own_semi (dt damping m : R) (x : Dyn R) :
    ownF .semiImplicit dt damping 0 (initF .semiImplicit m x) x = lawSemi dt damping m x := by
  simp only [ownF, initF, ofT, Gen.own20, Gen.init20, lawSemi, lit_zero, lit_one]
  apply dyn_ext <;> apply V3.ext' <;> (try v3simp) <;> (try ring)

theorem own_over (dt damping m : R) (x : Dyn R) :
    ownF .overdamped dt damping 0 (initF .overdamped m x) x = lawOver dt damping x := by
  simp only [ownF, initF, ofT, Gen.own21, Gen.init21, lawOver, lit_zero, lit_one]
  apply dyn_ext <;> apply V3.ext' <;> (try v3simp) <;> (try ring)

/-- the law applied by the model to a live uncoupled node -/
def lawOf (dm : DM) (dt damping m : R) (x : Dyn R) : Dyn R :=
  match dm with
  | .semiImplicit => lawSemi dt damping m x
  | .overdamped => lawOver dt damping x

/-- the visit of a live, uncoupled node of a non-static cell applies the documented law to it -/
theorem visit_uncoupled (cm : CM) (dm : DM) (topo : List (CellT R)) (dt damping : R) (d : DynS R)
    (a b : Nat) (c : CellT R) (nt : NodeT) (x : Dyn R)
    (hc : topo[a]? = some c) (hs : c.isStatic = false) (hn : c.nodes[b]? = some nt) (hu : nt.used = true)
    (hcp : nt.coup = []) (hx : getD d (a, b) = some x) :
    getD (nodeStep cm dm topo dt damping d (a, b)) (a, b) = some (lawOf dm dt damping c.mass x) := by
  unfold nodeStep plan
  simp only [hc, hs, hn, hu, hcp, Bool.false_eq_true, if_false, Bool.not_true]
  cases cm with
  | springs =>
    simp only [exec, hx]
    rw [getD_setD_self _ hx]
    cases dm <;> simp [lawOf, single_semi, single_over]
  | nodeNode =>
    simp only [exec, hx]
    rw [getD_setD_self _ hx]
    cases dm <;> simp [lawOf, single_semi, single_over]
  | faceFace =>
    simp only [List.all_nil, if_true, List.mapM_nil, Option.pure_def, exec, hx, accAll, partnersAll, List.length_nil]
    rw [getD_setD_self _ hx]
    cases dm <;> simp [lawOf, own_semi, own_over]

/-- no visit other than its own writes the slot `q` -/
def OnlySelf (cm : CM) (topo : List (CellT R)) (q : Slot) : Prop :=
  ∀ k', k' ≠ q → q ∉ (plan cm topo k').wset k'

/-- sufficient: no coupling entry names the slot -/
theorem onlySelf_of_noEntry (cm : CM) (topo : List (CellT R)) (q : Slot) (h : NoEntry topo q) : OnlySelf cm topo q := by
  intro k' hne hk
  obtain ⟨c', nt', hc', _, hn', _, h'⟩ := wset_subset cm topo k' q hk
  rcases h' with h' | h'
  · exact hne h'.symm
  · exact h k' c' nt' hc' hn' h'

/-- with the spring contact model nothing but the own visit ever writes a slot -/
theorem onlySelf_springs (topo : List (CellT R)) (q : Slot) : OnlySelf .springs topo q := by
  intro k' hne hk
  unfold plan at hk
  cases hc : topo[k'.1]? with
  | none => simp [hc, Plan.wset] at hk
  | some c =>
    simp only [hc] at hk
    split at hk
    · simp [Plan.wset] at hk
    · cases hn : c.nodes[k'.2]? with
      | none => simp [hn, Plan.wset] at hk
      | some nt =>
        simp only [hn] at hk
        split at hk
        · simp [Plan.wset] at hk
        · simp only [Plan.wset, List.mem_singleton] at hk; exact hne hk.symm

theorem step_uncoupled (cm : CM) (dm : DM) (topo : List (CellT R)) (dt damping : R) (s : State R)
    (a b : Nat) (c : CellT R) (nt : NodeT) (x : Dyn R)
    (hc : topo[a]? = some c) (hs : c.isStatic = false) (hn : c.nodes[b]? = some nt) (hu : nt.used = true)
    (hcp : nt.coup = []) (hx : getD s.dyn (a, b) = some x) (hos : OnlySelf cm topo (a, b)) :
    getD (step cm dm topo dt damping s).dyn (a, b) = some (lawOf dm dt damping c.mass x) := by
  obtain ⟨d1, hd1, hres⟩ := fold_localized cm dm topo dt damping [(a, b)] (a, b) (sched topo) s.dyn
    (sched_nodup topo) (sched_mem topo a b c nt hc hn)
    (fun k' _ hne q hq => by
      simp only [List.mem_singleton] at hq; subst hq; exact hos k' hne)
  have h1 := hd1 (a, b) (List.mem_singleton_self _)
  show getD ((sched topo).foldl (nodeStep cm dm topo dt damping) s.dyn) (a, b) = _
  rw [hres (a, b) (List.mem_singleton_self _)]
  exact visit_uncoupled cm dm topo dt damping d1 a b c nt x hc hs hn hu hcp (h1.trans hx)

/-- semi-implicit Euler, every contact model: a live uncoupled node of a non-static cell which no other node is
    coupled to ends the step with `momentum' = momentum + (force − damping·momentum/mass)·dt`,
    `position' = position + momentum'·dt/mass`, force zero — with the cell's per-node mass -/
theorem uncoupled_semi_implicit (cm : CM) (topo : List (CellT R)) (dt damping : R) (s : State R)
    (a b : Nat) (c : CellT R) (nt : NodeT) (x : Dyn R)
    (hc : topo[a]? = some c) (hs : c.isStatic = false) (hn : c.nodes[b]? = some nt) (hu : nt.used = true)
    (hcp : nt.coup = []) (hx : getD s.dyn (a, b) = some x) (hos : OnlySelf cm topo (a, b)) :
    getD (step cm .semiImplicit topo dt damping s).dyn (a, b) = some (lawSemi dt damping c.mass x) :=
  step_uncoupled cm .semiImplicit topo dt damping s a b c nt x hc hs hn hu hcp hx hos

/-- overdamped forward Euler, every contact model: `position' = position + force·dt/damping`, force zero -/
theorem uncoupled_overdamped (cm : CM) (topo : List (CellT R)) (dt damping : R) (s : State R)
    (a b : Nat) (c : CellT R) (nt : NodeT) (x : Dyn R)
    (hc : topo[a]? = some c) (hs : c.isStatic = false) (hn : c.nodes[b]? = some nt) (hu : nt.used = true)
    (hcp : nt.coup = []) (hx : getD s.dyn (a, b) = some x) (hos : OnlySelf cm topo (a, b)) :
    getD (step cm .overdamped topo dt damping s).dyn (a, b) = some (lawOver dt damping x) :=
  step_uncoupled cm .overdamped topo dt damping s a b c nt x hc hs hn hu hcp hx hos

theorem stepN_uncoupled (cm : CM) (dm : DM) (topo : List (CellT R)) (dt damping : R)
    (a b : Nat) (c : CellT R) (nt : NodeT)
    (hc : topo[a]? = some c) (hs : c.isStatic = false) (hn : c.nodes[b]? = some nt) (hu : nt.used = true)
    (hcp : nt.coup = []) (hos : OnlySelf cm topo (a, b)) (n : Nat) :
    ∀ (s : State R) (x : Dyn R), getD s.dyn (a, b) = some x →
      getD (stepN cm dm topo dt damping n s).dyn (a, b) = some ((lawOf dm dt damping c.mass)^[n] x) := by
  induction n with
  | zero => intro s x hx; exact hx
  | succ n ih =>
    intro s x hx
    simp only [stepN, Function.iterate_succ, Function.comp]
    exact ih _ _ (step_uncoupled cm dm topo dt damping s a b c nt x hc hs hn hu hcp hx hos)

/-- any number of consecutive steps: the node follows the iterated law -/
theorem uncoupled_semi_implicit_n (cm : CM) (topo : List (CellT R)) (dt damping : R)
    (a b : Nat) (c : CellT R) (nt : NodeT)
    (hc : topo[a]? = some c) (hs : c.isStatic = false) (hn : c.nodes[b]? = some nt) (hu : nt.used = true)
    (hcp : nt.coup = []) (hos : OnlySelf cm topo (a, b)) (n : Nat) (s : State R) (x : Dyn R)
    (hx : getD s.dyn (a, b) = some x) :
    getD (stepN cm .semiImplicit topo dt damping n s).dyn (a, b) = some ((lawSemi dt damping c.mass)^[n] x) :=
  stepN_uncoupled cm .semiImplicit topo dt damping a b c nt hc hs hn hu hcp hos n s x hx

theorem uncoupled_overdamped_n (cm : CM) (topo : List (CellT R)) (dt damping : R)
    (a b : Nat) (c : CellT R) (nt : NodeT)
    (hc : topo[a]? = some c) (hs : c.isStatic = false) (hn : c.nodes[b]? = some nt) (hu : nt.used = true)
    (hcp : nt.coup = []) (hos : OnlySelf cm topo (a, b)) (n : Nat) (s : State R) (x : Dyn R)
    (hx : getD s.dyn (a, b) = some x) :
    getD (stepN cm .overdamped topo dt damping n s).dyn (a, b) = some ((lawOver dt damping)^[n] x) :=
  stepN_uncoupled cm .overdamped topo dt damping a b c nt hc hs hn hu hcp hos n s x hx

/-! ## force accumulators -/

/-- every slot that some visit writes ("every integrated node": the visited live nodes of non-static cells and
    the partners they update in place) ends the step with a zero force accumulator — in every configuration,
    whatever the couplings.  `hwf`: the slots the plans name exist. -/
theorem force_reset (cm : CM) (dm : DM) (topo : List (CellT R)) (dt damping : R) (s : State R)
    (hwf : ∀ k, ∀ q ∈ (plan cm topo k).wset k, Ex s.dyn q)
    (q : Slot) (hq : ∃ k, q ∈ (plan cm topo k).wset k) (y : Dyn R)
    (hy : getD (step cm dm topo dt damping s).dyn q = some y) : y.force = ⟨0, 0, 0⟩ := by
  obtain ⟨k, hk⟩ := hq
  obtain ⟨c, nt, hc, _, hn, _, _⟩ := wset_subset cm topo k q hk
  have hmem : k ∈ sched topo := sched_mem topo k.1 k.2 c nt hc hn
  exact fold_z cm dm topo dt damping q (sched topo) s.dyn (fun k' _ => hwf k') (Or.inr ⟨k, hmem, hk⟩) y hy

/-! ## mutually coupled pairs, node–node coupling (CONTACT_MODEL_INDEX 1, the shipped configuration) -/

/-- what the pair theorems assume about the population: `k = (a,b)` is a live node of a non-static cell, coupled
    to `p`, in the cell that owns the pair; no other visit writes `k` or `p` (see `others_of_mutual`) -/
structure PairTopo (cm : CM) (topo : List (CellT R)) (k p : Slot) (ca cc : CellT R) : Prop where
  hca : topo[k.1]? = some ca
  hcc : topo[p.1]? = some cc
  hns : ca.isStatic = false
  hnt : ∃ nt, ca.nodes[k.2]? = some nt ∧ nt.used = true ∧ nt.coup = [p]
  hne : k ≠ p
  hothers : ∀ k', k' ≠ k → k ∉ (plan cm topo k').wset k' ∧ p ∉ (plan cm topo k').wset k'

theorem visit_pair (dm : DM) (topo : List (CellT R)) (dt damping : R) (d : DynS R) (k p : Slot) (ca cc : CellT R)
    (x1 x2 : Dyn R) (h : PairTopo .nodeNode topo k p ca cc) (howns : Gen.owns1 ca.localId p.1 = true)
    (hx1 : getD d k = some x1) (hx2 : getD d p = some x2) :
    getD (nodeStep .nodeNode dm topo dt damping d k) k = some (pairF dm dt damping ca.mass cc.mass x1 x2).1 ∧
    getD (nodeStep .nodeNode dm topo dt damping d k) p = some (pairF dm dt damping ca.mass cc.mass x1 x2).2 := by
  obtain ⟨nt, hn, hu, hcp⟩ := h.hnt
  unfold nodeStep plan
  simp only [h.hca, h.hns, hn, hu, hcp, howns, h.hcc, Bool.false_eq_true, if_false, Bool.not_true, if_true, exec, hx1, hx2]
  have hpk : p ≠ k := fun e => h.hne e.symm
  have h2 : getD (setD d k (pairF dm dt damping ca.mass cc.mass x1 x2).1) p = some x2 := by
    rw [getD_setD_ne _ hpk]; exact hx2
  constructor
  · rw [getD_setD_ne _ h.hne]; exact getD_setD_self _ hx1
  · exact getD_setD_self _ h2

/-- the step gives a mutual pair exactly what the pair block of the code computes from the pair's initial state -/
theorem pair_step (dm : DM) (topo : List (CellT R)) (dt damping : R) (s : State R) (k p : Slot) (ca cc : CellT R)
    (x1 x2 : Dyn R) (h : PairTopo .nodeNode topo k p ca cc) (howns : Gen.owns1 ca.localId p.1 = true)
    (hx1 : getD s.dyn k = some x1) (hx2 : getD s.dyn p = some x2) :
    getD (step .nodeNode dm topo dt damping s).dyn k = some (pairF dm dt damping ca.mass cc.mass x1 x2).1 ∧
    getD (step .nodeNode dm topo dt damping s).dyn p = some (pairF dm dt damping ca.mass cc.mass x1 x2).2 := by
  obtain ⟨nt, hn, _, _⟩ := h.hnt
  obtain ⟨d1, hd1, hres⟩ := fold_localized .nodeNode dm topo dt damping [k, p] k (sched topo) s.dyn
    (sched_nodup topo) (sched_mem topo k.1 k.2 ca nt h.hca hn)
    (fun k' _ hne q hq => by
      simp only [List.mem_cons, List.not_mem_nil, or_false] at hq
      rcases hq with hq | hq
      · subst hq; exact (h.hothers k' hne).1
      · subst hq; exact (h.hothers k' hne).2)
  have e1 := (hd1 k (by simp)).trans hx1
  have e2 := (hd1 p (by simp)).trans hx2
  have hv := visit_pair dm topo dt damping d1 k p ca cc x1 x2 h howns e1 e2
  constructor
  · show getD ((sched topo).foldl (nodeStep .nodeNode dm topo dt damping) s.dyn) k = _
    rw [hres k (by simp)]; exact hv.1
  · show getD ((sched topo).foldl (nodeStep .nodeNode dm topo dt damping) s.dyn) p = _
    rw [hres p (by simp)]; exact hv.2

/-- the two nodes of a pair receive the same displacement (both dynamic models) -/
theorem pairF_same_displacement (dm : DM) (dt damping m1 m2 : R) (x1 x2 : Dyn R) :
    (pairF dm dt damping m1 m2 x1 x2).1.pos - x1.pos = (pairF dm dt damping m1 m2 x1 x2).2.pos - x2.pos := by
  cases dm <;>
  · simp only [pairF, ofT, Gen.pair10, Gen.pair11, lit_zero, lit_one, lit_two]
    apply V3.ext' <;> (try v3simp) <;> (try ring)

/-- semi-implicit: both nodes leave with the same momentum, and the pair's total momentum is the total it had,
    advanced by the pair's TOTAL force and the damping of the total at the mean node mass: nothing is created or
    lost by the coupling -/
theorem pairF_momentum (dt damping m1 m2 : R) (x1 x2 : Dyn R) :
    (pairF .semiImplicit dt damping m1 m2 x1 x2).1.mom = (pairF .semiImplicit dt damping m1 m2 x1 x2).2.mom ∧
    (pairF .semiImplicit dt damping m1 m2 x1 x2).1.mom + (pairF .semiImplicit dt damping m1 m2 x1 x2).2.mom
      = (x1.mom + x2.mom) + ((x1.force + x2.force) - ((x1.mom + x2.mom) * damping) / ((m1 + m2) / 2)) * dt := by
  constructor
  · simp only [pairF, ofT, Gen.pair10]
  simp only [pairF, ofT, Gen.pair10, lit_zero, lit_one, lit_two]
  apply V3.ext' <;> (try v3simp) <;> (try ring)

/-- semi-implicit: the common displacement is the documented one for a body carrying the mean momentum -/
theorem pairF_displacement_semi (dt damping m1 m2 : R) (x1 x2 : Dyn R) :
    (pairF .semiImplicit dt damping m1 m2 x1 x2).1.pos - x1.pos
      = ((pairF .semiImplicit dt damping m1 m2 x1 x2).1.mom * dt) / ((m1 + m2) / 2) := by
  simp only [pairF, ofT, Gen.pair10, lit_zero, lit_one, lit_two]
  apply V3.ext' <;> (try v3simp) <;> (try ring)

/-- overdamped: each node is moved by the mean force, so the two displacements add up to what the pair's TOTAL
    force produces -/
theorem pairF_force (dt damping m1 m2 : R) (x1 x2 : Dyn R) :
    ((pairF .overdamped dt damping m1 m2 x1 x2).1.pos - x1.pos) + ((pairF .overdamped dt damping m1 m2 x1 x2).2.pos - x2.pos)
      = ((x1.force + x2.force) * dt) / damping := by
  simp only [pairF, ofT, Gen.pair11, lit_zero, lit_one, lit_two]
  apply V3.ext' <;> (try v3simp) <;> (try ring)

theorem pair_same_displacement (dm : DM) (topo : List (CellT R)) (dt damping : R) (s : State R) (k p : Slot)
    (ca cc : CellT R) (x1 x2 : Dyn R) (h : PairTopo .nodeNode topo k p ca cc) (howns : Gen.owns1 ca.localId p.1 = true)
    (hx1 : getD s.dyn k = some x1) (hx2 : getD s.dyn p = some x2) :
    ∃ y1 y2, getD (step .nodeNode dm topo dt damping s).dyn k = some y1 ∧
      getD (step .nodeNode dm topo dt damping s).dyn p = some y2 ∧ y1.pos - x1.pos = y2.pos - x2.pos := by
  obtain ⟨h1, h2⟩ := pair_step dm topo dt damping s k p ca cc x1 x2 h howns hx1 hx2
  exact ⟨_, _, h1, h2, pairF_same_displacement ..⟩

theorem pair_momentum (topo : List (CellT R)) (dt damping : R) (s : State R) (k p : Slot)
    (ca cc : CellT R) (x1 x2 : Dyn R) (h : PairTopo .nodeNode topo k p ca cc) (howns : Gen.owns1 ca.localId p.1 = true)
    (hx1 : getD s.dyn k = some x1) (hx2 : getD s.dyn p = some x2) :
    ∃ y1 y2, getD (step .nodeNode .semiImplicit topo dt damping s).dyn k = some y1 ∧
      getD (step .nodeNode .semiImplicit topo dt damping s).dyn p = some y2 ∧ y1.mom = y2.mom ∧
      y1.mom + y2.mom = (x1.mom + x2.mom)
        + ((x1.force + x2.force) - ((x1.mom + x2.mom) * damping) / ((ca.mass + cc.mass) / 2)) * dt ∧
      y1.pos - x1.pos = (y1.mom * dt) / ((ca.mass + cc.mass) / 2) := by
  obtain ⟨h1, h2⟩ := pair_step .semiImplicit topo dt damping s k p ca cc x1 x2 h howns hx1 hx2
  exact ⟨_, _, h1, h2, (pairF_momentum ..).1, (pairF_momentum ..).2, pairF_displacement_semi ..⟩

theorem pair_force (topo : List (CellT R)) (dt damping : R) (s : State R) (k p : Slot)
    (ca cc : CellT R) (x1 x2 : Dyn R) (h : PairTopo .nodeNode topo k p ca cc) (howns : Gen.owns1 ca.localId p.1 = true)
    (hx1 : getD s.dyn k = some x1) (hx2 : getD s.dyn p = some x2) :
    ∃ y1 y2, getD (step .nodeNode .overdamped topo dt damping s).dyn k = some y1 ∧
      getD (step .nodeNode .overdamped topo dt damping s).dyn p = some y2 ∧
      (y1.pos - x1.pos) + (y2.pos - x2.pos) = ((x1.force + x2.force) * dt) / damping ∧
      y1.force = ⟨0, 0, 0⟩ ∧ y2.force = ⟨0, 0, 0⟩ := by
  obtain ⟨h1, h2⟩ := pair_step .overdamped topo dt damping s k p ca cc x1 x2 h howns hx1 hx2
  exact ⟨_, _, h1, h2, pairF_force .., (Integ.pairF_force ..).1, (Integ.pairF_force ..).2⟩

theorem v3_sub_trans {a b c a' b' c' : V3 R} (h1 : b - a = b' - a') (h2 : c - b = c' - b') : c - a = c' - a' := by
  have hx := congrArg V3.x h1; have hy := congrArg V3.y h1; have hz := congrArg V3.z h1
  have gx := congrArg V3.x h2; have gy := congrArg V3.y h2; have gz := congrArg V3.z h2
  simp only [V3.sub_x, V3.sub_y, V3.sub_z] at hx hy hz gx gy gz
  apply V3.ext' <;> simp <;> linarith

/-- any number of consecutive steps: the two nodes of a mutual pair have received the same total displacement -/
theorem pair_same_displacement_n (dm : DM) (topo : List (CellT R)) (dt damping : R) (k p : Slot)
    (ca cc : CellT R) (h : PairTopo .nodeNode topo k p ca cc) (howns : Gen.owns1 ca.localId p.1 = true) (n : Nat) :
    ∀ (s : State R) (x1 x2 : Dyn R), getD s.dyn k = some x1 → getD s.dyn p = some x2 →
    ∃ y1 y2, getD (stepN .nodeNode dm topo dt damping n s).dyn k = some y1 ∧
      getD (stepN .nodeNode dm topo dt damping n s).dyn p = some y2 ∧ y1.pos - x1.pos = y2.pos - x2.pos := by
  induction n with
  | zero =>
    intro s x1 x2 hx1 hx2
    refine ⟨x1, x2, hx1, hx2, ?_⟩
    apply V3.ext' <;> (try v3simp) <;> (try ring)
  | succ n ih =>
    intro s x1 x2 hx1 hx2
    obtain ⟨z1, z2, hz1, hz2, hz⟩ := pair_same_displacement dm topo dt damping s k p ca cc x1 x2 h howns hx1 hx2
    obtain ⟨y1, y2, hy1, hy2, hy⟩ := ih _ z1 z2 hz1 hz2
    exact ⟨y1, y2, hy1, hy2, v3_sub_trans hz hy⟩

/-! ## mutually coupled pairs, face–face coupling (CONTACT_MODEL_INDEX 2), each node coupled to the other only -/

/-- what the code computes for a pair in contact model 2 -/
def pairFF (dm : DM) (dt damping m1 m2 : R) (x1 x2 : Dyn R) : Dyn R × Dyn R :=
  let a := accF dm (initF dm m1 x1) x2 m2
  (ownF dm dt damping 1 a x1, partnerF dm dt damping 1 a x1 x2)

theorem visit_pair_ff (dm : DM) (topo : List (CellT R)) (dt damping : R) (d : DynS R) (k p : Slot) (ca cc : CellT R)
    (x1 x2 : Dyn R) (h : PairTopo .faceFace topo k p ca cc) (howns : Gen.owns2 ca.localId p.1 = true)
    (hx1 : getD d k = some x1) (hx2 : getD d p = some x2) :
    getD (nodeStep .faceFace dm topo dt damping d k) k = some (pairFF dm dt damping ca.mass cc.mass x1 x2).1 ∧
    getD (nodeStep .faceFace dm topo dt damping d k) p = some (pairFF dm dt damping ca.mass cc.mass x1 x2).2 := by
  obtain ⟨nt, hn, hu, hcp⟩ := h.hnt
  have hpk : p ≠ k := fun e => h.hne e.symm
  unfold nodeStep plan
  simp only [h.hca, h.hns, hn, hu, hcp, Bool.false_eq_true, if_false, Bool.not_true, List.all_cons, List.all_nil,
    howns, Bool.and_true, if_true, List.mapM_cons, List.mapM_nil, h.hcc, Option.map_some, Option.pure_def,
    Option.bind_eq_bind, Option.bind_some, exec, hx1, accAll, hx2, List.length_cons, List.length_nil, Nat.zero_add,
    partnersAll]
  have h2 : getD (setD d k (ownF dm dt damping 1 (accF dm (initF dm ca.mass x1) x2 cc.mass) x1)) p = some x2 := by
    rw [getD_setD_ne _ hpk]; exact hx2
  simp only [h2]
  constructor
  · rw [getD_setD_ne _ h.hne]; exact getD_setD_self _ hx1
  · exact getD_setD_self _ h2

theorem pair_step_ff (dm : DM) (topo : List (CellT R)) (dt damping : R) (s : State R) (k p : Slot) (ca cc : CellT R)
    (x1 x2 : Dyn R) (h : PairTopo .faceFace topo k p ca cc) (howns : Gen.owns2 ca.localId p.1 = true)
    (hx1 : getD s.dyn k = some x1) (hx2 : getD s.dyn p = some x2) :
    getD (step .faceFace dm topo dt damping s).dyn k = some (pairFF dm dt damping ca.mass cc.mass x1 x2).1 ∧
    getD (step .faceFace dm topo dt damping s).dyn p = some (pairFF dm dt damping ca.mass cc.mass x1 x2).2 := by
  obtain ⟨nt, hn, _, _⟩ := h.hnt
  obtain ⟨d1, hd1, hres⟩ := fold_localized .faceFace dm topo dt damping [k, p] k (sched topo) s.dyn
    (sched_nodup topo) (sched_mem topo k.1 k.2 ca nt h.hca hn)
    (fun k' _ hne q hq => by
      simp only [List.mem_cons, List.not_mem_nil, or_false] at hq
      rcases hq with hq | hq
      · subst hq; exact (h.hothers k' hne).1
      · subst hq; exact (h.hothers k' hne).2)
  have e1 := (hd1 k (by simp)).trans hx1
  have e2 := (hd1 p (by simp)).trans hx2
  have hv := visit_pair_ff dm topo dt damping d1 k p ca cc x1 x2 h howns e1 e2
  constructor
  · show getD ((sched topo).foldl (nodeStep .faceFace dm topo dt damping) s.dyn) k = _
    rw [hres k (by simp)]; exact hv.1
  · show getD ((sched topo).foldl (nodeStep .faceFace dm topo dt damping) s.dyn) p = _
    rw [hres p (by simp)]; exact hv.2

theorem pairFF_same_displacement (dm : DM) (dt damping m1 m2 : R) (x1 x2 : Dyn R) :
    (pairFF dm dt damping m1 m2 x1 x2).1.pos - x1.pos = (pairFF dm dt damping m1 m2 x1 x2).2.pos - x2.pos := by
  cases dm <;>
  · simp only [pairFF, ownF, partnerF, accF, initF, ofT, Gen.own20, Gen.own21, Gen.partner20, Gen.partner21,
      Gen.acc20, Gen.acc21, Gen.init20, Gen.init21, lit_zero, lit_one]
    apply V3.ext' <;> (try v3simp) <;> (try ring)

/-- semi-implicit, contact model 2: total momentum of the pair advanced by the total force (nothing created or lost),
    and the common displacement is the documented one for a body carrying the UPDATED mean momentum -/
theorem pairFF_momentum (dt damping m1 m2 : R) (x1 x2 : Dyn R) :
    (pairFF .semiImplicit dt damping m1 m2 x1 x2).1.mom + (pairFF .semiImplicit dt damping m1 m2 x1 x2).2.mom
      = (x1.mom + x2.mom) + ((x1.force + x2.force) - ((x1.mom + x2.mom) * damping) / ((m1 + m2) / 2)) * dt ∧
    (pairFF .semiImplicit dt damping m1 m2 x1 x2).1.pos - x1.pos
      = ((((pairFF .semiImplicit dt damping m1 m2 x1 x2).1.mom + (pairFF .semiImplicit dt damping m1 m2 x1 x2).2.mom) / (2 : R)) * dt)
          / ((m1 + m2) / 2) := by
  simp only [pairFF, ownF, partnerF, accF, initF, ofT, Gen.own20, Gen.partner20, Gen.acc20, Gen.init20, lit_zero, lit_one]
  constructor <;> apply V3.ext' <;> (try v3simp) <;> (try ring)

theorem pairFF_force (dt damping m1 m2 : R) (x1 x2 : Dyn R) :
    ((pairFF .overdamped dt damping m1 m2 x1 x2).1.pos - x1.pos) + ((pairFF .overdamped dt damping m1 m2 x1 x2).2.pos - x2.pos)
      = ((x1.force + x2.force) * dt) / damping := by
  simp only [pairFF, ownF, partnerF, accF, initF, ofT, Gen.own21, Gen.partner21, Gen.acc21, Gen.init21, lit_zero, lit_one]
  apply V3.ext' <;> (try v3simp) <;> (try ring)

theorem pair_same_displacement_ff (dm : DM) (topo : List (CellT R)) (dt damping : R) (s : State R) (k p : Slot)
    (ca cc : CellT R) (x1 x2 : Dyn R) (h : PairTopo .faceFace topo k p ca cc) (howns : Gen.owns2 ca.localId p.1 = true)
    (hx1 : getD s.dyn k = some x1) (hx2 : getD s.dyn p = some x2) :
    ∃ y1 y2, getD (step .faceFace dm topo dt damping s).dyn k = some y1 ∧
      getD (step .faceFace dm topo dt damping s).dyn p = some y2 ∧ y1.pos - x1.pos = y2.pos - x2.pos := by
  obtain ⟨h1, h2⟩ := pair_step_ff dm topo dt damping s k p ca cc x1 x2 h howns hx1 hx2
  exact ⟨_, _, h1, h2, pairFF_same_displacement ..⟩

theorem pair_momentum_ff (topo : List (CellT R)) (dt damping : R) (s : State R) (k p : Slot)
    (ca cc : CellT R) (x1 x2 : Dyn R) (h : PairTopo .faceFace topo k p ca cc) (howns : Gen.owns2 ca.localId p.1 = true)
    (hx1 : getD s.dyn k = some x1) (hx2 : getD s.dyn p = some x2) :
    ∃ y1 y2, getD (step .faceFace .semiImplicit topo dt damping s).dyn k = some y1 ∧
      getD (step .faceFace .semiImplicit topo dt damping s).dyn p = some y2 ∧
      y1.mom + y2.mom = (x1.mom + x2.mom)
        + ((x1.force + x2.force) - ((x1.mom + x2.mom) * damping) / ((ca.mass + cc.mass) / 2)) * dt ∧
      y1.pos - x1.pos = (((y1.mom + y2.mom) / (2 : R)) * dt) / ((ca.mass + cc.mass) / 2) := by
  obtain ⟨h1, h2⟩ := pair_step_ff .semiImplicit topo dt damping s k p ca cc x1 x2 h howns hx1 hx2
  exact ⟨_, _, h1, h2, (pairFF_momentum ..).1, (pairFF_momentum ..).2⟩

theorem pair_force_ff (topo : List (CellT R)) (dt damping : R) (s : State R) (k p : Slot)
    (ca cc : CellT R) (x1 x2 : Dyn R) (h : PairTopo .faceFace topo k p ca cc) (howns : Gen.owns2 ca.localId p.1 = true)
    (hx1 : getD s.dyn k = some x1) (hx2 : getD s.dyn p = some x2) :
    ∃ y1 y2, getD (step .faceFace .overdamped topo dt damping s).dyn k = some y1 ∧
      getD (step .faceFace .overdamped topo dt damping s).dyn p = some y2 ∧
      (y1.pos - x1.pos) + (y2.pos - x2.pos) = ((x1.force + x2.force) * dt) / damping ∧
      y1.force = ⟨0, 0, 0⟩ ∧ y2.force = ⟨0, 0, 0⟩ := by
  obtain ⟨h1, h2⟩ := pair_step_ff .overdamped topo dt damping s k p ca cc x1 x2 h howns hx1 hx2
  exact ⟨_, _, h1, h2, pairFF_force .., ownF_force .., partnerF_force ..⟩

/-! ## where the pair hypotheses come from: symmetric matchings with local ids = list positions -/

/-- the coupling relation is a symmetric partial matching: whenever a slot `k` names `e`, the slot `e` exists and
    names exactly `k` (this is what `set_coupled_node_and_min_distance` on both nodes establishes) -/
def Mutual (topo : List (CellT R)) : Prop :=
  ∀ (k : Slot) (c : CellT R) (nt : NodeT), topo[k.1]? = some c → c.nodes[k.2]? = some nt →
    ∀ e ∈ nt.coup, ∃ (c2 : CellT R) (nt2 : NodeT), topo[e.1]? = some c2 ∧ c2.nodes[e.2]? = some nt2 ∧ nt2.coup = [k]

/-- `local_id_` is the position in `cell_lst` (what the solver maintains) -/
def IdsAreIndices (topo : List (CellT R)) : Prop := ∀ (i : Nat) (c : CellT R), topo[i]? = some c → c.localId = i

theorem plan_nonowner (cm : CM) (topo : List (CellT R)) (p k : Slot) (cc : CellT R) (nt2 : NodeT)
    (hcc : topo[p.1]? = some cc) (hn2 : cc.nodes[p.2]? = some nt2) (hcp : nt2.coup = [k])
    (ho1 : Gen.owns1 cc.localId k.1 = false) (ho2 : Gen.owns2 cc.localId k.1 = false) (hcm : cm ≠ .springs) :
    (plan cm topo p).wset p = [] := by
  unfold plan
  simp only [hcc, hn2]
  split
  · rfl
  · split
    · rfl
    · cases cm with
      | springs => exact absurd rfl hcm
      | nodeNode => simp [hcp, ho1, Plan.wset]
      | faceFace => simp [hcp, ho2, Plan.wset]

/-- in a symmetric matching whose local ids are the list positions, the member of a pair that lives in the cell
    with the greater index owns the pair, and nothing else writes the two slots -/
theorem pairTopo_of_mutual (cm : CM) (topo : List (CellT R)) (k p : Slot) (ca cc : CellT R) (nt : NodeT)
    (hm : Mutual topo) (hid : IdsAreIndices topo) (hcm : cm ≠ .springs)
    (hca : topo[k.1]? = some ca) (hcc : topo[p.1]? = some cc) (hns : ca.isStatic = false)
    (hn : ca.nodes[k.2]? = some nt) (hu : nt.used = true) (hcp : nt.coup = [p]) (hlt : p.1 < k.1) :
    PairTopo cm topo k p ca cc ∧ Gen.owns1 ca.localId p.1 = true ∧ Gen.owns2 ca.localId p.1 = true := by
  have hne : k ≠ p := by
    intro e; rw [e] at hlt; exact Nat.lt_irrefl _ hlt
  obtain ⟨c2, nt2, hc2, hn2, hcp2⟩ := hm k ca nt hca hn p (by rw [hcp]; exact List.mem_singleton_self _)
  rw [hcc] at hc2; cases hc2
  have hida : ca.localId = k.1 := hid _ _ hca
  have hidc : cc.localId = p.1 := hid _ _ hcc
  have ho1 : Gen.owns1 cc.localId k.1 = false := by
    simp only [Gen.owns1, hidc, decide_eq_false_iff_not]; omega
  have ho2 : Gen.owns2 cc.localId k.1 = false := by
    simp only [Gen.owns2, hidc, decide_eq_false_iff_not]; omega
  have hpempty := plan_nonowner cm topo p k cc nt2 hcc hn2 hcp2 ho1 ho2 hcm
  refine ⟨⟨hca, hcc, hns, ⟨nt, hn, hu, hcp⟩, hne, ?_⟩, ?_, ?_⟩
  · intro k' hne'
    constructor
    · intro hk
      obtain ⟨c', nt', hc', _, hn', _, h'⟩ := wset_subset cm topo k' k hk
      rcases h' with h' | h'
      · exact hne' h'.symm
      · obtain ⟨c3, nt3, hc3, hn3, hcp3⟩ := hm k' c' nt' hc' hn' k h'
        rw [hca] at hc3; cases hc3
        rw [hn] at hn3; cases hn3
        rw [hcp] at hcp3
        have : k' = p := by injection hcp3 with h1 _; exact h1.symm
        subst this
        rw [hpempty] at hk; cases hk
    · intro hk
      obtain ⟨c', nt', hc', _, hn', _, h'⟩ := wset_subset cm topo k' p hk
      rcases h' with h' | h'
      · subst h'; rw [hpempty] at hk; cases hk
      · obtain ⟨c3, nt3, hc3, hn3, hcp3⟩ := hm k' c' nt' hc' hn' p h'
        rw [hcc] at hc3; cases hc3
        rw [hn2] at hn3; cases hn3
        rw [hcp2] at hcp3
        have : k' = k := by injection hcp3 with h1 _; exact h1.symm
        exact hne' this
  · simp only [Gen.owns1, hida, decide_eq_true_eq]; exact hlt
  · simp only [Gen.owns2, hida, decide_eq_true_eq]; exact hlt

/-! ## non-vacuity: a population over ℚ with one mutual pair, an unused slot and a static cell -/
section nonvacuous

def exTopo : List (CellT ℚ) := [
  { localId := 0, kind := 0, density := 2, volume := 3, nodes := [⟨true, [(1, 0)]⟩, ⟨true, []⟩, ⟨false, []⟩] },
  { localId := 1, kind := 0, density := 1, volume := 4, nodes := [⟨true, [(0, 0)]⟩, ⟨true, []⟩] },
  { localId := 2, kind := 1, density := 1, volume := 1, nodes := [⟨true, []⟩] } ]

def exDyn : DynS ℚ := [
  [⟨⟨0, 0, 0⟩, ⟨1, 2, 3⟩, ⟨1, 0, -1⟩⟩, ⟨⟨1, 0, 0⟩, ⟨0, 1, 0⟩, ⟨0, 2, 0⟩⟩, ⟨⟨9, 9, 9⟩, ⟨5, 5, 5⟩, ⟨7, 7, 7⟩⟩],
  [⟨⟨0, 0, 1/2⟩, ⟨-1, 0, 2⟩, ⟨3, 1, 1⟩⟩, ⟨⟨2, 0, 0⟩, ⟨0, 0, 1⟩, ⟨1, 1, 1⟩⟩],
  [⟨⟨5, 5, 5⟩, ⟨1, 1, 1⟩, ⟨2, 2, 2⟩⟩] ]

example : IdsAreIndices exTopo := by
  intro i c h
  rcases i with _ | _ | _ | i <;> simp [exTopo] at h <;> subst h <;> rfl

theorem exMutual : Mutual exTopo := by
  intro k c nt hc hn e he
  obtain ⟨a, b⟩ := k
  rcases a with _ | _ | _ | a <;> simp [exTopo] at hc <;> subst hc
  · rcases b with _ | _ | _ | b <;> simp at hn <;> subst hn <;> simp at he
    subst he; exact ⟨_, _, rfl, rfl, rfl⟩
  · rcases b with _ | _ | b <;> simp at hn <;> subst hn <;> simp at he
    subst he; exact ⟨_, _, rfl, rfl, rfl⟩
  · rcases b with _ | b <;> simp at hn <;> subst hn <;> simp at he

theorem exIds : IdsAreIndices exTopo := by
  intro i c h
  rcases i with _ | _ | _ | i <;> simp [exTopo] at h <;> subst h <;> rfl

theorem exNoStatic : NoStaticCoupling exTopo := by
  intro k c nt hc hn e he c2 hc2
  obtain ⟨a, b⟩ := k
  rcases a with _ | _ | _ | a <;> simp [exTopo] at hc <;> subst hc
  · rcases b with _ | _ | _ | b <;> simp at hn <;> subst hn <;> simp at he
    subst he; simp [exTopo] at hc2; subst hc2; rfl
  · rcases b with _ | _ | b <;> simp at hn <;> subst hn <;> simp at he
    subst he; simp [exTopo] at hc2; subst hc2; rfl
  · rcases b with _ | b <;> simp at hn <;> subst hn <;> simp at he

/-- the hypotheses of the pair theorems hold for the pair (1,0) / (0,0) of the example (owner: cell 1) -/
example : ∃ y1 y2, getD (step .nodeNode .semiImplicit exTopo (1/4) (1/2) ⟨0, exDyn⟩).dyn (1, 0) = some y1 ∧
    getD (step .nodeNode .semiImplicit exTopo (1/4) (1/2) ⟨0, exDyn⟩).dyn (0, 0) = some y2 ∧
    y1.pos - (⟨0, 0, 1/2⟩ : V3 ℚ) = y2.pos - ⟨0, 0, 0⟩ := by
  obtain ⟨hp, ho, _⟩ := pairTopo_of_mutual .nodeNode exTopo (1, 0) (0, 0) _ _ ⟨true, [(0, 0)]⟩ exMutual exIds (by decide)
    (rfl : exTopo[1]? = some _) (rfl : exTopo[0]? = some _) rfl rfl rfl rfl (by decide)
  exact pair_same_displacement .semiImplicit exTopo (1/4) (1/2) ⟨0, exDyn⟩ (1, 0) (0, 0) _ _ _ _ hp ho rfl rfl

/-- the cell of the live uncoupled node (0,1) has 2 live slots out of 3, so the node mass is 2·3/2 = 3 -/
example : (exTopo[0]'(by decide)).mass = 3 := by
  rw [node_mass_law]; norm_num [exTopo]

example : getD (step .nodeNode .semiImplicit exTopo (1/4) (1/2) ⟨0, exDyn⟩).dyn (0, 1)
    = some (lawSemi (1/4 : ℚ) (1/2) (exTopo[0]'(by decide)).mass ⟨⟨1, 0, 0⟩, ⟨0, 1, 0⟩, ⟨0, 2, 0⟩⟩) := by
  have hos : OnlySelf .nodeNode exTopo (0, 1) := by
    apply onlySelf_of_noEntry
    intro k c nt hc hn
    obtain ⟨a, b⟩ := k
    rcases a with _ | _ | _ | a <;> simp [exTopo] at hc <;> subst hc
    · rcases b with _ | _ | _ | b <;> simp at hn <;> subst hn <;> simp
    · rcases b with _ | _ | b <;> simp at hn <;> subst hn <;> simp
    · rcases b with _ | b <;> simp at hn <;> subst hn <;> simp
  exact uncoupled_semi_implicit .nodeNode exTopo (1/4) (1/2) ⟨0, exDyn⟩ 0 1 _ ⟨true, []⟩ _ rfl rfl rfl rfl rfl rfl hos

/-- the static cell 2 keeps its state, the documented law gives concrete numbers -/
example : getD (step .nodeNode .semiImplicit exTopo (1/4) (1/2) ⟨0, exDyn⟩).dyn (2, 0) = some ⟨⟨5, 5, 5⟩, ⟨1, 1, 1⟩, ⟨2, 2, 2⟩⟩ :=
  static_fixed .nodeNode .semiImplicit exTopo (1/4) (1/2) ⟨0, exDyn⟩ 2 0 _ rfl rfl exNoStatic

example : lawSemi (1/2 : ℚ) 1 1 ⟨⟨0, 0, 0⟩, ⟨1, 0, 0⟩, ⟨2, 0, 0⟩⟩ = ⟨⟨3/4, 0, 0⟩, ⟨3/2, 0, 0⟩, ⟨0, 0, 0⟩⟩ := by
  simp only [lawSemi]
  apply dyn_ext <;> apply V3.ext' <;> norm_num

end nonvacuous

end Simu.C03
