import SimuVerif.Model.TissueD2
import SimuVerif.Lemmas.C14_DivCut
import SimuVerif.Lemmas.C14_DivInit
import SimuVerif.Properties.C14Division
/-
  C14 — the WHOLE `cell_divider::divide_cell` inside the assembled tissue iteration commutes with translations.

  `TissueD2.divideCellM` (lean/SimuVerif/Model/TissueD2.lean) is `divide_cell` as `cell_divider::run` calls it, composed from C09's stage
  models, C01's mesh bookkeeping and the cell of Model/TissueR.lean; its inputs besides the mother are the division axis the code used
  (`get_cell_longest_axis()`: eigen-solver, opaque) and the interface triangulation `D` that Poisson sampling + Delaunay produced, in the
  frame of the division plane.  `tissueIterationD2 … ins` is one whole `solver::run_iteration` whose division round computes the daughters
  itself; tied bit for bit to the real solver over three generations of divisions (tools/props/c14_dividecell.py).

  `divideCellM_translate`: for the SAME recorded axis and the SAME recorded `D`, the daughters of the translated mother are the translates of
  the daughters (or both attempts fail).  Why the same `D` is the right input for the translated run: `map_points_to_xy_plane` subtracts the
  mean of the interface points before it rotates (`Gen.Division.translationOf`), and the rotation is built from the axis alone, so the 2-D
  coordinates handed to the sampler are those of the reference run; `map_points_to_division_plane` adds the mean back
  (`TissueD2.interfaceStage_tr`).  `tissueIterationD2_translate` / `tissueRunD2_translate` discharge the hypothesis of
  `tissueIterationD_translate_partial` (Properties/C14Division.lean): no assumption about the daughters is left.  Hypotheses: the decidable
  domain `stepOkTD2` / `runOkTD2` of the REFERENCE run (evaluated by the driver on every executed iteration) and `TissueSetup`.
  Outside: that the eigen-solver returns the same axis for the translated mother (C12 `longest_axis_follows_partial`) and that the sampler
  returns the same `D` (clock-seeded random numbers): both are inputs here.
-/
set_option linter.unusedSectionVars false
set_option linter.unusedVariables false
set_option linter.unusedSimpArgs false
namespace Simu.C14
open Simu Simu.Forces Simu.Gen Simu.Remesh Simu.TissueR Simu.TissueP Simu.TissueD Simu.TissueD2

section field
variable {R : Type} [Field R] [LinearOrder R] [IsStrictOrderedRing R]

/-! ### the pieces of `divide_cell` -/

theorem motherOk_parts {c : CellTR R} (h : motherOk c = true) :
    c.mesh.nodes.all (fun nd => nd.used) = true ∧ c.mesh.faces.all (fun f => f.used) = true ∧
    c.mesh.faces.all (fun f => f.n1 < c.mesh.nodes.size && f.n2 < c.mesh.nodes.size && f.n3 < c.mesh.nodes.size) = true ∧
    c.mesh.edges.all (fun e => e.n1 < c.mesh.nodes.size && e.n2 < c.mesh.nodes.size) = true ∧
    c.area = c.mesh.faces.toList.foldl (fun (s : R) f => s + (if f.used then f.area else lit 0)) (lit 0) ∧ c.area ≠ lit 0 := by
  unfold motherOk at h
  simp only [Bool.and_eq_true, decide_eq_true_eq, Bool.not_eq_true', decide_eq_false_iff_not] at h
  exact ⟨h.1.1.1.1.1.1.1.1.1, h.1.1.1.1.1.1.1.1.2, h.1.1.1.1.1.2, h.1.1.1.1.2, h.1.1.1.2, h.1.1.2⟩

/-- the weighted sum of `compute_centroid` over a face list whose corners are used node slots -/
theorem centroidSum_tr (t : V3 R) (m : Remesh.Cell R) : ∀ (fs : List (Remesh.Face R)) (acc : V3 R) (w : R),
    (∀ f ∈ fs, usedN m f.n1 = true ∧ usedN m f.n2 = true ∧ usedN m f.n3 = true) →
    fs.foldl (fun (a : V3 R) f =>
      if f.used then a + (((posOf (translateCell t m) f.n1 + posOf (translateCell t m) f.n2) + posOf (translateCell t m) f.n3) / (lit 3 : R)) * f.area
      else a) (acc + t * w)
    = fs.foldl (fun (a : V3 R) f =>
      if f.used then a + (((posOf m f.n1 + posOf m f.n2) + posOf m f.n3) / (lit 3 : R)) * f.area else a) acc
      + t * (fs.foldl (fun (s : R) f => s + (if f.used then f.area else lit 0)) w)
  | [], acc, w, _ => rfl
  | f :: fs, acc, w, h => by
    have hf := h f (List.mem_cons_self)
    simp only [List.foldl_cons]
    by_cases hu : f.used = true
    · simp only [hu, if_true]
      rw [tr_posOf t hf.1, tr_posOf t hf.2.1, tr_posOf t hf.2.2]
      have e : acc + t * w + (posOf m f.n1 + t + (posOf m f.n2 + t) + (posOf m f.n3 + t)) / (lit 3 : R) * f.area
          = (acc + (posOf m f.n1 + posOf m f.n2 + posOf m f.n3) / (lit 3 : R) * f.area) + t * (w + f.area) := by
        apply V3.ext' <;> simp <;> ring
      rw [e]
      exact centroidSum_tr t m fs _ _ (fun g hg => h g (List.mem_cons_of_mem _ hg))
    · simp only [hu, if_false, Bool.false_eq_true]
      have e : w + (lit 0 : R) = w := by simp
      rw [e]
      exact centroidSum_tr t m fs _ _ (fun g hg => h g (List.mem_cons_of_mem _ hg))

/-- `compute_centroid()` of the translated (rebased) mother is the translated centroid: `area_` is the sum of the cached face areas -/
theorem centroidM_translate (t : V3 R) (c : CellTR R) (h : motherOk c = true) : centroidM (trCellR t c) = centroidM c + t := by
  obtain ⟨hn, _, hf, _, ha, ha0⟩ := motherOk_parts h
  have hused : ∀ f ∈ c.mesh.faces.toList, usedN c.mesh f.n1 = true ∧ usedN c.mesh f.n2 = true ∧ usedN c.mesh f.n3 = true := by
    intro f hfm
    rw [Array.all_eq_true_iff_forall_mem] at hf hn
    have := hf f (Array.mem_toList_iff.mp hfm)
    simp only [Bool.and_eq_true, decide_eq_true_eq] at this
    have hu : ∀ i, i < c.mesh.nodes.size → usedN c.mesh i = true := by
      intro i hi
      unfold usedN
      rw [Array.getElem?_eq_getElem hi]
      exact hn _ (Array.getElem_mem hi)
    exact ⟨hu _ this.1.1, hu _ this.1.2, hu _ this.2⟩
  unfold centroidM
  simp only [trCellR_mesh, tr_faces]
  have h0 : (zeroV : V3 R) = zeroV + t * (lit 0 : R) := by
    apply V3.ext' <;> simp [zeroV]
  have hs := centroidSum_tr t c.mesh c.mesh.faces.toList zeroV (lit 0) hused
  rw [← h0] at hs
  have hA : (trCellR t c).area = c.area := rfl
  rw [hA, hs, ← ha]
  have ha0' : c.area ≠ 0 := by simpa using ha0
  apply V3.ext' <;> simp <;> field_simp

theorem faceSide_tr (a b d p n t : V3 R) :
    Gen.Division.faceSide (a + t) (b + t) (d + t) (p + t) n = Gen.Division.faceSide a b d p n := by
  unfold Gen.Division.faceSide
  simp only []
  congr 2
  simp [V3.dot]
  ring

/-- the side test of `create_daughter_cells` on the translated mesh with the translated plane -/
theorem sideOf_tr (t : V3 R) (m : Division.Mesh R) (p n : V3 R) (tr : Surface.Tri)
    (h : tr.1 < m.nodes.size ∧ tr.2.1 < m.nodes.size ∧ tr.2.2 < m.nodes.size) :
    Division.sideOf (trMesh t m) (p + t) n tr = Division.sideOf m p n tr := by
  unfold Division.sideOf
  simp only [trMesh, Array.getElem?_map, Array.getElem?_eq_getElem h.1, Array.getElem?_eq_getElem h.2.1,
    Array.getElem?_eq_getElem h.2.2, Option.map_some]
  exact faceSide_tr _ _ _ _ _ _

theorem mapM_some_mem {α β : Type} (f : α → Option β) : ∀ (l : List α) (r : List β), l.mapM f = some r →
    ∀ y ∈ r, ∃ x ∈ l, f x = some y
  | [], r, h, y, hy => by
    simp only [List.mapM_nil] at h
    cases h
    cases hy
  | a :: l, r, h, y, hy => by
    rw [List.mapM_cons] at h
    cases ha : f a with
    | none => rw [ha] at h; cases h
    | some b =>
      rw [ha] at h
      cases hl : l.mapM f with
      | none => rw [hl] at h; cases h
      | some bs =>
        rw [hl] at h
        cases h
        rcases List.mem_cons.mp hy with rfl | hy'
        · exact ⟨a, List.mem_cons_self, ha⟩
        · obtain ⟨x, hx, hfx⟩ := mapM_some_mem f l bs hl y hy'
          exact ⟨x, List.mem_cons_of_mem _ hx, hfx⟩

theorem sideIdx_congr (S : List Surface.Tri) (s1 s2 : Surface.Tri → Bool) (v : Bool) (h : ∀ x ∈ S, s1 x = s2 x) :
    Division.sideIdx S s1 v = Division.sideIdx S s2 v := by
  unfold Division.sideIdx
  apply List.filter_congr
  intro i hi
  rw [List.mem_range] at hi
  simp only [List.getElem?_eq_getElem hi]
  rw [h _ (List.getElem_mem hi)]

theorem triOfFace_mem {f : List Nat} {x : Surface.Tri} (h : Division.triOfFace f = some x) : x.1 ∈ f ∧ x.2.1 ∈ f ∧ x.2.2 ∈ f := by
  unfold Division.triOfFace at h
  split at h
  · next a b c h0 h1 h2 =>
    cases h
    exact ⟨List.mem_of_getElem? h0, List.mem_of_getElem? h1, List.mem_of_getElem? h2⟩
  · cases h

/-- the face lists of the two daughters do not depend on where the mesh is -/
theorem daughterFaces_translate (t : V3 R) (m : Division.Mesh R) (fthr : Nat) (p n : V3 R)
    (hf : m.faces.all (fun f => f.all (· < m.nodes.size)) = true) :
    Division.daughterFaces (trMesh t m) fthr (p + t) n = Division.daughterFaces m fthr p n := by
  unfold Division.daughterFaces
  have hfa : (trMesh t m).faces = m.faces := rfl
  simp only [hfa]
  cases hS : (m.faces.toList.take fthr).mapM Division.triOfFace with
  | none => rfl
  | some S =>
    cases hD : (m.faces.toList.drop fthr).mapM Division.triOfFace with
    | none => rfl
    | some D =>
      simp only []
      have hside : ∀ x ∈ S, Division.sideOf (trMesh t m) (p + t) n x = Division.sideOf m p n x := by
        intro x hx
        obtain ⟨f, hfm, hfx⟩ := mapM_some_mem _ _ _ hS x hx
        have hmem : f ∈ m.faces.toList := List.mem_of_mem_take hfm
        rw [Array.all_eq_true_iff_forall_mem] at hf
        have hall := hf f (Array.mem_toList_iff.mp hmem)
        rw [List.all_eq_true] at hall
        obtain ⟨h1, h2, h3⟩ := triOfFace_mem hfx
        apply sideOf_tr
        exact ⟨by simpa using hall _ h1, by simpa using hall _ h2, by simpa using hall _ h3⟩
      unfold Division.splitSurface
      rw [sideIdx_congr S _ _ _ hside, sideIdx_congr S _ _ _ hside]

/-! ### the stage lemmas (Lemmas/C14_DivCut.lean, Lemmas/C14_DivInit.lean) at the level of the property -/

/-- **why the recorded `D` does not depend on the position**: `map_points_to_xy_plane` (mean of the interface points subtracted, rotation
    built from the axis), the recorded Poisson points and Delaunay triangles, and `map_points_to_division_plane` — on the mesh moved by `t`
    with the SAME `D` the result is the result moved by `t` -/
theorem interfaceStage_translate (fn : Fn R) (m3 : Division.Mesh R) (thr fthr : Nat) (n t : V3 R) (D : RecD R) (hthr : thr < m3.nodes.size) :
    interfaceStage fn (trMesh t m3) thr fthr n D = trMesh t (interfaceStage fn m3 thr fthr n D) :=
  interfaceStage_tr fn m3 thr fthr n t D hthr

/-- `add_intersection_points`, `divide_faces`, the polygon + `coarse_triangulation`, and the interface, for the plane moved with the cell -/
theorem cutAndTriangulate_translate (fn : Fn R) (m : Remesh.Cell R) (p n t : V3 R) (d : Option (RecD R))
    (hu : m.nodes.all (fun nd => nd.used) = true)
    (he : m.edges.all (fun e => e.n1 < m.nodes.size && e.n2 < m.nodes.size) = true)
    (hf : m.faces.all (fun f => f.n1 < m.nodes.size && f.n2 < m.nodes.size && f.n3 < m.nodes.size) = true)
    (hc : cutOk m p n = true) :
    cutAndTriangulate fn (translateCell t m) (p + t) n d = (cutAndTriangulate fn m p n d).map (fun mf => (trMesh t mf.1, mf.2)) :=
  cutAndTriangulate_tr fn m p n t d hu he hf hc

/-- `create_daughter_cells` for one daughter: `get_cell_same_type`, the mother's node objects, `initialize_cell_properties` (unused nodes
    released, edge index, manifold test, flood fill of the orientation, signed volume, cached geometry, area, volume) -/
theorem initDaughterCell_translate (fn : Fn R) (mother : CellTR R) (pts : Array (V3 R)) (T : List Surface.Tri) (t : V3 R)
    (hu : mother.mesh.nodes.all (fun nd => nd.used) = true) (hT : trisBelow pts.size T = true) :
    initDaughterCell fn (trCellR t mother) (pts.map (· + t)) T = (initDaughterCell fn mother pts T).map (trCellR t) :=
  initDaughterCell_tr fn mother pts T t hu hT

/-- `lmr.refine_mesh(daughter)` with the replay of the node attributes -/
theorem refineDaughter_translate (fn : Fn R) (K : ConstsTR R) (c : CellTR R) (t : V3 R) (hl : daughterLive fn K c = true) :
    refineDaughter fn K (trCellR t c) = (refineDaughter fn K c).map (trCellR t) :=
  refineDaughter_tr fn K c t hl

/-! ### `Except` plumbing -/

@[simp] theorem ebind_ok {ε α β : Type} (a : α) (f : α → Except ε β) : (Except.ok a : Except ε α).bind f = f a := rfl
@[simp] theorem ebind_error {ε α β : Type} (e : ε) (f : α → Except ε β) : (Except.error e : Except ε α).bind f = .error e := rfl
@[simp] theorem emap_ok {ε α β : Type} (g : α → β) (a : α) : (Except.ok a : Except ε α).map g = .ok (g a) := rfl
@[simp] theorem emap_error {ε α β : Type} (g : α → β) (e : ε) : (Except.error e : Except ε α).map g = .error e := rfl
@[simp] theorem liftR_ok {α : Type} (a : α) : liftR (Except.ok a : Except Remesh.Err α) = .ok a := rfl
@[simp] theorem liftR_error {α : Type} (e : Remesh.Err) : liftR (Except.error e : Except Remesh.Err α) = .error (Division.ofRemesh e) := rfl

/-- the pair of daughters moved -/
def trPair (t : V3 R) (d : CellTR R × CellTR R) : CellTR R × CellTR R := (trCellR t d.1, trCellR t d.2)

/-- **`divide_cell` after the rebase of the mother commutes with the translation, for the same axis and the same recorded `D`** -/
theorem divideRebased_translate (fn : Fn R) (K : ConstsTR R) (c : CellTR R) (inp : DivIn R) (t : V3 R)
    (hok : divOkRebased fn K c inp = true) :
    divideRebased fn K (trCellR t c) inp = (divideRebased fn K c inp).map (trPair t) := by
  unfold divOkRebased at hok
  simp only [Bool.and_eq_true] at hok
  obtain ⟨⟨hm, hcut⟩, hrest⟩ := hok
  obtain ⟨hn, _, hf, he, _, _⟩ := motherOk_parts hm
  unfold divideRebased
  simp only [centroidM_translate t c hm, trCellR_mesh, cutAndTriangulate_tr fn c.mesh (centroidM c) inp.axis t inp.d hn he hf hcut]
  cases hct : cutAndTriangulate fn c.mesh (centroidM c) inp.axis inp.d with
  | error e => rfl
  | ok mf =>
    rw [hct] at hrest
    simp only [Bool.and_eq_true] at hrest
    obtain ⟨hfaces, hrest⟩ := hrest
    simp only [emap_ok, ebind_ok, daughterFaces_translate t mf.1 mf.2 _ _ hfaces]
    cases hdf : Division.daughterFaces mf.1 mf.2 (centroidM c) inp.axis with
    | error e => rfl
    | ok TT =>
      rw [hdf] at hrest
      simp only [Bool.and_eq_true] at hrest
      obtain ⟨⟨hT1, hT2⟩, hrest⟩ := hrest
      have hnodes : (trMesh t mf.1).nodes = mf.1.nodes.map (· + t) := rfl
      simp only [ebind_ok, hnodes, initDaughterCell_tr fn c mf.1.nodes TT.1 t hn hT1, initDaughterCell_tr fn c mf.1.nodes TT.2 t hn hT2]
      cases hd1 : initDaughterCell fn c mf.1.nodes TT.1 with
      | error e => rfl
      | ok d1 =>
        cases hd2 : initDaughterCell fn c mf.1.nodes TT.2 with
        | error e => rfl
        | ok d2 =>
          rw [hd1, hd2] at hrest
          simp only [Bool.and_eq_true] at hrest
          simp only [emap_ok, ebind_ok, refineDaughter_tr fn K d1 t hrest.1, refineDaughter_tr fn K d2 t hrest.2]
          cases refineDaughter fn K d1 with
          | error e => rfl
          | ok r1 =>
            cases refineDaughter fn K d2 with
            | error e => rfl
            | ok r2 =>
              simp only [emap_ok, liftR_ok, ebind_ok]
              have h1 : ({ trCellR t r1 with tvol := Gen.Division.targetD1 (trCellR t c).tvol } : CellTR R)
                  = trCellR t { r1 with tvol := Gen.Division.targetD1 c.tvol } := rfl
              have h2 : ({ trCellR t r2 with tvol := Gen.Division.targetD2 (trCellR t c).tvol } : CellTR R)
                  = trCellR t { r2 with tvol := Gen.Division.targetD2 c.tvol } := rfl
              rw [h1, h2, rebaseCell_tr, rebaseCell_tr]
              cases rebaseCell { r1 with tvol := Gen.Division.targetD1 c.tvol } with
              | error e => rfl
              | ok b1 =>
                cases rebaseCell { r2 with tvol := Gen.Division.targetD2 c.tvol } with
                | error e => rfl
                | ok b2 => rfl

/-- **the whole `cell_divider::divide_cell`: for the same recorded axis and the same recorded `D` the daughters of the translated mother
    are the translates of the daughters; a failed attempt (`nullopt`) fails for the translated mother as well** -/
theorem divideCellM_translate (fn : Fn R) (K : ConstsTR R) (c : CellTR R) (inp : DivIn R) (t : V3 R)
    (hok : divOkM fn K c inp = true) :
    divideCellM fn K (trCellR t c) inp = (divideCellM fn K c inp).map (trPair t) := by
  unfold divOkM at hok
  unfold divideCellM
  rw [rebaseCell_tr]
  cases hr : rebaseCell c with
  | error e => rfl
  | ok c' =>
    rw [hr] at hok
    simp only [emap_ok, divideRebased_translate fn K c' inp t hok]
    cases divideRebased fn K c' inp with
    | error e => rfl
    | ok d => rfl

/-- the loop of `cell_divider::run`: the same cells divide, the daughters are the translates -/
theorem eventsGo_translate (fn : Fn R) (K : ConstsTR R) (t : V3 R) : ∀ (cells : List (CellTR R)) (i : Nat) (ins : List (DivIn R)),
    insOkGo fn K cells ins = true →
    eventsGo fn K i (cells.map (trCellR t)) ins = (eventsGo fn K i cells ins).map (trEvD t)
  | [], i, ins, _ => rfl
  | c :: cs, i, ins, h => by
    have hr : readyD (trCellR t c) = readyD c := rfl
    simp only [List.map_cons]
    unfold eventsGo
    unfold insOkGo at h
    rw [hr]
    cases hc : readyD c with
    | false =>
      rw [hc] at h
      simp only [Bool.false_eq_true, if_false] at h ⊢
      exact eventsGo_translate fn K t cs (i + 1) ins h
    | true =>
      rw [hc] at h
      simp only [if_true] at h ⊢
      cases ins with
      | nil => cases h
      | cons inp rest =>
        simp only [Bool.and_eq_true] at h
        simp only [divideCellM_translate fn K c inp t h.1]
        cases divideCellM fn K c inp with
        | none => exact eventsGo_translate fn K t cs (i + 1) rest h.2
        | some d =>
          simp only [Option.map_some, List.map_cons]
          rw [eventsGo_translate fn K t cs (i + 1) rest h.2]
          rfl

theorem eventsD2_translate (fn : Fn R) (K : ConstsTR R) (b : StateTR R) (ins : List (DivIn R)) (t : V3 R)
    (h : insOkD2 fn K b ins = true) :
    eventsD2 fn K (translateTR t b) ins = (eventsD2 fn K b ins).map (trEvD t) := by
  unfold eventsD2
  unfold insOkD2 at h
  have hi : (translateTR t b).iter = b.iter := rfl
  rw [hi]
  cases hd : dividesNow b.iter with
  | false => rfl
  | true =>
    rw [hd] at h
    simp only [if_true] at h ⊢
    exact eventsGo_translate fn K t b.cells 0 ins h

/-- `tissueIterationD2` is `tissueIterationD` with the events computed by `divideCellM` on the list `save_mesh` left -/
theorem tissueIterationD2_eq (fn : Fn R) (fx : FX R) (K : ConstsTR R) (s : StateTP R) (ins : List (DivIn R)) :
    tissueIterationD2 fn fx K s ins
      = tissueIterationD fn fx K s (match saveMeshT fn K s.base with | .ok b1 => eventsD2 fn K b1 ins | .error _ => []) := by
  unfold tissueIterationD2 tissueIterationD afterDividerD2 afterDividerD
  cases saveMeshT fn K s.base with
  | error e => rfl
  | ok b1 => rfl

/-! ### what `divide_cell` guarantees about its result -/

theorem rebaseCell_tvol {c c' : CellTR R} (h : rebaseCell c = .ok c') : c'.tvol = c.tvol := by
  unfold rebaseCell at h
  cases hr : Remesh.rebase c.mesh with
  | error e => rw [hr] at h; cases h
  | ok m => rw [hr] at h; cases h; rfl

/-- **target volumes**: each daughter `divide_cell` returns carries half of the mother's target volume (the expressions of the source,
    `Gen.Division.targetD1/2`, regenerated on every run) -/
theorem divideCellM_target_halved (fn : Fn R) (K : ConstsTR R) (c : CellTR R) (inp : DivIn R) (d : CellTR R × CellTR R)
    (h : divideCellM fn K c inp = some d) : d.1.tvol = c.tvol / 2 ∧ d.2.tvol = c.tvol / 2 := by
  unfold divideCellM at h
  cases hr : rebaseCell c with
  | error e => rw [hr] at h; cases h
  | ok c' =>
    rw [hr] at h
    have htv := rebaseCell_tvol hr
    simp only [] at h
    cases hd : divideRebased fn K c' inp with
    | error e => rw [hd] at h; cases h
    | ok r =>
      rw [hd] at h
      cases h
      unfold divideRebased at hd
      dsimp only at hd
      cases h1 : cutAndTriangulate fn c'.mesh (centroidM c') inp.axis inp.d with
      | error e => rw [h1] at hd; cases hd
      | ok mf =>
        rw [h1] at hd; simp only [ebind_ok] at hd
        cases h2 : Division.daughterFaces mf.1 mf.2 (centroidM c') inp.axis with
        | error e => rw [h2] at hd; cases hd
        | ok TT =>
          rw [h2] at hd; simp only [ebind_ok] at hd
          cases h3 : initDaughterCell fn c' mf.1.nodes TT.1 with
          | error e => rw [h3] at hd; cases hd
          | ok d1 =>
            rw [h3] at hd; simp only [ebind_ok] at hd
            cases h4 : initDaughterCell fn c' mf.1.nodes TT.2 with
            | error e => rw [h4] at hd; cases hd
            | ok d2 =>
              rw [h4] at hd; simp only [ebind_ok] at hd
              cases h5 : refineDaughter fn K d1 with
              | error e => rw [h5] at hd; cases hd
              | ok r1 =>
                rw [h5] at hd; simp only [liftR_ok, ebind_ok] at hd
                cases h6 : refineDaughter fn K d2 with
                | error e => rw [h6] at hd; cases hd
                | ok r2 =>
                  rw [h6] at hd; simp only [liftR_ok, ebind_ok] at hd
                  cases h7 : rebaseCell { r1 with tvol := Gen.Division.targetD1 c'.tvol } with
                  | error e => rw [h7] at hd; cases hd
                  | ok b1 =>
                    rw [h7] at hd; simp only [liftR_ok, ebind_ok] at hd
                    cases h8 : rebaseCell { r2 with tvol := Gen.Division.targetD2 c'.tvol } with
                    | error e => rw [h8] at hd; cases hd
                    | ok b2 =>
                      rw [h8] at hd; simp only [liftR_ok, ebind_ok] at hd
                      cases hd
                      have e1 := rebaseCell_tvol h7
                      have e2 := rebaseCell_tvol h8
                      simp only [Gen.Division.targetD1, Gen.Division.targetD2, lit_two] at e1 e2
                      rw [htv] at e1 e2
                      exact ⟨e1, e2⟩

theorem cutAndTriangulate_none (fn : Fn R) (m : Remesh.Cell R) (p n : V3 R) : ∃ e, cutAndTriangulate fn m p n none = .error e := by
  unfold cutAndTriangulate
  cases cutFaces m p n with
  | error e => exact ⟨e, rfl⟩
  | ok m2 =>
    cases h : Division.addPolygonAndCoarse m.nodes.size m2 with
    | error e => exact ⟨e, by simp only [ebind_ok, h, ebind_error]⟩
    | ok m3 => exact ⟨.division, by simp only [ebind_ok, h]⟩

/-- **failure path**: when `triangulate_division_interface` threw in the real run (no `D`), `divide_cell` returns `nullopt` -/
theorem divideCellM_none_of_no_interface (fn : Fn R) (K : ConstsTR R) (c : CellTR R) (inp : DivIn R) (h : inp.d = none) :
    divideCellM fn K c inp = none := by
  unfold divideCellM
  cases rebaseCell c with
  | error e => rfl
  | ok c' =>
    obtain ⟨e, he⟩ := cutAndTriangulate_none fn c'.mesh (centroidM c') inp.axis
    have hd : divideRebased fn K c' inp = .error e := by
      unfold divideRebased
      dsimp only
      rw [h, he]
      rfl
    simp only [hd]

section floorD2
variable [FloorRing R]

/-- **one whole solver iteration whose division round computes the daughters itself commutes with the translation — no hypothesis
    about the daughters**: same recorded axes and interface triangulations in both runs, the decidable domain of the reference run -/
theorem tissueIterationD2_translate (fn : Fn R) (fx : FX R) (K : ConstsTR R) (S : TissueSetup fn K.base) (s : StateTP R)
    (ins : List (DivIn R)) (t : V3 R) (hok : stepOkTD2 fn fx K s ins = true) :
    tissueIterationD2 fn fx K (translateTP t s) ins = (tissueIterationD2 fn fx K s ins).map (translateTP t) := by
  unfold stepOkTD2 at hok
  unfold tissueIterationD2 afterDividerD2
  show ((saveMeshT fn K (translateTR t s.base)).map _).bind _ = _
  rw [saveMeshT_tr]
  cases hs : saveMeshT fn K s.base with
  | error e => rfl
  | ok b1 =>
    rw [hs] at hok
    simp only [Bool.and_eq_true] at hok
    obtain ⟨hins, hD⟩ := hok
    obtain ⟨hl, hm⟩ := stepOkTD_parts hD b1 hs
    simp only [emap_ok, ebind_ok, eventsD2_translate fn K b1 ins t hins]
    show restD fn fx K (divisionRoundD (translateTP t { s with base := b1 }) ((eventsD2 fn K b1 ins).map (trEvD t))) = _
    rw [divisionRoundD_translate]
    exact restD_translate fn fx K S _ t hl hm

/-- **any number of iterations, several generations of divisions** -/
theorem tissueRunD2_translate (fn : Fn R) (fx : FX R) (K : ConstsTR R) (S : TissueSetup fn K.base) :
    ∀ (inss : List (List (DivIn R))) (s : StateTP R) (t : V3 R), runOkTD2 fn fx K inss s = true →
    tissueRunD2 fn fx K inss (translateTP t s) = (tissueRunD2 fn fx K inss s).map (translateTP t)
  | [], s, t, _ => rfl
  | ins :: rest, s, t, hok => by
    unfold runOkTD2 at hok
    simp only [Bool.and_eq_true] at hok
    unfold tissueRunD2
    rw [tissueIterationD2_translate fn fx K S s ins t hok.1]
    cases hc : tissueIterationD2 fn fx K s ins with
    | error e => rfl
    | ok s' =>
      have h2 := hok.2
      rw [hc] at h2
      exact tissueRunD2_translate fn fx K S rest s' t h2

end floorD2

end field
/-! ### non-vacuity over ℚ (evaluated by the kernel): the unit tetrahedron of Properties/C14TissueR.lean with `area_` = the sum of its
    cached face areas (3 with `sqrt := id`), cut along z through its centroid (5/18, 5/18, 5/18), one-triangle interface `D`.
    The mother is in the domain, the cut + interface stage returns a mesh of 7 nodes / 11 faces (10 surface faces), both daughters pass
    `initialize_cell_properties` (flood fill included) with 7 node slots, volumes 3635/34992 + 2197/34992 = 1/6.  (The refinement of the
    daughters on this instance performs a collapse test, whose `std::sort` model `Remesh.sortNat` = `Array.qsort` the kernel cannot
    unfold; the compiled evaluation `#eval` gives `divOkM = true` and daughters with 9 / 7 node slots, target volume 1/6 each.) -/
section nonvacuousD2
set_option maxRecDepth 1000000

def motherQ : CellTR ℚ := { cellAtQ ⟨0, 0, 0⟩ with area := 3, tvol := 1 / 3 }
def inQ : DivIn ℚ := ⟨⟨0, 0, 1⟩, some ⟨[], [(0, 1, 2)]⟩⟩
def cutQ := cutAndTriangulate fnQ2 motherQ.mesh (centroidM motherQ) inQ.axis inQ.d
def facesQ := match cutQ with
  | .ok mf => Division.daughterFaces mf.1 mf.2 (centroidM motherQ) inQ.axis
  | .error e => .error e
def initQ (second : Bool) := match cutQ, facesQ with
  | .ok mf, .ok tt => initDaughterCell fnQ2 motherQ mf.1.nodes (if second then tt.2 else tt.1)
  | _, _ => .error .ub

theorem tetQ_motherOk : motherOk motherQ = true ∧ cutOk motherQ.mesh (centroidM motherQ) inQ.axis = true ∧ centroidM motherQ = ⟨5 / 18, 5 / 18, 5 / 18⟩ := by
  decide +kernel

theorem tetQ_cut : (match cutQ with | .ok mf => (mf.1.nodes.size, mf.1.faces.size, mf.2) | .error _ => (0, 0, 0)) = (7, 11, 10) := by
  decide +kernel

theorem tetQ_daughters_init :
    (match initQ false, initQ true with
      | .ok d1, .ok d2 => (d1.mesh.nodes.size, d1.mesh.faces.size, d1.mesh.freeNodes, d2.mesh.faces.size, d2.mesh.freeNodes, d1.volume + d2.volume)
      | _, _ => (0, 0, [], 0, [], 0)) = (7, 8, [3], 4, [2, 1, 0], 1 / 6) := by
  decide +kernel

/-- so the cut of the tetrahedron placed anywhere is the cut moved -/
example (t : V3 ℚ) : cutAndTriangulate fnQ2 (translateCell t motherQ.mesh) (centroidM (trCellR t motherQ)) inQ.axis inQ.d
    = (cutAndTriangulate fnQ2 motherQ.mesh (centroidM motherQ) inQ.axis inQ.d).map (fun mf => (trMesh t mf.1, mf.2)) := by
  rw [centroidM_translate t motherQ tetQ_motherOk.1]
  obtain ⟨hn, _, hf, he, _, _⟩ := motherOk_parts tetQ_motherOk.1
  exact cutAndTriangulate_translate fnQ2 motherQ.mesh _ _ t _ hn he hf tetQ_motherOk.2.1

end nonvacuousD2
end Simu.C14
