import SimuVerif.Lemmas.C03_SearchPass
import SimuVerif.Properties.C14Tissue
import SimuVerif.Properties.C14TissueR
/-
  C03 (addition) — the hypotheses of Properties/C03Coupling.lean about the table that the contact SEARCH hands to the two tail
  loops of `resolve_all_contacts` (`SearchOK`, `NoStale`, hence `RangeOK`, and `PairOK` after loop (A)) are DISCHARGED from the
  modelled search: `Tissue.contactSearch` (Model/Tissue.lean: reset of couplings / closest distances, face boxes + grid, search
  cells → node slots → voxel list, `resolve_contact` = `Gen.rule1`) and `TissueR.contactSearchR` (the same on meshes with released
  node / face slots), both tied bit for bit to the real solver by the C14 checks.

  So the chain   contact phase  ⇒  `Mutual`  ⇒  every pair is integrated exactly once (`pairTopo_of_mutual`, `pair_step`, …)
  has no hypothesis about the search left.  What the proofs use of the search:

    * it visits existing (TissueR: USED) node slots only                                  — `slotOrder`, `usedAt`
    * the voxel lookup hands over faces of OTHER cells only (`cellTest` inside `BP.spatialTest`, `global_face_id_` ↦ owner)
                                                                                          — `C03S.gridCandidates_other`
    * `applyOut` writes `(cj, n2)` on the visited node and `(ci, ni)` on `n2`, `n2` one of the three corners of the face — whatever
      `rule1`, the gates and the geometry answer, and however often later, closer candidates overwrite either side
                                                                                          — `C03S.Step`, `C03S.applyOut_step`
    * the corners of a (TissueR: used) face are existing (used) node slots of its cell    — hypothesis `FacesInRange` / `FacesLive`
  Nothing about `floor`, the grid, the cut-offs or the arithmetic is needed (no `TissueSetup`): sections `any scalar` hold for every
  scalar type with the operations, `Float` included; `Mutual` is stated over C03's ordered field.

  Hypotheses that remain (all about MESHES, none about the search):
    * `C03S.FacesInRange cells` (Model/Tissue.lean): face corners are node slots — second clause of `Tissue.cellWf`, kept by the
      iteration (`facesInRange_iteration`);
    * `C03S.FacesLive cells` (Model/TissueR.lean): the corners of a used face are used node slots — first clause of
      `Remesh.liveCell` ⊂ `PipelineR.meshOk` ⊂ `TissueR.cellMeshOk` (`facesLive_of_cellMeshOk`), a consequence of the mesh invariant
      `Remesh.CellOk` that Properties/C14TissueInvariants.lean propagates;
    * for `NoStale` / `Mutual` on meshes with released slots: `C03S.StaleFree cells` (a released slot carries no coupling) — an
      INVARIANT of what the model does (`iterationR_freeClean`): the search never writes a released slot
      (`searchR_keeps_released`), the pass only removes couplings, `Attrs.alloc` / `Attrs.release` (= `node(pos, 0)` copied by
      `add_node` / `node::reset`) clear the slots the refinement takes and releases, `rebase` empties the free queue.
-/
set_option linter.unusedSectionVars false
set_option linter.unusedVariables false
namespace Simu.C03
open Simu Simu.Gen Simu.Coupling Simu.Tissue Simu.TissueR Simu.C03S

/-! ## any scalar type: the table of Model/Tissue.lean (every node slot in use) -/
section anyScalarT
variable {R : Type} [Add R] [Sub R] [Mul R] [Div R] [Neg R] [Lit R] [LT R] [LE R] [DecidableLT R] [DecidableLE R] [DecidableEq R]

/-- the table handed to the two tail loops: the cells with the couplings / distances / forces the search wrote, through the
    adapter `toPop` of `Tissue.contactRun` -/
def searchTable (fn : Fn R) (K : Tissue.Consts R) (cells : List (Tissue.Cell R)) : Pop R :=
  toPop (writeMut cells (contactSearch fn K cells))

/-- **`SearchOK` holds of the table the modelled search produces**, for every tissue (any number of cells, meshes, positions,
    parameters; any grid) whose face corners are node slots -/
theorem search_searchOK (fn : Fn R) (K : Tissue.Consts R) (cells : List (Tissue.Cell R)) (hF : FacesInRange cells) :
    SearchOK (searchTable fn K cells) :=
  fun k n j hk _ hc => searchTable_T fn K cells hF k j n hk hc

/-- **`SearchOK` does not depend on the schedule of the search**: the table reached from the reset table by ANY sequence of
    `set_coupled_node_and_min_distance` calls of the form `resolve_contact` makes (on an existing node of an epithelial cell, with an
    existing node of another epithelial cell) satisfies it — so it also holds for every interleaving of the locked writes of the OpenMP
    threads, whatever the racing reads of closest distances decided -/
theorem searchOK_any_schedule (K : Tissue.Consts R) (cells : List (Tissue.Cell R)) (ws : List (Nat × Nat × (Nat × Nat) × R))
    (hw : ∀ w ∈ ws, okT cells w.1 w.2.1 ∧ okT cells w.2.2.1.1 w.2.2.1.2 ∧ w.2.2.1.1 ≠ w.1) :
    SearchOK (toPop (writeMut cells (ws.foldl setCoupW (cells.map (resetMut K)).toArray))) :=
  fun k n j hk _ hc => searchTable_T_of_step K cells _ (step_writes (okT cells) ws hw _) k j n hk hc

/-- the search couples nodes of EPITHELIAL cells only (both ends; `resolve_contact` couples under type id 0 / 0 only) -/
theorem search_couples_epithelial (fn : Fn R) (K : Tissue.Consts R) (cells : List (Tissue.Cell R)) (hF : FacesInRange cells)
    (k j : Slot) (n : Coupling.CNode R) (hk : Coupling.get (searchTable fn K cells) k = some n) (hc : n.coup = some j) :
    ∃ c1 c2, cells[k.1]? = some c1 ∧ cells[j.1]? = some c2 ∧ c1.k.kind = 0 ∧ c2.k.kind = 0 :=
  searchTable_T_kinds fn K cells hF k j n hk hc

/-- … hence loop (A) never reads out of bounds -/
theorem search_rangeOK (fn : Fn R) (K : Tissue.Consts R) (cells : List (Tissue.Cell R)) (hF : FacesInRange cells) :
    RangeOK (searchTable fn K cells) := rangeOK_of_searchOK _ (search_searchOK fn K cells hF)

/-- … the pass is defined, and after loop (A) the table is what loop (B) is specified for -/
theorem search_pass_defined (fn : Fn R) (K : Tissue.Consts R) (cells : List (Tissue.Cell R)) (hF : FacesInRange cells) :
    ∃ p1 p2, symmetrise (searchTable fn K cells) = some p1 ∧ PairOK p1 ∧ midpoints p1 = some p2 ∧
      pass (searchTable fn K cells) = some p2 ∧
      contactRun fn K cells = (ofPop (writeMut cells (contactSearch fn K cells)) p2, true) := by
  obtain ⟨p1, p2, h1, h2, h⟩ := pass_defined _ (search_searchOK fn K cells hF)
  refine ⟨p1, p2, h1, pairOK_of_symmetrise _ p1 h1 (search_searchOK fn K cells hF), h2, h, ?_⟩
  unfold contactRun
  unfold searchTable at h
  dsimp only
  rw [h]

/-- the contact phase of the tissue model never leaves the domain through an undefined coupling pass -/
theorem contactRun_defined (fn : Fn R) (K : Tissue.Consts R) (cells : List (Tissue.Cell R)) (hF : FacesInRange cells) :
    (contactRun fn K cells).2 = true := by
  obtain ⟨_, _, _, _, _, _, h⟩ := search_pass_defined fn K cells hF
  rw [h]

/-- the table of the cells after the contact phase IS the result of the pass on the table of the search -/
theorem contactRun_table (fn : Fn R) (K : Tissue.Consts R) (cells : List (Tissue.Cell R)) (hF : FacesInRange cells) :
    ∃ p2, pass (searchTable fn K cells) = some p2 ∧ ∀ k, Coupling.get (toPop (contactRun fn K cells).1) k = Coupling.get p2 k := by
  obtain ⟨_, p2, _, _, _, hp, h⟩ := search_pass_defined fn K cells hF
  refine ⟨p2, hp, fun k => ?_⟩
  rw [h]
  exact get_toPop_ofPop _ p2 hp k

/-- **after the contact phase every coupling is answered, by a node of ANOTHER cell, and the two nodes of the pair coincide**
    (equal values of the scalar type: bit-identical at `Float`) — `pair_coincide` with its hypothesis discharged -/
theorem contactRun_pairs_coincide (fn : Fn R) (K : Tissue.Consts R) (cells : List (Tissue.Cell R)) (hF : FacesInRange cells)
    (k j : Slot) (n : Coupling.CNode R) (hk : Coupling.get (toPop (contactRun fn K cells).1) k = some n) (hc : n.coup = some j) :
    ∃ m : Coupling.CNode R, Coupling.get (toPop (contactRun fn K cells).1) j = some m ∧ m.used = true ∧ m.coup = some k ∧
      m.pos = n.pos ∧ j.1 ≠ k.1 := by
  obtain ⟨p2, hp, ht⟩ := contactRun_table fn K cells hF
  have hs := search_searchOK fn K cells hF
  have hu : n.used = true := toPop_used _ k n hk
  rw [ht k] at hk
  obtain ⟨m, hm, hmu, hmc, hmp⟩ := pair_coincide _ p2 hs hp k j n hk hu hc
  refine ⟨m, by rw [ht j]; exact hm, hmu, hmc, hmp, ?_⟩
  -- the coupling is the one the search wrote
  obtain ⟨n0, hn0, _, hc0⟩ := (pass_frame _ _ hp).1 k n hk
  rcases hc0 with e | e
  · obtain ⟨_, _, _, hne⟩ := hs k n0 j hn0 (toPop_used _ k n0 hn0) (by rw [← e]; exact hc)
    exact hne
  · rw [e] at hc; cases hc

theorem facesInRange_updateFaceTypes (K : Tissue.Consts R) (cells : List (Tissue.Cell R)) (hF : FacesInRange cells) :
    FacesInRange (cells.map (updateFaceTypesCell K)) := by
  intro c' hc' f' hf'
  obtain ⟨c, hc, rfl⟩ := List.mem_map.mp hc'
  unfold updateFaceTypesCell Pipeline.updateFaceTypes at hf'
  dsimp only at hf'
  split at hf'
  · obtain ⟨f, hf, rfl⟩ := List.mem_map.mp hf'
    exact hF c hc f hf
  · exact hF c hc f' hf'

/-- the same for the state handed to `update_nodes_positions` (polarisation and `apply_internal_forces` do not touch couplings
    or positions) -/
theorem beforeIntegration_pairs_coincide (fn : Fn R) (fx : FX R) (K : Tissue.Consts R) (cells : List (Tissue.Cell R))
    (hF : FacesInRange cells) (k j : Slot) (n : Coupling.CNode R)
    (hk : Coupling.get (toPop (beforeIntegration fn fx K cells).1) k = some n) (hc : n.coup = some j) :
    ∃ m : Coupling.CNode R, Coupling.get (toPop (beforeIntegration fn fx K cells).1) j = some m ∧ m.used = true ∧ m.coup = some k ∧
      m.pos = n.pos ∧ j.1 ≠ k.1 := by
  rw [toPop_beforeIntegration] at hk ⊢
  exact contactRun_pairs_coincide fn K _ (facesInRange_updateFaceTypes K cells hF) k j n hk hc

/-- the iteration never sets `defined := false`: the domain predicate `stepOk` loses its conjunct about the coupling pass -/
theorem beforeIntegration_defined (fn : Fn R) (fx : FX R) (K : Tissue.Consts R) (cells : List (Tissue.Cell R))
    (hF : FacesInRange cells) : (beforeIntegration fn fx K cells).2 = true := by
  unfold beforeIntegration
  exact contactRun_defined fn K _ (facesInRange_updateFaceTypes K cells hF)

end anyScalarT

/-! ## any scalar type: the table of Model/TissueR.lean (meshes with released node / face slots) -/
section anyScalarR
variable {R : Type} [Add R] [Sub R] [Mul R] [Div R] [Neg R] [Lit R] [LT R] [LE R] [DecidableLT R] [DecidableLE R] [DecidableEq R]

/-- the table handed to the two tail loops, through the adapter `toPopR` of `TissueR.contactRunR` (used flags of the slots) -/
def searchTableR (fn : Fn R) (K : Tissue.Consts R) (cells : List (CellTR R)) : Pop R :=
  toPopR (writeMutR cells (contactSearchR fn K cells))

/-- the mesh hypothesis is part of the domain predicate of the tissue model -/
theorem facesLive_of_cellMeshOk (cells : List (CellTR R)) (h : ∀ c ∈ cells, cellMeshOk c = true) : FacesLive cells := by
  apply facesLive_of_liveCell
  intro c hc
  have := h c hc
  unfold cellMeshOk PipelineR.meshOk at this
  simp only [Bool.and_eq_true] at this
  exact this.1.1.1.1.1.1.1

/-- **`SearchOK` holds of the table the modelled search produces on meshes with released slots** — whatever the released slots
    carried -/
theorem searchR_searchOK (fn : Fn R) (K : Tissue.Consts R) (cells : List (CellTR R)) (hF : FacesLive cells) :
    SearchOK (searchTableR fn K cells) :=
  fun k n j hk hu hc => searchTable_R fn K cells hF k j n hk hu hc

theorem searchR_couples_epithelial (fn : Fn R) (K : Tissue.Consts R) (cells : List (CellTR R)) (hF : FacesLive cells)
    (k j : Slot) (n : Coupling.CNode R) (hk : Coupling.get (searchTableR fn K cells) k = some n) (hu : n.used = true)
    (hc : n.coup = some j) : ∃ c1 c2, cells[k.1]? = some c1 ∧ cells[j.1]? = some c2 ∧ c1.k.kind = 0 ∧ c2.k.kind = 0 :=
  searchTable_R_kinds fn K cells hF k j n hk hu hc

theorem searchR_rangeOK (fn : Fn R) (K : Tissue.Consts R) (cells : List (CellTR R)) (hF : FacesLive cells) :
    RangeOK (searchTableR fn K cells) := rangeOK_of_searchOK _ (searchR_searchOK fn K cells hF)

/-- **the search never writes a released slot**: what such a slot carries after the search is what it carried before the contact
    phase (the reset at the start of `run` skips it, `resolve_contact` couples used nodes with corners of used faces) -/
theorem searchR_keeps_released (fn : Fn R) (K : Tissue.Consts R) (cells : List (CellTR R)) (hF : FacesLive cells) (k : Slot)
    (n : Coupling.CNode R) (hk : Coupling.get (searchTableR fn K cells) k = some n) (hu : n.used = false) :
    ∃ c, cells[k.1]? = some c ∧ k.2 < c.mesh.nodes.size ∧ Remesh.usedN c.mesh k.2 = false ∧ n.coup = c.a.coup.getD k.2 none :=
  searchTable_R_released fn K cells hF k n hk hu

theorem searchR_pass_defined (fn : Fn R) (K : Tissue.Consts R) (cells : List (CellTR R)) (hF : FacesLive cells) :
    ∃ p1 p2, symmetrise (searchTableR fn K cells) = some p1 ∧ PairOK p1 ∧ midpoints p1 = some p2 ∧
      pass (searchTableR fn K cells) = some p2 ∧
      contactRunR fn K cells = (ofPopR (writeMutR cells (contactSearchR fn K cells)) p2, true) := by
  obtain ⟨p1, p2, h1, h2, h⟩ := pass_defined _ (searchR_searchOK fn K cells hF)
  refine ⟨p1, p2, h1, pairOK_of_symmetrise _ p1 h1 (searchR_searchOK fn K cells hF), h2, h, ?_⟩
  unfold contactRunR
  unfold searchTableR at h
  dsimp only
  rw [h]

/-- the conjunct "the coupling pass is defined" of the domain predicate `stepOkTR` -/
theorem contactRunR_defined (fn : Fn R) (K : Tissue.Consts R) (cells : List (CellTR R)) (hF : FacesLive cells) :
    (contactRunR fn K cells).2 = true := by
  obtain ⟨_, _, _, _, _, _, h⟩ := searchR_pass_defined fn K cells hF
  rw [h]

/-- **after the contact phase the coupling of every USED node is answered by a USED node of ANOTHER cell, and the two nodes of the
    pair coincide** -/
theorem contactRunR_pairs_coincide (fn : Fn R) (K : Tissue.Consts R) (cells : List (CellTR R)) (hF : FacesLive cells)
    (k j : Slot) (n : Coupling.CNode R) (hk : Coupling.get (toPopR (contactRunR fn K cells).1) k = some n) (hu : n.used = true)
    (hc : n.coup = some j) :
    ∃ m : Coupling.CNode R, Coupling.get (toPopR (contactRunR fn K cells).1) j = some m ∧ m.used = true ∧ m.coup = some k ∧
      m.pos = n.pos ∧ j.1 ≠ k.1 := by
  obtain ⟨_, p2, _, _, _, hp, h⟩ := searchR_pass_defined fn K cells hF
  have hs := searchR_searchOK fn K cells hF
  unfold searchTableR at hp hs
  rw [h] at hk ⊢
  dsimp only at hk ⊢
  -- the node of the result of the pass at k
  have hgk := get_toPopR_ofPopR _ p2 hp k
  cases hk2 : Coupling.get p2 k with
  | none => rw [hk2] at hgk; rw [hgk] at hk; cases hk
  | some n2 =>
    rw [hk2] at hgk
    obtain ⟨n'', hn'', hu'', hc'', hp''⟩ := hgk
    rw [hk, Option.some.injEq] at hn''
    subst hn''
    have hu2 : n2.used = true := by rw [← hu'']; exact hu
    have hc2 : n2.coup = some j := by rw [← hc'']; exact hc
    obtain ⟨m2, hm2, hmu, hmc, hmp⟩ := pair_coincide _ p2 hs hp k j n2 hk2 hu2 hc2
    have hgj := get_toPopR_ofPopR _ p2 hp j
    rw [hm2] at hgj
    obtain ⟨m, hm, hmu', hmc', hmp'⟩ := hgj
    refine ⟨m, hm, by rw [hmu']; exact hmu, by rw [hmc']; exact hmc, ?_, ?_⟩
    · rw [hmp' hmu, hmp, hp'' hu2]
    · obtain ⟨n0, hn0, hu0, hc0⟩ := (pass_frame _ _ hp).1 k n2 hk2
      rcases hc0 with e | e
      · obtain ⟨_, _, _, hne⟩ := hs k n0 j hn0 (by rw [← hu0]; exact hu2) (by rw [← e]; exact hc2)
        exact hne
      · rw [e] at hc2; cases hc2

/-- the conjunct `coupOk` of the domain predicate `stepOkTR`: after the contact phase (and in front of the position update) every
    coupling of a used node names a used slot of another existing cell -/
theorem contactRunR_coupOk (fn : Fn R) (K : Tissue.Consts R) (cells : List (CellTR R)) (hF : FacesLive cells) :
    coupOk (contactRunR fn K cells).1 = true :=
  coupOk_of_pairs _ fun k j n hk hu hc =>
    let ⟨m, hm, hmu, _⟩ := contactRunR_pairs_coincide fn K cells hF k j n hk hu hc
    ⟨m, hm, hmu⟩

theorem beforeIntegrationR_pairs_coincide (fn : Fn R) (fx : FX R) (K : Tissue.Consts R) (cells : List (CellTR R))
    (hF : FacesLive cells) (k j : Slot) (n : Coupling.CNode R)
    (hk : Coupling.get (toPopR (beforeIntegrationR fn fx K cells).1) k = some n) (hu : n.used = true) (hc : n.coup = some j) :
    ∃ m : Coupling.CNode R, Coupling.get (toPopR (beforeIntegrationR fn fx K cells).1) j = some m ∧ m.used = true ∧
      m.coup = some k ∧ m.pos = n.pos ∧ j.1 ≠ k.1 := by
  rw [toPopR_beforeIntegrationR] at hk ⊢
  exact contactRunR_pairs_coincide fn K cells hF k j n hk hu hc

/-- the two conjuncts of `stepOkTR` about couplings — "the coupling pass is defined" and `coupOk` of the state in front of the
    position update — hold whenever the refined meshes are consistent: they need no run-time evaluation -/
theorem beforeIntegrationR_defined_coupOk (fn : Fn R) (fx : FX R) (K : Tissue.Consts R) (cells : List (CellTR R))
    (hF : FacesLive cells) :
    (beforeIntegrationR fn fx K cells).2 = true ∧ coupOk (beforeIntegrationR fn fx K cells).1 = true := by
  constructor
  · unfold beforeIntegrationR
    exact contactRunR_defined fn K cells hF
  · exact coupOk_of_pairs _ fun k j n hk hu hc =>
      let ⟨m, hm, hmu, _⟩ := beforeIntegrationR_pairs_coincide fn fx K cells hF k j n hk hu hc
      ⟨m, hm, hmu⟩

/-- **released slots stay free of couplings through the contact phase** -/
theorem contactRunR_keeps_staleFree (fn : Fn R) (K : Tissue.Consts R) (cells : List (CellTR R)) (hF : FacesLive cells)
    (hs : StaleFree cells) : StaleFree (contactRunR fn K cells).1 := contactRunR_staleFree fn K cells hF hs

/-- **"no coupling on a released slot" is an invariant of what the model does in a whole `run_iteration`**: `rebase` empties
    the free queue, `refine_mesh` writes `nullopt` into every slot it takes (`add_node` of `node(pos, 0)`) and releases
    (`node::reset`), the reset of `run` clears the used slots, the search never writes a released slot, the pass only removes
    couplings, the other phases do not touch couplings.  `hro` (the replay of the log takes the slots the pass took) and `hmesh`
    (exact free queue, used faces have used corners) are mesh facts: consequences of `Remesh.CellOk`
    (Properties/C14TissueInvariants.lean: `refineLiveT_of_invariants`, `NodesOk.free`, `meshOk_of_cellOk`) -/
theorem iterationR_freeClean {fn : Fn R} {fx : FX R} {K : ConstsTR R} {s s' : StateTR R}
    (h : tissueIterationR fn fx K s = .ok s') (hro : refineLiveT fn K s = true)
    (hmesh : ∀ s1, meshStageT fn K s = .ok s1 → (∀ c ∈ s1.cells, QueueExact c.mesh) ∧ FacesLive s1.cells)
    (hc : FreeClean s.cells) :
    FreeClean s'.cells ∧ ∃ s1, meshStageT fn K s = .ok s1 ∧ s' = physStage fn fx K s1 ∧ StaleFree s1.cells :=
  tissueIterationR_freeClean h hro hmesh hc

end anyScalarR

/-! ## ordered field: `NoStale`, `Mutual`, and the pair theorems of C03 on the states the models integrate -/
section field
variable {R : Type} [Field R] [LinearOrder R] [IsStrictOrderedRing R]

/-- Model/Tissue.lean: every slot is in use, so there is nothing stale -/
theorem search_noStale (fn : Fn R) (K : Tissue.Consts R) (cells : List (Tissue.Cell R)) : NoStale (searchTable fn K cells) := by
  intro k n hk hu
  have := toPop_used _ k n hk
  rw [hu] at this; cases this

/-- Model/TissueR.lean: the table of the search satisfies `NoStale` exactly when the released slots carried no coupling before
    the contact phase -/
theorem searchR_noStale (fn : Fn R) (K : Tissue.Consts R) (cells : List (CellTR R)) (hF : FacesLive cells)
    (hs : StaleFree cells) : NoStale (searchTableR fn K cells) := by
  intro k n hk hu
  obtain ⟨c, hc, hlt, huc, hcp⟩ := searchR_keeps_released fn K cells hF k n hk hu
  rw [hcp]
  exact hs c (List.mem_of_getElem? hc) k.2 hlt huc

/-- **the topology the position update reads after the contact phase is a symmetric matching** (`mutual_of_pass` composed with
    the search) -/
theorem contactRun_mutual (fn : Fn R) (K : Tissue.Consts R) (cells : List (Tissue.Cell R)) (hF : FacesInRange cells) :
    Mutual (topo (contactRun fn K cells).1) := by
  obtain ⟨p2, hp, ht⟩ := contactRun_table fn K cells hF
  exact mutual_of_pass_nodeAt _ _ p2 hp (search_noStale fn K cells) (fun k => by rw [nodeAt_topo, ht k])

/-- **the hypotheses `Mutual` and `IdsAreIndices` of `pairTopo_of_mutual` hold of the topology that `Tissue.integrate` hands to
    `Integ.step` in `tissueIteration`** -/
theorem tissue_integrator_mutual (fn : Fn R) (fx : FX R) (K : Tissue.Consts R) (cells : List (Tissue.Cell R))
    (hF : FacesInRange cells) :
    Mutual (topo (beforeIntegration fn fx K cells).1) ∧ IdsAreIndices (topo (beforeIntegration fn fx K cells).1) := by
  refine ⟨?_, idsAreIndices_topo _⟩
  apply mutual_of_nodeAt _ _ _ (contactRun_mutual fn K _ (facesInRange_updateFaceTypes K cells hF))
  intro k
  rw [nodeAt_topo, nodeAt_topo, toPop_beforeIntegration]

/-- **every pair is integrated exactly once** in the position update of `tissueIteration`: the member of a coupled pair in the
    cell with the greater index owns the pair, and no other visit writes the two slots (`pairTopo_of_mutual` with its two
    hypotheses discharged; `pair_step`, `pair_same_displacement`, `pair_momentum`, `pair_force` apply) -/
theorem tissue_pair_integrated_once (fn : Fn R) (fx : FX R) (K : Tissue.Consts R) (cells : List (Tissue.Cell R))
    (hF : FacesInRange cells) (k j : Slot) (ca cc : Integ.CellT R) (nt : Integ.NodeT)
    (hca : (topo (beforeIntegration fn fx K cells).1)[k.1]? = some ca)
    (hcc : (topo (beforeIntegration fn fx K cells).1)[j.1]? = some cc) (hns : ca.isStatic = false)
    (hn : ca.nodes[k.2]? = some nt) (hu : nt.used = true) (hcp : nt.coup = [j]) (hlt : j.1 < k.1) :
    PairTopo .nodeNode (topo (beforeIntegration fn fx K cells).1) k j ca cc ∧ Gen.owns1 ca.localId j.1 = true :=
  let hm := tissue_integrator_mutual fn fx K cells hF
  let r := pairTopo_of_mutual .nodeNode _ k j ca cc nt hm.1 hm.2 (by decide) hca hcc hns hn hu hcp hlt
  ⟨r.1, r.2.1⟩

/-- Model/TissueR.lean: the same on meshes with released slots -/
theorem contactRunR_mutual (fn : Fn R) (K : Tissue.Consts R) (cells : List (CellTR R)) (hF : FacesLive cells)
    (hs : StaleFree cells) : Mutual (topoR (contactRunR fn K cells).1) := by
  obtain ⟨_, p2, _, _, _, hp, h⟩ := searchR_pass_defined fn K cells hF
  apply mutual_of_pass_nodeAt _ _ p2 hp (searchR_noStale fn K cells hF hs)
  intro k
  rw [nodeAt_topoR, h]
  dsimp only
  unfold searchTableR at hp
  have hg := get_toPopR_ofPopR _ p2 hp k
  cases hk2 : Coupling.get p2 k with
  | none => rw [hk2] at hg; rw [hg]
  | some n =>
    rw [hk2] at hg
    obtain ⟨n'', hn'', hu'', hc'', _⟩ := hg
    rw [hn'']
    simp only [Option.map_some, toNodeT, hu'', hc'']

theorem tissueR_integrator_mutual (fn : Fn R) (fx : FX R) (K : Tissue.Consts R) (cells : List (CellTR R))
    (hF : FacesLive cells) (hs : StaleFree cells) :
    Mutual (topoR (beforeIntegrationR fn fx K cells).1) ∧ IdsAreIndices (topoR (beforeIntegrationR fn fx K cells).1) := by
  refine ⟨?_, idsAreIndices_topoR _⟩
  apply mutual_of_nodeAt _ _ _ (contactRunR_mutual fn K cells hF hs)
  intro k
  rw [nodeAt_topoR, nodeAt_topoR, toPopR_beforeIntegrationR]

theorem tissueR_pair_integrated_once (fn : Fn R) (fx : FX R) (K : Tissue.Consts R) (cells : List (CellTR R))
    (hF : FacesLive cells) (hs : StaleFree cells) (k j : Slot) (ca cc : Integ.CellT R) (nt : Integ.NodeT)
    (hca : (topoR (beforeIntegrationR fn fx K cells).1)[k.1]? = some ca)
    (hcc : (topoR (beforeIntegrationR fn fx K cells).1)[j.1]? = some cc) (hns : ca.isStatic = false)
    (hn : ca.nodes[k.2]? = some nt) (hu : nt.used = true) (hcp : nt.coup = [j]) (hlt : j.1 < k.1) :
    PairTopo .nodeNode (topoR (beforeIntegrationR fn fx K cells).1) k j ca cc ∧ Gen.owns1 ca.localId j.1 = true :=
  let hm := tissueR_integrator_mutual fn fx K cells hF hs
  let r := pairTopo_of_mutual .nodeNode _ k j ca cc nt hm.1 hm.2 (by decide) hca hcc hns hn hu hcp hlt
  ⟨r.1, r.2.1⟩

end field

/-! ## along a run of Model/Tissue.lean: the mesh hypothesis is kept, so `Mutual` holds in every iteration -/
section run
variable {R : Type} [Field R] [LinearOrder R] [IsStrictOrderedRing R] [FloorRing R]

theorem facesInRange_congr {cells cells' : List (Tissue.Cell R)} (h : cells'.map C14.shape = cells.map C14.shape)
    (hF : FacesInRange cells) : FacesInRange cells' := by
  intro c' hc' f' hf'
  obtain ⟨i, hi⟩ := List.getElem?_of_mem hc'
  have e := congrArg (fun l => l[i]?) h
  simp only [List.getElem?_map, hi, Option.map_some] at e
  cases hc : cells[i]? with
  | none => rw [hc] at e; cases e
  | some c =>
    rw [hc, Option.map_some, Option.some.injEq] at e
    have h1 : c'.nn = c.nn := congrArg Prod.fst e
    have h2 : c'.faces.map C14.corners = c.faces.map C14.corners := congrArg Prod.snd e
    have hm : C14.corners f' ∈ c.faces.map C14.corners := h2 ▸ List.mem_map_of_mem hf'
    obtain ⟨f, hf, ef⟩ := List.mem_map.mp hm
    have ea : f.a = f'.a := congrArg Prod.fst ef
    have eb : f.b = f'.b := congrArg (fun q => q.2.1) ef
    have ec : f.c = f'.c := congrArg (fun q => q.2.2) ef
    have := hF c (List.mem_of_getElem? hc) f hf
    rw [h1, ← ea, ← eb, ← ec]
    exact this

/-- the iteration keeps the mesh hypothesis -/
theorem facesInRange_iteration (fn : Fn R) (fx : FX R) (K : Tissue.Consts R) (s : Tissue.State R) (hF : FacesInRange s.cells) :
    FacesInRange (tissueIteration fn fx K s).cells :=
  facesInRange_congr (C14.tissueIteration_shape fn fx K s) hF

/-- **in EVERY iteration of a run of the tissue model the position update reads a symmetric matching, the coupling pass is
    defined and every pair coincides** — from the mesh hypothesis on the initial state alone -/
theorem tissueRun_mutual (fn : Fn R) (fx : FX R) (K : Tissue.Consts R) (n : Nat) (s : Tissue.State R) (hF : FacesInRange s.cells) :
    FacesInRange (tissueRun fn fx K n s).cells ∧
    Mutual (topo (beforeIntegration fn fx K (tissueRun fn fx K n s).cells).1) ∧
    IdsAreIndices (topo (beforeIntegration fn fx K (tissueRun fn fx K n s).cells).1) ∧
    (beforeIntegration fn fx K (tissueRun fn fx K n s).cells).2 = true := by
  induction n generalizing s with
  | zero =>
    exact ⟨hF, (tissue_integrator_mutual fn fx K s.cells hF).1, (tissue_integrator_mutual fn fx K s.cells hF).2,
      beforeIntegration_defined fn fx K s.cells hF⟩
  | succ m ih => exact ih (tissueIteration fn fx K s) (facesInRange_iteration fn fx K s hF)

/-- the `defined` flag of the tissue model is never cleared -/
theorem tissueRun_defined (fn : Fn R) (fx : FX R) (K : Tissue.Consts R) (n : Nat) (s : Tissue.State R) (hF : FacesInRange s.cells) :
    (tissueRun fn fx K n s).defined = s.defined := by
  induction n generalizing s with
  | zero => rfl
  | succ m ih =>
    show (tissueRun fn fx K m (tissueIteration fn fx K s)).defined = s.defined
    rw [ih _ (facesInRange_iteration fn fx K s hF)]
    show (s.defined && (beforeIntegration fn fx K s.cells).2) = s.defined
    rw [beforeIntegration_defined fn fx K s.cells hF, Bool.and_true]

end run

/-! ## non-vacuity over ℚ, evaluated by the kernel: the two tetrahedra a quarter apart of Properties/C14Tissue.lean / C14TissueR.lean -/
section nonvacuous
open Simu.C14
set_option maxRecDepth 1000000

/-- the mesh hypothesis holds of the pair … -/
theorem sQ2_facesInRange : FacesInRange sQ2.cells := by
  unfold FacesInRange
  decide +kernel

/-- … the modelled search DOES couple there (node 1 of cell 0 ↔ node 0 of cell 1) and the pass moves the pair to its midpoint -/
theorem sQ2_search_couples :
    ((searchTable fnQ2 KQ2 sQ2.cells).map fun l => l.map fun n => n.coup)
      = [[none, some (1, 0), none, none], [some (0, 1), none, none, none]]
    ∧ ((pass (searchTable fnQ2 KQ2 sQ2.cells)).map fun p => p.map fun l => l.map fun n => (n.coup, n.pos))
      = some [[(none, ⟨0, 0, 0⟩), (some (1, 0), ⟨9 / 8, 0, 0⟩), (none, ⟨0, 1, 0⟩), (none, ⟨0, 0, 1⟩)],
              [(some (0, 1), ⟨9 / 8, 0, 0⟩), (none, ⟨9 / 4, 0, 0⟩), (none, ⟨5 / 4, 1, 0⟩), (none, ⟨5 / 4, 0, 1⟩)]] := by
  decide +kernel

/-- … so in every iteration of the run of the pair the position update reads a symmetric matching -/
example (n : Nat) : Mutual (topo (beforeIntegration fnQ2 C02.fxQ KQ2 (tissueRun fnQ2 C02.fxQ KQ2 n sQ2).cells).1) :=
  (tissueRun_mutual fnQ2 C02.fxQ KQ2 n sQ2 sQ2_facesInRange).2.1

/-- a tetrahedron with a fifth, RELEASED node slot (in the free queue) that carries the coupling `stale` -/
def cellRelQ (o : V3 ℚ) (stale : Option (Nat × Nat)) : CellTR ℚ :=
  { k := kQ,
    mesh := { tetAtQ o with nodes := (tetAtQ o).nodes.push ⟨⟨0, 0, 0⟩, ⟨0, 0, 0⟩, false⟩, freeNodes := [4] },
    a := ⟨#[⟨0, 0, 0⟩, ⟨0, 0, 0⟩, ⟨0, 0, 0⟩, ⟨0, 0, 0⟩, ⟨0, 0, 0⟩], #[⟨0, 0, 0⟩, ⟨0, 0, 0⟩, ⟨0, 0, 0⟩, ⟨0, 0, 0⟩, ⟨0, 0, 0⟩],
          #[0, 0, 0, 0, 0], #[none, none, none, none, stale], #[0, 0, 0, 0, 0]⟩,
    area := 5 / 2, volume := 1 / 6, tvol := 1 / 6, pressure := 0 }

def relCells (stale : Option (Nat × Nat)) : List (CellTR ℚ) := [cellRelQ ⟨0, 0, 0⟩ stale, cellRelQ ⟨5 / 4, 0, 0⟩ none]

theorem rel_facesLive : FacesLive (relCells none) ∧ FacesLive (relCells (some (1, 0))) := by
  constructor <;>
  · apply facesLive_of_liveCell
    intro c hc
    simp only [relCells, List.mem_cons, List.not_mem_nil, or_false] at hc
    rcases hc with rfl | rfl <;> decide +kernel

theorem rel_staleFree : StaleFree (relCells none) ∧ FreeClean (relCells none) ∧ ∀ c ∈ relCells none, QueueExact c.mesh := by
  refine ⟨?_, ?_, ?_⟩
  · unfold StaleFree; decide +kernel
  · unfold FreeClean; decide +kernel
  · intro c hc i
    simp only [relCells, List.mem_cons, List.not_mem_nil, or_false] at hc
    rcases hc with rfl | rfl
    · constructor
      · intro hi
        have : i = 4 := by simpa [cellRelQ] using hi
        subst this; decide +kernel
      · rintro ⟨hlt, hu⟩
        have hlt' : i < 5 := by
          have : (cellRelQ (⟨0, 0, 0⟩ : V3 ℚ) none).mesh.nodes.size = 5 := by decide +kernel
          omega
        match i, hlt' with
        | 0, _ => exact absurd hu (by decide +kernel)
        | 1, _ => exact absurd hu (by decide +kernel)
        | 2, _ => exact absurd hu (by decide +kernel)
        | 3, _ => exact absurd hu (by decide +kernel)
        | 4, _ => simp [cellRelQ]
    · constructor
      · intro hi
        have : i = 4 := by simpa [cellRelQ] using hi
        subst this; decide +kernel
      · rintro ⟨hlt, hu⟩
        have hlt' : i < 5 := by
          have : (cellRelQ (⟨5 / 4, 0, 0⟩ : V3 ℚ) none).mesh.nodes.size = 5 := by decide +kernel
          omega
        match i, hlt' with
        | 0, _ => exact absurd hu (by decide +kernel)
        | 1, _ => exact absurd hu (by decide +kernel)
        | 2, _ => exact absurd hu (by decide +kernel)
        | 3, _ => exact absurd hu (by decide +kernel)
        | 4, _ => simp [cellRelQ]

/-- the contact phase on the meshes with a released slot couples the two cells and leaves the released slots alone … -/
theorem rel_couples :
    ((contactRunR fnQ2 KQ2 (relCells none)).1.map fun c => (c.a.coup.toList, c.mesh.nodes.toList.map fun n => n.used))
      = [([none, some (1, 0), none, none, none], [true, true, true, true, false]),
         ([some (0, 1), none, none, none, none], [true, true, true, true, false])] := by decide +kernel

/-- … and what the position update reads is a symmetric matching -/
example : Mutual (topoR (contactRunR fnQ2 KQ2 (relCells none)).1) :=
  contactRunR_mutual fnQ2 KQ2 _ rel_facesLive.1 rel_staleFree.1

/-- the hypothesis `StaleFree` is NEEDED for `Mutual` (not for `SearchOK`, `coupOk`, the defined pass or the coinciding pairs): with a
    coupling left on the released slot (0, 4) the pass is still defined and the used nodes are paired as before, but the
    table is not a symmetric matching — slot (0, 4) names (1, 0), which names (0, 1).  This is what `node::reset` prevents
    in the real code (mutant MF of notes/C14_tissueR.md) -/
theorem rel_stale_not_mutual : ¬ Mutual (topoR (contactRunR fnQ2 KQ2 (relCells (some (1, 0)))).1) := by
  intro hm
  have h1 : (nodeAt (topoR (contactRunR fnQ2 KQ2 (relCells (some (1, 0)))).1) (0, 4)).map (fun n => n.coup) = some [(1, 0)]
      ∧ (nodeAt (topoR (contactRunR fnQ2 KQ2 (relCells (some (1, 0)))).1) (1, 0)).map (fun n => n.coup) = some [(0, 1)] := by
    decide +kernel
  obtain ⟨ha, hb⟩ := h1
  cases hna : nodeAt (topoR (contactRunR fnQ2 KQ2 (relCells (some (1, 0)))).1) (0, 4) with
  | none => rw [hna] at ha; cases ha
  | some nt =>
    rw [hna, Option.map_some, Option.some.injEq] at ha
    obtain ⟨c, hc, hn⟩ := nodeAt_some hna
    obtain ⟨c2, nt2, h2, h3, h4⟩ := hm (0, 4) c nt hc hn (1, 0) (by rw [ha]; exact List.mem_cons_self ..)
    have : nodeAt (topoR (contactRunR fnQ2 KQ2 (relCells (some (1, 0)))).1) (1, 0) = some nt2 := by
      unfold nodeAt; rw [h2]; exact h3
    rw [this, Option.map_some, Option.some.injEq, h4] at hb
    cases hb

example : (contactRunR fnQ2 KQ2 (relCells (some (1, 0)))).2 = true ∧ coupOk (contactRunR fnQ2 KQ2 (relCells (some (1, 0)))).1 = true :=
  ⟨contactRunR_defined fnQ2 KQ2 _ rel_facesLive.2, contactRunR_coupOk fnQ2 KQ2 _ rel_facesLive.2⟩

end nonvacuous

end Simu.C03
