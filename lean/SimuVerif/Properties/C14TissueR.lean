import SimuVerif.Lemmas.C14_TissueRStages
import SimuVerif.Properties.C14Tissue
import SimuVerif.Properties.C14Remesh
/-
  C14 — the ASSEMBLED iteration of a tissue of interacting epithelial cells WITH remeshing commutes with translations.

  `TissueR.tissueIterationR` (lean/SimuVerif/Model/TissueR.lean) is one executable model of a whole `solver::run_iteration` of the
  default build for N interacting epithelial cells INCLUDING `refine_meshes` (per cell `Remesh.refineMesh`, in the order and with
  the exception handling of `parallel_exception_handler` run by one thread) and the `rebase` of `save_mesh`; the cells are kept as
  the `Remesh.Cell`s of C01 (released node / face slots persist between iterations), so the contact search, the coupling pass, the
  polarisation, the node normals, the forces and the integrator run on meshes WITH unused slots, as the code does (`is_used()`
  tests, free queues, `get_node_mass`, global face ids of the used faces only, `node::reset`).  It is tied bit-for-bit to the real
  solver on every run (tools/props/c14_tissue_remesh.py: every double, coupling, face type and the whole slot bookkeeping of every
  iteration, in runs where cells adhere / are pushed together WHILE edges are split and collapsed).  Here, in exact arithmetic over
  any ordered field with a floor function, for any packs of non-field functions `fn`, `fx`:

    * `tissueIterationR_translate`  one iteration of the translated tissue = the translate of one iteration: same exception, or the
                                    positions of the used nodes (new nodes of splits / collapses included) shifted by `t` and
                                    EVERYTHING else identical — slot numbering, free queues, edge index, face slots with types and
                                    cached geometry, momenta, forces, couplings, closest distances, node normals, curvatures, cell
                                    scalars, time, counters;
    * `tissueRunR_translate`        the same after any number of iterations;
    * `tissueRunR_observables`      the statement read off field by field;
    * `domainTR_translate`          the translated run is inside the modelled domain exactly when the reference run is.

  Hypotheses (decidable, evaluated by the driver on every executed instance — line `H setup` and column 2 of every `O` line):
    * `TissueSetup fn K.base`       C06 `Setup`: `fn.floor` is the floor, 0 ≤ grid delta, 0 < padding, 0 < voxel size;
    * `stepOkTR fn fx K s = true`   (`runOkTR n` along a run) — the DOMAIN of the model: all cells epithelial, none ready to divide,
                                    attribute tables as long as the node lists; no refinement pass reads a released node slot
                                    (`Remesh.refineLive`, see Properties/C14Remesh.lean) and the slots it takes are those the
                                    replay of its log takes; when the mesh stage returns: every refined cell is `cellMeshOk`
                                    (used faces / edge index reference used slots only, the edge index is complete and points to
                                    used faces, the surface is closed, the cell has a node, the free queue lists exactly the unused
                                    slots, every used node is a corner of a used face), the coupling pass was defined, every
                                    coupling names a used slot, and no cell is removed.  An exception of a refinement pass or of
                                    `rebase` is INSIDE the domain: the model reports the same exception for the translated tissue.
-/
set_option linter.unusedSectionVars false
set_option linter.unusedVariables false
namespace Simu.C14
open Simu Simu.Forces Simu.Gen Simu.Remesh Simu.TissueR

variable {R : Type} [Field R] [LinearOrder R] [IsStrictOrderedRing R]

/-! ### the mesh stage: rebase of `save_mesh`, `update_face_types`, `refine_meshes` -/

/-- the exception rule of `parallel_exception_handler` (every element processed, the last exception rethrown) commutes with a map
    of the results -/
theorem collect_translate {ε α β : Type} (g : α → β) (l : List (Except ε α)) :
    collect (l.map (Except.map g)) = (collect l).map (List.map g) := collect_map g l

/-- `cell::rebase` with the node attributes that move with the node objects -/
theorem rebaseCell_translate (t : V3 R) (c : CellTR R) : rebaseCell (trCellR t c) = (rebaseCell c).map (trCellR t) :=
  rebaseCell_tr t c

/-- `save_mesh`: every cell rebased, same exception -/
theorem saveMeshT_translate (fn : Fn R) (K : ConstsTR R) (s : StateTR R) (t : V3 R) :
    saveMeshT fn K (translateTR t s) = (saveMeshT fn K s).map (translateTR t) := saveMeshT_tr fn K s t

/-- `update_face_types` + `refine_mesh` of one cell with the replay of its log on the node attributes (from `refineMesh_translate`) -/
theorem refineCell_translate (fn : Fn R) (K : ConstsTR R) (c : CellTR R) (t : V3 R) (hl : refineLiveCell fn K c = true) :
    refineCell fn K (trCellR t c) = (refineCell fn K c).map (trCellR t) := refineCell_tr fn K c t hl

/-- steps 1, 3, 4 for the whole tissue: same exception or the translated cells -/
theorem meshStageT_translate (fn : Fn R) (K : ConstsTR R) (s : StateTR R) (t : V3 R) (hl : refineLiveT fn K s = true) :
    meshStageT fn K (translateTR t s) = (meshStageT fn K s).map (translateTR t) := meshStageT_tr fn K s t hl

/-! ### the contact model, polarisation, forces, integrator on meshes with released slots -/

/-- the `Tissue.Cell` of the used faces that the contact model is run on moves with the cell (the cell has a used node) -/
theorem viewR_translate (t : V3 R) (c : CellTR R) (h : PipelineR.hasNode c.mesh = true) :
    view (trCellR t c) = Tissue.trCell t (view c) := view_tr t c h

section floor
variable [FloorRing R]

/-- the search over the USED node slots (grid re-anchored to the boxes of the used faces): same couplings, closest distances,
    contact forces.  Needs, besides C06: every used node is a corner of a used face (`usedCovered`) -/
theorem contactSearchR_translate (fn : Fn R) (K : Tissue.Consts R) (S : TissueSetup fn K) (cells : List (CellTR R))
    (hn : ∀ c ∈ cells, PipelineR.hasNode c.mesh = true) (hcov : ∀ c ∈ cells, usedCovered c.mesh = true) (t : V3 R) :
    contactSearchR fn K (cells.map (trCellR t)) = contactSearchR fn K cells := contactSearchR_tr fn K S cells hn hcov t

/-- the whole contact model (reset of the used nodes, search, symmetrisation, midpoints of the used pairs) -/
theorem contactRunR_translate (fn : Fn R) (K : Tissue.Consts R) (S : TissueSetup fn K) (cells : List (CellTR R))
    (hn : ∀ c ∈ cells, PipelineR.hasNode c.mesh = true) (hcov : ∀ c ∈ cells, usedCovered c.mesh = true) (t : V3 R) :
    contactRunR fn K (cells.map (trCellR t)) = (((contactRunR fn K cells).1).map (trCellR t), (contactRunR fn K cells).2) :=
  contactRunR_tr fn K S cells hn hcov t
end floor

/-- polarisation of the used faces (reads couplings, normals, the edge index of the other cell: no position) -/
theorem polariseR_translate (t : V3 R) (cells : List (CellTR R)) : polariseR (cells.map (trCellR t)) = (polariseR cells).map (trCellR t) :=
  polariseR_tr t cells

/-- node normals / curvatures over the edge index AS STORED are functions of position differences -/
theorem nodeNormalsH_translate (fx : FX R) (x : Nat → V3 R) (F : List Forces.Face) (H : List Forces.Hinge) (vol : R) (n : Nat) (t : V3 R) :
    nodeNormalsH fx (fun i => x i + t) F H vol n = nodeNormalsH fx x F H vol n := nodeNormalsH_tr fx x F H vol n t

/-- the node-normal model of Model/Tissue.lean is the special case "edge list = the freshly generated edge set" -/
theorem nodeNormals_eq_nodeNormalsH (fx : FX R) (x : Nat → V3 R) (F : List Forces.Face) (vol : R) (n : Nat) :
    (Tissue.nodeNormals fx x F vol n).toList = (nodeNormalsH fx x F (hingesSorted F) vol n).toList := nodeNormals_eq fx x F vol n

/-- `apply_internal_forces` on a mesh with released slots (forces added to the contact forces; cache of the used faces; normals) -/
theorem internalForcesR_translate (fx : FX R) (K : Tissue.Consts R) (c : CellTR R) (t : V3 R) (h : PipelineR.hasNode c.mesh = true) :
    applyInternalForcesR fx K (trCellR t c) = trCellR t (applyInternalForcesR fx K c) := applyInternalForcesR_tr fx K c t h

/-- `update_nodes_positions`: used nodes only, node mass from the number of used slots -/
theorem integrateR_translate (K : Tissue.Consts R) (time : R) (cells : List (CellTR R))
    (hn : ∀ c ∈ cells, PipelineR.hasNode c.mesh = true) (t : V3 R) :
    integrateR K time (cells.map (trCellR t)) = ((integrateR K time cells).1, (integrateR K time cells).2.map (trCellR t)) :=
  integrateR_tr K time cells hn t

section floor2
variable [FloorRing R]

theorem beforeIntegrationR_translate (fn : Fn R) (fx : FX R) (K : Tissue.Consts R) (S : TissueSetup fn K) (cells : List (CellTR R))
    (hn : ∀ c ∈ cells, PipelineR.hasNode c.mesh = true) (hcov : ∀ c ∈ cells, usedCovered c.mesh = true) (t : V3 R) :
    beforeIntegrationR fn fx K (cells.map (trCellR t))
      = ((beforeIntegrationR fn fx K cells).1.map (trCellR t), (beforeIntegrationR fn fx K cells).2) :=
  beforeIntegrationR_tr fn fx K S cells hn hcov t

/-- steps 5–8, 11 -/
theorem physStage_translate (fn : Fn R) (fx : FX R) (K : ConstsTR R) (S : TissueSetup fn K.base) (s : StateTR R)
    (hn : ∀ c ∈ s.cells, PipelineR.hasNode c.mesh = true) (hcov : ∀ c ∈ s.cells, usedCovered c.mesh = true) (t : V3 R) :
    physStage fn fx K (translateTR t s) = translateTR t (physStage fn fx K s) := physStage_tr fn fx K S s hn hcov t

/-! ### one iteration, the domain, any number of iterations -/

/-- **one whole solver iteration of a tissue, `refine_meshes` and the rebase of `save_mesh` included, commutes with the
    translation**: the same exception, or the used nodes shifted by `t` and everything else identical -/
theorem tissueIterationR_translate (fn : Fn R) (fx : FX R) (K : ConstsTR R) (S : TissueSetup fn K.base) (s : StateTR R) (t : V3 R)
    (hok : stepOkTR fn fx K s = true) :
    tissueIterationR fn fx K (translateTR t s) = (tissueIterationR fn fx K s).map (translateTR t) :=
  tissueIterationR_tr fn fx K S s t hok

/-- the domain predicate of one iteration gives the same verdict on the translated tissue -/
theorem stepOkTR_translate (fn : Fn R) (fx : FX R) (K : ConstsTR R) (S : TissueSetup fn K.base) (s : StateTR R) (t : V3 R) :
    stepOkTR fn fx K (translateTR t s) = stepOkTR fn fx K s := stepOkTR_tr fn fx K S s t

/-- **the domain moves with the tissue**: the translated run stays in the modelled domain for n iterations exactly when the
    reference run does -/
theorem domainTR_translate (fn : Fn R) (fx : FX R) (K : ConstsTR R) (S : TissueSetup fn K.base) (n : Nat) (s : StateTR R) (t : V3 R) :
    runOkTR fn fx K n (translateTR t s) = runOkTR fn fx K n s := runOkTR_tr fn fx K S n s t

/-- **n iterations of the translated tissue = the translate of n iterations**, remeshing passes, rebases and contacts included -/
theorem tissueRunR_translate (fn : Fn R) (fx : FX R) (K : ConstsTR R) (S : TissueSetup fn K.base) (n : Nat) (s : StateTR R) (t : V3 R)
    (hok : runOkTR fn fx K n s = true) :
    tissueRunR fn fx K n (translateTR t s) = (tissueRunR fn fx K n s).map (translateTR t) :=
  tissueRunR_tr fn fx K S n s t hok

/-- **what is observed of the tissue is identical in both runs**: an exception is the same exception; otherwise time, iteration
    counter, file number, the `defined` flag and the number of cells are identical, and for every cell: the node attributes of
    every slot (forces, node normals, curvatures, couplings, closest distances), area, volume, target volume, pressure, the face
    slots (triangles, types, cached normals and areas, used flags), the edge index, both free queues, the used flags and momenta
    of the node slots are identical, and every used node sits at the reference position + `t` -/
theorem tissueRunR_observables (fn : Fn R) (fx : FX R) (K : ConstsTR R) (S : TissueSetup fn K.base) (n : Nat) (s : StateTR R) (t : V3 R)
    (hok : runOkTR fn fx K n s = true) :
    (∀ e, tissueRunR fn fx K n s = .error e → tissueRunR fn fx K n (translateTR t s) = .error e) ∧
    (∀ s', tissueRunR fn fx K n s = .ok s' → ∃ s'', tissueRunR fn fx K n (translateTR t s) = .ok s'' ∧
      s''.time = s'.time ∧ s''.iter = s'.iter ∧ s''.fileNo = s'.fileNo ∧ s''.defined = s'.defined ∧
      s''.cells.length = s'.cells.length ∧
      ∀ (ci : Nat) (c' : CellTR R), s'.cells[ci]? = some c' → ∃ c'' : CellTR R, s''.cells[ci]? = some c'' ∧
        c''.a = c'.a ∧ c''.area = c'.area ∧ c''.volume = c'.volume ∧ c''.tvol = c'.tvol ∧ c''.pressure = c'.pressure ∧
        c''.mesh.faces = c'.mesh.faces ∧ c''.mesh.edges = c'.mesh.edges ∧
        c''.mesh.freeNodes = c'.mesh.freeNodes ∧ c''.mesh.freeFaces = c'.mesh.freeFaces ∧
        (∀ i : Nat, usedN c''.mesh i = usedN c'.mesh i) ∧
        (∀ i : Nat, (c''.mesh.nodes[i]?).map (fun n : Node R => n.mom) = (c'.mesh.nodes[i]?).map (fun n : Node R => n.mom)) ∧
        (∀ i : Nat, usedN c'.mesh i = true → posOf c''.mesh i = posOf c'.mesh i + t)) := by
  have h := tissueRunR_translate fn fx K S n s t hok
  constructor
  · intro e he
    rw [h, he]; rfl
  · intro s' hs
    refine ⟨translateTR t s', by rw [h, hs]; rfl, rfl, rfl, rfl, rfl, ?_, ?_⟩
    · show (s'.cells.map (trCellR t)).length = _
      rw [List.length_map]
    · intro ci c' hc
      refine ⟨trCellR t c', ?_, rfl, rfl, rfl, rfl, rfl, rfl, rfl, rfl, rfl, ?_, ?_, ?_⟩
      · show (s'.cells.map (trCellR t))[ci]? = _
        rw [List.getElem?_map, hc]; rfl
      · intro i; exact tr_usedN t c'.mesh i
      · intro i
        show ((translateCell t c'.mesh).nodes[i]?).map _ = _
        rw [tr_getNode]
        cases c'.mesh.nodes[i]? with
        | none => rfl
        | some n => simp only [Option.map_some, trNode_mom]
      · intro i hi; exact tr_posOf t hi

end floor2

/-! ### non-vacuity over ℚ (evaluated by the kernel): two tetrahedra a quarter apart, l_min = 1/3 — in ONE iteration the four
    edges of squared length 2 / 3/2 of EACH cell are split (l_max² = 1; 4 → 8 node slots) and, in the contact phase that follows
    on the refined meshes, node 1 of the first cell is coupled to node 0 of the second (both moved to (9/8, 0, 0)) -/
section nonvacuousTR
set_option maxRecDepth 1000000

def tetAtQ (o : V3 ℚ) : Remesh.Cell ℚ :=
  match initCell fnQ2 [o, o + ⟨1, 0, 0⟩, o + ⟨0, 1, 0⟩, o + ⟨0, 0, 1⟩] [(0, 2, 1), (0, 1, 3), (0, 3, 2), (1, 2, 3)] with
  | .ok c => c
  | .error _ => ⟨#[], #[], [], [], []⟩

def attrs0Q : Attrs ℚ :=
  ⟨#[⟨0, 0, 0⟩, ⟨0, 0, 0⟩, ⟨0, 0, 0⟩, ⟨0, 0, 0⟩], #[⟨0, 0, 0⟩, ⟨0, 0, 0⟩, ⟨0, 0, 0⟩, ⟨0, 0, 0⟩], #[0, 0, 0, 0],
   #[none, none, none, none], #[0, 0, 0, 0]⟩

/-- a tetrahedron with a corner at `o`, in the state in which the solver starts -/
def cellAtQ (o : V3 ℚ) : CellTR ℚ :=
  { k := kQ, mesh := tetAtQ o, a := attrs0Q, area := 5 / 2, volume := 1 / 6, tvol := 1 / 6, pressure := 0 }

def KQ2 : Tissue.Consts ℚ :=
  { dt := 1, damping := 1, lmin := 1 / 3, cutAdh := 1 / 2, cutRep := 1 / 4, dotAdh := 7 / 10, dotRep := 1 / 10, big := 1000000,
    inf := 1000000, delta := 1 / 1000 }

def KTRQ : ConstsTR ℚ := { base := KQ2, samplingPeriod := 1, swapOn := false, maxIter := 100 }

def sPairQ : StateTR ℚ := ⟨1, 0, 0, [cellAtQ ⟨0, 0, 0⟩, cellAtQ ⟨5 / 4, 0, 0⟩], true⟩

theorem pairR_setup : TissueSetup fnQ2 KTRQ.base :=
  tissueSetup_of_pos fnQ2 KQ2 (fun _ => rfl) (by norm_num [KQ2]) (by norm_num [KQ2]) (by norm_num [KQ2]) (by norm_num [KQ2])

/-- the iteration is inside the domain of the theorems … -/
theorem pairR_stepOk : stepOkTR fnQ2 C02.fxQ KTRQ sPairQ = true := by decide +kernel

/-- … its refinement passes DO split edges (8 node slots and 12 face slots per cell afterwards, file number 0 → 1), and its
    contact phase DOES couple the two cells (node 1 of cell 0 ↔ node 0 of cell 1) -/
theorem pairR_splits_and_couples :
    ((meshStageT fnQ2 KTRQ sPairQ).toOption.map fun s => (s.cells.map fun c => (c.mesh.nodes.size, c.mesh.faces.size), s.fileNo))
      = some ([(8, 12), (8, 12)], 1)
    ∧ ((tissueIterationR fnQ2 C02.fxQ KTRQ sPairQ).toOption.map fun s => (s.iter, s.cells.map fun c => (c.a.coup.getD 1 none, c.a.coup.getD 0 none)))
      = some (2, [(some (1, 0), none), (none, some (0, 1))]) := by
  decide +kernel

/-- so the pair placed anywhere goes through the same iteration -/
example (t : V3 ℚ) : tissueIterationR fnQ2 C02.fxQ KTRQ (translateTR t sPairQ)
    = (tissueIterationR fnQ2 C02.fxQ KTRQ sPairQ).map (translateTR t) :=
  tissueIterationR_translate fnQ2 C02.fxQ KTRQ pairR_setup sPairQ t pairR_stepOk

end nonvacuousTR
end Simu.C14
