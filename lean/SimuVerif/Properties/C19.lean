import SimuVerif.Lemmas.ScheduleExact
import Mathlib.Tactic.NormNum
import Mathlib.Data.Rat.Floor
/-
  C19 — output files and statistics are complete, well-formed and match the simulated state.

  Model: `Model/Schedule.lean` (`run`), parametrised by `Gen/Schedule.lean` (regenerated from solver.cpp,
  time_integration.*, statistics_writer.cpp, mesh_data.hpp on every run).  `r := run fn P init hist fuel` is the state
  after `solver::run`; `N := r.iter` the number of iterations, `K := r.fileNo` the last file number.
  The population history `hist` is arbitrary: `aliveAt init hist k` are the cells alive at the start of iteration
  `k`, `recAt init hist k` the cells alive when the statistics of iteration `k` are recorded (`Lemmas/Schedule.lean`).

  PART 1 (any scalar type `R` whatsoever — no assumption on `+`, `/`, `<`, `floor`; therefore valid for the `Float`
  instance the driver runs, i.e. under rounding of the accumulated time):
     files_contiguous, files_written_once, files_describe_alive, stats_iterations, rows_per_record,
     recorded_before_removal, stats_times, time_advances_generic, loop_condition_history
  PART 2 (exact arithmetic: `R` an ordered field with floor, `fn.floor = ⌊·⌋`, `0 < dt ≤ S`, `0 < T`, enough fuel):
     time_advances, iterations_spec, iterations_partial, iterations_le, empty_population_stops, files_exact,
     last_file_number, K_bound_partial
     — the real run accumulates `t += dt` in double arithmetic: the NUMBER of iterations and the iteration in which
     a given file number is written can differ from the exact values by rounding (e.g. dt = 0.1, T = 1: 11
     iterations instead of 10); this is compared at run time only (real run vs. the Float instance of the model).
  PART 3 (the statistics table and the shape of the code, decided on the generated constants):
     row_arity_eq_header_arity, both_writers_same_table, table_columns, value_sources, code_shape
-/
set_option linter.unusedSectionVars false
set_option linter.unusedVariables false
namespace Simu.C19
open Simu Simu.Schedule

/-! ## Part 1 — every scalar type -/
section anyScalar
variable {R : Type} [Add R] [Sub R] [Mul R] [Div R] [Neg R] [Lit R] [LT R] [LE R] [DecidableLT R] [DecidableLE R] [DecidableEq R]
variable (fn : Fn R) (P : Params R) (init : List Nat) (hist : Nat → Event) (fuel : Nat)

/-- the mesh files are numbered 1, 2, …, K without gaps, in the order in which they were written.  Holds for every
    scalar type, every `floor`, every (T, dt, S) — also `S < dt` — and every history: `save_mesh` only ever moves
    `file_number_` to its successor. -/
theorem files_contiguous :
    (run fn P init hist fuel).files.map (·.number) =
      (List.range (run fn P init hist fuel).fileNo.toNat).map (fun (i : Nat) => (i : Int) + 1) :=
  (contig_loop fn P hist init fuel).2

/-- each number is written once -/
theorem files_written_once : ((run fn P init hist fuel).files.map (·.number)).Nodup := by
  rw [files_contiguous]
  apply List.Nodup.map _ List.nodup_range
  intro a b h
  simpa using h

/-- every pair of files describes exactly the cells alive at the start of the iteration that wrote it, and that
    list is not empty (`mesh_writer::write` is never called on an empty population) -/
theorem files_describe_alive :
    ∀ f ∈ (run fn P init hist fuel).files,
      f.iter < (run fn P init hist fuel).iter ∧ f.cells = aliveAt init hist f.iter ∧ f.cells ≠ [] :=
  (traj_loop fn P hist init fuel).files

/-- the recorded iterations are every `statsPeriod`-th iteration `k < N` and the last one, `N` -/
theorem stats_iterations :
    (run fn P init hist fuel).stats.map (·.iter) =
      (List.range (run fn P init hist fuel).iter).filter (fun k => k % Gen.statsPeriod = 0) ++ [(run fn P init hist fuel).iter] := by
  have h := (traj_loop fn P hist init fuel).stats
  simp only [run, record, List.map_append, h, List.map_map, List.map_cons, List.map_nil]
  congr 1
  simp [statIters, Function.comp_def]

/-- one row per cell alive when recorded: the periodic record of iteration `k` lists `recAt k` (after the divider,
    before the removal of that iteration), the final record lists the cells alive after the last iteration -/
theorem rows_per_record :
    (run fn P init hist fuel).stats.map (·.cells) =
      ((List.range (run fn P init hist fuel).iter).filter (fun k => k % Gen.statsPeriod = 0)).map (recAt init hist)
        ++ [aliveAt init hist (run fn P init hist fuel).iter] := by
  have h := (traj_loop fn P hist init fuel).stats
  have hc := (traj_loop fn P hist init fuel).cells
  simp only [run, record, List.map_append, h, List.map_map, List.map_cons, List.map_nil, hc]
  congr 1

/-- the removal of iteration `k` comes AFTER its record: the cells alive at the start of iteration `k+1` are the
    recorded ones minus the removed ones (so a cell removed in a recorded iteration still has its row) -/
theorem recorded_before_removal (k : Nat) :
    aliveAt init hist (k + 1) = (recAt init hist k).filter (fun c => !(hist k).dead.contains c) := rfl

/-- the divider is only called every `divisionPeriod`-th iteration: in the others the recorded cells are the cells
    alive at the start of the iteration -/
theorem no_division_between (k : Nat) (h : k % Gen.divisionPeriod ≠ 0) : recAt init hist k = aliveAt init hist k := by
  simp [recAt, midOf, h]

/-- the time written in a periodic record is the time AFTER the step of that iteration; the final record carries the
    final time -/
theorem stats_times :
    (run fn P init hist fuel).stats.map (·.time) =
      ((List.range (run fn P init hist fuel).iter).filter (fun k => k % Gen.statsPeriod = 0)).map (fun k => timeAt P (k + 1))
        ++ [timeAt P (run fn P init hist fuel).iter] := by
  have h := (traj_loop fn P hist init fuel).stats
  have ht := (traj_loop fn P hist init fuel).time
  simp only [run, record, List.map_append, h, List.map_map, List.map_cons, List.map_nil, ht]
  congr 1

/-- simulated time advances by one time step (`Gen.advance`) per iteration -/
theorem time_advances_generic : (run fn P init hist fuel).time = timeAt P (run fn P init hist fuel).iter :=
  (traj_loop fn P hist init fuel).time

/-- every executed iteration was entered with the loop condition true -/
theorem loop_condition_history :
    ∀ j < (run fn P init hist fuel).iter, Gen.continueRun (timeAt P j) P.T (aliveAt init hist j).length = true :=
  (traj_loop fn P hist init fuel).ran
end anyScalar

/-! ## Part 2 — exact arithmetic -/
section exact
variable {R : Type} [Field R] [LinearOrder R] [IsStrictOrderedRing R] [FloorRing R]
variable (fn : Fn R) (hfl : ∀ x : R, fn.floor x = ⌊x⌋) (P : Params R)
variable (hdt : 0 < P.dt) (hS : P.dt ≤ P.S) (hT : 0 < P.T)
variable (init : List Nat) (hist : Nat → Event) (fuel : Nat) (hfuel : ⌈P.T / P.dt⌉₊ ≤ fuel)

/-- `t_N = N·dt` -/
theorem time_advances : (run fn P init hist fuel).time = ((run fn P init hist fuel).iter : R) * P.dt := by
  rw [time_advances_generic, timeAt_eq]

include hfl hdt hfuel in
/-- `N` is the first iteration index at which the time has reached `T` or the population is empty -/
theorem iterations_spec :
    (∀ j < (run fn P init hist fuel).iter, (j : R) * P.dt < P.T ∧ aliveAt init hist j ≠ []) ∧
    (P.T ≤ ((run fn P init hist fuel).iter : R) * P.dt ∨ aliveAt init hist (run fn P init hist fuel).iter = []) := by
  constructor
  · intro j hj
    have := loop_condition_history fn P init hist fuel j hj
    rw [continueRun_iff, timeAt_eq] at this
    exact ⟨this.1, by intro h0; simp [h0] at this⟩
  · have hf := loop_finished fn hfl P hist hdt init fuel hfuel
    have ht := (traj_loop fn P hist init fuel).time
    have hc := (traj_loop fn P hist init fuel).cells
    simp only [finished, Bool.not_eq_true'] at hf
    rw [← Bool.not_eq_true, continueRun_iff, ht, timeAt_eq, hc] at hf
    by_contra hcon
    push Not at hcon
    exact hf ⟨hcon.1, List.length_pos_of_ne_nil hcon.2⟩

include hfl hdt hT hfuel in
/-- `N = ⌈T/dt⌉` when the population never dies out.  EXACT arithmetic: the real run accumulates `t += dt` in
    doubles and can run one iteration more or less when `T/dt` is (close to) an integer — run-time comparison only. -/
theorem iterations_partial (halive : ∀ k, aliveAt init hist k ≠ []) :
    (run fn P init hist fuel).iter = ⌈P.T / P.dt⌉₊ := by
  obtain ⟨h1, h2⟩ := iterations_spec fn hfl P hdt init hist fuel hfuel
  apply ceil_unique P.T P.dt hdt hT
  · intro j hj; exact (h1 j hj).1
  · rcases h2 with h | h
    · exact h
    · exact absurd h (halive _)

include hfl hdt hT hfuel in
/-- never more than `⌈T/dt⌉` iterations -/
theorem iterations_le : (run fn P init hist fuel).iter ≤ ⌈P.T / P.dt⌉₊ := by
  obtain ⟨h1, _⟩ := iterations_spec fn hfl P hdt init hist fuel hfuel
  by_contra hcon
  push Not at hcon
  have := (h1 ⌈P.T / P.dt⌉₊ hcon).1
  have h2 : P.T / P.dt ≤ (⌈P.T / P.dt⌉₊ : R) := Nat.le_ceil _
  rw [div_le_iff₀ hdt] at h2
  linarith

include hfl hdt hfuel in
/-- when the population is empty at the start of iteration `k` the loop has stopped by then, and the final
    statistics record has no row -/
theorem empty_population_stops (k : Nat) (hk : aliveAt init hist k = []) :
    (run fn P init hist fuel).iter ≤ k := by
  obtain ⟨h1, _⟩ := iterations_spec fn hfl P hdt init hist fuel hfuel
  by_contra hcon
  push Not at hcon
  exact (h1 k hcon).2 hk

include hfl hdt hS in
/-- the files, exactly: iteration `k < N` writes a pair iff it is the first or its time `k·dt` lies in another
    sampling slot than `(k−1)·dt`; the pair carries the slot number `⌊k·dt/S⌋ + 1` and the cells alive at `k`.
    (`dt ≤ S` is what makes the slot grow by at most one per iteration, so that no iteration writes two pairs.) -/
theorem files_exact :
    (run fn P init hist fuel).files = ((List.range (run fn P init hist fuel).iter).filter (newSlot P)).map
      (fun k => ({ iter := k, number := slot P k, cells := aliveAt init hist k } : FileRec)) :=
  (slots_loop fn hfl P hist hdt hS init fuel).files

include hfl hdt hS in
/-- `K = ⌊(N−1)·dt/S⌋ + 1` (and `K = 0`, no file, iff no iteration ran) -/
theorem last_file_number :
    (run fn P init hist fuel).fileNo =
      if (run fn P init hist fuel).iter = 0 then 0 else slot P ((run fn P init hist fuel).iter - 1) :=
  (slots_loop fn hfl P hist hdt hS init fuel).fileNo

include hfl hdt hS hT hfuel in
/-- the number of file pairs when the population never dies out: `K ∈ {⌊T/S⌋, ⌊T/S⌋ + 1}`, i.e.
    `|K − (⌊T/S⌋ + 1)| ≤ 1`, and `T/S − dt/S < K ≤ T/S + 1`.
    PARTIAL: (1) exact arithmetic (see `iterations_partial`); (2) the reading "`|K − (T/S + 1)| ≤ 1` with the real
    number `T/S`" is NOT a theorem — `T = 3/2, S = 1, dt = 9/10` gives `K = 1`, `T/S + 1 = 5/2` — only the bound
    `K − (T/S + 1) > −1 − dt/S` holds; (3) a population that dies out stops the run early and `K` is then smaller. -/
theorem K_bound_partial (halive : ∀ k, aliveAt init hist k ≠ []) :
    ⌊P.T / P.S⌋ ≤ (run fn P init hist fuel).fileNo ∧ (run fn P init hist fuel).fileNo ≤ ⌊P.T / P.S⌋ + 1 ∧
    P.T / P.S - P.dt / P.S < ((run fn P init hist fuel).fileNo : R) ∧ ((run fn P init hist fuel).fileNo : R) ≤ P.T / P.S + 1 := by
  have hN := iterations_partial fn hfl P hdt hT init hist fuel hfuel halive
  obtain ⟨h1, h2⟩ := iterations_spec fn hfl P hdt init hist fuel hfuel
  have hK := last_file_number fn hfl P hdt hS init hist fuel
  have hS0 : 0 < P.S := lt_of_lt_of_le hdt hS
  have hend : P.T ≤ ((run fn P init hist fuel).iter : R) * P.dt := by
    rcases h2 with h | h
    · exact h
    · exact absurd h (halive _)
  generalize (run fn P init hist fuel).iter = N at *
  generalize (run fn P init hist fuel).fileNo = K at *
  have hN0 : N ≠ 0 := by
    rintro rfl; simp at hend; linarith
  obtain ⟨j, rfl⟩ := Nat.exists_eq_succ_of_ne_zero hN0
  simp only [Nat.succ_ne_zero, if_false, Nat.succ_sub_one] at hK
  have hj : (j : R) * P.dt < P.T := (h1 j (Nat.lt_succ_self j)).1
  have hx1 : (j : R) * P.dt / P.S < P.T / P.S := div_lt_div_of_pos_right hj hS0
  have hd1 : P.dt / P.S ≤ 1 := (div_le_one hS0).mpr hS
  have hx2 : P.T / P.S ≤ (j : R) * P.dt / P.S + P.dt / P.S := by
    rw [← add_div]
    apply div_le_div_of_nonneg_right _ hS0.le
    have : ((j.succ : Nat) : R) = (j : R) + 1 := by push_cast; ring
    rw [this] at hend; linarith
  have hfl1 : ⌊(j : R) * P.dt / P.S⌋ ≤ ⌊P.T / P.S⌋ := Int.floor_le_floor hx1.le
  have hfl2 : ⌊P.T / P.S⌋ ≤ ⌊(j : R) * P.dt / P.S⌋ + 1 := by
    rw [← Int.floor_add_one]; exact Int.floor_le_floor (by linarith)
  have hKr : (K : R) = (⌊(j : R) * P.dt / P.S⌋ : R) + 1 := by rw [hK]; simp [slot]
  have hlt : (j : R) * P.dt / P.S < (⌊(j : R) * P.dt / P.S⌋ : R) + 1 := Int.lt_floor_add_one _
  have hle : (⌊(j : R) * P.dt / P.S⌋ : R) ≤ (j : R) * P.dt / P.S := Int.floor_le _
  refine ⟨by rw [hK]; unfold slot; omega, by rw [hK]; unfold slot; omega, ?_, ?_⟩
  · rw [hKr]; linarith
  · rw [hKr]; linarith
end exact

/-! ## Part 3 — the statistics table and the shape of the code (generated constants) -/

/-- every row has as many fields as the header, in the file writer and in the in-memory writer: both write their
    fixed leading items, then one item per entry of the same list `file_data_mapper_lst`, each followed by the separator -/
theorem row_arity_eq_header_arity :
    (rowFields Gen.csvRowFixed).length = (headerFields Gen.csvHeaderFixed).length ∧
    (rowFields Gen.strRowFixed).length = (headerFields Gen.strHeaderFixed).length := by
  constructor <;> rfl

/-- file and in-memory statistics are the same table -/
theorem both_writers_same_table : Gen.csvHeaderFixed = Gen.strHeaderFixed ∧ Gen.csvRowFixed = Gen.strRowFixed :=
  ⟨rfl, rfl⟩

/-- the header: iteration, wall-clock, simulation time, then the cell columns — among them id, type, area, volume,
    target volume and pressure, printed with `%d` / `%.3e` -/
theorem table_columns :
    Gen.csvHeaderFixed = ["iteration", "computation_time_(hh::mm:ss)", "simulation_time"] ∧
    Gen.csvRowFixed = ["std::to_string(iteration)", "computation_time_str", "format_number(simulation_time,\"%.2e\")"] ∧
    (Gen.mapperColumns.filter (fun c => ["cell_id", "type_id", "area", "volume", "target_volume", "pressure"].contains c.1)) =
      [("cell_id", "%d"), ("type_id", "%d"), ("area", "%.3e"), ("volume", "%.3e"), ("target_volume", "%.3e"), ("pressure", "%.3e")] := by
  refine ⟨rfl, rfl, ?_⟩
  decide

/-- the six columns print the getters of the cell -/
theorem value_sources :
    Gen.valueSources = [("cell_id", "c->get_id()"),
      ("type_id", "(c->get_cell_type()!=nullptr)?c->get_cell_type()->global_type_id_:-1"),
      ("area", "c->get_area()"), ("volume", "c->get_volume()"), ("target_volume", "c->get_target_volume()"),
      ("pressure", "c->get_pressure()")] := rfl

/-- the statement order the model was written for, the two periods of the property, the naming of the file pairs -/
theorem code_shape :
    Gen.iterationOrder = ["save_mesh", "divide", "advance_time", "record", "remove", "count"] ∧
    Gen.runOrder = ["loop", "record", "rebase"] ∧
    Gen.statsPeriod = 50 ∧ Gen.divisionPeriod = 5 ∧ Gen.stepTmp = false ∧
    Gen.cellPath = ("/cell_data/result_", ".vtk") ∧ Gen.facePath = ("/face_data/result_", ".vtk") ∧
    Gen.initIteration = 0 ∧ Gen.initFileNumber = 0 :=
  ⟨rfl, rfl, rfl, rfl, rfl, rfl, rfl, rfl, rfl⟩

/-! ## Non-vacuity -/

/-- the hypotheses of Part 2 are satisfiable: ℚ with its floor, a non-commensurable (T, dt, S) -/
example : ∃ (fn : Fn ℚ) (P : Params ℚ), (∀ x : ℚ, fn.floor x = ⌊x⌋) ∧ 0 < P.dt ∧ P.dt ≤ P.S ∧ 0 < P.T ∧
    ¬ ∃ n : ℤ, P.S = n * P.dt :=
  ⟨⟨id, id, id, id, fun x => ⌊x⌋⟩, ⟨1, 3 / 10, 1 / 2⟩, fun _ => rfl, by norm_num, by norm_num, by norm_num, by
    rintro ⟨n, hn⟩
    have h : (5 : ℚ) = 3 * n := by simp only at hn; linarith
    have h' : (5 : ℤ) = 3 * n := by exact_mod_cast h
    omega⟩

/-- a population history in which no list is ever empty exists (hypothesis of `iterations_partial`, `K_bound_partial`) -/
example : ∀ k, aliveAt [0, 1] (fun _ => { mid := [0, 1], dead := [] }) k ≠ [] := by
  intro k
  induction k with
  | zero => simp [aliveAt]
  | succ k ih =>
    simp only [aliveAt, postOf, midOf]
    split <;> simp_all

/-- the model on a concrete run over the integers (`t/S` is the floor division): T = 7, dt = 2, S = 3; cell 1 divides
    into 2 and 3 in iteration 0, cell 0 is removed in iteration 1, everything dies in iteration 2 — the loop stops
    although `t = 6 < T`, two file pairs 1, 2 were written (iterations 0 and 2), iteration 0 and the final state were recorded -/
instance : Lit Int := ⟨Int.ofNat⟩
def exHist : Nat → Event
  | 0 => { mid := [0, 2, 3], dead := [] }
  | 1 => { mid := [], dead := [0] }
  | _ => { mid := [], dead := [2, 3] }
def exRun : St Int := run ⟨id, id, id, id, id⟩ { T := 7, dt := 2, S := 3 } [0, 1] exHist 10
example : exRun.iter = 3 ∧ exRun.time = 6 ∧ exRun.cells = [] ∧
    exRun.files = [⟨0, 1, [0, 1]⟩, ⟨2, 2, [2, 3]⟩] ∧
    exRun.stats.map (fun r => (r.iter, r.cells)) = [(0, [0, 2, 3]), (3, [])] := by
  decide

end Simu.C19
