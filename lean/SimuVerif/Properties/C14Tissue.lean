import SimuVerif.Lemmas.C14_TissueStages
/-
  C14 — the ASSEMBLED iteration of a tissue of interacting epithelial cells commutes with translations.

  `Tissue.tissueIteration` (lean/SimuVerif/Model/Tissue.lean) is one executable model of a whole `solver::run_iteration` of the
  default build for a tissue whose cells neither divide nor are removed and whose meshes are inside the refinement band; it is
  tied bit-for-bit to the real solver on every run (tools/props/c14_tissue.py: every double of every iteration, couplings and
  face types).  Here, in exact arithmetic over any ordered field with a floor function, for any packs of non-field functions
  `fn` (contact model, grid) and `fx` (forces, node normals):

    * `tissueIteration_translate`  one iteration of the translated tissue = the translate of one iteration: positions shifted by
                                   `t`; momenta, forces, couplings, closest distances, face types, node normals, curvatures,
                                   cached face normals / areas, cell scalars, time, iteration counter identical;
    * `tissueRun_translate`        the same after any number of iterations;
    * `tissueRun_observables`      what is observed of the cells is identical in both runs, positions differ by `t`;
    * `domain_translate`, `tissueRunOk_translate`   the translated run is inside the modelled domain exactly when the reference run is.

  Hypotheses (named, decidable, evaluated on every executed instance by the driver / the Python check):
    * `TissueSetup fn K`   `fn.floor` is the floor; 0 ≤ grid delta; 0 < padding; 0 < voxel size  (C06 `Setup`; follows from
                           positive cut-offs and edge length: `tissueSetup_of_pos`);
    * `Wf cells`           every mesh is closed (each directed side has its reverse: C02 `Closed`) and every node slot is a
                           corner of a face of its cell (`Covered`).  Both depend only on the connectivity, which the iteration
                           keeps (`tissueIteration_shape`).
  What C06 provides for the contact search: the faces handed to `resolve_contact` for a node in use are exactly the faces of
  other cells whose padded box contains the node, in descending global id (`C14T.candidates_eq_filter`, from `voxel_content`,
  `voxel_complete`, `node_voxel_in_range`) — a description free of the grid, whose floor divisions are not equivariant.
  What is needed besides: `Covered` (a node that is a corner of a face lies in the hull of the face boxes).
-/
namespace Simu.C14
open Simu Simu.Forces Simu.Pipeline Simu.Gen Simu.Tissue Simu.C14T

set_option linter.unusedSectionVars false
set_option linter.unusedVariables false

variable {R : Type} [Field R] [LinearOrder R] [IsStrictOrderedRing R] [FloorRing R]

/-! ### hypotheses -/

/-- the standing assumptions of the C06 theorems for the contact model of this tissue -/
def TissueSetup (fn : Fn R) (K : Tissue.Consts R) : Prop := C06.Setup fn K.delta (cparams K).padding (cparams K).voxel

/-- every mesh is closed and every node slot is a corner of a face -/
def Wf (cells : List (Cell R)) : Prop := ∀ c ∈ cells, Closed c.faces ∧ Covered c

/-- positive cut-offs and minimal edge length give the set-up (what the parameter reader enforces) -/
theorem tissueSetup_of_pos (fn : Fn R) (K : Tissue.Consts R) (hfl : ∀ x, fn.floor x = ⌊x⌋) (hδ : 0 ≤ K.delta)
    (ha : 0 < K.cutAdh) (hr : 0 < K.cutRep) (hl : 0 < K.lmin) : TissueSetup fn K := by
  have hp : 0 < (cparams K).padding := by
    show 0 < cmax K.cutRep K.cutAdh
    unfold cmax; split_ifs <;> assumption
  refine ⟨hfl, hδ, hp, ?_⟩
  show 0 < K.lmin * (lit 3 : R) + (lit 2 : R) * cmax K.cutRep K.cutAdh
  have hp' : 0 < cmax K.cutRep K.cutAdh := hp
  rw [lit_three, lit_two]
  positivity

/-! ### the connectivity is kept -/

def corners (f : Face) : Nat × Nat × Nat := (f.a, f.b, f.c)
/-- number of node slots and corners of the faces: what `Closed` and `Covered` depend on -/
def shape (c : Cell R) : Nat × List (Nat × Nat × Nat) := (c.nn, c.faces.map corners)

def sidesC (q : Nat × Nat × Nat) : List (Nat × Nat) := [(q.1, q.2.1), (q.2.1, q.2.2), (q.2.2, q.1)]

theorem he_eq_corners (F : List Face) : he F = (F.map corners).flatMap sidesC := by
  unfold he; rw [List.flatMap_map]; rfl

theorem closed_congr {F F' : List Face} (h : F'.map corners = F.map corners) (hc : Closed F) : Closed F' := by
  unfold Closed at *; rw [he_eq_corners, h, ← he_eq_corners]; exact hc

theorem covered_congr {c c' : Cell R} (h : shape c' = shape c) (hc : Covered c) : Covered c' := by
  have h1 : c'.nn = c.nn := congrArg Prod.fst h
  have h2 : c'.faces.map corners = c.faces.map corners := congrArg Prod.snd h
  intro i hi
  obtain ⟨f, hf, hcor⟩ := hc i (h1 ▸ hi)
  have hm : corners f ∈ c'.faces.map corners := h2 ▸ List.mem_map_of_mem hf
  obtain ⟨f', hf', e⟩ := List.mem_map.mp hm
  have ea : f'.a = f.a := congrArg Prod.fst e
  have eb : f'.b = f.b := congrArg (fun q => q.2.1) e
  have ec : f'.c = f.c := congrArg (fun q => q.2.2) e
  exact ⟨f', hf', by rw [ea, eb, ec]; exact hcor⟩

theorem wf_congr {cells cells' : List (Cell R)} (h : cells'.map shape = cells.map shape) (hw : Wf cells) : Wf cells' := by
  intro c' hc'
  obtain ⟨i, hi, rfl⟩ := List.mem_iff_getElem.mp hc'
  have hl : cells'.length = cells.length := by simpa using congrArg List.length h
  have hi2 : i < cells.length := hl ▸ hi
  have hs : shape cells'[i] = shape cells[i] := by
    have := congrArg (fun l => l[i]?) h
    simpa [List.getElem?_map, List.getElem?_eq_getElem hi, List.getElem?_eq_getElem hi2] using this
  obtain ⟨h1, h2⟩ := hw cells[i] (List.getElem_mem hi2)
  exact ⟨closed_congr (congrArg Prod.snd hs) h1, covered_congr hs h2⟩

theorem map_shape_of_forall (cells : List (Cell R)) (g : Cell R → Cell R) (h : ∀ c, shape (g c) = shape c) :
    (cells.map g).map shape = cells.map shape := by
  rw [List.map_map]; apply List.map_congr_left; intro c _; exact h c

theorem zipIdx_map_shape (cells : List (Cell R)) (g : Cell R × Nat → Cell R) (h : ∀ ci, shape (g ci) = shape ci.1) :
    (cells.zipIdx.map g).map shape = cells.map shape := by
  rw [List.map_map]
  have : cells.zipIdx.map (shape ∘ g) = cells.zipIdx.map (shape ∘ Prod.fst) := by
    apply List.map_congr_left; intro ci _; exact h ci
  rw [this, ← List.map_map, List.zipIdx_map_fst]

theorem shape_trCell (t : V3 R) (c : Cell R) : shape (trCell t c) = shape c := by
  unfold shape; rw [trCell_nn]; rfl

theorem shape_updateFaceTypesCell (K : Tissue.Consts R) (c : Cell R) : shape (updateFaceTypesCell K c) = shape c := by
  unfold shape updateFaceTypesCell Pipeline.updateFaceTypes
  show (c.nn, _) = _
  congr 1
  split_ifs
  · rw [List.map_map]; rfl
  · rfl

theorem shape_ofPopCell (c : Cell R) (l : List (Coupling.CNode R)) : shape (ofPopCell c l) = shape c := by
  unfold shape ofPopCell Cell.nn
  simp only [Array.size_map, Array.size_range]

theorem shape_ofDynCell (c : Cell R) (l : List (Integ.Dyn R)) : shape (ofDynCell c l) = shape c := by
  unfold shape ofDynCell Cell.nn
  simp only [Array.size_map, Array.size_range]

theorem contactRun_shape (fn : Fn R) (K : Tissue.Consts R) (cells : List (Cell R)) :
    (contactRun fn K cells).1.map shape = cells.map shape := by
  have hw : ∀ st, (writeMut cells st).map shape = cells.map shape := by
    intro st
    unfold writeMut
    apply zipIdx_map_shape
    intro ci
    cases st[ci.2]? <;> rfl
  unfold contactRun
  simp only
  split
  · unfold ofPop
    rw [zipIdx_map_shape _ _ (by
      intro ci
      split
      · exact shape_ofPopCell ci.1 _
      · rfl)]
    exact hw _
  · exact hw _

theorem corners_polariseFace (cells : List (Cell R)) (c : Cell R) (fi : Nat) (f : Face) :
    corners (polariseFace cells c fi f) = corners f := by
  unfold polariseFace
  split <;> rfl

theorem shape_polariseCell (cells : List (Cell R)) (c : Cell R) : shape (polariseCell cells c) = shape c := by
  unfold polariseCell
  split_ifs
  · unfold shape
    show (c.nn, _) = _
    congr 1
    rw [List.map_map]
    have : c.faces.zipIdx.map (corners ∘ fun fi => polariseFace cells c fi.2 fi.1) = c.faces.zipIdx.map (corners ∘ Prod.fst) := by
      apply List.map_congr_left; intro fi _; exact corners_polariseFace cells c fi.2 fi.1
    rw [this, ← List.map_map, List.zipIdx_map_fst]
  · rfl

theorem shape_applyInternalForces (fx : FX R) (K : Tissue.Consts R) (c : Cell R) : shape (applyInternalForces fx K c) = shape c := rfl

theorem integrate_shape (K : Tissue.Consts R) (time : R) (cells : List (Cell R)) :
    (integrate K time cells).2.map shape = cells.map shape := by
  unfold integrate ofDyn
  apply zipIdx_map_shape
  intro ci
  cases (Integ.step Integ.CM.nodeNode Integ.DM.semiImplicit (topo cells) K.dt K.damping ⟨time, toDyn cells⟩).dyn[ci.2]? with
  | none => rfl
  | some l => exact shape_ofDynCell ci.1 l

theorem beforeIntegration_shape (fn : Fn R) (fx : FX R) (K : Tissue.Consts R) (cells : List (Cell R)) :
    (beforeIntegration fn fx K cells).1.map shape = cells.map shape := by
  unfold beforeIntegration
  simp only
  rw [map_shape_of_forall _ _ (shape_applyInternalForces fx K)]
  unfold polarise
  rw [map_shape_of_forall _ _ (shape_polariseCell _), contactRun_shape, map_shape_of_forall _ _ (shape_updateFaceTypesCell K)]

/-- **the iteration keeps the connectivity** (number of cells, of node slots, the corners of every face) -/
theorem tissueIteration_shape (fn : Fn R) (fx : FX R) (K : Tissue.Consts R) (s : Tissue.State R) :
    (tissueIteration fn fx K s).cells.map shape = s.cells.map shape := by
  unfold tissueIteration
  simp only
  rw [integrate_shape, beforeIntegration_shape]

/-- … hence the hypotheses on the meshes hold along the whole run -/
theorem tissueIteration_wf (fn : Fn R) (fx : FX R) (K : Tissue.Consts R) (s : Tissue.State R) (hw : Wf s.cells) :
    Wf (tissueIteration fn fx K s).cells := wf_congr (tissueIteration_shape fn fx K s) hw

theorem translate_wf (t : V3 R) (s : Tissue.State R) (hw : Wf s.cells) : Wf (Tissue.translate t s).cells :=
  wf_congr (map_shape_of_forall _ _ (shape_trCell t)) hw

/-! ### the stage facts (proved in Lemmas/C14_Tissue*.lean), under the names the check audits -/

/-- C06 ⇒ the faces the voxel lookup hands to `resolve_contact` for a node in use = the faces of other cells whose padded box
    contains the node, in descending global id: no grid in the description -/
theorem candidates_eq_boxfilter (fn : Fn R) (δ pad vs inf : R) (S : C06.Setup fn δ pad vs) (fs : List (BP.BFace R)) (n : BP.BNode R)
    (hn : C06.InHull pad (BP.faceRecs pad fs) n.pos) :
    BP.candidates fn (BP.dims fn δ vs pad inf (BP.faceRecs pad fs))
        (BP.buildGrid fn (BP.dims fn δ vs pad inf (BP.faceRecs pad fs)) (BP.faceRecs pad fs)) (BP.faceRecs pad fs) n
      = (BP.otherCellFaces (BP.faceRecs pad fs) n).filter (boxTest (BP.faceRecs pad fs) n) :=
  candidates_eq_filter (inf := inf) S fs n hn

/-- the box test does not see a common translation -/
theorem aabbCheck_translate (pad : R) (a b c p t : V3 R) :
    aabbCheck (faceBox pad (a + t) (b + t) (c + t)) (p + t) = aabbCheck (faceBox pad a b c) p := aabbCheck_tr pad a b c p t

/-- `resolve_contact` does not see a common translation of the node and the three face nodes -/
theorem rule1_translate (fn : Fn R) (P : CParams R) (c1 c2 : CCell R) (n1 : CNode R) (f : CFace R) (a b c : CNode R) (t : V3 R) :
    rule1 fn P c1 c2 (trCN t n1) f (trCN t a) (trCN t b) (trCN t c) = rule1 fn P c1 c2 n1 f a b c := rule1_tr fn P c1 c2 n1 f a b c t

/-- the candidate faces of a node are the same after the translation although the grid is another one -/
theorem gridCandidates_translate (fn : Fn R) (K : Tissue.Consts R) (S : TissueSetup fn K) (cells : List (Cell R)) (t : V3 R)
    (ci ni : Nat) (c : Cell R) (hc : cells[ci]? = some c) (hcov : ∃ f ∈ c.faces, f.a = ni ∨ f.b = ni ∨ f.c = ni) :
    gridCandidates fn (mkGrid fn K (cells.map (trCell t))) ci ni = gridCandidates fn (mkGrid fn K cells) ci ni :=
  gridCandidates_tr fn K S cells t ci ni c hc hcov

/-- the search: same couplings, closest distances, contact forces -/
theorem contactSearch_translate (fn : Fn R) (K : Tissue.Consts R) (S : TissueSetup fn K) (cells : List (Cell R))
    (hcov : ∀ c ∈ cells, Covered c) (t : V3 R) : contactSearch fn K (cells.map (trCell t)) = contactSearch fn K cells :=
  contactSearch_tr fn K S cells hcov t

/-- symmetrisation and midpoints: the pairs sit at the translated midpoints -/
theorem couplingPass_translate (t : V3 R) (p : Coupling.Pop R) : Coupling.pass (trPop t p) = (Coupling.pass p).map (trPop t) := pass_tr t p

/-- the whole contact model -/
theorem contactRun_translate (fn : Fn R) (K : Tissue.Consts R) (S : TissueSetup fn K) (cells : List (Cell R))
    (hcov : ∀ c ∈ cells, Covered c) (t : V3 R) :
    contactRun fn K (cells.map (trCell t)) = (((contactRun fn K cells).1).map (trCell t), (contactRun fn K cells).2) :=
  contactRun_tr fn K S cells hcov t

theorem polarise_translate (t : V3 R) (cells : List (Cell R)) : polarise (cells.map (trCell t)) = (polarise cells).map (trCell t) :=
  polarise_tr t cells

theorem nodeNormals_translate (fx : FX R) (x : Nat → V3 R) (F : List Face) (vol : R) (n : Nat) (t : V3 R) :
    nodeNormals fx (fun i => x i + t) F vol n = nodeNormals fx x F vol n := nodeNormals_tr fx x F vol n t

theorem internalForces_translate (fx : FX R) (K : Tissue.Consts R) (c : Cell R) (hc : Closed c.faces) (t : V3 R) :
    applyInternalForces fx K (trCell t c) = trCell t (applyInternalForces fx K c) := applyInternalForces_tr fx K c hc t

theorem integrate_translate (K : Tissue.Consts R) (time : R) (cells : List (Cell R)) (t : V3 R) :
    integrate K time (cells.map (trCell t)) = ((integrate K time cells).1, (integrate K time cells).2.map (trCell t)) :=
  integrate_tr K time cells t

/-! ### one iteration -/

theorem beforeIntegration_translate (fn : Fn R) (fx : FX R) (K : Tissue.Consts R) (S : TissueSetup fn K)
    (cells : List (Cell R)) (hw : Wf cells) (t : V3 R) :
    beforeIntegration fn fx K (cells.map (trCell t))
      = ((beforeIntegration fn fx K cells).1.map (trCell t), (beforeIntegration fn fx K cells).2) := by
  unfold beforeIntegration
  have h3 : (cells.map (trCell t)).map (updateFaceTypesCell K) = (cells.map (updateFaceTypesCell K)).map (trCell t) := by
    rw [List.map_map, List.map_map]; rfl
  have hw3 : Wf (cells.map (updateFaceTypesCell K)) := wf_congr (map_shape_of_forall _ _ (shape_updateFaceTypesCell K)) hw
  have h5 := contactRun_tr fn K S (cells.map (updateFaceTypesCell K)) (fun c hc => (hw3 c hc).2) t
  have hw5 : Wf (contactRun fn K (cells.map (updateFaceTypesCell K))).1 := wf_congr (contactRun_shape fn K _) hw3
  have hw6 : Wf (polarise (contactRun fn K (cells.map (updateFaceTypesCell K))).1) := by
    unfold polarise; exact wf_congr (map_shape_of_forall _ _ (shape_polariseCell _)) hw5
  simp only [h3, h5, polarise_tr]
  congr 1
  rw [List.map_map, List.map_map]
  apply List.map_congr_left
  intro c hc
  exact applyInternalForces_tr fx K c (hw6 c hc).1 t

/-- **one whole solver iteration of a tissue commutes with the translation** -/
theorem tissueIteration_translate (fn : Fn R) (fx : FX R) (K : Tissue.Consts R) (S : TissueSetup fn K)
    (s : Tissue.State R) (hw : Wf s.cells) (t : V3 R) :
    tissueIteration fn fx K (Tissue.translate t s) = Tissue.translate t (tissueIteration fn fx K s) := by
  unfold tissueIteration Tissue.translate
  simp only [beforeIntegration_translate fn fx K S s.cells hw t, integrate_tr]

/-! ### any number of iterations -/

/-- **n iterations of the translated tissue = the translate of n iterations** -/
theorem tissueRun_translate (fn : Fn R) (fx : FX R) (K : Tissue.Consts R) (S : TissueSetup fn K) (n : Nat)
    (s : Tissue.State R) (hw : Wf s.cells) (t : V3 R) :
    tissueRun fn fx K n (Tissue.translate t s) = Tissue.translate t (tissueRun fn fx K n s) := by
  induction n generalizing s with
  | zero => rfl
  | succ k ih =>
    simp only [tissueRun, tissueIteration_translate fn fx K S s hw t]
    exact ih (tissueIteration fn fx K s) (tissueIteration_wf fn fx K s hw)

/-- what is observed of a cell besides the node positions -/
structure Obs (R : Type) where
  nn : Nat
  faces : List Face
  coup : Array (Option (Nat × Nat))
  mom : Array (V3 R)
  force : Array (V3 R)
  normal : Array (V3 R)
  curv : Array R
  area : R
  volume : R
  tvol : R
  pressure : R

def obs (c : Cell R) : Obs R := ⟨c.nn, c.faces, c.coup, c.mom, c.force, c.normal, c.curv, c.area, c.volume, c.tvol, c.pressure⟩

theorem obs_trCell (t : V3 R) (c : Cell R) : obs (trCell t c) = obs c := by
  unfold obs; rw [trCell_nn]; rfl

/-- **what is observed of the tissue is identical in both runs** (number of cells and of nodes, connectivity and face types,
    couplings, momenta, areas, volumes, target volumes, pressures, node normals and curvatures, time, iteration counter, the
    `defined` flag), **and every node of the translated run sits at the translated position of the reference run** -/
theorem tissueRun_observables (fn : Fn R) (fx : FX R) (K : Tissue.Consts R) (S : TissueSetup fn K) (n : Nat)
    (s : Tissue.State R) (hw : Wf s.cells) (t : V3 R) :
    (tissueRun fn fx K n (Tissue.translate t s)).cells.map obs = (tissueRun fn fx K n s).cells.map obs
    ∧ (tissueRun fn fx K n (Tissue.translate t s)).time = (tissueRun fn fx K n s).time
    ∧ (tissueRun fn fx K n (Tissue.translate t s)).iter = (tissueRun fn fx K n s).iter
    ∧ (tissueRun fn fx K n (Tissue.translate t s)).defined = (tissueRun fn fx K n s).defined
    ∧ ∀ (ci : Nat) (c : Cell R), (tissueRun fn fx K n s).cells[ci]? = some c →
        ∃ c' : Cell R, (tissueRun fn fx K n (Tissue.translate t s)).cells[ci]? = some c' ∧ ∀ i, c'.pos.get i = c.pos.get i + t := by
  rw [tissueRun_translate fn fx K S n s hw t]
  refine ⟨?_, rfl, rfl, rfl, ?_⟩
  · show ((tissueRun fn fx K n s).cells.map (trCell t)).map obs = _
    rw [List.map_map]; apply List.map_congr_left; intro c _; exact obs_trCell t c
  · intro ci c hc
    refine ⟨trCell t c, ?_, fun i => trCell_get' t c i⟩
    show ((tissueRun fn fx K n s).cells.map (trCell t))[ci]? = _
    rw [List.getElem?_map, hc]; rfl

/-! ### the domain of the model moves with the tissue -/

theorem inBand_tr (K : Tissue.Consts R) (t : V3 R) (c : Cell R) : Tissue.inBand K (trCell t c) = Tissue.inBand K c := by
  unfold Tissue.inBand
  have hk : (trCell t c).k = c.k := rfl
  have hf : (trCell t c).faces = c.faces := rfl
  simp only [hk, hf, trCell_get, edgeInBand_translate]

theorem preOk_translate (K : Tissue.Consts R) (s : Tissue.State R) (t : V3 R) : preOk K (Tissue.translate t s) = preOk K s := by
  unfold preOk Tissue.translate
  simp only [List.all_map, List.any_map]
  have h1 : ((fun c : Cell R => c.k.kind == 0) ∘ trCell t) = fun c => c.k.kind == 0 := rfl
  have h2 : (Tissue.ready s.iter ∘ trCell t) = Tissue.ready s.iter := rfl
  have h3 : (Tissue.inBand K ∘ trCell t) = Tissue.inBand K := funext (inBand_tr K t)
  rw [h1, h2, h3]

theorem postOk_translate (s : Tissue.State R) (t : V3 R) : postOk (Tissue.translate t s) = postOk s := by
  unfold postOk Tissue.translate
  simp only [List.any_map]
  rfl

/-- **the domain predicate is translation invariant**: the tests that decide whether the next real iteration is
    `tissueIteration` (division, refinement band, removal, defined couplings) give the same verdict on the translated tissue -/
theorem domain_translate (fn : Fn R) (fx : FX R) (K : Tissue.Consts R) (S : TissueSetup fn K)
    (s : Tissue.State R) (hw : Wf s.cells) (t : V3 R) :
    Tissue.stepOk fn fx K (Tissue.translate t s) = Tissue.stepOk fn fx K s := by
  unfold Tissue.stepOk
  rw [preOk_translate, tissueIteration_translate fn fx K S s hw t, postOk_translate]

/-- … along the whole run: the translated run stays in the modelled domain exactly as long as the reference run -/
theorem tissueRunOk_translate (fn : Fn R) (fx : FX R) (K : Tissue.Consts R) (S : TissueSetup fn K) (n : Nat)
    (s : Tissue.State R) (hw : Wf s.cells) (t : V3 R) :
    Tissue.runOk fn fx K n (Tissue.translate t s) = Tissue.runOk fn fx K n s := by
  induction n generalizing s with
  | zero => rfl
  | succ k ih =>
    simp only [Tissue.runOk, domain_translate fn fx K S s hw t, tissueIteration_translate fn fx K S s hw t,
      ih (tissueIteration fn fx K s) (tissueIteration_wf fn fx K s hw)]

/-! ### non-vacuity: two tetrahedra a quarter apart over ℚ (node 1 of the first, at (1,0,0), faces node 0 of the second, at (5/4,0,0)) -/
section nonvacuous

def tetFaces : List Face := [⟨0, 2, 1, 0⟩, ⟨0, 1, 3, 0⟩, ⟨0, 3, 2, 0⟩, ⟨1, 2, 3, 0⟩]

def kQ : CellK ℚ :=
  { kind := 0, K := 1, maxP := 10, aem := 1, iso := 1, angf := 0, minVol := 1 / 100, growth := 0, divVol := 100, density := 1,
    maxCurv := 100, ft := [⟨1, 0⟩, ⟨1, 0⟩], rep := [1, 1] }

/-- a tetrahedron with a corner at `o`, in the state in which the solver starts (no normals, curvatures, couplings yet) -/
def tet (o : V3 ℚ) : Cell ℚ :=
  { k := kQ, pos := ⟨#[o, o + ⟨1, 0, 0⟩, o + ⟨0, 1, 0⟩, o + ⟨0, 0, 1⟩], fun _ => o⟩,
    mom := #[⟨0, 0, 0⟩, ⟨0, 0, 0⟩, ⟨0, 0, 0⟩, ⟨0, 0, 0⟩], force := #[⟨0, 0, 0⟩, ⟨0, 0, 0⟩, ⟨0, 0, 0⟩, ⟨0, 0, 0⟩],
    normal := #[⟨0, 0, 0⟩, ⟨0, 0, 0⟩, ⟨0, 0, 0⟩, ⟨0, 0, 0⟩], curv := #[0, 0, 0, 0], coup := #[none, none, none, none],
    sqd := #[0, 0, 0, 0], faces := tetFaces,
    fgeom := #[(⟨0, 0, -1⟩, 1 / 2), (⟨0, -1, 0⟩, 1 / 2), (⟨-1, 0, 0⟩, 1 / 2), (⟨1, 1, 1⟩, 1)],
    area := 5 / 2, volume := 1 / 6, tvol := 1 / 6, pressure := 0 }

def KQ : Tissue.Consts ℚ :=
  { dt := 1, damping := 1, lmin := 1 / 3, cutAdh := 1 / 2, cutRep := 1 / 4, dotAdh := 7 / 10, dotRep := 0, big := 1000000,
    inf := 1000000, delta := 1 / 1000 }

def fnQ2 : Fn ℚ := { sqrt := id, ln := id, exp := id, acos := id, floor := fun x => ⌊x⌋ }

def sQ2 : Tissue.State ℚ := ⟨0, 0, [tet ⟨0, 0, 0⟩, tet ⟨5 / 4, 0, 0⟩], true⟩

theorem tetFaces_closed : Closed tetFaces := by decide

theorem tet_covered (o : V3 ℚ) : Covered (tet o) := by
  intro i hi
  have h4 : i < 4 := hi
  have hf : (tet o).faces = tetFaces := rfl
  rw [hf]
  match i, h4 with
  | 0, _ => exact ⟨⟨0, 2, 1, 0⟩, by simp [tetFaces], Or.inl rfl⟩
  | 1, _ => exact ⟨⟨0, 2, 1, 0⟩, by simp [tetFaces], Or.inr (Or.inr rfl)⟩
  | 2, _ => exact ⟨⟨0, 2, 1, 0⟩, by simp [tetFaces], Or.inr (Or.inl rfl)⟩
  | 3, _ => exact ⟨⟨0, 1, 3, 0⟩, by simp [tetFaces], Or.inr (Or.inr rfl)⟩

/-- the hypotheses of the theorems hold … -/
theorem sQ2_wf : Wf sQ2.cells := by
  intro c hc
  simp only [sQ2, List.mem_cons, List.not_mem_nil, or_false] at hc
  rcases hc with rfl | rfl <;> exact ⟨tetFaces_closed, tet_covered _⟩

theorem KQ_setup : TissueSetup fnQ2 KQ :=
  tissueSetup_of_pos fnQ2 KQ (fun _ => rfl) (by norm_num [KQ]) (by norm_num [KQ]) (by norm_num [KQ]) (by norm_num [KQ])

/-- … so the pair of cells placed anywhere evolves as the pair at the origin, for any number of iterations -/
example (t : V3 ℚ) (n : Nat) :
    tissueRun fnQ2 C02.fxQ KQ n (Tissue.translate t sQ2) = Tissue.translate t (tissueRun fnQ2 C02.fxQ KQ n sQ2) :=
  tissueRun_translate fnQ2 C02.fxQ KQ KQ_setup n sQ2 sQ2_wf t

/-- … and the cells do interact there: the face (0, 2, 1) of the second cell passes the box test for node 1 of the first
    cell, and `resolve_contact` couples that node to node 0 of the second cell at squared distance 1/16 -/
theorem sQ2_contact :
    aabbCheck (faceBox (cparams KQ).padding (⟨5 / 4, 0, 0⟩ : V3 ℚ) ⟨5 / 4, 1, 0⟩ ⟨9 / 4, 0, 0⟩) ⟨1, 0, 0⟩ = true
    ∧ (rule1 fnQ2 (cparams KQ) ⟨0, 0, 100⟩ ⟨1, 0, 100⟩ (⟨⟨1, 0, 0⟩, ⟨0, 0, 0⟩, 0, false, 1000000⟩ : CNode ℚ) ⟨⟨0, 0, -1⟩, 1 / 2, 0, 1⟩
        ⟨⟨5 / 4, 0, 0⟩, ⟨0, 0, 0⟩, 0, false, 1000000⟩ ⟨⟨5 / 4, 1, 0⟩, ⟨0, 0, 0⟩, 0, false, 1000000⟩
        ⟨⟨9 / 4, 0, 0⟩, ⟨0, 0, 0⟩, 0, false, 1000000⟩)
      = ⟨noForces, true, 1, 1 / 16⟩ := by
  constructor
  · norm_num [aabbCheck, faceBox, cparams, mkParams12, KQ, cmin, cmax]
  · norm_num [rule1, coupleDist1, coupleChoose1, coupleFire1, cparams, mkParams12, KQ, cmax, V3.dot_def, V3.normSq_def, lit_eq]

end nonvacuous

end Simu.C14
