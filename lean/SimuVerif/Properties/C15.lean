import SimuVerif.Lemmas.ParSound
import SimuVerif.Gen.ParLoops
/-
  C15 — results independent of thread count / schedule; parallel errors become exceptions.

  OpenMP and the C++ memory model are not modelled.  What is logic is: per-cell loops whose tasks touch only
  their own cell, a division round whose critical sections run in an arbitrary order, and a catch-all handler.
  The theorems hold for EVERY interleaving / order; that the code has this shape is re-extracted from the
  source on every run (`Gen.parLoops`, `Gen.divider…`, `Gen.handler…`) and decided here.
-/
namespace Simu.C15
open Simu Simu.Par

/-- whatever the interleaving of the per-cell tasks (any thread count, any schedule), once all have finished every
    cell holds exactly what the sequential run produces -/
theorem schedule_independent {α : Type} (tasks : List (List (α → α))) (cells : List α) (sched : List Nat)
    (hdone : ∀ s ∈ run (start tasks cells) sched, s.rem = []) :
    (run (start tasks cells) sched).map (·.val) = sequential tasks cells :=
  Par.schedule_independent tasks cells sched hdone

/-- any two complete schedules agree (bit-identical results for every thread count; exact reproducibility) -/
theorem schedules_agree {α : Type} (tasks : List (List (α → α))) (cells : List α) (s1 s2 : List Nat)
    (h1 : ∀ s ∈ run (start tasks cells) s1, s.rem = []) (h2 : ∀ s ∈ run (start tasks cells) s2, s.rem = []) :
    (run (start tasks cells) s1).map (·.val) = (run (start tasks cells) s2).map (·.val) :=
  Par.schedules_agree tasks cells s1 s2 h1 h2

theorem complete_schedule_exists {α : Type} (tasks : List (List (α → α))) (cells : List α) (hlen : tasks.length = cells.length) :
    ∃ sched, ∀ s ∈ run (start tasks cells) sched, s.rem = [] :=
  Par.complete_schedule_exists tasks cells hlen

/-- the parallel loops of `solver::run_iteration` consist of exactly one method call on `cell_lst_[i]` -/
theorem loops_write_own_cell : ∀ l ∈ Gen.parLoops, l.2.1 = true := by decide

/-- dividing several cells in the same round: no cell lost or duplicated, whatever the order of the critical sections -/
theorem division_count {β : Type} (pop : Pop β) (outcome : β → Option (β × β)) (order : List Nat) (m : Nat)
    (hord : order.Perm (dividing pop outcome)) :
    (divisionRound pop outcome order m).1.length = pop.length - (dividing pop outcome).length + 2 * (dividing pop outcome).length :=
  Par.divisionRound_length pop outcome order m hord

/-- … and the same cells as dividing them one after another (`o2` = the sequential order), up to their order in the list -/
theorem division_same_cells {β : Type} (pop : Pop β) (outcome : β → Option (β × β)) (o1 o2 : List Nat) (m : Nat)
    (h1 : o1.Perm (dividing pop outcome)) (h2 : o2.Perm (dividing pop outcome)) :
    ((divisionRound pop outcome o1 m).1.map (·.2)).Perm ((divisionRound pop outcome o2 m).1.map (·.2)) :=
  Par.divisionRound_payload_perm pop outcome o1 o2 m h1 h2

/-- … and no duplicate id -/
theorem division_ids_unique {β : Type} (pop : Pop β) (outcome : β → Option (β × β)) (order : List Nat) (m : Nat)
    (hord : order.Perm (dividing pop outcome)) (hnd : (pop.map (·.1)).Nodup) (hlt : ∀ p ∈ pop, p.1 < m) :
    ((divisionRound pop outcome order m).1.map (·.1)).Nodup ∧
    (∀ p ∈ (divisionRound pop outcome order m).1, p.1 < (divisionRound pop outcome order m).2) :=
  Par.divisionRound_ids pop outcome order m hord hnd hlt

/-- `cell_divider::run` has the modelled shape: the cell list is never resized inside the parallel loop (it is never
    read while another thread resizes it), ids are taken only inside the critical section, daughters appended after the loop -/
theorem divider_shape : Gen.dividerResizesListInLoop = false ∧ Gen.dividerIdsOnlyInCritical = true ∧ Gen.dividerAppendsAfterLoop = true := by
  decide

/-- an exception thrown by some task reaches the caller as one of the thrown exceptions -/
theorem exception_delivered {ε : Type} (results : List (Except ε Unit)) (order : List Nat) (hord : order.Perm (failing results))
    (hne : failing results ≠ []) :
    ∃ i ∈ failing results, ∃ e, results[i]? = some (.error e) ∧ (handler results order).2 = .error e :=
  Par.handler_delivers results order hord hne

/-- … after all tasks have been run -/
theorem exception_all_tasks_run {ε : Type} (results : List (Except ε Unit)) (order : List Nat) :
    (handler results order).1 = results.length := Par.handler_runs_all results order

theorem no_exception_iff {ε : Type} (results : List (Except ε Unit)) (order : List Nat) (hord : order.Perm (failing results)) :
    (handler results order).2 = .ok () ↔ failing results = [] := Par.handler_ok_iff results order hord

/-- `parallel_exception_handler` has the modelled shape -/
theorem handler_shape : Gen.handlerCatchesAll = true ∧ Gen.handlerStoresInCritical = true ∧ Gen.handlerRethrowsAfterLoop = true := by
  decide

/-- the surface-sampling loop does not share a random engine among its threads -/
theorem sampling_rng_private : Gen.samplingSharesRngAcrossThreads = false := by decide

end Simu.C15
