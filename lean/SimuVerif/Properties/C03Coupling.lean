import SimuVerif.Properties.C03Base
import SimuVerif.Lemmas.CouplingPass
/-
  C03 (addition) — where the hypothesis `Mutual topo` of the pair theorems of Properties/C03 comes from in the
  default build (CONTACT_MODEL_INDEX 1): the tail of `contact_node_node_via_coupling::resolve_all_contacts`, i.e.
  the two sequential in-place loops (A) symmetrisation and (B) midpoints that follow the parallel contact search
  (model: `Simu.Coupling.symmetrise / midpoints / pass`, Model/CouplingPass.lean, tied to the real code by the
  correspondence run of tools/props/c03_coupling.py).

  Everything in the first section holds for EVERY population (any number of cells and slots, any coupling table) and
  for ANY scalar type that has the operations (no algebraic law is used: the statements are also true of `Float`, in
  particular the two nodes of a pair end at the SAME value, bit for bit).
-/
set_option linter.unusedSectionVars false
set_option linter.unusedVariables false
namespace Simu.C03
open Simu Simu.Coupling

section pass
variable {R : Type} [Add R] [Sub R] [Mul R] [Div R] [Neg R] [Lit R]

/-! ## loop (A): symmetrisation -/

/-- loop (A) has a defined result exactly when every coupling of a USED node names an existing slot (otherwise
    the C++ reads out of bounds) -/
theorem symmetrise_defined_iff (p : Pop R) : (∃ p', symmetrise p = some p') ↔ RangeOK p := by
  constructor
  · rintro ⟨p', h⟩; exact (symmetrise_pointwise p p' h).1
  · exact symmetrise_defined p

/-- POINTWISE CHARACTERISATION: the in-place sequential fold equals the pointwise map computed from the ORIGINAL
    table: slot `k` keeps its node, except that a used coupled node whose partner — in the original table — does
    not name `k` back loses its coupling (`symNode`).  In-place resets never change the outcome of later tests. -/
theorem symmetrise_spec (p p' : Pop R) (h : symmetrise p = some p') :
    shape p' = shape p ∧ ∀ k : Slot, Coupling.get p' k = (Coupling.get p k).map (symNode p k) :=
  (symmetrise_pointwise p p' h).2

/-- after loop (A) the coupling of every used node is answered -/
theorem symmetrise_mutual (p p' : Pop R) (h : symmetrise p = some p') (k j : Slot) (n : CNode R)
    (hk : Coupling.get p' k = some n) (hu : n.used = true) (hc : n.coup = some j) :
    ∃ m : CNode R, Coupling.get p' j = some m ∧ m.coup = some k := by
  obtain ⟨hr, _, hpt⟩ := symmetrise_pointwise p p' h
  rw [hpt k] at hk
  cases hpk : Coupling.get p k with
  | none => rw [hpk] at hk; cases hk
  | some n0 =>
    rw [hpk, Option.map_some, Option.some.injEq] at hk
    have hu0 : n0.used = true := by rw [← symNode_used p k n0, hk]; exact hu
    have hc0 : n0.coup = some j := by
      rcases symNode_coup p k n0 with e | e
      · rw [← e, hk]; exact hc
      · rw [hk, hc] at e; cases e
    have hj := hr k n0 j hpk hu0 hc0
    cases hpj : Coupling.get p j with
    | none => rw [hpj] at hj; cases hj
    | some m0 =>
      have hback : m0.coup = some k := by
        by_cases hb : m0.coup = some k
        · exact hb
        · rw [symNode_coupled p k j n0 m0 hu0 hc0 hpj, if_neg hb] at hk
          rw [← hk] at hc; cases hc
      refine ⟨symNode p j m0, ?_, (symNode_coup_iff p k j n0 m0 hpk hc0).mpr hback⟩
      rw [hpt j, hpj]; rfl

/-- a pair that is mutual before loop (A) is kept as it is -/
theorem symmetrise_keeps_mutual (p p' : Pop R) (h : symmetrise p = some p') (k j : Slot) (n m : CNode R)
    (hk : Coupling.get p k = some n) (hc : n.coup = some j) (hj : Coupling.get p j = some m) (hb : m.coup = some k) :
    Coupling.get p' k = some n ∧ Coupling.get p' j = some m := by
  obtain ⟨_, _, hpt⟩ := symmetrise_pointwise p p' h
  have key : ∀ (k j : Slot) (n m : CNode R), Coupling.get p k = some n → n.coup = some j → Coupling.get p j = some m → m.coup = some k →
      Coupling.get p' k = some n := by
    intro k j n m hk hc hj hb
    rw [hpt k, hk, Option.map_some]
    cases hu : n.used with
    | false => rw [symNode_unused p k n hu]
    | true => rw [symNode_coupled p k j n m hu hc hj, if_pos hb]
  exact ⟨key k j n m hk hc hj hb, key j k m n hj hb hk hc⟩

/-- every visit of loop (A) is a no-op on a table in which the couplings of the used nodes are answered -/
theorem symStep_fix (q : Pop R)
    (hm : ∀ (k j : Slot) (n : CNode R), Coupling.get q k = some n → n.used = true → n.coup = some j →
      ∃ m : CNode R, Coupling.get q j = some m ∧ m.coup = some k) (k : Slot) : symStep q k = some q := by
  cases hk : Coupling.get q k with
  | none => exact symStep_none q k hk
  | some n =>
    cases hu : n.used with
    | false => exact symStep_unused q k n hk hu
    | true =>
      cases hc : n.coup with
      | none => exact symStep_uncoupled q k n hk hc
      | some j =>
        obtain ⟨m, hj, hb⟩ := hm k j n hk hu hc
        exact symStep_keep q k j n m hk hu hc hj hb

/-- loop (A) is idempotent -/
theorem symmetrise_idempotent (p p' : Pop R) (h : symmetrise p = some p') : symmetrise p' = some p' := by
  have hfix := symStep_fix p' (fun k j n => symmetrise_mutual p p' h k j n)
  have : ∀ sched : List Slot, sched.foldlM symStep p' = some p' := by
    intro sched
    induction sched with
    | nil => rfl
    | cons k rest ih => rw [List.foldlM_cons, hfix k]; exact ih
  exact this _

/-- loop (A) changes nothing but couplings: the shape, the used flags and the positions are those of the input, and
    a coupling is either kept or removed -/
theorem symmetrise_frame (p p' : Pop R) (h : symmetrise p = some p') :
    shape p' = shape p ∧
    ∀ k : Slot, match Coupling.get p k, Coupling.get p' k with
      | some n, some n' => n'.used = n.used ∧ n'.pos = n.pos ∧ (n'.coup = n.coup ∨ n'.coup = none)
      | none, none => True
      | _, _ => False := by
  obtain ⟨_, hs, hpt⟩ := symmetrise_pointwise p p' h
  refine ⟨hs, fun k => ?_⟩
  rw [hpt k]
  cases Coupling.get p k with
  | none => trivial
  | some n => exact ⟨symNode_used p k n, symNode_pos p k n, symNode_coup p k n⟩

/-! ## loop (B): midpoints -/

/-- POINTWISE CHARACTERISATION of loop (B) on a table whose used couplings are answered by used nodes of other cells
    (`PairOK`): it is defined, keeps the shape, and slot `k` ends with `midNode p k`: both members of a pair at
    `(owner.pos + partner.pos) * 0.5` (owner = the member in the cell with the greater index; operand order of the
    code), every other node unchanged; flags and couplings unchanged -/
theorem midpoints_spec (p : Pop R) (hp : PairOK p) :
    ∃ p', midpoints p = some p' ∧ shape p' = shape p ∧ ∀ k : Slot, Coupling.get p' k = (Coupling.get p k).map (midNode p k) :=
  midpoints_pointwise p hp

/-- explicit form for a pair: `k` (greater cell index) and its partner `j` both end at `(pos k + pos j) * 0.5`,
    everything else of the two nodes unchanged -/
theorem midpoints_pair (p p' : Pop R) (hp : PairOK p) (h : midpoints p = some p') (k j : Slot) (n m : CNode R)
    (hk : Coupling.get p k = some n) (hu : n.used = true) (hc : n.coup = some j) (hlt : j.1 < k.1) (hj : Coupling.get p j = some m) :
    Coupling.get p' k = some { n with pos := (n.pos + m.pos) * (half : R) } ∧
    Coupling.get p' j = some { m with pos := (n.pos + m.pos) * (half : R) } := by
  obtain ⟨p'', h', _, hpt⟩ := midpoints_pointwise p hp
  rw [h] at h'; cases h'
  obtain ⟨m', hm', hmu, hmc, _⟩ := hp k n j hk hu hc
  rw [hj] at hm'; cases hm'
  have hnlt : ¬ k.1 < j.1 := Nat.lt_asymm hlt
  constructor
  · rw [hpt k, hk, Option.map_some]; unfold midNode; simp [hu, hc, hj, hlt]
  · rw [hpt j, hj, Option.map_some]; unfold midNode; simp [hmu, hmc, hk, hlt, hnlt]

/-- explicit form for the rest: unused slots and uncoupled nodes are not touched -/
theorem midpoints_other (p p' : Pop R) (hp : PairOK p) (h : midpoints p = some p') (k : Slot) (n : CNode R)
    (hk : Coupling.get p k = some n) (hn : n.used = false ∨ n.coup = none) : Coupling.get p' k = some n := by
  obtain ⟨p'', h', _, hpt⟩ := midpoints_pointwise p hp
  rw [h] at h'; cases h'
  rw [hpt k, hk, Option.map_some]
  unfold midNode
  rcases hn with hn | hn <;> simp [hn]

/-- loop (B) never changes a used flag or a coupling (no hypothesis on the table) -/
theorem midpoints_keeps_table (p p' : Pop R) (h : midpoints p = some p') :
    shape p' = shape p ∧ ∀ s : Slot, (Coupling.get p' s).map tbl = (Coupling.get p s).map tbl :=
  midpoints_table p p' h

/-! ## the whole tail: (A) then (B) -/

/-- what the contact search guarantees about the table it hands to the two loops: a coupling of a used node names an
    existing USED slot of ANOTHER cell (`resolve_contact` is called with `c1->get_id() != c2->get_id()` only and
    couples `n1` with a node of a used face of `c2`).  Nothing is assumed about symmetry. -/
def SearchOK (p : Pop R) : Prop :=
  ∀ (k : Slot) (n : CNode R) (j : Slot), Coupling.get p k = some n → n.used = true → n.coup = some j →
    ∃ m : CNode R, Coupling.get p j = some m ∧ m.used = true ∧ j.1 ≠ k.1

theorem rangeOK_of_searchOK (p : Pop R) (h : SearchOK p) : RangeOK p := by
  intro k n j hk hu hc
  obtain ⟨m, hm, _⟩ := h k n j hk hu hc
  rw [hm]; rfl

/-- after loop (A) the table is what loop (B) is specified for -/
theorem pairOK_of_symmetrise (p p' : Pop R) (h : symmetrise p = some p') (hs : SearchOK p) : PairOK p' := by
  intro k n j hk hu hc
  obtain ⟨m, hm, hmc⟩ := symmetrise_mutual p p' h k j n hk hu hc
  obtain ⟨_, _, hpt⟩ := symmetrise_pointwise p p' h
  -- back to the original table
  have hk' := hk
  rw [hpt k] at hk'
  cases hpk : Coupling.get p k with
  | none => rw [hpk] at hk'; cases hk'
  | some n0 =>
    rw [hpk, Option.map_some, Option.some.injEq] at hk'
    have hu0 : n0.used = true := by rw [← symNode_used p k n0, hk']; exact hu
    have hc0 : n0.coup = some j := by
      rcases symNode_coup p k n0 with e | e
      · rw [← e, hk']; exact hc
      · rw [hk', hc] at e; cases e
    obtain ⟨m0, hm0, hmu0, hne⟩ := hs k n0 j hpk hu0 hc0
    have hm' := hm
    rw [hpt j, hm0, Option.map_some, Option.some.injEq] at hm'
    refine ⟨m, hm, ?_, hmc, hne⟩
    rw [← hm', symNode_used]; exact hmu0

/-- the tail of `resolve_all_contacts` is defined on every table the search can produce -/
theorem pass_defined (p : Pop R) (hs : SearchOK p) :
    ∃ p1 p2, symmetrise p = some p1 ∧ midpoints p1 = some p2 ∧ pass p = some p2 := by
  obtain ⟨p1, h1⟩ := symmetrise_defined p (rangeOK_of_searchOK p hs)
  obtain ⟨p2, h2, _⟩ := midpoints_pointwise p1 (pairOK_of_symmetrise p p1 h1 hs)
  exact ⟨p1, p2, h1, h2, by unfold pass; rw [h1]; exact h2⟩

/-- AFTER THE WHOLE PASS the coupling of every used node is answered by a used node, and the two nodes of the pair
    have EQUAL positions (the same value of the scalar type: bit-identical at `Float`) -/
theorem pair_coincide (p p2 : Pop R) (hs : SearchOK p) (h : pass p = some p2) (k j : Slot) (n : CNode R)
    (hk : Coupling.get p2 k = some n) (hu : n.used = true) (hc : n.coup = some j) :
    ∃ m : CNode R, Coupling.get p2 j = some m ∧ m.used = true ∧ m.coup = some k ∧ m.pos = n.pos := by
  unfold pass at h
  cases h1 : symmetrise p with
  | none => rw [h1] at h; cases h
  | some p1 =>
    rw [h1] at h
    have hp1 := pairOK_of_symmetrise p p1 h1 hs
    obtain ⟨p2', h2, _, hpt⟩ := midpoints_pointwise p1 hp1
    have : p2' = p2 := by
      have : midpoints p1 = some p2 := h
      rw [h2] at this; exact Option.some.inj this
    subst this
    rw [hpt k] at hk
    cases hk1 : Coupling.get p1 k with
    | none => rw [hk1] at hk; cases hk
    | some n1 =>
      rw [hk1, Option.map_some, Option.some.injEq] at hk
      have hu1 : n1.used = true := by rw [← midNode_used p1 k n1, hk]; exact hu
      have hc1 : n1.coup = some j := by rw [← midNode_coup p1 k n1, hk]; exact hc
      obtain ⟨m1, hm1, hmu, hmc, hne⟩ := hp1 k n1 j hk1 hu1 hc1
      refine ⟨midNode p1 j m1, by rw [hpt j, hm1]; rfl, (midNode_used p1 j m1).trans hmu,
        (midNode_coup p1 j m1).trans hmc, ?_⟩
      rw [← hk]
      rcases Nat.lt_or_gt_of_ne hne with hlt | hgt
      · have hn : ¬ k.1 < j.1 := Nat.lt_asymm hlt
        unfold midNode
        simp [hu1, hc1, hm1, hmu, hmc, hk1, hlt, hn]
      · have hn : ¬ j.1 < k.1 := Nat.lt_asymm hgt
        unfold midNode
        simp [hu1, hc1, hm1, hmu, hmc, hk1, hgt, hn]

/-- the pass leaves the couplings loop (A) computed, and only positions of paired nodes differ from the input -/
theorem pass_table (p p2 : Pop R) (h : pass p = some p2) :
    ∃ p1, symmetrise p = some p1 ∧ shape p2 = shape p ∧ ∀ s : Slot, (Coupling.get p2 s).map tbl = (Coupling.get p1 s).map tbl := by
  unfold pass at h
  cases h1 : symmetrise p with
  | none => rw [h1] at h; cases h
  | some p1 =>
    rw [h1] at h
    have h2 : midpoints p1 = some p2 := h
    obtain ⟨a, b⟩ := midpoints_table p1 p2 h2
    exact ⟨p1, rfl, a.trans (symmetrise_pointwise p p1 h1).2.1, b⟩

end pass

/-! ## bridge to the immutable topology of the position update -/
section bridge
variable {R : Type} [Field R] [LinearOrder R] [IsStrictOrderedRing R]

/-- what `update_nodes_positions` reads of a node as immutable data -/
def toNodeT (n : CNode R) : Integ.NodeT := ⟨n.used, n.coup.toList⟩

/-- the topology of the position update: the cells `cs` (local id, type, density, volume) with the used flags and
    couplings of the table `p` -/
def withTable (cs : List (Integ.CellT R)) (p : Pop R) : List (Integ.CellT R) :=
  List.zipWith (fun c l => { c with nodes := l.map toNodeT }) cs p

/-- unused slots carry no coupling (`node::reset()`, called by `cell::delete_node`, clears `coupled_node_`) -/
def NoStale (p : Pop R) : Prop := ∀ (k : Slot) (n : CNode R), Coupling.get p k = some n → n.used = false → n.coup = none

theorem withTable_get (cs : List (Integ.CellT R)) (p : Pop R) (k : Slot) (c : Integ.CellT R) (nt : Integ.NodeT)
    (hc : (withTable cs p)[k.1]? = some c) (hn : c.nodes[k.2]? = some nt) :
    ∃ (c0 : Integ.CellT R) (n : CNode R), cs[k.1]? = some c0 ∧ Coupling.get p k = some n ∧ nt = toNodeT n ∧ c.localId = c0.localId := by
  unfold withTable at hc
  rw [List.getElem?_zipWith] at hc
  cases h1 : cs[k.1]? with
  | none => simp [h1] at hc
  | some c0 =>
    cases h2 : p[k.1]? with
    | none => simp [h1, h2] at hc
    | some l =>
      simp only [h1, h2, Option.some.injEq] at hc
      subst hc
      simp only [List.getElem?_map] at hn
      cases h3 : l[k.2]? with
      | none => simp [h3] at hn
      | some n =>
        simp only [h3, Option.map_some, Option.some.injEq] at hn
        exact ⟨c0, n, rfl, by unfold Coupling.get; simp [h2, h3], hn.symm, rfl⟩

theorem withTable_of_get (cs : List (Integ.CellT R)) (p : Pop R) (hlen : p.length ≤ cs.length) (k : Slot) (n : CNode R)
    (hk : Coupling.get p k = some n) :
    ∃ c : Integ.CellT R, (withTable cs p)[k.1]? = some c ∧ c.nodes[k.2]? = some (toNodeT n) := by
  unfold Coupling.get at hk
  cases h2 : p[k.1]? with
  | none => simp [h2] at hk
  | some l =>
    simp only [h2] at hk
    have hlt : k.1 < p.length := by
      rcases Nat.lt_or_ge k.1 p.length with h | h
      · exact h
      · rw [List.getElem?_eq_none h] at h2; cases h2
    have hlt' : k.1 < cs.length := Nat.lt_of_lt_of_le hlt hlen
    refine ⟨{ cs[k.1] with nodes := l.map toNodeT }, ?_, ?_⟩
    · unfold withTable
      rw [List.getElem?_zipWith, List.getElem?_eq_getElem hlt', h2]
    · simp only [List.getElem?_map, hk, Option.map_some]

/-- a table in which EVERY coupling is answered gives a symmetric matching -/
theorem mutual_of_table (cs : List (Integ.CellT R)) (p : Pop R) (hlen : p.length ≤ cs.length)
    (hm : ∀ (k j : Slot) (n : CNode R), Coupling.get p k = some n → n.coup = some j → ∃ m : CNode R, Coupling.get p j = some m ∧ m.coup = some k) :
    Mutual (withTable cs p) := by
  intro k c nt hc hn e he
  obtain ⟨c0, n, _, hk, rfl, _⟩ := withTable_get cs p k c nt hc hn
  have hce : n.coup = some e := by
    unfold toNodeT at he
    cases hx : n.coup with
    | none => rw [hx] at he; cases he
    | some j => rw [hx] at he; simp at he; rw [he]
  obtain ⟨m, hj, hb⟩ := hm k e n hk hce
  obtain ⟨c2, h1, h2⟩ := withTable_of_get cs p hlen e m hj
  refine ⟨c2, toNodeT m, h1, h2, ?_⟩
  unfold toNodeT; simp [hb]

/-- BRIDGE: the table the real contact phase leaves (the result of the pass), read as the immutable topology of the
    position update, is a symmetric matching — `Mutual`, the hypothesis of `pairTopo_of_mutual` and of the pair
    theorems.  Side conditions: unused slots of the INPUT carry no coupling (`NoStale`), and there is a cell record
    for every cell of the table; `pass p = some p2` says that the couplings of used nodes were in range.
    (`IdsAreIndices`, the other hypothesis of `pairTopo_of_mutual`, concerns the cell records only: `ids_withTable`.) -/
theorem mutual_of_pass (cs : List (Integ.CellT R)) (p p2 : Pop R) (h : pass p = some p2) (hst : NoStale p)
    (hlen : p.length ≤ cs.length) : Mutual (withTable cs p2) := by
  obtain ⟨p1, h1, hsh, htb⟩ := pass_table p p2 h
  obtain ⟨_, _, hpt⟩ := symmetrise_pointwise p p1 h1
  have hlen2 : p2.length ≤ cs.length := by rw [length_of_shape hsh]; exact hlen
  apply mutual_of_table cs p2 hlen2
  intro k j n hk hc
  -- the node of p1 at k has the same flags and coupling
  have e1 := htb k
  rw [hk] at e1
  cases hk1 : Coupling.get p1 k with
  | none => rw [hk1] at e1; cases e1
  | some n1 =>
    rw [hk1] at e1
    simp only [Option.map_some, Option.some.injEq, tbl, Prod.mk.injEq] at e1
    obtain ⟨eu, ec⟩ := e1
    have hc1 : n1.coup = some j := by rw [← ec]; exact hc
    have hu1 : n1.used = true := by
      cases hx : n1.used with
      | true => rfl
      | false =>
        -- an unused slot is left alone by loop (A) and carried no coupling
        have hk1' := hk1
        rw [hpt k] at hk1'
        cases hpk : Coupling.get p k with
        | none => rw [hpk] at hk1'; cases hk1'
        | some n0 =>
          rw [hpk, Option.map_some, Option.some.injEq] at hk1'
          have hu0 : n0.used = false := by rw [← symNode_used p k n0, hk1']; exact hx
          rw [symNode_unused p k n0 hu0] at hk1'
          have := hst k n0 hpk hu0
          rw [hk1', hc1] at this; cases this
    obtain ⟨m1, hm1, hb1⟩ := symmetrise_mutual p p1 h1 k j n1 hk1 hu1 hc1
    have e2 := htb j
    rw [hm1] at e2
    cases hj2 : Coupling.get p2 j with
    | none => rw [hj2] at e2; cases e2
    | some m =>
      rw [hj2] at e2
      simp only [Option.map_some, Option.some.injEq, tbl, Prod.mk.injEq] at e2
      exact ⟨m, rfl, e2.2.trans hb1⟩

/-- the cell records keep their local ids -/
theorem ids_withTable (cs : List (Integ.CellT R)) (p : Pop R) (h : IdsAreIndices cs) : IdsAreIndices (withTable cs p) := by
  intro i c hc
  unfold withTable at hc
  rw [List.getElem?_zipWith] at hc
  cases h1 : cs[i]? with
  | none => simp [h1] at hc
  | some c0 =>
    cases h2 : p[i]? with
    | none => simp [h1, h2] at hc
    | some l =>
      simp only [h1, h2, Option.some.injEq] at hc
      subst hc
      exact h i c0 h1

/-- so `pairTopo_of_mutual` applies to the states the real contact phase produces: after the pass, the member of a
    coupled pair that lives in the cell with the greater index owns the pair, and no other visit of the position
    update writes the two slots -/
theorem pairTopo_of_pass (cs : List (Integ.CellT R)) (p p2 : Pop R) (h : pass p = some p2) (hst : NoStale p)
    (hlen : p.length ≤ cs.length) (hid : IdsAreIndices cs) (k j : Slot) (ca cc : Integ.CellT R) (nt : Integ.NodeT)
    (hca : (withTable cs p2)[k.1]? = some ca) (hcc : (withTable cs p2)[j.1]? = some cc) (hns : ca.isStatic = false)
    (hn : ca.nodes[k.2]? = some nt) (hu : nt.used = true) (hcp : nt.coup = [j]) (hlt : j.1 < k.1) :
    PairTopo .nodeNode (withTable cs p2) k j ca cc ∧ Gen.owns1 ca.localId j.1 = true :=
  let r := pairTopo_of_mutual .nodeNode (withTable cs p2) k j ca cc nt (mutual_of_pass cs p p2 h hst hlen)
    (ids_withTable cs p2 hid) (by decide) hca hcc hns hn hu hcp hlt
  ⟨r.1, r.2.1⟩

end bridge

/-! ## non-vacuity: a table over ℚ with a one-sided chain a → b ↔ c, a mutual pair, an unused and an uncoupled slot -/
section nonvacuous

/-- a = (0,1) names b = (1,0); b ↔ c = (0,0); (1,1) ↔ (2,0); (0,2) unused; (1,2) uncoupled -/
def exPop : Pop ℚ := [
  [⟨true, some (1, 0), ⟨0, 0, 0⟩⟩, ⟨true, some (1, 0), ⟨1, 0, 0⟩⟩, ⟨false, none, ⟨9, 9, 9⟩⟩],
  [⟨true, some (0, 0), ⟨0, 0, 1⟩⟩, ⟨true, some (2, 0), ⟨2, 0, 0⟩⟩, ⟨true, none, ⟨3, 0, 0⟩⟩],
  [⟨true, some (1, 1), ⟨2, 2, 0⟩⟩] ]

/-- loop (A) on it: a loses its coupling, the two mutual pairs are kept -/
example : (symmetrise exPop).map (fun p => p.map (fun l => l.map (fun n => n.coup)))
    = some [[some (1, 0), none, none], [some (0, 0), some (2, 0), none], [some (1, 1)]] := by decide

theorem exSearchOK : SearchOK exPop := by
  intro k n j hk hu hc
  obtain ⟨a, b⟩ := k
  rcases a with _ | _ | _ | a
  · rcases b with _ | _ | _ | b <;> simp [Coupling.get, exPop] at hk <;> subst hk <;> simp at hu hc <;> subst hc <;>
      exact ⟨_, rfl, rfl, by decide⟩
  · rcases b with _ | _ | _ | b <;> simp [Coupling.get, exPop] at hk <;> subst hk <;> simp at hu hc <;> subst hc <;>
      exact ⟨_, rfl, rfl, by decide⟩
  · rcases b with _ | b <;> simp [Coupling.get, exPop] at hk <;> subst hk <;> simp at hu hc <;> subst hc <;>
      exact ⟨_, rfl, rfl, by decide⟩
  · simp [Coupling.get, exPop] at hk

theorem exNoStale : NoStale exPop := by
  intro k n hk hu
  obtain ⟨a, b⟩ := k
  rcases a with _ | _ | _ | a
  · rcases b with _ | _ | _ | b <;> simp [Coupling.get, exPop] at hk <;> subst hk <;> simp at hu ⊢
  · rcases b with _ | _ | _ | b <;> simp [Coupling.get, exPop] at hk <;> subst hk <;> simp at hu ⊢
  · rcases b with _ | b <;> simp [Coupling.get, exPop] at hk <;> subst hk <;> simp at hu ⊢
  · simp [Coupling.get, exPop] at hk

/-- the pass is defined on the example, both pairs end at their exact midpoints, a is left alone, uncoupled -/
example : ∃ p2, pass exPop = some p2 ∧
    Coupling.get p2 (1, 0) = some ⟨true, some (0, 0), ⟨0, 0, 1 / 2⟩⟩ ∧ Coupling.get p2 (0, 0) = some ⟨true, some (1, 0), ⟨0, 0, 1 / 2⟩⟩ ∧
    Coupling.get p2 (2, 0) = some ⟨true, some (1, 1), ⟨2, 1, 0⟩⟩ ∧ Coupling.get p2 (1, 1) = some ⟨true, some (2, 0), ⟨2, 1, 0⟩⟩ ∧
    Coupling.get p2 (0, 1) = some ⟨true, none, ⟨1, 0, 0⟩⟩ := by
  obtain ⟨p1, p2, h1, h2, h⟩ := pass_defined exPop exSearchOK
  have hp1 := pairOK_of_symmetrise exPop p1 h1 exSearchOK
  obtain ⟨_, hpt⟩ := symmetrise_spec exPop p1 h1
  have k10 : Coupling.get p1 (1, 0) = some ⟨true, some (0, 0), ⟨0, 0, 1⟩⟩ := by rw [hpt]; simp [Coupling.get, exPop, symNode]
  have k00 : Coupling.get p1 (0, 0) = some ⟨true, some (1, 0), ⟨0, 0, 0⟩⟩ := by rw [hpt]; simp [Coupling.get, exPop, symNode]
  have k20 : Coupling.get p1 (2, 0) = some ⟨true, some (1, 1), ⟨2, 2, 0⟩⟩ := by rw [hpt]; simp [Coupling.get, exPop, symNode]
  have k11 : Coupling.get p1 (1, 1) = some ⟨true, some (2, 0), ⟨2, 0, 0⟩⟩ := by rw [hpt]; simp [Coupling.get, exPop, symNode]
  have k01 : Coupling.get p1 (0, 1) = some ⟨true, none, ⟨1, 0, 0⟩⟩ := by rw [hpt]; simp [Coupling.get, exPop, symNode]
  obtain ⟨a1, a2⟩ := midpoints_pair p1 p2 hp1 h2 (1, 0) (0, 0) _ _ k10 rfl rfl (by decide) k00
  obtain ⟨b1, b2⟩ := midpoints_pair p1 p2 hp1 h2 (2, 0) (1, 1) _ _ k20 rfl rfl (by decide) k11
  have c1 := midpoints_other p1 p2 hp1 h2 (0, 1) _ k01 (Or.inr rfl)
  refine ⟨p2, h, ?_, ?_, ?_, ?_, c1⟩
  · rw [a1]; simp [half]; apply V3.ext' <;> norm_num
  · rw [a2]; simp [half]; apply V3.ext' <;> norm_num
  · rw [b1]; simp [half]; apply V3.ext' <;> norm_num
  · rw [b2]; simp [half]; apply V3.ext' <;> norm_num

/-- the hypotheses of the bridge are satisfiable: the example's result is a symmetric matching -/
example (cs : List (Integ.CellT ℚ)) (hlen : 3 ≤ cs.length) : ∀ p2, pass exPop = some p2 → Mutual (withTable cs p2) :=
  fun p2 h => mutual_of_pass cs exPop p2 h exNoStale hlen

/-- the two members of the pair b ↔ c coincide after the pass (instance of `pair_coincide`) -/
example : ∀ p2, pass exPop = some p2 → ∀ n, Coupling.get p2 (1, 0) = some n → n.used = true → n.coup = some (0, 0) →
    ∃ m, Coupling.get p2 (0, 0) = some m ∧ m.used = true ∧ m.coup = some (1, 0) ∧ m.pos = n.pos :=
  fun p2 h n hk hu hc => pair_coincide exPop p2 exSearchOK h (1, 0) (0, 0) n hk hu hc

end nonvacuous

end Simu.C03
