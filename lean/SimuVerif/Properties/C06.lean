import SimuVerif.Lemmas.BroadPhaseGeom
import SimuVerif.Lemmas.BroadPhaseList
import Mathlib.Tactic.NormNum
import Mathlib.Data.Rat.Floor
/-
  C06 — contact detection finds every node–face pair within the interaction range.

  `Gen/BroadPhase.lean` is regenerated on every run from `contact_model_abstract.cpp` (padding, padded face boxes,
  global box, voxel range of a face, `aabb_intersection_check`), `uspg_4d.hpp` / `uspg_abstract.hpp` (grid dimensions,
  flattening) and the three resolve loops (voxel of a node, same-cell test); `Model/BroadPhase.lean` holds the loops
  as folds.  The theorems are statements about that text in exact arithmetic over an arbitrary ordered field with a
  floor function, for every list of faces (any number of cells, any placement, overlaps included), every positive
  padding / voxel size and every value standing for `infinity()` in the initialisation of the global box.
-/
set_option linter.unusedSectionVars false
set_option linter.unusedVariables false
namespace Simu.C06
open Simu Simu.Gen Simu.BP
variable {R : Type} [Field R] [LinearOrder R] [IsStrictOrderedRing R] [FloorRing R]

/-- `p` is within distance `r` of the (closed) triangle of `f`: some convex combination of the corners is that near -/
def Within (r : R) (p : V3 R) (f : BFace R) : Prop :=
  ∃ w : V3 R, 0 ≤ w.x ∧ 0 ≤ w.y ∧ 0 ≤ w.z ∧ w.x + w.y + w.z = 1 ∧ V3.normSq (p - baryPt w f.a f.b f.c) ≤ r * r

/-- standing assumptions: `fn.floor` is the floor, the grid padding `δ` is not negative, padding and voxel size are
    positive (the parameter reader rejects cut-offs and edge lengths `≤ 0`) -/
structure Setup (fn : Fn R) (δ pad vs : R) : Prop where
  floor_eq : ∀ x, fn.floor x = ⌊x⌋
  δ_nonneg : 0 ≤ δ
  pad_pos : 0 < pad
  vs_pos : 0 < vs

/-- `p` lies in the box of some face before padding — true of every node in use, which is a corner of a face -/
def InHull (pad : R) (rs : List (FaceRec R)) (p : V3 R) : Prop :=
  ∃ r ∈ rs, (r.box.lox + pad ≤ p.x ∧ p.x ≤ r.box.hix - pad) ∧ (r.box.loy + pad ≤ p.y ∧ p.y ≤ r.box.hiy - pad) ∧
    (r.box.loz + pad ≤ p.z ∧ p.z ≤ r.box.hiz - pad)

/-! ### padding and boxes -/

/-- the padding is the larger cut-off, the voxel size is positive -/
theorem padding_covers_cutoffs (cadh crep lmin : R) (ha : 0 < cadh) (hr : 0 < crep) (hl : 0 < lmin) :
    cadh ≤ bpPadding cadh crep ∧ crep ≤ bpPadding cadh crep ∧ 0 < bpPadding cadh crep ∧
    0 < bpVoxelSize lmin (bpPadding cadh crep) := by
  unfold bpPadding bpVoxelSize
  have h1 := le_cmax_right crep cadh
  have h2 := le_cmax_left crep cadh
  simp only [lit_three, lit_two]
  refine ⟨h1, h2, lt_of_lt_of_le hr h2, ?_⟩
  have : 0 < cmax crep cadh := lt_of_lt_of_le hr h2
  nlinarith

theorem baryPt_x (w a b c : V3 R) : (baryPt w a b c).x = a.x * w.x + b.x * w.y + c.x * w.z := by simp [baryPt]
theorem baryPt_y (w a b c : V3 R) : (baryPt w a b c).y = a.y * w.x + b.y * w.y + c.y * w.z := by simp [baryPt]
theorem baryPt_z (w a b c : V3 R) : (baryPt w a b c).z = a.z * w.x + b.z * w.y + c.z * w.z := by simp [baryPt]

/-- every point of the triangle lies in the face box shrunk by the padding -/
theorem tri_in_box (pad : R) (a b c w : V3 R) (hx : 0 ≤ w.x) (hy : 0 ≤ w.y) (hz : 0 ≤ w.z) (hs : w.x + w.y + w.z = 1) :
    ((faceBox pad a b c).lox + pad ≤ (baryPt w a b c).x ∧ (baryPt w a b c).x ≤ (faceBox pad a b c).hix - pad) ∧
    ((faceBox pad a b c).loy + pad ≤ (baryPt w a b c).y ∧ (baryPt w a b c).y ≤ (faceBox pad a b c).hiy - pad) ∧
    ((faceBox pad a b c).loz + pad ≤ (baryPt w a b c).z ∧ (baryPt w a b c).z ≤ (faceBox pad a b c).hiz - pad) := by
  rw [baryPt_x, baryPt_y, baryPt_z]
  have X := convex_between a.x b.x c.x w.x w.y w.z (cmin a.x (cmin b.x c.x)) (cmax a.x (cmax b.x c.x)) hx hy hz hs
    (cmin_le_left _ _) (le_trans (cmin_le_right _ _) (cmin_le_left _ _)) (le_trans (cmin_le_right _ _) (cmin_le_right _ _))
    (le_cmax_left _ _) (le_trans (le_cmax_left _ _) (le_cmax_right _ _)) (le_trans (le_cmax_right _ _) (le_cmax_right _ _))
  have Y := convex_between a.y b.y c.y w.x w.y w.z (cmin a.y (cmin b.y c.y)) (cmax a.y (cmax b.y c.y)) hx hy hz hs
    (cmin_le_left _ _) (le_trans (cmin_le_right _ _) (cmin_le_left _ _)) (le_trans (cmin_le_right _ _) (cmin_le_right _ _))
    (le_cmax_left _ _) (le_trans (le_cmax_left _ _) (le_cmax_right _ _)) (le_trans (le_cmax_right _ _) (le_cmax_right _ _))
  have Z := convex_between a.z b.z c.z w.x w.y w.z (cmin a.z (cmin b.z c.z)) (cmax a.z (cmax b.z c.z)) hx hy hz hs
    (cmin_le_left _ _) (le_trans (cmin_le_right _ _) (cmin_le_left _ _)) (le_trans (cmin_le_right _ _) (cmin_le_right _ _))
    (le_cmax_left _ _) (le_trans (le_cmax_left _ _) (le_cmax_right _ _)) (le_trans (le_cmax_right _ _) (le_cmax_right _ _))
  unfold faceBox
  simp only []
  refine ⟨⟨?_, ?_⟩, ⟨?_, ?_⟩, ⟨?_, ?_⟩⟩ <;> linarith [X.1, X.2, Y.1, Y.2, Z.1, Z.2]

/-- **aabb_complete**: a node within `r ≤ padding` of a point of the triangle passes `aabb_intersection_check` -/
theorem aabb_complete (pad r : R) (p : V3 R) (f : BFace R) (hr0 : 0 ≤ r) (hr : r ≤ pad) (h : Within r p f) :
    aabbCheck (faceBox pad f.a f.b f.c) p = true := by
  obtain ⟨w, hx, hy, hz, hs, hd⟩ := h
  have hb := tri_in_box pad f.a f.b f.c w hx hy hz hs
  have hc := comp_le_of_normSq_le (p - baryPt w f.a f.b f.c) r hr0 hd
  simp only [V3.sub_x, V3.sub_y, V3.sub_z] at hc
  rw [aabbCheck_iff]
  refine ⟨⟨?_, ?_⟩, ⟨?_, ?_⟩, ⟨?_, ?_⟩⟩ <;> linarith [hb.1.1, hb.1.2, hb.2.1.1, hb.2.1.2, hb.2.2.1, hb.2.2.2,
    hc.1.1, hc.1.2, hc.2.1.1, hc.2.1.2, hc.2.2.1, hc.2.2.2]

/-- the corners of a face lie in its un-padded box: every node in use is in the hull -/
theorem corner_inHull (pad : R) (fs : List (BFace R)) (f : BFace R) (hf : f ∈ fs) (p : V3 R)
    (hp : p = f.a ∨ p = f.b ∨ p = f.c) : InHull pad (faceRecs pad fs) p := by
  refine ⟨⟨f.cell, faceBox pad f.a f.b f.c⟩, List.mem_map.mpr ⟨f, hf, rfl⟩, ?_⟩
  rcases hp with rfl | rfl | rfl
  · have h := tri_in_box pad f.a f.b f.c ⟨1, 0, 0⟩ (by norm_num) (by norm_num) (by norm_num) (by norm_num)
    simpa [baryPt_x, baryPt_y, baryPt_z] using h
  · have h := tri_in_box pad f.a f.b f.c ⟨0, 1, 0⟩ (by norm_num) (by norm_num) (by norm_num) (by norm_num)
    simpa [baryPt_x, baryPt_y, baryPt_z] using h
  · have h := tri_in_box pad f.a f.b f.c ⟨0, 0, 1⟩ (by norm_num) (by norm_num) (by norm_num) (by norm_num)
    simpa [baryPt_x, baryPt_y, baryPt_z] using h

/-- boxes made by `update_face_aabbs` are at least two paddings wide -/
theorem faceBox_wide (pad : R) (a b c : V3 R) :
    (faceBox pad a b c).lox + 2 * pad ≤ (faceBox pad a b c).hix ∧ (faceBox pad a b c).loy + 2 * pad ≤ (faceBox pad a b c).hiy ∧
    (faceBox pad a b c).loz + 2 * pad ≤ (faceBox pad a b c).hiz := by
  have h := tri_in_box pad a b c ⟨1, 0, 0⟩ (by norm_num) (by norm_num) (by norm_num) (by norm_num)
  refine ⟨?_, ?_, ?_⟩ <;> linarith [h.1.1, h.1.2, h.2.1.1, h.2.1.2, h.2.2.1, h.2.2.2]

/-! ### grid dimensions -/
section grid
variable (fn : Fn R) (δ pad vs inf : R)

theorem dims_eq (rs : List (FaceRec R)) :
    (dims fn δ vs pad inf rs).min_x = (globalBox pad inf rs).lox - δ ∧
    (dims fn δ vs pad inf rs).min_y = (globalBox pad inf rs).loy - δ ∧
    (dims fn δ vs pad inf rs).min_z = (globalBox pad inf rs).loz - δ ∧
    (dims fn δ vs pad inf rs).nx = Int.toNat (cceil fn ((((globalBox pad inf rs).hix + δ) - (globalBox pad inf rs).lox) / vs)) ∧
    (dims fn δ vs pad inf rs).ny = Int.toNat (cceil fn ((((globalBox pad inf rs).hiy + δ) - (globalBox pad inf rs).loy) / vs)) ∧
    (dims fn δ vs pad inf rs).nz = Int.toNat (cceil fn ((((globalBox pad inf rs).hiz + δ) - (globalBox pad inf rs).loz) / vs)) ∧
    (dims fn δ vs pad inf rs).v = vs ∧
    (dims fn δ vs pad inf rs).total = (dims fn δ vs pad inf rs).nx * (dims fn δ vs pad inf rs).ny * (dims fn δ vs pad inf rs).nz :=
  ⟨rfl, rfl, rfl, rfl, rfl, rfl, rfl, rfl⟩

variable {fn δ pad vs inf}

/-- one coordinate of a point of the hull: inside `[origin, upper corner)` of the grid -/
theorem hull_axis (S : Setup fn δ pad vs) (G lo hi x : R) (h1 : G + pad ≤ lo) (h2 : lo + pad ≤ x) (h3 : x ≤ hi - pad) (M : R) (h4 : hi ≤ M) :
    G - δ ≤ x ∧ x < M := by
  have := S.pad_pos; have := S.δ_nonneg
  constructor <;> linarith

/-- **node_voxel_in_range**: the voxel computed for a node in use exists in the grid (the three floors are not
    negative, so the conversions to `unsigned` are defined, and each index is below the voxel count) -/
theorem node_voxel_in_range (S : Setup fn δ pad vs) (rs : List (FaceRec R)) (p : V3 R) (hp : InHull pad rs p) :
    let g := dims fn δ vs pad inf rs
    (0 ≤ fn.floor ((p.x - g.min_x) / g.v) ∧ 0 ≤ fn.floor ((p.y - g.min_y) / g.v) ∧ 0 ≤ fn.floor ((p.z - g.min_z) / g.v)) ∧
    ((nodeVoxel fn g p).1 < g.nx ∧ (nodeVoxel fn g p).2.1 < g.ny ∧ (nodeVoxel fn g p).2.2 < g.nz) ∧
    nodeVoxelId fn g p < g.total := by
  intro g
  obtain ⟨r, hr, hx, hy, hz⟩ := hp
  obtain ⟨-, hlo, hhi⟩ := globalBox_covers pad inf rs r hr
  have ax := hull_axis S _ _ _ _ hlo.1 hx.1 hx.2 _ hhi.1
  have ay := hull_axis S _ _ _ _ hlo.2.1 hy.1 hy.2 _ hhi.2.1
  have az := hull_axis S _ _ _ _ hlo.2.2 hz.1 hz.2 _ hhi.2.2
  have hfl := S.floor_eq
  have e := dims_eq fn δ pad vs inf rs
  have nn : (0 ≤ fn.floor ((p.x - g.min_x) / g.v) ∧ 0 ≤ fn.floor ((p.y - g.min_y) / g.v) ∧ 0 ≤ fn.floor ((p.z - g.min_z) / g.v)) := by
    simp only [g, e.1, e.2.1, e.2.2.1, e.2.2.2.2.2.2.1, hfl]
    exact ⟨axis_nonneg _ _ _ S.vs_pos ax.1, axis_nonneg _ _ _ S.vs_pos ay.1, axis_nonneg _ _ _ S.vs_pos az.1⟩
  have lt : ((nodeVoxel fn g p).1 < g.nx ∧ (nodeVoxel fn g p).2.1 < g.ny ∧ (nodeVoxel fn g p).2.2 < g.nz) := by
    unfold nodeVoxel
    simp only [g, e.1, e.2.1, e.2.2.1, e.2.2.2.1, e.2.2.2.2.1, e.2.2.2.2.2.1, e.2.2.2.2.2.2.1, hfl, cceil_eq fn hfl]
    exact ⟨axis_lt _ _ _ _ _ S.vs_pos ax.1 ax.2, axis_lt _ _ _ _ _ S.vs_pos ay.1 ay.2, axis_lt _ _ _ _ _ S.vs_pos az.1 az.2⟩
  refine ⟨nn, lt, ?_⟩
  unfold nodeVoxelId
  rw [e.2.2.2.2.2.2.2]
  exact flat_lt g _ _ _ lt.1 lt.2.1 lt.2.2

/-- the box of a face made by `update_face_aabbs`, seen from the grid: inside `[origin, upper corner]` -/
theorem face_axis (S : Setup fn δ pad vs) (G lo hi M : R) (h1 : G + pad ≤ lo) (h2 : lo + 2 * pad ≤ hi) (h4 : hi ≤ M) :
    G - δ ≤ lo ∧ lo < M ∧ lo ≤ hi ∧ G < M := by
  have := S.pad_pos; have := S.δ_nonneg
  refine ⟨?_, ?_, ?_, ?_⟩ <;> linarith

/-- at least one voxel on each axis as soon as there is a face -/
theorem nb_pos (S : Setup fn δ pad vs) (fs : List (BFace R)) (f : BFace R) (hf : f ∈ fs) :
    let g := dims fn δ vs pad inf (faceRecs pad fs)
    0 < g.nx ∧ 0 < g.ny ∧ 0 < g.nz := by
  intro g
  have hr : (⟨f.cell, faceBox pad f.a f.b f.c⟩ : FaceRec R) ∈ faceRecs pad fs := List.mem_map.mpr ⟨f, hf, rfl⟩
  obtain ⟨-, hlo, hhi⟩ := globalBox_covers pad inf _ _ hr
  have w := faceBox_wide pad f.a f.b f.c
  have ax := face_axis S _ _ _ _ hlo.1 w.1 hhi.1
  have ay := face_axis S _ _ _ _ hlo.2.1 w.2.1 hhi.2.1
  have az := face_axis S _ _ _ _ hlo.2.2 w.2.2 hhi.2.2
  have e := dims_eq fn δ pad vs inf (faceRecs pad fs)
  simp only [g, e.2.2.2.1, e.2.2.2.2.1, e.2.2.2.2.2.1, cceil_eq fn S.floor_eq]
  exact ⟨axis_nb_pos _ _ _ _ S.vs_pos S.δ_nonneg ax.2.2.2, axis_nb_pos _ _ _ _ S.vs_pos S.δ_nonneg ay.2.2.2,
    axis_nb_pos _ _ _ _ S.vs_pos S.δ_nonneg az.2.2.2⟩

/-- **face_voxels_in_range**: the voxel range computed for a face is inside the grid on every axis (the floors are not
    negative, first ≤ last < count), so every `place_object` writes inside `voxel_lst_` -/
theorem face_voxels_in_range (S : Setup fn δ pad vs) (fs : List (BFace R)) (f : BFace R) (hf : f ∈ fs) :
    let g := dims fn δ vs pad inf (faceRecs pad fs)
    let b := faceBox pad f.a f.b f.c
    let rg := faceRange fn g b
    (0 ≤ fn.floor ((b.lox - g.min_x) / g.v) ∧ 0 ≤ fn.floor ((b.loy - g.min_y) / g.v) ∧ 0 ≤ fn.floor ((b.loz - g.min_z) / g.v)) ∧
    (rg.x0 ≤ rg.x1 ∧ rg.y0 ≤ rg.y1 ∧ rg.z0 ≤ rg.z1) ∧ (rg.x1 < g.nx ∧ rg.y1 < g.ny ∧ rg.z1 < g.nz) ∧
    (∀ j ∈ voxelIds g rg, j < g.total) := by
  intro g b rg
  have hr : (⟨f.cell, b⟩ : FaceRec R) ∈ faceRecs pad fs := List.mem_map.mpr ⟨f, hf, rfl⟩
  obtain ⟨-, hlo, hhi⟩ := globalBox_covers pad inf _ _ hr
  have w := faceBox_wide pad f.a f.b f.c
  have ax := face_axis S _ _ _ _ hlo.1 w.1 hhi.1
  have ay := face_axis S _ _ _ _ hlo.2.1 w.2.1 hhi.2.1
  have az := face_axis S _ _ _ _ hlo.2.2 w.2.2 hhi.2.2
  have hfl := S.floor_eq
  have e := dims_eq fn δ pad vs inf (faceRecs pad fs)
  have pos := nb_pos (inf := inf) S fs f hf
  have nn : (0 ≤ fn.floor ((b.lox - g.min_x) / g.v) ∧ 0 ≤ fn.floor ((b.loy - g.min_y) / g.v) ∧ 0 ≤ fn.floor ((b.loz - g.min_z) / g.v)) := by
    simp only [g, e.1, e.2.1, e.2.2.1, e.2.2.2.2.2.2.1, hfl]
    exact ⟨axis_nonneg _ _ _ S.vs_pos ax.1, axis_nonneg _ _ _ S.vs_pos ay.1, axis_nonneg _ _ _ S.vs_pos az.1⟩
  -- start index below the count
  have st : rg.x0 < g.nx ∧ rg.y0 < g.ny ∧ rg.z0 < g.nz := by
    show (faceRange fn g b).x0 < g.nx ∧ (faceRange fn g b).y0 < g.ny ∧ (faceRange fn g b).z0 < g.nz
    unfold faceRange
    simp only [g, e.1, e.2.1, e.2.2.1, e.2.2.2.1, e.2.2.2.2.1, e.2.2.2.2.2.1, e.2.2.2.2.2.2.1, hfl, cceil_eq fn hfl]
    exact ⟨axis_lt _ _ _ _ _ S.vs_pos ax.1 ax.2.1, axis_lt _ _ _ _ _ S.vs_pos ay.1 ay.2.1, axis_lt _ _ _ _ _ S.vs_pos az.1 az.2.1⟩
  have mono : rg.x0 ≤ Int.toNat (fn.floor ((b.hix - g.min_x) / g.v)) ∧ rg.y0 ≤ Int.toNat (fn.floor ((b.hiy - g.min_y) / g.v)) ∧
      rg.z0 ≤ Int.toNat (fn.floor ((b.hiz - g.min_z) / g.v)) := by
    show (faceRange fn g b).x0 ≤ _ ∧ (faceRange fn g b).y0 ≤ _ ∧ (faceRange fn g b).z0 ≤ _
    unfold faceRange
    simp only [hfl, e.2.2.2.2.2.2.1, g]
    exact ⟨axis_mono _ _ _ _ S.vs_pos ax.2.2.1, axis_mono _ _ _ _ S.vs_pos ay.2.2.1, axis_mono _ _ _ _ S.vs_pos az.2.2.1⟩
  have x1e : rg.x1 = min (Int.toNat (fn.floor ((b.hix - g.min_x) / g.v))) (g.nx - 1) := rfl
  have y1e : rg.y1 = min (Int.toNat (fn.floor ((b.hiy - g.min_y) / g.v))) (g.ny - 1) := rfl
  have z1e : rg.z1 = min (Int.toNat (fn.floor ((b.hiz - g.min_z) / g.v))) (g.nz - 1) := rfl
  have le : rg.x0 ≤ rg.x1 ∧ rg.y0 ≤ rg.y1 ∧ rg.z0 ≤ rg.z1 := by
    rw [x1e, y1e, z1e]
    refine ⟨le_min mono.1 ?_, le_min mono.2.1 ?_, le_min mono.2.2 ?_⟩ <;> omega
  have lt : rg.x1 < g.nx ∧ rg.y1 < g.ny ∧ rg.z1 < g.nz := by
    rw [x1e, y1e, z1e]
    refine ⟨lt_of_le_of_lt (min_le_right _ _) ?_, lt_of_le_of_lt (min_le_right _ _) ?_, lt_of_le_of_lt (min_le_right _ _) ?_⟩ <;> omega
  refine ⟨nn, le, lt, ?_⟩
  intro j hj
  rw [mem_voxelIds] at hj
  obtain ⟨x, y, z, hx, hy, hz, rfl⟩ := hj
  rw [e.2.2.2.2.2.2.2]
  unfold loopLen at hx hy hz
  exact flat_lt g x y z (by omega) (by omega) (by omega)

/-- **voxel_complete**: if the node passes the aabb test of a face, the face is registered in the node's voxel
    (monotonicity of the floor; node and face use the same origin and voxel size) -/
theorem voxel_complete (S : Setup fn δ pad vs) (fs : List (BFace R)) (f : BFace R) (hf : f ∈ fs) (p : V3 R)
    (hp : InHull pad (faceRecs pad fs) p) (hbox : aabbCheck (faceBox pad f.a f.b f.c) p = true) :
    let g := dims fn δ vs pad inf (faceRecs pad fs)
    nodeVoxelId fn g p ∈ voxelIds g (faceRange fn g (faceBox pad f.a f.b f.c)) := by
  intro g
  have hn := node_voxel_in_range (inf := inf) S (faceRecs pad fs) p hp
  have hfv := face_voxels_in_range (inf := inf) S fs f hf
  obtain ⟨-, hlt, -⟩ := hn
  obtain ⟨-, hle, -, -⟩ := hfv
  rw [aabbCheck_iff] at hbox
  have hfl := S.floor_eq
  have e := dims_eq fn δ pad vs inf (faceRecs pad fs)
  rw [mem_voxelIds]
  refine ⟨(nodeVoxel fn g p).1, (nodeVoxel fn g p).2.1, (nodeVoxel fn g p).2.2, ?_, ?_, ?_, rfl⟩
  · have h0 : (faceRange fn g (faceBox pad f.a f.b f.c)).x0 ≤ (nodeVoxel fn g p).1 := by
      unfold faceRange nodeVoxel
      simp only [hfl, e.2.2.2.2.2.2.1, g]
      exact axis_mono _ _ _ _ S.vs_pos hbox.1.1
    have h1 : (nodeVoxel fn g p).1 ≤ (faceRange fn g (faceBox pad f.a f.b f.c)).x1 := by
      refine le_min ?_ (Nat.le_sub_one_of_lt hlt.1)
      unfold nodeVoxel
      simp only [hfl, e.2.2.2.2.2.2.1, g]
      exact axis_mono _ _ _ _ S.vs_pos hbox.1.2
    have := hle.1
    unfold loopLen
    exact ⟨h0, by omega⟩
  · have h0 : (faceRange fn g (faceBox pad f.a f.b f.c)).y0 ≤ (nodeVoxel fn g p).2.1 := by
      unfold faceRange nodeVoxel
      simp only [hfl, e.2.2.2.2.2.2.1, g]
      exact axis_mono _ _ _ _ S.vs_pos hbox.2.1.1
    have h1 : (nodeVoxel fn g p).2.1 ≤ (faceRange fn g (faceBox pad f.a f.b f.c)).y1 := by
      refine le_min ?_ (Nat.le_sub_one_of_lt hlt.2.1)
      unfold nodeVoxel
      simp only [hfl, e.2.2.2.2.2.2.1, g]
      exact axis_mono _ _ _ _ S.vs_pos hbox.2.1.2
    have := hle.2.1
    unfold loopLen
    exact ⟨h0, by omega⟩
  · have h0 : (faceRange fn g (faceBox pad f.a f.b f.c)).z0 ≤ (nodeVoxel fn g p).2.2 := by
      unfold faceRange nodeVoxel
      simp only [hfl, e.2.2.2.2.2.2.1, g]
      exact axis_mono _ _ _ _ S.vs_pos hbox.2.2.1
    have h1 : (nodeVoxel fn g p).2.2 ≤ (faceRange fn g (faceBox pad f.a f.b f.c)).z1 := by
      refine le_min ?_ (Nat.le_sub_one_of_lt hlt.2.2)
      unfold nodeVoxel
      simp only [hfl, e.2.2.2.2.2.2.1, g]
      exact axis_mono _ _ _ _ S.vs_pos hbox.2.2.2
    have := hle.2.2
    unfold loopLen
    exact ⟨h0, by omega⟩

/-! ### what the voxels hold, and the pairs handed to the rules -/

theorem range_le (x0 x1 x : Nat) (h01 : x0 ≤ x1) (h0 : x0 ≤ x) (h1 : x < x0 + loopLen x0 x1) : x ≤ x1 := by
  unfold loopLen at h1; omega

/-- entry `i` of the records is the padded box of face `i` -/
theorem rec_of_mem_zipIdx (pad : R) (fs : List (BFace R)) (ri : FaceRec R × Nat) (h : ri ∈ (faceRecs pad fs).zipIdx) :
    ∃ (hi : ri.2 < fs.length), ri.1 = ⟨fs[ri.2].cell, faceBox pad fs[ri.2].a fs[ri.2].b fs[ri.2].c⟩ ∧
      (faceRecs pad fs)[ri.2]? = some ri.1 := by
  have h1 := List.mem_zipIdx_iff_getElem?.mp h
  have h2 := h1
  unfold faceRecs at h2
  rw [List.getElem?_map] at h2
  cases hf : fs[ri.2]? with
  | none => rw [hf] at h2; cases h2
  | some f =>
    rw [hf] at h2
    obtain ⟨hi, e⟩ := List.getElem?_eq_some_iff.mp hf
    refine ⟨hi, ?_, h1⟩
    simp only [Option.map_some, Option.some.injEq] at h2
    rw [e]; exact h2.symm

/-- a face is registered at most once per voxel -/
theorem ids_nodup (S : Setup fn δ pad vs) (fs : List (BFace R)) (f : BFace R) (hf : f ∈ fs) :
    let g := dims fn δ vs pad inf (faceRecs pad fs)
    (voxelIds g (faceRange fn g (faceBox pad f.a f.b f.c))).Nodup := by
  intro g
  obtain ⟨-, hle, hlt, -⟩ := face_voxels_in_range (inf := inf) S fs f hf
  apply nodup_voxelIds
  · intro x h0 h1; exact lt_of_le_of_lt (range_le _ _ _ hle.1 h0 h1) hlt.1
  · intro y h0 h1; exact lt_of_le_of_lt (range_le _ _ _ hle.2.1 h0 h1) hlt.2.1

/-- **voxel_content**: after `store_face_in_uspg`, voxel `j` holds exactly the faces whose range contains `j`,
    each once, the most recently registered (largest global id) first -/
theorem voxel_content (S : Setup fn δ pad vs) (fs : List (BFace R)) (j : Nat) :
    let rs := faceRecs pad fs
    let g := dims fn δ vs pad inf rs
    j < g.total →
    (buildGrid fn g rs).getD j [] =
      (rs.zipIdx.reverse.filter fun ri => decide (j ∈ voxelIds g (faceRange fn g ri.1.box))).map Prod.snd := by
  intro rs g hj
  rw [getD_buildGrid fn g rs j hj]
  have nd : ∀ ri ∈ rs.zipIdx.reverse, (voxelIds g (faceRange fn g ri.1.box)).Nodup := by
    intro ri hri
    obtain ⟨hi, e, -⟩ := rec_of_mem_zipIdx pad fs ri (List.mem_reverse.mp hri)
    rw [e]
    exact ids_nodup (inf := inf) S fs _ (List.getElem_mem hi)
  rw [flatMap_replicate_eq_filter _ _ (fun ri hri => List.nodup_iff_count_le_one.mp (nd ri hri) j)]
  congr 1
  apply List.filter_congr
  intro ri hri
  by_cases hm : j ∈ voxelIds g (faceRange fn g ri.1.box)
  · simp [hm, List.count_eq_one_of_mem (nd ri hri) hm]
  · simp [hm, List.count_eq_zero_of_not_mem hm]

/-- **candidates_complete**: a node in use within the padding (hence within either cut-off) of a triangle of another
    cell is handed to the per-pair rule -/
theorem candidates_complete (S : Setup fn δ pad vs) (fs : List (BFace R)) (n : BNode R) (i : Nat) (hi : i < fs.length) :
    let rs := faceRecs pad fs
    let g := dims fn δ vs pad inf rs
    InHull pad rs n.pos → cellTest n.cell fs[i].cell → Within pad n.pos fs[i] →
    i ∈ candidates fn g (buildGrid fn g rs) rs n := by
  intro rs g hn hc hw
  have hf : fs[i] ∈ fs := List.getElem_mem hi
  have hbox := aabb_complete pad pad n.pos fs[i] S.pad_pos.le (le_refl _) hw
  have hv := voxel_complete (inf := inf) S fs fs[i] hf n.pos hn hbox
  obtain ⟨-, -, hvid⟩ := node_voxel_in_range (inf := inf) S rs n.pos hn
  have hrs : rs[i]? = some ⟨fs[i].cell, faceBox pad fs[i].a fs[i].b fs[i].c⟩ := by
    show (faceRecs pad fs)[i]? = _
    unfold faceRecs
    rw [List.getElem?_map, List.getElem?_eq_getElem hi]; rfl
  unfold candidates
  rw [List.mem_filter]
  constructor
  · rw [voxel_content (inf := inf) S fs _ hvid, List.mem_map]
    refine ⟨(⟨fs[i].cell, faceBox pad fs[i].a fs[i].b fs[i].c⟩, i), ?_, rfl⟩
    rw [List.mem_filter, List.mem_reverse]
    exact ⟨List.mem_zipIdx_iff_getElem?.mpr hrs, decide_eq_true hv⟩
  · unfold spatialTest
    rw [hrs]
    simp only [Bool.and_eq_true, decide_eq_true_eq]
    exact ⟨hc, hbox⟩

/-- conversely only faces of other cells whose box contains the node are handed to the rule -/
theorem candidates_sound (fs : List (BFace R)) (n : BNode R) (g : GDims R) (grid : List (List Nat)) (i : Nat)
    (h : i ∈ candidates fn g grid (faceRecs pad fs) n) :
    ∃ (hi : i < fs.length), cellTest n.cell fs[i].cell ∧ aabbCheck (faceBox pad fs[i].a fs[i].b fs[i].c) n.pos = true := by
  unfold candidates at h
  rw [List.mem_filter] at h
  have h2 := h.2
  unfold spatialTest at h2
  cases hr : (faceRecs pad fs)[i]? with
  | none => rw [hr] at h2; cases h2
  | some r =>
    rw [hr] at h2
    obtain ⟨hi, e, -⟩ := rec_of_mem_zipIdx pad fs (r, i) (List.mem_zipIdx_iff_getElem?.mpr hr)
    simp only [Bool.and_eq_true, decide_eq_true_eq] at h2
    simp only at e
    rw [e] at h2
    exact ⟨hi, h2.1, h2.2⟩

section totals
variable {M : Type} [AddCommMonoid M]

/-- one (record, id) pair contributes the same to the sum over the candidates and to the sum over all other-cell faces -/
theorem term_eq (S : Setup fn δ pad vs) (fs : List (BFace R)) (n : BNode R) (rule : Nat → M)
    (hn : InHull pad (faceRecs pad fs) n.pos)
    (hzero : ∀ i (hi : i < fs.length), ¬ Within pad n.pos fs[i] → rule i = 0)
    (ri : FaceRec R × Nat) (hri : ri ∈ (faceRecs pad fs).zipIdx) :
    let rs := faceRecs pad fs
    let g := dims fn δ vs pad inf rs
    (voxelIds g (faceRange fn g ri.1.box)).count (nodeVoxelId fn g n.pos) • (if spatialTest rs n ri.2 then rule ri.2 else 0)
      = if decide (cellTest n.cell ri.1.cell) then rule ri.2 else 0 := by
  intro rs g
  obtain ⟨hi, e, hrs⟩ := rec_of_mem_zipIdx pad fs ri hri
  have hst : spatialTest rs n ri.2 = (decide (cellTest n.cell ri.1.cell) && aabbCheck ri.1.box n.pos) := by
    unfold spatialTest; rw [hrs]
  rw [hst]
  by_cases hc : cellTest n.cell ri.1.cell
  · by_cases hw : Within pad n.pos fs[ri.2]
    · have hf : fs[ri.2] ∈ fs := List.getElem_mem hi
      have hbox := aabb_complete pad pad n.pos fs[ri.2] S.pad_pos.le (le_refl _) hw
      have hv := voxel_complete (inf := inf) S fs fs[ri.2] hf n.pos hn hbox
      have hnd := ids_nodup (inf := inf) S fs fs[ri.2] hf
      have hb : ri.1.box = faceBox pad fs[ri.2].a fs[ri.2].b fs[ri.2].c := by rw [e]
      rw [hb, List.count_eq_one_of_mem hnd hv, hbox]
      simp [hc, one_nsmul]
    · rw [hzero ri.2 hi hw]; simp
  · simp [hc]

/-- **forces_eq_allpairs**: for any per-pair contribution `rule` (to any commutative additive accumulator: the
    per-node force sums, energies, …) that is zero for pairs farther apart than the padding, accumulating it over the
    pairs found through the grid gives the same total as accumulating it over all faces of other cells -/
theorem forces_eq_allpairs (S : Setup fn δ pad vs) (fs : List (BFace R)) (n : BNode R) (rule : Nat → M) :
    let rs := faceRecs pad fs
    let g := dims fn δ vs pad inf rs
    InHull pad rs n.pos →
    (∀ i (hi : i < fs.length), ¬ Within pad n.pos fs[i] → rule i = 0) →
    ((candidates fn g (buildGrid fn g rs) rs n).map rule).sum = ((otherCellFaces rs n).map rule).sum := by
  intro rs g hn hzero
  obtain ⟨-, -, hvid⟩ := node_voxel_in_range (inf := inf) S rs n.pos hn
  unfold candidates otherCellFaces
  rw [getD_buildGrid fn g rs _ hvid, sum_candidates_form, sum_others_form]
  congr 1
  apply List.map_congr_left
  intro ri hri
  exact term_eq (inf := inf) S fs n rule hn hzero ri hri
end totals

/-- **fold_eq_allpairs_ordered**: the same for a rule with state (couplings, face types changed by a contact …) run
    sequentially: if a step leaves the state unchanged for pairs farther apart than the padding, folding it over the
    candidates (in the order the voxel list holds them) gives the state obtained by folding it over all faces of other
    cells in the order of descending global id -/
theorem fold_eq_allpairs_ordered {St : Type} (S : Setup fn δ pad vs) (fs : List (BFace R)) (n : BNode R)
    (step : St → Nat → St) (s : St) :
    let rs := faceRecs pad fs
    let g := dims fn δ vs pad inf rs
    InHull pad rs n.pos →
    (∀ i (hi : i < fs.length), ¬ Within pad n.pos fs[i] → ∀ s, step s i = s) →
    (candidates fn g (buildGrid fn g rs) rs n).foldl step s = (otherCellFaces rs n).foldl step s := by
  intro rs g hn hnoop
  obtain ⟨-, -, hvid⟩ := node_voxel_in_range (inf := inf) S rs n.pos hn
  unfold candidates otherCellFaces
  rw [voxel_content (inf := inf) S fs _ hvid]
  -- both lists are images under `Prod.snd` of sub-lists of the reversed (record, id) list
  rw [List.filter_map, ← List.map_reverse, ← List.filter_reverse, List.filter_filter, List.foldl_map, List.foldl_map]
  set L := rs.zipIdx.reverse with hL
  have hmem : ∀ ri ∈ L, ri ∈ (faceRecs pad fs).zipIdx := fun ri h => List.mem_reverse.mp h
  -- the candidates are the other-cell faces that also pass the voxel and box tests
  have e1 : L.filter (fun ri => (spatialTest rs n ∘ Prod.snd) ri && decide (nodeVoxelId fn g n.pos ∈ voxelIds g (faceRange fn g ri.1.box)))
      = (L.filter fun ri => decide (cellTest n.cell ri.1.cell)).filter
          (fun ri => aabbCheck ri.1.box n.pos && decide (nodeVoxelId fn g n.pos ∈ voxelIds g (faceRange fn g ri.1.box))) := by
    rw [List.filter_filter]
    apply List.filter_congr
    intro ri hri
    obtain ⟨hi, e, hrs⟩ := rec_of_mem_zipIdx pad fs ri (hmem ri hri)
    have hst : spatialTest rs n ri.2 = (decide (cellTest n.cell ri.1.cell) && aabbCheck ri.1.box n.pos) := by
      unfold spatialTest; rw [hrs]
    simp only [Function.comp, hst]
    cases decide (cellTest n.cell ri.1.cell) <;> cases aabbCheck ri.1.box n.pos <;> simp
  rw [e1]
  apply foldl_filter_noop
  intro ri hri hp s'
  rw [List.mem_filter] at hri
  obtain ⟨hi, e, hrs⟩ := rec_of_mem_zipIdx pad fs ri (hmem ri hri.1)
  apply hnoop ri.2 hi
  intro hw
  have hf : fs[ri.2] ∈ fs := List.getElem_mem hi
  have hbox := aabb_complete pad pad n.pos fs[ri.2] S.pad_pos.le (le_refl _) hw
  have hv := voxel_complete (inf := inf) S fs fs[ri.2] hf n.pos hn hbox
  have hb : ri.1.box = faceBox pad fs[ri.2].a fs[ri.2].b fs[ri.2].c := by rw [e]
  rw [hb, hbox] at hp
  simp only [Bool.true_and, decide_eq_false_iff_not] at hp
  exact hp hv

end grid

/-! ### the statements are not vacuous (ℚ): the corpus tissue of the past failure -/
section nonvacuous
/-- two unit cubes stacked in z at (10,10,10) and (10,10,12.25), `l_min = 1/2`, both cut-offs `1/4`: padded extent in z
    = 4 = two voxels of size 2; the bottom and the top face of the first cube and the top face of the second are enough here -/
def fA0 : BFace ℚ := ⟨0, ⟨10, 10, 10⟩, ⟨10, 11, 10⟩, ⟨11, 10, 10⟩⟩
def fA : BFace ℚ := ⟨0, ⟨10, 10, 11⟩, ⟨11, 10, 11⟩, ⟨10, 11, 11⟩⟩
def fB : BFace ℚ := ⟨1, ⟨10, 10, 13 + 1/4⟩, ⟨11, 10, 13 + 1/4⟩, ⟨10, 11, 13 + 1/4⟩⟩
def fnQ : Fn ℚ := { sqrt := id, ln := id, exp := id, acos := id, floor := fun x => ⌊x⌋ }
example : Setup fnQ 0 (1/4 : ℚ) 2 := ⟨fun _ => rfl, le_refl _, by norm_num, by norm_num⟩
example : bpPadding (1/4 : ℚ) (1/4) = 1/4 ∧ bpVoxelSize (1/2 : ℚ) (1/4) = 2 := by
  constructor <;> norm_num [bpPadding, bpVoxelSize, cmax, lit_eq]
/-- a node of cell 1 a quarter above the top face of cell 0 is within the padding of it -/
example : Within (1/4 : ℚ) ⟨10 + 1/4, 10 + 1/4, 11 + 1/4⟩ fA :=
  ⟨⟨1/2, 1/4, 1/4⟩, by norm_num, by norm_num, by norm_num, by norm_num, by
    norm_num [fA, baryPt, V3.normSq_def]⟩
example : cellTest 1 fA.cell := by decide
/-- the face box that touches the global maximum: its last voxel is 1 of 2 (the unclamped floor is 2) -/
example : (dims fnQ 0 2 (1/4 : ℚ) 1000 (faceRecs (1/4) [fA0, fA, fB])).nz = 2 ∧
    (faceRange fnQ (dims fnQ 0 2 (1/4 : ℚ) 1000 (faceRecs (1/4) [fA0, fA, fB])) (faceBox (1/4) fB.a fB.b fB.c)).z1 = 1 ∧
    ⌊((faceBox (1/4 : ℚ) fB.a fB.b fB.c).hiz - (dims fnQ 0 2 (1/4 : ℚ) 1000 (faceRecs (1/4) [fA0, fA, fB])).min_z) / 2⌋ = 2 := by
  refine ⟨?_, ?_, ?_⟩ <;>
    norm_num [dims, gridDims, globalBox, globalFinish, globalStep, faceRecs, faceBox, faceRange, fA0, fA, fB, fnQ, cceil, cmin, cmax,
      Int.floor_eq_iff] <;> rfl
end nonvacuous

end Simu.C06
