import SimuVerif.Lemmas.SurfaceSplitSwap
import SimuVerif.Lemmas.SurfaceCollapseEuler
import SimuVerif.Lemmas.Field
import SimuVerif.Gen.RemeshConsts
import SimuVerif.Lemmas.RemeshRefine
import SimuVerif.Lemmas.SurfaceCheckers
import SimuVerif.Model.RemeshChecks
import SimuVerif.Model.RemeshMergeChecks
import SimuVerif.Lemmas.RemeshMerge
import SimuVerif.Lemmas.RemeshMerge9
import SimuVerif.Lemmas.SurfaceManifold
import SimuVerif.Lemmas.RemeshMerge10
import SimuVerif.Lemmas.RemeshMerge11
import SimuVerif.Lemmas.RemeshPass
import SimuVerif.Lemmas.RemeshPassLive
import SimuVerif.Lemmas.RemeshPassChecks
/-
  C01 — cell surfaces stay closed, consistently oriented 2-manifolds under remeshing.

  The theorems are about the abstract operations of `Model/Surface.lean` (edge split, edge swap,
  edge collapse, renaming of node ids = compaction); `lean/Driver/C01.lean` checks on every executed
  operation that the executable bookkeeping model `Model/Remesh.lean` — which the correspondence
  harness compares state-for-state with the real `cell` / `local_mesh_refiner` — refines them.

  `Inv T` = no triangle repeats a node ∧ no directed half-edge occurs twice ∧ every half-edge has its
  reverse: "every edge is shared by exactly two triangles that traverse it in opposite directions"
  (`edge_shared_by_two`).  Node displacements do not touch `T` at all, so "nodes moved arbitrarily
  between passes" is the trivial step `Op.move`.
-/
namespace Simu.C01
open Simu Simu.Surface

/-- every edge of a surface satisfying the invariant is shared by exactly two triangles that traverse
    it in opposite directions -/
theorem edge_shared_by_two {T : List Tri} (h : Inv T) (e : HE) (he : e ∈ heM T) :
    (heM T).count e = 1 ∧ (heM T).count e.swap = 1 := Surface.edge_shared_by_two h e he

/-- the operations a history is made of -/
inductive Op where
  | split (a b e : Nat)        -- edge a–b split at the new node e
  | swap (a b : Nat)           -- edge a–b swapped
  | collapse (a b i : Nat)     -- edge a–b collapsed into the new node i
  | rename (ρ : Nat → Nat)     -- compaction of unused slots: node ids renumbered
  | move                       -- arbitrary displacement of nodes (does not touch the triangle list)

def apply (T : List Tri) : Op → List Tri
  | .split a b e => splitT T a b e
  | .swap a b => swapT T a b
  | .collapse a b i => collapseT T a b i
  | .rename ρ => renameT ρ T
  | .move => T

/-- when the code performs the operation (its guards); otherwise it skips it or throws -/
def Enabled (T : List Tri) : Op → Prop
  | .split a b e => Fresh T e ∧
      ∀ t1 t2, findDir T a b = some t1 → findDir T b a = some t2 → opp t1 a b ≠ opp t2 b a
  | .swap a b => SwapGuard T a b
  | .collapse a b i => ∃ t1 t2, findDir T a b = some t1 ∧ findDir T b a = some t2 ∧
      LinkCond T a b (opp t1 a b) (opp t2 b a) ∧ Fresh T i
  | .rename ρ => Set.InjOn ρ (vertsF T : Set Nat)
  | .move => True

/-- surfaces reachable from `T₀` by any finite history of enabled operations -/
inductive Reach (T₀ : List Tri) : List Tri → Prop where
  | refl : Reach T₀ T₀
  | step {T : List Tri} (h : Reach T₀ T) (op : Op) (en : Enabled T op) : Reach T₀ (apply T op)

theorem split_inv {T : List Tri} (h : Inv T) (a b e : Nat) (en : Enabled T (.split a b e)) :
    Inv (splitT T a b e) := Surface.split_inv h a b e en.1 en.2

theorem swap_inv {T : List Tri} (h : Inv T) (a b : Nat) (en : Enabled T (.swap a b)) :
    Inv (swapT T a b) := Surface.swap_inv h a b en

theorem collapse_inv {T : List Tri} (h : Inv T) (a b i : Nat) (en : Enabled T (.collapse a b i)) :
    Inv (collapseT T a b i) := by
  obtain ⟨t1, t2, h1, h2, hl, hi⟩ := en
  exact Surface.collapse_inv h h1 h2 hl hi

theorem rename_inv {T : List Tri} (h : Inv T) (ρ : Nat → Nat) (en : Enabled T (.rename ρ)) :
    Inv (renameT ρ T) := Surface.rename_inv ρ en h

/-- closedness alone survives a collapse without any link condition -/
theorem collapse_closed_unconditional {T : List Tri} (hc : Closed T) (a b i : Nat) (hab : a ≠ b) :
    Closed (collapseT T a b i) := Surface.collapse_closed hc a b i hab

theorem step_inv {T : List Tri} (h : Inv T) (op : Op) (en : Enabled T op) : Inv (apply T op) := by
  cases op with
  | split a b e => exact split_inv h a b e en
  | swap a b => exact swap_inv h a b en
  | collapse a b i => exact collapse_inv h a b i en
  | rename ρ => exact rename_inv h ρ en
  | move => exact h

/-- **every reachable surface satisfies the invariant**, for every starting surface, every history
    of splits, swaps, collapses, compactions and displacements, of any length -/
theorem reach_inv {T₀ T : List Tri} (h₀ : Inv T₀) (r : Reach T₀ T) : Inv T := by
  induction r with
  | refl => exact h₀
  | step _ op en ih => exact step_inv ih op en

/-! ### vertex-manifoldness

  `Inv` alone allows a PINCHED node (its link consists of several cycles); the collapse refinement needs that the faces
  around a node form a single cycle.  `VMC T v` = the link of `v` (directed graph on the neighbours, `x → y` iff a triangle
  is a rotation of `(v,x,y)`) is connected; under `Inv` every link node has exactly one outgoing and one incoming edge
  (`Surface.lk_out_unique`, `lk_in_unique`, `lk_out_total`, `lk_in_total`), so a connected link is a single cycle.
  It is preserved by every enabled operation, hence over every history. -/

theorem split_vmc {T : List Tri} (h : Inv T) (hv : AllVMC T) (a b e : Nat) (en : Enabled T (.split a b e)) :
    AllVMC (splitT T a b e) := Surface.split_vmc h hv en.1 en.2

theorem swap_vmc {T : List Tri} (h : Inv T) (hv : AllVMC T) (a b : Nat) (en : Enabled T (.swap a b)) :
    AllVMC (swapT T a b) := Surface.swap_vmc h hv en

theorem collapse_vmc {T : List Tri} (h : Inv T) (hv : AllVMC T) (a b i : Nat) (en : Enabled T (.collapse a b i)) :
    AllVMC (collapseT T a b i) := by
  obtain ⟨t1, t2, h1, h2, hl, hi⟩ := en
  exact Surface.collapse_vmc h hv h1 h2 hl.1 hi

theorem rename_vmc {T : List Tri} (hv : AllVMC T) (ρ : Nat → Nat) (en : Enabled T (.rename ρ)) :
    AllVMC (renameT ρ T) := Surface.rename_vmc ρ en hv

theorem step_vmc {T : List Tri} (h : Inv T) (hv : AllVMC T) (op : Op) (en : Enabled T op) : AllVMC (apply T op) := by
  cases op with
  | split a b e => exact split_vmc h hv a b e en
  | swap a b => exact swap_vmc h hv a b en
  | collapse a b i => exact collapse_vmc h hv a b i en
  | rename ρ => exact rename_vmc hv ρ en
  | move => exact hv

/-- **every node of every reachable surface is vertex-manifold**, if every node of the starting surface is -/
theorem reach_vertex_manifold {T₀ T : List Tri} (h₀ : Inv T₀) (hv : AllVMC T₀) (r : Reach T₀ T) : AllVMC T := by
  induction r with
  | refl => exact hv
  | step hr op en ih => exact step_vmc (reach_inv h₀ hr) ih op en

/-! ### Euler characteristic -/

theorem split_chi {T : List Tri} (h : Inv T) (a b e : Nat) (en : Enabled T (.split a b e)) :
    chiZ (splitT T a b e) = chiZ T := by
  cases h1 : findDir T a b with
  | none => rw [split_noop (Or.inl h1)]
  | some t1 =>
    cases h2 : findDir T b a with
    | none => rw [split_noop (Or.inr h2)]
    | some t2 =>
      have hv := split_verts h.nondeg (e := e) h1 h2
      have hl := split_length h.nondeg (e := e) h1 h2
      have hfresh : e ∉ vertsF T := by
        intro hm
        obtain ⟨t, ht, hx⟩ := (mem_vertsF).1 hm
        have hf := en.1 t ht
        simp only [hasNode, Bool.or_eq_false_iff, beq_eq_false_iff_ne] at hf
        rcases hx with hx | hx | hx
        · exact hf.1.1 hx.symm
        · exact hf.1.2 hx.symm
        · exact hf.2 hx.symm
      refine chi_transfer h (split_inv h a b e en) 1 ?_ ?_
      · rw [hv, Finset.card_insert_of_notMem hfresh]; push_cast; ring
      · rw [hl]; push_cast; ring

theorem swap_chi {T : List Tri} (h : Inv T) (a b : Nat) (en : Enabled T (.swap a b)) :
    chiZ (swapT T a b) = chiZ T := by
  refine chi_transfer h (swap_inv h a b en) 0 ?_ ?_
  · rw [swap_verts h a b]; ring
  · rw [swap_length h.nondeg a b]; ring

theorem collapse_chi {T : List Tri} (h : Inv T) (a b i : Nat) (en : Enabled T (.collapse a b i)) :
    chiZ (collapseT T a b i) = chiZ T := by
  obtain ⟨t1, t2, h1, h2, hl, hi⟩ := en
  exact Surface.collapse_chi h h1 h2 hl hi

theorem rename_chi {T : List Tri} (h : Inv T) (ρ : Nat → Nat) (en : Enabled T (.rename ρ)) :
    chiZ (renameT ρ T) = chiZ T := by
  refine chi_transfer h (rename_inv h ρ en) 0 ?_ ?_
  · rw [rename_verts_card ρ en]; ring
  · rw [rename_length]; ring

theorem step_chi {T : List Tri} (h : Inv T) (op : Op) (en : Enabled T op) : chiZ (apply T op) = chiZ T := by
  cases op with
  | split a b e => exact split_chi h a b e en
  | swap a b => exact swap_chi h a b en
  | collapse a b i => exact collapse_chi h a b i en
  | rename ρ => exact rename_chi h ρ en
  | move => rfl

/-- **V − E + F is the same for every reachable surface**; in particular a genus-0 start (χ = 2) stays genus 0 -/
theorem reach_chi {T₀ T : List Tri} (h₀ : Inv T₀) (r : Reach T₀ T) : chiZ T = chiZ T₀ := by
  induction r with
  | refl => rfl
  | step hr op en ih => rw [step_chi (reach_inv h₀ hr) op en, ih]

/-! ### the enclosed volume is unchanged by an edge split (midpoint factor read from the source) -/
section volume
variable {R : Type} [Field R] [LinearOrder R] [IsStrictOrderedRing R]

/-- six times the signed volume of the tetrahedron spanned by the origin and a triangle -/
def tet6 (p q r : V3 R) : R := V3.dot p (V3.cross q r)

/-- the two halves of a split triangle enclose the same signed volume as the triangle, the new node being
    placed at `(b + a) * Gen.splitConsts.mid` as `split_edge` does -/
theorem split_volume (a b c : V3 R) :
    tet6 c a ((b + a) * (Gen.splitConsts (R := R)).mid) + tet6 c ((b + a) * (Gen.splitConsts (R := R)).mid) b
      = tet6 c a b := by
  simp only [tet6, Gen.splitConsts, V3.dot_def, V3.cross_def, V3.add_x, V3.add_y, V3.add_z, V3.smul_x, V3.smul_y,
    V3.smul_z, lit_one, lit_two]
  field_simp
  ring
end volume


/-! ### the executable bookkeeping model refines the abstract operations (proved for split, swap and collapse)

  `Model/Remesh.lean` is the model the correspondence harness compares bit for bit with the real `cell` /
  `local_mesh_refiner`.  For an edge split, an edge swap and an edge collapse the link to the abstract operations is a
  theorem, for any scalar type (so also at `Float`).  The collapse (`replace_node` walks the fan of faces around each end
  node; `Lemmas/RemeshMerge*.lean`) needs, besides the surface invariant and the link condition, that the edge index is
  sound AND complete (`EdgeIdxComplete`) and that the live faces around each end node form a single cycle
  (vertex-manifoldness, `MergeHyp` / `VertexManifold`) — `Inv` alone allows a pinched vertex, for which `replace_node`
  would rename only one of the fans.  The driver evaluates these hypotheses (`chkMergeHyps`) before every executed
  collapse; `merge_checks_sound` shows that the Boolean test implies them. -/
section refinement
open Simu.Remesh
variable {R : Type} [Add R] [Sub R] [Mul R] [Div R] [Neg R] [Lit R] [LT R] [LE R] [DecidableLT R] [DecidableLE R] [DecidableEq R]

/-- the live triangles after the concrete `split_edge` are exactly the abstract split of the live triangles before -/
theorem split_refines {fn : Fn R} {k : SplitConsts R} {c c' : Cell R} {e : Edge} {chk chk' : CheckSet}
    (h : splitEdge fn k c e chk = .ok (c', chk')) (hf : FaceFreeOk c) (hI : Inv (Remesh.abs c))
    (hab : e.n1 ≠ e.n2) (he : EdgeFaces c e e.n1 e.n2) :
    (Remesh.abs c').Perm (splitT (Remesh.abs c) e.n1 e.n2 (Simu.C11.newSlot c)) ∧ FaceFreeOk c' :=
  splitEdge_refines h hf hI hab he

/-- the live triangles after the concrete `swap_edge` are the abstract swap, up to rotation of the new triangles -/
theorem swap_refines {fn : Fn R} {c c' : Cell R} {e : Edge}
    (h : swapEdge fn c e = .ok c') (hf : FaceFreeOk c) (hI : Inv (Remesh.abs c))
    (hab : e.n1 ≠ e.n2) (he : EdgeFaces c e e.n1 e.n2) (hidx : EdgeIdxSound c)
    (hg : SwapGuard (Remesh.abs c) e.n1 e.n2) :
    TriEquiv (Remesh.abs c') (swapT (Remesh.abs c) e.n1 e.n2) ∧ FaceFreeOk c' :=
  swapEdge_refines h hf hI hab he hidx hg

/-- hence the concrete split and swap keep the surface invariant of the live triangle list -/
theorem concrete_split_inv {fn : Fn R} {k : SplitConsts R} {c c' : Cell R} {e : Edge} {chk chk' : CheckSet}
    (h : splitEdge fn k c e chk = .ok (c', chk')) (hf : FaceFreeOk c) (hI : Inv (Remesh.abs c))
    (hab : e.n1 ≠ e.n2) (he : EdgeFaces c e e.n1 e.n2) (hfresh : Fresh (Remesh.abs c) (Simu.C11.newSlot c))
    (hg : ∀ t1 t2, findDir (Remesh.abs c) e.n1 e.n2 = some t1 → findDir (Remesh.abs c) e.n2 e.n1 = some t2 →
      opp t1 e.n1 e.n2 ≠ opp t2 e.n2 e.n1) : Inv (Remesh.abs c') :=
  splitEdge_inv h hf hI hab he hfresh hg

theorem concrete_swap_inv {fn : Fn R} {c c' : Cell R} {e : Edge}
    (h : swapEdge fn c e = .ok c') (hf : FaceFreeOk c) (hI : Inv (Remesh.abs c))
    (hab : e.n1 ≠ e.n2) (he : EdgeFaces c e e.n1 e.n2) (hidx : EdgeIdxSound c)
    (hg : SwapGuard (Remesh.abs c) e.n1 e.n2) : Inv (Remesh.abs c') :=
  swapEdge_inv h hf hI hab he hidx hg

/-- the Boolean checks the driver evaluates before every executed split (`chkSplitHyps`) imply the hypotheses of
    `split_refines` — so the refinement theorem applies to exactly the operations the harness compared with the real code -/
theorem split_checks_sound (c : Cell R) (e : Edge) (h : chkSplitHyps c e = true) :
    FaceFreeOk c ∧ Inv (Remesh.abs c) ∧ e.n1 ≠ e.n2 ∧ EdgeFaces c e e.n1 e.n2 := by
  unfold chkSplitHyps at h
  simp only [Bool.and_eq_true, bne_iff_ne, ne_eq] at h
  obtain ⟨⟨⟨⟨h1, h2⟩, h3⟩, h4⟩, h5⟩ := h
  exact ⟨faceFreeOk_of_B (c := c) h1, inv_of_B h2 h3, h4, edgeFaces_of_B (c := c) h5⟩

/-- likewise for the swap (`chkSwapHyps`) -/
theorem swap_checks_sound (c : Cell R) (e : Edge) (h : chkSwapHyps c e = true) :
    FaceFreeOk c ∧ Inv (Remesh.abs c) ∧ e.n1 ≠ e.n2 ∧ EdgeFaces c e e.n1 e.n2 ∧ EdgeIdxSound c ∧
      SwapGuard (Remesh.abs c) e.n1 e.n2 := by
  unfold chkSwapHyps at h
  simp only [Bool.and_eq_true] at h
  obtain ⟨⟨h1, h2⟩, h3⟩ := h
  obtain ⟨a, b, c', d⟩ := split_checks_sound c e h1
  exact ⟨a, b, c', d, edgeIdxSound_of_B (c := c) h2, swapGuard_of_B h3⟩
/-! #### the collapse -/

/-- the live triangles after the concrete `merge_edge` ARE the abstract collapse of the live triangles before, at the
    slot `add_node` hands out — equal as lists (slot order), hence also up to rotation (`TriEquiv`).  `MergeHyp`
    (`Lemmas/RemeshMerge6.lean`): complete index, consistent face free list, the popped edge names the same two faces as
    its index entry (in either order), the faces around each end node form one fan aligned with the edge, fan form of the link condition, fresh new slot. -/
theorem merge_refines {fn : Fn R} {k : SplitConsts R} {c c' : Cell R} {e : Edge} {chk chk' : CheckSet}
    {kA kB : Nat} {FA NA FB NB : Nat → Nat}
    (h : mergeEdge fn k c e chk = .ok (c', chk')) (H : MergeHyp c e kA kB FA NA FB NB) :
    Remesh.abs c' = collapseT (Remesh.abs c) e.n1 e.n2 (Simu.C11.newSlot c) ∧
      TriEquiv (Remesh.abs c') (collapseT (Remesh.abs c) e.n1 e.n2 (Simu.C11.newSlot c)) ∧ FaceFreeOk c' :=
  ⟨mergeEdge_abs h H, (mergeEdge_refines h H).1, (mergeEdge_refines h H).2.1⟩

/-- the same from hypotheses that do not mention fans: complete index, consistent free list, the popped edge (a check-set
    copy) names the same two faces as its index entry `E` (in either order), both end nodes are vertex-manifold, the new
    slot is fresh, surface invariant, link condition -/
theorem merge_refines_manifold {fn : Fn R} {k : SplitConsts R} {c c' : Cell R} {e E : Edge} {chk chk' : CheckSet}
    (h : mergeEdge fn k c e chk = .ok (c', chk')) (hI : EdgeIdxComplete c) (hf : FaceFreeOk c)
    (hentry : getEdge c e.n1 e.n2 = some E)
    (hord : (E.f1 = e.f1 ∧ E.f2 = e.f2) ∨ (E.f1 = e.f2 ∧ E.f2 = e.f1))
    (mA : VertexManifold c e.n1) (mB : VertexManifold c e.n2)
    (hfresh : Fresh (Remesh.abs c) (Simu.C11.newSlot c)) (hInv : Inv (Remesh.abs c))
    {t1 t2 : Tri} (h1 : findDir (Remesh.abs c) e.n1 e.n2 = some t1) (h2 : findDir (Remesh.abs c) e.n2 e.n1 = some t2)
    (hl : LinkCond (Remesh.abs c) e.n1 e.n2 (opp t1 e.n1 e.n2) (opp t2 e.n2 e.n1)) :
    Remesh.abs c' = collapseT (Remesh.abs c) e.n1 e.n2 (Simu.C11.newSlot c) ∧ Inv (Remesh.abs c') ∧
      FaceFreeOk c' ∧ EdgeIdxComplete c' :=
  mergeEdge_of_manifold h hI hf hentry hord mA mB hfresh hInv h1 h2 hl

/-- hence the concrete collapse keeps the surface invariant of the live triangle list -/
theorem concrete_merge_inv {fn : Fn R} {k : SplitConsts R} {c c' : Cell R} {e : Edge} {chk chk' : CheckSet}
    {kA kB : Nat} {FA NA FB NB : Nat → Nat}
    (h : mergeEdge fn k c e chk = .ok (c', chk')) (H : MergeHyp c e kA kB FA NA FB NB) (hI : Inv (Remesh.abs c))
    {t1 t2 : Tri} (h1 : findDir (Remesh.abs c) e.n1 e.n2 = some t1) (h2 : findDir (Remesh.abs c) e.n2 e.n1 = some t2)
    (hl : LinkCond (Remesh.abs c) e.n1 e.n2 (opp t1 e.n1 e.n2) (opp t2 e.n2 e.n1)) : Inv (Remesh.abs c') :=
  mergeEdge_inv h H hI h1 h2 hl

/-- the Boolean check the driver evaluates before every executed collapse (`chkMergeHyps`: the two fans are computed by
    `fanOf`) implies the hypotheses of `merge_refines` and `concrete_merge_inv` -/
theorem merge_checks_sound (c : Cell R) (e : Edge) (h : chkMergeHyps c e = true) :
    ∃ kA kB FA NA FB NB, MergeHyp c e kA kB FA NA FB NB ∧ Inv (Remesh.abs c) ∧
      ∃ t1 t2, findDir (Remesh.abs c) e.n1 e.n2 = some t1 ∧ findDir (Remesh.abs c) e.n2 e.n1 = some t2 ∧
        LinkCond (Remesh.abs c) e.n1 e.n2 (opp t1 e.n1 e.n2) (opp t2 e.n2 e.n1) :=
  mergeHyps_of_chk h

/-- what the flag `mhyps` of the driver means: a collapse executed in a state that passed `chkMergeHyps` IS the abstract
    collapse, keeps the surface invariant, the face free list and the complete index -/
theorem merge_checked {fn : Fn R} {k : SplitConsts R} {c c' : Cell R} {e : Edge} {chk chk' : CheckSet}
    (hc : chkMergeHyps c e = true) (h : mergeEdge fn k c e chk = .ok (c', chk')) :
    Remesh.abs c' = collapseT (Remesh.abs c) e.n1 e.n2 (Simu.C11.newSlot c) ∧ Inv (Remesh.abs c') ∧
      FaceFreeOk c' ∧ EdgeIdxComplete c' := by
  obtain ⟨kA, kB, FA, NA, FB, NB, H, hI, t1, t2, h1, h2, hl⟩ := merge_checks_sound c e hc
  exact ⟨mergeEdge_abs h H, mergeEdge_inv h H hI h1 h2 hl, (mergeEdge_refines h H).2.1, (mergeEdge_refines h H).2.2⟩

/-! #### the guard of the collapse

  `can_be_merged` walks the two fans (`get_connected_nodes`), sorts the two neighbour lists with `Array.qsort` and counts
  the common neighbours.  That `Array.qsort` returns a sorted permutation is proved in `Lemmas/RemeshRefine.lean`
  (permutation) and `Lemmas/QSortSorted.lean` (sorted): `sortNat_sorted`. -/

/-- **the code collapses exactly the edges that satisfy the link condition** -/
theorem merge_guard_iff {c : Cell R} {e E : Edge} (hI : EdgeIdxComplete c)
    (hentry : getEdge c e.n1 e.n2 = some E)
    (hord : (E.f1 = e.f1 ∧ E.f2 = e.f2) ∨ (E.f1 = e.f2 ∧ E.f2 = e.f1))
    (mA : VertexManifold c e.n1) (mB : VertexManifold c e.n2) {t1 t2 : Tri}
    (h1 : findDir (Remesh.abs c) e.n1 e.n2 = some t1) (h2 : findDir (Remesh.abs c) e.n2 e.n1 = some t2) :
    canBeMerged c e = .ok true ↔ LinkCond (Remesh.abs c) e.n1 e.n2 (opp t1 e.n1 e.n2) (opp t2 e.n2 e.n1) :=
  Remesh.merge_guard_iff hI hentry hord mA mB (sortSpecAt c e) h1 h2

theorem canBeMerged_sound {c : Cell R} {e E : Edge} (hI : EdgeIdxComplete c)
    (hentry : getEdge c e.n1 e.n2 = some E)
    (hord : (E.f1 = e.f1 ∧ E.f2 = e.f2) ∨ (E.f1 = e.f2 ∧ E.f2 = e.f1))
    (mA : VertexManifold c e.n1) (mB : VertexManifold c e.n2) {t1 t2 : Tri}
    (h1 : findDir (Remesh.abs c) e.n1 e.n2 = some t1) (h2 : findDir (Remesh.abs c) e.n2 e.n1 = some t2)
    (h : canBeMerged c e = .ok true) :
    LinkCond (Remesh.abs c) e.n1 e.n2 (opp t1 e.n1 e.n2) (opp t2 e.n2 e.n1) :=
  Remesh.canBeMerged_sound hI hentry hord mA mB (sortSpecAt c e) h1 h2 h

/-- `can_be_merged` returns (never `fuel` / `badopt` / `ub`) when the index is complete and both end nodes are manifold -/
theorem canBeMerged_defined {c : Cell R} {e E : Edge} (hI : EdgeIdxComplete c)
    (hentry : getEdge c e.n1 e.n2 = some E)
    (hord : (E.f1 = e.f1 ∧ E.f2 = e.f2) ∨ (E.f1 = e.f2 ∧ E.f2 = e.f1))
    (mA : VertexManifold c e.n1) (mB : VertexManifold c e.n2) : ∃ r, canBeMerged c e = .ok r :=
  Remesh.canBeMerged_defined hI hentry hord mA mB

/-- `sortNat` (= `Array.qsort` with `<` on the node ids) returns a sorted list -/
theorem sortNat_sorted (l : List Nat) : (sortNat l).Pairwise (· ≤ ·) := sortSpec l

/-- the Boolean test `chkSortSpec` implies `SortSpecAt` (kept for the driver; `SortSpecAt` holds for every call) -/
theorem sortspec_check_sound (c : Cell R) (e : Edge) (h : chkSortSpec c e = true) : SortSpecAt c e :=
  sortSpecAt_of_B h

/-- **the collapse as `refine_mesh` performs it** (guard `can_be_merged` true, then `merge_edge` returned): the link
    condition is not a hypothesis any more -/
theorem merge_executed_refines {fn : Fn R} {k : SplitConsts R} {c c' : Cell R} {e E : Edge} {chk chk' : CheckSet}
    (hg : canBeMerged c e = .ok true) (h : mergeEdge fn k c e chk = .ok (c', chk'))
    (hI : EdgeIdxComplete c) (hf : FaceFreeOk c) (hentry : getEdge c e.n1 e.n2 = some E)
    (hord : (E.f1 = e.f1 ∧ E.f2 = e.f2) ∨ (E.f1 = e.f2 ∧ E.f2 = e.f1))
    (mA : VertexManifold c e.n1) (mB : VertexManifold c e.n2)
    (hfresh : Fresh (Remesh.abs c) (Simu.C11.newSlot c)) (hInv : Inv (Remesh.abs c)) :
    Remesh.abs c' = collapseT (Remesh.abs c) e.n1 e.n2 (Simu.C11.newSlot c) ∧ Inv (Remesh.abs c') ∧
      FaceFreeOk c' ∧ EdgeIdxComplete c' :=
  mergeEdge_executed hg h hI hf hentry hord mA mB hfresh hInv (sortSpecAt c e)

/-! #### vertex-manifoldness of the concrete state

  The fan form (`VertexManifold c v`: the live face SLOTS around `v` form one cycle — what the collapse proof consumes and
  what the driver checks) is, under the surface invariant, the same as connectedness of the link of `v` in the live
  triangle list (`VMC`, the notion `reach_vertex_manifold` is about); the three concrete operations preserve it. -/

theorem vertex_manifold_iff_link_connected {c : Cell R} (hI : Inv (Remesh.abs c)) {v x x' : Nat}
    (h0 : Lk (Remesh.abs c) v x x') : VertexManifold c v ↔ VMC (Remesh.abs c) v :=
  vertexManifold_iff_vmc hI h0

theorem concrete_split_vmc {fn : Fn R} {k : SplitConsts R} {c c' : Cell R} {e : Edge} {chk chk' : CheckSet}
    (h : splitEdge fn k c e chk = .ok (c', chk')) (hf : FaceFreeOk c) (hI : Inv (Remesh.abs c))
    (hab : e.n1 ≠ e.n2) (he : EdgeFaces c e e.n1 e.n2) (hfresh : Fresh (Remesh.abs c) (Simu.C11.newSlot c))
    (hg : ∀ t1 t2, findDir (Remesh.abs c) e.n1 e.n2 = some t1 → findDir (Remesh.abs c) e.n2 e.n1 = some t2 →
      opp t1 e.n1 e.n2 ≠ opp t2 e.n2 e.n1) (hv : AllVMC (Remesh.abs c)) : AllVMC (Remesh.abs c') :=
  splitEdge_vmc h hf hI hab he hfresh hg hv

theorem concrete_swap_vmc {fn : Fn R} {c c' : Cell R} {e : Edge}
    (h : swapEdge fn c e = .ok c') (hf : FaceFreeOk c) (hI : Inv (Remesh.abs c))
    (hab : e.n1 ≠ e.n2) (he : EdgeFaces c e e.n1 e.n2) (hidx : EdgeIdxSound c)
    (hg : SwapGuard (Remesh.abs c) e.n1 e.n2) (hv : AllVMC (Remesh.abs c)) : AllVMC (Remesh.abs c') :=
  swapEdge_vmc h hf hI hab he hidx hg hv

theorem concrete_merge_vmc {fn : Fn R} {k : SplitConsts R} {c c' : Cell R} {e : Edge} {chk chk' : CheckSet}
    {kA kB : Nat} {FA NA FB NB : Nat → Nat}
    (h : mergeEdge fn k c e chk = .ok (c', chk')) (H : MergeHyp c e kA kB FA NA FB NB) (hI : Inv (Remesh.abs c))
    {t1 t2 : Tri} (h1 : findDir (Remesh.abs c) e.n1 e.n2 = some t1) (h2 : findDir (Remesh.abs c) e.n2 e.n1 = some t2)
    (hl : LinkCond (Remesh.abs c) e.n1 e.n2 (opp t1 e.n1 e.n2) (opp t2 e.n2 e.n1)) (hv : AllVMC (Remesh.abs c)) :
    AllVMC (Remesh.abs c') :=
  mergeEdge_vmc h H hI h1 h2 hl hv

/-- the executed collapse with vertex-manifoldness in its invariant form: all hypotheses about the surface are invariants
    (`Inv`, `AllVMC`, `EdgeIdxComplete`, `FaceFreeOk`), all of them hold again afterwards -/
theorem merge_executed_invariants {fn : Fn R} {k : SplitConsts R} {c c' : Cell R} {e E : Edge} {chk chk' : CheckSet}
    (hg : canBeMerged c e = .ok true) (h : mergeEdge fn k c e chk = .ok (c', chk'))
    (hI : EdgeIdxComplete c) (hf : FaceFreeOk c) (hentry : getEdge c e.n1 e.n2 = some E)
    (hord : (E.f1 = e.f1 ∧ E.f2 = e.f2) ∨ (E.f1 = e.f2 ∧ E.f2 = e.f1))
    (hv : AllVMC (Remesh.abs c)) (hfresh : Fresh (Remesh.abs c) (Simu.C11.newSlot c)) (hInv : Inv (Remesh.abs c)) :
    Remesh.abs c' = collapseT (Remesh.abs c) e.n1 e.n2 (Simu.C11.newSlot c) ∧ Inv (Remesh.abs c') ∧
      FaceFreeOk c' ∧ EdgeIdxComplete c' ∧ AllVMC (Remesh.abs c') :=
  mergeEdge_executed_vmc hg h hI hf hentry hord hv hfresh hInv (sortSpecAt c e)

/-! #### total correctness of the collapse -/

/-- under the hypotheses of `merge_refines`, and if the two end nodes are slots of the node array, `merge_edge` returns:
    the two `replace_node` walks never run out of fuel and never hit a missing face id / edge / face, neither do the two
    `delete_face` calls -/
theorem merge_defined {fn : Fn R} {k : SplitConsts R} {c : Cell R} {e : Edge} {chk : CheckSet}
    {kA kB : Nat} {FA NA FB NB : Nat → Nat} (H : MergeHyp c e kA kB FA NA FB NB)
    {na nb : Node R} (hna : c.nodes[e.n1]? = some na) (hnb : c.nodes[e.n2]? = some nb) :
    ∃ r, mergeEdge fn k c e chk = .ok r :=
  mergeEdge_defined H hna hnb

/-- in a state that passes the driver's check the collapse is defined and is the abstract collapse -/
theorem merge_checked_defined {fn : Fn R} {k : SplitConsts R} {c : Cell R} {e : Edge} {chk : CheckSet}
    (hc : chkMergeHyps c e = true) {na nb : Node R} (hna : c.nodes[e.n1]? = some na)
    (hnb : c.nodes[e.n2]? = some nb) :
    ∃ c' chk', mergeEdge fn k c e chk = .ok (c', chk') ∧
      Remesh.abs c' = collapseT (Remesh.abs c) e.n1 e.n2 (Simu.C11.newSlot c) ∧ Inv (Remesh.abs c') ∧
      FaceFreeOk c' ∧ EdgeIdxComplete c' := by
  obtain ⟨kA, kB, FA, NA, FB, NB, H, _⟩ := merge_checks_sound c e hc
  obtain ⟨⟨c', chk'⟩, h⟩ := mergeEdge_defined (fn := fn) (k := k) (chk := chk) H hna hnb
  exact ⟨c', chk', h, merge_checked hc h⟩

/-- `delete_face` on a non-degenerate live face of a complete index returns -/
theorem delete_face_defined {c : Cell R} {fid : Nat} {t : Tri} (hI : EdgeIdxComplete c)
    (ht : (slots c)[fid]? = some (some t)) (hn : t.1 ≠ t.2.1 ∧ t.2.1 ≠ t.2.2 ∧ t.2.2 ≠ t.1) :
    ∃ c', deleteFace c fid = .ok c' :=
  deleteFace_defined hI ht hn

/-! #### the edge index stays sound and complete under all three operations -/

theorem merge_keeps_index {fn : Fn R} {k : SplitConsts R} {c c' : Cell R} {e : Edge} {chk chk' : CheckSet}
    {kA kB : Nat} {FA NA FB NB : Nat → Nat}
    (h : mergeEdge fn k c e chk = .ok (c', chk')) (H : MergeHyp c e kA kB FA NA FB NB) :
    EdgeIdxComplete c' ∧ FaceFreeOk c' :=
  ⟨(mergeEdge_refines h H).2.2, (mergeEdge_refines h H).2.1⟩

theorem split_keeps_index {fn : Fn R} {k : SplitConsts R} {c c' : Cell R} {e : Edge} {chk chk' : CheckSet}
    (h : splitEdge fn k c e chk = .ok (c', chk')) (hf : FaceFreeOk c) (hI : Inv (Remesh.abs c))
    (hidx : EdgeIdxComplete c) (hab : e.n1 ≠ e.n2) (he : EdgeFaces c e e.n1 e.n2)
    (hfresh : Fresh (Remesh.abs c) (Simu.C11.newSlot c)) : EdgeIdxComplete c' ∧ FaceFreeOk c' :=
  ⟨splitEdge_idx h hf hidx hab he hfresh, (splitEdge_refines h hf hI hab he).2⟩

theorem swap_keeps_index {fn : Fn R} {c c' : Cell R} {e : Edge}
    (h : swapEdge fn c e = .ok c') (hf : FaceFreeOk c) (hI : Inv (Remesh.abs c))
    (hab : e.n1 ≠ e.n2) (he : EdgeFaces c e e.n1 e.n2) (hidx : EdgeIdxComplete c)
    (hg : SwapGuard (Remesh.abs c) e.n1 e.n2) : EdgeIdxComplete c' ∧ FaceFreeOk c' :=
  ⟨swapEdge_idx h hf hI hab he hidx hg, (swapEdge_refines' h hf hI hab he hidx hg).2⟩

/-- under the surface invariant a complete index is sound: `swap_refines` needs no separate `EdgeIdxSound` -/
theorem index_sound_of_complete {c : Cell R} (hidx : EdgeIdxComplete c) (hI : Inv (Remesh.abs c)) : EdgeIdxSound c :=
  edgeIdxSound_of_complete hidx hI
end refinement

/-! ### whole passes of `refine_mesh`: the run-time hypotheses become invariants

  `Remesh.CellOk c` = consistent free list of face slots ∧ sound and complete edge index ∧ consistent node store (free
  queue = the unused slots, every node of a live face is used) ∧ `Inv (abs c)` ∧ every vertex link connected.
  `refine_pass_preserves`: it is preserved by a whole pass (swap pass + split / collapse loop), for every outcome — so the
  hypotheses of `split_refines`, `swap_refines`, `merge_executed_refines`, which the driver evaluates before every
  executed operation, hold at EVERY operation of EVERY pass once they hold for the cell the pass starts from.
  The crux is the check set of `refine_mesh` (`Remesh.ChkOk`): popped edges are acted on without a new look-up. -/
section passes
open Simu.Remesh
variable {R : Type} [Add R] [Sub R] [Mul R] [Div R] [Neg R] [Lit R] [LT R] [LE R] [DecidableLT R] [DecidableLE R] [DecidableEq R]

/-- the abstract operations of a pass as operations of this file -/
def ofAOp : AOp → Op
  | .split a b e => .split a b e
  | .swap a b => .swap a b
  | .collapse a b i => .collapse a b i

theorem apply_ofAOp (T : List Tri) (op : AOp) : apply T (ofAOp op) = op.apply T := by cases op <;> rfl

theorem enabled_ofAOp {T : List Tri} {op : AOp} (en : op.Enabled T) : Enabled T (ofAOp op) := by
  cases op <;> exact en

/-- reachability in which every operation may be followed by a reordering of the triangle list and rotations of
    triangles (what the concrete operations produce: slot order, `check_face_winding_order`) -/
inductive ReachUpTo (T₀ : List Tri) : List Tri → Prop where
  | refl : ReachUpTo T₀ T₀
  | step {T T' : List Tri} (h : ReachUpTo T₀ T) (op : Op) (en : Enabled T op) (he : TriEquiv T' (apply T op)) :
      ReachUpTo T₀ T'

theorem reach_upTo {T₀ T : List Tri} (r : Reach T₀ T) : ReachUpTo T₀ T := by
  induction r with
  | refl => exact .refl
  | step _ op en ih => exact .step ih op en (TriEquiv.refl _)

theorem reachUpTo_inv {T₀ T : List Tri} (h₀ : Inv T₀) (r : ReachUpTo T₀ T) : Inv T := by
  induction r with
  | refl => exact h₀
  | step _ op en he ih => exact (inv_triEquiv he).2 (step_inv ih op en)

theorem reachUpTo_vertex_manifold {T₀ T : List Tri} (h₀ : Inv T₀) (hv : AllVMC T₀) (r : ReachUpTo T₀ T) :
    AllVMC T := by
  induction r with
  | refl => exact hv
  | step hr op en he ih => exact vmc_triEquiv he (step_vmc (reachUpTo_inv h₀ hr) ih op en)

/-- **V − E + F along histories up to reordering** -/
theorem reachUpTo_chi {T₀ T : List Tri} (h₀ : Inv T₀) (r : ReachUpTo T₀ T) : chiZ T = chiZ T₀ := by
  induction r with
  | refl => rfl
  | step hr op en he ih => rw [chiZ_triEquiv he, step_chi (reachUpTo_inv h₀ hr) op en, ih]

theorem hist_reach {T₀ T : List Tri} {ops : List AOp} (h : Hist T₀ ops T) : ReachUpTo T₀ T := by
  induction h with
  | refl => exact .refl
  | step _ op en he ih => exact .step ih (ofAOp op) (enabled_ofAOp en) (by rw [apply_ofAOp]; exact he)

/-- **a whole pass preserves the invariants** (every parameter set, fuel, swap flag; every outcome: returned, threw,
    out of fuel; see the note at `Remesh.refineMesh_preserves` about the state handed back with an exception) -/
theorem refine_pass_preserves (fn : Fn R) (k : RefineConsts R) (lminSq lmaxSq : R) (swapOn : Bool) (c : Cell R)
    (maxIter : Nat) (hc : CellOk c) : CellOk (refineMesh fn k lminSq lmaxSq swapOn c maxIter).1 :=
  (refineMesh_preserves fn k lminSq lmaxSq swapOn c maxIter hc).ok

/-- **a whole pass is a history of enabled abstract operations**: the live triangles at the end are reached from those at
    the start by enabled splits, swaps and collapses (up to reordering); the splits and collapses are, in order, the
    entries of the log; every entry of the log passed the length test of the code -/
theorem refine_pass_history (fn : Fn R) (k : RefineConsts R) (lminSq lmaxSq : R) (swapOn : Bool) (c : Cell R)
    (maxIter : Nat) (hc : CellOk c) :
    ∃ ops : List AOp, Hist (Remesh.abs c) ops (Remesh.abs (refineMesh fn k lminSq lmaxSq swapOn c maxIter).1) ∧
      ops.filterMap AOp.tag =
        (refineMesh fn k lminSq lmaxSq swapOn c maxIter).2.2.reverse.map (fun p => (p.1, p.2.1, p.2.2.1)) ∧
      ∀ p ∈ (refineMesh fn k lminSq lmaxSq swapOn c maxIter).2.2, LogGuard lminSq lmaxSq p := by
  obtain ⟨_, ops, lg, hl, hH, ht, hg, _⟩ := refineMesh_preserves fn k lminSq lmaxSq swapOn c maxIter hc
  rw [List.append_nil] at hl
  rw [hl]
  exact ⟨ops, hH, ht, hg⟩

theorem refine_pass_reach (fn : Fn R) (k : RefineConsts R) (lminSq lmaxSq : R) (swapOn : Bool) (c : Cell R)
    (maxIter : Nat) (hc : CellOk c) :
    ReachUpTo (Remesh.abs c) (Remesh.abs (refineMesh fn k lminSq lmaxSq swapOn c maxIter).1) := by
  obtain ⟨ops, hH, _⟩ := refine_pass_history fn k lminSq lmaxSq swapOn c maxIter hc
  exact hist_reach hH

/-- **Euler's number (hence the genus) is preserved by whole passes** -/
theorem refine_pass_chi (fn : Fn R) (k : RefineConsts R) (lminSq lmaxSq : R) (swapOn : Bool) (c : Cell R)
    (maxIter : Nat) (hc : CellOk c) :
    chiZ (Remesh.abs (refineMesh fn k lminSq lmaxSq swapOn c maxIter).1) = chiZ (Remesh.abs c) :=
  reachUpTo_chi hc.inv (refine_pass_reach fn k lminSq lmaxSq swapOn c maxIter hc)

/-- the check set a pass starts with (a copy of the index) is valid -/
theorem check_set_initial {c : Cell R} (hc : CellOk c) : ChkOk c c.edges := chkOk_init hc.idx

/-- what a valid element of the check set says about the cell: its index entry exists and names the same two faces (in
    one of the two orders), which are two different live faces through both end nodes -/
theorem check_set_entry {c : Cell R} {x : Edge} (hc : CellOk c) (h : CopyOk c x) :
    ∃ E, getEdge c x.n1 x.n2 = some E ∧ E.n1 = x.n1 ∧ E.n2 = x.n2 ∧
      ((E.f1 = x.f1 ∧ E.f2 = x.f2) ∨ (E.f1 = x.f2 ∧ E.f2 = x.f1)) ∧ EdgeFaces c x x.n1 x.n2 ∧ x.n1 ≠ x.n2 :=
  h.entry hc.idx hc.inv

/-- one split of the loop: invariants, check set, enabledness, refinement -/
theorem split_step_preserves {fn : Fn R} {k : SplitConsts R} {c c' : Cell R} {e : Edge} {chk chk' : CheckSet}
    (h : splitEdge fn k c e chk = .ok (c', chk')) (hc : CellOk c) (hx : CopyOk c e) (hchk : ChkOk c chk)
    (hne : ∀ z ∈ chk, z.key ≠ e.key) :
    CellOk c' ∧ ChkOk c' chk' ∧ Enabled (Remesh.abs c) (.split e.n1 e.n2 (Simu.C11.newSlot c)) ∧
      (Remesh.abs c').Perm (splitT (Remesh.abs c) e.n1 e.n2 (Simu.C11.newSlot c)) := by
  obtain ⟨a, b, d1, d2, d3, _⟩ := splitEdge_pass h hc hx hchk hne
  exact ⟨a, b, ⟨d1, d2⟩, d3⟩

/-- one collapse of the loop (the guard `can_be_merged` answered `true`) -/
theorem merge_step_preserves {fn : Fn R} {k : SplitConsts R} {c c' : Cell R} {e : Edge} {chk chk' : CheckSet}
    (hg : canBeMerged c e = .ok true) (h : mergeEdge fn k c e chk = .ok (c', chk'))
    (hc : CellOk c) (hx : CopyOk c e) (hchk : ChkOk c chk) :
    CellOk c' ∧ ChkOk c' chk' ∧ Enabled (Remesh.abs c) (.collapse e.n1 e.n2 (Simu.C11.newSlot c)) ∧
      Remesh.abs c' = collapseT (Remesh.abs c) e.n1 e.n2 (Simu.C11.newSlot c) := by
  obtain ⟨a, b, d, t1, t2, e1, e2, e3, e4, _⟩ := mergeEdge_pass hg h hc hx hchk
  exact ⟨a, b, ⟨t1, t2, e1, e2, e3, e4⟩, d⟩

/-- one swap of the swap pass: either the code's own guards fired (nothing changed) or the abstract guard held — it is
    DERIVED from the run, not assumed -/
theorem swap_step_preserves {fn : Fn R} {c c' : Cell R} {e : Edge}
    (h : swapEdge fn c e = .ok c') (hc : CellOk c) (hx : CopyOk c e) :
    CellOk c' ∧ (c' = c ∨ (Enabled (Remesh.abs c) (.swap e.n1 e.n2) ∧
      TriEquiv (Remesh.abs c') (swapT (Remesh.abs c) e.n1 e.n2))) :=
  swapEdge_pass h hc hx

/-- a pass on a valid cell never reads a released node slot (`Remesh.refineLive`, the decidable trace predicate of
    `Model/RemeshLive.lean` that the C14 driver used to evaluate on every pass) -/
theorem refine_pass_live (fn : Fn R) (k : RefineConsts R) (lminSq lmaxSq : R) (swapOn : Bool) (c : Cell R)
    (maxIter : Nat) (hc : CellOk c) : refineLive fn k lminSq lmaxSq swapOn c maxIter = true :=
  refineLive_of_invariants fn k lminSq lmaxSq swapOn c maxIter hc

/-- a Boolean test of the invariants (meant for the cell a run starts from) is sound -/
theorem cell_ok_check_sound {c : Cell R} (h : cellOkB c = true) : CellOk c := cellOk_of_B h

end passes

/-- non-vacuity of the pass theorems: the octahedron built by `initCell` over ℚ satisfies `CellOk` (kernel evaluation of
    `cellOkB`) -/
theorem cell_ok_nonvacuous : Remesh.CellOk Remesh.octaCell := Remesh.octaCell_ok

/-! ### non-vacuity -/
def tetra : List Tri := [(0, 1, 2), (0, 3, 1), (0, 2, 3), (1, 3, 2)]
def octa : List Tri := [(0, 2, 4), (2, 1, 4), (1, 3, 4), (3, 0, 4), (2, 0, 5), (1, 2, 5), (3, 1, 5), (0, 3, 5)]

instance (T : List Tri) : Decidable (NonDeg T) := by unfold NonDeg; infer_instance
instance (T : List Tri) : Decidable (Simple T) := by unfold Simple; infer_instance
instance (T : List Tri) : Decidable (Closed T) := by unfold Closed; infer_instance
instance (T : List Tri) (n : Nat) : Decidable (Fresh T n) := by unfold Fresh; infer_instance

theorem genus0_start : Inv octa ∧ chiZ octa = 2 := by
  refine ⟨⟨by decide, by decide, by decide⟩, by decide⟩

example : Inv tetra ∧ chiZ tetra = 2 := ⟨⟨by decide, by decide, by decide⟩, by decide⟩
/-- the octahedron admits an enabled split, an enabled swap and an enabled collapse -/
example : Enabled octa (.split 0 2 6) := by
  refine ⟨by decide, ?_⟩
  intro t1 t2 h1 h2
  have e1 : findDir octa 0 2 = some (0, 2, 4) := by decide
  have e2 : findDir octa 2 0 = some (2, 0, 5) := by decide
  rw [e1] at h1; rw [e2] at h2; cases h1; cases h2; decide

/-- non-vacuity of the collapse refinement: the edge 0–2 of the octahedron (model state built by `initCell` over ℚ)
    passes the driver's check `chkMergeHyps`, `merge_edge` succeeds, and the result is the abstract collapse into node 6 -/
theorem merge_nonvacuous : Remesh.chkMergeHyps Remesh.octaCell Remesh.e02 = true ∧
    ∃ c' chk', Remesh.mergeEdge Remesh.fnQ Gen.splitConsts Remesh.octaCell Remesh.e02 [] = .ok (c', chk') ∧
      Remesh.abs c' = collapseT octa 0 2 6 ∧ Inv (Remesh.abs c') ∧ Remesh.EdgeIdxComplete c' := by
  have hc : Remesh.chkMergeHyps Remesh.octaCell Remesh.e02 = true := by decide +kernel
  obtain ⟨⟨c', chk'⟩, h⟩ := Remesh.ok_of_okB
    (x := Remesh.mergeEdge Remesh.fnQ Gen.splitConsts Remesh.octaCell Remesh.e02 []) (by decide +kernel)
  obtain ⟨r1, r2, _, r4⟩ := merge_checked hc h
  have e : collapseT (Remesh.abs Remesh.octaCell) Remesh.e02.n1 Remesh.e02.n2 (Simu.C11.newSlot Remesh.octaCell) =
      collapseT octa 0 2 6 := by decide +kernel
  rw [e] at r1
  exact ⟨hc, c', chk', h, r1, r2, r4⟩

end Simu.C01
