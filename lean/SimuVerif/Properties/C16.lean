import SimuVerif.Lemmas.VtkRebase
/-
  C16 — mesh files written by the simulator are read back as the same tissue.

  Objects (Model/Vtk.lean, constants regenerated from the C++ into Gen/VtkConsts.lean on every run):
  `writeCells F pop` is `mesh_writer::write` for the cell-data file (`cell::rebase` of every cell, header,
  POINTS, coordinates through `F.fmt` = `format_number(x, "%.4e")`, CELLS, CELL_TYPES, CELL_DATA arrays);
  `read P toks = assemble P (sectionsOf toks)` is `mesh_reader` (constructor, `read()`, `get_cell_types()`)
  with `P.stod` = `std::stod`.  `assemble` — every check and the global→local renumbering through the
  ordered set of used node ids — is shared with the character-level reader of Model/VtkText.lean, which
  the correspondence run compares with the real `mesh_reader` on every generated file.

  All statements are for ALL populations (any number of cells, any mesh sizes, any pattern of free
  slots, any scalar types `Rw`, `Rr`), by induction over cells, faces and nodes.
-/
namespace Simu.C16
open Simu Simu.Vtk Simu.Gen.Vtk
variable {Rw Rr : Type}

/-! ## hypotheses -/

/-- no free node slot, no free face slot -/
def NoFree (c : Cell Rw) : Prop := (∀ n ∈ c.nodes, n.used = true) ∧ (∀ f ∈ c.faces, f.used = true)

/-- a cell without free slots whose faces refer to existing nodes and whose nodes are all used by a
    face (what `cell::rebase` leaves, see `rebase_compact`) -/
structure Compact (c : Cell Rw) : Prop where
  noFree : NoFree c
  inRange : FaceInRange c
  covered : Covered c

/-- the class invariant of a cell with free slots: a used face refers to used node slots, a used
    node slot is referred to by a used face (`cell::remove_unused_nodes` frees the others at start-up,
    the local mesh operations free a node together with its last face) -/
structure Valid (c : Cell Rw) : Prop where
  inRange : ∀ f ∈ c.faces, f.used = true → ∀ i ∈ [f.a, f.b, f.c], ∃ n, c.nodes[i]? = some n ∧ n.used = true
  covered : ∀ i n, c.nodes[i]? = some n → n.used = true → ∃ f ∈ c.faces, f.used = true ∧ (f.a = i ∨ f.b = i ∨ f.c = i)

/-- the counts the reader passes through `std::stoi` fit in an `int` -/
structure Fits (cs : List (Cell Rw)) : Prop where
  points : (cs.map (fun c => c.nodes.length)).sum ≤ intMax
  cells : cs.length ≤ intMax
  line : ∀ c ∈ cs, cellIntSize c ≤ intMax

/-! ## `cell::rebase` -/

/-- `cell::rebase` of a valid cell leaves a cell without free slots, with faces in range and every node used -/
theorem rebase_compact (c : Cell Rw) (hv : Valid c) : Compact (rebase c) := by
  refine ⟨⟨?_, ?_⟩, ?_, ?_⟩
  · intro n hn
    simp only [rebase, List.mem_filter] at hn
    exact hn.2
  · intro f hf
    simp only [rebase, List.mem_map] at hf
    obtain ⟨g, _, rfl⟩ := hf
    rfl
  · intro f hf
    simp only [rebase, List.mem_map, List.mem_filter] at hf
    obtain ⟨g, ⟨hg, hgu⟩, rfl⟩ := hf
    have h := hv.inRange g hg hgu
    obtain ⟨na, ha1, ha2⟩ := h g.a (by simp)
    obtain ⟨nb, hb1, hb2⟩ := h g.b (by simp)
    obtain ⟨nc, hc1, hc2⟩ := h g.c (by simp)
    simp only [rebase, renum_eq_rank _ _ _ ha1 ha2, renum_eq_rank _ _ _ hb1 hb2, renum_eq_rank _ _ _ hc1 hc2]
    exact ⟨rank_lt _ _ _ ha1 ha2, rank_lt _ _ _ hb1 hb2, rank_lt _ _ _ hc1 hc2⟩
  · intro j hj
    simp only [rebase] at hj
    obtain ⟨i, n, h1, h2, h3⟩ := exists_rank c.nodes j hj
    obtain ⟨g, hg, hgu, hgi⟩ := hv.covered i n h1 h2
    refine ⟨⟨renum c.nodes g.a, renum c.nodes g.b, renum c.nodes g.c, true⟩, ?_, ?_⟩
    · simp only [rebase, List.mem_map, List.mem_filter]
      exact ⟨g, ⟨hg, hgu⟩, rfl⟩
    · rcases hgi with h | h | h
      · left; simp only; rw [h, renum_eq_rank _ _ _ h1 h2, h3]
      · right; left; simp only; rw [h, renum_eq_rank _ _ _ h1 h2, h3]
      · right; right; simp only; rw [h, renum_eq_rank _ _ _ h1 h2, h3]

/-- a cell without free slots is written as it is: `cell::rebase` does not renumber anything -/
theorem renumbering_is_identity_when_compact (c : Cell Rw) (h : NoFree c) : rebase c = c := by
  obtain ⟨hn, hf⟩ := h
  have hall : c.nodes.all (·.used) = true := List.all_eq_true.2 hn
  have h1 : c.nodes.filter (·.used) = c.nodes := List.filter_eq_self.2 hn
  have h2 : c.faces.filter (·.used) = c.faces := List.filter_eq_self.2 hf
  have h3 : ∀ i, renum c.nodes i = i := fun i => by simp [renum, hall]
  have h4 : c.faces.map (fun f => (⟨f.a, f.b, f.c, true⟩ : FaceSlot)) = c.faces := by
    conv => rhs; rw [← List.map_id c.faces]
    apply List.map_congr_left
    intro f hfm
    have := hf f hfm
    cases f
    simp_all
  cases c
  simp only [rebase] at h1 h2 h3 h4 ⊢
  simp only [h1, h2, h3, h4]

theorem rebase_idempotent (c : Cell Rw) (hv : Valid c) : rebase (rebase c) = rebase c :=
  renumbering_is_identity_when_compact _ (rebase_compact c hv).noFree

/-- the compaction keeps the order of the nodes: the new ids of used slots are strictly increasing in the old ids -/
theorem rebase_order_preserving (c : Cell Rw) (i j : Nat) (ni nj : NodeSlot Rw) (hi : c.nodes[i]? = some ni) (hui : ni.used = true)
    (hj : c.nodes[j]? = some nj) (huj : nj.used = true) (hij : i < j) : renum c.nodes i < renum c.nodes j := by
  rw [renum_eq_rank _ _ _ hi hui, renum_eq_rank _ _ _ hj huj]
  exact rank_strictMono c.nodes i j ni hi hui hij

/-- the renumbering of `cell::rebase` moves ids, not geometry: the node a used face refers to after
    the compaction is the node slot it referred to before -/
theorem rebase_preserves_geometry (c : Cell Rw) (hv : Valid c) (f : FaceSlot) (hf : f ∈ c.faces) (hu : f.used = true) :
    (rebase c).nodes[renum c.nodes f.a]? = c.nodes[f.a]? ∧ (rebase c).nodes[renum c.nodes f.b]? = c.nodes[f.b]?
      ∧ (rebase c).nodes[renum c.nodes f.c]? = c.nodes[f.c]? := by
  have h := hv.inRange f hf hu
  obtain ⟨na, ha1, ha2⟩ := h f.a (by simp)
  obtain ⟨nb, hb1, hb2⟩ := h f.b (by simp)
  obtain ⟨nc, hc1, hc2⟩ := h f.c (by simp)
  simp only [rebase, renum_eq_rank _ _ _ ha1 ha2, renum_eq_rank _ _ _ hb1 hb2, renum_eq_rank _ _ _ hc1 hc2,
    filter_getElem?_rank _ _ _ ha1 ha2, filter_getElem?_rank _ _ _ hb1 hb2, filter_getElem?_rank _ _ _ hc1 hc2, ha1, hb1, hc1]
  exact ⟨trivial, trivial, trivial⟩

/-! ## the reader on the file of the writer -/

/-- reading the file of cells without free slots -/
theorem read_fileToks (F : Fmt Rw) (P : NumSem Rr) (Q : Rw → Rr) (cs : List (Cell Rw))
    (hc : ∀ c ∈ cs, Compact c)
    (hparse : ∀ x ∈ cs.flatMap Cell.coords, P.stod (F.fmt x) = .value (Q x) ∧ P.finite (Q x) = true)
    (hver : ∃ v, P.stod ['4', '.', '2'] = .value v)
    (hty : ∀ c ∈ cs, 0 ≤ c.typeId ∧ c.typeId ≤ 32767)
    (hfit : Fits cs)
    (hshort : maxLen (fileToks F cs) ≤ rMaxToken) :
    Vtk.read P (fileToks F cs) = .ok (cs.map (meshOf Q), cs.map (fun c => c.typeId)) := by
  obtain ⟨v, hv⟩ := hver
  have hctor : ctorCheck P (sectionsOf (fileToks F cs)) = .ok () := by
    have hm : (sectionsOf (fileToks F cs)).maxToken = maxLen (fileToks F cs) := rfl
    simp [ctorCheck, hm, Nat.not_lt.2 hshort, version_of_file, hv]
  have hpos : getNodePos P (sectionsOf (fileToks F cs)) = .ok ((cs.flatMap Cell.coords).map Q) := by
    have hconv : mapE (convCoord P) ((cs.flatMap Cell.coords).map F.fmt) = .ok ((cs.flatMap Cell.coords).map Q) :=
      mapE_map_ok (fun x hx => by simp [convCoord, (hparse x hx).1, (hparse x hx).2])
    have hl : ((cs.flatMap Cell.coords).map Q).length / 3 = (cs.map (fun c => c.nodes.length)).sum := by
      rw [List.length_map, coords_length_all]; omega
    have hmem : rCoordTypes.contains kwFloat = true := float_accepted
    simp only [getNodePos, points_of_file, stoi, hfit.points, ↓reduceIte, hmem, not_true_eq_false, hconv, hl, ne_eq]
  have hconn : readCellFaces (sectionsOf (fileToks F cs)) = .ok (connOf 0 cs) := by
    have hchk : mapE checkType (List.replicate cs.length wPolyType) = .ok ((List.replicate cs.length wPolyType).map (fun _ => ())) :=
      mapE_ok_of_forall (fun a ha => by
        have := (List.mem_replicate.1 ha).2
        subst this
        have : rPolyType ≤ intMax := by decide
        simp [checkType, stoi, polyType_eq, this])
    have hlines := mapE_convLine_cells cs 0 (fun c h => (hc c h).inRange) hfit.line (by simpa using hfit.points)
    simp [readCellFaces, cellTypes_of_file, cells_of_file, stoi, hfit.cells, hchk, hlines]
  have hmesh : getCellMesh ((cs.flatMap Cell.coords).map Q) (connOf 0 cs) = .ok (cs.map (meshOf Q)) := by
    have := getCellMesh_cells Q cs 0 [] [] rfl (fun c h => (hc c h).inRange) (fun c h => (hc c h).covered)
    simpa [getCellMesh] using this
  have htys : getCellTypes (sectionsOf (fileToks F cs)) = .ok (cs.map (fun c => c.typeId)) := by
    have hst : mapE stoi (cs.map (fun c => c.typeId.toNat)) = .ok (cs.map (fun c => c.typeId.toNat)) :=
      mapE_stoi_ok (fun x hx => by
        obtain ⟨c, hcm, rfl⟩ := List.mem_map.1 hx
        have := hty c hcm
        have : intMax = 2147483647 := rfl
        omega)
    have hsh : (cs.map (fun c => c.typeId.toNat)).map toShort = cs.map (fun c => c.typeId) := by
      rw [List.map_map]
      apply List.map_congr_left
      intro c hcm
      exact toShort_toNat _ (hty c hcm).1 (hty c hcm).2
    simp [getCellTypes, typeIds_of_file F cs (fun c h => (hty c h).1), hst, hsh]
  simp [Vtk.read, assemble, hctor, hpos, hconn, hmesh, htys]

/-- **Round trip.**  Writing any population of valid cells (free slots allowed) and reading the file
    back gives, cell by cell, the compacted cell: the coordinates at the written precision
    (`Q x` = what `std::stod` returns for the text `sprintf` produced for `x`), the faces over the node
    ids `cell::rebase` assigned, and the cell types. -/
theorem roundtrip (F : Fmt Rw) (P : NumSem Rr) (Q : Rw → Rr) (pop : List (Cell Rw))
    (hne : pop ≠ [])
    (hvalid : ∀ c ∈ pop, Valid c)
    (hfin : ∀ x ∈ (pop.map rebase).flatMap Cell.coords, F.finite x = true)
    (hparse : ∀ x ∈ (pop.map rebase).flatMap Cell.coords, P.stod (F.fmt x) = .value (Q x) ∧ P.finite (Q x) = true)
    (hver : ∃ v, P.stod ['4', '.', '2'] = .value v)
    (hty : ∀ c ∈ pop, 0 ≤ c.typeId ∧ c.typeId ≤ 32767)
    (hfit : Fits (pop.map rebase))
    (hshort : maxLen (fileToks F (pop.map rebase)) ≤ rMaxToken) :
    ∃ toks, writeCells F pop = .ok toks ∧
      Vtk.read P toks = .ok (pop.map (fun c => meshOf Q (rebase c)), pop.map (fun c => c.typeId)) := by
  refine ⟨fileToks F (pop.map rebase), ?_, ?_⟩
  · have h1 : pop.isEmpty = false := by cases pop <;> simp_all
    have h2 : ((pop.map rebase).flatMap Cell.coords).any (fun x => !F.finite x) = false := by
      rw [List.any_eq_false]
      intro x hx
      simp [hfin x hx]
    simp [writeCells, h1, h2]
  · have := read_fileToks F P Q (pop.map rebase)
      (fun c hcm => by obtain ⟨d, hd, rfl⟩ := List.mem_map.1 hcm; exact rebase_compact d (hvalid d hd))
      hparse hver
      (fun c hcm => by obtain ⟨d, hd, rfl⟩ := List.mem_map.1 hcm; exact hty d hd)
      hfit hshort
    rw [List.map_map, List.map_map] at this
    exact this

/-! ## declared counts -/

/-- number of chunks (tokens that are not line breaks) -/
def chunkCount (l : List Token) : Nat := (l.filter (fun t => t != Token.nl)).length

theorem chunkCount_valueToks : ∀ (vs : List Token) (i : Nat), (∀ v ∈ vs, v ≠ Token.nl) → chunkCount (valueToks i vs) = vs.length
  | [], _, _ => rfl
  | v :: vs, i, h => by
    have hv : (v != Token.nl) = true := by simpa using h v (by simp)
    have ih := chunkCount_valueToks vs (i + 1) (fun x hx => h x (by simp [hx]))
    simp only [chunkCount] at ih ⊢
    simp only [valueToks]
    split <;> simp [List.filter_cons, hv, ih]

/-- **The declared counts of the file match its contents** — as the reader's own searches see them:
    * `POINTS n`: 3·n coordinate texts follow;
    * `CELLS n m`: n cell lines follow, m (computed by the writer as Σ(1 + 4·faces) + n) is the number of
      integers on them (Σ(1 + integers after the leading one)), and the leading integer of every line is
      the number of integers that follow it on the line;
    * `CELL_TYPES n`: n type entries follow;
    * every array after `CELL_DATA n` / `FIELD FieldData k` (k = number of arrays) declares n tuples and
      holds n values. -/
theorem counts_consistent (F : Fmt Rw) (cs : List (Cell Rw)) :
    (∃ nums, (sectionsOf (fileToks F cs)).points = some ((cs.map (fun c => c.nodes.length)).sum, kwFloat, nums)
        ∧ nums.length = 3 * (cs.map (fun c => c.nodes.length)).sum)
    ∧ (∃ lines, (sectionsOf (fileToks F cs)).cells = some (some lines)
        ∧ cellsToks cs = [.nl, .nl, .word kwCells, .int lines.length, .int (lines.map (fun l => 1 + l.ints.length)).sum, .nl] ++ cellLines 0 cs
        ∧ ∀ l ∈ lines, l.lead = some l.ints.length)
    ∧ (∃ tys, (sectionsOf (fileToks F cs)).cellTypes = some (cs.length, tys) ∧ tys.length = cs.length)
    ∧ (∀ k name, chunkCount (valueToks 0 (cs.map (arrayValue k name))) = cs.length)
    ∧ dataToks cs = [.nl, .word kwCellData, .int cs.length, .nl] ++ (tokenize wFieldKw ++ (Token.int cellArrays.length :: arrayToks cs 0 cellArrays)) := by
  refine ⟨⟨_, points_of_file F cs, ?_⟩, ⟨_, cells_of_file F cs, ?_, ?_⟩, ⟨_, cellTypes_of_file F cs, by simp⟩, ?_, rfl⟩
  · rw [List.length_map, coords_length_all]; omega
  · -- the two declared numbers of the CELLS line
    have hlen : ∀ (cs : List (Cell Rw)) (off : Nat),
        (List.zipWith (fun l ints => (⟨some l, ints⟩ : CellLine)) (leadsOf cs) (connOf off cs)).length = cs.length := by
      intro cs off; simp [leadsOf_length, connOf_length]
    have hsum : ∀ (cs : List (Cell Rw)) (off : Nat),
        ((List.zipWith (fun l ints => (⟨some l, ints⟩ : CellLine)) (leadsOf cs) (connOf off cs)).map (fun l => 1 + l.ints.length)).sum
          = (cs.map cellIntSize).sum + cs.length := by
      intro cs
      induction cs with
      | nil => intro off; rfl
      | cons c cs ih =>
        intro off
        simp only [leadsOf, connOf, List.zipWith_cons_cons, List.map_cons, List.sum_cons, ih, cellInts_length, List.length_cons]
        omega
    simp only [cellsToks, hlen, hsum]
  · intro l hl
    have : ∀ (cs : List (Cell Rw)) (off : Nat), ∀ l ∈ List.zipWith (fun l ints => (⟨some l, ints⟩ : CellLine)) (leadsOf cs) (connOf off cs),
        l.lead = some l.ints.length := by
      intro cs
      induction cs with
      | nil => intro off l hl; simp [leadsOf, connOf] at hl
      | cons c cs ih =>
        intro off l hl
        simp only [leadsOf, connOf, List.zipWith_cons_cons, List.mem_cons] at hl
        rcases hl with rfl | hl
        · simp [cellInts_length]
        · exact ih _ l hl
    exact this cs 0 l hl
  · intro k name
    have h := chunkCount_valueToks (cs.map (arrayValue k name)) 0 (by
      intro v hv
      obtain ⟨c, _, rfl⟩ := List.mem_map.1 hv
      unfold arrayValue
      split
      · simp
      · split
        · unfold intTok; split <;> simp
        · unfold classify; split
          · simp
          · split
            · split <;> simp
            · simp)
    simpa using h

/-! ## the renumbering of the reader -/

theorem idxOf_lt_of_pairwise : ∀ {l : List Nat}, l.Pairwise (· < ·) → ∀ {a b : Nat}, a ∈ l → b ∈ l → a < b → l.idxOf a < l.idxOf b
  | [], _, _, _, ha, _, _ => by simp at ha
  | x :: xs, h, a, b, ha, hb, hab => by
    rw [List.idxOf_cons, List.idxOf_cons]
    have hx : ∀ y ∈ xs, x < y := fun y hy => List.rel_of_pairwise_cons h hy
    by_cases h1 : x = a
    · subst h1
      have : (x == b) = false := by simp; omega
      simp [this]
    · have h1' : (x == a) = false := by simpa using h1
      have ha' : a ∈ xs := by simpa [Ne.symm h1] using ha
      by_cases h2 : x = b
      · subst h2; have := hx a ha'; omega
      · have h2' : (x == b) = false := by simpa using h2
        have hb' : b ∈ xs := by simpa [Ne.symm h2] using hb
        simp only [h1', h2', cond_false]
        have := idxOf_lt_of_pairwise (List.Pairwise.of_cons h) ha' hb' hab
        omega

/-- **the documented renumbering of the reader**: the local id of a node is its rank in the ordered
    set of the global ids the cell uses — in particular it preserves the order of the ids -/
theorem reader_renumbering_order_preserving (gs : List Nat) (a b : Nat) (ha : a ∈ gs) (hb : b ∈ gs) (hab : a < b) :
    (setOf gs).idxOf a < (setOf gs).idxOf b :=
  idxOf_lt_of_pairwise pairwise_setOf (mem_setOf.2 ha) (mem_setOf.2 hb) hab

/-! ## observations and pins -/

/-- a cell without a cell type is written as `-1`; the reader's `[0-9]+` reads the digits only: type 1
    (never the case for the cells of a run: `simulation_initializer` gives every cell a type) -/
theorem no_type_reads_as_one : intVals [intTok wNoTypeId] = [1] := by decide

/-- the texts of the source the model was written for -/
theorem constants_pinned :
    wCoordFormat = ['%', '.', '4', 'e'] ∧ wCoordsPerLine = 9 ∧ wValuesPerLine = 9 ∧ wFaceArity = 3 ∧ wIntsPerFace = 4 ∧ wIntsPerCellBase = 1
    ∧ wPolyType = 42 ∧ rPolyType = 42 ∧ rLineSkip = 3 ∧ rCellTextStart = 1
    ∧ kwPoints = ['P', 'O', 'I', 'N', 'T', 'S'] ∧ kwFloat = ['f', 'l', 'o', 'a', 't'] ∧ kwCells = ['C', 'E', 'L', 'L', 'S']
    ∧ kwCellTypes = ['C', 'E', 'L', 'L', '_', 'T', 'Y', 'P', 'E', 'S'] ∧ kwCellData = ['C', 'E', 'L', 'L', '_', 'D', 'A', 'T', 'A']
    ∧ wCellIdFormat = ['%', 'd'] ∧ wTypeIdFormat = ['%', 'd'] ∧ wNoTypeId = -1 ∧ fmtBuffer = 30
    ∧ (cellArrays.map Prod.fst).take 2 = [kwCellId, kwTypeId]
    ∧ wArrayComps = [' ', '1', ' '] := by decide

/-! ## the hypotheses are satisfiable: a population with free slots -/

section NonVacuity

def exF : Fmt Nat := ⟨digitsOf, fun _ => true⟩
def exP : NumSem Nat := ⟨fun s => if s = ['4', '.', '2'] then .value 42 else .value (natOfDigits s), fun _ => true⟩

/-- a tetrahedron kept in 5 node slots and 5 face slots: node slot 1 and face slot 0 are free -/
def exCell : Cell Nat :=
  { nodes := [⟨0, 0, 0, true⟩, ⟨9, 9, 9, false⟩, ⟨1, 0, 0, true⟩, ⟨0, 1, 0, true⟩, ⟨0, 0, 1, true⟩]
    faces := [⟨1, 1, 1, false⟩, ⟨0, 3, 2, true⟩, ⟨0, 2, 4, true⟩, ⟨2, 3, 4, true⟩, ⟨3, 0, 4, true⟩]
    id := 7, typeId := 2, extra := fun _ => ['0'] }

theorem exValid : Valid exCell := by
  refine ⟨by decide, ?_⟩
  intro i n h hu
  have hi : i < 5 := (List.getElem?_eq_some_iff.1 h).1
  match i, hi with
  | 0, _ => simp [exCell] at h; subst h; exact ⟨⟨0, 3, 2, true⟩, by decide, rfl, by decide⟩
  | 1, _ => simp [exCell] at h; subst h; simp at hu
  | 2, _ => simp [exCell] at h; subst h; exact ⟨⟨0, 3, 2, true⟩, by decide, rfl, by decide⟩
  | 3, _ => simp [exCell] at h; subst h; exact ⟨⟨0, 3, 2, true⟩, by decide, rfl, by decide⟩
  | 4, _ => simp [exCell] at h; subst h; exact ⟨⟨0, 2, 4, true⟩, by decide, rfl, by decide⟩

/-- the free slots are gone and the faces are renumbered 3→2, 2→1, 4→3 -/
example : (rebase exCell).faces = [⟨0, 2, 1, true⟩, ⟨0, 1, 3, true⟩, ⟨1, 2, 3, true⟩, ⟨2, 0, 3, true⟩] := by decide

set_option maxRecDepth 20000 in
example : ∃ toks, writeCells exF [exCell, exCell] = .ok toks ∧
    Vtk.read exP toks = .ok ([exCell, exCell].map (fun c => meshOf id (rebase c)), [2, 2]) :=
  roundtrip exF exP id [exCell, exCell] (by simp)
    (by intro c hc; simp at hc; subst hc; exact exValid)
    (by decide) (by decide) ⟨42, by decide⟩ (by decide) ⟨by decide, by decide, by decide⟩ (by decide)

end NonVacuity

end Simu.C16
