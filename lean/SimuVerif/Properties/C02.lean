import SimuVerif.Lemmas.C02_Equiv
import Mathlib.Tactic.NormNum
/-
  C02 — the internal forces of a cell conserve momentum and derive from the stated energies.

  Model: `Forces.internalContribs fx x F p` (Model/Forces.lean) is the list of every
  `node.add_force(…)` that `cell::apply_internal_forces` executes on the surface with faces `F`
  (node ids in winding order + face type), node positions `x`, parameters `p`; the arithmetic of one
  face / one hinge is `Gen.Forces.*`, regenerated from `/repo/src/mesh/cell.cpp` on every run, so the
  theorems below are statements about what the C++ says now, read in exact arithmetic over an
  arbitrary ordered field `R`.  `fx : FX R` packs the non-field functions (sqrt, acos, tan, cos, sin,
  cbrt, ln, pow, ==, isfinite, …); each theorem lists the identities it needs about them.

  `Closed F`  : the half-edge list is closed under reversal (a permutation statement),
  `Simple F`  : no half-edge occurs twice,      `NonDeg F` : the three nodes of a face are distinct.
  `netForce cs`, `netTorque x cs`, `nodeForce cs i` : sum of the forces, sum of `x_id × force`, sum of the
  forces added to node `i` — and `sum_node_forces` shows these are the sums over the node array.
-/
set_option linter.unusedSectionVars false
namespace Simu.C02
open Simu Simu.Forces Simu.Gen.Forces
variable {R : Type} [Field R] [LinearOrder R] [IsStrictOrderedRing R]

/-! ### pressure -/

/-- the pressure forces on a closed surface add up to zero, for every pressure, every node
    positions (`sqrt(y)² = y` at the squared doubled areas, `==` is equality) -/
theorem pressure_net_force_zero (fx : FX R) (x : Nat → V3 R) (F : List Face) (P : R)
    (hc : Closed F) (he : EqbOK fx) (hs : FaceSqrt fx x F) :
    netForce (pressureContribs fx x F P) = 0 :=
  pressure_netForce fx x F P hc he hs

/-- … and exert no net torque -/
theorem pressure_net_torque_zero (fx : FX R) (x : Nat → V3 R) (F : List Face) (P : R)
    (hc : Closed F) (he : EqbOK fx) (hs : FaceSqrt fx x F) :
    netTorque x (pressureContribs fx x F P) = 0 :=
  pressure_netTorque fx x F P hc he hs

/-- the pressure force on node `i` is the pressure times the derivative of the enclosed volume with
    respect to the position of node `i`.  `signedVol6 x F / 6` is the signed volume Σ p₁·(p₂×p₃) / 6 (`compute_volume`
    returns its absolute value on a closed surface, `volume_is_abs_closed`); it is affine in each node position, so its
    derivative is characterised exactly: moving node `i` by ANY vector `d` changes `P·V` by `F_i · d` -/
theorem pressure_is_dV (fx : FX R) (x : Nat → V3 R) (F : List Face) (P : R)
    (hc : Closed F) (hd : NonDeg F) (he : EqbOK fx) (hs : FaceSqrt fx x F) (i : Nat) (d : V3 R) :
    P * ((signedVol6 (Function.update x i (x i + d)) F - signedVol6 x F) / 6)
      = V3.dot (nodeForce (pressureContribs fx x F P) i) d :=
  pressure_nodeForce_dV fx x F P hc hd he hs i d

/-- the same statement about the number the code ACTUALLY accumulates: `cellVol6` is the loop of `compute_volume`, with
    the coordinates taken relative to `get_volume_reference_point()` = the first node of the first used face.  That
    node moves too when it is node `i` (or not at all otherwise) — its own contribution to the derivative is accounted
    for by `computed_volume_decomposition`: it is (displacement of the reference node)·(vector area), and the vector
    area of a closed surface vanishes wherever the nodes are (`vector_area_closed`).  Same hypotheses as `pressure_is_dV`. -/
theorem pressure_is_dV_computed (fx : FX R) (x : Nat → V3 R) (F : List Face) (P : R)
    (hc : Closed F) (hd : NonDeg F) (he : EqbOK fx) (hs : FaceSqrt fx x F) (i : Nat) (d : V3 R) :
    P * ((cellVol6 (Function.update x i (x i + d)) F - cellVol6 x F) / 6)
      = V3.dot (nodeForce (pressureContribs fx x F P) i) d := by
  rw [cellVol6_eq, cellVol6_eq, centredVol6_closed _ F hc, centredVol6_closed _ F hc]
  exact pressure_nodeForce_dV fx x F P hc hd he hs i d

/-- EVERY surface, closed or not: the sum `compute_volume` accumulates is the un-centred sum minus
    (reference node)·(twice the vector area).  Hence for ANY two configurations `x`, `x'` of the nodes the change of the
    computed volume is the change of Σ p₁·(p₂×p₃) minus the change of that product — the gradient term of the
    reference node. -/
theorem computed_volume_decomposition (x x' : Nat → V3 R) (F : List Face) :
    cellVol6 x F = signedVol6 x F - V3.dot (vecArea2 x F) (volRefPoint x F) ∧
    cellVol6 x' F - cellVol6 x F = (signedVol6 x' F - signedVol6 x F)
      - (V3.dot (vecArea2 x' F) (volRefPoint x' F) - V3.dot (vecArea2 x F) (volRefPoint x F)) := by
  have h := fun y : Nat → V3 R => (cellVol6_eq y F).trans (centredVol6_general y F)
  refine ⟨h x, ?_⟩
  rw [h x, h x']; ring

/-- the vector area Σ (p₁×p₂ + p₂×p₃ + p₃×p₁) of a closed surface is zero for every position of the nodes: the
    reference-node term of `computed_volume_decomposition` vanishes identically, so does its gradient -/
theorem vector_area_closed (x : Nat → V3 R) (F : List Face) (hc : Closed F) : vecArea2 x F = 0 :=
  vecArea2_closed x F hc

/-- `get_volume_reference_point`: the first node of the first used face; the zero vector when no face is used -/
theorem reference_point_is_first_node (x : Nat → V3 R) (f : Face) (F : List Face) :
    volRefPoint x (f :: F) = x f.a ∧ volRefPoint x ([] : List Face) = 0 :=
  ⟨volRefPoint_cons x f F, volRefPoint_nil x⟩

/-- `compute_volume` (the fold of the model) on EVERY face list: the absolute value of Σ (p₁−o)·((p₂−o)×(p₃−o)) / 6,
    `o` the reference point -/
theorem volume_is_abs (x : Nat → V3 R) (F : List Face) :
    cellVolume x F = |signedVol6 (fun i => x i - volRefPoint x F) F / 6| :=
  cellVolume_eq x F

/-- … which for a closed surface is the absolute value of the signed volume Σ p₁·(p₂×p₃) / 6 -/
theorem volume_is_abs_closed (x : Nat → V3 R) (F : List Face) (hc : Closed F) : cellVolume x F = |signedVol6 x F / 6| := by
  rw [cellVolume_eq, centredVol6_closed x F hc]

/-- the volume `compute_volume` returns does not depend on where the surface is — for EVERY face list, closed or not
    (the reference node moves along; no cancellation) -/
theorem volume_translate_exact (x : Nat → V3 R) (F : List Face) (t : V3 R) :
    cellVolume (fun i => x i + t) F = cellVolume x F := cellVolume_tr x F t

/-! ### surface tension + membrane elasticity -/

/-- the three forces a face applies to its nodes sum to zero — whatever the cached normal, the
    parameters and the non-field functions are -/
theorem tension_per_face_zero_force (fx : FX R) (p1 p2 p3 n : V3 R) (A γ aem area At : R) :
    (tensionFace fx p1 p2 p3 n A γ aem area At).1 + (tensionFace fx p1 p2 p3 n A γ aem area At).2.1
      + (tensionFace fx p1 p2 p3 n A γ aem area At).2.2 = 0 :=
  tensionFace_sum fx p1 p2 p3 n A γ aem area At

/-- … and exert no torque, with the normal `update_face_normal_and_area` caches for that face -/
theorem tension_per_face_zero_torque (fx : FX R) (p1 p2 p3 : V3 R) (A γ aem area At : R) :
    V3.cross p1 (tensionFace fx p1 p2 p3 (faceNormalArea fx p1 p2 p3).1 A γ aem area At).1
      + V3.cross p2 (tensionFace fx p1 p2 p3 (faceNormalArea fx p1 p2 p3).1 A γ aem area At).2.1
      + V3.cross p3 (tensionFace fx p1 p2 p3 (faceNormalArea fx p1 p2 p3).1 A γ aem area At).2.2 = 0 := by
  obtain ⟨k, hk⟩ := faceNormal_parallel fx p1 p2 p3
  rw [hk]; exact tensionFace_torque fx p1 p2 p3 k A γ aem area At

theorem tension_net_force_zero (fx : FX R) (x : Nat → V3 R) (F : List Face) (p : Params R) (area At : R) :
    netForce (tensionContribs fx x F p area At) = 0 := tension_netForce fx x F p area At

theorem tension_net_torque_zero (fx : FX R) (x : Nat → V3 R) (F : List Face) (p : Params R) (area At : R) :
    netTorque x (tensionContribs fx x F p area At) = 0 := tension_netTorque fx x F p area At

/-- the tension / elasticity force of a non-degenerate face on each of its nodes is minus the effective
    tension `γ_f + (k/A₀)(A_cell/A₀ − 1)` times the gradient of the face area with respect to that node:
    the code's vector `g = −½ n×(opposite side)` is that gradient, in the exact sense that, moving the
    node by `t·d`, the squared doubled area is `(2A)² + t·8A·(g·d) + t²·|d×side|²`
    (first-order coefficient `8A·dA/dt` ⇒ `dA/dt = g·d`) -/
theorem tension_is_dA (fx : FX R) (he : EqbOK fx) (p1 p2 p3 : V3 R) (γ aem area At : R)
    (hs : SqrtSq fx (V3.normSq (faceC p1 p2 p3))) (hnd : faceC p1 p2 p3 ≠ 0) :
    tensionFace fx p1 p2 p3 (faceNormalArea fx p1 p2 p3).1 (faceNormalArea fx p1 p2 p3).2 γ aem area At
      = (areaGrad (faceNormalArea fx p1 p2 p3).1 p2 p3 * (-(gammaEff γ aem area At)),
         areaGrad (faceNormalArea fx p1 p2 p3).1 p3 p1 * (-(gammaEff γ aem area At)),
         areaGrad (faceNormalArea fx p1 p2 p3).1 p1 p2 * (-(gammaEff γ aem area At)))
    ∧ (∀ (d : V3 R) (t : R), V3.normSq (faceC (p1 + d * t) p2 p3) =
        (2 * (faceNormalArea fx p1 p2 p3).2) * (2 * (faceNormalArea fx p1 p2 p3).2)
          + t * (8 * (faceNormalArea fx p1 p2 p3).2) * V3.dot (areaGrad (faceNormalArea fx p1 p2 p3).1 p2 p3) d
          + t * t * V3.normSq (V3.cross d (p3 - p2)))
    ∧ (∀ (d : V3 R) (t : R), V3.normSq (faceC p1 (p2 + d * t) p3) =
        (2 * (faceNormalArea fx p1 p2 p3).2) * (2 * (faceNormalArea fx p1 p2 p3).2)
          + t * (8 * (faceNormalArea fx p1 p2 p3).2) * V3.dot (areaGrad (faceNormalArea fx p1 p2 p3).1 p3 p1) d
          + t * t * V3.normSq (V3.cross d (p1 - p3)))
    ∧ (∀ (d : V3 R) (t : R), V3.normSq (faceC p1 p2 (p3 + d * t)) =
        (2 * (faceNormalArea fx p1 p2 p3).2) * (2 * (faceNormalArea fx p1 p2 p3).2)
          + t * (8 * (faceNormalArea fx p1 p2 p3).2) * V3.dot (areaGrad (faceNormalArea fx p1 p2 p3).1 p1 p2) d
          + t * t * V3.normSq (V3.cross d (p2 - p1))) := by
  have hs' : fx.sqrt (V3.normSq (faceC p1 p2 p3)) * fx.sqrt (V3.normSq (faceC p1 p2 p3))
      = V3.normSq (faceC p1 p2 p3) := hs
  have h0 : fx.sqrt (V3.normSq (faceC p1 p2 p3)) ≠ 0 := by
    intro h; apply hnd; apply normSq_zero_imp; rw [h] at hs'; simpa using hs'.symm
  have hne : ¬ (fx.eqb (fx.sqrt (V3.normSq (faceC p1 p2 p3))) 0 = true) := fun h => h0 ((he _ _).mp h)
  have hn : (faceNormalArea fx p1 p2 p3).1 = faceC p1 p2 p3 / fx.sqrt (V3.normSq (faceC p1 p2 p3)) := by
    rw [faceNormalArea_fst, if_neg hne]
  have hA : (faceNormalArea fx p1 p2 p3).2 = 1 / 2 * fx.sqrt (V3.normSq (faceC p1 p2 p3)) :=
    faceNormalArea_snd fx p1 p2 p3
  have hA0 : ¬ (fx.eqb (faceNormalArea fx p1 p2 p3).2 0 = true) := by
    intro h
    have := (he _ _).mp h
    rw [hA] at this
    apply h0
    linarith
  refine ⟨tensionFace_eq fx p1 p2 p3 _ _ γ aem area At hA0, ?_, ?_, ?_⟩
  · intro d t; rw [hn, hA]; exact area_first_order p1 p2 p3 d t _ hs' h0
  · intro d t; rw [hn, hA]
    have e1 : faceC p1 (p2 + d * t) p3 = faceC (p2 + d * t) p3 p1 := (faceC_cyc _ _ _).symm
    have e2 : faceC p1 p2 p3 = faceC p2 p3 p1 := (faceC_cyc _ _ _).symm
    rw [e1, e2]; rw [e2] at hs' h0
    exact area_first_order p2 p3 p1 d t _ hs' h0
  · intro d t; rw [hn, hA]
    have e1 : faceC p1 p2 (p3 + d * t) = faceC (p3 + d * t) p1 p2 := faceC_cyc _ _ _
    have e2 : faceC p1 p2 p3 = faceC p3 p1 p2 := faceC_cyc _ _ _
    rw [e1, e2]; rw [e2] at hs' h0
    exact area_first_order p3 p1 p2 d t _ hs' h0

/-- the force node `i` receives from the tension term is the sum over the faces around it of the
    per-face forces of `tension_is_dA` (each face's own effective tension) -/
theorem tension_node_force (fx : FX R) (x : Nat → V3 R) (F : List Face) (p : Params R) (area At : R) (i : Nat)
    (hA : ∀ f ∈ F, ¬ (fx.eqb (faceGeom fx x f).2 0 = true)) :
    nodeForce (tensionContribs fx x F p area At) i =
      (F.map (fun f =>
        (if f.a = i then areaGrad (faceGeom fx x f).1 (x f.b) (x f.c) * (-(gammaEff (p.ftOf f.ty).tension p.aem area At)) else 0)
        + (if f.b = i then areaGrad (faceGeom fx x f).1 (x f.c) (x f.a) * (-(gammaEff (p.ftOf f.ty).tension p.aem area At)) else 0)
        + (if f.c = i then areaGrad (faceGeom fx x f).1 (x f.a) (x f.b) * (-(gammaEff (p.ftOf f.ty).tension p.aem area At)) else 0))).sum := by
  unfold tensionContribs
  rw [nodeForce_flatMap]
  apply congrArg
  apply List.map_congr_left
  intro f hf
  simp only [tensionFace_eq fx _ _ _ _ _ _ _ _ _ (hA f hf), nodeForce_three]

/-! ### angle regularisation -/

/-- the angle-regularisation forces add up to zero on every surface, for every choice of the
    non-field functions (square roots, `pow`, `acos` are opaque scalars here) -/
theorem angle_net_force_zero (fx : FX R) (x : Nat → V3 R) (F : List Face) (angf : R) :
    netForce (angleContribs fx x F angf) = 0 := angle_netForce fx x F angf

theorem angle_net_torque_zero (fx : FX R) (x : Nat → V3 R) (F : List Face) (angf : R) :
    netTorque x (angleContribs fx x F angf) = 0 := angle_netTorque fx x F angf

/-- `get_angle_gradient`: the three gradients sum to zero and have no moment -/
theorem angle_gradient_balanced (fx : FX R) (i j k : V3 R) :
    (angleGradient fx i j k).1 + (angleGradient fx i j k).2.1 + (angleGradient fx i j k).2.2 = 0
    ∧ V3.cross i (angleGradient fx i j k).1 + V3.cross j (angleGradient fx i j k).2.1
        + V3.cross k (angleGradient fx i j k).2.2 = 0 :=
  ⟨angleGradient_sum fx i j k, angleGradient_torque fx i j k⟩

/-! ### bending -/

/-- one hinge: the four bending forces sum to zero and have no net moment (`HingeHyp`: the identities
    about sqrt / cot / cos / sin at this hinge, and the two cached normals being the oppositely
    oriented unit area vectors) -/
theorem bending_hinge_balanced (fx : FX R) (p1 p2 p3 p4 n1v n2v : V3 R) (a1 a2 kb1 kb2 : R)
    (H : HingeHyp fx p1 p2 p3 p4 n1v n2v a1 a2) :
    (bendingHinge fx p1 p2 p3 p4 n1v n2v a1 a2 kb1 kb2).1 + (bendingHinge fx p1 p2 p3 p4 n1v n2v a1 a2 kb1 kb2).2.1
      + (bendingHinge fx p1 p2 p3 p4 n1v n2v a1 a2 kb1 kb2).2.2.1
      + (bendingHinge fx p1 p2 p3 p4 n1v n2v a1 a2 kb1 kb2).2.2.2 = 0
    ∧ V3.cross p1 (bendingHinge fx p1 p2 p3 p4 n1v n2v a1 a2 kb1 kb2).1
      + V3.cross p2 (bendingHinge fx p1 p2 p3 p4 n1v n2v a1 a2 kb1 kb2).2.1
      + V3.cross p3 (bendingHinge fx p1 p2 p3 p4 n1v n2v a1 a2 kb1 kb2).2.2.1
      + V3.cross p4 (bendingHinge fx p1 p2 p3 p4 n1v n2v a1 a2 kb1 kb2).2.2.2 = 0 :=
  bendingHinge_balanced fx p1 p2 p3 p4 n1v n2v a1 a2 kb1 kb2 H

/-- the bending forces of a consistently oriented surface add up to zero, for every choice of the
    per-face-type bending moduli (zero or not) -/
theorem bending_net_force_zero (fx : FX R) (x : Nat → V3 R) (F : List Face) (p : Params R)
    (hs : Simple F) (hd : NonDeg F) (B : BendHyp fx x F) :
    netForce (bendingContribs fx x F p) = 0 := (bending_net fx x F p hs hd B).1

/-- … and exert no net torque -/
theorem bending_net_torque_zero (fx : FX R) (x : Nat → V3 R) (F : List Face) (p : Params R)
    (hs : Simple F) (hd : NonDeg F) (B : BendHyp fx x F) :
    netTorque x (bendingContribs fx x F p) = 0 := (bending_net fx x F p hs hd B).2

/-- the edge set of the model: every hinge joins two faces that traverse the edge in opposite directions -/
theorem hinges_consistently_oriented (F : List Face) (hs : Simple F) (hd : NonDeg F) :
    ∀ h ∈ hinges F, HingeOriented h := hinges_oriented F hs hd

/-- … and in a closed surface every side of every face has a partner face -/
theorem closed_sides_paired (F : List Face) (hc : Closed F) (f : Face) (hf : f ∈ F) (u v : Nat)
    (hs : (u, v) ∈ f.sides) : ∃ g ∈ F, (v, u) ∈ g.sides := closed_side_has_partner F hc f hf u v hs

/-! ### all terms together -/

/-- `cell::apply_internal_forces` applies zero net force to the cell -/
theorem internal_net_force_zero (fx : FX R) (x : Nat → V3 R) (F : List Face) (p : Params R)
    (hc : Closed F) (hs : Simple F) (hd : NonDeg F) (B : BendHyp fx x F) :
    netForce (internalContribs fx x F p) = 0 := internal_netForce fx x F p hc hs hd B

/-- … and zero net torque -/
theorem internal_net_torque_zero (fx : FX R) (x : Nat → V3 R) (F : List Face) (p : Params R)
    (hc : Closed F) (hs : Simple F) (hd : NonDeg F) (B : BendHyp fx x F) :
    netTorque x (internalContribs fx x F p) = 0 := internal_netTorque fx x F p hc hs hd B

/-- the node array (what the harness prints, `node::force_`) holds the per-node sums, and summing it
    over the nodes gives the net force and the net torque of the theorems above -/
theorem sum_node_forces (fx : FX R) (x : Nat → V3 R) (F : List Face) (p : Params R) (n : Nat) (hn : NodesLt F n) :
    (∀ i, i < n → (accumulate n (internalContribs fx x F p))[i]? = some (nodeForce (internalContribs fx x F p) i))
    ∧ ((List.range n).map (fun i => nodeForce (internalContribs fx x F p) i)).sum = netForce (internalContribs fx x F p)
    ∧ ((List.range n).map (fun i => V3.cross (x i) (nodeForce (internalContribs fx x F p) i))).sum
        = netTorque x (internalContribs fx x F p) :=
  ⟨fun i hi => accumulate_spec n _ i hi,
   sum_nodeForce n _ (internalContribs_ids_lt fx x F p n hn),
   sum_nodeTorque n x _ (internalContribs_ids_lt fx x F p n hn)⟩

/-- cells with unused face / node slots (after `refine_mesh`, before `rebase`): the loops skip the unused slots,
    so every per-term theorem above applies verbatim with `F := liveFaces S` (pressure, tension and angle terms
    of `internalContribsSlots` ARE those of `liveFaces S`); with the stored edge set `E`, zero net force and torque -/
theorem slots_net_force_torque_zero (fx : FX R) (x : Nat → V3 R) (S : List Slot) (E : List EdgeRec) (p : Params R)
    (hc : Closed (liveFaces S)) (he : EqbOK fx) (hs : FaceSqrt fx x (liveFaces S))
    (hH : ∀ h ∈ E.map (hingeOfEdge S), HingeHyp fx (x h.n1) (x h.n2) (x h.n3) (x h.n4) (faceGeom fx x h.f1).1
      (faceGeom fx x h.f2).1 (faceGeom fx x h.f1).2 (faceGeom fx x h.f2).2) :
    netForce (internalContribsSlots fx x S E p) = 0 ∧ netTorque x (internalContribsSlots fx x S E p) = 0 :=
  slots_net fx x S E p hc he hs hH

/-- with the edge set of a freshly built cell the slot model is the plain model of the used faces -/
theorem slots_fresh (fx : FX R) (x : Nat → V3 R) (S : List Slot) (E : List EdgeRec) (p : Params R)
    (h : E.map (hingeOfEdge S) = hingesSorted (liveFaces S)) :
    internalContribsSlots fx x S E p = internalContribs fx x (liveFaces S) p := slots_eq_fresh fx x S E p h

/-- the model applies the terms in the order of the calls in the C++ -/
theorem orchestration_order : Gen.Forces.orchestration = expectedOrchestration := by decide

/-! ### rigid motions -/

/-- translating a closed cell leaves every internal force unchanged (every `add_force`, hence every
    node force): the force field moves with the cell -/
theorem forces_translation_equivariant (fx : FX R) (x : Nat → V3 R) (F : List Face) (p : Params R)
    (hc : Closed F) (t : V3 R) :
    internalContribs fx (fun i => x i + t) F p = internalContribs fx x F p :=
  internalContribs_tr fx x F p hc t

/-- … and closedness is not needed for that: since `compute_volume` takes the coordinates relative to a node of the
    surface, EVERY face list gives the same scalars (volume, hence pressure and target area) and the same forces wherever
    it is placed -/
theorem forces_translation_equivariant_exact (fx : FX R) (x : Nat → V3 R) (F : List Face) (p : Params R) (t : V3 R) :
    internalContribs fx (fun i => x i + t) F p = internalContribs fx x F p :=
  internalContribs_tr_exact fx x F p t

/-- rotating the cell by any rotation `M` (linear, dot- and cross-product preserving) rotates every
    internal force by `M` (`FiniteOK`: every scalar is finite) -/
theorem forces_rotation_equivariant (M : V3 R → V3 R) (hM : Rot M) (fx : FX R) (hfin : FiniteOK fx)
    (x : Nat → V3 R) (F : List Face) (p : Params R) :
    internalContribs fx (fun i => M (x i)) F p = mapContribs M (internalContribs fx x F p) :=
  internalContribs_rot hM fx hfin x F p

/-- hence so does every node force -/
theorem node_force_rotation_equivariant (M : V3 R → V3 R) (hM : Rot M) (fx : FX R) (hfin : FiniteOK fx)
    (x : Nat → V3 R) (F : List Face) (p : Params R) (i : Nat) :
    nodeForce (internalContribs fx (fun j => M (x j)) F p) i = M (nodeForce (internalContribs fx x F p) i) := by
  rw [internalContribs_rot hM fx hfin x F p]
  generalize internalContribs fx x F p = cs
  induction cs with
  | nil => simp [mapContribs, nodeForce, hM.map_zero]
  | cons c t ih =>
    have : mapContribs M (c :: t) = (c.1, M c.2) :: mapContribs M t := rfl
    rw [this, nodeForce_cons, nodeForce_cons, ih, ← hM.map_add]
    split_ifs <;> simp [hM.map_zero]

/-- the rotations about the three coordinate axes are such maps, and they compose -/
theorem rot_axis_x (c s : R) (h : c * c + s * s = 1) : Rot (matMul3 (⟨1, 0, 0⟩ : V3 R) ⟨0, c, -s⟩ ⟨0, s, c⟩) := rot_x c s h
theorem rot_axis_y (c s : R) (h : c * c + s * s = 1) : Rot (matMul3 (⟨c, 0, s⟩ : V3 R) ⟨0, 1, 0⟩ ⟨-s, 0, c⟩) := rot_y c s h
theorem rot_axis_z (c s : R) (h : c * c + s * s = 1) : Rot (matMul3 (⟨c, -s, 0⟩ : V3 R) ⟨s, c, 0⟩ ⟨0, 0, 1⟩) := rot_z c s h
theorem rot_comp {M N : V3 R → V3 R} (hM : Rot M) (hN : Rot N) : Rot (fun v => M (N v)) := hM.comp hN
/-- every orthogonal matrix of determinant +1 (rows `r1 r2 r3` orthonormal, `r1×r2 = r3` …) is a `Rot` -/
theorem rot_of_orthonormal_rows (r1 r2 r3 : V3 R)
    (hxx : r1.x * r1.x + r2.x * r2.x + r3.x * r3.x = 1) (hyy : r1.y * r1.y + r2.y * r2.y + r3.y * r3.y = 1)
    (hzz : r1.z * r1.z + r2.z * r2.z + r3.z * r3.z = 1) (hxy : r1.x * r1.y + r2.x * r2.y + r3.x * r3.y = 0)
    (hxz : r1.x * r1.z + r2.x * r2.z + r3.x * r3.z = 0) (hyz : r1.y * r1.z + r2.y * r2.z + r3.y * r3.z = 0)
    (h12 : V3.cross r1 r2 = r3) (h23 : V3.cross r2 r3 = r1) (h31 : V3.cross r3 r1 = r2) :
    Rot (matMul3 r1 r2 r3) := rot_of_rows r1 r2 r3 hxx hyy hzz hxy hxz hyz h12 h23 h31

/-! ### non-vacuity: the hypotheses are satisfiable on concrete non-degenerate instances (ℚ) -/
section nonvacuous
/-- a pack of "functions" on ℚ that satisfies the identities the theorems ask for at the arguments
    occurring in the examples below (ℚ has no total square root; the theorems only need pointwise facts) -/
def fxQ : FX ℚ :=
  { sqrt := fun y => if y = 49 then 7 else if y = 16 then 4 else if y = 9 then 3 else if y = 25 then 5
                     else if y = 144 then 12 else 0,
    ln := fun _ => 0, cbrt := fun _ => 1, acos := fun q => q + 1, cos := fun _ => 0, sin := fun t => t,
    tan := fun a => if a = 9 / 5 then 3 / 4 else 0, pow := fun _ _ => 1, pi := 3,
    eqb := fun a b => decide (a = b), isFinite := fun _ => true, isNaN := fun _ => false,
    almostEq := fun a b => decide (a = b) }

/-- the octahedron with vertices (±3,0,0), (0,±2,0), (0,0,±1): all eight faces have doubled area 7 -/
def octa : List Face :=
  [⟨0, 2, 4, 0⟩, ⟨2, 1, 4, 0⟩, ⟨1, 3, 4, 0⟩, ⟨3, 0, 4, 0⟩, ⟨2, 0, 5, 1⟩, ⟨1, 2, 5, 1⟩, ⟨3, 1, 5, 1⟩, ⟨0, 3, 5, 1⟩]
def octaPos (i : Nat) : V3 ℚ :=
  match i with
  | 0 => ⟨3, 0, 0⟩ | 1 => ⟨-3, 0, 0⟩ | 2 => ⟨0, 2, 0⟩ | 3 => ⟨0, -2, 0⟩ | 4 => ⟨0, 0, 1⟩ | _ => ⟨0, 0, -1⟩

example : Closed octa ∧ Simple octa ∧ NonDeg octa := by decide
theorem fxQ_eqb : EqbOK fxQ := fun a b => by simp [fxQ]
theorem octa_sqrt : FaceSqrt fxQ octaPos octa := by
  intro f hf
  simp only [octa, List.mem_cons, List.not_mem_nil, or_false] at hf
  rcases hf with rfl | rfl | rfl | rfl | rfl | rfl | rfl | rfl <;>
    norm_num [SqrtSq, fxQ, faceC, octaPos, V3.normSq_def, V3.cross_def]
example : netForce (pressureContribs fxQ octaPos octa 6) = 0 :=
  pressure_net_force_zero fxQ octaPos octa 6 (by decide) fxQ_eqb octa_sqrt
/-- … and the individual forces are not zero: the force of the face (0,2,4) on each of its nodes -/
example : (pressureFace (faceGeom fxQ octaPos ⟨0, 2, 4, 0⟩).1 (faceGeom fxQ octaPos ⟨0, 2, 4, 0⟩).2 6).1 = ⟨2, 3, 6⟩ := by
  have h := pressureFace_eq fxQ fxQ_eqb (octaPos 0) (octaPos 2) (octaPos 4) 6 (octa_sqrt ⟨0, 2, 4, 0⟩ (by simp [octa]))
  simp only [faceGeom]; rw [h]
  apply V3.ext' <;> norm_num [faceC, octaPos]
/-- a hinge with a right dihedral angle (two 3-4-5 triangles sharing the side of length 4): the
    hypotheses of the bending theorems hold, so they are satisfiable on a non-degenerate hinge -/
theorem hinge_example : HingeHyp fxQ (⟨0, 0, 0⟩ : V3 ℚ) ⟨4, 0, 0⟩ ⟨0, 3, 0⟩ ⟨0, 0, 3⟩ ⟨0, 0, 1⟩ ⟨0, 1, 0⟩ 6 6 := by
  refine ⟨fxQ_eqb, ?_, ?_, ?_, ?_, ?_, ?_, ?_, ?_, ⟨1 / 12, -(1 / 12), 1, ?_, ?_, ?_, ?_⟩⟩
  · norm_num [SqrtSq, fxQ, V3.normSq_def]
  · simp [fxQ]
  · simp [fxQ]
  · norm_num [fxQ]
  · norm_num [cot, angleWithL, fxQ, V3.normSq_def, V3.dot_def]
  · norm_num [cot, angleWithL, fxQ, V3.normSq_def, V3.dot_def]
  · norm_num [cot, angleWithR, fxQ, V3.normSq_def, V3.dot_def]
  · norm_num [cot, angleWithR, fxQ, V3.normSq_def, V3.dot_def]
  · apply V3.ext' <;> norm_num
  · apply V3.ext' <;> norm_num
  · norm_num [V3.normSq_def]
  · norm_num [V3.normSq_def]
/-- on that hinge the code is in its main branch: the force on the third node is not zero, and the four
    forces balance by `bending_hinge_balanced` -/
example : (bendingHinge fxQ (⟨0, 0, 0⟩ : V3 ℚ) ⟨4, 0, 0⟩ ⟨0, 3, 0⟩ ⟨0, 0, 3⟩ ⟨0, 0, 1⟩ ⟨0, 1, 0⟩ 6 6 1 1).2.2.1
    = ⟨0, 1, -(8 / 3)⟩ := by
  simp only [bendingHinge, angleWithL, angleWithR, rotateAroundAxis, cot, fxQ, lit_eq]
  norm_num [V3.normSq_def, V3.dot_def]
  apply V3.ext' <;> norm_num
example : Rot (matMul3 (⟨3 / 5, -(4 / 5), 0⟩ : V3 ℚ) ⟨4 / 5, 3 / 5, 0⟩ ⟨0, 0, 1⟩) := rot_axis_z _ _ (by norm_num)
end nonvacuous

end Simu.C02
