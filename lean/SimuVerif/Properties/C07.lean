import SimuVerif.Lemmas.ContactRuleForm
import SimuVerif.Lemmas.ContactMinMax
import SimuVerif.Properties.C05
import Mathlib.Tactic.NormNum
/-
  C07 — contact forces are reciprocal, short-ranged and push overlapping cells apart.

  `Gen/ContactRule.lean` is regenerated on every run from the three contact models: the per-pair rule of each
  (`rule0` = `apply_contact_forces`; `rule1`, `rule2` = `resolve_contact`, cut into the candidate distances, the choice of the
  face node, the coupling test and the repulsion), the tests the resolve loops make in front of it (`gated0/1/2`), the
  reversal tests (`reversal0/1/2`) and the constructor arithmetic (`mkParams0/12`).  The theorems are about `gated k`, i.e.
  about one (node, face) pair exactly as a resolve loop treats it, in exact arithmetic over an arbitrary ordered field,
  for every position of the node and the triangle, every cached normal / area / strength, every cell type and id,
  every coupling state found on the four nodes.  `closestPt` is the generated kernel of C05.

  Cell types: 0 epithelial, 1 ECM, 2 lumen, 3 nucleus, 4 static.
-/
set_option linter.unusedSectionVars false
set_option linter.unusedVariables false
namespace Simu.C07
open Simu Simu.Gen Simu.C05
variable {R : Type} [Field R] [LinearOrder R] [IsStrictOrderedRing R]

/-- the zero vector -/
def v0 : V3 R := ⟨0, 0, 0⟩

/-- relations between the members of a contact model object that the theorems use; `mkParams*_wf` shows that the
    generated constructors establish them for positive cut-offs -/
structure PWF (P : CParams R) : Prop where
  adh_sq : P.cutAdhSq = P.cutAdh * P.cutAdh
  adh_pos : 0 < P.cutAdh
  adh_le : P.cutAdhSq ≤ P.maxCutSq
  rep_le : P.cutRepSq ≤ P.maxCutSq
  max_le_pad : P.maxCutSq ≤ P.padding * P.padding
  cut0_le_pad : P.cut0Sq ≤ P.padding * P.padding
  adh_le_big : P.cutAdhSq ≤ P.big

theorem sq_le_cmax_sq (a b : R) (ha : 0 < a) (hb : 0 < b) : a * a ≤ cmax a b * cmax a b ∧ b * b ≤ cmax a b * cmax a b := by
  have h1 := BP.le_cmax_left a b
  have h2 := BP.le_cmax_right a b
  exact ⟨mul_self_le_mul_self ha.le h1, mul_self_le_mul_self hb.le h2⟩

theorem mkParams0_wf (cadh crep lmin da dr big : R) (ha : 0 < cadh) (hr : 0 < crep) (hb : cadh * cadh ≤ big) :
    PWF (mkParams0 cadh crep lmin da dr big) := by
  unfold mkParams0
  simp only []
  have s := sq_le_cmax_sq crep cadh hr ha
  have s' := sq_le_cmax_sq cadh crep ha hr
  have e : cmax cadh crep = cmax crep cadh := by rw [BP.cmax_eq, BP.cmax_eq, max_comm]
  refine ⟨rfl, ha, BP.le_cmax_right _ _, BP.le_cmax_left _ _, ?_, ?_, hb⟩
  · unfold cmax at *; split_ifs at * <;> linarith
  · rw [e]

theorem mkParams12_wf (cadh crep lmin da dr big : R) (ha : 0 < cadh) (hr : 0 < crep) (hb : cadh * cadh ≤ big) :
    PWF (mkParams12 cadh crep lmin da dr big) := by
  unfold mkParams12
  simp only [lit_zero]
  have s := sq_le_cmax_sq crep cadh hr ha
  refine ⟨rfl, ha, BP.le_cmax_right _ _, BP.le_cmax_left _ _, ?_, mul_self_nonneg _, hb⟩
  unfold cmax at *; split_ifs at * <;> linarith

/-! ### consequences of the shape `forcesOf ((p − cpa)·k) bary` -/

theorem forcesOf_sum (V w : V3 R) (hs : w.x + w.y + w.z = 1) :
    (forcesOf V w).fn + (forcesOf V w).f1 + (forcesOf V w).f2 + (forcesOf V w).f3 = v0 := by
  have hz : w.z = 1 - w.x - w.y := by linarith
  unfold forcesOf v0
  apply V3.ext' <;> simp only [V3.add_x, V3.add_y, V3.add_z, V3.smul_x, V3.smul_y, V3.smul_z, hz] <;> ring

theorem forcesOf_distribution (V w : V3 R) :
    (forcesOf V w).f1 = ((forcesOf V w).fn * (-1 : R)) * w.x ∧ (forcesOf V w).f2 = ((forcesOf V w).fn * (-1 : R)) * w.y ∧
    (forcesOf V w).f3 = ((forcesOf V w).fn * (-1 : R)) * w.z := by
  unfold forcesOf
  refine ⟨?_, ?_, ?_⟩ <;> comp

theorem forcesOf_node_dir (v w : V3 R) (k : R) (hk : 0 ≤ k) : 0 ≤ V3.dot (forcesOf (v * k) w).fn (v * (-1 : R)) := by
  have : V3.dot (forcesOf (v * k) w).fn (v * (-1 : R)) = k * V3.normSq v := by
    unfold forcesOf; simp only [V3.dot_def, V3.normSq_def, V3.smul_x, V3.smul_y, V3.smul_z]; ring
  rw [this]; exact mul_nonneg hk (V3.normSq_nonneg v)

theorem forcesOf_reaction_dir (v w : V3 R) (k : R) (hk : 0 ≤ k) (hs : w.x + w.y + w.z = 1) :
    0 ≤ V3.dot ((forcesOf (v * k) w).f1 + (forcesOf (v * k) w).f2 + (forcesOf (v * k) w).f3) v := by
  have hz : w.z = 1 - w.x - w.y := by linarith
  have : V3.dot ((forcesOf (v * k) w).f1 + (forcesOf (v * k) w).f2 + (forcesOf (v * k) w).f3) v = k * V3.normSq v := by
    unfold forcesOf; simp only [V3.dot_def, V3.normSq_def, V3.smul_x, V3.smul_y, V3.smul_z, V3.add_x, V3.add_y, V3.add_z, hz]; ring
  rw [this]; exact mul_nonneg hk (V3.normSq_nonneg v)

/-- the node minus the closest point of approach -/
def gap (n1 : CNode R) (a b c : V3 R) : V3 R := n1.pos - cpa n1.pos a b c

/-- squared distance returned by the kernel for this pair -/
def dist2 (n1 : CNode R) (a b c : V3 R) : R := (closestPt n1.pos a b c).1
/-- barycentric coordinates returned by the kernel for this pair -/
def bary (n1 : CNode R) (a b c : V3 R) : V3 R := (closestPt n1.pos a b c).2

/-- the returned squared distance is attained at a point of the triangle (the closest point of approach) -/
theorem dist2_attained (n1 : CNode R) (a b c : V3 R) (hnd : NonDeg a b c) :
    0 ≤ (bary n1 a b c).x ∧ 0 ≤ (bary n1 a b c).y ∧ 0 ≤ (bary n1 a b c).z ∧
    (bary n1 a b c).x + (bary n1 a b c).y + (bary n1 a b c).z = 1 ∧
    dist2 n1 a b c = V3.normSq (n1.pos - baryPt (bary n1 a b c) a b c) := by
  have h := kernel_spec n1.pos a b c hnd
  exact ⟨h.nonneg.1, h.nonneg.2.1, h.nonneg.2.2, h.sum_one, h.dist⟩

variable (fn : Fn R) (P : CParams R) (c1 c2 : CCell R) (n1 : CNode R) (f : CFace R) (f_n1 f_n2 f_n3 : CNode R) (inBox : Bool)

local notation "G0" => gated0 fn P c1 c2 n1 f f_n1 f_n2 f_n3 inBox
local notation "G1" => gated1 fn P c1 c2 n1 f f_n1 f_n2 f_n3 inBox
local notation "G2" => gated2 fn P c1 c2 n1 f f_n1 f_n2 f_n3 inBox
local notation "GAP" => gap n1 f_n1.pos f_n2.pos f_n3.pos
local notation "BARY" => bary n1 f_n1.pos f_n2.pos f_n3.pos

/-! ### the 25 type combinations -/

/-- **gating_table**: of the 5×5 combinations (type of the node's cell, type of the face's cell) exactly
    (epithelial, ECM) and (nucleus, epithelial) reverse the side test, in the three models -/
theorem gating_table : ∀ t1 < 5, ∀ t2 < 5,
    reversal0 t1 t2 = decide ((t1, t2) ∈ [(0, 1), (3, 0)]) ∧ reversal1 t1 t2 = decide ((t1, t2) ∈ [(0, 1), (3, 0)]) ∧
    reversal2 t1 t2 = decide ((t1, t2) ∈ [(0, 1), (3, 0)]) := by decide

/-- couplings are only attempted between two epithelial cells: with any other combination `rule1/2` is the repulsion alone -/
theorem coupling_type_gate (h : ¬ (c1.type = 0 ∧ c2.type = 0)) :
    rule1 fn P c1 c2 n1 f f_n1 f_n2 f_n3 = PairOut.mk (repulse1 fn P c1 c2 n1 f f_n1 f_n2 f_n3) false 0 0 ∧
    rule2 fn P c1 c2 n1 f f_n1 f_n2 f_n3 = PairOut.mk (repulse2 fn P c1 c2 n1 f f_n1 f_n2 f_n3) false 0 0 := by
  unfold rule1 rule2
  simp only [lit_zero]
  constructor <;> rw [if_neg h]

/-! ### model 0 (`contact_node_face_via_spring`) -/

/-- what `gated0` returns: a multiple `k` of the gap distributed by the barycentric coordinates; `k ≠ 0` needs all
    the tests of the loop and of the rule -/
theorem gated0_form :
    ∃ k : R, (gated0 fn P c1 c2 n1 f f_n1 f_n2 f_n3 inBox).forces = forcesOf (gap n1 f_n1.pos f_n2.pos f_n3.pos * k) (bary n1 f_n1.pos f_n2.pos f_n3.pos) ∧
      (gated0 fn P c1 c2 n1 f f_n1 f_n2 f_n3 inBox).coupled = false ∧
      (k ≠ 0 → (cellTest c1.id c2.id ∧ inBox = true) ∧
        (dist2 n1 f_n1.pos f_n2.pos f_n3.pos < P.cut0Sq ∧ dist2 n1 f_n1.pos f_n2.pos f_n3.pos ≠ 0) ∧
        ((adhesive0 c1 c2 n1 f f_n1.pos f_n2.pos f_n3.pos = true ∧ dist2 n1 f_n1.pos f_n2.pos f_n3.pos < P.cutAdhSq) ∨
         ((!adhesive0 c1 c2 n1 f f_n1.pos f_n2.pos f_n3.pos) = true ∧ dist2 n1 f_n1.pos f_n2.pos f_n3.pos < P.cutRepSq))) ∧
      (cellTest c1.id c2.id → inBox = true →
        (dist2 n1 f_n1.pos f_n2.pos f_n3.pos < P.cut0Sq ∧ dist2 n1 f_n1.pos f_n2.pos f_n3.pos ≠ 0) →
        ((!adhesive0 c1 c2 n1 f f_n1.pos f_n2.pos f_n3.pos) = true ∧ dist2 n1 f_n1.pos f_n2.pos f_n3.pos < P.cutRepSq) →
        k = f.rep * f.area) ∧
      (0 ≤ f.adh → 0 ≤ f.rep → 0 ≤ f.area →
        (dist2 n1 f_n1.pos f_n2.pos f_n3.pos ≠ 0 → dist2 n1 f_n1.pos f_n2.pos f_n3.pos < P.cutAdhSq →
          0 ≤ P.cutAdh / fn.sqrt (dist2 n1 f_n1.pos f_n2.pos f_n3.pos) - 1) → 0 ≤ k) := by
  obtain ⟨k, hk, h1, h2, h3⟩ := rule0_form fn P c1 c2 n1 f f_n1 f_n2 f_n3
  unfold gated0
  split_ifs with hg
  · refine ⟨k, hk, rfl, fun h => ⟨⟨hg.2.1, hg.2.2.1⟩, h1 h⟩, ?_, h3⟩
    intro _ _ hO hR
    refine h2 hO hR ?_
    rintro ⟨ha, -⟩
    have := hR.1
    unfold dist2 at *
    rw [ha] at this; cases this
  · refine ⟨0, ?_, rfl, fun h => (h rfl).elim, ?_, fun _ _ _ _ => le_refl _⟩
    · show (noForces : Forces R) = _; rw [forcesOf_zero]
    · intro hc hb hO hR
      exact absurd ⟨by unfold nodeGate0; rfl, hc, hb, by unfold pairGate0; trivial⟩ hg

/-- **pair_forces_sum_zero** (model 0): the force on the node is minus the sum of the forces on the three face nodes -/
theorem pair_forces_sum_zero_0 (hnd : NonDeg f_n1.pos f_n2.pos f_n3.pos) :
    (gated0 fn P c1 c2 n1 f f_n1 f_n2 f_n3 inBox).forces.fn + (gated0 fn P c1 c2 n1 f f_n1 f_n2 f_n3 inBox).forces.f1 +
      (gated0 fn P c1 c2 n1 f f_n1 f_n2 f_n3 inBox).forces.f2 + (gated0 fn P c1 c2 n1 f f_n1 f_n2 f_n3 inBox).forces.f3 = v0 := by
  obtain ⟨k, hk, -⟩ := gated0_form fn P c1 c2 n1 f f_n1 f_n2 f_n3 inBox
  rw [hk]; exact forcesOf_sum _ _ (bary_sum_one n1.pos _ _ _ hnd)

/-- **reaction_distribution** (model 0): the reaction is distributed on the face nodes by the kernel's barycentric
    coordinates `(u, v, w)`, in this order -/
theorem reaction_distribution_0 :
    (G0).forces.f1 = ((G0).forces.fn * (-1 : R)) * (BARY).x ∧ (G0).forces.f2 = ((G0).forces.fn * (-1 : R)) * (BARY).y ∧
    (G0).forces.f3 = ((G0).forces.fn * (-1 : R)) * (BARY).z := by
  obtain ⟨k, hk, -⟩ := gated0_form fn P c1 c2 n1 f f_n1 f_n2 f_n3 inBox
  rw [hk]; exact forcesOf_distribution _ _

/-- **no_force_same_cell** (model 0) -/
theorem no_force_same_cell_0 (h : c1.id = c2.id) : gated0 fn P c1 c2 n1 f f_n1 f_n2 f_n3 inBox = noContact := by
  unfold gated0
  rw [if_neg]
  rintro ⟨-, hc, -⟩
  exact hc h

/-- **no_force_beyond_cutoff** (model 0): no force when every point of the triangle is at least the overall cut-off away,
    and no adhesion / repulsion beyond the cut-off of that branch (`model0_branch_cutoffs`) -/
theorem no_force_beyond_cutoff_0 (hnd : NonDeg f_n1.pos f_n2.pos f_n3.pos)
    (hfar : ∀ w : V3 R, 0 ≤ w.x → 0 ≤ w.y → 0 ≤ w.z → w.x + w.y + w.z = 1 →
      P.cut0Sq ≤ V3.normSq (n1.pos - baryPt w f_n1.pos f_n2.pos f_n3.pos)) :
    gated0 fn P c1 c2 n1 f f_n1 f_n2 f_n3 inBox = noContact ∨
      (gated0 fn P c1 c2 n1 f f_n1 f_n2 f_n3 inBox).forces = noForces ∧ (gated0 fn P c1 c2 n1 f f_n1 f_n2 f_n3 inBox).coupled = false := by
  right
  obtain ⟨k, hk, hc, h1, -⟩ := gated0_form fn P c1 c2 n1 f f_n1 f_n2 f_n3 inBox
  obtain ⟨a1, a2, a3, a4, a5⟩ := dist2_attained n1 _ _ _ hnd
  have hk0 : k = 0 := by
    by_contra hne
    have := (h1 hne).2.1.1
    have := hfar _ a1 a2 a3 a4
    rw [← a5] at this
    linarith
  rw [hk, hk0, forcesOf_zero]; exact ⟨rfl, hc⟩

/-- model 0: a non-zero force means the adhesive branch inside the adhesion cut-off or the repulsive branch inside
    the repulsion cut-off (squared distance compared with the squared cut-off) -/
theorem model0_branch_cutoffs (h : (gated0 fn P c1 c2 n1 f f_n1 f_n2 f_n3 inBox).forces ≠ noForces) :
    (adhesive0 c1 c2 n1 f f_n1.pos f_n2.pos f_n3.pos = true ∧ dist2 n1 f_n1.pos f_n2.pos f_n3.pos < P.cutAdhSq) ∨
    ((!adhesive0 c1 c2 n1 f f_n1.pos f_n2.pos f_n3.pos) = true ∧ dist2 n1 f_n1.pos f_n2.pos f_n3.pos < P.cutRepSq) := by
  obtain ⟨k, hk, -, h1, -⟩ := gated0_form fn P c1 c2 n1 f f_n1 f_n2 f_n3 inBox
  have hk0 : k ≠ 0 := by
    intro h0; apply h; rw [hk, h0, forcesOf_zero]
  exact (h1 hk0).2.2

/-- the hardening factor of the adhesion is not negative inside the adhesion cut-off -/
theorem hardening_nonneg (W : PWF P) (hsqrt : ∀ x : R, 0 ≤ x → 0 ≤ fn.sqrt x ∧ fn.sqrt x * fn.sqrt x = x)
    (d : R) (hd0 : 0 ≤ d) (hd : d ≠ 0) (hlt : d < P.cutAdhSq) : 0 ≤ P.cutAdh / fn.sqrt d - 1 := by
  obtain ⟨s0, ss⟩ := hsqrt d hd0
  have spos : 0 < fn.sqrt d := by
    rcases s0.lt_or_eq with h | h
    · exact h
    · exfalso; apply hd; rw [← ss, ← h]; ring
  have hlt' : fn.sqrt d < P.cutAdh := by
    by_contra hc; push Not at hc
    have := mul_self_le_mul_self W.adh_pos.le hc
    rw [ss, ← W.adh_sq] at this
    linarith
  have : 1 ≤ P.cutAdh / fn.sqrt d := (one_le_div spos).mpr hlt'.le
  linarith

/-- **node_force_toward_surface / reaction_toward_node** (model 0): with non-negative strengths and area, whatever is
    applied pulls or pushes the node towards the closest point of the face and the face towards the node — in
    particular on the forbidden side -/
theorem node_force_toward_surface_0 (W : PWF P) (hnd : NonDeg f_n1.pos f_n2.pos f_n3.pos)
    (hsqrt : ∀ x : R, 0 ≤ x → 0 ≤ fn.sqrt x ∧ fn.sqrt x * fn.sqrt x = x)
    (ha : 0 ≤ f.adh) (hr : 0 ≤ f.rep) (hs : 0 ≤ f.area) :
    0 ≤ V3.dot (G0).forces.fn (GAP * (-1 : R)) ∧ 0 ≤ V3.dot ((G0).forces.f1 + (G0).forces.f2 + (G0).forces.f3) GAP := by
  obtain ⟨k, hk, -, -, -, h3⟩ := gated0_form fn P c1 c2 n1 f f_n1 f_n2 f_n3 inBox
  obtain ⟨-, -, -, a4, a5⟩ := dist2_attained n1 _ _ _ hnd
  have hd0 : 0 ≤ dist2 n1 f_n1.pos f_n2.pos f_n3.pos := by rw [a5]; exact V3.normSq_nonneg _
  have hk0 : 0 ≤ k := h3 ha hr hs (fun h1 h2 => hardening_nonneg fn P W hsqrt _ hd0 h1 h2)
  rw [hk]
  exact ⟨forcesOf_node_dir _ _ _ hk0, forcesOf_reaction_dir _ _ _ hk0 a4⟩

/-- **forbidden_side_force** (model 0): a node of another cell whose box test passed, on the forbidden side of the face
    (inside an ordinary cell; outside for the reversed combinations), off the surface and inside the repulsion cut-off,
    gets exactly `stiffness × area × (cpa − p)`, and the face `stiffness × area × (p − cpa)` distributed by `(u, v, w)` -/
theorem forbidden_side_force_0 (hc : cellTest c1.id c2.id) (hb : inBox = true)
    (hO : dist2 n1 f_n1.pos f_n2.pos f_n3.pos < P.cut0Sq ∧ dist2 n1 f_n1.pos f_n2.pos f_n3.pos ≠ 0)
    (hside : (!adhesive0 c1 c2 n1 f f_n1.pos f_n2.pos f_n3.pos) = true) (hR : dist2 n1 f_n1.pos f_n2.pos f_n3.pos < P.cutRepSq) :
    (gated0 fn P c1 c2 n1 f f_n1 f_n2 f_n3 inBox).forces =
      forcesOf (gap n1 f_n1.pos f_n2.pos f_n3.pos * (f.rep * f.area)) (bary n1 f_n1.pos f_n2.pos f_n3.pos) := by
  obtain ⟨k, hk, -, -, h2, -⟩ := gated0_form fn P c1 c2 n1 f f_n1 f_n2 f_n3 inBox
  rw [hk, h2 hc hb hO ⟨hside, hR⟩]

/-! ### models 1 and 2 (`contact_node_node_via_coupling`, `contact_face_face_via_coupling`) -/

/-- what `gated1` returns -/
theorem gated1_form :
    ∃ k : R, (gated1 fn P c1 c2 n1 f f_n1 f_n2 f_n3 inBox).forces = forcesOf (gap n1 f_n1.pos f_n2.pos f_n3.pos * k) (bary n1 f_n1.pos f_n2.pos f_n3.pos) ∧
      (k ≠ 0 → (nodeGate1 c1 n1 ∧ cellTest c1.id c2.id ∧ inBox = true ∧ pairGate1 P n1 f) ∧
        (gated1 fn P c1 c2 n1 f f_n1 f_n2 f_n3 inBox).coupled = false ∧
        dist2 n1 f_n1.pos f_n2.pos f_n3.pos < P.maxCutSq ∧ repulsive1 c1 c2 n1 f f_n1.pos f_n2.pos f_n3.pos = true) ∧
      ((nodeGate1 c1 n1 ∧ cellTest c1.id c2.id ∧ inBox = true ∧ pairGate1 P n1 f) →
        (gated1 fn P c1 c2 n1 f f_n1 f_n2 f_n3 inBox).coupled = false →
        dist2 n1 f_n1.pos f_n2.pos f_n3.pos < P.maxCutSq → repulsive1 c1 c2 n1 f f_n1.pos f_n2.pos f_n3.pos = true → k = f.rep * f.area) ∧
      (0 ≤ f.rep → 0 ≤ f.area → 0 ≤ k) := by
  obtain ⟨k, hk, h1, h2, h3⟩ := repulse1_form fn P c1 c2 n1 f f_n1 f_n2 f_n3
  have zero : ∃ k : R, (noForces : Forces R) = forcesOf (gap n1 f_n1.pos f_n2.pos f_n3.pos * k) (bary n1 f_n1.pos f_n2.pos f_n3.pos) ∧ k = 0 :=
    ⟨0, by rw [forcesOf_zero], rfl⟩
  unfold gated1
  split_ifs with hg
  · unfold rule1
    simp only [lit_zero]
    split_ifs with hE hF
    · exact ⟨0, by show (noForces : Forces R) = _; rw [forcesOf_zero], fun h => (h rfl).elim, fun _ hc => (by cases hc), fun _ _ => le_refl _⟩
    · exact ⟨k, hk, fun h => ⟨hg, rfl, h1 h⟩, fun _ _ a b => h2 a b, h3⟩
    · exact ⟨k, hk, fun h => ⟨hg, rfl, h1 h⟩, fun _ _ a b => h2 a b, h3⟩
  · exact ⟨0, by show (noForces : Forces R) = _; rw [forcesOf_zero], fun h => (h rfl).elim, fun h => absurd h hg, fun _ _ => le_refl _⟩

/-- what `gated2` returns -/
theorem gated2_form :
    ∃ k : R, (gated2 fn P c1 c2 n1 f f_n1 f_n2 f_n3 inBox).forces = forcesOf (gap n1 f_n1.pos f_n2.pos f_n3.pos * k) (bary n1 f_n1.pos f_n2.pos f_n3.pos) ∧
      (k ≠ 0 → (nodeGate2 c1 n1 ∧ cellTest c1.id c2.id ∧ inBox = true ∧ pairGate2 P n1 f) ∧
        (gated2 fn P c1 c2 n1 f f_n1 f_n2 f_n3 inBox).coupled = false ∧
        dist2 n1 f_n1.pos f_n2.pos f_n3.pos < P.maxCutSq ∧ repulsive2 c1 c2 n1 f f_n1.pos f_n2.pos f_n3.pos = true) ∧
      ((nodeGate2 c1 n1 ∧ cellTest c1.id c2.id ∧ inBox = true ∧ pairGate2 P n1 f) →
        (gated2 fn P c1 c2 n1 f f_n1 f_n2 f_n3 inBox).coupled = false →
        dist2 n1 f_n1.pos f_n2.pos f_n3.pos < P.maxCutSq → repulsive2 c1 c2 n1 f f_n1.pos f_n2.pos f_n3.pos = true → k = f.rep * f.area) ∧
      (0 ≤ f.rep → 0 ≤ f.area → 0 ≤ k) := by
  obtain ⟨k, hk, h1, h2, h3⟩ := repulse2_form fn P c1 c2 n1 f f_n1 f_n2 f_n3
  unfold gated2
  split_ifs with hg
  · unfold rule2
    simp only [lit_zero]
    split_ifs with hE hF
    · exact ⟨0, by show (noForces : Forces R) = _; rw [forcesOf_zero], fun h => (h rfl).elim, fun _ hc => (by cases hc), fun _ _ => le_refl _⟩
    · exact ⟨k, hk, fun h => ⟨hg, rfl, h1 h⟩, fun _ _ a b => h2 a b, h3⟩
    · exact ⟨k, hk, fun h => ⟨hg, rfl, h1 h⟩, fun _ _ a b => h2 a b, h3⟩
  · exact ⟨0, by show (noForces : Forces R) = _; rw [forcesOf_zero], fun h => (h rfl).elim, fun h => absurd h hg, fun _ _ => le_refl _⟩

/-- **pair_forces_sum_zero** (models 1, 2) -/
theorem pair_forces_sum_zero_1 (hnd : NonDeg f_n1.pos f_n2.pos f_n3.pos) :
    (gated1 fn P c1 c2 n1 f f_n1 f_n2 f_n3 inBox).forces.fn + (gated1 fn P c1 c2 n1 f f_n1 f_n2 f_n3 inBox).forces.f1 +
      (gated1 fn P c1 c2 n1 f f_n1 f_n2 f_n3 inBox).forces.f2 + (gated1 fn P c1 c2 n1 f f_n1 f_n2 f_n3 inBox).forces.f3 = v0 := by
  obtain ⟨k, hk, -⟩ := gated1_form fn P c1 c2 n1 f f_n1 f_n2 f_n3 inBox
  rw [hk]; exact forcesOf_sum _ _ (bary_sum_one n1.pos _ _ _ hnd)
theorem pair_forces_sum_zero_2 (hnd : NonDeg f_n1.pos f_n2.pos f_n3.pos) :
    (gated2 fn P c1 c2 n1 f f_n1 f_n2 f_n3 inBox).forces.fn + (gated2 fn P c1 c2 n1 f f_n1 f_n2 f_n3 inBox).forces.f1 +
      (gated2 fn P c1 c2 n1 f f_n1 f_n2 f_n3 inBox).forces.f2 + (gated2 fn P c1 c2 n1 f f_n1 f_n2 f_n3 inBox).forces.f3 = v0 := by
  obtain ⟨k, hk, -⟩ := gated2_form fn P c1 c2 n1 f f_n1 f_n2 f_n3 inBox
  rw [hk]; exact forcesOf_sum _ _ (bary_sum_one n1.pos _ _ _ hnd)

/-- **reaction_distribution** (models 1, 2) -/
theorem reaction_distribution_1 :
    (G1).forces.f1 = ((G1).forces.fn * (-1 : R)) * (BARY).x ∧ (G1).forces.f2 = ((G1).forces.fn * (-1 : R)) * (BARY).y ∧
    (G1).forces.f3 = ((G1).forces.fn * (-1 : R)) * (BARY).z := by
  obtain ⟨k, hk, -⟩ := gated1_form fn P c1 c2 n1 f f_n1 f_n2 f_n3 inBox
  rw [hk]; exact forcesOf_distribution _ _
theorem reaction_distribution_2 :
    (G2).forces.f1 = ((G2).forces.fn * (-1 : R)) * (BARY).x ∧ (G2).forces.f2 = ((G2).forces.fn * (-1 : R)) * (BARY).y ∧
    (G2).forces.f3 = ((G2).forces.fn * (-1 : R)) * (BARY).z := by
  obtain ⟨k, hk, -⟩ := gated2_form fn P c1 c2 n1 f f_n1 f_n2 f_n3 inBox
  rw [hk]; exact forcesOf_distribution _ _

/-- **no_force_same_cell** (models 1, 2): neither force nor coupling between elements of the same cell -/
theorem no_force_same_cell_1 (h : c1.id = c2.id) : gated1 fn P c1 c2 n1 f f_n1 f_n2 f_n3 inBox = noContact := by
  unfold gated1
  rw [if_neg]
  rintro ⟨-, hc, -⟩
  exact hc h
theorem no_force_same_cell_2 (h : c1.id = c2.id) : gated2 fn P c1 c2 n1 f f_n1 f_n2 f_n3 inBox = noContact := by
  unfold gated2
  rw [if_neg]
  rintro ⟨-, hc, -⟩
  exact hc h

/-- **coupling_only_within_adhesion_cutoff** (model 1): a coupling is created only between two epithelial cells with
    different ids, towards one of the three face nodes, at the true squared distance of that node, which is below the
    squared adhesion cut-off; and no force is applied in that call -/
theorem coupling_only_within_adhesion_cutoff_1 (W : PWF P)
    (h : (gated1 fn P c1 c2 n1 f f_n1 f_n2 f_n3 inBox).coupled = true) :
    let out := gated1 fn P c1 c2 n1 f f_n1 f_n2 f_n3 inBox
    (c1.type = 0 ∧ c2.type = 0) ∧ c1.id ≠ c2.id ∧ out.dist < P.cutAdhSq ∧ out.forces = noForces ∧
    ((out.idx = 1 ∧ out.dist = V3.normSq (n1.pos - f_n1.pos)) ∨ (out.idx = 2 ∧ out.dist = V3.normSq (n1.pos - f_n2.pos)) ∨
     (out.idx = 3 ∧ out.dist = V3.normSq (n1.pos - f_n3.pos))) := by
  intro out
  have hout : out = gated1 fn P c1 c2 n1 f f_n1 f_n2 f_n3 inBox := rfl
  clear_value out
  subst hout
  revert h
  unfold gated1
  split_ifs with hg
  · unfold rule1
    simp only [lit_zero]
    split_ifs with hE hF
    · intro _
      have hsp := coupleDist1_spec fn P c1 c2 n1 f f_n1 f_n2 f_n3
      have hch := coupleChoose1_spec (coupleDist1 fn P c1 c2 n1 f f_n1 f_n2 f_n3).1 (coupleDist1 fn P c1 c2 n1 f f_n1 f_n2 f_n3).2.1
        (coupleDist1 fn P c1 c2 n1 f f_n1 f_n2 f_n3).2.2
      unfold coupleFire1 at hF
      have hlt := hF.1
      have hbig := W.adh_le_big
      refine ⟨hE, hg.2.1, hlt, rfl, ?_⟩
      rcases hch with e | e | e <;> rw [e] at hlt ⊢ <;> simp only [] at hlt ⊢
      · rcases hsp.1 with d | d
        · exact Or.inl ⟨by simp, d⟩
        · rw [d] at hlt; linarith
      · rcases hsp.2.1 with d | d
        · exact Or.inr (Or.inl ⟨by simp, d⟩)
        · rw [d] at hlt; linarith
      · rcases hsp.2.2 with d | d
        · exact Or.inr (Or.inr ⟨by simp, d⟩)
        · rw [d] at hlt; linarith
    · intro hc; cases hc
    · intro hc; cases hc
  · intro hc; cases hc

/-- **coupling_only_within_adhesion_cutoff** (model 2) -/
theorem coupling_only_within_adhesion_cutoff_2 (W : PWF P)
    (h : (gated2 fn P c1 c2 n1 f f_n1 f_n2 f_n3 inBox).coupled = true) :
    let out := gated2 fn P c1 c2 n1 f f_n1 f_n2 f_n3 inBox
    (c1.type = 0 ∧ c2.type = 0) ∧ c1.id ≠ c2.id ∧ out.dist < P.cutAdhSq ∧ out.forces = noForces ∧
    ((out.idx = 1 ∧ out.dist = V3.normSq (n1.pos - f_n1.pos)) ∨ (out.idx = 2 ∧ out.dist = V3.normSq (n1.pos - f_n2.pos)) ∨
     (out.idx = 3 ∧ out.dist = V3.normSq (n1.pos - f_n3.pos))) := by
  intro out
  have hout : out = gated2 fn P c1 c2 n1 f f_n1 f_n2 f_n3 inBox := rfl
  clear_value out
  subst hout
  revert h
  unfold gated2
  split_ifs with hg
  · unfold rule2
    simp only [lit_zero]
    split_ifs with hE hF
    · intro _
      have hsp := coupleDist2_spec fn P c1 c2 n1 f f_n1 f_n2 f_n3
      have hch := coupleChoose2_spec (coupleDist2 fn P c1 c2 n1 f f_n1 f_n2 f_n3).1 (coupleDist2 fn P c1 c2 n1 f f_n1 f_n2 f_n3).2.1
        (coupleDist2 fn P c1 c2 n1 f f_n1 f_n2 f_n3).2.2.1
      unfold coupleFire2 at hF
      have hlt := hF.1
      have hbig := W.adh_le_big
      refine ⟨hE, hg.2.1, hlt, rfl, ?_⟩
      rcases hch with e | e | e <;> rw [e] at hlt ⊢ <;> simp only [] at hlt ⊢
      · rcases hsp.1 with d | d
        · exact Or.inl ⟨by simp, d⟩
        · rw [d] at hlt; linarith
      · rcases hsp.2.1 with d | d
        · exact Or.inr (Or.inl ⟨by simp, d⟩)
        · rw [d] at hlt; linarith
      · rcases hsp.2.2 with d | d
        · exact Or.inr (Or.inr ⟨by simp, d⟩)
        · rw [d] at hlt; linarith
    · intro hc; cases hc
    · intro hc; cases hc
  · intro hc; cases hc

/-- a face node is a point of the triangle -/
theorem corner_far (a b c p : V3 R) (C : R)
    (hfar : ∀ w : V3 R, 0 ≤ w.x → 0 ≤ w.y → 0 ≤ w.z → w.x + w.y + w.z = 1 → C ≤ V3.normSq (p - baryPt w a b c)) :
    C ≤ V3.normSq (p - a) ∧ C ≤ V3.normSq (p - b) ∧ C ≤ V3.normSq (p - c) := by
  have e1 : baryPt (⟨1, 0, 0⟩ : V3 R) a b c = a := by apply V3.ext' <;> simp [baryPt]
  have e2 : baryPt (⟨0, 1, 0⟩ : V3 R) a b c = b := by apply V3.ext' <;> simp [baryPt]
  have e3 : baryPt (⟨0, 0, 1⟩ : V3 R) a b c = c := by apply V3.ext' <;> simp [baryPt]
  have h1 := hfar ⟨1, 0, 0⟩ (by norm_num) (by norm_num) (by norm_num) (by norm_num)
  have h2 := hfar ⟨0, 1, 0⟩ (by norm_num) (by norm_num) (by norm_num) (by norm_num)
  have h3 := hfar ⟨0, 0, 1⟩ (by norm_num) (by norm_num) (by norm_num) (by norm_num)
  rw [e1] at h1; rw [e2] at h2; rw [e3] at h3
  exact ⟨h1, h2, h3⟩

/-- **no_force_beyond_cutoff** (model 1): neither force nor coupling when every point of the triangle is at least the
    larger cut-off away from the node -/
theorem no_force_beyond_cutoff_1 (W : PWF P) (hnd : NonDeg f_n1.pos f_n2.pos f_n3.pos)
    (hfar : ∀ w : V3 R, 0 ≤ w.x → 0 ≤ w.y → 0 ≤ w.z → w.x + w.y + w.z = 1 →
      P.maxCutSq ≤ V3.normSq (n1.pos - baryPt w f_n1.pos f_n2.pos f_n3.pos)) :
    (gated1 fn P c1 c2 n1 f f_n1 f_n2 f_n3 inBox).forces = noForces ∧ (gated1 fn P c1 c2 n1 f f_n1 f_n2 f_n3 inBox).coupled = false := by
  constructor
  · obtain ⟨k, hk, h1, -⟩ := gated1_form fn P c1 c2 n1 f f_n1 f_n2 f_n3 inBox
    obtain ⟨a1, a2, a3, a4, a5⟩ := dist2_attained n1 _ _ _ hnd
    have hk0 : k = 0 := by
      by_contra hne
      have := (h1 hne).2.2.1
      have := hfar _ a1 a2 a3 a4
      rw [← a5] at this
      linarith
    rw [hk, hk0, forcesOf_zero]
  · by_contra hc
    have hc' : (gated1 fn P c1 c2 n1 f f_n1 f_n2 f_n3 inBox).coupled = true := by
      cases h : (gated1 fn P c1 c2 n1 f f_n1 f_n2 f_n3 inBox).coupled <;> simp_all
    obtain ⟨-, -, hlt, -, hd⟩ := coupling_only_within_adhesion_cutoff_1 fn P c1 c2 n1 f f_n1 f_n2 f_n3 inBox W hc'
    obtain ⟨f1, f2, f3⟩ := corner_far _ _ _ _ _ hfar
    have := W.adh_le
    rcases hd with ⟨-, e⟩ | ⟨-, e⟩ | ⟨-, e⟩ <;> rw [e] at hlt <;> linarith

/-- **no_force_beyond_cutoff** (model 2) -/
theorem no_force_beyond_cutoff_2 (W : PWF P) (hnd : NonDeg f_n1.pos f_n2.pos f_n3.pos)
    (hfar : ∀ w : V3 R, 0 ≤ w.x → 0 ≤ w.y → 0 ≤ w.z → w.x + w.y + w.z = 1 →
      P.maxCutSq ≤ V3.normSq (n1.pos - baryPt w f_n1.pos f_n2.pos f_n3.pos)) :
    (gated2 fn P c1 c2 n1 f f_n1 f_n2 f_n3 inBox).forces = noForces ∧ (gated2 fn P c1 c2 n1 f f_n1 f_n2 f_n3 inBox).coupled = false := by
  constructor
  · obtain ⟨k, hk, h1, -⟩ := gated2_form fn P c1 c2 n1 f f_n1 f_n2 f_n3 inBox
    obtain ⟨a1, a2, a3, a4, a5⟩ := dist2_attained n1 _ _ _ hnd
    have hk0 : k = 0 := by
      by_contra hne
      have := (h1 hne).2.2.1
      have := hfar _ a1 a2 a3 a4
      rw [← a5] at this
      linarith
    rw [hk, hk0, forcesOf_zero]
  · by_contra hc
    have hc' : (gated2 fn P c1 c2 n1 f f_n1 f_n2 f_n3 inBox).coupled = true := by
      cases h : (gated2 fn P c1 c2 n1 f f_n1 f_n2 f_n3 inBox).coupled <;> simp_all
    obtain ⟨-, -, hlt, -, hd⟩ := coupling_only_within_adhesion_cutoff_2 fn P c1 c2 n1 f f_n1 f_n2 f_n3 inBox W hc'
    obtain ⟨f1, f2, f3⟩ := corner_far _ _ _ _ _ hfar
    have := W.adh_le
    rcases hd with ⟨-, e⟩ | ⟨-, e⟩ | ⟨-, e⟩ <;> rw [e] at hlt <;> linarith

/-- **node_force_toward_surface / reaction_toward_node** (models 1, 2) -/
theorem node_force_toward_surface_1 (hnd : NonDeg f_n1.pos f_n2.pos f_n3.pos) (hr : 0 ≤ f.rep) (hs : 0 ≤ f.area) :
    0 ≤ V3.dot (G1).forces.fn (GAP * (-1 : R)) ∧ 0 ≤ V3.dot ((G1).forces.f1 + (G1).forces.f2 + (G1).forces.f3) GAP := by
  obtain ⟨k, hk, -, -, h3⟩ := gated1_form fn P c1 c2 n1 f f_n1 f_n2 f_n3 inBox
  rw [hk]
  exact ⟨forcesOf_node_dir _ _ _ (h3 hr hs), forcesOf_reaction_dir _ _ _ (h3 hr hs) (bary_sum_one n1.pos _ _ _ hnd)⟩
theorem node_force_toward_surface_2 (hnd : NonDeg f_n1.pos f_n2.pos f_n3.pos) (hr : 0 ≤ f.rep) (hs : 0 ≤ f.area) :
    0 ≤ V3.dot (G2).forces.fn (GAP * (-1 : R)) ∧ 0 ≤ V3.dot ((G2).forces.f1 + (G2).forces.f2 + (G2).forces.f3) GAP := by
  obtain ⟨k, hk, -, -, h3⟩ := gated2_form fn P c1 c2 n1 f f_n1 f_n2 f_n3 inBox
  rw [hk]
  exact ⟨forcesOf_node_dir _ _ _ (h3 hr hs), forcesOf_reaction_dir _ _ _ (h3 hr hs) (bary_sum_one n1.pos _ _ _ hnd)⟩

/-- **forbidden_side_force** (models 1, 2): when the loop hands the pair to the rule, no coupling is created by the call,
    the node is inside the (larger) cut-off and on the forbidden side, the node gets `stiffness × area × (cpa − p)`
    and the face the opposite, distributed by `(u, v, w)` -/
theorem forbidden_side_force_1 (hg : nodeGate1 c1 n1 ∧ cellTest c1.id c2.id ∧ inBox = true ∧ pairGate1 P n1 f)
    (hc : (gated1 fn P c1 c2 n1 f f_n1 f_n2 f_n3 inBox).coupled = false)
    (hO : dist2 n1 f_n1.pos f_n2.pos f_n3.pos < P.maxCutSq) (hside : repulsive1 c1 c2 n1 f f_n1.pos f_n2.pos f_n3.pos = true) :
    (gated1 fn P c1 c2 n1 f f_n1 f_n2 f_n3 inBox).forces =
      forcesOf (gap n1 f_n1.pos f_n2.pos f_n3.pos * (f.rep * f.area)) (bary n1 f_n1.pos f_n2.pos f_n3.pos) := by
  obtain ⟨k, hk, -, h2, -⟩ := gated1_form fn P c1 c2 n1 f f_n1 f_n2 f_n3 inBox
  rw [hk, h2 hg hc hO hside]
theorem forbidden_side_force_2 (hg : nodeGate2 c1 n1 ∧ cellTest c1.id c2.id ∧ inBox = true ∧ pairGate2 P n1 f)
    (hc : (gated2 fn P c1 c2 n1 f f_n1 f_n2 f_n3 inBox).coupled = false)
    (hO : dist2 n1 f_n1.pos f_n2.pos f_n3.pos < P.maxCutSq) (hside : repulsive2 c1 c2 n1 f f_n1.pos f_n2.pos f_n3.pos = true) :
    (gated2 fn P c1 c2 n1 f f_n1 f_n2 f_n3 inBox).forces =
      forcesOf (gap n1 f_n1.pos f_n2.pos f_n3.pos * (f.rep * f.area)) (bary n1 f_n1.pos f_n2.pos f_n3.pos) := by
  obtain ⟨k, hk, -, h2, -⟩ := gated2_form fn P c1 c2 n1 f f_n1 f_n2 f_n3 inBox
  rw [hk, h2 hg hc hO hside]

/-! ### the link to C06: a pair that contributes anything is within the padding of the face boxes -/

/-- whatever the three models do to a pair (force or coupling) happens only if some point of the triangle is closer to the
    node than the padding of the boxes — the hypothesis `rule = 0 unless Within pad` of `C06.forces_eq_allpairs` -/
theorem active_within_padding (W : PWF P) (hnd : NonDeg f_n1.pos f_n2.pos f_n3.pos)
    (hfar : ∀ w : V3 R, 0 ≤ w.x → 0 ≤ w.y → 0 ≤ w.z → w.x + w.y + w.z = 1 →
      P.padding * P.padding ≤ V3.normSq (n1.pos - baryPt w f_n1.pos f_n2.pos f_n3.pos)) :
    ((gated0 fn P c1 c2 n1 f f_n1 f_n2 f_n3 inBox).forces = noForces ∧ (gated0 fn P c1 c2 n1 f f_n1 f_n2 f_n3 inBox).coupled = false) ∧
    ((gated1 fn P c1 c2 n1 f f_n1 f_n2 f_n3 inBox).forces = noForces ∧ (gated1 fn P c1 c2 n1 f f_n1 f_n2 f_n3 inBox).coupled = false) ∧
    ((gated2 fn P c1 c2 n1 f f_n1 f_n2 f_n3 inBox).forces = noForces ∧ (gated2 fn P c1 c2 n1 f f_n1 f_n2 f_n3 inBox).coupled = false) := by
  refine ⟨?_, no_force_beyond_cutoff_1 fn P c1 c2 n1 f f_n1 f_n2 f_n3 inBox W hnd (fun w a b c d => le_trans W.max_le_pad (hfar w a b c d)),
    no_force_beyond_cutoff_2 fn P c1 c2 n1 f f_n1 f_n2 f_n3 inBox W hnd (fun w a b c d => le_trans W.max_le_pad (hfar w a b c d))⟩
  rcases no_force_beyond_cutoff_0 fn P c1 c2 n1 f f_n1 f_n2 f_n3 inBox hnd (fun w a b c d => le_trans W.cut0_le_pad (hfar w a b c d)) with h | h
  · rw [h]; exact ⟨rfl, rfl⟩
  · exact h

/-! ### non-vacuity (ℚ) -/
section nonvacuous
def qa : V3 ℚ := ⟨0, 0, 0⟩
def qb : V3 ℚ := ⟨1, 0, 0⟩
def qc : V3 ℚ := ⟨0, 1, 0⟩
def nd (p : V3 ℚ) : CNode ℚ := ⟨p, ⟨0, 0, -1⟩, 0, false, 1000⟩
def fnQ : Fn ℚ := { sqrt := fun x => if x = 1/16 then 1/4 else 1, ln := id, exp := id, acos := id, floor := fun _ => 0 }
def PQ : CParams ℚ := mkParams12 (1/2) (1/4) 1 0 0 1000000
def faceQ : CFace ℚ := ⟨⟨0, 0, 1⟩, 1/2, 3, 2⟩
example : NonDeg qa qb qc := by norm_num [NonDeg, qa, qb, qc, V3.normSq_def, V3.cross_def]
example : PWF PQ := mkParams12_wf _ _ _ _ _ _ (by norm_num) (by norm_num) (by norm_num)
/-- a node of a static cell a quarter below the face of a lumen cell (inside it): repelled with stiffness × area × gap -/
example : let F := (gated1 fnQ PQ ⟨7, 4, 10⟩ ⟨9, 2, 10⟩ (nd ⟨1/4, 1/4, -1/4⟩) faceQ (nd qa) (nd qb) (nd qc) true).forces
    F.fn.z = 1/4 ∧ F.f1.z = -(1/8) ∧ F.f2.z = -(1/16) ∧ F.f3.z = -(1/16) ∧ F.fn.x = 0 ∧ F.fn.y = 0 := by
  norm_num [gated1, rule1, repulse1, nodeGate1, pairGate1, cellTest, reversal1, nd, qa, qb, qc, faceQ, PQ, mkParams12, cmax, fnQ,
    closestPt, V3.dot_def, V3.normSq_def, lit_eq, vzero]
end nonvacuous

end Simu.C07
