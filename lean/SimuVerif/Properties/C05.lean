import SimuVerif.Gen.Kernel
import SimuVerif.Lemmas.KernelSpec
import Mathlib.Tactic.LinearCombination
import Mathlib.Tactic.NormNum
/-
  C05 — the point-to-triangle distance kernel returns the true closest point.

  `Gen.closestPt` is regenerated from `contact_model_abstract::compute_node_triangle_distance`
  on every run (tools/translate.py); the theorems below are therefore statements about what the
  C++ says now, read in exact arithmetic over an arbitrary ordered field.
-/
namespace Simu.C05
open Simu
variable {R : Type} [Field R] [LinearOrder R] [IsStrictOrderedRing R]

/-- a triangle is non-degenerate when its normal `(b-a)×(c-a)` is not the zero vector -/
def NonDeg (a b c : V3 R) : Prop := 0 < V3.normSq (V3.cross (b - a) (c - a))

theorem nonDeg_iff (a b c : V3 R) : NonDeg a b c ↔ V3.cross (b - a) (c - a) ≠ ⟨0, 0, 0⟩ := by
  unfold NonDeg
  constructor
  · intro h e; rw [e] at h; simp [V3.normSq_def] at h
  · intro h
    rcases (V3.normSq_nonneg (V3.cross (b - a) (c - a))).lt_or_eq with h' | h'
    · exact h'
    · exfalso; apply h
      obtain ⟨h1, h2, h3⟩ := V3.normSq_eq_zero h'.symm
      exact V3.ext' h1 h2 h3

/-- master theorem: the generated kernel meets the specification of a point–triangle query
    in every one of its seven regions -/
theorem kernel_spec (p a b c : V3 R) (hnd : NonDeg a b c) : KSpec p a b c (Gen.closestPt p a b c) := by
  obtain ⟨hA, hC, hBC⟩ := nondeg_pos a b c hnd
  unfold Gen.closestPt
  simp only [lit_zero, lit_one]
  split_ifs with h1 h2 h3 h4 h5 h6
  · exact regionA p a b c h1.1 h1.2
  · exact regionB p a b c h2.1 h2.2
  · exact regionEdge_ab p a b c hA h3.1.2 h3.2 h3.1.1
  · exact regionC p a b c h4.1 h4.2
  · exact regionEdge_ac p a b c hC h5.1.2 h5.2 h5.1.1
  · exact regionEdge_bc p a b c hBC h6.1.2 h6.2 h6.1.1
  · exact regionInterior p a b c hnd _ _ _ _ _ _ _ _ _ _ _ _
      rfl rfl rfl rfl rfl rfl rfl rfl rfl rfl rfl rfl h1 h2 h3 h4 h5 h6

/-- barycentric coordinates are non-negative -/
theorem bary_nonneg (p a b c : V3 R) (hnd : NonDeg a b c) :
    0 ≤ (Gen.closestPt p a b c).2.x ∧ 0 ≤ (Gen.closestPt p a b c).2.y ∧ 0 ≤ (Gen.closestPt p a b c).2.z :=
  (kernel_spec p a b c hnd).nonneg

/-- barycentric coordinates sum to one -/
theorem bary_sum_one (p a b c : V3 R) (hnd : NonDeg a b c) :
    (Gen.closestPt p a b c).2.x + (Gen.closestPt p a b c).2.y + (Gen.closestPt p a b c).2.z = 1 :=
  (kernel_spec p a b c hnd).sum_one

/-- the returned squared distance is the squared distance to the designated point -/
theorem dist_eq (p a b c : V3 R) (hnd : NonDeg a b c) :
    (Gen.closestPt p a b c).1 = V3.normSq (p - baryPt (Gen.closestPt p a b c).2 a b c) :=
  (kernel_spec p a b c hnd).dist

/-- the designated point is the point of the (closed) triangle closest to `p`: no point with
    non-negative barycentric coordinates summing to one is nearer -/
theorem closest (p a b c : V3 R) (hnd : NonDeg a b c) (w : V3 R)
    (hx : 0 ≤ w.x) (hy : 0 ≤ w.y) (hz : 0 ≤ w.z) (hs : w.x + w.y + w.z = 1) :
    (Gen.closestPt p a b c).1 ≤ V3.normSq (p - baryPt w a b c) :=
  (kernel_spec p a b c hnd).closest w hx hy hz hs

theorem V3_tr1 (x y t : V3 R) : (x + t) - (y + t) = x - y := by
  apply V3.ext' <;> simp
theorem V3_tr2 (a u p t : V3 R) : (a + t) + u - (p + t) = a + u - p := by
  apply V3.ext' <;> simp <;> ring
theorem V3_tr3 (a u p t : V3 R) : (p + t) - ((a + t) + u) = p - (a + u) := by
  apply V3.ext' <;> simp <;> ring
theorem V3_tr4 (a u u' p t : V3 R) : (p + t) - ((a + t) + u + u') = p - (a + u + u') := by
  apply V3.ext' <;> simp <;> ring

/-- translating point and triangle together changes neither result -/
theorem translate_invariant (p a b c t : V3 R) :
    Gen.closestPt (p + t) (a + t) (b + t) (c + t) = Gen.closestPt p a b c := by
  unfold Gen.closestPt
  simp only [lit_zero, lit_one, V3_tr1, V3_tr2, V3_tr3, V3_tr4]

/-- the matrix with rows `r1 r2 r3` -/
def matMul (r1 r2 r3 v : V3 R) : V3 R := ⟨V3.dot r1 v, V3.dot r2 v, V3.dot r3 v⟩
structure LinIso (M : V3 R → V3 R) : Prop where
  map_sub : ∀ x y, M x - M y = M (x - y)
  map_add : ∀ x y, M x + M y = M (x + y)
  map_smul : ∀ x (k : R), M x * k = M (x * k)
  dot_map : ∀ x y, V3.dot (M x) (M y) = V3.dot x y

/-- every matrix with orthonormal columns is such a map (all rotations and reflections) -/
theorem linIso_of_orthonormal (r1 r2 r3 : V3 R)
    (hxx : r1.x * r1.x + r2.x * r2.x + r3.x * r3.x = 1)
    (hyy : r1.y * r1.y + r2.y * r2.y + r3.y * r3.y = 1)
    (hzz : r1.z * r1.z + r2.z * r2.z + r3.z * r3.z = 1)
    (hxy : r1.x * r1.y + r2.x * r2.y + r3.x * r3.y = 0)
    (hxz : r1.x * r1.z + r2.x * r2.z + r3.x * r3.z = 0)
    (hyz : r1.y * r1.z + r2.y * r2.z + r3.y * r3.z = 0) : LinIso (matMul r1 r2 r3) := by
  refine ⟨?_, ?_, ?_, ?_⟩
  · intro x y; apply V3.ext' <;> simp [matMul, V3.dot_def] <;> ring
  · intro x y; apply V3.ext' <;> simp [matMul, V3.dot_def] <;> ring
  · intro x k; apply V3.ext' <;> simp [matMul, V3.dot_def] <;> ring
  · intro u v
    simp only [matMul, V3.dot_def]
    linear_combination (u.x * v.x) * hxx + (u.y * v.y) * hyy + (u.z * v.z) * hzz
      + (u.x * v.y + u.y * v.x) * hxy + (u.x * v.z + u.z * v.x) * hxz + (u.y * v.z + u.z * v.y) * hyz

/-- rotation about the z axis by an angle with cosine `c` and sine `s` -/
theorem linIso_rotZ (c s : R) (h : c * c + s * s = 1) :
    LinIso (matMul (⟨c, -s, 0⟩ : V3 R) ⟨s, c, 0⟩ ⟨0, 0, 1⟩) := by
  apply linIso_of_orthonormal <;> simp <;> first | linear_combination h | ring

/-- rotating (or reflecting) point and triangle together changes neither result -/
theorem isometry_invariant (M : V3 R → V3 R) (hM : LinIso M) (p a b c : V3 R) :
    Gen.closestPt (M p) (M a) (M b) (M c) = Gen.closestPt p a b c := by
  unfold Gen.closestPt
  simp only [lit_zero, lit_one, hM.map_sub, hM.map_add, hM.map_smul, hM.dot_map]

/-! ### non-vacuity: the hypotheses are satisfiable and the regions are all inhabited (ℚ) -/
section nonvacuous
def ta : V3 ℚ := ⟨10, 20, 30⟩
def tb : V3 ℚ := ⟨11, 20, 30⟩
def tc : V3 ℚ := ⟨10, 21, 30⟩
example : NonDeg ta tb tc := by norm_num [NonDeg, ta, tb, tc, V3.normSq_def, V3.cross_def]
/-- the triangle of the known finding (first vertex away from the origin), query above the interior -/
example : Gen.closestPt (⟨10 + 1/4, 20 + 1/4, 30 + 1/2⟩ : V3 ℚ) ta tb tc = (1/4, ⟨1/2, 1/4, 1/4⟩) := by
  norm_num [Gen.closestPt, ta, tb, tc, V3.dot_def, V3.normSq_def, lit_eq]
example : (Gen.closestPt (⟨9, 19, 30⟩ : V3 ℚ) ta tb tc).2 = ⟨1, 0, 0⟩ := by
  norm_num [Gen.closestPt, ta, tb, tc, V3.dot_def, V3.normSq_def, lit_eq]
example : (Gen.closestPt (⟨10 + 1/2, 19, 30⟩ : V3 ℚ) ta tb tc) = (1, ⟨1/2, 1/2, 0⟩) := by
  norm_num [Gen.closestPt, ta, tb, tc, V3.dot_def, V3.normSq_def, lit_eq]
example : (Gen.closestPt (⟨11, 21, 31⟩ : V3 ℚ) ta tb tc) = (3/2, ⟨0, 1/2, 1/2⟩) := by
  norm_num [Gen.closestPt, ta, tb, tc, V3.dot_def, V3.normSq_def, lit_eq]
example : LinIso (matMul (⟨3/5, -(4/5), 0⟩ : V3 ℚ) ⟨4/5, 3/5, 0⟩ ⟨0, 0, 1⟩) := linIso_rotZ _ _ (by norm_num)
end nonvacuous

end Simu.C05
