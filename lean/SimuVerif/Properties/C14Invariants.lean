import SimuVerif.Properties.C14Remesh
import SimuVerif.Lemmas.C14_Invariants
/-
  C14 — the run-time hypotheses of the remeshing theorems as INVARIANTS.

  `Properties/C14Remesh.lean` proves that one solver iteration with remeshing (`PipelineR.cellIterationR`) and whole runs
  commute with translations under the decidable domain predicate `stepOkR` / `runOkR`, whose mesh parts (`refineLive`: the
  pass never reads a released node slot; `meshOk`: no released slot referenced, every edge has its two faces, closed surface,
  the cell has a node) were evaluated by the driver on every executed iteration.  Here they are PROVED from the mesh
  invariants `Remesh.CellOk` (consistent free lists, sound and complete edge index, consistent node store, closed
  consistently oriented surface, connected vertex links, every used node on the surface), which every phase of the
  iteration preserves: `cell::rebase` (`rebase_preserves`), `update_face_types`, a whole pass of `refine_mesh`
  (`refineMesh_preserves`, Properties/C01.lean), the force and integration stage.

  What remains a hypothesis along the run is what is NOT a property of the mesh: the cell does not divide, is not removed,
  and the fuel of the model of the `while` loop is not exhausted (`quietRunR`).
-/
namespace Simu.C14
open Simu Simu.PipelineR Simu.Remesh

section
variable {R : Type} [Field R] [LinearOrder R] [IsStrictOrderedRing R]

/-- `cell::rebase` keeps the mesh invariants, and the live triangles are renamed by a map that is injective on the
    nodes of the surface -/
theorem rebase_preserves {c c' : Cell R} (h : rebase c = .ok c') (hc : CellOk c) :
    CellOk c' ∧ ∃ ρ : Nat → Nat, Set.InjOn ρ (Surface.vertsF (Remesh.abs c) : Set Nat) ∧
      Remesh.abs c' = Surface.renameT ρ (Remesh.abs c) :=
  Remesh.rebase_preserves h hc

/-- **no released node slot is read by a pass on a valid cell** (the run-time hypothesis of `refineMesh_translate`) -/
theorem refineLive_of_invariants (fn : Fn R) (k : RefineConsts R) (lminSq lmaxSq : R) (swapOn : Bool) (c : Cell R)
    (maxIter : Nat) (hc : CellOk c) : refineLive fn k lminSq lmaxSq swapOn c maxIter = true :=
  Remesh.refineLive_of_invariants fn k lminSq lmaxSq swapOn c maxIter hc

/-- **`refine_mesh` commutes with translations for every valid cell** — no run-time hypothesis -/
theorem refineMesh_translate_of_invariants (t : V3 R) (fn : Fn R) (lminSq lmaxSq : R) (swapOn : Bool) (c : Cell R)
    (maxIter : Nat) (hc : CellOk c) :
    refineMesh fn (Gen.refineConsts fn) lminSq lmaxSq swapOn (translateCell t c) maxIter
      = trResult t (refineMesh fn (Gen.refineConsts fn) lminSq lmaxSq swapOn c maxIter) :=
  refineMesh_translate t fn lminSq lmaxSq swapOn c maxIter
    (Remesh.refineLive_of_invariants fn _ lminSq lmaxSq swapOn c maxIter hc)

/-- the mesh the force and integration stages work on is consistent -/
theorem meshOk_of_invariants {c : Cell R} (hc : CellOk c) : meshOk c = true := meshOk_of_cellOk hc

/-- the mesh conjuncts of `TissueR.cellMeshOk` (all of it except `attrsOk`, which is about the attribute tables of the
    tissue model, not about the mesh) -/
theorem cellMeshOk_mesh_parts {c : Cell R} (hc : CellOk c) :
    meshOk c = true ∧ TissueR.edgeFacesUsed c = true ∧ TissueR.queueOk c = true ∧ TissueR.usedCovered c = true :=
  ⟨meshOk_of_cellOk hc, edgeFacesUsed_of hc, queueOk_of hc, usedCovered_of hc⟩

/-- `TissueR.replayOk`: the replay of the log of a pass (the attribute tables of the tissue model follow it) takes exactly
    the node slots the pass took -/
theorem replayOk_of_invariants (fn : Fn R) (K : TissueR.ConstsTR R) (c : TissueR.CellTR R) (hc : CellOk c.mesh) :
    TissueR.replayOk fn K c = true := replayOk_of_cellOk fn K c hc

/-- the pass of the next iteration never reads a released slot -/
theorem refineLiveR_of_invariants (fn : Fn R) (K : ConstsR R) {s : StateR R} (hc : CellOk s.cell) :
    refineLiveR fn K s = true := refineLiveR_of_cellOk fn K hc

/-- **one solver iteration keeps the mesh invariants** (rebase, face types, a whole pass of `refine_mesh`, forces and
    integration) -/
theorem cellIterationR_invariants {fn : Fn R} {fx : FX R} {K : ConstsR R} {s s' : StateR R}
    (h : cellIterationR fn fx K s = .ok s') (hc : CellOk s.cell) : CellOk s'.cell :=
  cellIterationR_cellOk h hc

/-- what is left of the domain predicate once the mesh parts are theorems: no division, no removal, fuel not exhausted -/
def quietStepR (fn : Fn R) (fx : FX R) (K : ConstsR R) (s : StateR R) : Bool :=
  !readyR K s &&
  match meshStage fn K s with
  | .error e => e != Err.fuel
  | .ok s1 => !belowMinR fx K s1

def quietRunR (fn : Fn R) (fx : FX R) (K : ConstsR R) : Nat → StateR R → Bool
  | 0, _ => true
  | n + 1, s => quietStepR fn fx K s &&
    match cellIterationR fn fx K s with
    | .error _ => true
    | .ok s' => quietRunR fn fx K n s'

/-- on a valid cell the domain predicate of one iteration is its non-mesh part -/
theorem stepOkR_of_invariants (fn : Fn R) (fx : FX R) (K : ConstsR R) {s : StateR R} (hc : CellOk s.cell) :
    stepOkR fn fx K s = quietStepR fn fx K s := by
  unfold stepOkR stepOkFrom quietStepR
  rw [refineLiveR_of_cellOk fn K hc]
  cases hm : meshStage fn K s with
  | error e => simp
  | ok s1 =>
    simp only [meshOk_of_cellOk (meshStage_cellOk hm hc), Bool.and_true, Bool.true_and]

/-- … and likewise for n iterations -/
theorem runOkR_of_invariants (fn : Fn R) (fx : FX R) (K : ConstsR R) :
    ∀ (n : Nat) {s : StateR R}, CellOk s.cell → runOkR fn fx K n s = quietRunR fn fx K n s
  | 0, _, _ => rfl
  | n + 1, s, hc => by
    unfold runOkR quietRunR
    rw [stepOkR_of_invariants fn fx K hc]
    cases hi : cellIterationR fn fx K s with
    | error e => rfl
    | ok s' => simp only [runOkR_of_invariants fn fx K n (cellIterationR_cellOk hi hc)]

/-- **every iteration of a run from a valid cell works on a valid cell**: the mesh invariants, hence `meshOk` and
    `refineLive` for the next iteration, hold after any number of iterations -/
theorem cellRunR_invariants (fn : Fn R) (fx : FX R) (K : ConstsR R) (n : Nat) {s s' : StateR R}
    (h : runR fn fx K n s = .ok s') (hc : CellOk s.cell) :
    CellOk s'.cell ∧ meshOk s'.cell = true ∧ refineLiveR fn K s' = true := by
  have hc' := runR_cellOk n h hc
  exact ⟨hc', meshOk_of_cellOk hc', refineLiveR_of_cellOk fn K hc'⟩

/-- **n iterations of the translated cell = the translate of n iterations, with mesh hypotheses on the INITIAL state only**:
    the start cell satisfies the invariants, and along the reference run the cell neither divides nor is removed nor
    exhausts the fuel -/
theorem cellRunR_translate_of_invariants (fn : Fn R) (fx : FX R) (K : ConstsR R) (n : Nat) (s : StateR R) (t : V3 R)
    (hc : CellOk s.cell) (hq : quietRunR fn fx K n s = true) :
    runR fn fx K n (translateR t s) = (runR fn fx K n s).map (translateR t) :=
  cellRunR_translate fn fx K n s t (by rw [runOkR_of_invariants fn fx K n hc]; exact hq)

end

end Simu.C14
