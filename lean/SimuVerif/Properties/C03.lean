import SimuVerif.Properties.C03Base
import SimuVerif.Properties.C03Coupling
/-
  C03 — property theorems (namespace `Simu.C03`):
  * `Properties/C03Base.lean`     the position update of all six configurations (law per node, pairs, static cells, time);
  * `Properties/C03Coupling.lean` the tail of the contact phase that establishes the hypothesis `Mutual` of the pair theorems
                                   (symmetrisation + midpoint loops of `resolve_all_contacts`) and the bridge to `pairTopo_of_mutual`.
-/
