import SimuVerif.Lemmas.Population
import SimuVerif.Gen.Population
/-
  C08 — cell identities and cross-references stay valid as the population changes.

  Every theorem is about `Gen.Population.code`, the shape of `solver::run_iteration`,
  `cell_divider::run` and `resolve_contact` extracted from the C++ text on every run
  (tools/gen/c08_population.py): a moved, dropped or re-ordered statement re-opens the proofs.

  Quantification: over EVERY list of iterations (`List IterEv`, any length), each iteration with any
  set of successful divisions at any list positions in any order of their critical sections, any set
  of removed positions, any meshes the mesh operations deliver (subject to `MeshFor`, the contract of
  C01/C09/C11: node ids are positions, used faces point to their cell and to used nodes, face types
  inherited or 0), any list of contacts, any answers of the polarisation tests, any number of cells,
  any number `nTypes ≥ reqTypes kind` of face types per cell.
-/
namespace Simu.C08
open Simu.Pop
open Simu.Gen.Population (code)

/-- `Inv p := (∀ i, p[i].localId = i) ∧ Nodup ids ∧ (∀ id ∈ ids, id < maxId) ∧ RefsValid p` — the
invariant at the iteration boundaries and at every phase boundary inside an iteration except between the
erase and the renumbering loop.  (`RefsValid` = owner pointer and face-type index of every used face,
`InvBase.j.cellsOK`.) -/
abbrev Inv (s : State) : Prop := InvBase s

/-- what the start-up must be given: distinct objects, well-formed cells (the initializer's job) -/
structure InitOK (cells : List Cell) (o : Nat) : Prop where
  objsNodup : (cells.map (·.obj)).Nodup
  objsLt : ∀ c ∈ cells, c.obj < o
  cellsOK : ∀ c ∈ cells, CellOK c

/-- The source has a shape the theorems cover: phase order of `run_iteration` with the renumbering
loop after the erase; `cell_divider::run` with the daughters appended inside the critical section or
collected and appended once after the loop (`DivShape`), fresh ids before that, then sort /
`remove_index` / renumbering under `if(cells_to_delete_lst.size() > 0)`; couplings stored as
`(local id, node id)`. -/
theorem code_as_modelled : AsModelled code :=
  ⟨rfl, by decide, fun _ => rfl, fun _ => rfl⟩

/-- the face-type indices the epithelial class writes are those of the model (`polarise` writes 0 / 1,
`updateFaceTypes` writes 0) and fit in every admissible face-type table of an epithelial cell type -/
theorem epi_types_admissible : ∀ t ∈ Simu.Gen.Population.epiTypesWritten, (t = 0 ∨ t = 1) ∧ t < reqTypes 0 := by decide

/-- the start-up code admits only cell types with as many face types as their cell class writes
(`reqTypes`): the hypothesis `CellOK.admissible` of the initial population is enforced by the code -/
theorem admission_gate : ∀ kind, reqTypes kind ≤
    (if kind = 0 then Simu.Gen.Population.minTypesEpithelial else Simu.Gen.Population.minTypesAll) := by
  intro kind; unfold reqTypes; split <;> decide

/-- start-up (`solver::solver`): ids `0 … n-1`, local id = id = position -/
theorem init_inv {cells : List Cell} {o : Nat} (h : InitOK cells o) : Inv (init cells o) :=
  init_inv' h.objsNodup h.objsLt h.cellsOK

/-- `rebase` / `refine_meshes` (any meshes satisfying the mesh contract) keep the invariant -/
theorem remesh_inv {ms : List (Option Mesh)} {s : State} (h : Inv s) (hok : remeshOKb ms s = true) :
    Inv (remesh ms s) := Simu.Pop.remesh_inv h hok

/-- the division round of `cell_divider::run`: any set of mothers, any order; daughters get the
next two ids each; mothers removed with `remove_index`; everybody renumbered -/
theorem division_inv {ev : DivEv} {s : State} (h : Inv s) (hok : divOKb code ev s = true) :
    Inv (divisionRound code ev s) :=
  divisionRound_inv code_as_modelled.div h hok

theorem faceTypes_inv {s : State} (h : Inv s) : Inv (updateFaceTypes s) := updateFaceTypes_inv h

/-- the contact phase: couplings rewritten from the CURRENT local ids; afterwards every coupling of a
used node designates a used node of another cell of the list -/
theorem contact_inv (cs : List Contact) {s : State} (h : Inv s) : InvUse (contactPhase code cs s) :=
  contactPhase_inv code_as_modelled.cellKey code_as_modelled.nodeKey cs h

theorem polarise_inv (pol : Nat → Nat → Bool) {s : State} (h : InvUse s) : InvUse (polarise pol s) :=
  Simu.Pop.polarise_inv pol h

/-- removal of any set of positions followed by the renumbering loop (the repaired code) -/
theorem removal_inv (rm : List Nat) {s : State} (h : Inv s) : Inv (renumber (eraseSmall rm s)) :=
  renumber_inv (eraseSmall_J rm h.j)

/-- … and `remove_index` / `erase(remove_if)` remove exactly the listed positions, keeping the order -/
theorem removal_exact {α : Type} (l : List α) (rm : List Nat) :
    removeIdx l rm = (l.zipIdx.filter (fun p => !rm.contains p.2)).map (·.1) := by
  have : ∀ (l : List α) (i : Nat), removeIdxAux l i rm = ((l.zipIdx i).filter (fun p => !rm.contains p.2)).map (·.1) := by
    intro l
    induction l with
    | nil => intro i; rfl
    | cons a as ih =>
      intro i
      simp only [removeIdxAux, List.zipIdx_cons, List.filter_cons]
      cases h : rm.contains i <;> simp [ih]
  exact this l 0

/-- without the renumbering loop the erase alone breaks the invariant (the defect of the unrepaired
`solver::run_iteration`): two cells, the first one removed -/
theorem erase_alone_breaks : ∃ (s : State) (rm : List Nat), Inv s ∧ ¬ Inv (eraseSmall rm s) := by
  let c0 : Cell := { obj := 0, cellId := 0, localId := 0, kind := 1, nTypes := 1, isStatic := false, nodes := [], faces := [] }
  let c1 : Cell := { c0 with obj := 1, cellId := 1, localId := 1 }
  refine ⟨{ cells := [c0, c1], maxId := 2, nextObj := 2, iter := 0 }, [0], invBaseB_iff.1 (by decide), ?_⟩
  intro h
  have := h.localIds 0 c1 (by decide)
  exact absurd this (by decide)

/-- one whole iteration of `run_iteration` keeps the invariant -/
theorem iteration_inv {e : IterEv} {s : State} (h : Inv s) (hok : phasesOKb code e code.phases s = true) :
    Inv (iteration code e s) := iteration_inv' code_as_modelled h hok

/-- **every reachable population satisfies the invariant**: any number of iterations, any divisions
and removals in any order at any list positions -/
theorem reach_inv {cells : List Cell} {o : Nat} (h0 : InitOK cells o) (evs : List IterEv)
    (hwf : WF code evs (init cells o)) : Inv (run code evs (init cells o)) :=
  run_inv' code_as_modelled evs (init_inv h0) hwf

theorem WF_append {evs : List IterEv} {e : IterEv} {s : State} (h : WF code (evs ++ [e]) s) :
    WF code evs s ∧ phasesOKb code e code.phases (run code evs s) = true := by
  induction evs generalizing s with
  | nil => exact ⟨trivial, h.1⟩
  | cons a as ih =>
    obtain ⟨h1, h2⟩ := h
    obtain ⟨h3, h4⟩ := ih h2
    exact ⟨⟨h1, h3⟩, h4⟩

/-- **at every point where the references are used** — in iteration `e` after any history `evs`:
before the contact search and after the division round the base invariant holds; from the end of the
contact phase to the end of the time integration also every coupling is valid -/
theorem use_inv {cells : List Cell} {o : Nat} (h0 : InitOK cells o) (evs : List IterEv) (e : IterEv)
    (hwf : WF code (evs ++ [e]) (init cells o)) :
    let s := run code evs (init cells o)
    Inv (afterDivide code e s) ∧ Inv (beforeContact code e s) ∧
    InvUse (afterContact code e s) ∧ InvUse (afterPolarise code e s) ∧ Inv (afterRemoval code e s) := by
  obtain ⟨h1, h2⟩ := WF_append hwf
  have h := reach_inv h0 evs h1
  exact ⟨afterDivide_inv code_as_modelled h h2, beforeContact_inv code_as_modelled h h2,
    afterContact_inv code_as_modelled h h2, afterPolarise_inv code_as_modelled h h2,
    afterRemoval_inv code_as_modelled h h2⟩

/-- **every indexed access of every phase is safe**: it is in range and designates a used node /
the cell itself / an entry of the face-type table of the intended cell -/
theorem deref_safe {e : IterEv} {s : State} (h : Inv s) (hok : phasesOKb code e code.phases s = true) :
    (∀ d ∈ derefsContactSearch e.contacts (beforeContact code e s), Safe (beforeContact code e s) d) ∧
    (∀ d ∈ derefsContactPost (afterContact code e s), Safe (afterContact code e s) d) ∧
    (∀ d ∈ derefsPolarise (afterContact code e s), Safe (afterContact code e s) d) ∧
    (∀ d ∈ derefsForces (afterPolarise code e s), Safe (afterPolarise code e s) d) ∧
    (∀ d ∈ derefsIntegrate (afterPolarise code e s), Safe (afterPolarise code e s) d) :=
  ⟨derefsContactSearch_safe (beforeContact_inv code_as_modelled h hok) _,
   derefsContactPost_safe (afterContact_inv code_as_modelled h hok),
   derefsPolarise_safe (afterContact_inv code_as_modelled h hok),
   derefsForces_safe (afterPolarise_inv code_as_modelled h hok).base,
   derefsIntegrate_safe (afterPolarise_inv code_as_modelled h hok)⟩

/-- … along every history -/
theorem reach_deref_safe {cells : List Cell} {o : Nat} (h0 : InitOK cells o) (evs : List IterEv) (e : IterEv)
    (hwf : WF code (evs ++ [e]) (init cells o)) :
    let s := run code evs (init cells o)
    (∀ d ∈ derefsContactSearch e.contacts (beforeContact code e s), Safe (beforeContact code e s) d) ∧
    (∀ d ∈ derefsContactPost (afterContact code e s), Safe (afterContact code e s) d) ∧
    (∀ d ∈ derefsPolarise (afterContact code e s), Safe (afterContact code e s) d) ∧
    (∀ d ∈ derefsForces (afterPolarise code e s), Safe (afterPolarise code e s) d) ∧
    (∀ d ∈ derefsIntegrate (afterPolarise code e s), Safe (afterPolarise code e s) d) := by
  obtain ⟨h1, h2⟩ := WF_append hwf
  exact deref_safe (reach_inv h0 evs h1) h2

/-- **persistent ids are never reused**: along any history the counter only grows; every cell of a
later population either was already there with the same id (same object, same id) or carries an id issued from
the counter in between; hence an id that has been issued and is absent (removed, or a mother that
divided) never appears again.  No hypothesis on the history is needed. -/
theorem ids_never_reused (evs : List IterEv) (s : State) :
    s.maxId ≤ (run code evs s).maxId ∧
    (∀ c' ∈ (run code evs s).cells, (∃ c ∈ s.cells, c.cellId = c'.cellId ∧ c.obj = c'.obj) ∨
        (s.maxId ≤ c'.cellId ∧ c'.cellId < (run code evs s).maxId)) ∧
    (∀ id, id < s.maxId → id ∉ ids s → id ∉ ids (run code evs s)) := by
  have h := run_fresh code_as_modelled evs s
  have h2 : ∀ c' ∈ (run code evs s).cells, (∃ c ∈ s.cells, c.cellId = c'.cellId ∧ c.obj = c'.obj) ∨
      (s.maxId ≤ c'.cellId ∧ c'.cellId < (run code evs s).maxId) := by
    intro c' hc'
    rcases h.2 (key c') (List.mem_map_of_mem hc') with h' | h'
    · exact Or.inl (mem_keys.1 h')
    · exact Or.inr h'
  refine ⟨h.1, h2, fun id hlt hnot hin => ?_⟩
  obtain ⟨c', hc', rfl⟩ := List.mem_map.1 hin
  rcases h2 c' hc' with ⟨c, hc, h1, _⟩ | ⟨h', _⟩
  · exact hnot (List.mem_map.2 ⟨c, hc, h1⟩)
  · omega

/-- **an id designates one cell for ever**: if a cell of a later population carries the id of a cell of
an earlier one, it is the same object (a daughter never inherits the id of its mother, a fresh cell
never gets the id of a removed one) -/
theorem id_designates_one_cell {s : State} (h : Inv s) (evs : List IterEv) :
    ∀ c ∈ s.cells, ∀ c' ∈ (run code evs s).cells, c'.cellId = c.cellId → c'.obj = c.obj := by
  intro c hc c' hc' hid
  rcases (ids_never_reused evs s).2.1 c' hc' with ⟨c0, hc0, h1, h2⟩ | ⟨h', _⟩
  · obtain ⟨i, hi⟩ := List.mem_iff_getElem?.1 hc
    obtain ⟨j, hj⟩ := List.mem_iff_getElem?.1 hc0
    have hij : i = j := nodup_map_inj h.j.idsNodup hi hj (by rw [h1, hid])
    subst hij
    rw [hi] at hj
    simp only [Option.some.injEq] at hj
    rw [← h2, ← hj]
  · have := h.j.idsLt c hc
    omega

/-- the named points are the states after the corresponding calls of `run_iteration` in source order -/
theorem stateAfter_eq (e : IterEv) (s : State) :
    stateAfter code e .divide s = afterDivide code e s ∧ stateAfter code e .refine s = beforeContact code e s ∧
    stateAfter code e .contact s = afterContact code e s ∧ stateAfter code e .polarise s = afterPolarise code e s ∧
    stateAfter code e .integrate s = afterPolarise code e s ∧ stateAfter code e .renumber s = afterRemoval code e s :=
  ⟨rfl, rfl, rfl, rfl, rfl, rfl⟩

/-- the checkers the driver runs on observed states decide exactly the invariant -/
theorem checker_sound (s : State) :
    (invBaseB s = true ↔ Inv s) ∧ ((invBaseB s && couplingsValidB s) = true ↔ InvUse s) :=
  ⟨invBaseB_iff, invUse_iff⟩

/-! ### non-vacuity: four cells, a division at position 1 and a removal at position 0 in the first
iteration, a removal in the middle in the second -/

def tetNodes : List Node := [⟨0, true, none⟩, ⟨1, true, none⟩, ⟨2, true, none⟩, ⟨3, true, none⟩]
def tetFaces (obj : Nat) : List Face :=
  [⟨true, 0, some obj, 0, 2, 1⟩, ⟨true, 0, some obj, 0, 1, 3⟩, ⟨true, 0, some obj, 1, 2, 3⟩, ⟨true, 0, some obj, 2, 0, 3⟩]
def tet (obj kind nTypes : Nat) : Cell :=
  { obj := obj, cellId := 77, localId := 99, kind := kind, nTypes := nTypes, isStatic := kind != 0,
    nodes := tetNodes, faces := tetFaces obj }
def cells0 : List Cell := [tet 0 0 2, tet 1 0 3, tet 2 1 1, tet 3 0 2]

/-- iteration 0: the cell at position 1 divides (daughters are objects 4 and 5, ids 4 and 5), four
contacts couple nodes of neighbours, the cell at position 0 is removed -/
def ev0 : IterEv :=
  { save := [], failRebase := [some ⟨tetNodes, tetFaces 0⟩],
    div := [(1, { m1 := ⟨tetNodes, tetFaces 4⟩, m2 := ⟨tetNodes, tetFaces 5⟩, junk1 := 12345, junk2 := 0 })],
    refine := [], contacts := [⟨0, 0, 1, 0, 0⟩, ⟨3, 1, 4, 2, 1⟩, ⟨1, 2, 3, 1, 2⟩, ⟨2, 3, 0, 3, 0⟩],
    pol := fun i _ => i % 2 == 0, removed := [0] }
/-- iteration 1: no division round (1 % 5 ≠ 0), the cell in the middle (position 1) is removed -/
def ev1 : IterEv :=
  { save := [], failRebase := [], div := [], refine := [none, some ⟨tetNodes, tetFaces 3⟩],
    contacts := [⟨0, 0, 3, 0, 0⟩, ⟨3, 1, 2, 2, 1⟩], pol := fun _ _ => true, removed := [1] }

theorem cells0_ok : InitOK cells0 4 :=
  ⟨by decide, by decide, by intro c hc; exact cellOKb_iff.1 (by revert c hc; decide)⟩

example : WF code [ev0, ev1] (init cells0 4) := ⟨by decide, by decide, trivial⟩

/-- the ids, local ids and the counter after the two iterations -/
example : ((run code [ev0, ev1] (init cells0 4)).cells.map (fun c => (c.cellId, c.localId)),
           (run code [ev0, ev1] (init cells0 4)).maxId) = ([(2, 0), (4, 1), (5, 2)], 6) := by decide

/-- couplings really exist at the use points of iteration 0 (so `deref_safe` is not about empty lists) -/
example : (derefsIntegrate (afterPolarise code ev0 (init cells0 4))).length = 6 ∧
          (derefsContactPost (afterContact code ev0 (init cells0 4))).length = 8 ∧
          (derefsPolarise (afterContact code ev0 (init cells0 4))).length = 48 := by decide

example : Inv (run code [ev0, ev1] (init cells0 4)) := reach_inv cells0_ok _ ⟨by decide, by decide, trivial⟩

end Simu.C08
