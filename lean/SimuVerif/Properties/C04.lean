import SimuVerif.Model.CellCycle
import SimuVerif.Lemmas.CellCyclePop
import Mathlib.Tactic.NormNum
/-
  C04 — growth, pressure, division trigger and removal follow the cell-cycle law.

  The formulas are `Gen.CellCycle.*`, regenerated from `cell::update_target_volume`,
  `cell::update_pressure`, `cell::initialize_random_properties`, `is_ready_to_divide`,
  `is_below_min_vol`, the removal lambda of `solver::run_iteration` and `solver::solver` on every
  run; the theorems are about what the C++ says now, read in exact arithmetic over an arbitrary
  ordered field `R`, for every parameter set (`+inf` = `none`), every interpretation of `ln`/`exp`
  and every history of volumes, divisions and daughter properties (`Event`s).
-/
set_option linter.unusedSectionVars false
namespace Simu.C04
open Simu Simu.CellCycle
variable {R : Type} [Field R] [LinearOrder R] [IsStrictOrderedRing R]

/-! ### growth of the target volume -/

/-- one `update_target_volume(dt)`: the target volume grows by `growth_rate * dt`, floored at the minimum volume -/
theorem target_step (tv g dt minVol : R) :
    Gen.CellCycle.updateTargetVolume tv g dt minVol = max minVol (tv + g * dt) := by
  have e : tv + dt * g = tv + g * dt := by ring
  unfold Gen.CellCycle.updateTargetVolume
  simp only [e]
  split_ifs with h
  · exact (max_eq_left h.le).symm
  · exact (max_eq_right (not_lt.mp h)).symm

/-- as long as the floor is not hit the increment is exactly `growth_rate * dt` (any sign of the rate) -/
theorem target_increment (tv g dt minVol : R) (h : minVol ≤ tv + g * dt) :
    Gen.CellCycle.updateTargetVolume tv g dt minVol = tv + g * dt := by
  rw [target_step, max_eq_right h]

/-- the target volume never ends below the minimum volume -/
theorem target_ge_min (tv g dt minVol : R) : minVol ≤ Gen.CellCycle.updateTargetVolume tv g dt minVol := by
  rw [target_step]; exact le_max_left _ _

/-- which classes are subject to internal forces: all but `ecm_cell` -/
theorem subject_iff (k : Kind) : Gen.CellCycle.subjectToInternalForces k = true ↔ k ≠ Kind.ecm := by
  cases k <;> simp [Gen.CellCycle.subjectToInternalForces]

/-! ### pressure -/

/-- the pressure is `-K·ln(V/Vt)` capped at the maximum pressure of the type — for every interpretation of `ln`,
    finite or infinite cap -/
theorem pressure_law (fn : Fn R) (ty : CellType R) (V Vt : R) :
    ((pressure fn ty V Vt : R) : WithTop R) = min (ext ty.maxP) ((-(ty.bulk * fn.ln (V / Vt)) : R) : WithTop R) := by
  have e : -ty.bulk * fn.ln (V / Vt) = -(ty.bulk * fn.ln (V / Vt)) := by ring
  unfold pressure
  cases hm : ty.maxP with
  | none =>
    simp only [ext_none, Gen.CellCycle.pressureRaw, e]
    exact (min_eq_right le_top).symm
  | some m =>
    simp only [ext_some, Gen.CellCycle.pressureRaw, Gen.CellCycle.pressureCap, e]
    rw [← WithTop.coe_min]
    congr 1
    split_ifs with h
    · exact (min_eq_left h.le).symm
    · exact (min_eq_right (not_lt.mp h)).symm

/-- the cell-cycle part of one `apply_internal_forces` of a cell that is subject to internal forces:
    `V` is the enclosed volume of the current mesh -/
theorem grow_spec (fn : Fn R) (dt V : R) (c : Cell R) (hs : Gen.CellCycle.subjectToInternalForces c.ty.kind = true) :
    (grow fn dt V c).vol = V ∧
    (grow fn dt V c).tv = max c.ty.minVol (c.tv + c.g * dt) ∧
    (((grow fn dt V c).p : R) : WithTop R) =
      min (ext c.ty.maxP) ((-(c.ty.bulk * fn.ln (V / (grow fn dt V c).tv)) : R) : WithTop R) ∧
    (grow fn dt V c).g = c.g ∧ (grow fn dt V c).vdiv = c.vdiv ∧ (grow fn dt V c).id = c.id ∧ (grow fn dt V c).ty = c.ty := by
  refine ⟨?_, ?_, ?_, grow_g .., grow_vdiv .., grow_id .., grow_ty ..⟩
  · simp [grow, hs]
  · simp [grow, hs, target_step]
  · simp only [grow, hs, if_true]; exact pressure_law fn c.ty V _

/-- a cell that is not subject to internal forces keeps its cell-cycle state -/
theorem grow_frame (fn : Fn R) (dt V : R) (c : Cell R) (hs : Gen.CellCycle.subjectToInternalForces c.ty.kind = false) :
    grow fn dt V c = c := by
  simp [grow, hs]

/-- `solver::solver` gives every cell its initial pressure (capped), whenever `ln` inverts `exp` and
    turns reciprocals into negatives -/
theorem initial_pressure (fn : Fn R) (hle : ∀ x, fn.ln (fn.exp x) = x) (hinv : ∀ y, fn.ln y⁻¹ = -fn.ln y)
    (c : Cell R) (hV : c.vol ≠ 0) (hK : c.ty.bulk ≠ 0) :
    (((solverInit fn c).p : R) : WithTop R) = min (ext c.ty.maxP) ((c.ty.initP : R) : WithTop R) := by
  have h1 : c.vol / (c.vol * fn.exp (c.ty.initP / c.ty.bulk)) = (fn.exp (c.ty.initP / c.ty.bulk))⁻¹ :=
    div_mul_cancel_left₀ hV _
  have h2 : -(c.ty.bulk * fn.ln (c.vol / (c.vol * fn.exp (c.ty.initP / c.ty.bulk)))) = c.ty.initP := by
    rw [h1, hinv, hle]; field_simp
  simp only [solverInit]
  rw [pressure_law]
  simp only [Gen.CellCycle.initialTargetVolume, h2]

/-! ### division trigger -/

/-- a cell is eligible for division exactly when it is epithelial and its volume has reached its division volume -/
theorem ready_iff (c : Cell R) :
    ready c = true ↔ c.ty.kind = Kind.epithelial ∧ ext c.vdiv ≤ ((c.vol : R) : WithTop R) := by
  unfold ready
  cases hk : c.ty.kind <;> cases hv : c.vdiv <;>
    simp [Gen.CellCycle.readyOverriders, Gen.CellCycle.readyDefault, Gen.CellCycle.readyEpithelial]

/-! ### the 3-sigma clamp of the random draws -/

/-- whatever the normal distribution returns, the growth rate ends within mean ± 3 sigma -/
theorem clamp3_range (μ σ x : R) (hσ : 0 ≤ σ) :
    μ - 3 * σ ≤ Gen.CellCycle.clampGrowthRate μ σ x ∧ Gen.CellCycle.clampGrowthRate μ σ x ≤ μ + 3 * σ := by
  unfold Gen.CellCycle.clampGrowthRate
  simp only [lit_zero, lit_three]
  by_cases hs : σ = 0
  · subst hs; simp
  · simp only [ne_eq, hs, not_false_eq_true, if_true]
    split_ifs <;> constructor <;> linarith

/-- a draw inside the range is kept -/
theorem clamp3_keeps (μ σ x : R) (hs : σ ≠ 0) (h1 : μ - 3 * σ ≤ x) (h2 : x ≤ μ + 3 * σ) :
    Gen.CellCycle.clampGrowthRate μ σ x = x := by
  unfold Gen.CellCycle.clampGrowthRate
  simp only [lit_zero, lit_three, ne_eq, hs, not_false_eq_true, if_true]
  rw [if_neg (not_lt.mpr h2), if_neg (not_lt.mpr h1)]

/-- the same for the division volume (finite mean) -/
theorem clamp3_range_division (μ σ x : R) (hσ : 0 ≤ σ) :
    μ - 3 * σ ≤ Gen.CellCycle.clampDivisionVolume μ σ false x ∧ Gen.CellCycle.clampDivisionVolume μ σ false x ≤ μ + 3 * σ := by
  unfold Gen.CellCycle.clampDivisionVolume
  simp only [lit_zero, lit_three]
  by_cases hs : σ = 0
  · subst hs; simp
  · simp only [ne_eq, hs, not_false_eq_true, Bool.false_eq_true, and_self, if_true]
    split_ifs <;> constructor <;> linarith

/-- with an infinite mean the generated code copies the mean (this is the `none` branch of `drawDivisionVolume`) -/
theorem clamp_division_inf (μ σ x : R) : Gen.CellCycle.clampDivisionVolume μ σ true x = μ := by
  simp [Gen.CellCycle.clampDivisionVolume]

/-- every cell `initialize_cell_properties` produces has growth rate and division volume within mean ± 3 sigma
    (an infinite mean division volume stays infinite) -/
theorem newborn_in_range (id : Nat) (ty : CellType R) (V xg xd : R) (hg : 0 ≤ ty.gStd) (hd : 0 ≤ ty.dvStd) :
    (ty.gAvg - 3 * ty.gStd ≤ (newborn id ty V xg xd).g ∧ (newborn id ty V xg xd).g ≤ ty.gAvg + 3 * ty.gStd) ∧
    (∀ a, ty.dvAvg = some a → ∃ d, (newborn id ty V xg xd).vdiv = some d ∧ a - 3 * ty.dvStd ≤ d ∧ d ≤ a + 3 * ty.dvStd) ∧
    (ty.dvAvg = none → (newborn id ty V xg xd).vdiv = none) := by
  refine ⟨clamp3_range _ _ _ hg, ?_, ?_⟩
  · intro a ha
    exact ⟨Gen.CellCycle.clampDivisionVolume a ty.dvStd false xd, by simp [newborn, drawDivisionVolume, ha],
      clamp3_range_division a ty.dvStd xd hd⟩
  · intro ha; simp [newborn, drawDivisionVolume, ha]

/-- the daughters `cell_divider::divide_cell` returns: half the mother's target volume each, the mother's type, growth rate
    and division volume drawn like those of any new cell (so `newborn_in_range` applies to them) -/
theorem daughter_spec (id : Nat) (m : Cell R) (V xg xd : R) :
    (daughterOf id m V xg xd).tv = m.tv / 2 ∧ (daughterOf id m V xg xd).ty = m.ty ∧ (daughterOf id m V xg xd).id = id ∧
    (daughterOf id m V xg xd).g = (newborn id m.ty V xg xd).g ∧ (daughterOf id m V xg xd).vdiv = (newborn id m.ty V xg xd).vdiv := by
  refine ⟨?_, rfl, rfl, rfl, rfl⟩
  simp [daughterOf, Gen.CellCycle.daughterTargetVolume]

/-! ### removal -/

/-- the predicate of the removal phase is `V < min_vol` (volumes are absolute values: `compute_volume` returns `|vol|`) -/
theorem removed_exactly (c : Cell R) (hV : 0 ≤ c.vol) : removed c = true ↔ c.vol < c.ty.minVol := by
  unfold removed Gen.CellCycle.removalLambda
  simp only [lit_zero]
  by_cases h : c.vol < c.ty.minVol
  · have : (0 : R) < c.ty.minVol := lt_of_le_of_lt hV h
    simp [h, this]
  · simp [h]

/-- the survivors of the removal phase are exactly the cells that are not below their minimum volume -/
theorem mem_removeSmall (l : List (Cell R)) (c : Cell R) (hV : 0 ≤ c.vol) :
    c ∈ removeSmall l ↔ c ∈ l ∧ ¬ c.vol < c.ty.minVol := by
  unfold removeSmall
  rw [List.mem_filter, ← removed_exactly c hV]
  simp

/-- the survivors keep their relative order (cells and ids) -/
theorem removed_order (l : List (Cell R)) :
    (removeSmall l).Sublist l ∧ ((removeSmall l).map (·.id)).Sublist (l.map (·.id)) :=
  ⟨List.filter_sublist, List.filter_sublist.map _⟩

/-- at the end of an iteration no cell of the population is below its minimum volume, and every cell that was
    below it after the internal-force phase is gone -/
theorem iterate_removes (fn : Fn R) (dt : R) (it : Nat) (p : Pop R) (e : Event R) :
    (∀ c ∈ (iterate fn dt it p e).cells, 0 ≤ c.vol → ¬ c.vol < c.ty.minVol) ∧
    (∀ c ∈ (midPop fn dt it p e).cells, 0 ≤ c.vol → c.vol < c.ty.minVol → c ∉ (iterate fn dt it p e).cells) ∧
    (∀ c ∈ (midPop fn dt it p e).cells, 0 ≤ c.vol → ¬ c.vol < c.ty.minVol → c ∈ (iterate fn dt it p e).cells) ∧
    (iterate fn dt it p e).ids.Sublist (midPop fn dt it p e).ids := by
  refine ⟨?_, ?_, ?_, ?_⟩
  · intro c hc hV; exact ((mem_removeSmall _ c hV).mp hc).2
  · intro c _ hV hlt hmem; exact ((mem_removeSmall _ c hV).mp hmem).2 hlt
  · intro c hc hV hlt; exact (mem_removeSmall _ c hV).mpr ⟨hc, hlt⟩
  · exact (removed_order _).2

/-- over every history: after at least one iteration, every cell subject to internal forces has a target volume
    that is not below the minimum volume of its type -/
theorem target_ge_min_history (fn : Fn R) (dt : R) (es : List (Event R)) (hne : es ≠ []) :
    ∀ (it : Nat) (p : Pop R), ∀ c ∈ (runFrom fn dt it p es).cells,
      Gen.CellCycle.subjectToInternalForces c.ty.kind = true → c.ty.minVol ≤ c.tv := by
  induction es with
  | nil => exact absurd rfl hne
  | cons e es ih =>
    intro it p c hc hs
    by_cases hes : es = []
    · subst hes
      simp only [runFrom, iterate, midPop, removeSmall] at hc
      obtain ⟨c', _, rfl⟩ := List.mem_map.mp (List.mem_filter.mp hc).1
      rw [grow_ty] at hs ⊢
      rw [(grow_spec fn dt _ c' hs).2.1]
      exact le_max_left _ _
    · exact ih hes _ _ c hc hs

/-! ### ids over histories -/

/-- the population `solver::solver` starts from: ids `0 … n-1` in list order, pairwise distinct, all below the counter -/
theorem init_ids (fn : Fn R) (cs : List (Cell R)) :
    (initPop fn cs).ids = List.range cs.length ∧ IdsBelow (initPop fn cs) ∧ (initPop fn cs).ids.Nodup := by
  have h : (initPop fn cs).ids = List.range cs.length := by
    simp only [initPop, Pop.ids, renumber_ids, List.range_eq_range']
  refine ⟨h, ?_, ?_⟩
  · intro i hi; rw [h, List.mem_range] at hi; exact hi
  · rw [h]; exact List.nodup_range

/-- the ids of a later population are ids of the earlier one or fresh ids issued from the counter on -/
theorem ids_later (fn : Fn R) (dt : R) (es : List (Event R)) :
    ∀ (it : Nat) (p : Pop R), p.nextId ≤ (runFrom fn dt it p es).nextId ∧
      ∀ i ∈ (runFrom fn dt it p es).ids, i ∈ p.ids ∨ p.nextId ≤ i := by
  induction es with
  | nil => intro it p; exact ⟨le_rfl, fun i hi => Or.inl hi⟩
  | cons e es ih =>
    intro it p
    obtain ⟨k, hk, hstep⟩ := iterate_ids fn dt it p e
    obtain ⟨hmono, hids⟩ := ih (it + 1) (iterate fn dt it p e)
    refine ⟨by simp only [runFrom]; omega, ?_⟩
    intro i hi
    rcases hids i hi with h | h
    · rcases hstep i h with h' | h'
      · exact Or.inl h'
      · exact Or.inr h'.1
    · exact Or.inr (by omega)

/-- a cell that leaves the population (removed below the minimum volume, or replaced by its daughters) never
    reappears: its id belongs to no later population, whatever happens afterwards -/
theorem never_reappears (fn : Fn R) (dt : R) (p₀ : Pop R) (h₀ : IdsBelow p₀) (es₁ : List (Event R)) (e : Event R)
    (es₂ : List (Event R)) (i : Nat)
    (hin : i ∈ (runFrom fn dt 0 p₀ es₁).ids)
    (hout : i ∉ (runFrom fn dt 0 p₀ (es₁ ++ [e])).ids) :
    i ∉ (runFrom fn dt 0 p₀ (es₁ ++ [e] ++ es₂)).ids := by
  rw [runFrom_append]
  intro hmem
  have hb : IdsBelow (runFrom fn dt 0 p₀ es₁) := runFrom_idsBelow fn dt es₁ 0 p₀ h₀
  have hlt : i < (runFrom fn dt 0 p₀ es₁).nextId := hb i hin
  have hmono : (runFrom fn dt 0 p₀ es₁).nextId ≤ (runFrom fn dt 0 p₀ (es₁ ++ [e])).nextId := by
    rw [runFrom_append]; exact (ids_later fn dt [e] _ _).1
  rcases (ids_later fn dt es₂ _ (runFrom fn dt 0 p₀ (es₁ ++ [e]))).2 i hmem with h | h
  · exact hout h
  · omega

/-- ids are only ever issued upwards: every id of a later population that is not an id of the current one is at
    least the current counter, and all ids stay below the counter -/
theorem fresh_ids (fn : Fn R) (dt : R) (p : Pop R) (h : IdsBelow p) (es : List (Event R)) (it : Nat) :
    IdsBelow (runFrom fn dt it p es) ∧
    ∀ i ∈ (runFrom fn dt it p es).ids, i ∉ p.ids → p.nextId ≤ i := by
  refine ⟨runFrom_idsBelow fn dt es it p h, ?_⟩
  intro i hi hn
  rcases (ids_later fn dt es it p).2 i hi with h' | h'
  · exact absurd h' hn
  · exact h'

/-- ids stay pairwise distinct over every history (so "the cell with id i" is well defined), and the id of a cell
    that is below its minimum volume after the internal-force phase is not an id of the population the iteration
    leaves behind -/
theorem removed_id_gone (fn : Fn R) (dt : R) (p₀ : Pop R) (h₀ : IdsBelow p₀) (hn : p₀.ids.Nodup)
    (es : List (Event R)) (e : Event R) :
    (runFrom fn dt 0 p₀ es).ids.Nodup ∧
    ∀ c ∈ (midPop fn dt es.length (runFrom fn dt 0 p₀ es) e).cells, 0 ≤ c.vol → c.vol < c.ty.minVol →
      c.id ∉ (iterate fn dt es.length (runFrom fn dt 0 p₀ es) e).ids := by
  have hb := runFrom_idsBelow fn dt es 0 p₀ h₀
  have hnd := runFrom_nodup fn dt es 0 p₀ h₀ hn
  refine ⟨hnd, ?_⟩
  intro c hc hV hlt hmem
  have hmid := midPop_nodup fn dt es.length _ e hb hnd
  obtain ⟨c', hc', hid⟩ := List.mem_map.mp hmem
  have hc'mid : c' ∈ (midPop fn dt es.length (runFrom fn dt 0 p₀ es) e).cells := (List.mem_filter.mp hc').1
  have : c' = c := List.inj_on_of_nodup_map hmid hc'mid hc hid
  subst this
  exact ((mem_removeSmall _ c' hV).mp hc').2 hlt

/-! ### non-vacuity: concrete parameter sets over ℚ -/
section examples
def fnQ : Fn ℚ := { sqrt := id, ln := fun x => x - 1, exp := fun x => x + 1, acos := id, floor := fun _ => 0 }
def epi : CellType ℚ := { kind := .epithelial, bulk := 10, maxP := some 2, initP := 0, gAvg := -1, gStd := 1/2,
                          dvAvg := some 8, dvStd := 1, minVol := 3 }
def ecmT : CellType ℚ := { epi with kind := .ecm, maxP := none, dvAvg := none }
def c1 : Cell ℚ := newborn 0 epi 4 (-7) 20        -- draws far outside the range
def c2 : Cell ℚ := newborn 1 epi 11 0 8
def c3 : Cell ℚ := newborn 2 ecmT 1 0 0
example : c1.g = -5/2 ∧ c1.vdiv = some 11 := by
  norm_num [c1, newborn, drawGrowthRate, drawDivisionVolume, epi, Gen.CellCycle.clampGrowthRate,
    Gen.CellCycle.clampDivisionVolume, lit_eq]
/-- negative growth: the target volume 4 shrinks by 5/2·(2/5) = 1 and hits the floor 3; the pressure -10·(V/Vt - 1) is capped at 2 -/
example : (grow fnQ (2/5) 2 c1).tv = 3 ∧ (grow fnQ (2/5) 2 c1).p = 2 ∧ (grow fnQ (2/5) 6 c1).p = -10 := by
  norm_num [grow, c1, newborn, drawGrowthRate, epi, Gen.CellCycle.clampGrowthRate, Gen.CellCycle.subjectToInternalForces,
    Gen.CellCycle.updateTargetVolume, pressure, Gen.CellCycle.pressureRaw, Gen.CellCycle.pressureCap, fnQ, lit_eq]
example : ready c2 = true ∧ ready c1 = false ∧ ready c3 = false := by
  norm_num [ready, c1, c2, c3, newborn, drawDivisionVolume, epi, ecmT, Gen.CellCycle.readyOverriders,
    Gen.CellCycle.readyEpithelial, Gen.CellCycle.readyDefault, Gen.CellCycle.clampDivisionVolume, lit_eq]
/-- removal keeps the order: of the cells with volumes 2, 11, 1 and minimum volume 3 only the middle one survives -/
example : (removeSmall [{ c1 with vol := 2 }, c2, c3]).map (·.id) = [1] := by
  norm_num [removeSmall, removed, Gen.CellCycle.removalLambda, c1, c2, c3, newborn, epi, ecmT, lit_eq]
example : IdsBelow ({ cells := [c1, c2, c3], nextId := 3 } : Pop ℚ) := by
  intro i hi; simp [Pop.ids, c1, c2, c3, newborn] at hi; show i < 3; omega
end examples

end Simu.C04
