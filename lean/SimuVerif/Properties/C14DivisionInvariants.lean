import SimuVerif.Properties.C14DivideCell
import SimuVerif.Properties.C14Population
import SimuVerif.Lemmas.C14_DivisionInvariants
/-
  C14 — the mesh invariants `Remesh.CellOk` along runs WITH DIVISIONS and removals (`Model/TissueD2.lean`).

  **What `divide_cell` needs.**  After `create_daughter_cells` everything is covered by theorems: `refine_mesh` of a daughter
  (`refineMesh_preserves`), the halved target volume (not the mesh), `rebase` (`rebase_preserves`).  What is needed is `CellOk` of
  the two meshes `initDaughterCell` builds (the mother's `CellOk` is not even used).  `divideCellM_cellOk` takes it as the
  per-division condition `daughtersOkB` = `Remesh.cellOkB` of both fresh daughters (a Boolean, sound by `cell_ok_check_sound`),
  to be evaluated by the driver on every executed division, like `divOkM`.

  **What the gate of `initialize_cell_properties` establishes** (`initDaughterCell`: no face uses a node twice; `generate_edge_set`
  succeeds; every edge has two faces; V − E + F = 2 with V = the used nodes; the flood fill over shared EDGES reaches every
  face; faces rewound along the flood fill; global flip by the sign of the volume):
    * mathematically it implies ALL of `CellOk`, vertex-manifoldness included: the flood fill tests connectedness of the DUAL
      graph (faces adjacent through edges), so two spheres touching in vertices only are refused (C13 `gate_rejects_…`), and for
      a strongly connected closed pseudo-manifold un-pinching a vertex whose link has k cycles adds k − 1 vertices and keeps E, F
      and strong connectedness: χ(resolved) = 2 + Σ(k_v − 1) ≤ 2 (connected closed surface) forces every k_v = 1.  A sphere with
      two vertices identified has χ = 1, a torus with a pinch has χ ≤ −1, two spheres sharing a vertex have χ = 3 and are not
      strongly connected: no accepted counter-example exists;
    * FORMALLY proved so far, and for the abstract gate model of C13 (`C13.accept`, not `TissueD2.initDaughterCell`): `C13.gate_sound`
      = `NonDeg`, every edge in exactly two triangles, χ = 2, `Closed`, consistently oriented (`Simple`), outward.  Not proved: the
      bound χ ≤ 2 for connected closed surfaces that the vertex-manifoldness argument needs (the complement of a spanning tree
      of the dual graph is connected), the refinement `initDaughterCell` ⊑ `C13.accept`, and the bookkeeping conjuncts of `CellOk`
      for the fresh cell (index complete for the REWOUND faces, node store).  Hence the run-time condition.
  The weakest sufficient condition is `CellOk` of the two fresh meshes; `daughtersOkB` decides it.
-/
namespace Simu.C14
open Simu Simu.Forces Simu.Gen Simu.Remesh Simu.TissueR Simu.TissueP Simu.TissueD Simu.TissueD2

section
variable {R : Type} [Field R] [LinearOrder R] [IsStrictOrderedRing R]

/-- **the whole `divide_cell` returns two cells whose meshes satisfy the invariants**, given the per-division condition on the
    meshes built by `create_daughter_cells` -/
theorem divideCellM_cellOk {fn : Fn R} {K : ConstsTR R} {c d1 d2 : CellTR R} {inp : DivIn R}
    (h : divideCellM fn K c inp = some (d1, d2)) (hd : daughtersOkB fn c inp = true) :
    CellOk d1.mesh ∧ CellOk d2.mesh := divideCellM_cellOk' h hd

/-- `lmr.refine_mesh(daughter)` keeps the invariants -/
theorem refineDaughter_invariants {fn : Fn R} {K : ConstsTR R} {d r : CellTR R} (h : refineDaughter fn K d = .ok r)
    (hc : CellOk d.mesh) : CellOk r.mesh := refineDaughter_ok h hc

/-- the conjunct `daughterLive` of `divOkM` (the refinement of a fresh daughter never reads a released slot) follows from
    the invariants of the fresh daughter -/
theorem daughterLive_of_invariants (fn : Fn R) (K : ConstsTR R) {d : CellTR R} (hc : CellOk d.mesh) :
    daughterLive fn K d = true := daughterLive_of_cellOk fn K hc

/-- the division round: mothers rebased, the dividing ones replaced by their daughters -/
theorem divisionRoundD_invariants (s : StateTP R) (ev : List (DivEv R)) (hc : AllOk s.base.cells)
    (he : ∀ e ∈ ev, CellOk e.d1.mesh ∧ CellOk e.d2.mesh) : AllOk (divisionRoundD s ev).base.cells :=
  divisionRoundD_allOk s ev hc he

/-- **one iteration with division round and removal keeps the mesh invariants of every cell of the list** (`divCondD2`: the
    per-division condition for the divisions of this iteration) -/
theorem tissueIterationD2_invariants {fn : Fn R} {fx : FX R} {K : ConstsTR R} {s s' : StateTP R} {ins : List (DivIn R)}
    (h : tissueIterationD2 fn fx K s ins = .ok s') (hc : AllOk s.base.cells) (hd : divCondD2 fn K s ins = true) :
    AllOk s'.base.cells := tissueIterationD2_allOk h hc hd

/-- **… and so does every run, over any number of generations**; hence `meshOk`, `edgeFacesUsed`, `queueOk`, `usedCovered` of
    every cell, and `refineLive` / `replayOk` for the next iteration -/
theorem tissueRunD2_invariants (fn : Fn R) (fx : FX R) (K : ConstsTR R) (inss : List (List (DivIn R))) {s s' : StateTP R}
    (h : tissueRunD2 fn fx K inss s = .ok s') (hc : AllOk s.base.cells) (hd : divCondRunD2 fn fx K inss s = true) :
    AllOk s'.base.cells ∧ refineLiveT fn K s'.base = true ∧
      ∀ c ∈ s'.base.cells, PipelineR.meshOk c.mesh = true ∧ edgeFacesUsed c.mesh = true ∧ queueOk c.mesh = true ∧
        usedCovered c.mesh = true := by
  have hc' := tissueRunD2_allOk inss h hc hd
  exact ⟨hc', refineLiveT_of_allOk fn K hc', fun c hm => cellMeshOk_mesh_parts (hc' c hm)⟩

/-! ### the domain predicate -/

/-- what is left of `stepOkTD` once the mesh conjuncts (`refineLiveCell`, `replayOk`, the mesh part of `cellMeshOk`) and the
    coupling conjuncts (Properties/C03Search.lean) are theorems: `defined`, all cells epithelial, attribute tables, local ids =
    positions, a non-empty list, no fuel exhaustion, the recorded divisions fit the list (`evOkD`) -/
def quietStepTD (fn : Fn R) (K : ConstsTR R) (s : StateTP R) (ev : List (DivEv R)) : Bool :=
  s.base.defined && s.base.cells.all (fun c => c.k.kind == 0) && s.base.cells.all attrsOk && identsOk s && !s.base.cells.isEmpty &&
  match saveMeshT fn K s.base with
  | .error e => e != Remesh.Err.fuel
  | .ok b1 =>
    evOkD b1.cells b1.iter ev &&
    match refineStageT fn K (divisionRoundD { s with base := b1 } ev).base with
    | .error e => e != Remesh.Err.fuel
    | .ok b3 => b3.cells.all attrsOk

/-- **on a tissue of valid cells, with valid daughters, `stepOkTD` is its non-mesh, non-coupling part** -/
theorem stepOkTD_of_invariants (fn : Fn R) (fx : FX R) (K : ConstsTR R) {s : StateTP R} {ev : List (DivEv R)}
    (hc : AllOk s.base.cells) (he : ∀ e ∈ ev, CellOk e.d1.mesh ∧ CellOk e.d2.mesh) :
    stepOkTD fn fx K s ev = quietStepTD fn K s ev := by
  unfold stepOkTD stepOkFromD quietStepTD
  cases hs : saveMeshT fn K s.base with
  | error e => rfl
  | ok b1 =>
    have h1 := saveMeshT_allOk hs hc
    have h2 : AllOk (divisionRoundD ({ s with base := b1 } : StateTP R) ev).base.cells :=
      divisionRoundD_allOk _ ev h1 he
    have hlive : ((divisionRoundD ({ s with base := b1 } : StateTP R) ev).base.cells.all
        fun c => refineLiveCell fn K c && replayOk fn K c) = true := by
      rw [List.all_eq_true]
      intro c hm
      rw [Bool.and_eq_true]
      exact ⟨Remesh.refineLive_of_invariants _ _ _ _ _ _ _ (PipelineR.faceTypes_cellOk _ (h2 c hm)),
        PipelineR.replayOk_of_cellOk fn K c (h2 c hm)⟩
    simp only [hlive, Bool.and_true]
    cases hr : refineStageT fn K (divisionRoundD ({ s with base := b1 } : StateTP R) ev).base with
    | error e => rfl
    | ok b3 =>
      have h3 := refineStageT_allOk hr h2
      have : b3.cells.all cellMeshOk = b3.cells.all attrsOk := by
        rw [Bool.eq_iff_iff, List.all_eq_true, List.all_eq_true]
        constructor
        · intro hh c hm'; rw [← cellMeshOk_of_cellOk (h3 c hm')]; exact hh c hm'
        · intro hh c hm'; rw [cellMeshOk_of_cellOk (h3 c hm')]; exact hh c hm'
      have hF : C03S.FacesLive b3.cells := C03S.facesLive_of_liveCell b3.cells (fun c hm' => by
        have := meshOk_of_invariants (h3 c hm')
        unfold PipelineR.meshOk at this
        simp only [Bool.and_eq_true] at this
        exact this.1.1.1)
      obtain ⟨hd, hco⟩ := C03.beforeIntegrationR_defined_coupOk fn fx K.base b3.cells hF
      simp only [this, hd, hco, Bool.and_true]

/-- what is left of `stepOkTD2`: `insOkD2` (every ready cell has its recorded input and its `divide_cell` is in the domain
    `divOkM` — whose conjunct `daughterLive` follows from `daughtersOkB`, see `daughterLive_of_invariants`) and `quietStepTD` -/
def quietStepTD2 (fn : Fn R) (K : ConstsTR R) (s : StateTP R) (ins : List (DivIn R)) : Bool :=
  match saveMeshT fn K s.base with
  | .error _ => quietStepTD fn K s []
  | .ok b1 => insOkD2 fn K b1 ins && quietStepTD fn K s (eventsD2 fn K b1 ins)

/-- **`stepOkTD2` on a tissue of valid cells whose divisions satisfy the per-division condition** -/
theorem stepOkTD2_of_invariants (fn : Fn R) (fx : FX R) (K : ConstsTR R) {s : StateTP R} {ins : List (DivIn R)}
    (hc : AllOk s.base.cells) (hd : divCondD2 fn K s ins = true) :
    stepOkTD2 fn fx K s ins = quietStepTD2 fn K s ins := by
  unfold stepOkTD2 quietStepTD2
  unfold divCondD2 at hd
  cases hs : saveMeshT fn K s.base with
  | error e =>
    simp only
    exact stepOkTD_of_invariants fn fx K hc (fun e he => by cases he)
  | ok b1 =>
    rw [hs] at hd
    simp only at hd ⊢
    rw [stepOkTD_of_invariants fn fx K hc (eventsD2_cellOk fn K b1 ins hd)]

def quietRunTD2 (fn : Fn R) (fx : FX R) (K : ConstsTR R) : List (List (DivIn R)) → StateTP R → Bool
  | [], _ => true
  | ins :: rest, s => quietStepTD2 fn K s ins &&
    match tissueIterationD2 fn fx K s ins with
    | .error _ => true
    | .ok s' => quietRunTD2 fn fx K rest s'

theorem runOkTD2_of_invariants (fn : Fn R) (fx : FX R) (K : ConstsTR R) :
    ∀ (inss : List (List (DivIn R))) {s : StateTP R}, AllOk s.base.cells → divCondRunD2 fn fx K inss s = true →
      runOkTD2 fn fx K inss s = quietRunTD2 fn fx K inss s
  | [], _, _, _ => rfl
  | ins :: rest, s, hc, hd => by
    unfold divCondRunD2 at hd
    rw [Bool.and_eq_true] at hd
    unfold runOkTD2 quietRunTD2
    rw [stepOkTD2_of_invariants fn fx K hc hd.1]
    cases hi : tissueIterationD2 fn fx K s ins with
    | error e => rfl
    | ok s' =>
      have hd2 := hd.2
      rw [hi] at hd2
      simp only [runOkTD2_of_invariants fn fx K rest (tissueIterationD2_allOk hi hc hd.1) hd2]

variable [FloorRing R]

/-- **runs with divisions and removals commute with translations, with mesh hypotheses on the INITIAL tissue only** + the
    per-division condition on the fresh daughters + the non-mesh conditions `quietRunTD2` along the reference run -/
theorem tissueRunD2_translate_of_invariants (fn : Fn R) (fx : FX R) (K : ConstsTR R) (S : TissueSetup fn K.base)
    (inss : List (List (DivIn R))) (s : StateTP R) (t : V3 R) (hc : AllOk s.base.cells)
    (hd : divCondRunD2 fn fx K inss s = true) (hq : quietRunTD2 fn fx K inss s = true) :
    tissueRunD2 fn fx K inss (translateTP t s) = (tissueRunD2 fn fx K inss s).map (translateTP t) :=
  tissueRunD2_translate fn fx K S inss s t (by rw [runOkTD2_of_invariants fn fx K inss hc hd]; exact hq)

end

/-- non-vacuity of the per-division condition: both meshes `create_daughter_cells` builds for the unit tetrahedron of
    Properties/C14DivideCell.lean (cut along z through its centroid, one-triangle interface; over ℚ) pass `cellOkB` — kernel
    evaluation; so `CellOk` holds for them, all of it, vertex-manifoldness included -/
theorem tetQ_daughtersOk : daughtersOkRebased fnQ2 motherQ inQ = true := by decide +kernel

end Simu.C14
