import SimuVerif.Properties.C14
import SimuVerif.Model.Pipeline
/-
  C14 — the ASSEMBLED iteration of a single free cell commutes with translations.

  `Pipeline.cellIteration` (lean/SimuVerif/Model/Pipeline.lean) is one executable model of a whole
  `solver::run_iteration` for a tissue made of one free cell whose mesh is inside the refinement band; it is tied
  bit-for-bit to the real solver on every run (tools/props/c14_pipeline.py: every double of every iteration).
  Here, in exact arithmetic over any ordered field and for any pack of non-field functions `fx`:

    * `cellIteration_translate`  one iteration of the translated state = the translate of one iteration
                                 (positions shifted by `t`; momenta, area, volume, target volume, pressure, face list, time,
                                 iteration counter identical), for every state whose triangle list is `Closed`;
    * `cellRun_translate`        the same after any number of iterations (instance of the generic `iterate_equivariant`
                                 on the states with a closed triangle list, which the iteration preserves);
    * `cellRun_observables`      volume, pressure, target volume, area, triangle list, momenta, time are the same in both runs;
    * `stepOk_translate`, `runOk_translate`  the translated run is inside the modelled domain (no division, no removal, every
                                 edge inside the band [l_min, 3 l_min]) exactly when the reference run is.

  The stage facts used are the existing ones: `C02.forces_translation_equivariant` / `Forces.prelude_tr` (internal forces,
  area, volume, target volume, pressure of a closed cell), `single10_translate` (node block of the default build),
  `edge_length_translate` (refinement tests).
-/
namespace Simu.C14
open Simu Simu.Forces Simu.Pipeline

set_option linter.unusedSectionVars false
variable {R : Type} [Field R] [LinearOrder R] [IsStrictOrderedRing R]

/-- the state of the same cell placed `t` further: every position is shifted, nothing else changes -/
def translate (t : V3 R) (s : State R) : State R := { s with pos := s.pos.map (fun p => p + t) }

/-! ### bookkeeping -/

theorem Slots.get_map {α β : Type} (f : α → β) (T : Slots α) (i : Nat) : (T.map f).get i = f (T.get i) := by
  simp only [Slots.get, Slots.map, Array.getElem?_map]
  cases T.arr[i]? <;> rfl

theorem translate_get (t : V3 R) (s : State R) : (translate t s).pos.get = fun i => s.pos.get i + t := by
  funext i; exact Slots.get_map _ _ _

theorem translate_nn (t : V3 R) (s : State R) : (translate t s).nn = s.nn := by
  simp only [State.nn, translate, Slots.map, Array.size_map]

/-- `update_face_types` does not touch the node ids: the half-edges are the same -/
theorem he_updateFaceTypes (c : Consts R) (F : List Face) : he (updateFaceTypes c F) = he F := by
  unfold updateFaceTypes
  split_ifs
  · induction F with
    | nil => rfl
    | cons f rest ih => simp only [List.map_cons, he_cons, ih]; rfl
  · rfl

theorem closed_updateFaceTypes (c : Consts R) (F : List Face) (h : Closed F) : Closed (updateFaceTypes c F) := by
  unfold Closed at *; rw [he_updateFaceTypes]; exact h

/-- the iteration keeps the triangle list closed (it keeps the triangles) -/
theorem cellIteration_closed (fx : FX R) (c : Consts R) (s : State R) (h : Closed s.faces) :
    Closed (cellIteration fx c s).faces := closed_updateFaceTypes c _ h

theorem translate_closed (t : V3 R) (s : State R) (h : Closed s.faces) : Closed (translate t s).faces := h

/-! ### one iteration -/

/-- what the assembled iteration does to node `i`: the generated node block `Gen.single10`, fed with the sum of the
    `add_force` calls of `apply_internal_forces` on that node and with the node mass density · volume / number of nodes -/
theorem cellIteration_node (fx : FX R) (c : Consts R) (s : State R) (i : Nat) (hi : i < s.nn) :
    (cellIteration fx c s).pos.get i
        = (Gen.single10 c.dt c.damping
            (Gen.nodeMass c.density (prelude fx s.pos.get (updateFaceTypes c s.faces) (forceParams c s.tvol)).volume (Gen.nbNodes s.nn 0))
            (s.pos.get i) (s.mom.get i)
            (nodeForce (internalContribs fx s.pos.get (updateFaceTypes c s.faces) (forceParams c s.tvol)) i)).1
    ∧ (cellIteration fx c s).mom.get i
        = (Gen.single10 c.dt c.damping
            (Gen.nodeMass c.density (prelude fx s.pos.get (updateFaceTypes c s.faces) (forceParams c s.tvol)).volume (Gen.nbNodes s.nn 0))
            (s.pos.get i) (s.mom.get i)
            (nodeForce (internalContribs fx s.pos.get (updateFaceTypes c s.faces) (forceParams c s.tvol)) i)).2.1 := by
  have hacc := accumulate_spec s.nn (internalContribs fx s.pos.get (updateFaceTypes c s.faces) (forceParams c s.tvol)) i hi
  unfold cellIteration
  simp only [Slots.get, Array.getElem?_map, Array.getElem?_range, hi, if_true, Option.map_some,
    Array.getD_eq_getD_getElem?, hacc, Option.getD_some, and_self]

/-- **one whole solver iteration of a free cell commutes with the translation** -/
theorem cellIteration_translate (fx : FX R) (c : Consts R) (s : State R) (hc : Closed s.faces) (t : V3 R) :
    cellIteration fx c (translate t s) = translate t (cellIteration fx c s) := by
  have hF : Closed (updateFaceTypes c s.faces) := closed_updateFaceTypes c _ hc
  have hforce := C02.forces_translation_equivariant fx s.pos.get (updateFaceTypes c s.faces) (forceParams c s.tvol) hF t
  have hpre := Forces.prelude_tr fx s.pos.get (updateFaceTypes c s.faces) (forceParams c s.tvol) hF t
  have hf : (translate t s).faces = s.faces := rfl
  have hv : (translate t s).tvol = s.tvol := rfl
  have hm : (translate t s).mom = s.mom := rfl
  have hi : (translate t s).iter = s.iter := rfl
  have ht : (translate t s).time = s.time := rfl
  have hr : (translate t s).pos.rest = fun i => s.pos.rest i + t := rfl
  unfold cellIteration
  simp only [translate_get, translate_nn, hf, hv, hm, hi, ht, hr, hforce, hpre, single10_translate]
  simp only [translate, Slots.map, Array.map_map, Function.comp_def]

/-! ### any number of iterations -/

/-- the states the solver can hold: the triangle list is a closed surface -/
abbrev ClosedState (R : Type) := { s : State R // Closed s.faces }

def iterC (fx : FX R) (c : Consts R) (s : ClosedState R) : ClosedState R :=
  ⟨cellIteration fx c s.1, cellIteration_closed fx c s.1 s.2⟩
def translateC (t : V3 R) (s : ClosedState R) : ClosedState R := ⟨translate t s.1, translate_closed t s.1 s.2⟩

theorem iterC_equivariant (fx : FX R) (c : Consts R) (t : V3 R) : Equivariant (translateC t) (iterC (R := R) fx c) := by
  intro s; apply Subtype.ext; exact cellIteration_translate fx c s.1 s.2 t

theorem run_eq_iterate (fx : FX R) (c : Consts R) (n : Nat) (s : State R) : run fx c n s = (cellIteration fx c)^[n] s := by
  induction n generalizing s with
  | zero => rfl
  | succ k ih => simp only [run, Function.iterate_succ, Function.comp, ih]

theorem iterC_iterate_val (fx : FX R) (c : Consts R) (n : Nat) (s : ClosedState R) :
    ((iterC fx c)^[n] s).1 = run fx c n s.1 := by
  induction n generalizing s with
  | zero => rfl
  | succ k ih => simp only [Function.iterate_succ, Function.comp, run, ih]; rfl

/-- **n iterations of the translated cell = the translate of n iterations**: instance of `iterate_equivariant` -/
theorem cellRun_translate (fx : FX R) (c : Consts R) (n : Nat) (s : State R) (hc : Closed s.faces) (t : V3 R) :
    run fx c n (translate t s) = translate t (run fx c n s) := by
  have h := iterate_equivariant (translateC t) (iterC_equivariant fx c t) n ⟨s, hc⟩
  have h1 := congrArg Subtype.val h
  rw [iterC_iterate_val] at h1
  simp only [translateC] at h1
  rw [iterC_iterate_val] at h1
  exact h1

/-- … through the generic pipeline theorem as well (the iteration as a one-stage pipeline) -/
theorem cellRun_translate_pipeline (fx : FX R) (c : Consts R) (n : Nat) (s : ClosedState R) (t : V3 R) :
    (([iterC fx c].foldl (fun acc f => f ∘ acc) id)^[n]) (translateC t s)
      = translateC t ((([iterC fx c].foldl (fun acc f => f ∘ acc) id)^[n]) s) :=
  run_translate (translateC t) [iterC fx c] (fun f hf => by
    simp only [List.mem_cons, List.not_mem_nil, or_false] at hf; subst hf; exact iterC_equivariant fx c t) n s

/-- every position of the translated run is the position of the reference run shifted by `t` -/
theorem cellRun_positions (fx : FX R) (c : Consts R) (n : Nat) (s : State R) (hc : Closed s.faces) (t : V3 R) (i : Nat) :
    (run fx c n (translate t s)).pos.get i = (run fx c n s).pos.get i + t := by
  rw [cellRun_translate fx c n s hc t, translate_get]

/-- **what is observed of the cell is identical in both runs**: volume, pressure, target volume, area, the triangle list
    with its face types, the momenta, the simulation time and the iteration counter -/
theorem cellRun_observables (fx : FX R) (c : Consts R) (n : Nat) (s : State R) (hc : Closed s.faces) (t : V3 R) :
    (run fx c n (translate t s)).volume = (run fx c n s).volume
    ∧ (run fx c n (translate t s)).pressure = (run fx c n s).pressure
    ∧ (run fx c n (translate t s)).tvol = (run fx c n s).tvol
    ∧ (run fx c n (translate t s)).area = (run fx c n s).area
    ∧ (run fx c n (translate t s)).faces = (run fx c n s).faces
    ∧ (run fx c n (translate t s)).mom = (run fx c n s).mom
    ∧ (run fx c n (translate t s)).time = (run fx c n s).time
    ∧ (run fx c n (translate t s)).iter = (run fx c n s).iter := by
  rw [cellRun_translate fx c n s hc t]
  exact ⟨rfl, rfl, rfl, rfl, rfl, rfl, rfl, rfl⟩

/-! ### the domain of the model moves with the cell -/

theorem edgeInBand_translate (c : Consts R) (x : Nat → V3 R) (t : V3 R) (u v : Nat) :
    edgeInBand c (fun i => x i + t) u v = edgeInBand c x u v := by
  simp only [edgeInBand, edge_length_translate]

/-- the tests that decide whether the next real iteration is `cellIteration` (division, refinement band, removal) give the
    same verdict on the translated state -/
theorem stepOk_translate (fx : FX R) (c : Consts R) (s : State R) (hc : Closed s.faces) (t : V3 R) :
    stepOk fx c (translate t s) = stepOk fx c s := by
  have hF : Closed (updateFaceTypes c s.faces) := closed_updateFaceTypes c _ hc
  have hpre := Forces.prelude_tr fx s.pos.get (updateFaceTypes c s.faces) (forceParams c s.tvol) hF t
  have hf : (translate t s).faces = s.faces := rfl
  have hv : (translate t s).tvol = s.tvol := rfl
  have h1 : ready c (translate t s) = ready c s := rfl
  have h2 : inBand c (translate t s) = inBand c s := by
    simp only [inBand, translate_get, hf, edgeInBand_translate]
  have h3 : belowMin fx c (translate t s) = belowMin fx c s := by
    simp only [belowMin, translate_get, hf, hv, hpre]
  simp only [stepOk, h1, h2, h3]

/-- … along the whole run: the translated run stays in the modelled domain exactly as long as the reference run -/
theorem runOk_translate (fx : FX R) (c : Consts R) (n : Nat) (s : State R) (hc : Closed s.faces) (t : V3 R) :
    runOk fx c n (translate t s) = runOk fx c n s := by
  induction n generalizing s with
  | zero => rfl
  | succ k ih =>
    simp only [runOk, stepOk_translate fx c s hc t, cellIteration_translate fx c s hc t,
      ih (cellIteration fx c s) (cellIteration_closed fx c s hc)]

/-! ### non-vacuity: an octahedron over ℚ (the one of Properties/C02.lean: vertices (±3,0,0), (0,±2,0), (0,0,±1)) -/
section nonvacuous

def cQ : Consts ℚ :=
  { K := 1, maxP := 10, aem := 1, iso := 1, angf := 0, minVol := 1, growth := 0, divVol := 100, density := 3, dt := 1,
    damping := 1, lmin := 2, ft := [⟨1, 0⟩, ⟨1, 0⟩], epithelial := true }

def sQ : State ℚ :=
  { iter := 0, time := 0,
    pos := ⟨#[⟨3, 0, 0⟩, ⟨-3, 0, 0⟩, ⟨0, 2, 0⟩, ⟨0, -2, 0⟩, ⟨0, 0, 1⟩, ⟨0, 0, -1⟩], fun _ => ⟨0, 0, -1⟩⟩,
    mom := ⟨#[⟨0, 0, 0⟩, ⟨0, 0, 0⟩, ⟨0, 0, 0⟩, ⟨0, 0, 0⟩, ⟨0, 0, 0⟩, ⟨0, 0, 0⟩], fun _ => ⟨0, 0, 0⟩⟩,
    faces := C02.octa, area := 28, volume := 8, tvol := 8, pressure := 0 }

/-- the hypothesis of the theorems holds … -/
theorem sQ_closed : Closed sQ.faces := by decide

/-- … so the octahedron placed anywhere evolves as the octahedron at the origin, for any number of iterations -/
example (t : V3 ℚ) (n : Nat) : run C02.fxQ cQ n (translate t sQ) = translate t (run C02.fxQ cQ n sQ) :=
  cellRun_translate C02.fxQ cQ n sQ sQ_closed t

/-- … and the iteration is not the identity there: the surface tension (γ = 1 on every face after `update_face_types`, membrane
    factor −27) pulls the apex (0,0,1) with the force (0,0,−104); its mass is 3·8/6 = 4, so it moves to (0,0,−25) -/
theorem sQ_pos : sQ.pos.get = C02.octaPos := by
  funext i
  match i with
  | 0 | 1 | 2 | 3 | 4 | 5 => rfl
  | n + 6 => rfl

open Simu.Gen.Forces in
theorem sQ_apex :
    (cellIteration C02.fxQ cQ sQ).pos.get 4 = ⟨0, 0, -25⟩ ∧ (cellIteration C02.fxQ cQ sQ).mom.get 4 = ⟨0, 0, -104⟩ := by
  have h4 : 4 < sQ.nn := by decide
  obtain ⟨hp, hq⟩ := cellIteration_node C02.fxQ cQ sQ 4 h4
  have hm : sQ.mom.get 4 = ⟨0, 0, 0⟩ := rfl
  rw [hp, hq, sQ_pos, hm]
  simp only [Gen.single10, Gen.nodeMass, Gen.cellMass, Gen.nbNodes, internalContribs, prelude, pressureContribs, tensionContribs,
    bendingContribs, bendingContribsOf, angleContribs, updateFaceTypes, cQ, sQ, C02.octa, forceParams, nodeForce, faceGeom,
    faceNormalArea, cellArea, cellVolume, cellVol6, cellVol6At, volOrigin, volRefPoint, volRefOfFace, volFinish, volTerm, tensionFace, pressureFace,
    angleFace, targetVolume,
    Gen.Forces.pressure, tensionTargetArea, C02.fxQ, C02.octaPos, Params.ftOf, fabsR, State.nn, lit_eq]
  norm_num [V3.normSq_def, V3.cross_def, V3.dot_def]
  constructor <;> apply V3.ext' <;> norm_num

/-- the same cell placed at `t`: the apex ends at (0,0,−25) + t with the same momentum -/
example (t : V3 ℚ) :
    (cellIteration C02.fxQ cQ (translate t sQ)).pos.get 4 = ⟨0, 0, -25⟩ + t
    ∧ (cellIteration C02.fxQ cQ (translate t sQ)).mom.get 4 = ⟨0, 0, -104⟩ := by
  rw [cellIteration_translate C02.fxQ cQ sQ sQ_closed t, translate_get]
  exact ⟨by show (cellIteration C02.fxQ cQ sQ).pos.get 4 + t = _; rw [sQ_apex.1], sQ_apex.2⟩

end nonvacuous

end Simu.C14
