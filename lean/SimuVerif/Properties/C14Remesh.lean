import SimuVerif.Lemmas.RemeshTranslate
import SimuVerif.Lemmas.C14_RemeshStages
import SimuVerif.Lemmas.C14_RemeshBridge
/-
  C14 — remeshing inside the assembled iteration: `local_mesh_refiner::refine_mesh` commutes with translations.

  Part 1 (this section): the executable mirror `Remesh.refineMesh` of `refine_mesh` (the model that C01 / C11 compare
  state for state with the real code, and that `drv_c14` now runs inside the assembled iteration) gives, on the cell placed
  `t` further, the same outcome (returned / the same exception), the same operation log, the same connectivity, slot
  numbering, free lists and edge index, the same momenta, and every position — those of the nodes it creates included —
  shifted by `t`.  Exact arithmetic over any ordered field, any square-root function, the constants read from the source
  (`Gen.refineConsts`: the midpoint factor must be 1/2 for this to hold, a changed factor re-opens the proof).

  Hypothesis `refineLive … = true` (Model/RemeshLive.lean): the pass never reads the position of a RELEASED node slot.
  It is needed: `cell::delete_node` → `node::reset` writes the absolute position (0,0,0) into a released slot, so a face or
  an edge that still pointed to such a slot would make a length test / a face normal depend on where the cell is.  It is
  decidable, evaluated by the driver on every executed pass, and translation invariant (`refineLive_translate`).
-/
set_option linter.unusedSectionVars false
set_option linter.unusedVariables false
namespace Simu.C14
open Simu Simu.Remesh

variable {R : Type} [Field R] [LinearOrder R] [IsStrictOrderedRing R]

/-- the midpoint factor of `split_edge` / `merge_edge`, as written in the source, is one half -/
theorem gen_mid (fn : Fn R) : (Gen.refineConsts fn).split.mid + (Gen.refineConsts fn).split.mid = 1 := Remesh.gen_mid fn

/-! ### per operation -/

/-- the length test of `refine_mesh` -/
theorem edgeLength_translate (t : V3 R) {c : Cell R} {e : Edge} (ha : usedN c e.n1 = true) (hb : usedN c e.n2 = true) :
    C11.len2 (translateCell t c) e = C11.len2 c e := len2_translate t ha hb

/-- `can_be_merged` only looks at the connectivity -/
theorem canBeMerged_translate (t : V3 R) (c : Cell R) (e : Edge) :
    canBeMerged (translateCell t c) e = canBeMerged c e := Remesh.canBeMerged_translate t c e

/-- `get_triangle_score`: same score, same longest edge -/
theorem triangleScore_translate (t : V3 R) (fn : Fn R) (c : Cell R) (f : Face R) (hf : fUsed c f = true) :
    triangleScore fn (Gen.refineConsts fn) (translateCell t c) f = triangleScore fn (Gen.refineConsts fn) c f :=
  Remesh.triangleScore_translate t fn _ c f hf

/-- `split_edge`: same error / same check set; the new node at the translated midpoint, interpolated momentum unchanged -/
theorem splitEdge_translate (t : V3 R) (fn : Fn R) (c : Cell R) (e : Edge) (chk : CheckSet)
    (hl : edgeLive c e = true) (hfh : freeHeadOk c = true) :
    splitEdge fn (Gen.refineConsts fn).split (translateCell t c) e chk
      = (splitEdge fn (Gen.refineConsts fn).split c e chk).map (fun r => (translateCell t r.1, r.2)) :=
  Remesh.splitEdge_translate t fn _ (gen_mid fn) c e chk hl hfh

/-- `merge_edge` (both `replace_node` walks) -/
theorem mergeEdge_translate (t : V3 R) (fn : Fn R) (c : Cell R) (e : Edge) (chk : CheckSet)
    (hl : edgeLive c e = true) (hfh : freeHeadOk c = true) (hidx : idxFacesLive c = true)
    (hm : mergeMidLive fn (Gen.refineConsts fn).split c e = true) :
    mergeEdge fn (Gen.refineConsts fn).split (translateCell t c) e chk
      = (mergeEdge fn (Gen.refineConsts fn).split c e chk).map (fun r => (translateCell t r.1, r.2)) :=
  Remesh.mergeEdge_translate t fn _ (gen_mid fn) c e chk hl hfh hidx hm

/-- `swap_edge` -/
theorem swapEdge_translate (t : V3 R) (fn : Fn R) (c : Cell R) (e : Edge) (hl : edgeLive c e = true) :
    swapEdge fn (translateCell t c) e = (swapEdge fn c e).map (translateCell t) :=
  Remesh.swapEdge_translate t fn c e hl

/-- `remove_elongated_triangles` -/
theorem removeElongated_translate (t : V3 R) (fn : Fn R) (c : Cell R)
    (hl : liveSwapLoop fn (Gen.refineConsts fn) (2 * c.faces.size + 8) 0 c = true) :
    removeElongated fn (Gen.refineConsts fn) (translateCell t c)
      = (removeElongated fn (Gen.refineConsts fn) c).map (translateCell t) :=
  Remesh.removeElongated_translate t fn _ c hl

/-- `cell::rebase` (unconditional: it renumbers by the free lists, not by positions) -/
theorem rebase_translate (t : V3 R) (c : Cell R) : rebase (translateCell t c) = (rebase c).map (translateCell t) :=
  Remesh.rebase_translate t c

/-! ### the whole pass -/

/-- **`refine_mesh` commutes with the translation** -/
theorem refineMesh_translate (t : V3 R) (fn : Fn R) (lminSq lmaxSq : R) (swapOn : Bool) (c : Cell R) (maxIter : Nat)
    (hl : refineLive fn (Gen.refineConsts fn) lminSq lmaxSq swapOn c maxIter = true) :
    refineMesh fn (Gen.refineConsts fn) lminSq lmaxSq swapOn (translateCell t c) maxIter
      = trResult t (refineMesh fn (Gen.refineConsts fn) lminSq lmaxSq swapOn c maxIter) :=
  Remesh.refineMesh_translate t fn _ (gen_mid fn) lminSq lmaxSq swapOn c maxIter hl

/-- … read off component by component: the cell `c'` the pass leaves, its outcome and its log -/
theorem refineMesh_translate_components (t : V3 R) (fn : Fn R) (lminSq lmaxSq : R) (swapOn : Bool) (c : Cell R)
    (maxIter : Nat) (hl : refineLive fn (Gen.refineConsts fn) lminSq lmaxSq swapOn c maxIter = true)
    {c' : Cell R} {out : Outcome} {log : C11.Log R}
    (h : refineMesh fn (Gen.refineConsts fn) lminSq lmaxSq swapOn c maxIter = (c', out, log)) :
    refineMesh fn (Gen.refineConsts fn) lminSq lmaxSq swapOn (translateCell t c) maxIter = (translateCell t c', out, log) := by
  rw [refineMesh_translate t fn lminSq lmaxSq swapOn c maxIter hl, h]; rfl

/-- the hypothesis is the same statement about the translated cell -/
theorem refineLive_translate (t : V3 R) (fn : Fn R) (lminSq lmaxSq : R) (swapOn : Bool) (c : Cell R) (maxIter : Nat) :
    refineLive fn (Gen.refineConsts fn) lminSq lmaxSq swapOn (translateCell t c) maxIter
      = refineLive fn (Gen.refineConsts fn) lminSq lmaxSq swapOn c maxIter :=
  Remesh.refineLive_translate t fn _ (gen_mid fn) lminSq lmaxSq swapOn c maxIter

/-! ### non-vacuity: a unit tetrahedron over ℚ, band [0, 3/2]: the three edges of squared length 2
    are split -/
section nonvacuous
set_option maxRecDepth 1000000

/-- the concrete cell of the examples (the one of Properties/C11.lean, repeated here so that this module does not depend on the
    momentum theorems of C11): unit tetrahedron, momenta (1,2,-1) … (4,2,-1); `sqrt := id` is enough, no theorem uses a property of it -/
def fnQ : Fn ℚ := ⟨id, id, id, id, fun _ => 0⟩
def tetQ : Except Err (Cell ℚ) :=
  initCell fnQ [⟨0,0,0⟩,⟨1,0,0⟩,⟨0,1,0⟩,⟨0,0,1⟩] [(0,2,1),(0,1,3),(0,3,2),(1,2,3)]
def tetCell : Cell ℚ := match tetQ with | .ok c => c | .error _ => ⟨#[], #[], [], [], []⟩
def tetM : Cell ℚ := { tetCell with nodes := tetCell.nodes.mapIdx (fun i n => { n with mom := ⟨(i : ℚ) + 1, 2, -1⟩ }) }
def kQR : RefineConsts ℚ := Gen.refineConsts fnQ

theorem tet_live : refineLive fnQ kQR 0 (3/2) false tetM 100 = true := by decide +kernel

theorem tet_three_splits : (refineMesh fnQ kQR 0 (3/2) false tetM 100).2.2.length = 3
    ∧ (refineMesh fnQ kQR 0 (3/2) false tetM 100).2.1 == Outcome.returned := by decide +kernel

/-- the tetrahedron placed anywhere is refined in the same way -/
example (t : V3 ℚ) : refineMesh fnQ kQR 0 (3/2) false (translateCell t tetM) 100
    = trResult t (refineMesh fnQ kQR 0 (3/2) false tetM 100) :=
  refineMesh_translate t fnQ 0 (3/2) false tetM 100 tet_live

end nonvacuous

/-! ## Part 2: the assembled iteration with remeshing (`Model/PipelineR.lean`)

  `PipelineR.cellIterationR` is `solver::run_iteration` for a single free cell with step 4 = `refineMesh` and the `rebase` of
  `save_mesh`; it is tied bit for bit to the real solver in runs that split, collapse and swap edges
  (tools/props/c14_remesh.py).  `stepOkR` (decidable, printed by the driver for every iteration) is its domain: no division,
  the pass reads no released slot (`refineLive`), and — when the pass returns — the refined mesh references no released
  slot, its edge index is complete, it is closed, the cell has a node, and it is not removed.  An exception of the refiner is
  INSIDE the domain: the model reports the same exception for the translated cell. -/
section iteration
open Simu.PipelineR Simu.Forces

/-- `Forces.Closed` from the sorting test the driver evaluates -/
theorem closed_of_closedB {F : List Forces.Face} (h : closedB F = true) : Forces.Closed F := PipelineR.closed_of_closedB h

/-- steps 1, 3, 4 (`save_mesh` → rebase, `update_face_types`, `refine_mesh`): same exception or the translated cell -/
theorem meshStage_translate (fn : Fn R) (K : ConstsR R) (s : StateR R) (t : V3 R) (hl : refineLiveR fn K s = true) :
    meshStage fn K (translateR t s) = (meshStage fn K s).map (translateR t) := PipelineR.meshStage_translate fn K s t hl

/-- steps 7, 8, 11 on a closed mesh with released slots (forces through the edge index the refiner left, integration of the
    used nodes with `get_nb_of_nodes()` = slots − free queue) -/
theorem forceStage_translate (fx : FX R) (K : ConstsR R) (s : StateR R) (t : V3 R)
    (hc : Forces.Closed (liveF s.cell)) (hu : ∃ n ∈ s.cell.nodes.toList, n.used = true) :
    forceStage fx K (translateR t s) = translateR t (forceStage fx K s) := PipelineR.forceStage_translate fx K s t hc hu

/-- **one whole solver iteration, remeshing included, commutes with the translation**: same exception, or positions of the
    used nodes (new nodes of splits / collapses included) shifted by `t` and everything else identical -/
theorem cellIterationR_translate (fn : Fn R) (fx : FX R) (K : ConstsR R) (s : StateR R) (t : V3 R)
    (hok : stepOkR fn fx K s = true) :
    cellIterationR fn fx K (translateR t s) = (cellIterationR fn fx K s).map (translateR t) :=
  PipelineR.cellIterationR_translate fn fx K s t hok

/-- the domain predicate of one iteration gives the same verdict on the translated state -/
theorem stepOkR_translate (fn : Fn R) (fx : FX R) (K : ConstsR R) (s : StateR R) (t : V3 R) :
    stepOkR fn fx K (translateR t s) = stepOkR fn fx K s := PipelineR.stepOkR_translate fn fx K s t

/-- **the domain moves with the cell**: the translated run stays in the modelled domain for n iterations exactly when the
    reference run does -/
theorem domainR_translate (fn : Fn R) (fx : FX R) (K : ConstsR R) (n : Nat) (s : StateR R) (t : V3 R) :
    runOkR fn fx K n (translateR t s) = runOkR fn fx K n s := PipelineR.runOkR_translate fn fx K n s t

/-- **n iterations of the translated cell = the translate of n iterations**, remeshing passes included -/
theorem cellRunR_translate (fn : Fn R) (fx : FX R) (K : ConstsR R) (n : Nat) (s : StateR R) (t : V3 R)
    (hok : runOkR fn fx K n s = true) :
    runR fn fx K n (translateR t s) = (runR fn fx K n s).map (translateR t) :=
  PipelineR.cellRunR_translate fn fx K n s t hok

/-- **what is observed of the cell is identical in both runs**: an exception is the same exception; otherwise volume, pressure,
    target volume, area, time, counters, the face slots (triangles, types, cached normals and areas, used flags), the edge index,
    both free queues, the used flags and momenta of the node slots are identical, and every used node sits at the reference
    position + `t` -/
theorem cellRunR_observables (fn : Fn R) (fx : FX R) (K : ConstsR R) (n : Nat) (s : StateR R) (t : V3 R)
    (hok : runOkR fn fx K n s = true) :
    (∀ e, runR fn fx K n s = .error e → runR fn fx K n (translateR t s) = .error e) ∧
    (∀ s', runR fn fx K n s = .ok s' → ∃ s'', runR fn fx K n (translateR t s) = .ok s'' ∧
      s''.volume = s'.volume ∧ s''.pressure = s'.pressure ∧ s''.tvol = s'.tvol ∧ s''.area = s'.area ∧
      s''.time = s'.time ∧ s''.iter = s'.iter ∧ s''.fileNo = s'.fileNo ∧
      s''.cell.faces = s'.cell.faces ∧ s''.cell.edges = s'.cell.edges ∧
      s''.cell.freeNodes = s'.cell.freeNodes ∧ s''.cell.freeFaces = s'.cell.freeFaces ∧
      (∀ i : Nat, usedN s''.cell i = usedN s'.cell i) ∧
      (∀ i : Nat, (s''.cell.nodes[i]?).map (fun n : Node R => n.mom) = (s'.cell.nodes[i]?).map (fun n : Node R => n.mom)) ∧
      (∀ i : Nat, usedN s'.cell i = true → posOf s''.cell i = posOf s'.cell i + t)) := by
  have h := cellRunR_translate fn fx K n s t hok
  constructor
  · intro e he
    rw [h, he]; rfl
  · intro s' hs
    refine ⟨translateR t s', by rw [h, hs]; rfl, rfl, rfl, rfl, rfl, rfl, rfl, rfl, rfl, rfl, rfl, rfl, ?_, ?_, ?_⟩
    · intro i; exact tr_usedN t s'.cell i
    · intro i
      show ((translateCell t s'.cell).nodes[i]?).map _ = _
      rw [tr_getNode]
      cases s'.cell.nodes[i]? with
      | none => rfl
      | some n => simp only [Option.map_some, trNode_mom]
    · intro i hi; exact tr_posOf t hi

/-- **the model without remeshing is the special case**: for a state `s` of Model/Pipeline.lean seen as a cell without released
    slots (`ofState`, edge index `E`, any cached face geometry, `Slots.rest` = position of node 0), with the swap pass off, every
    edge of `E` inside the band and `E` listing the hinges as a freshly generated edge set does (hypothesis of C02 `slots_fresh`),
    one iteration of the model WITH remeshing is `Pipeline.cellIteration` — so the theorems of Properties/C14Pipeline.lean are
    statements about `cellIterationR` on those states -/
theorem cellIterationR_eq_cellIteration (fn : Fn R) (fx : FX R) (K : ConstsR R) (s : Pipeline.State R) (E : EdgeSet)
    (g : Nat → V3 R × R) (n : Int)
    (hsw : K.swapOn = false) (h0 : 0 < s.nn) (hrest : ∀ i, s.pos.rest i = s.pos.get 0)
    (hE : E ≠ [])
    (hband : ∀ e ∈ E, ¬ lmaxSq K < C11.len2 (ofState s E g n).cell e ∧ ¬ C11.len2 (ofState s E g n).cell e < lminSq K)
    (hfuel : E.length + 1 ≤ K.maxIter)
    (hH : (E.map fun e => (⟨e.n1, e.n2, e.f1.getD 0, e.f2.getD 0⟩ : Forces.EdgeRec)).map
            (hingeOfEdge ((Pipeline.updateFaceTypes K.base s.faces).map fun f => ⟨true, f⟩))
          = hingesSorted (Pipeline.updateFaceTypes K.base s.faces)) :
    cellIterationR fn fx K (ofState s E g n)
      = .ok (ofState (Pipeline.cellIteration fx K.base s) E
               (fun i => faceGeom fx s.pos.get ((Pipeline.updateFaceTypes K.base s.faces).getD i ⟨0, 0, 0, 0⟩))
               (if Gen.saveCond (Gen.fileNumber fn s.time K.samplingPeriod) n then Gen.fileNumber fn s.time K.samplingPeriod else n)) :=
  PipelineR.cellIterationR_ofState fn fx K s E g n hsw h0 hrest hE hband hfuel hH

/-- the band hypothesis from the domain test `inBand` of Model/Pipeline.lean (every edge of the index a side of a face) -/
theorem band_of_inBand (K : ConstsR R) (s : Pipeline.State R) (E : EdgeSet) (g : Nat → V3 R × R) (n : Int)
    (hlt : ∀ f ∈ s.faces, f.a < s.nn ∧ f.b < s.nn ∧ f.c < s.nn)
    (hside : ∀ e ∈ E, ∃ f ∈ s.faces, (e.n1, e.n2) ∈ f.sides ∨ (e.n2, e.n1) ∈ f.sides)
    (hin : Pipeline.inBand K.base s = true) :
    ∀ e ∈ E, ¬ lmaxSq K < C11.len2 (ofState s E g n).cell e ∧ ¬ C11.len2 (ofState s E g n).cell e < lminSq K :=
  PipelineR.band_of_inBand K s E g n hlt hside hin

end iteration

/-! ### non-vacuity: one iteration of that tetrahedron over ℚ (l_min = 1/3, so l_max² = 1 < 2: the edges
    of squared length 2 (and one of the new edges of squared length 3/2) are split inside the iteration), evaluated by the kernel -/
section nonvacuousR
open Simu.PipelineR
set_option maxRecDepth 1000000

def KQR : ConstsR ℚ :=
  { base := { K := 1, maxP := 10, aem := 1, iso := 1, angf := 0, minVol := 1/1000, growth := 0, divVol := 100, density := 3, dt := 1,
              damping := 1, lmin := 1/3, ft := [⟨1, 0⟩, ⟨1, 0⟩], epithelial := true },
    samplingPeriod := 1, swapOn := false, maxIter := 100 }

def sR : StateR ℚ :=
  { iter := 1, time := 0, fileNo := 0, cell := tetM, area := 1, volume := 1/6, tvol := 1/6, pressure := 0 }

/-- the iteration is inside the domain of the theorems … -/
theorem tetR_stepOk : stepOkR fnQ C02.fxQ KQR sR = true := by decide +kernel

/-- … and its refinement pass does split edges: four of them (the node list grows from 4 to 8 slots) -/
theorem tetR_splits : (refineLog fnQ KQR (faceTypes KQR sR.cell)).length = 4
    ∧ ((cellIterationR fnQ C02.fxQ KQR sR).toOption.map fun s => (s.cell.nodes.size, s.fileNo, s.iter)) = some (8, 1, 2) := by
  decide +kernel

/-- so the tetrahedron placed anywhere goes through the same iteration -/
example (t : V3 ℚ) : cellIterationR fnQ C02.fxQ KQR (translateR t sR) = (cellIterationR fnQ C02.fxQ KQR sR).map (translateR t) :=
  cellIterationR_translate fnQ C02.fxQ KQR sR t tetR_stepOk

end nonvacuousR
end Simu.C14
