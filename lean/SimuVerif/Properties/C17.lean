import SimuVerif.Lemmas.VtkRead
import SimuVerif.Model.VtkText
/-
  C17 — malformed mesh files are rejected with an exception, never a crash (mesh-file half).

  The reader model (`assemble`, Model/Vtk.lean) is a total, terminating function from what the
  regular expressions extract (`Raw`) to `Except Err (meshes × types)`, and `scan : List Char → Raw`
  (Model/VtkText.lean) is a total, terminating function of the bytes of the file: *totality is by
  construction* (every definition is structurally or well-foundedly recursive; no `partial`).
  The correspondence run compares `readText = assemble ∘ scan` with the real `mesh_reader`
  (under ASan+UBSan) on every systematic mutation of valid files, to the throw site.

  What is proved here, for EVERY `Raw` (hence every byte string):
  * `read_ok_wellformed` — when the reader returns, every index it used was in range and the declared
    counts match the contents (so the three repaired out-of-bounds accesses cannot happen);
  * `long_token_rejected`, `index_out_of_range_rejected`, `empty_cell_line_rejected` — the three repaired
    crashes are diagnosed;
  * `throw_sites_partition` — every `throw mesh_reader_exception` of the source is either the site of
    exactly one error of the model or one of the seven listed dead sites, and `error_classes` — the
    reader ends only with `mesh_reader_exception`, `std::invalid_argument` or `std::out_of_range`
    (all derived from `std::exception`, which is what `main` catches);
  * `every_listed_error_occurs` — none of the error kinds is vacuous;
  * `init_checks_sound` — what `simulation_initializer::run` guarantees on top when the initial
    triangulation is disabled (every face is a triangle, every type id is valid).
  The XML half of C17 has no model (tinyxml2 is opaque): run-time differential only.
-/
namespace Simu.C17
open Simu Simu.Vtk Simu.Gen.Vtk
variable {R : Type}

/-- what a successful read guarantees -/
structure WellFormed (raw : Raw) (ms : List (Mesh R)) (tys : List Int) : Prop where
  /-- no token longer than the guard of the constructor -/
  tokens : raw.maxToken ≤ rMaxToken
  /-- the declared number of points is the number of coordinate triples, fits an int; float or double -/
  points : ∃ nb ty nums, raw.points = some (nb, ty, nums) ∧ nums.length / 3 = nb ∧ nb ≤ intMax ∧ rCoordTypes.contains ty = true
  /-- CELL_TYPES: as many entries as declared, all polyhedra -/
  cellTypes : ∃ nc ts, raw.cellTypes = some (nc, ts) ∧ ts.length = nc ∧ ∀ t ∈ ts, t = rPolyType
  /-- one mesh per cell line; the leading integer of a line is the number of integers after it -/
  lines : ∃ ls, raw.cells = some (some ls) ∧ ms.length = ls.length ∧ ∀ l ∈ ls, l.lead = some l.ints.length ∧ ∀ x ∈ l.ints, x ≤ intMax
  /-- every mesh comes from a line `#faces, (arity, ids…)*` whose global ids all address three existing
      coordinates; its local ids all address three coordinates of the mesh -/
  cells : ∃ nb ty nums, raw.points = some (nb, ty, nums) ∧ ∀ m ∈ ms, ∃ faces : List (List Nat),
      (∀ f ∈ faces, ∀ g ∈ f, g < nb ∧ g * 3 + 3 ≤ nums.length)
      ∧ m.faces.length = faces.length
      ∧ (∀ f ∈ m.faces, ∀ i ∈ f, i * 3 + 3 ≤ m.pos.length)
  /-- the type ids are the integers of the array, as `short` -/
  types : ∃ ids, raw.typeIds = some ids ∧ tys = ids.map toShort ∧ ∀ x ∈ ids, x ≤ intMax

theorem assemble_ok_inv {P : NumSem R} {raw : Raw} {ms : List (Mesh R)} {tys : List Int} (h : assemble P raw = .ok (ms, tys)) :
    ∃ pos conn, ctorCheck P raw = .ok () ∧ getNodePos P raw = .ok pos ∧ readCellFaces raw = .ok conn
      ∧ getCellMesh pos conn = .ok ms ∧ getCellTypes raw = .ok tys := by
  unfold assemble at h
  split at h
  · cases h
  · rename_i u hu
    split at h
    · cases h
    · rename_i pos hpos
      split at h
      · cases h
      · rename_i conn hconn
        split at h
        · cases h
        · rename_i ms' hms
          split at h
          · cases h
          · rename_i tys' htys
            cases h
            exact ⟨pos, conn, hu, hpos, hconn, hms, htys⟩

/-- **whenever the reader returns, everything it indexed was in range and every declared count matches** -/
theorem read_ok_wellformed (P : NumSem R) (raw : Raw) (ms : List (Mesh R)) (tys : List Int)
    (h : assemble P raw = .ok (ms, tys)) : WellFormed raw ms tys := by
  obtain ⟨pos, conn, hctor, hpos, hconn, hms, htys⟩ := assemble_ok_inv h
  obtain ⟨nb, ty, nums, hp, hnb, hty, hlen, hdiv, _⟩ := getNodePos_ok_inv hpos
  obtain ⟨nc, ts, lines, hct, _, htsl, hts, hcl, hconn', hlines⟩ := readCellFaces_ok_inv hconn
  obtain ⟨ids, hids, htys', hidr⟩ := getCellTypes_ok_inv htys
  refine ⟨?_, ⟨nb, ty, nums, hp, by rw [← hlen]; exact hdiv, hnb, hty⟩, ⟨nc, ts, hct, htsl, hts⟩, ⟨lines, hcl, ?_, hlines⟩, ⟨nb, ty, nums, hp, ?_⟩, ⟨ids, hids, htys', hidr⟩⟩
  · unfold ctorCheck at hctor
    split at hctor
    · cases hctor
    · rename_i hle; omega
  · have := mapE_ok_length hms
    rw [this, hconn']; simp
  · intro m hm
    obtain ⟨cell, _, hcm⟩ := mapE_ok_mem hms m hm
    obtain ⟨faces, _, hb, hf, hl⟩ := cellMesh_ok_inv hcm
    refine ⟨faces, ?_, by rw [hf]; simp, ?_⟩
    · intro f hf' g hg
      have := hb f hf' g hg
      constructor
      · omega
      · omega
    · intro f hf' i hi
      rw [hf] at hf'
      obtain ⟨f0, hf0, rfl⟩ := List.mem_map.1 hf'
      obtain ⟨g, hg, rfl⟩ := List.mem_map.1 hi
      have hmem : g ∈ setOf faces.flatten := mem_setOf.2 (List.mem_flatten.2 ⟨f0, hf0, hg⟩)
      have := List.idxOf_lt_length_of_mem hmem
      omega

/-- the same for the reader on the characters of a file: for every byte string -/
theorem readText_ok_wellformed (P : NumSem R) (s : List Char) (ms : List (Mesh R)) (tys : List Int)
    (h : readText P s = .ok (ms, tys)) : WellFormed (scan s) ms tys :=
  read_ok_wellformed P (scan s) ms tys h

/-! ## the repaired crashes are diagnosed -/

/-- a token longer than the guard is rejected by the constructor, before any regular expression runs
    (libstdc++'s recursive matcher overflows the stack on a token of a few 10^4 characters) -/
theorem long_token_rejected (P : NumSem R) (raw : Raw) (h : rMaxToken < raw.maxToken) : assemble P raw = .error .tokenTooLong := by
  simp [assemble, ctorCheck, h]

/-- a face that refers to a point the file does not contain is rejected (was: heap-buffer-overflow) -/
theorem index_out_of_range_rejected (pos : List R) (nbFaces : Nat) (data : List Nat) (faces : List (List Nat))
    (hl : faceLoop data = .ok faces) (hn : faces.length = nbFaces) (f : List Nat) (hf : f ∈ faces) (g : Nat) (hg : g ∈ f)
    (hbig : pos.length / 3 ≤ g) : cellMesh pos (nbFaces :: data) = .error .faceIndexRange := by
  have hany : (setOf faces.flatten).any (fun g => decide (pos.length / 3 ≤ g)) = true :=
    List.any_eq_true.2 ⟨g, mem_setOf.2 (List.mem_flatten.2 ⟨f, hf, hg⟩), by simpa using hbig⟩
  simp [cellMesh, hl, hn, hany]

/-- an empty connectivity list is rejected (was: read of element 0 of an empty vector) -/
theorem empty_cell_line_rejected (pos : List R) : cellMesh pos [] = .error .emptyCellLine := rfl

/-- the repairs are present in the source the model was regenerated from -/
theorem repairs_present : fixFaceIndexRange = true ∧ fixEmptyCellLine = true ∧ fixTokenGuard = true ∧ fixBoundedReserve = true
    ∧ rMaxToken = 4096 := by decide

/-! ## error classes -/

def allErrs : List Err :=
  [.tokenTooLong, .noVersion, .stodInvalid, .stodRange, .stoiRange, .noPoints, .badCoordType, .coordConversion, .coordNotFinite,
   .nodeCount, .noCellTypes, .notPolyhedron, .cellTypeCount, .noCells, .noCellsEnd, .cellLineCorrupted, .cellLineCount,
   .emptyCellLine, .faceDataCorrupted, .faceCount, .faceIndexRange, .noTypeIds]

theorem allErrs_complete (e : Err) : e ∈ allErrs := by cases e <;> decide

/-- the reader ends with one of three C++ exception types, all derived from `std::exception`; the two
    standard ones come from the `std::stoi` / `std::stod` calls whose `std::out_of_range` is not caught
    (7 + 2 calls, 4 `catch (std::invalid_argument)`, no other `catch`) -/
theorem error_classes : (∀ e : Err, e.cls = .meshReader ∨ e.cls = .invalidArgument ∨ e.cls = .outOfRange)
    ∧ (∀ e : Err, e.cls = .meshReader ↔ e.site.isSome = true)
    ∧ nStoi = 7 ∧ nStod = 2 ∧ nCatchInvalid = 4 ∧ nCatchOther = 0 := by
  refine ⟨fun e => by cases e <;> simp [Err.cls], fun e => by cases e <;> simp [Err.cls, Err.site], by decide, by decide, by decide, by decide⟩

/-- every `throw mesh_reader_exception` of the source is the site of exactly one error of the model or
    one of the seven dead sites; a throw added to or removed from the source breaks this.  The start-up code
    has 7 `throw intialization_exception`: two on the parameters alone (every cell type has a face type; an
    epithelial type has two), the three cross checks `initChecks` models (cells vs types, type id range,
    triangulated input), the cell-class switch and the give-up after `initMaxTries` attempts -/
theorem throw_sites_partition :
    readerThrows.length = 26
    ∧ (∀ i, i < readerThrows.length → (i ∈ deadSites ∧ ∀ e ∈ allErrs, e.site ≠ some i) ∨ (i ∉ deadSites ∧ (allErrs.filter (fun e => e.site == some i)).length = 1))
    ∧ initThrows.length = 7 := by
  refine ⟨by decide, ?_, by decide⟩
  have : ∀ i ∈ List.range readerThrows.length,
      (i ∈ deadSites ∧ ∀ e ∈ allErrs, e.site ≠ some i) ∨ (i ∉ deadSites ∧ (allErrs.filter (fun e => e.site == some i)).length = 1) := by decide
  intro i hi
  exact this i (List.mem_range.2 hi)

/-- the regular expressions, literals and messages the scanners of Model/VtkText.lean were written for -/
theorem regex_texts_pinned :
    rxCtor_rgx_1 = litVersion ++ ['(', '\\', 'd', '*', '\\', '.', '?', '\\', 'd', '*', ')']
    ∧ rxNodePos_rgx_1 = litPoints ++ ['(', '[', '0', '-', '9', ']', '+', ')', ' ', '(', '[', 'a', '-', 'z', ']', '+', ')']
    ∧ rxNodePos_rgx_2 = ['(', '[', 'A', '-', 'Z', 'a', '-', 'z', '_', ']', ')', '{', '2', ',', '}']
    ∧ rxNodePos_rgx_3 = ['(', '[', '-', '\\', '+', ']', '?', '[', '\\', 'd', '.', ']', '+', '(', '?', ':', '[', 'e', '|', 'E', ']', '[', '-', '\\', '+', ']', '?', '\\', 'd', '+', ')', '?', ')']
    ∧ rxFaces_rgx_0 = litCellTypes ++ ['(', '[', '0', '-', '9', ']', '+', ')']
    ∧ rxFaces_rgx_1 = ['(', '[', 'A', '-', 'Z', ']', ')'] ∧ rxFaces_rgx_2 = ['[', '0', '-', '9', ']', '+']
    ∧ rxFaces_rgx_3 = litCells ++ ['(', '[', '0', '-', '9', ']', '+', ')', ' ', '(', '[', '0', '-', '9', ']', ')', '+']
    ∧ rxFaces_rgx_4 = ['[', 'A', '-', 'Z', ']'] ∧ rxFaces_rgx_5 = ['^', '[', '0', '-', '9', ']', '+'] ∧ rxFaces_rgx_6 = ['[', '0', '-', '9', ']', '+']
    ∧ rxTypes_rgx_1 = ['[', 'C', '|', 'c', ']'] ++ litTypeIdTail ++ ['[', '0', '-', '9', ']', '+', ' ', '[', '0', '-', '9', ']', '+', ' ', '[', 'a', '-', 'z', 'A', '-', 'Z', ']', '+']
    ∧ rxTypes_rgx_2 = ['[', 'A', '-', 'Z', 'a', '-', 'z', ']'] ∧ rxTypes_rgx_3 = ['(', '[', '0', '-', '9', ']', '+', ')']
    ∧ rCoordTypes = [['f', 'l', 'o', 'a', 't'], ['d', 'o', 'u', 'b', 'l', 'e']] ∧ rPolyType = 42 ∧ rLineSkip = 3 ∧ rCellTextStart = 1
    ∧ initTriangleArity = 3 ∧ initMaxTries = 10 := by decide

/-! ## none of the error kinds is vacuous -/

def exSem : NumSem Nat :=
  { stod := fun s => if s = [] then .invalid else if s.length > 5 then .range else .value (natOfDigits s)
    finite := fun x => decide (x ≠ 7) }

def okRaw : Raw :=
  { maxToken := 5, version := some ['4'], points := some (1, ['f', 'l', 'o', 'a', 't'], [['1'], ['2'], ['3']])
    cellTypes := some (1, [42]), cells := some (some [⟨some 2, [1, 0]⟩]), typeIds := some [0] }

section Witnesses
attribute [local simp] assemble ctorCheck getNodePos readCellFaces getCellMesh getCellTypes okRaw exSem mapE stoi convCoord checkType convLine cellMesh faceLoop setOf setInsert intMax toShort natOfDigits rMaxToken rCoordTypes rPolyType

/-- the reader accepts a face with no node at all: it guarantees nothing about the arity of a face -/
theorem arity_not_checked : assemble exSem okRaw = .ok ([⟨[], [[]]⟩], [0]) := by
  simp

theorem every_listed_error_occurs : ∀ e ∈ allErrs, ∃ raw, assemble exSem raw = .error e := by
  intro e he
  simp only [allErrs, List.mem_cons, List.not_mem_nil, or_false] at he
  rcases he with rfl | rfl | rfl | rfl | rfl | rfl | rfl | rfl | rfl | rfl | rfl | rfl | rfl | rfl | rfl | rfl | rfl | rfl | rfl | rfl | rfl | rfl
  · exact ⟨{ okRaw with maxToken := 5000 }, by simp⟩
  · exact ⟨{ okRaw with version := none }, by simp⟩
  · exact ⟨{ okRaw with version := some [] }, by simp⟩
  · exact ⟨{ okRaw with version := some ['1', '2', '3', '4', '5', '6'] }, by simp⟩
  · exact ⟨{ okRaw with points := some (3000000000, ['f', 'l', 'o', 'a', 't'], []) }, by simp⟩
  · exact ⟨{ okRaw with points := none }, by simp⟩
  · exact ⟨{ okRaw with points := some (1, ['i', 'n', 't'], []) }, by simp⟩
  · exact ⟨{ okRaw with points := some (1, ['f', 'l', 'o', 'a', 't'], [[]]) }, by simp⟩
  · exact ⟨{ okRaw with points := some (1, ['f', 'l', 'o', 'a', 't'], [['7']]) }, by simp⟩
  · exact ⟨{ okRaw with points := some (2, ['f', 'l', 'o', 'a', 't'], [['1']]) }, by simp⟩
  · exact ⟨{ okRaw with cellTypes := none }, by simp⟩
  · exact ⟨{ okRaw with cellTypes := some (1, [12]) }, by simp⟩
  · exact ⟨{ okRaw with cellTypes := some (2, [42]) }, by simp⟩
  · exact ⟨{ okRaw with cells := none }, by simp⟩
  · exact ⟨{ okRaw with cells := some none }, by simp⟩
  · exact ⟨{ okRaw with cells := some (some [⟨none, [1]⟩]) }, by simp⟩
  · exact ⟨{ okRaw with cells := some (some [⟨some 3, [1]⟩]) }, by simp⟩
  · exact ⟨{ okRaw with cells := some (some [⟨some 0, []⟩]) }, by simp⟩
  · exact ⟨{ okRaw with cells := some (some [⟨some 2, [1, 5]⟩]) }, by simp⟩
  · exact ⟨{ okRaw with cells := some (some [⟨some 2, [3, 0]⟩]) }, by simp⟩
  · exact ⟨{ okRaw with cells := some (some [⟨some 3, [1, 1, 9]⟩]) }, by simp⟩
  · exact ⟨{ okRaw with typeIds := none }, by simp⟩

end Witnesses

/-! ## the cross checks of `simulation_initializer::run` -/

/-- when the start-up code does not throw at its own cross checks (initial triangulation disabled):
    one type per cell, every type id names a cell type of the parameter file, every face is a triangle -/
theorem init_checks_sound (nTypes : Nat) (ms : List (Mesh R)) (tys : List Int) (h : initChecks nTypes false ms tys = .unknown) :
    ms.length = tys.length ∧ (∀ t ∈ tys, 0 ≤ t ∧ t < nTypes) ∧ ∀ m ∈ ms, ∀ f ∈ m.faces, f.length = 3 := by
  unfold initChecks at h
  split at h
  · cases h
  · rename_i h1
    split at h
    · cases h
    · rename_i h2
      split at h
      · cases h
      · rename_i h3
        refine ⟨by simpa using h1, ?_, ?_⟩
        · have h2' : ∀ x ∈ tys, 0 ≤ x ∧ x < (nTypes : Int) := by simpa using h2
          exact h2'
        · have h3' : ∀ m ∈ ms, ∀ f ∈ m.faces, f.length = initTriangleArity := by simpa using h3
          intro m hm f hf
          have e : initTriangleArity = 3 := rfl
          rw [← e]
          exact h3' m hm f hf

end Simu.C17
