import SimuVerif.Lemmas.C09_Glue
import SimuVerif.Lemmas.C09_Poly
import SimuVerif.Lemmas.C09_Quat
import SimuVerif.Lemmas.C09_Pop
/-
  C09 — cell division yields two valid daughters or leaves the mother untouched.

  Objects (all executable, `Model/Division.lean`, compared stage by stage with the real `cell_divider` by
  `harness/h_division.cpp` / `lean/Driver/C09.lean`; the arithmetic, index tables, windings, id assignment and target
  volumes are `Gen.Division.*`, regenerated from the C++ text on every run):

    M₁, M₂   the surface faces of the cut mother kept by daughter 1 / daughter 2 (`splitSurface`)
    D        the interface triangulation (opaque: Poisson sampling + Delaunay), `opT D` = D with every triangle reversed
    daughters = (M₁ ++ opT D, M₂ ++ D)                               (`daughters_shape`)

  What is proved, for every mesh, plane, interface triangulation, population and history of outcomes:
    • closedness / the full surface invariant / additivity of the signed volume of the daughters   (daughters_*)
    • the cut itself (`add_point_to_face`, `divide_faces`) keeps the surface closed, keeps the node set and the volume
    • every surface face goes to exactly one daughter, targets are halved, the type is inherited
    • ids: two fresh consecutive ids per division, counter advanced by two, id invariant of the population preserved
    • the rotation built from the quaternion of the oriented plane normal (`plane_normal = ±n`, third component ≥ 0) is
      orthogonal, is defined for EVERY unit normal (w ≥ 1) and maps the division plane onto the xy plane; the raw
      construction (1 + p·z, p×z) vanishes at p = −z, which the orientation step excludes
    • a round in which no division succeeds leaves list, ids, counter and every cell unchanged up to the injective
      renumbering of `rebase`; in any round every cell that does not divide survives with its surface

  What is NOT proved (checked on every executed instance instead, see notes/C09.md): that the real D satisfies the interface
  condition; that the two intersection points of a cut face sit at cyclic distance 2; what `refine_mesh` does to the daughters.
-/
namespace Simu.C09
open Simu Simu.Surface Simu.Division

/-! ### the daughters as surfaces -/

/-- **both daughters are closed**: if the cut mother `M₁ ++ M₂` is closed and the unmatched half-edges of `D` are exactly the
    reversed unmatched half-edges of `M₂` (the interface condition, a multiset equation), then `M₂ ++ D` and
    `M₁ ++ Dᵒᵖ` are closed -/
theorem daughters_closed {M₁ M₂ D : List Tri} (h : Closed (M₁ ++ M₂))
    (hD : bdM D = (bdM M₂).map Prod.swap) : Closed (M₂ ++ D) ∧ Closed (M₁ ++ opT D) :=
  ⟨closed_glue hD, closed_other_side h (closed_glue hD)⟩

/-- the interface condition is also necessary: it is equivalent to closedness of the glued daughter -/
theorem daughters_closed_of_glue {M₂ D : List Tri} : Closed (M₂ ++ D) ↔ bdM D = (bdM M₂).map Prod.swap :=
  ⟨glue_of_closed, closed_glue⟩

/-- **the full surface invariant** (non-degenerate, every directed half-edge once, closed) for both daughters, when `D` is
    itself non-degenerate and simple and shares no directed half-edge with the half it is glued to -/
theorem daughters_inv {M₁ M₂ D : List Tri} (h : Inv (M₁ ++ M₂)) (hD : bdM D = (bdM M₂).map Prod.swap)
    (hn : NonDeg D) (hs : Simple D) (hd2 : ∀ e ∈ heM D, e ∉ heM M₂) (hd1 : ∀ e ∈ heM D, e.swap ∉ heM M₁) :
    Inv (M₂ ++ D) ∧ Inv (M₁ ++ opT D) := by
  have hc := daughters_closed h.closed hD
  have hn1 : NonDeg M₁ := fun t ht => h.nondeg t (List.mem_append_left _ ht)
  have hn2 : NonDeg M₂ := fun t ht => h.nondeg t (List.mem_append_right _ ht)
  have hsim := h.simple
  unfold Simple at hsim
  rw [heM_append, Multiset.nodup_add] at hsim
  refine ⟨⟨nonDeg_append hn2 hn, simple_append hsim.2.1 hs (fun e he1 he2 => hd2 e he2 he1), hc.1⟩,
    ⟨nonDeg_append hn1 (nonDeg_opT hn), simple_append hsim.1 (simple_opT hs) ?_, hc.2⟩⟩
  intro e he1 he2
  rw [heM_opT, Multiset.mem_map] at he2
  obtain ⟨e', he', rfl⟩ := he2
  exact hd1 e' he' he1

section field
variable {R : Type} [Field R] [LinearOrder R] [IsStrictOrderedRing R]

/-- **the signed volumes of the daughters add up to the mother's**, exactly, for any node positions and any `D` -/
theorem daughters_volume (pos : Nat → V3 R) (M₁ M₂ D : List Tri) :
    vol6 pos (M₁ ++ opT D) + vol6 pos (M₂ ++ D) = vol6 pos (M₁ ++ M₂) := by
  rw [vol6_append, vol6_append, vol6_append, vol6_opT]; ring

/-- **what the code computes is that signed volume**: `initialize_cell_properties` of a daughter (`Division.initDaughter`)
    accumulates `vol6c` — the triple products of the positions relative to `get_volume_reference_point()`, the first node of
    the first face — which for a closed surface equals the un-centred `vol6`, for every position of the nodes -/
theorem computed_volume_is_signed_volume (pos : Nat → V3 R) (T : List Tri) (h : Closed T) : vol6c pos T = vol6 pos T :=
  vol6c_eq_vol6 pos T h

/-- … hence, under the interface condition of `daughters_closed`, the volumes the code computes for the two daughters add
    up to the one it computes for the cut mother, exactly -/
theorem daughters_volume_computed (pos : Nat → V3 R) {M₁ M₂ D : List Tri} (h : Closed (M₁ ++ M₂))
    (hD : bdM D = (bdM M₂).map Prod.swap) :
    vol6c pos (M₁ ++ opT D) + vol6c pos (M₂ ++ D) = vol6c pos (M₁ ++ M₂) := by
  obtain ⟨h2, h1⟩ := daughters_closed h hD
  rw [vol6c_eq_vol6 pos _ h1, vol6c_eq_vol6 pos _ h2, vol6c_eq_vol6 pos _ h]
  exact daughters_volume pos M₁ M₂ D

/-- what `create_daughter_cells` builds (before `initialize_cell_properties`): daughter 1 = the surface faces on the
    non-positive side followed by the reversed interface, daughter 2 = those on the positive side followed by the interface -/
theorem daughters_shape (m : Mesh R) (fthr : Nat) (p n : V3 R) {T₁ T₂ : List Tri}
    (h : daughterFaces m fthr p n = .ok (T₁, T₂)) :
    ∃ S D, (m.faces.toList.take fthr).mapM triOfFace = some S ∧ (m.faces.toList.drop fthr).mapM triOfFace = some D ∧
      T₁ = S.filter (fun t => !sideOf m p n t) ++ opT D ∧ T₂ = S.filter (sideOf m p n) ++ D := by
  unfold daughterFaces at h
  cases hS : (m.faces.toList.take fthr).mapM triOfFace with
  | none => rw [hS] at h; cases h
  | some S =>
    cases hD : (m.faces.toList.drop fthr).mapM triOfFace with
    | none => rw [hS, hD] at h; cases h
    | some D =>
      rw [hS, hD] at h
      simp only [Except.ok.injEq, Prod.mk.injEq] at h
      obtain ⟨h1, h2⟩ := h
      refine ⟨S, D, rfl, rfl, ?_, ?_⟩
      · rw [← h1, split_surface_eq, wind_op, wind_id]
      · rw [← h2, split_surface_eq, wind_id]
end field

/-! ### the cut: add_point_to_face and divide_faces -/

/-- `add_point_to_face` replaces the directed edge it finds by the two half-edges through the new node -/
theorem add_point_he {f f' : List Nat} {a b p : Nat} (h : addPointToFaceL f a b p = some f') :
    ∃ e, dirOf f a b = some e ∧ (e = (a, b) ∨ e = (b, a)) ∧ heP f' + {e} = heP f + {(e.1, p)} + {(p, e.2)} :=
  Division.add_point_he h

/-- … the node list of the face grows by exactly the new node … -/
theorem add_point_nodes {f f' : List Nat} {a b p : Nat} (h : addPointToFaceL f a b p = some f') : f'.Perm (p :: f) :=
  Division.add_point_nodes h

/-- … and inserting it into the two faces that traverse the cut edge in opposite directions keeps the surface closed -/
theorem add_point_pair_closed {f1 f2 f1' f2' : List Nat} {rest : List (List Nat)} {a b p : Nat} {e : HE}
    (h1 : addPointToFaceL f1 a b p = some f1') (h2 : addPointToFaceL f2 a b p = some f2')
    (d1 : dirOf f1 a b = some e) (d2 : dirOf f2 a b = some e.swap)
    (hc : ClosedP (f1 :: f2 :: rest)) : ClosedP (f1' :: f2' :: rest) :=
  Division.add_point_pair_closed h1 h2 d1 d2 hc

/-- one cut face: the three triangles of `divide_faces` (index tables read from the source) have the half-edges of the face
    plus two reverse-paired diagonals, for every admissible position of the two intersection points -/
theorem divide5_he {v0 v1 v2 v3 v4 p1 p2 : Nat} {ts : List (List Nat)} (hw : Wf5At p1 p2)
    (h : divide5At [v0, v1, v2, v3, v4] p1 p2 = some ts) :
    ∃ S, SymM S ∧ hePoly ts = heP [v0, v1, v2, v3, v4] + S :=
  Division.divide5_he hw h

/-- **`divide_faces` preserves the surface**: same half-edges up to reverse-paired diagonals (so closed iff closed), every
    face a triangle afterwards -/
theorem divide_faces_preserves_surface {thr : Nat} {F keep add : List (List Nat)}
    (h : divideFacesL thr F = .ok (keep, add)) (hw : ∀ f ∈ F, Wf5 thr f) :
    (∃ S, SymM S ∧ hePoly (keep ++ add) = hePoly F + S) ∧ (ClosedP (keep ++ add) ↔ ClosedP F) ∧
    ((∀ f ∈ F, f.length = 3 ∨ f.length = 5) → ∀ t ∈ keep ++ add, t.length = 3) :=
  ⟨divide_faces_he h hw, divide_faces_closed h hw, divide_faces_tris h hw⟩

/-- `divide_faces` neither adds nor drops a node: the node set grows only in `add_intersection_points` -/
theorem divide_faces_nodes {thr : Nat} {F keep add : List (List Nat)}
    (h : divideFacesL thr F = .ok (keep, add)) (hw : ∀ f ∈ F, Wf5 thr f) (x : Nat) :
    x ∈ (keep ++ add).flatten ↔ x ∈ F.flatten :=
  Division.divide_faces_nodes h hw x

section field2
variable {R : Type} [Field R] [LinearOrder R] [IsStrictOrderedRing R]

/-- same signed volume, first branch of `divide_faces`: the triangle `x y z` cut by the segment between `e` on `z→x` and
    `g` on `y→z` (any points ON the edges, `s`, `t` arbitrary) -/
theorem cut_volume_caseA (x y z : V3 R) (s t : R) :
    tet6 (z + (x - z) * s) (y + (z - y) * t) z + tet6 (z + (x - z) * s) x y + tet6 (z + (x - z) * s) y (y + (z - y) * t)
      = tet6 x y z := cut_volume_A x y z s t

/-- same signed volume, else branch: `e` on `z→x`, `g` on `x→y` -/
theorem cut_volume_caseB (x y z : V3 R) (s t : R) :
    tet6 (z + (x - z) * s) x (x + (y - x) * t) + tet6 z (z + (x - z) * s) (x + (y - x) * t) + tet6 z (x + (y - x) * t) y
      = tet6 x y z := cut_volume_B x y z s t

/-- `face_side_wrt_plane` is true exactly for the faces whose centroid lies strictly on the side the normal points to:
    those are removed from daughter 1 and kept by daughter 2 (`stage_order_as_modelled`) -/
theorem face_side_spec (p1 p2 p3 p n : V3 R) :
    Gen.Division.faceSide p1 p2 p3 p n = true ↔ 0 < V3.dot ((p1 + p2 + p3) / (3 : R) - p) n := by
  simp only [Gen.Division.faceSide, lit_zero, lit_three, decide_eq_true_eq]

/-- the point `find_edge_plane_intersection` returns lies on the plane … -/
theorem edge_plane_on_plane {e1 e2 p n q : V3 R} (h : Gen.Division.edgePlaneIntersection e1 e2 p n = some q) :
    V3.dot n (q - p) = 0 := Division.edge_plane_on_plane h

/-- … and on the edge -/
theorem edge_plane_on_segment {e1 e2 p n q : V3 R} (h : Gen.Division.edgePlaneIntersection e1 e2 p n = some q) :
    ∃ t : R, 0 ≤ t ∧ t ≤ 1 ∧ q = e1 + (e2 - e1) * t := Division.edge_plane_on_segment h
end field2

/-! ### partition, targets, type -/

/-- **every surface face goes to exactly one daughter** -/
theorem side_partition (S : List Tri) (side : Tri → Bool) :
    splitSurface S side = (S.filter (fun t => !side t), S.filter side) ∧
    ((splitSurface S side).1 ++ (splitSurface S side).2).Perm S ∧
    ∀ t ∈ S, (t ∈ (splitSurface S side).1 ↔ side t = false) ∧ (t ∈ (splitSurface S side).2 ↔ side t = true) := by
  refine ⟨split_surface_eq S side, split_surface_perm S side, ?_⟩
  intro t ht
  rw [split_surface_eq]
  simp only [List.mem_filter, ht, true_and, Bool.not_eq_true']

section field3
variable {R : Type} [Field R] [LinearOrder R] [IsStrictOrderedRing R]

/-- **each daughter inherits half of the mother's target volume** (`Gen.Division.targetD1/2` read from the source) -/
theorem target_halved (mother : PCell R) (s1 s2 : List Tri) :
    (mkDaughters mother s1 s2).1.target = mother.target / 2 ∧ (mkDaughters mother s1 s2).2.target = mother.target / 2 ∧
    (mkDaughters mother s1 s2).1.target + (mkDaughters mother s1 s2).2.target = mother.target := by
  refine ⟨?_, ?_, ?_⟩ <;> simp only [mkDaughters, Gen.Division.targetD1, Gen.Division.targetD2, lit_two]
  ring

/-- the daughters have the mother's type -/
theorem type_preserved (mother : PCell R) (s1 s2 : List Tri) :
    (mkDaughters mother s1 s2).1.kind = mother.kind ∧ (mkDaughters mother s1 s2).2.kind = mother.kind := ⟨rfl, rfl⟩

/-! ### ids -/

/-- **fresh ids**: the daughters of a round get the ids `ctr, ctr+1, …` in order, two per division -/
theorem ids_fresh (outcome : Nat → PCell R → Option (List Tri × List Tri)) (pop : List (PCell R)) (ctr : Nat) :
    let r := runLoop outcome pop 0 ctr
    r.2.2.1.map (·.id) = List.range' ctr (2 * r.2.1.length) ∧ r.2.2.1.length = 2 * r.2.1.length := by
  have h := runLoop_ids outcome pop 0 ctr
  refine ⟨h.1, ?_⟩
  have := congrArg List.length h.1
  simpa using this

/-- the counter is advanced by two per successful division -/
theorem counter_advance (outcome : Nat → PCell R → Option (List Tri × List Tri)) (pop : List (PCell R)) (ctr : Nat) :
    (runRound outcome pop ctr).2 = ctr + 2 * (runLoop outcome pop 0 ctr).2.1.length := by
  unfold runRound
  simp only
  split <;> exact (runLoop_ids outcome pop 0 ctr).2

/-- **the id invariant survives every round**: ids pairwise different and below the counter, whatever divides -/
theorem ids_fresh_round (outcome : Nat → PCell R → Option (List Tri × List Tri)) (pop : List (PCell R)) (ctr : Nat)
    (h : IdInv pop ctr) : IdInv (runRound outcome pop ctr).1 (runRound outcome pop ctr).2 := by
  have hall := idInv_all outcome pop ctr h
  unfold runRound
  simp only
  split
  · exact hall
  · exact idInv_renumber (idInv_sublist hall (removeIdx_sublist _ _))

/-! ### failure -/

/-- the renumbering performed by `rebase` is injective on the nodes in use -/
theorem rank_injOn (T : List Tri) : Set.InjOn (rank T) (vertsF T : Set Nat) := Division.rank_injOn T

/-- so a rebased surface still satisfies the surface invariant and has the same Euler characteristic -/
theorem rebase_inv {T : List Tri} (h : Inv T) : Inv (rebaseT T) ∧ (rebaseT T).length = T.length := by
  rw [rebaseT_eq]
  exact ⟨Surface.rename_inv _ (Division.rank_injOn T) h, rename_length _ _⟩

/-- **when no division can be completed, the population is unchanged**: same list in the same order, same ids, same
    counter, same local ids; the cells that tried are only rebased (node ids renamed injectively) -/
theorem failure_leaves_population (outcome : Nat → PCell R → Option (List Tri × List Tri))
    (hf : ∀ i c, outcome i c = none) (pop : List (PCell R)) (ctr : Nat) :
    runRound outcome pop ctr = (pop.map (fun c => if c.ready then rebaseC c else c), ctr) := by
  unfold runRound
  rw [runLoop_fail outcome hf]
  simp

/-- **in any round, a cell that does not divide survives untouched** (rebased if it tried): whatever the other cells do -/
theorem round_survivors (outcome : Nat → PCell R → Option (List Tri × List Tri)) (pop : List (PCell R)) (ctr : Nat)
    (j : Nat) (c : PCell R) (hj : pop[j]? = some c) (hno : c.ready = false ∨ outcome j (rebaseC c) = none) :
    ∃ c' ∈ (runRound outcome pop ctr).1, c'.id = c.id ∧ c'.kind = c.kind ∧ c'.target = c.target ∧
      c'.surf = (if c.ready then rebaseT c.surf else c.surf) ∧ c'.tag = c.tag := by
  have hcells := (runLoop_cells outcome pop 0 ctr).1
  have hdels := (runLoop_cells outcome pop 0 ctr).2
  -- the cell in place
  have hstep : stepCell outcome j c = (if c.ready then rebaseC c else c) := by
    rcases hno with h | h
    · have : ¬ c.ready = true := by simp [h]
      rw [stepCell_idle this, if_neg this]
    · by_cases hr : c.ready = true
      · rw [stepCell_none hr h, if_pos hr]
      · rw [stepCell_idle hr, if_neg hr]
  have hget : (runLoop outcome pop 0 ctr).1[j]? = some (stepCell outcome j c) := by
    rw [hcells, List.getElem?_map, List.getElem?_zipIdx, hj]
    simp
  have hnot : j ∉ (runLoop outcome pop 0 ctr).2.1 := by
    rw [hdels]
    intro hm
    obtain ⟨q, hq, hq2⟩ := List.mem_map.1 hm
    obtain ⟨hq1, hs⟩ := List.mem_filter.1 hq
    have := List.mem_zipIdx_iff_getElem?.1 hq1
    rw [hq2, hj] at this
    cases this
    rw [hq2] at hs
    unfold Division.succeeds at hs
    rcases hno with h | h
    · rw [h] at hs; simp at hs
    · rw [h] at hs; simp at hs
  have hfields : (stepCell outcome j c).id = c.id ∧ (stepCell outcome j c).kind = c.kind ∧
      (stepCell outcome j c).target = c.target ∧
      (stepCell outcome j c).surf = (if c.ready then rebaseT c.surf else c.surf) ∧ (stepCell outcome j c).tag = c.tag := by
    rw [hstep]
    by_cases hr : c.ready = true
    · simp [hr, rebaseC]
    · simp [hr]
  have hall : ((runLoop outcome pop 0 ctr).1 ++ (runLoop outcome pop 0 ctr).2.2.1)[j]? = some (stepCell outcome j c) := by
    have hlt : j < (runLoop outcome pop 0 ctr).1.length := by
      by_contra hge
      rw [List.getElem?_eq_none (Nat.le_of_not_lt hge)] at hget
      cases hget
    rw [List.getElem?_append_left hlt]; exact hget
  unfold runRound
  simp only
  split
  · exact ⟨_, List.mem_of_getElem? hall, hfields⟩
  · obtain ⟨y, hy, h1, h2, h3, h4, h5⟩ := mem_renumber (mem_removeIdx hall hnot)
    exact ⟨y, hy, h1.trans hfields.1, h2.trans hfields.2.1, h3.trans hfields.2.2.1, h4.trans hfields.2.2.2.1,
      h5.trans hfields.2.2.2.2⟩

/-! ### the rotation -/

/-- `w² + i² + j² + k² = 1 → M Mᵀ = 1` for the matrix of `quaternion::to_matrix` -/
theorem quat_matrix_orthogonal (w i j k : R) (h : w * w + i * i + j * j + k * k = 1) :
    let M := Gen.Division.quatToMatrix (w, i, j, k)
    V3.dot M.1 M.1 = 1 ∧ V3.dot M.1 M.2.1 = 0 ∧ V3.dot M.1 M.2.2 = 0 ∧
    V3.dot M.2.1 M.2.1 = 1 ∧ V3.dot M.2.1 M.2.2 = 0 ∧ V3.dot M.2.2 M.2.2 = 1 :=
  quat_rows_orthonormal w i j k h

/-- … and `Mᵀ M = 1` -/
theorem quat_matrix_orthogonal_cols (w i j k : R) (h : w * w + i * i + j * j + k * k = 1) :
    let M := Gen.Division.matTranspose (Gen.Division.quatToMatrix (w, i, j, k))
    V3.dot M.1 M.1 = 1 ∧ V3.dot M.1 M.2.1 = 0 ∧ V3.dot M.1 M.2.2 = 0 ∧
    V3.dot M.2.1 M.2.1 = 1 ∧ V3.dot M.2.1 M.2.2 = 0 ∧ V3.dot M.2.2 M.2.2 = 1 :=
  quat_cols_orthonormal w i j k h

/-- **the orientation step** of `map_points_to_xy_plane` (`plane_normal = (n.dz() < 0.) ? n * (-1.) : n`, regenerated): the
    normal the rotation is built from has a third component `≥ 0` … -/
theorem plane_normal_nonneg (n : V3 R) : 0 ≤ (Gen.Division.planeNormalOf n).z :=
  Division.plane_normal_nonneg n

/-- … and is `n` or `−n`: same length, same plane `{x : n·x = 0}` -/
theorem plane_normal_same_plane (n : V3 R) :
    (Gen.Division.planeNormalOf n = n ∨ Gen.Division.planeNormalOf n = ⟨-n.x, -n.y, -n.z⟩) ∧
    V3.normSq (Gen.Division.planeNormalOf n) = V3.normSq n ∧
    ∀ x : V3 R, V3.dot (Gen.Division.planeNormalOf n) x = 0 ↔ V3.dot n x = 0 :=
  ⟨by rcases Division.planeNormalOf_cases n with ⟨_, e⟩ | ⟨_, e⟩
      · exact Or.inr e
      · exact Or.inl e,
   Division.plane_normal_normSq n, Division.plane_normal_same_plane n⟩

/-- **the quaternion of the code is never singular**: for every unit division normal (whichever sign the eigen-solver
    returned) `w = 1 + plane_normal·z ≥ 1 > 0` and the squared norm handed to `normalize` is `≥ 2` -/
theorem quat_never_singular (n : V3 R) (hn : V3.normSq n = 1) :
    let q := Gen.Division.quatOfNormal (Gen.Division.planeNormalOf n)
    1 ≤ q.1 ∧ 2 ≤ q.1 * q.1 + q.2.1 * q.2.1 + q.2.2.1 * q.2.2.1 + q.2.2.2 * q.2.2.2 :=
  Division.quat_never_singular n hn

/-- **`n` unit → `M plane_normal = z`, and `M` maps the division plane `{x : n·x = 0}` into the xy plane** — for EVERY unit
    `n`, no exception (`M` = the rotation `map_points_to_xy_plane` builds from the quaternion of `plane_normal`; `sqrt` exact
    on the squared norm of the quaternion).  Before the orientation step this needed `n ≠ −z` -/
theorem quat_maps_normal (fn : Fn R) (n : V3 R) (hn : V3.normSq n = 1)
    (hs : fn.sqrt (2 * (1 + (Gen.Division.planeNormalOf n).z)) * fn.sqrt (2 * (1 + (Gen.Division.planeNormalOf n).z))
      = 2 * (1 + (Gen.Division.planeNormalOf n).z)) :
    let M := Gen.Division.quatToMatrix (Gen.Division.quatNormalize fn (Gen.Division.quatOfNormal (Gen.Division.planeNormalOf n)))
    Gen.Division.matDot M (Gen.Division.planeNormalOf n) = ⟨0, 0, 1⟩ ∧
    ∀ x : V3 R, V3.dot n x = 0 → (Gen.Division.matDot M x).z = 0 :=
  ⟨Division.quat_maps_plane_normal fn n hn hs, fun x hx => Division.quat_maps_plane fn n hn hs x hx⟩

/-- the same for the rotation the MODEL of `map_points_to_xy_plane` uses (`Division.rotationOf`: orientation step, identity
    shortcut, else quaternion): every unit normal, both branches -/
theorem rotation_maps_plane (fn : Fn R) (n : V3 R) (hn : V3.normSq n = 1)
    (hs : fn.sqrt (2 * (1 + (Gen.Division.planeNormalOf n).z)) * fn.sqrt (2 * (1 + (Gen.Division.planeNormalOf n).z))
      = 2 * (1 + (Gen.Division.planeNormalOf n).z)) :
    Gen.Division.matDot (rotationOf fn n) (Gen.Division.planeNormalOf n) = ⟨0, 0, 1⟩ ∧
    ∀ x : V3 R, V3.dot n x = 0 → (Gen.Division.matDot (rotationOf fn n) x).z = 0 := by
  unfold rotationOf
  simp only
  split
  · rename_i h
    have hp := Division.identity_case_sound _ ((Division.plane_normal_normSq n).trans hn) h
    have hid : ∀ v : V3 R, Gen.Division.matDot identity33 v = v := by
      intro v
      apply V3.ext' <;> simp only [identity33, Gen.Division.matDot, lit_one, lit_zero] <;> ring
    refine ⟨by rw [hid, hp], fun x hx => ?_⟩
    rw [hid]
    have h0 := (Division.plane_normal_same_plane n x).2 hx
    rw [hp] at h0
    simp only [V3.dot_def] at h0
    linarith
  · exact ⟨Division.quat_maps_plane_normal fn n hn hs, fun x hx => Division.quat_maps_plane fn n hn hs x hx⟩

/-- non-vacuity at the direction that used to be singular: over ℚ, `n = −z` is a unit normal, its `plane_normal` is `z`, and
    `sqrt` (here `sqrt 4 = 2`) is exact on the squared norm of the quaternion — every hypothesis of `quat_maps_normal` /
    `rotation_maps_plane` holds there -/
example : ∃ (fn : Fn ℚ) (n : V3 ℚ), n = ⟨0, 0, -1⟩ ∧ V3.normSq n = 1 ∧ Gen.Division.planeNormalOf n = ⟨0, 0, 1⟩ ∧
    fn.sqrt (2 * (1 + (Gen.Division.planeNormalOf n).z)) * fn.sqrt (2 * (1 + (Gen.Division.planeNormalOf n).z))
      = 2 * (1 + (Gen.Division.planeNormalOf n).z) := by
  have h : Gen.Division.planeNormalOf (⟨0, 0, -1⟩ : V3 ℚ) = ⟨0, 0, 1⟩ := by
    rcases Division.planeNormalOf_cases (⟨0, 0, -1⟩ : V3 ℚ) with ⟨_, e⟩ | ⟨h, _⟩
    · rw [e]; norm_num
    · exact absurd (by norm_num) h
  refine ⟨⟨fun _ => 2, id, id, id, fun _ => 0⟩, ⟨0, 0, -1⟩, rfl, by norm_num [V3.normSq_def], h, ?_⟩
  rw [h]; norm_num

/-- **the rotation does not depend on the sign of the division normal** (the sign an eigen-solver returns is arbitrary): `n`
    and `−n` give the same `plane_normal`, hence the same matrix, whenever `n` is not parallel to the xy plane -/
theorem rotation_sign_independent (fn : Fn R) (n : V3 R) (hz : n.z ≠ 0) :
    Gen.Division.planeNormalOf (⟨-n.x, -n.y, -n.z⟩ : V3 R) = Gen.Division.planeNormalOf n ∧
    rotationOf fn (⟨-n.x, -n.y, -n.z⟩ : V3 R) = rotationOf fn n := by
  have h := Division.planeNormalOf_neg n hz
  refine ⟨h, ?_⟩
  unfold rotationOf
  rw [h]

/-- the RAW construction `(1 + p·z, p×z)` (what `Gen.Division.quatOfNormal` is, as a function of the vector it is given) maps a
    unit `p ≠ −z` to `z` … -/
theorem quat_maps_normal_raw (fn : Fn R) (n : V3 R) (hn : V3.normSq n = 1) (hne : n ≠ ⟨0, 0, -1⟩)
    (hs : fn.sqrt (2 * (1 + n.z)) * fn.sqrt (2 * (1 + n.z)) = 2 * (1 + n.z)) :
    Gen.Division.matDot (Gen.Division.quatToMatrix (Gen.Division.quatNormalize fn (Gen.Division.quatOfNormal n))) n = ⟨0, 0, 1⟩ :=
  Division.quat_maps_normal fn n hn hne hs

/-- … and vanishes exactly at `p = −z` … -/
theorem quat_norm_zero_iff (n : V3 R) (hn : V3.normSq n = 1) :
    (let q := Gen.Division.quatOfNormal n
     q.1 * q.1 + q.2.1 * q.2.1 + q.2.2.1 * q.2.2.1 + q.2.2.2 * q.2.2.2 = 0) ↔ n = ⟨0, 0, -1⟩ :=
  Division.quat_norm_zero_iff n hn

/-- … where `normalize` would divide every component by `sqrt 0` (0/0 in floating point).  A statement about the raw
    construction only: the code hands it `plane_normal`, which is never `−z` (second part; see `quat_never_singular`).  On a
    tree WITHOUT the orientation step this was the reason why a cell with axis `−z` did not divide
    (known finding `C14:division-depends-on-the-sign-of-the-eigenvector`) -/
theorem quat_degenerate (fn : Fn R) :
    (Gen.Division.quatOfNormal (⟨0, 0, -1⟩ : V3 R) = (0, 0, 0, 0) ∧
     Gen.Division.quatNormalize fn (Gen.Division.quatOfNormal (⟨0, 0, -1⟩ : V3 R))
       = (0 / fn.sqrt 0, 0 / fn.sqrt 0, 0 / fn.sqrt 0, 0 / fn.sqrt 0)) ∧
    ∀ n : V3 R, Gen.Division.planeNormalOf n ≠ ⟨0, 0, -1⟩ :=
  ⟨Division.quat_degenerate fn, Division.plane_normal_ne_minus_z⟩

/-- the identity shortcut of the code is taken only when `plane_normal = z`, i.e. for the two normals `±z` of the xy plane -/
theorem identity_case_sound (n : V3 R) (hn : V3.normSq n = 1)
    (h : Gen.Division.isIdentityCase (Gen.Division.planeNormalOf n) = true) :
    Gen.Division.planeNormalOf n = ⟨0, 0, 1⟩ ∧ (n = ⟨0, 0, 1⟩ ∨ n = ⟨0, 0, -1⟩) :=
  Division.identity_case_normal n hn h

/-- plane → xy plane → plane is the identity on points of the plane, for the rotation of any unit quaternion -/
theorem map_roundtrip (w i j k : R) (h : w * w + i * i + j * j + k * k = 1) (x t : V3 R) :
    let M := Gen.Division.quatToMatrix (w, i, j, k)
    let y := Gen.Division.matDot M (⟨x.x + t.x, x.y + t.y, x.z + t.z⟩ : V3 R)
    y.z = 0 → Gen.Division.mapBackPoint (Gen.Division.matTranspose M) t (⟨y.x, y.y, Gen.Division.zeroedAfterRotation⟩ : V3 R) = x :=
  Division.map_roundtrip w i j k h x t
end field3

/-! ### the shape of the code the model follows (regenerated from the source) -/

/-- `cell_divider::run`: the mother is cleared, recorded and replaced only inside `if(division_result.has_value())` -/
theorem run_events_as_modelled :
    Gen.Division.runEvents = ["ready", "divide", "success", "clear", "record", "id1", "id2", "push1", "push2", "remove", "renumber"] ∧
    Gen.Division.idAssign 7 = (7, 8, 9) := by decide

/-- `divide_cell`: the order of the stages inside its single try block -/
theorem stage_order_as_modelled :
    Gen.Division.stageOrder = ["rebase", "centroid", "axis", "addpts", "divfaces", "coarse", "mapxy", "tri", "mapback",
      "daughters", "refine1", "refine2", "target1", "target2", "rebase1", "rebase2"] ∧
    Gen.Division.windD1 = (0, 2, 1) ∧ Gen.Division.windD2 = (0, 1, 2) ∧ Gen.Division.removeFromD1WhenSide = true ∧
    Gen.Division.div5Size = 5 := by decide

/-! ### non-vacuity -/

instance (T : List Tri) : Decidable (NonDeg T) := by unfold NonDeg; infer_instance
instance (T : List Tri) : Decidable (Simple T) := by unfold Simple; infer_instance
instance (T : List Tri) : Decidable (Closed T) := by unfold Closed; infer_instance

/-- octahedron cut by the plane `z = 0` through its four equatorial nodes 0..3 (apexes 4, 5): upper half, lower half, and a
    two-triangle interface; all hypotheses of `daughters_inv` hold and its conclusion is observed -/
def octUp : List Tri := [(0, 2, 4), (2, 1, 4), (1, 3, 4), (3, 0, 4)]
def octDown : List Tri := [(2, 0, 5), (1, 2, 5), (3, 1, 5), (0, 3, 5)]
def octD : List Tri := [(0, 3, 1), (0, 1, 2)]

theorem nonvacuous :
    Inv (octDown ++ octUp) ∧ bdM octD = (bdM octUp).map Prod.swap ∧ NonDeg octD ∧ Simple octD ∧
    (∀ e ∈ heM octD, e ∉ heM octUp) ∧ (∀ e ∈ heM octD, e.swap ∉ heM octDown) ∧
    Inv (octUp ++ octD) ∧ Inv (octDown ++ opT octD) ∧
    -- the cut of one triangle by the model functions: points 3 (on 0–1) and 4 (on 1–2) inserted, then divide_faces
    (addPointToFaceL [0, 1, 2] 0 1 3 = some [0, 3, 1, 2]) ∧ (addPointToFaceL [0, 3, 1, 2] 2 1 4 = some [0, 3, 1, 4, 2]) ∧
    (divideFacesL 3 [[0, 3, 1, 4, 2]] = .ok ([], [[3, 1, 4], [0, 3, 4], [0, 4, 2]])) ∧ Wf5 3 [0, 3, 1, 4, 2] ∧
    -- ids of a round with two successes out of three cells
    ((Gen.Division.idAssign 10).1 = 10 ∧ (Gen.Division.idAssign 10).2.1 = 11 ∧ (Gen.Division.idAssign 10).2.2 = 12) := by
  refine ⟨⟨by decide, by decide, by decide⟩, by decide, by decide, by decide, by decide, by decide,
    ⟨by decide, by decide, by decide⟩, ⟨by decide, by decide, by decide⟩, by decide, by decide, by decide, ?_, by decide⟩
  intro _
  exact ⟨1, 3, by decide, by decide, ⟨Or.inl rfl, by decide⟩⟩

end Simu.C09
