import SimuVerif.Properties.C02
import SimuVerif.Properties.C05
import SimuVerif.Properties.C12
import SimuVerif.Gen.Integrator
import SimuVerif.Gen.RemeshConsts
/-
  C14 — simulation results do not depend on where the tissue is placed in space.

  Exact arithmetic.  (1) A generic fact: a pipeline whose stages all commute with the translation, iterated any
  number of times, commutes with it, and every translation-invariant observable (volumes, pressures, connectivity,
  cell count) has the same value in both runs.  (2) The stage facts, each about code REGENERATED from the C++ on
  every run: the contact kernel (C05), the internal forces (C02), volume / area / centroid / normals (C12), every
  per-node block of the time integrator (all six compile-time configurations), the length test and the new-node
  position of the remeshing operations.  What is missing for the full statement (`_partial`): the stages are not
  assembled into one executable model of `solver::run_iteration`; the broad phase re-anchors its grid (C06: the
  candidate SET changes, completeness does not); rounding is run-time only (tools/props/c14.py).
-/
namespace Simu.C14
open Simu

/-! ### generic composition -/
section generic
variable {S O : Type} (τ : S → S)

/-- the stage commutes with the translation -/
def Equivariant (f : S → S) : Prop := ∀ s, f (τ s) = τ (f s)
/-- the observable does not see the translation -/
def Invariant (obs : S → O) : Prop := ∀ s, obs (τ s) = obs s

theorem comp_equivariant {f g : S → S} (hf : Equivariant τ f) (hg : Equivariant τ g) : Equivariant τ (g ∘ f) := by
  intro s; simp only [Function.comp]; rw [hf s, hg]

theorem pipeline_equivariant (stages : List (S → S)) (h : ∀ f ∈ stages, Equivariant τ f) :
    Equivariant τ (stages.foldl (fun acc f => f ∘ acc) id) := by
  suffices H : ∀ (acc : S → S), Equivariant τ acc → Equivariant τ (stages.foldl (fun acc f => f ∘ acc) acc) from
    H id (fun _ => rfl)
  induction stages with
  | nil => intro acc ha; exact ha
  | cons f rest ih =>
    intro acc ha
    simp only [List.foldl]
    exact ih (fun g hg => h g (List.mem_cons_of_mem _ hg)) _ (comp_equivariant τ ha (h f List.mem_cons_self))

/-- **any number of iterations** -/
theorem iterate_equivariant {f : S → S} (hf : Equivariant τ f) (n : Nat) : Equivariant τ (f^[n]) := by
  induction n with
  | zero => intro s; rfl
  | succ k ih => intro s; simp only [Function.iterate_succ, Function.comp]; rw [hf s, ih]

/-- after the same number of iterations the translated run is the translate of the reference run -/
theorem run_translate (stages : List (S → S)) (h : ∀ f ∈ stages, Equivariant τ f) (n : Nat) (s : S) :
    ((stages.foldl (fun acc f => f ∘ acc) id)^[n]) (τ s) = τ (((stages.foldl (fun acc f => f ∘ acc) id)^[n]) s) :=
  iterate_equivariant τ (pipeline_equivariant τ stages h) n s

/-- … and every invariant observable (volumes, pressures, connectivity, cell count) is identical -/
theorem observable_same (stages : List (S → S)) (h : ∀ f ∈ stages, Equivariant τ f) (obs : S → O) (ho : Invariant τ obs)
    (n : Nat) (s : S) :
    obs (((stages.foldl (fun acc f => f ∘ acc) id)^[n]) (τ s)) = obs (((stages.foldl (fun acc f => f ∘ acc) id)^[n]) s) := by
  rw [run_translate τ stages h n s, ho]
end generic

/-! ### the stages -/
section stages
variable {R : Type} [Field R] [LinearOrder R] [IsStrictOrderedRing R]

/-- contact kernel -/
theorem kernel_translate (p a b c t : V3 R) :
    Gen.closestPt (p + t) (a + t) (b + t) (c + t) = Gen.closestPt p a b c := C05.translate_invariant p a b c t

/-- internal forces of a closed cell -/
theorem forces_translate (fx : FX R) (x : Nat → V3 R) (F : List Forces.Face) (p : Forces.Params R) (hc : Forces.Closed F) (t : V3 R) :
    Forces.internalContribs fx (fun i => x i + t) F p = Forces.internalContribs fx x F p :=
  C02.forces_translation_equivariant fx x F p hc t

theorem add_assoc_t (p u t : V3 R) : p + t + u = p + u + t := by
  apply V3.ext' <;> simp <;> ring

/-- every uncoupled per-node block of the integrator: the new position follows the translation, momentum and force
    accumulators are untouched by it -/
theorem node00_translate (dt damping m : R) (p q f t : V3 R) :
    Gen.node00 dt damping m (p + t) q f = ((Gen.node00 dt damping m p q f).1 + t, (Gen.node00 dt damping m p q f).2) := by
  simp only [Gen.node00, add_assoc_t]
theorem node01_translate (dt damping m : R) (p q f t : V3 R) :
    Gen.node01 dt damping m (p + t) q f = ((Gen.node01 dt damping m p q f).1 + t, (Gen.node01 dt damping m p q f).2) := by
  simp only [Gen.node01, add_assoc_t]
theorem single10_translate (dt damping m : R) (p q f t : V3 R) :
    Gen.single10 dt damping m (p + t) q f = ((Gen.single10 dt damping m p q f).1 + t, (Gen.single10 dt damping m p q f).2) := by
  simp only [Gen.single10, add_assoc_t]
theorem single11_translate (dt damping m : R) (p q f t : V3 R) :
    Gen.single11 dt damping m (p + t) q f = ((Gen.single11 dt damping m p q f).1 + t, (Gen.single11 dt damping m p q f).2) := by
  simp only [Gen.single11, add_assoc_t]

/-- mutually coupled pair (contact model 1): both new positions follow the translation -/
theorem pair10_translate (dt damping m1 m2 : R) (p1 q1 f1 p2 q2 f2 t : V3 R) :
    Gen.pair10 dt damping m1 m2 (p1 + t) q1 f1 (p2 + t) q2 f2 =
      (((Gen.pair10 dt damping m1 m2 p1 q1 f1 p2 q2 f2).1.1 + t, (Gen.pair10 dt damping m1 m2 p1 q1 f1 p2 q2 f2).1.2),
       ((Gen.pair10 dt damping m1 m2 p1 q1 f1 p2 q2 f2).2.1 + t, (Gen.pair10 dt damping m1 m2 p1 q1 f1 p2 q2 f2).2.2)) := by
  simp only [Gen.pair10, add_assoc_t]
theorem pair11_translate (dt damping m1 m2 : R) (p1 q1 f1 p2 q2 f2 t : V3 R) :
    Gen.pair11 dt damping m1 m2 (p1 + t) q1 f1 (p2 + t) q2 f2 =
      (((Gen.pair11 dt damping m1 m2 p1 q1 f1 p2 q2 f2).1.1 + t, (Gen.pair11 dt damping m1 m2 p1 q1 f1 p2 q2 f2).1.2),
       ((Gen.pair11 dt damping m1 m2 p1 q1 f1 p2 q2 f2).2.1 + t, (Gen.pair11 dt damping m1 m2 p1 q1 f1 p2 q2 f2).2.2)) := by
  simp only [Gen.pair11, add_assoc_t]

/-- remeshing decisions: the squared edge length that is compared with l_min² / l_max² -/
theorem edge_length_translate (a b t : V3 R) : V3.normSq ((a + t) - (b + t)) = V3.normSq (a - b) := by
  simp only [V3.normSq_def, V3.sub_x, V3.sub_y, V3.sub_z, V3.add_x, V3.add_y, V3.add_z]; ring

/-- the new node of a split / collapse follows the translation (midpoint factor read from the source) -/
theorem new_node_translate (a b t : V3 R) :
    ((b + t) + (a + t)) * (Gen.splitConsts (R := R)).mid = (b + a) * (Gen.splitConsts (R := R)).mid + t := by
  apply V3.ext' <;> simp [Gen.splitConsts] <;> field_simp <;> ring

/-- volume (hence target volume growth, pressure, division trigger, removal) of a closed cell -/
theorem volume_translate (pos : Nat → V3 R) (T : List Geo.Tri) (hc : Geo.Closed T) (d : V3 R) :
    Geo.volume (fun i => pos i + d) T = Geo.volume pos T := C12.volume_translate pos T hc d
theorem area_translate (fn : Fn R) (pos : Nat → V3 R) (T : List Geo.Tri) (d : V3 R) :
    Geo.area fn (fun i => pos i + d) T = Geo.area fn pos T := C12.area_translate fn pos T d
theorem normal_translate (fn : Fn R) (pos : Nat → V3 R) (d : V3 R) (t : Geo.Tri) :
    Geo.faceNormal fn (fun i => pos i + d) t = Geo.faceNormal fn pos t := C12.normal_translate fn pos d t
end stages

/-! ### non-vacuity of the generic part: a toy pipeline of two equivariant stages over ℤ × ℤ -/
example : Equivariant (fun s : Int × Int => (s.1 + 5, s.2)) (fun s => (s.1 + s.2, s.2)) := by
  intro s; simp; omega

end Simu.C14
