import SimuVerif.Lemmas.C13_Gate
import SimuVerif.Lemmas.C13_Retry
import SimuVerif.Lemmas.C13_Poisson
import SimuVerif.Lemmas.C13_Coarse
import SimuVerif.Properties.C12
import Mathlib.Tactic.NormNum
/-
  C13 — initial surface reconstruction returns a faithful closed mesh or fails cleanly.

  What is proved here is the part of the property that does not depend on what the (randomised, opaque) reconstruction
  produces: WHATEVER mesh an attempt returns, the cell that `simulation_initializer::triangulate_surface` hands to the
  solver has passed `cell::initialize_cell_properties(true)`, and a mesh that passes is a closed, consistently and outward
  oriented triangulated surface of Euler characteristic 2 in which every edge belongs to exactly two triangles
  (`gate_sound`); otherwise, after at most `max_nb_tries` attempts, an initialisation exception is thrown
  (`tries_bounded`, `init_sound`).  Models: `Model/Gate.lean` (gate + retry loop, the edge set / flood fill / sign flip being
  the C12 model), `Model/Poisson.lean` (dart throwing on the C20 grid model); constants and the presence of each test of the
  gate are regenerated from the C++ on every run (`Gen/GateConsts.lean`, `Gen/Geometry.lean`, `Gen/Grid.lean`).

  The crux is topological (`spanning_tree_orientation_extends`): the flood fill only makes each face agree with the face it
  was reached from; that ALL adjacencies are then consistent is a theorem about surfaces with V − E + F = 2, proved here
  without any orientability hypothesis.  The test that the flood fill reached every face is what makes it applicable: it was
  missing in the code (a sphere plus a torus, or a sphere and a projective plane sharing a vertex, passed the gate) and is
  added by fixes/C13-gate-connectedness.diff; `Gen.Gate.checksConnected` / `checksNonDegenerate` record whether the source
  contains the tests, so that without them `gate_sound` no longer checks.

  NOT modelled: ball pivoting and hole filling (`recon` below is an arbitrary function of the attempt number), the
  clock-seeded uniform sampling (the dart-throwing theorem holds for every uniform cloud), floating-point rounding.
  NOT proved: that vertex links are single cycles (`Closed ∧ Simple ∧ NonDeg` is C01's surface invariant `Inv`); the
  geometric closeness to the input (run-time oracle in tools/props/c13.py).
-/
set_option linter.unusedSectionVars false
set_option linter.unusedVariables false
set_option linter.unusedSimpArgs false
namespace Simu.C13
open Simu Simu.Gate Simu.Gen.Gate Simu.Surface
open Simu.Geo hiding Tri HE heTri he Closed

/-! ## the acceptance gate -/
section gate
variable {R : Type} [Field R] [LinearOrder R] [IsStrictOrderedRing R]

/-- all node ids of the faces exist (`mesh_reader` refuses other files; ball pivoting numbers its own points) -/
def InRange (n : Nat) (T : List Tri) : Prop := ∀ t ∈ T, t.1 < n ∧ t.2.1 < n ∧ t.2.2 < n

/-- what the property demands of a cell that reaches the solver -/
structure Sound (pos : Nat → V3 R) (T : List Tri) : Prop where
  /-- no face uses a node twice -/
  nondeg : NonDeg T
  /-- every undirected edge lies in exactly two triangles -/
  two : ∀ k ∈ edgesF T, ((heM T).map normHE).count k = 2
  /-- V − E + F = 2 -/
  chi : chiZ T = 2
  /-- every half-edge is matched by its reverse: the two triangles of an edge traverse it in opposite directions -/
  closed : Closed T
  /-- no half-edge occurs twice -/
  simple : Simple T
  /-- the signed volume (6 ×) of the windings is not negative: the normals point outward -/
  outward : 0 ≤ volSum pos T

/-- **the topological core**: faces joined by a spanning tree of consistently oriented adjacencies, every edge in two
    faces, V − E + F = 2 ⟹ every adjacency is consistently oriented (no orientability hypothesis) -/
theorem spanning_tree_orientation_extends {T : List Tri} {rank parent A B : Nat → Nat}
    (H : Tree T rank parent A B) : Closed T ∧ Simple T := sphere_oriented H

/-- **relative winding** (`check_face_winding_order`): for EVERY pair of non-degenerate faces with a common undirected edge,
    in any of the 6 × 6 arrangements (also when they have all three nodes in common), the checked face leaves — kept or
    reversed — traversing a common edge against the reference face -/
theorem relative_winding {r c : Tri} (hr : TriND r) (hc : TriND c) {k : HE} (kr : k ∈ keys r) (kc : k ∈ keys c) :
    ∃ c', checkWinding r c = some c' ∧ (c' = c ∨ c' = swap13 c) ∧ ∃ a b, (a, b) ∈ dirs r ∧ (b, a) ∈ dirs c' :=
  winding_cons hr hc kr kc

/-- what `generate_edge_set` + `is_manifold` establish: every edge in exactly two face slots, and as many records as edges -/
theorem edge_set_sound {T : List Tri} {es : List EdgeRec} (h : genEdges T 0 [] = some es)
    (hall : es.all (fun e => e.2.2.isSome) = true) : EdgeTwo T ∧ es.length = (edgesF T).card :=
  ⟨edgeTwo_of_all (genEdges_inv0 h) hall, length_eq_edges (genEdges_inv0 h)⟩

/-- the faces an accepted mesh is handed on with form a face-connected surface: a spanning tree of adjacencies rooted at
    face 0 (this is what the test added by the fix establishes) -/
theorem gate_connected (pos : Nat → V3 R) (n : Nat) (T0 T' : List Tri) (hin : InRange n T0)
    (h : accept pos n T0 = .ok T') : ∃ rank parent A B, Tree T' rank parent A B :=
  (accept_tree pos n T0 T' hin h).1

/-- **gate_sound**: whatever mesh is presented, if `initialize_cell_properties(true)` accepts it, the faces it leaves behind
    are the presented faces up to reversal and form a closed, consistently and outward oriented surface with every edge in
    exactly two triangles and Euler characteristic 2 -/
theorem gate_sound (pos : Nat → V3 R) (n : Nat) (T0 T' : List Tri) (hin : InRange n T0)
    (h : accept pos n T0 = .ok T') : Sound pos T' ∧ Rew T' T0 := by
  obtain ⟨⟨rank, parent, A, B, ht⟩, hrew, F, hF⟩ := accept_tree pos n T0 T' hin h
  obtain ⟨hc, hs⟩ := sphere_oriented ht
  refine ⟨⟨ht.nd, ?_, ht.chi, hc, hs, ?_⟩, hrew⟩
  · intro k hk
    rcases ht.two k with h0 | h2
    · exact absurd (mem_edgesF'.mp hk) (Multiset.count_eq_zero.mp h0)
    · exact h2
  · rw [hF, ← C12.orient_sum_eq_volume_sum]
    exact (C12.flip_makes_nonneg pos F).1

/-- a mesh with a face that uses a node twice is refused with a mesh-integrity error -/
theorem gate_rejects_degenerate (pos : Nat → V3 R) (n : Nat) (T0 : List Tri) (h : ¬ NonDeg T0) :
    accept pos n T0 = .error .integrity := by
  unfold accept
  have : Gate.nonDegB T0 = false := by
    by_contra hb
    exact h (nonDeg_of_nonDegB (by simpa using hb))
  simp [this, show checksNonDegenerate = true from rfl]

end gate

/-! ## the retry loop -/
section retry
variable {R : Type} [Field R] [LinearOrder R] [IsStrictOrderedRing R]

/-- **tries_bounded**: the loop makes at most `maxTries` attempts; it returns the result of the first successful attempt
    (all earlier ones having thrown), or — when `maxTries` attempts have thrown — the failure exception; nothing else -/
theorem tries_bounded {ε α : Type} (fail : ε) (attempt : Nat → Except ε α) (maxTries : Nat) (hpos : 0 < maxTries) :
    (tries fail attempt maxTries).2 ≤ maxTries ∧
    ((∃ c, (tries fail attempt maxTries).1 = .ok (some c) ∧ 1 ≤ (tries fail attempt maxTries).2 ∧
        attempt ((tries fail attempt maxTries).2 - 1) = .ok c ∧
        ∀ j, j < (tries fail attempt maxTries).2 - 1 → ∃ e, attempt j = .error e) ∨
     ((tries fail attempt maxTries).1 = .error fail ∧ (tries fail attempt maxTries).2 = maxTries ∧
        ∀ j, j < maxTries → ∃ e, attempt j = .error e)) := by
  unfold tries
  obtain ⟨h1, h2, h3, h4, h5⟩ := triesLoop_spec fail attempt maxTries maxTries 0 (by omega)
  refine ⟨h1, ?_⟩
  cases hr : (triesLoop fail attempt maxTries maxTries 0).1 with
  | ok o =>
    cases o with
    | none => have := h4 hr; omega
    | some c =>
      left
      obtain ⟨g1, g2, g3⟩ := h3 c hr
      exact ⟨c, rfl, by omega, g2, fun j hj => g3 j (by omega) hj⟩
  | error e =>
    right
    obtain ⟨g1, g2, g3⟩ := h5 e hr
    exact ⟨by rw [g1], g2, fun j hj => g3 j (by omega) hj⟩

/-- the number of tries read from the source is positive -/
theorem max_nb_tries_pos : 0 < maxNbTries := by decide

theorem inRange_of_input {f : List (List Nat)} {n : Nat} (hv : ∀ g ∈ f, ∀ v ∈ g, v < n)
    (h3 : f.all (fun g => g.length == 3) = true) : InRange n (f.map triOfList) := by
  intro t ht
  obtain ⟨g, hg, rfl⟩ := List.mem_map.mp ht
  have hl : g.length = 3 := by simpa using List.all_eq_true.mp h3 g hg
  obtain ⟨a, b, c, rfl⟩ := len3 hl
  have := hv _ hg
  exact ⟨this a (by simp), this b (by simp), this c (by simp)⟩

/-- one attempt either throws or yields a cell whose faces have passed the gate -/
theorem attempt_sound (performTri : Bool) (typeId : Nat) (recon : Nat → Except Exc (TMesh R)) (input : PMesh R)
    (hrec : ∀ i m, recon i = .ok m → InRange m.n m.faces) (hinp : ∀ g ∈ input.faces, ∀ v ∈ g, v < input.n)
    (i : Nat) (c : TMesh R) (h : attempt performTri typeId recon input i = .ok c) : Sound c.pos c.faces := by
  unfold attempt at h
  simp only [bind, Except.bind] at h
  -- the mesh handed to the gate
  have key : ∀ m : TMesh R, InRange m.n m.faces →
      (if typeId > 4 then (Except.error Exc.initialisation : Except Exc (TMesh R)) else
        match accept m.pos m.n m.faces with
        | .error e => .error (Exc.ofInit e)
        | .ok T => .ok ⟨m.n, m.pos, T⟩) = .ok c → Sound c.pos c.faces := by
    intro m hm hh
    split_ifs at hh
    cases ha : accept m.pos m.n m.faces with
    | error e => simp [ha] at hh
    | ok T =>
      simp only [ha, Except.ok.injEq] at hh
      subst hh
      exact (gate_sound m.pos m.n m.faces T hm ha).1
  cases performTri with
  | true =>
    simp only [if_true] at h
    cases hr : recon i with
    | error e => simp [hr] at h
    | ok m => simp only [hr] at h; exact key m (hrec i m hr) h
  | false =>
    simp only [Bool.false_eq_true, if_false] at h
    cases h3 : input.faces.all (fun f => f.length == 3) with
    | false => simp [h3] at h
    | true =>
      simp only [h3, if_true] at h
      exact key ⟨input.n, input.pos, input.faces.map triOfList⟩ (inRange_of_input hinp h3) h

/-- **init_sound** — the property for one cell: for EVERY reconstruction (any function of the attempt number: every
    sampling outcome, every behaviour of ball pivoting, throwing or not), with initial triangulation enabled or not, for every
    cell type id, `simulation_initializer::triangulate_surface` either returns, after at most `max_nb_tries` attempts, a cell
    whose surface is `Sound`, or throws the initialisation exception after exactly `max_nb_tries` failed attempts.  It never
    returns anything else (in particular never a null cell, never a cell that did not pass the gate). -/
theorem init_sound (performTri : Bool) (typeId : Nat) (recon : Nat → Except Exc (TMesh R)) (input : PMesh R)
    (hrec : ∀ i m, recon i = .ok m → InRange m.n m.faces) (hinp : ∀ g ∈ input.faces, ∀ v ∈ g, v < input.n) :
    (∃ c, (initialise performTri typeId recon input).1 = .ok (some c) ∧
        (initialise performTri typeId recon input).2 ≤ maxNbTries ∧ Sound c.pos c.faces) ∨
    ((initialise performTri typeId recon input).1 = .error Exc.initialisation ∧
        (initialise performTri typeId recon input).2 = maxNbTries) := by
  unfold initialise
  obtain ⟨h1, h2⟩ := tries_bounded Exc.initialisation (attempt performTri typeId recon input) maxNbTries max_nb_tries_pos
  rcases h2 with ⟨c, hc, _, hatt, _⟩ | ⟨he, hk, _⟩
  · left
    exact ⟨c, hc, h1, attempt_sound performTri typeId recon input hrec hinp _ c hatt⟩
  · right; exact ⟨he, hk⟩

/-- an invalid cell type id can only end in the initialisation exception -/
theorem init_bad_type (performTri : Bool) (typeId : Nat) (ht : typeId > 4) (recon : Nat → Except Exc (TMesh R))
    (input : PMesh R) : ∀ i, ∃ e, attempt performTri typeId recon input i = .error e := by
  intro i
  unfold attempt
  simp only [bind, Except.bind]
  cases performTri <;> simp only [Bool.false_eq_true, if_false, if_true]
  · split_ifs
    · exact ⟨_, rfl⟩
    · exact ⟨_, rfl⟩
  · cases recon i with
    | error e => exact ⟨e, rfl⟩
    | ok m => simp only [ht, if_true]; exact ⟨_, rfl⟩

end retry

/-! ## Poisson sampling -/
section poisson
open Simu.C20 Simu.Poisson
variable {R : Type} [Field R] [LinearOrder R] [IsStrictOrderedRing R] [FloorRing R]

/-- **poisson_min_distance**: on grids whose voxel size is the one `compute_poisson_point_cloud` uses (read from the source),
    for every uniform cloud in the box of the cell, the points dart throwing accepts are pairwise at least `l_min` apart
    (`l_min² ≤ |a − b|²` for every two entries of the returned list) and are points of the cloud -/
theorem poisson_min_distance (fn : Fn R) (δ l_min : R) (mn mx : V3 R) (S : Setup fn δ (poissonVoxel fn l_min) mn mx)
    (hl : 0 < l_min) (cloud : List (V3 R)) (hin : ∀ p ∈ cloud, InBox mn mx p) :
    (poissonCloud fn δ (poissonVoxel fn l_min) l_min mn mx cloud).Pairwise (fun a b => l_min * l_min ≤ V3.normSq (a - b)) ∧
    ∀ p ∈ poissonCloud fn δ (poissonVoxel fn l_min) l_min mn mx cloud, p ∈ cloud := by
  have hv : l_min ≤ poissonVoxel fn l_min := by unfold poissonVoxel; exact le_refl _
  exact poissonCloud_far S hl.le hv cloud hin

/-- the same for any voxel size not below `l_min` (what the soundness needs of the grid) -/
theorem poisson_min_distance_of_voxel (fn : Fn R) (δ v l_min : R) (mn mx : V3 R) (S : Setup fn δ v mn mx)
    (hl : 0 ≤ l_min) (hv : l_min ≤ v) (cloud : List (V3 R)) (hin : ∀ p ∈ cloud, InBox mn mx p) :
    (poissonCloud fn δ v l_min mn mx cloud).Pairwise (fun a b => l_min * l_min ≤ V3.normSq (a - b)) :=
  (poissonCloud_far S hl hv cloud hin).1

/-- a candidate is accepted only if no point of the scanned neighbourhood is closer than `l_min` (strict `<` on squared
    distances, as in the source) -/
theorem dart_accept_far (lsq : R) (cand : V3 R) (l : List (V3 R)) (h : dartScan lsq cand l 0 = true) :
    ∀ q ∈ l, lsq ≤ V3.normSq (q - cand) := fun q hq => not_lt.mp (dartScan_true lsq cand l 0 h q hq)

end poisson

/-! ## coarse triangulation -/
section coarse
variable {R : Type} [Field R] [LinearOrder R] [IsStrictOrderedRing R]

/-- **coarse_triangulation_closed**: the fans keep the directed boundary edges of the polygons and add spokes in opposite
    pairs: a closed polygonal surface (faces of any size, any mix of triangles and polygons) becomes a closed triangulated one -/
theorem coarse_triangulation_closed (faces : List (List Nat)) (n : Nat) (h : ClosedP faces) :
    Closed (coarseFaces n faces) := coarse_closed faces n h

/-- … and a simple one stays simple (corner ids `< n`, no face repeats a corner, centres = new nodes `n, n+1, …`) -/
theorem coarse_triangulation_simple (faces : List (List Nat)) (n : Nat) (hv : ∀ f ∈ faces, ∀ v ∈ f, v < n)
    (hnd : ∀ f ∈ faces, f.Nodup) (h : SimpleP faces) : Simple (coarseFaces n faces) := coarse_simple faces n hv hnd h

/-- the half-edges after coarse triangulation, exactly -/
theorem coarse_triangulation_half_edges (faces : List (List Nat)) (n : Nat) :
    heM (coarseFaces n faces) = heP faces + spokes faces n := heM_coarse faces n

/-- **planar faces keep their signed volume**: the fan of a planar polygon around the mean of its corners contributes the
    same (6 ×) signed volume as the fan around any point `b` of the plane of the polygon (e.g. a corner) — in the loop of
    `compute_volume`, whose coordinates are relative to the reference point `o` of the whole surface, for EVERY `o`
    (`o = 0`: the un-centred determinants) -/
theorem coarse_triangulation_volume_planar (pos : Nat → V3 R) (f : List Nat) (c : Nat) (hne : f ≠ []) (b : V3 R)
    (hc : pos c = centre pos f) (hplanar : ∀ i ∈ f, V3.dot (pos i - b) (polyNormal pos f) = 0) (o : V3 R) :
    volSumAt pos o (fanTris f c) = fanSum (rel pos o) f (b - o) := by
  rw [volSumAt_fanTris, fanSum_rel, fanSum_rel, hc, fan_volume_planar pos f hne b hplanar]

/-- the surface that is sampled (the coarse triangulation of the input, through `convert_mesh_to_cell`) has passed the gate:
    it is closed and its windings — hence the normals given to the sample points and used by ball pivoting — point outward,
    whatever the windings of the input faces were.  (Needs the integrity tests in `convert_mesh_to_cell`:
    fixes/C13-coarse-mesh-orientation.diff; `Gen.Gate.coarseMeshChecked` records whether the source has them.) -/
theorem sampled_surface_outward (pos : Nat → V3 R) (nodes : Nat) (faces : List (List Nat)) (T : List Tri)
    (hin : InRange (nodes + (faces.filter (fun f => f.length != 3)).length) (coarseFaces nodes faces))
    (h : sampledSurface pos nodes faces = .ok T) : Sound pos T ∧ Rew T (coarseFaces nodes faces) := by
  unfold sampledSurface at h
  simp only [show coarseMeshChecked = true from rfl, if_true] at h
  exact gate_sound pos _ _ T hin h

end coarse

/-! ## non-vacuity: the hypotheses are satisfiable, the rejections real -/
section examples
open Simu.C20

/-- an octahedron with the faces 1, 4, 5 wound the wrong way round -/
def octaMixed : List Tri := [(0, 2, 4), (4, 1, 2), (1, 3, 4), (3, 0, 4), (2, 5, 0), (5, 2, 1), (3, 1, 5), (0, 3, 5)]
/-- what the flood fill makes of it -/
def octaFlood : List Tri := [(0, 2, 4), (2, 1, 4), (1, 3, 4), (3, 0, 4), (0, 5, 2), (1, 2, 5), (3, 1, 5), (0, 3, 5)]
def octaPos : Nat → V3 ℚ := fun i =>
  if i = 0 then ⟨1, 0, 0⟩ else if i = 1 then ⟨-1, 0, 0⟩ else if i = 2 then ⟨0, 1, 0⟩ else if i = 3 then ⟨0, -1, 0⟩
  else if i = 4 then ⟨0, 0, 1⟩ else ⟨0, 0, -1⟩

theorem octa_accepted : accept octaPos 6 octaMixed = .ok (finalFlip octaPos octaFlood) :=
  accept_ok_of_acceptD octaPos 6 octaMixed octaFlood (by decide)

/-- `gate_sound` applies: the accepted octahedron is `Sound` and a spanning tree exists -/
example : Sound octaPos (finalFlip octaPos octaFlood) :=
  (gate_sound octaPos 6 octaMixed _ (by unfold InRange; decide) octa_accepted).1
example : ∃ rank parent A B, Tree (finalFlip octaPos octaFlood) rank parent A B :=
  gate_connected octaPos 6 octaMixed _ (by unfold InRange; decide) octa_accepted

/-- the 7-vertex torus (14 triangles, χ = 0) on the nodes 6 … 12 -/
def torus7 : List Tri :=
  (List.range 7).flatMap fun i => [(6 + i, 6 + (i + 1) % 7, 6 + (i + 3) % 7), (6 + i, 6 + (i + 3) % 7, 6 + (i + 2) % 7)]

/-- a sphere plus a disjoint torus: every edge has two faces and V − E + F = (6 − 12 + 8) + (7 − 21 + 14) = 2, and yet it is
    refused — by the test that the flood fill reached every face (this is the input the unrepaired gate accepted) -/
theorem gate_rejects_sphere_plus_torus : acceptD 13 (octaMixed ++ torus7) = .error .notManifold := by decide
/-- … whichever component holds the seed face -/
example : acceptD 13 (torus7 ++ octaMixed) = .error .notManifold := by decide
/-- a torus alone fails the Euler test, two faces that repeat a node fail the integrity test -/
example : acceptD 13 torus7 = .error .notManifold := by decide
example : acceptD 3 [(0, 0, 1), (0, 0, 2)] = .error .integrity := by decide

/-- the retry loop: three failures, then a success at the fourth attempt; ten failures, then the exception -/
example : tries (ε := Nat) (α := Nat) 99 (fun i => if i < 3 then .error i else .ok (10 * i)) maxNbTries = (.ok (some 30), 4) := by decide
example : tries (ε := Nat) (α := Nat) 99 (fun i => .error i) maxNbTries = (.error 99, 10) := by decide

/-- the hypotheses of `poisson_min_distance` hold on C20's example box `[2,3]³` with `l_min = 1/4` -/
example : (Poisson.poissonCloud fnQ 0 (poissonVoxel fnQ (1/4)) (1/4) lo hi [⟨2, 2, 2⟩, ⟨5/2, 5/2, 5/2⟩, ⟨2, 2, 17/8⟩]).Pairwise
    (fun a b => (1/4 : ℚ) * (1/4) ≤ V3.normSq (a - b)) :=
  (poisson_min_distance fnQ 0 (1/4) lo hi setupQ (by norm_num) _ (by
    intro p hp
    simp only [List.mem_cons, List.mem_nil_iff, or_false] at hp
    rcases hp with rfl | rfl | rfl <;> (unfold InBox lo hi; norm_num))).1

/-- a cube given by its six quadrilaterals is a closed, simple polygonal surface; so is its coarse triangulation -/
def cubeQuads : List (List Nat) := [[0, 3, 2, 1], [4, 5, 6, 7], [0, 1, 5, 4], [1, 2, 6, 5], [2, 3, 7, 6], [3, 0, 4, 7]]
example : Closed (coarseFaces 8 cubeQuads) := coarse_triangulation_closed cubeQuads 8 (by unfold ClosedP; decide)
example : Simple (coarseFaces 8 cubeQuads) :=
  coarse_triangulation_simple cubeQuads 8 (by decide) (by decide) (by unfold SimpleP; decide)
/-- and the gate accepts it (24 triangles, 14 nodes) -/
example : ((acceptD 14 (coarseFaces 8 cubeQuads)).toOption).isSome = true := by decide

end examples

end Simu.C13
