import SimuVerif.Lemmas.C11_Remesh
/-
  C11 — what a refinement pass (`local_mesh_refiner::refine_mesh`) does to the physical state.

  All theorems are about the executable model `Model/Remesh.lean` (compared state-for-state with the C++ by the
  correspondence harness) in exact arithmetic, with the momentum fractions and the midpoint factor READ FROM the
  generated `Gen.splitConsts` — a changed fraction in `split_edge` re-opens `split_momentum_local`.

  * local laws: `split_momentum_local`, `merge_momentum_local`, `new_node_midpoint`, `new_node_equidistant`,
    `split_area_vec`, `split_area_normSq`, `split_area_sum`;
  * node store: `totalMom` (sum of `mom` over the used slots), the slot-store invariant `FreeOk`, its preservation
    (`addNode_freeOk`, `deleteNode_freeOk`, `splitEdge_freeOk`, `mergeEdge_freeOk`), conservation
    (`splitEdge_totalMom`, `mergeEdge_totalMom`), and `survivors_unmoved_split/merge`, `split_new_node_pos`,
    `merge_new_node_pos`;
  * whole pass: `passOps` (the trace of operations), `refineMesh_preserves` (induction principle),
    `refineMesh_totalMom`, `refineMesh_survivors_unmoved`; the swap pass leaves the node store alone
    (`sameNodes_removeElongated`);
  * control: `loop_selective`/`refineMesh_selective`, `conforming_fixpoint`, `noop_step_*`, `split_step`,
    `merge_step`, `loop_stops`, `termination_partial`;
  * non-vacuity: a unit tetrahedron over ℚ with nonzero momenta, evaluated by the kernel (`decide +kernel`,
    no `native_decide`): a pass with three splits, a single split, a single collapse, a conforming pass.

  NOT covered here: that the triangles a split creates inherit the face type (needs a free-list invariant for
  the FACE slots, analogous to `FreeOk`); the enclosed-volume half of "volume and area change only through
  collapses and swaps" is `C01.split_volume`, the area half is `split_area_sum`.
-/
set_option linter.unusedSectionVars false
set_option linter.unusedVariables false
namespace Simu.C11
open Simu Simu.Remesh

variable {R : Type} [Field R] [LinearOrder R] [IsStrictOrderedRing R]

/-! ### 1. local momentum laws (constants read from the generated file) -/

/-- the fractions of `split_edge` add up: each end keeps `keep`, the new node gets `1/giveDiv` of the sum -/
theorem split_fractions (x y : R) :
    x * (Gen.splitConsts (R := R)).keep + y * (Gen.splitConsts (R := R)).keep
      + (x + y) / (Gen.splitConsts (R := R)).giveDiv = x + y := by
  simp only [Gen.splitConsts, lit_two, lit_three]
  field_simp
  ring

/-- **split**: the momenta of the two end nodes after the split plus the momentum given to the new node equal
    the momenta of the two end nodes before it -/
theorem split_momentum_local (ma mb : V3 R) :
    ma * (Gen.splitConsts (R := R)).keep + mb * (Gen.splitConsts (R := R)).keep
      + (ma + mb) / (Gen.splitConsts (R := R)).giveDiv = ma + mb := by
  apply V3.ext' <;>
    simp only [V3.add_x, V3.add_y, V3.add_z, V3.smul_x, V3.smul_y, V3.smul_z, V3.sdiv_x, V3.sdiv_y, V3.sdiv_z] <;>
    exact split_fractions _ _

/-- **merge**: the new node gets `ma + mb`, both old nodes are reset to zero (`node::reset`) -/
theorem merge_momentum_local (ma mb : V3 R) :
    (ma + mb) + (zeroV : V3 R) + (zeroV : V3 R) = ma + mb := by
  apply V3.ext' <;> simp [zeroV]

/-! ### 2. the new node is the midpoint of the edge -/

theorem new_node_midpoint (a b : V3 R) :
    (b + a) * (Gen.splitConsts (R := R)).mid = a + (b - a) * ((1 : R) / 2) := by
  apply V3.ext' <;>
    simp only [Gen.splitConsts, lit_one, lit_two, V3.add_x, V3.add_y, V3.add_z, V3.sub_x, V3.sub_y, V3.sub_z,
      V3.smul_x, V3.smul_y, V3.smul_z] <;> ring

/-- the new node is equidistant from both ends, lies on the line through them, and is at half the edge length
    (a quarter in squared length) from each end -/
theorem new_node_equidistant (a b : V3 R) :
    V3.normSq ((b + a) * (Gen.splitConsts (R := R)).mid - a) = V3.normSq ((b + a) * (Gen.splitConsts (R := R)).mid - b)
    ∧ V3.cross ((b + a) * (Gen.splitConsts (R := R)).mid - a) (b - a) = zeroV
    ∧ V3.normSq ((b + a) * (Gen.splitConsts (R := R)).mid - a) * 4 = V3.normSq (b - a) := by
  refine ⟨?_, ?_, ?_⟩
  · simp only [Gen.splitConsts, lit_one, lit_two, V3.normSq_def, V3.add_x, V3.add_y, V3.add_z, V3.sub_x, V3.sub_y,
      V3.sub_z, V3.smul_x, V3.smul_y, V3.smul_z]
    ring
  · apply V3.ext' <;>
      simp only [Gen.splitConsts, zeroV, lit_zero, lit_one, lit_two, V3.add_x, V3.add_y, V3.add_z,
        V3.sub_x, V3.sub_y, V3.sub_z, V3.smul_x, V3.smul_y, V3.smul_z] <;> ring
  · simp only [Gen.splitConsts, lit_one, lit_two, V3.normSq_def, V3.add_x, V3.add_y, V3.add_z, V3.sub_x, V3.sub_y,
      V3.sub_z, V3.smul_x, V3.smul_y, V3.smul_z]
    ring

/-! ### 3. the two halves of a split triangle have parallel normals of half the length -/

theorem split_area_vec (a b c : V3 R) :
    V3.cross (a - c) ((b + a) * (Gen.splitConsts (R := R)).mid - c) = V3.cross (a - c) (b - c) * ((1 : R) / 2)
    ∧ V3.cross ((b + a) * (Gen.splitConsts (R := R)).mid - c) (b - c) = V3.cross (a - c) (b - c) * ((1 : R) / 2) := by
  constructor <;> apply V3.ext' <;>
    simp only [Gen.splitConsts, lit_one, lit_two, V3.cross_def, V3.add_x, V3.add_y, V3.add_z,
      V3.sub_x, V3.sub_y, V3.sub_z, V3.smul_x, V3.smul_y, V3.smul_z] <;> ring

theorem normSq_smul (v : V3 R) (t : R) : V3.normSq (v * t) = V3.normSq v * (t * t) := by
  simp only [V3.normSq_def, V3.smul_x, V3.smul_y, V3.smul_z]; ring

/-- squared doubled areas: each half has a quarter of the squared normal length -/
theorem split_area_normSq (a b c : V3 R) :
    V3.normSq (V3.cross (a - c) ((b + a) * (Gen.splitConsts (R := R)).mid - c)) * 4
      = V3.normSq (V3.cross (a - c) (b - c))
    ∧ V3.normSq (V3.cross ((b + a) * (Gen.splitConsts (R := R)).mid - c) (b - c)) * 4
      = V3.normSq (V3.cross (a - c) (b - c)) := by
  obtain ⟨h1, h2⟩ := split_area_vec a b c
  rw [h1, h2, normSq_smul]
  constructor <;> ring

/-- the areas computed by `update_face_normal_and_area` for the two halves add up to the area of the split
    triangle, for every square-root function that is homogeneous (`sqrt (t/4) = sqrt t / 2`, true of the real one) -/
theorem split_area_sum (fn : Fn R) (hs : ∀ t : R, fn.sqrt (t * (1 / 2 * ((1 : R) / 2))) = fn.sqrt t * ((1 : R) / 2)) (a b c : V3 R) :
    (normalArea fn c a ((b + a) * (Gen.splitConsts (R := R)).mid)).2
      + (normalArea fn c ((b + a) * (Gen.splitConsts (R := R)).mid) b).2 = (normalArea fn c a b).2 := by
  obtain ⟨h1, h2⟩ := split_area_vec a b c
  simp only [normalArea, h1, h2, normSq_smul, hs, lit_one, lit_two]
  ring

/-! ### 4. the node store -/

/-- **an edge split conserves the total momentum of the live nodes** (fractions read from `Gen.splitConsts`) -/
theorem splitEdge_totalMom {fn : Fn R} {c c' : Cell R} {e : Edge} {chk chk' : CheckSet}
    (h : splitEdge fn Gen.splitConsts c e chk = .ok (c', chk')) (hab : e.n1 ≠ e.n2)
    (h1 : UsedAt c e.n1) (h2 : UsedAt c e.n2) (hf : FreeOk c) : totalMom c' = totalMom c := by
  obtain ⟨na, nb, ha, hb, hs⟩ := splitEdge_nodes h
  obtain ⟨na', ha', hua⟩ := h1
  obtain ⟨nb', hb', hub⟩ := h2
  rw [ha] at ha'; cases ha'
  rw [hb] at hb'; cases hb'
  rw [totalMom_of_sameNodes hs]
  unfold totalMom
  rw [splitNodes_momC linProj_x _ split_fractions ha hb hua hub hab hf,
    splitNodes_momC linProj_y _ split_fractions ha hb hua hub hab hf,
    splitNodes_momC linProj_z _ split_fractions ha hb hua hub hab hf]

/-- **an edge collapse conserves the total momentum of the live nodes** (for any constants: the momentum rule of
    `merge_edge` uses none) -/
theorem mergeEdge_totalMom {fn : Fn R} {k : SplitConsts R} {c c' : Cell R} {e : Edge} {chk chk' : CheckSet}
    (h : mergeEdge fn k c e chk = .ok (c', chk')) (hab : e.n1 ≠ e.n2)
    (h1 : UsedAt c e.n1) (h2 : UsedAt c e.n2) (hf : FreeOk c) : totalMom c' = totalMom c := by
  obtain ⟨na, nb, ha, hb, hs⟩ := mergeEdge_nodes h
  obtain ⟨na', ha', hua⟩ := h1
  obtain ⟨nb', hb', hub⟩ := h2
  rw [ha] at ha'; cases ha'
  rw [hb] at hb'; cases hb'
  rw [totalMom_of_sameNodes hs]
  unfold totalMom
  rw [mergeNodes_momC V3.x (fun _ _ => rfl) _ ha hb hua hub hab hf,
    mergeNodes_momC V3.y (fun _ _ => rfl) _ ha hb hua hub hab hf,
    mergeNodes_momC V3.z (fun _ _ => rfl) _ ha hb hua hub hab hf]

/-- **a split moves no node**: every slot other than the one `add_node` hands out keeps its position -/
theorem survivors_unmoved_split {fn : Fn R} {k : SplitConsts R} {c c' : Cell R} {e : Edge} {chk chk' : CheckSet}
    (h : splitEdge fn k c e chk = .ok (c', chk')) (j : Nat) (hj : j ≠ newSlot c) : posOf c' j = posOf c j := by
  obtain ⟨na, nb, ha, hb, hs⟩ := splitEdge_nodes h
  rw [posOf_congr hs.1, splitNodes_posOf_ne _ ha hb hj]

/-- **the new node of a split sits at the midpoint of the split edge** -/
theorem split_new_node_pos {fn : Fn R} {c c' : Cell R} {e : Edge} {chk chk' : CheckSet}
    (h : splitEdge fn Gen.splitConsts c e chk = .ok (c', chk')) (hab : e.n1 ≠ e.n2) (hf : FreeOk c) :
    posOf c' (newSlot c) = posOf c e.n1 + (posOf c e.n2 - posOf c e.n1) * ((1 : R) / 2) := by
  obtain ⟨na, nb, ha, hb, hs⟩ := splitEdge_nodes h
  rw [posOf_congr hs.1, splitNodes_posOf_new _ ha hb hab hf, new_node_midpoint]

/-- **a collapse moves no surviving node**: only the new slot and the two deleted slots change position -/
theorem survivors_unmoved_merge {fn : Fn R} {k : SplitConsts R} {c c' : Cell R} {e : Edge} {chk chk' : CheckSet}
    (h : mergeEdge fn k c e chk = .ok (c', chk')) (j : Nat) (hj : j ≠ newSlot c) (hja : j ≠ e.n1) (hjb : j ≠ e.n2) :
    posOf c' j = posOf c j := by
  obtain ⟨na, nb, ha, hb, hs⟩ := mergeEdge_nodes h
  rw [posOf_congr hs.1, mergeNodes_posOf_ne _ _ _ _ _ _ hj hja hjb]

/-- the node created by a collapse sits at the midpoint of the collapsed edge; the two old slots are reset -/
theorem merge_new_node_pos {fn : Fn R} {c c' : Cell R} {e : Edge} {chk chk' : CheckSet}
    (h : mergeEdge fn Gen.splitConsts c e chk = .ok (c', chk'))
    (h1 : UsedAt c e.n1) (h2 : UsedAt c e.n2) (hf : FreeOk c) :
    posOf c' (newSlot c) = posOf c e.n1 + (posOf c e.n2 - posOf c e.n1) * ((1 : R) / 2)
    ∧ posOf c' e.n1 = zeroV ∧ posOf c' e.n2 = zeroV := by
  obtain ⟨na, nb, ha, hb, hs⟩ := mergeEdge_nodes h
  obtain ⟨na', ha', hua⟩ := h1
  obtain ⟨nb', hb', hub⟩ := h2
  rw [ha] at ha'; cases ha'
  rw [hb] at hb'; cases hb'
  have ho := mergeNodes_posOf_old Gen.splitConsts c e.n1 e.n2 na nb
  rw [posOf_congr hs.1, posOf_congr hs.1, posOf_congr hs.1, mergeNodes_posOf_new _ ha hb hua hub hf,
    new_node_midpoint]
  exact ⟨rfl, ho.1, ho.2⟩

/-! ### 4'. the pass as a whole -/

/-- the operations of a whole pass (`loopOps` after the optional swap pass): (cell the operation is applied to,
    edge, split?) in execution order -/
def passOps (fn : Fn R) (k : RefineConsts R) (lminSq lmaxSq : R) (swapOn : Bool) (c : Cell R) (maxIter : Nat) :
    List (Cell R × Edge × Bool) :=
  match (if swapOn then removeElongated fn k c else .ok c : Except Err (Cell R)) with
  | .error _ => []
  | .ok c1 => loopOps fn k lminSq lmaxSq maxIter c1 c1.edges 0

/-- induction principle for a pass: a transitive relation between cells that the swap pass (which leaves the node
    store alone) and every split / collapse of a live edge respect holds between the input and the output of
    `refineMesh`; the slot-store invariant is carried along -/
theorem refineMesh_preserves (fn : Fn R) (k : RefineConsts R) (lminSq lmaxSq : R) (swapOn : Bool) (c : Cell R)
    (maxIter : Nat) (P : Cell R → Cell R → Prop) (Q : Cell R → Edge → Bool → Prop)
    (hQ : ∀ c e b, Q c e b → EdgeLive c e) (hrefl : ∀ c, P c c) (htrans : ∀ a b c, P a b → P b c → P a c)
    (hswap : ∀ c c', SameNodes c c' → P c c')
    (hsplit : ∀ c e rest c' chk', FreeOk c → Q c e true → splitEdge fn k.split c e rest = .ok (c', chk') → P c c')
    (hmerge : ∀ c e rest c' chk', FreeOk c → Q c e false → mergeEdge fn k.split c e rest = .ok (c', chk') → P c c')
    (hf : FreeOk c) (hops : ∀ op ∈ passOps fn k lminSq lmaxSq swapOn c maxIter, Q op.1 op.2.1 op.2.2) :
    P c (refineMesh fn k lminSq lmaxSq swapOn c maxIter).1
    ∧ FreeOk (refineMesh fn k lminSq lmaxSq swapOn c maxIter).1 := by
  unfold refineMesh
  unfold passOps at hops
  cases swapOn with
  | false =>
    simp only [Bool.false_eq_true, if_false] at hops ⊢
    exact loop_preserves fn k lminSq lmaxSq P Q hQ hrefl htrans hsplit hmerge maxIter c c.edges 0 [] hf hops
  | true =>
    simp only [if_true] at hops ⊢
    cases hre : removeElongated fn k c with
    | error x => exact ⟨hrefl c, hf⟩
    | ok c1 =>
      simp only [hre] at hops
      have hs := sameNodes_removeElongated hre
      have := loop_preserves fn k lminSq lmaxSq P Q hQ hrefl htrans hsplit hmerge maxIter c1 c1.edges 0 []
        (FreeOk.of_sameNodes hs hf) hops
      exact ⟨htrans _ _ _ (hswap _ _ hs) this.1, this.2⟩

/-- **a refinement pass conserves the total momentum of the cell's nodes** — whatever its outcome (returned,
    exception, fuel) — provided every edge it operates on joins two distinct live nodes at that moment
    (`EdgeLive`, a run-time checkable condition on the trace `passOps`; it follows from the mesh invariant of C01
    but that link is not proved here).  The constants must be the generated ones. -/
theorem refineMesh_totalMom (fn : Fn R) (k : RefineConsts R) (hk : k.split = Gen.splitConsts) (lminSq lmaxSq : R)
    (swapOn : Bool) (c : Cell R) (maxIter : Nat) (hf : FreeOk c)
    (hops : ∀ op ∈ passOps fn k lminSq lmaxSq swapOn c maxIter, EdgeLive op.1 op.2.1) :
    totalMom (refineMesh fn k lminSq lmaxSq swapOn c maxIter).1 = totalMom c
    ∧ FreeOk (refineMesh fn k lminSq lmaxSq swapOn c maxIter).1 := by
  refine refineMesh_preserves fn k lminSq lmaxSq swapOn c maxIter (fun a b => totalMom b = totalMom a)
    (fun c e _ => EdgeLive c e) (fun _ _ _ h => h) (fun _ => rfl) (fun _ _ _ h1 h2 => h2.trans h1)
    (fun _ _ hs => totalMom_of_sameNodes hs) ?_ ?_ hf hops
  · intro c e rest c' chk' hf hl h
    rw [hk] at h
    exact splitEdge_totalMom h hl.1 hl.2.1 hl.2.2 hf
  · intro c e rest c' chk' hf hl h
    exact mergeEdge_totalMom h hl.1 hl.2.1 hl.2.2 hf

theorem refineMesh_totalMom_gen (fn : Fn R) (lminSq lmaxSq : R) (swapOn : Bool) (c : Cell R) (maxIter : Nat)
    (hf : FreeOk c)
    (hops : ∀ op ∈ passOps fn (Gen.refineConsts fn) lminSq lmaxSq swapOn c maxIter, EdgeLive op.1 op.2.1) :
    totalMom (refineMesh fn (Gen.refineConsts fn) lminSq lmaxSq swapOn c maxIter).1 = totalMom c :=
  (refineMesh_totalMom fn (Gen.refineConsts fn) rfl lminSq lmaxSq swapOn c maxIter hf hops).1

/-- **a refinement pass never moves a node that survives it**: a slot that is never handed out by `add_node`
    during the pass and is never an end of a collapsed edge has the same position after the pass -/
theorem refineMesh_survivors_unmoved (fn : Fn R) (k : RefineConsts R) (lminSq lmaxSq : R)
    (swapOn : Bool) (c : Cell R) (maxIter : Nat) (j : Nat) (hf : FreeOk c)
    (hops : ∀ op ∈ passOps fn k lminSq lmaxSq swapOn c maxIter,
      EdgeLive op.1 op.2.1 ∧ j ≠ newSlot op.1 ∧ (op.2.2 = false → j ≠ op.2.1.n1 ∧ j ≠ op.2.1.n2)) :
    posOf (refineMesh fn k lminSq lmaxSq swapOn c maxIter).1 j = posOf c j := by
  refine (refineMesh_preserves fn k lminSq lmaxSq swapOn c maxIter (fun a b => posOf b j = posOf a j)
    (fun c e b => EdgeLive c e ∧ j ≠ newSlot c ∧ (b = false → j ≠ e.n1 ∧ j ≠ e.n2)) (fun _ _ _ h => h.1)
    (fun _ => rfl) (fun _ _ _ h1 h2 => h2.trans h1)
    (fun _ _ hs => posOf_congr hs.1 j) ?_ ?_ hf hops).1
  · intro c e rest c' chk' _ hq h
    exact survivors_unmoved_split h j hq.2.1
  · intro c e rest c' chk' _ hq h
    exact survivors_unmoved_merge h j hq.2.1 (hq.2.2 rfl).1 (hq.2.2 rfl).2

/-! ### 5. selectivity -/

/-- **every logged split was decided by a squared length above `lmaxSq`, every logged collapse by one below
    `lminSq`** -/
theorem refineMesh_selective (fn : Fn R) (k : RefineConsts R) (lminSq lmaxSq : R) (swapOn : Bool) (c : Cell R)
    (maxIter : Nat) :
    ∀ p ∈ (refineMesh fn k lminSq lmaxSq swapOn c maxIter).2.2,
      (p.1 = true → lmaxSq < p.2.2.2) ∧ (p.1 = false → p.2.2.2 < lminSq) := by
  unfold refineMesh
  simp only
  split
  · intro p hp; cases hp
  · exact loop_selective fn k lminSq lmaxSq maxIter _ _ 0 [] (fun p hp => by cases hp)

/-! ### 6. a conforming mesh is left completely unchanged -/

/-- **fixpoint**: with the swap pass off, a cell all of whose edges lie in the length band is returned unchanged,
    with an empty operation log.  (For a cell with NO edge at all the model — like the code, whose `iter ==
    edges.size()` test then reads `0 == 0` — reports `mesh_integrity_exception`; the cell is unchanged there too.) -/
theorem conforming_fixpoint (fn : Fn R) (k : RefineConsts R) (lminSq lmaxSq : R) (c : Cell R) (maxIter : Nat)
    (hconf : ∀ e ∈ c.edges, ¬ lmaxSq < len2 c e ∧ ¬ len2 c e < lminSq) (hfuel : c.edges.length + 1 ≤ maxIter) :
    refineMesh fn k lminSq lmaxSq false c maxIter =
      (c, if c.edges = [] then .threw .integrity else .returned, []) := by
  rw [refineMesh_noswap]
  by_cases he : c.edges = []
  · obtain ⟨f, rfl⟩ : ∃ f, maxIter = f + 1 := ⟨maxIter - 1, by omega⟩
    rw [loop_noedges fn k lminSq lmaxSq c he, if_pos he]
  · rw [loop_conforming fn k lminSq lmaxSq c he c.edges maxIter [] hconf hfuel, if_neg he]

theorem conforming_fixpoint_returned (fn : Fn R) (k : RefineConsts R) (lminSq lmaxSq : R) (c : Cell R) (maxIter : Nat)
    (hne : c.edges ≠ [])
    (hconf : ∀ e ∈ c.edges, ¬ lmaxSq < len2 c e ∧ ¬ len2 c e < lminSq) (hfuel : c.edges.length + 1 ≤ maxIter) :
    refineMesh fn k lminSq lmaxSq false c maxIter = (c, .returned, []) := by
  rw [conforming_fixpoint fn k lminSq lmaxSq c maxIter hconf hfuel, if_neg hne]

/-! ### 7. boundedness -/

/-- the loop stops as soon as the check set is empty or `iter` has reached the number of edges of the cell -/
theorem loop_stops (fn : Fn R) (k : RefineConsts R) (lminSq lmaxSq : R) (fuel : Nat) (c : Cell R) (chk : CheckSet)
    (iter : Nat) (log : Log R) (h : chk = [] ∨ c.edges.length ≤ iter) :
    refineMesh.loop fn k lminSq lmaxSq (fuel + 1) c chk iter log =
      (c, if iter == c.edges.length then .threw .integrity else .returned, log) :=
  loop_stop fn k lminSq lmaxSq fuel c chk iter log h

/-- **bound on the number of loop iterations** (partial).  `loopI` is `refineMesh.loop` with counters
    (first conjunct: it computes the same result).  With `S` / `M` the numbers of splits / collapses the run
    performs and `F` the size of the face array at the start, the number of iterations that pass the stop test is at most

      |chk₀| + 4·S + M·2·(F + 4·S + 2)

    (a split inserts at most 4 edges into the check set and enlarges the face array by at most 4 slots; a collapse
    keeps the face array and inserts at most one edge per step of its two `replace_node` walks, each bounded by
    `F + 2`); `S + M` is the growth of the log; and the model runs out of fuel (= the C++ would still be looping)
    only if it really executed `fuel` iterations — so any `fuel` above the bound suffices.

    MISSING for an unconditional bound: a bound on the number of operations `S + M` themselves.  The loop's own
    guard `iter < edges.size()` (`loop_stops`; `iter` counts the operations, `split_step`/`merge_step`) is
    relative to an edge set that grows with every split, so it gives no a-priori bound; that the splits end is a
    geometric fact (every split halves an edge longer than `l_max`) and is not proved. -/
theorem termination_partial (fn : Fn R) (k : RefineConsts R) (lminSq lmaxSq : R) (fuel : Nat) (c : Cell R)
    (chk : CheckSet) (iter : Nat) (log : Log R) :
    let r := loopI fn k lminSq lmaxSq fuel c chk iter log
    let bound := chk.length + 4 * r.2.splits + r.2.merges * (2 * (c.faces.size + 4 * r.2.splits + 2))
    r.1 = refineMesh.loop fn k lminSq lmaxSq fuel c chk iter log
    ∧ r.2.iters ≤ bound
    ∧ r.1.2.2.length = log.length + r.2.splits + r.2.merges
    ∧ (bound < fuel → r.1.2.1 ≠ .fuelOut) := by
  have s := loopI_spec fn k lminSq lmaxSq fuel c chk iter log
  have g := loopI_growM fn k lminSq lmaxSq fuel c chk iter log
  have hb := s.bound
  refine ⟨s.same, by omega, s.ops, ?_⟩
  intro hlt hfo
  have := s.fuelOut hfo
  omega

/-! ### non-vacuity -/

/-! ### boolean checkers for the hypotheses (sound; used below to discharge them on a concrete run) -/

def usedB (c : Cell R) (i : Nat) : Bool := match c.nodes[i]? with | some n => n.used | none => false
def edgeLiveB (c : Cell R) (e : Edge) : Bool := e.n1 != e.n2 && usedB c e.n1 && usedB c e.n2
def freeOkB (c : Cell R) : Bool :=
  c.freeNodes.all (fun i => match c.nodes[i]? with | some n => !n.used | none => false) && decide c.freeNodes.Nodup

theorem usedAt_of_usedB {c : Cell R} {i : Nat} (h : usedB c i = true) : UsedAt c i := by
  unfold usedB at h
  cases hn : c.nodes[i]? with
  | none => rw [hn] at h; cases h
  | some n => rw [hn] at h; exact ⟨n, hn, h⟩

theorem edgeLive_of_B {c : Cell R} {e : Edge} (h : edgeLiveB c e = true) : EdgeLive c e := by
  unfold edgeLiveB at h
  simp only [Bool.and_eq_true, bne_iff_ne, ne_eq] at h
  exact ⟨h.1.1, usedAt_of_usedB h.1.2, usedAt_of_usedB h.2⟩

theorem freeOk_of_B {c : Cell R} (h : freeOkB c = true) : FreeOk c := by
  unfold freeOkB at h
  simp only [Bool.and_eq_true, List.all_eq_true, decide_eq_true_eq] at h
  refine ⟨?_, h.2⟩
  intro i hi
  have := h.1 i hi
  cases hn : c.nodes[i]? with
  | none => rw [hn] at this; cases this
  | some n => rw [hn] at this; exact ⟨n, rfl, by simpa using this⟩

set_option maxRecDepth 1000000
/-! ### a concrete run over ℚ: unit tetrahedron, nonzero momenta -/

def fnQ : Fn ℚ := ⟨id, id, id, id, fun _ => 0⟩
def tetQ : Except Err (Cell ℚ) :=
  initCell fnQ [⟨0,0,0⟩,⟨1,0,0⟩,⟨0,1,0⟩,⟨0,0,1⟩] [(0,2,1),(0,1,3),(0,3,2),(1,2,3)]
def tetCell : Cell ℚ := match tetQ with | .ok c => c | .error _ => ⟨#[], #[], [], [], []⟩
/-- the tetrahedron with momenta (1,2,-1), (2,2,-1), (3,2,-1), (4,2,-1) -/
def tetM : Cell ℚ := { tetCell with nodes := tetCell.nodes.mapIdx (fun i n => { n with mom := ⟨(i : ℚ) + 1, 2, -1⟩ }) }
def kQ : RefineConsts ℚ := Gen.refineConsts fnQ

example : tetCell.edges.length = 6 := by decide +kernel
example : totalMom tetM = ⟨10, 8, -4⟩ := by decide +kernel

/-- the hypotheses of `refineMesh_totalMom` hold on a pass that performs three splits … -/
theorem run_hyps : FreeOk tetM ∧ (passOps fnQ kQ 0 (3/2) false tetM 100).length = 3 ∧
    ∀ op ∈ passOps fnQ kQ 0 (3/2) false tetM 100, EdgeLive op.1 op.2.1 := by
  refine ⟨freeOk_of_B (by decide +kernel), by decide +kernel, ?_⟩
  have : (passOps fnQ kQ 0 (3/2) false tetM 100).all (fun op => edgeLiveB op.1 op.2.1) = true := by decide +kernel
  intro op hop
  exact edgeLive_of_B (List.all_eq_true.1 this op hop)

/-- … so that pass conserves the total momentum -/
example : totalMom (refineMesh fnQ kQ 0 (3/2) false tetM 100).1 = ⟨10, 8, -4⟩ := by
  rw [(refineMesh_totalMom fnQ kQ rfl 0 (3/2) false tetM 100 run_hyps.1 run_hyps.2.2).1]
  decide +kernel

def okB {ε α : Type} : Except ε α → Bool | .ok _ => true | .error _ => false
theorem ok_of_okB {ε α : Type} {x : Except ε α} (h : okB x = true) : ∃ a, x = .ok a := by
  cases x with
  | ok a => exact ⟨a, rfl⟩
  | error e => cases h

/-- the cell after splitting the edge 0–1 of the tetrahedron -/
def splitCell : Cell ℚ :=
  match splitEdge fnQ Gen.splitConsts tetM ⟨0, 1, some 0, some 1⟩ [] with | .ok r => r.1 | .error _ => tetM

/-- the hypotheses of `splitEdge_totalMom` and of `mergeEdge_totalMom` are satisfiable -/
example : ∃ c' chk', FreeOk tetM ∧ EdgeLive tetM ⟨0, 1, some 0, some 1⟩ ∧
    splitEdge fnQ Gen.splitConsts tetM ⟨0, 1, some 0, some 1⟩ [] = .ok (c', chk') := by
  obtain ⟨⟨c', chk'⟩, h⟩ := ok_of_okB (x := splitEdge fnQ Gen.splitConsts tetM ⟨0, 1, some 0, some 1⟩ []) (by decide +kernel)
  exact ⟨c', chk', freeOk_of_B (by decide +kernel), edgeLive_of_B (by decide +kernel), h⟩

example : ∃ c' chk', FreeOk splitCell ∧ EdgeLive splitCell ⟨0, 2, some 2, some 1⟩ ∧
    mergeEdge fnQ Gen.splitConsts splitCell ⟨0, 2, some 2, some 1⟩ [] = .ok (c', chk') := by
  obtain ⟨⟨c', chk'⟩, h⟩ := ok_of_okB (x := mergeEdge fnQ Gen.splitConsts splitCell ⟨0, 2, some 2, some 1⟩ []) (by decide +kernel)
  exact ⟨c', chk', freeOk_of_B (by decide +kernel), edgeLive_of_B (by decide +kernel), h⟩

/-- the hypotheses of `conforming_fixpoint` hold for the tetrahedron and the band [1/2, 2] -/
example : refineMesh fnQ kQ (1/2) 2 false tetCell 100 = (tetCell, .returned, []) :=
  conforming_fixpoint_returned fnQ kQ (1/2) 2 tetCell 100 (by decide +kernel) (by decide +kernel) (by decide +kernel)
end Simu.C11






























