import SimuVerif.Lemmas.GridStore
import Mathlib.Data.Rat.Floor
import Mathlib.Tactic.NormNum
/-
  C20 — spatial grids index every in-range point and never miss a neighbour.

  The arithmetic of `uspg_abstract / uspg_3d / uspg_4d` (`Gen/Grid.lean`) is regenerated from the
  headers on every run; the containers and loops are `Model/Grid.lean`, tied to the real classes by
  the correspondence harness.  The theorems read the doubles as elements of an arbitrary ordered
  field with a floor function (`fn.floor = ⌊·⌋`), i.e. in exact arithmetic; `δ` is the padding
  `delta` of `update_dimensions` (any non-negative value: after the repair nothing depends on it).

  The in-box hypotheses (`InBox`, `hops`) are kept in every statement although the clamped index makes
  several of them unnecessary in the model: for a point below the origin the C++ casts a negative
  double to `unsigned` (undefined), which the model does not describe (`index_cast_defined`).
-/
set_option linter.unusedVariables false
set_option linter.unusedSectionVars false
namespace Simu.C20
open Simu Simu.Grid

variable {R : Type} [Field R] [LinearOrder R] [IsStrictOrderedRing R] [FloorRing R]
variable {α : Type}

/-- the standing assumptions: `floor` is the floor, non-negative padding, positive voxel size,
    a box with positive extent on every axis (the `assert`s of `update_dimensions`) -/
structure Setup (fn : Fn R) (δ v : R) (mn mx : V3 R) : Prop where
  floor_spec : ∀ x, fn.floor x = ⌊x⌋
  δ_nonneg : 0 ≤ δ
  v_pos : 0 < v
  x_lt : mn.x < mx.x
  y_lt : mn.y < mx.y
  z_lt : mn.z < mx.z

/-- the closed declared box, faces, edges and corners included -/
def InBox (mn mx p : V3 R) : Prop :=
  (mn.x ≤ p.x ∧ p.x ≤ mx.x) ∧ (mn.y ≤ p.y ∧ p.y ≤ mx.y) ∧ (mn.z ≤ p.z ∧ p.z ≤ mx.z)

/-- the members `update_dimensions` computes for a declared box -/
abbrev dims (fn : Fn R) (δ v : R) (mn mx : V3 R) : Dims R :=
  Gen.updateDims4 fn δ v mn.x mn.y mn.z mx.x mx.y mx.z

/-- the index of a point, `get_3d_voxel_index` -/
abbrev ix (fn : Fn R) (d : Dims R) (p : V3 R) : Nat × Nat × Nat := Gen.voxelIndex fn d p.x p.y p.z

/-- a `uspg_4d` / `uspg_3d` constructed on the box, after the placements `ops` (object, position) in order -/
abbrev grid4 (fn : Fn R) (δ v : R) (mn mx : V3 R) (ops : List (α × V3 R)) : G4 R α :=
  G4.placeAll fn (G4.create fn δ v mn.x mn.y mn.z mx.x mx.y mx.z) ops
abbrev grid3 (fn : Fn R) (δ v : R) (mn mx : V3 R) (ops : List (α × V3 R)) : G3 R α :=
  G3.placeAll fn (G3.create fn δ v mn.x mn.y mn.z mx.x mx.y mx.z) ops

/-! ### dimensions -/

/-- `uspg_3d::update_dimensions` and `uspg_4d::update_dimensions` are the same computation -/
theorem dims3_eq_dims4 (fn : Fn R) (δ v a b c d e f : R) :
    Gen.updateDims3 fn δ v a b c d e f = Gen.updateDims4 fn δ v a b c d e f := rfl

theorem dims_nx (fn : Fn R) (δ v : R) (mn mx : V3 R) : (dims fn δ v mn mx).nx = nbAxis fn δ v mn.x mx.x := rfl
theorem dims_ny (fn : Fn R) (δ v : R) (mn mx : V3 R) : (dims fn δ v mn mx).ny = nbAxis fn δ v mn.y mx.y := rfl
theorem dims_nz (fn : Fn R) (δ v : R) (mn mx : V3 R) : (dims fn δ v mn mx).nz = nbAxis fn δ v mn.z mx.z := rfl
theorem dims_min (fn : Fn R) (δ v : R) (mn mx : V3 R) :
    (dims fn δ v mn mx).min_x = mn.x - δ ∧ (dims fn δ v mn mx).min_y = mn.y - δ ∧ (dims fn δ v mn mx).min_z = mn.z - δ :=
  ⟨rfl, rfl, rfl⟩
theorem dims_v (fn : Fn R) (δ v : R) (mn mx : V3 R) : (dims fn δ v mn mx).v = v := rfl

variable {fn : Fn R} {δ v : R} {mn mx : V3 R}

/-- at least one voxel per axis, and the vector is resized to `nx·ny·nz` -/
theorem dims_wf (S : Setup fn δ v mn mx) : WF (dims fn δ v mn mx) :=
  ⟨nbAxis_pos fn S.floor_spec S.δ_nonneg S.v_pos S.x_lt, nbAxis_pos fn S.floor_spec S.δ_nonneg S.v_pos S.y_lt,
   nbAxis_pos fn S.floor_spec S.δ_nonneg S.v_pos S.z_lt, rfl⟩

theorem nb_pos (S : Setup fn δ v mn mx) :
    1 ≤ (dims fn δ v mn mx).nx ∧ 1 ≤ (dims fn δ v mn mx).ny ∧ 1 ≤ (dims fn δ v mn mx).nz ∧
    (dims fn δ v mn mx).total = (dims fn δ v mn mx).nx * (dims fn δ v mn mx).ny * (dims fn δ v mn mx).nz :=
  ⟨(dims_wf S).nx_pos, (dims_wf S).ny_pos, (dims_wf S).nz_pos, (dims_wf S).total_eq⟩

/-- the declared box lies inside `[min_, min_ + nb·v]` on every axis -/
theorem box_inside_grid (S : Setup fn δ v mn mx) :
    mx.x ≤ (dims fn δ v mn mx).min_x + ((dims fn δ v mn mx).nx : R) * v ∧
    mx.y ≤ (dims fn δ v mn mx).min_y + ((dims fn δ v mn mx).ny : R) * v ∧
    mx.z ≤ (dims fn δ v mn mx).min_z + ((dims fn δ v mn mx).nz : R) * v := by
  have hx := box_covered fn S.floor_spec S.δ_nonneg S.v_pos S.x_lt
  have hy := box_covered fn S.floor_spec S.δ_nonneg S.v_pos S.y_lt
  have hz := box_covered fn S.floor_spec S.δ_nonneg S.v_pos S.z_lt
  rw [(dims_min fn δ v mn mx).1, (dims_min fn δ v mn mx).2.1, (dims_min fn δ v mn mx).2.2, dims_nx, dims_ny, dims_nz]
  refine ⟨by linarith, by linarith, by linarith⟩

theorem grid4_dims (ops : List (α × V3 R)) : (grid4 fn δ v mn mx ops).dims = dims fn δ v mn mx := by
  unfold grid4; rw [G4.placeAll_dims]; rfl
theorem grid3_dims (ops : List (α × V3 R)) : (grid3 fn δ v mn mx ops).dims = dims fn δ v mn mx := by
  unfold grid3; rw [G3.placeAll_dims]; rfl
theorem create4_length : (G4.create fn δ v mn.x mn.y mn.z mx.x mx.y mx.z : G4 R α).vox.length = (dims fn δ v mn mx).total :=
  List.length_replicate ..
theorem create3_length : (G3.create fn δ v mn.x mn.y mn.z mx.x mx.y mx.z : G3 R α).vox.length = (dims fn δ v mn mx).total :=
  List.length_replicate ..
theorem create4_dims : (G4.create fn δ v mn.x mn.y mn.z mx.x mx.y mx.z : G4 R α).dims = dims fn δ v mn mx := rfl
theorem create3_dims : (G3.create fn δ v mn.x mn.y mn.z mx.x mx.y mx.z : G3 R α).dims = dims fn δ v mn mx := rfl
theorem grid4_length (ops : List (α × V3 R)) : (grid4 fn δ v mn mx ops).vox.length = (dims fn δ v mn mx).total := by
  unfold grid4; rw [G4.placeAll_length]; exact create4_length
theorem grid3_length (ops : List (α × V3 R)) : (grid3 fn δ v mn mx ops).vox.length = (dims fn δ v mn mx).total := by
  unfold grid3; rw [G3.placeAll_length]; exact create3_length

/-! ### every point of the closed box maps to an existing voxel -/

/-- the double handed to `static_cast<unsigned>` is not negative: the cast is defined -/
theorem index_cast_defined (S : Setup fn δ v mn mx) {p : V3 R} (hp : InBox mn mx p) :
    0 ≤ fn.floor ((p.x - (dims fn δ v mn mx).min_x) / (dims fn δ v mn mx).v) ∧
    0 ≤ fn.floor ((p.y - (dims fn δ v mn mx).min_y) / (dims fn δ v mn mx).v) ∧
    0 ≤ fn.floor ((p.z - (dims fn δ v mn mx).min_z) / (dims fn δ v mn mx).v) := by
  have hδ := S.δ_nonneg
  refine ⟨floor_nonneg_of_ge fn S.floor_spec S.v_pos ?_, floor_nonneg_of_ge fn S.floor_spec S.v_pos ?_,
    floor_nonneg_of_ge fn S.floor_spec S.v_pos ?_⟩
  · show mn.x - δ ≤ p.x; linarith [hp.1.1]
  · show mn.y - δ ≤ p.y; linarith [hp.2.1.1]
  · show mn.z - δ ≤ p.z; linarith [hp.2.2.1]

/-- **index_in_range**: every point of the closed box (faces, edges, corners) maps to an existing voxel -/
theorem index_in_range (S : Setup fn δ v mn mx) {p : V3 R} (hp : InBox mn mx p) :
    (ix fn (dims fn δ v mn mx) p).1 < (dims fn δ v mn mx).nx ∧
    (ix fn (dims fn δ v mn mx) p).2.1 < (dims fn δ v mn mx).ny ∧
    (ix fn (dims fn δ v mn mx) p).2.2 < (dims fn δ v mn mx).nz := by
  have w := dims_wf S
  unfold ix; rw [voxelIndex_eq]
  exact ⟨ax_lt fn _ _ _ w.nx_pos, ax_lt fn _ _ _ w.ny_pos, ax_lt fn _ _ _ w.nz_pos⟩

/-- the same for any dimensions with at least one voxel per axis and ANY `floor` (in particular the
    rounded floating-point one): the clamp alone guarantees the upper bound -/
theorem index_in_range_any_floor (fn' : Fn R) (d : Dims R) (h : WF d) (p : V3 R) :
    (ix fn' d p).1 < d.nx ∧ (ix fn' d p).2.1 < d.ny ∧ (ix fn' d p).2.2 < d.nz := by
  unfold ix; rw [voxelIndex_eq]
  exact ⟨ax_lt fn' _ _ _ h.nx_pos, ax_lt fn' _ _ _ h.ny_pos, ax_lt fn' _ _ _ h.nz_pos⟩

/-- one axis of `voxel_contains` -/
theorem axis_contains (hfl : ∀ x, fn.floor x = ⌊x⌋) (hδ : 0 ≤ δ) (hv : 0 < v) {a b p : R} (hab : a < b)
    (h1 : a ≤ p) (h2 : p ≤ b) :
    (a - δ) + (ax fn (a - δ) v (nbAxis fn δ v a b) p : R) * v ≤ p ∧
    p ≤ (a - δ) + ((ax fn (a - δ) v (nbAxis fn δ v a b) p : R) + 1) * v ∧
    (p < b → p < (a - δ) + ((ax fn (a - δ) v (nbAxis fn δ v a b) p : R) + 1) * v) := by
  have hm : a - δ ≤ p := by linarith
  refine ⟨ax_lower fn hfl _ hv hm, ?_, fun hlt => (ax_upper fn hfl hv hm (floor_lt_nb fn hfl hδ hv hab hlt)).1⟩
  rcases lt_or_ge (fn.floor ((p - (a - δ)) / v)) (nbAxis fn δ v a b : Int) with hlt | hge
  · exact (ax_upper fn hfl hv hm hlt).1.le
  · have hpos := nbAxis_pos fn hfl hδ hv hab
    have he : ax fn (a - δ) v (nbAxis fn δ v a b) p + 1 = nbAxis fn δ v a b := by
      unfold ax; omega
    have hc := box_covered fn hfl hδ hv hab
    have : ((ax fn (a - δ) v (nbAxis fn δ v a b) p : R) + 1) = (nbAxis fn δ v a b : R) := by
      have := congrArg (fun n : Nat => (n : R)) he
      push_cast at this; exact this
    rw [this]; linarith

/-- the voxel a point of the box is mapped to contains it: `min_ + i·v ≤ p ≤ min_ + (i+1)·v` on every
    axis, the upper inequality being strict except on the upper face of the box, which belongs to the
    last voxel -/
theorem voxel_contains (S : Setup fn δ v mn mx) {p : V3 R} (hp : InBox mn mx p) :
    let d := dims fn δ v mn mx
    (d.min_x + ((ix fn d p).1 : R) * v ≤ p.x ∧ p.x ≤ d.min_x + (((ix fn d p).1 : R) + 1) * v ∧
      (p.x < mx.x → p.x < d.min_x + (((ix fn d p).1 : R) + 1) * v)) ∧
    (d.min_y + ((ix fn d p).2.1 : R) * v ≤ p.y ∧ p.y ≤ d.min_y + (((ix fn d p).2.1 : R) + 1) * v ∧
      (p.y < mx.y → p.y < d.min_y + (((ix fn d p).2.1 : R) + 1) * v)) ∧
    (d.min_z + ((ix fn d p).2.2 : R) * v ≤ p.z ∧ p.z ≤ d.min_z + (((ix fn d p).2.2 : R) + 1) * v ∧
      (p.z < mx.z → p.z < d.min_z + (((ix fn d p).2.2 : R) + 1) * v)) :=
  ⟨axis_contains S.floor_spec S.δ_nonneg S.v_pos S.x_lt hp.1.1 hp.1.2,
   axis_contains S.floor_spec S.δ_nonneg S.v_pos S.y_lt hp.2.1.1 hp.2.1.2,
   axis_contains S.floor_spec S.δ_nonneg S.v_pos S.z_lt hp.2.2.1 hp.2.2.2⟩

/-- the index is monotone in the coordinate -/
theorem index_monotone (hfl : ∀ x, fn.floor x = ⌊x⌋) (m : R) (nb : Nat) (hv : 0 < v) {x y : R} (h : x ≤ y) :
    ax fn m v nb x ≤ ax fn m v nb y := by
  have : ⌊(x - m) / v⌋ ≤ ⌊(y - m) / v⌋ := Int.floor_le_floor (div_le_div_of_nonneg_right (by linarith) hv.le)
  unfold ax; rw [hfl, hfl]; omega

/-- the float-robust form: whatever monotone function stands for "subtract, divide, floor" (rounded
    floating-point operations are monotone), the clamped index is monotone in the coordinate, so the voxels
    partition every axis into consecutive intervals -/
theorem index_monotone_of_monotone_floor (fn' : Fn R) (m : R) (nb : Nat)
    (hmono : ∀ x y : R, x ≤ y → fn'.floor ((x - m) / v) ≤ fn'.floor ((y - m) / v)) {x y : R} (h : x ≤ y) :
    ax fn' m v nb x ≤ ax fn' m v nb y := by
  have := hmono x y h
  unfold ax; omega

/-! ### the flattening is a bijection -/

theorem flatten_lt (d : Dims R) {x y z : Nat} (hx : x < d.nx) (hy : y < d.ny) (hz : z < d.nz) :
    Gen.flatten d x y z < d.nx * d.ny * d.nz := by
  rw [flatten_eq]; exact flat_lt hx hy hz

theorem flatten_injective (d : Dims R) {x y z x' y' z' : Nat} (hx : x < d.nx) (hy : y < d.ny)
    (hx' : x' < d.nx) (hy' : y' < d.ny) (h : Gen.flatten d x y z = Gen.flatten d x' y' z') :
    x = x' ∧ y = y' ∧ z = z' := by
  rw [flatten_eq, flatten_eq] at h; exact flat_inj hx hy hx' hy' h

theorem flatten_surjective (d : Dims R) {id : Nat} (h : id < d.nx * d.ny * d.nz) :
    ∃ x y z, x < d.nx ∧ y < d.ny ∧ z < d.nz ∧ Gen.flatten d x y z = id := by
  obtain ⟨x, y, z, hx, hy, hz, e⟩ := flat_surj h
  exact ⟨x, y, z, hx, hy, hz, by rw [flatten_eq]; exact e⟩

/-- the position `place_object` writes to exists in the vector -/
theorem write_in_range (S : Setup fn δ v mn mx) (ops : List (α × V3 R)) {p : V3 R} (hp : InBox mn mx p) :
    Gen.voxelId fn (grid4 fn δ v mn mx ops).dims p.x p.y p.z < (grid4 fn δ v mn mx ops).vox.length ∧
    Gen.voxelId fn (grid3 fn δ v mn mx ops).dims p.x p.y p.z < (grid3 fn δ v mn mx ops).vox.length := by
  rw [grid4_dims, grid3_dims, grid4_length, grid3_length]
  exact ⟨voxelId_lt fn (dims_wf S) _ _ _, voxelId_lt fn (dims_wf S) _ _ _⟩

/-- every voxel read by a neighbourhood query from a point of the box, and by the full-content query,
    exists in the vector -/
theorem reads_in_range (S : Setup fn δ v mn mx) {q : V3 R} (hq : InBox mn mx q) :
    let d := dims fn δ v mn mx
    (∀ id ∈ visit d (Gen.nbhRange4 d (ix fn d q).1 (ix fn d q).2.1 (ix fn d q).2.2).1
                    (Gen.nbhRange4 d (ix fn d q).1 (ix fn d q).2.1 (ix fn d q).2.2).2, id < d.total) ∧
    (∀ id ∈ visit d (Gen.nbhRange3 d (ix fn d q).1 (ix fn d q).2.1 (ix fn d q).2.2).1
                    (Gen.nbhRange3 d (ix fn d q).1 (ix fn d q).2.1 (ix fn d q).2.2).2, id < d.total) ∧
    (∀ id ∈ visit d (0, 0, 0) (d.nx, d.ny, d.nz), id < d.total) := by
  intro d
  have w := dims_wf S
  obtain ⟨h1, h2, h3⟩ := index_in_range S hq
  refine ⟨fun id hid => ?_, fun id hid => ?_, fun id hid => ?_⟩
  · rw [nbhRange4_eq] at hid; exact nbh_visit_lt w h1 h2 h3 hid
  · rw [nbhRange3_eq] at hid; exact nbh_visit_lt w h1 h2 h3 hid
  · rw [w.total_eq]; exact visit_lt (le_refl _) (le_refl _) (le_refl _) hid

/-! ### an object is retrievable from the voxel it was placed in -/

/-- **retrievable** (`uspg_4d`): after any history of placements inside the box, every placed object is
    in the content of the voxel its position maps to -/
theorem retrievable4 (S : Setup fn δ v mn mx) (ops : List (α × V3 R)) (hops : ∀ op ∈ ops, InBox mn mx op.2)
    {o : α} {p : V3 R} (h : (o, p) ∈ ops) :
    o ∈ (grid4 fn δ v mn mx ops).content (ix fn (dims fn δ v mn mx) p).1 (ix fn (dims fn δ v mn mx) p).2.1
      (ix fn (dims fn δ v mn mx) p).2.2 := by
  have := G4.mem_placeAll fn (G4.create fn δ v mn.x mn.y mn.z mx.x mx.y mx.z) (dims_wf S) create4_length ops h
  unfold G4.content
  rw [grid4_dims, ← voxelId_eq_flatten]
  exact this

/-- **retrievable** (`uspg_3d`, one object per voxel): right after a placement the voxel holds the object -/
theorem retrievable3 (S : Setup fn δ v mn mx) (ops : List (α × V3 R)) (hops : ∀ op ∈ ops, InBox mn mx op.2)
    (o : α) {p : V3 R} (hp : InBox mn mx p) :
    (grid3 fn δ v mn mx (ops ++ [(o, p)])).content (ix fn (dims fn δ v mn mx) p).1 (ix fn (dims fn δ v mn mx) p).2.1
      (ix fn (dims fn δ v mn mx) p).2.2 = some o := by
  unfold G3.content
  rw [grid3_dims, ← voxelId_eq_flatten]
  unfold grid3
  rw [G3.getD_placeAll fn _ _ (by rw [create3_length]; exact voxelId_lt fn (dims_wf S) p.x p.y p.z)]
  simp [lastAt, create3_dims]

/-- the content of a `uspg_3d` voxel after any history: the object of the last placement that went there -/
theorem stored3 (S : Setup fn δ v mn mx) (ops : List (α × V3 R)) (hops : ∀ op ∈ ops, InBox mn mx op.2)
    {id : Nat} (hid : id < (dims fn δ v mn mx).total) :
    (grid3 fn δ v mn mx ops).vox.getD id none = lastAt fn (dims fn δ v mn mx) ops id := by
  unfold grid3
  rw [G3.getD_placeAll fn _ _ (by rw [create3_length]; exact hid), create3_dims]
  have : (G3.create fn δ v mn.x mn.y mn.z mx.x mx.y mx.z : G3 R α).vox.getD id none = none := by
    show (List.replicate _ none).getD id none = none
    rw [List.getD_eq_getElem?_getD, List.getElem?_replicate]; split <;> rfl
  rw [this]; simp

/-! ### neighbourhood queries miss nothing within one voxel size -/

/-- **floor_adjacent**: coordinates at most one voxel size apart fall in the same or in adjacent slabs -/
theorem floor_adjacent (x y : R) (hv : 0 < v) (h : |x - y| ≤ v) : |⌊x / v⌋ - ⌊y / v⌋| ≤ 1 :=
  Grid.floor_adjacent x y v hv h

/-- the indices of two points at most one voxel size apart on an axis differ by at most one on that axis -/
theorem index_adjacent (S : Setup fn δ v mn mx) (d : Dims R) (hd : d.v = v) {s q : V3 R}
    (hx : |q.x - s.x| ≤ v) (hy : |q.y - s.y| ≤ v) (hz : |q.z - s.z| ≤ v) :
    ((ix fn d q).1 ≤ (ix fn d s).1 + 1 ∧ (ix fn d s).1 ≤ (ix fn d q).1 + 1) ∧
    ((ix fn d q).2.1 ≤ (ix fn d s).2.1 + 1 ∧ (ix fn d s).2.1 ≤ (ix fn d q).2.1 + 1) ∧
    ((ix fn d q).2.2 ≤ (ix fn d s).2.2 + 1 ∧ (ix fn d s).2.2 ≤ (ix fn d q).2.2 + 1) := by
  unfold ix; rw [voxelIndex_eq, voxelIndex_eq, hd]
  exact ⟨ax_adjacent fn S.floor_spec _ _ _ S.v_pos _ _ hx, ax_adjacent fn S.floor_spec _ _ _ S.v_pos _ _ hy,
    ax_adjacent fn S.floor_spec _ _ _ S.v_pos _ _ hz⟩

theorem G4.nbh_eq (g : G4 R α) (q : V3 R) :
    g.nbh fn q = g.collect (visit g.dims
      (nbStart (ix fn g.dims q).1, nbStart (ix fn g.dims q).2.1, nbStart (ix fn g.dims q).2.2)
      (nbEnd g.dims.nx (ix fn g.dims q).1, nbEnd g.dims.ny (ix fn g.dims q).2.1, nbEnd g.dims.nz (ix fn g.dims q).2.2)) := rfl

theorem G3.nbh_eq (g : G3 R α) (q : V3 R) :
    g.nbh fn q = g.collect (visit g.dims
      (nbStart (ix fn g.dims q).1, nbStart (ix fn g.dims q).2.1, nbStart (ix fn g.dims q).2.2)
      (nbEnd g.dims.nx (ix fn g.dims q).1, nbEnd g.dims.ny (ix fn g.dims q).2.1, nbEnd g.dims.nz (ix fn g.dims q).2.2)) := rfl

/-- the voxel of a stored point within one voxel size (per axis) of the query is among the visited ones,
    also where the 3×3×3 block is clipped by the border of the grid -/
theorem neighbour_voxel_visited (S : Setup fn δ v mn mx) {s q : V3 R}
    (hx : |q.x - s.x| ≤ v) (hy : |q.y - s.y| ≤ v) (hz : |q.z - s.z| ≤ v) :
    let d := dims fn δ v mn mx
    Gen.voxelId fn d s.x s.y s.z ∈ visit d
      (nbStart (ix fn d q).1, nbStart (ix fn d q).2.1, nbStart (ix fn d q).2.2)
      (nbEnd d.nx (ix fn d q).1, nbEnd d.ny (ix fn d q).2.1, nbEnd d.nz (ix fn d q).2.2) := by
  intro d
  have w := dims_wf S
  obtain ⟨q1, q2, q3⟩ := index_in_range_any_floor fn d w q
  obtain ⟨s1, s2, s3⟩ := index_in_range_any_floor fn d w s
  obtain ⟨a1, a2, a3⟩ := index_adjacent S d rfl hx hy hz
  exact adjacent_visited q1 q2 q3 s1 s2 s3 a1 a2 a3

/-- **neighbourhood_complete** (`uspg_4d`): after any history of placements in the box, a query from any
    point of the box returns every placed object whose position is within one voxel size of the query
    point on every axis (Chebyshev distance, hence a fortiori Euclidean distance) -/
theorem neighbourhood_complete4 (S : Setup fn δ v mn mx) (ops : List (α × V3 R)) (hops : ∀ op ∈ ops, InBox mn mx op.2)
    {o : α} {s : V3 R} (h : (o, s) ∈ ops) {q : V3 R} (hq : InBox mn mx q)
    (hx : |q.x - s.x| ≤ v) (hy : |q.y - s.y| ≤ v) (hz : |q.z - s.z| ≤ v) :
    o ∈ (grid4 fn δ v mn mx ops).nbh fn q := by
  rw [G4.nbh_eq, grid4_dims, G4.mem_collect]
  refine ⟨_, neighbour_voxel_visited S hx hy hz, ?_⟩
  exact G4.mem_placeAll fn (G4.create fn δ v mn.x mn.y mn.z mx.x mx.y mx.z) (dims_wf S) create4_length ops h

theorem abs_le_of_normSq_le {q s : V3 R} (hv : 0 < v) (h : V3.normSq (q - s) ≤ v * v) :
    |q.x - s.x| ≤ v ∧ |q.y - s.y| ≤ v ∧ |q.z - s.z| ≤ v := by
  simp only [V3.normSq_def, V3.sub_x, V3.sub_y, V3.sub_z] at h
  have hx := mul_self_nonneg (q.x - s.x); have hy := mul_self_nonneg (q.y - s.y); have hz := mul_self_nonneg (q.z - s.z)
  refine ⟨abs_le_of_sq_le_sq ?_ hv.le, abs_le_of_sq_le_sq ?_ hv.le, abs_le_of_sq_le_sq ?_ hv.le⟩ <;> nlinarith

/-- the statement of the property: Euclidean distance at most one voxel size -/
theorem neighbourhood_complete4_euclid (S : Setup fn δ v mn mx) (ops : List (α × V3 R)) (hops : ∀ op ∈ ops, InBox mn mx op.2)
    {o : α} {s : V3 R} (h : (o, s) ∈ ops) {q : V3 R} (hq : InBox mn mx q) (hd : V3.normSq (q - s) ≤ v * v) :
    o ∈ (grid4 fn δ v mn mx ops).nbh fn q := by
  obtain ⟨hx, hy, hz⟩ := abs_le_of_normSq_le S.v_pos hd
  exact neighbourhood_complete4 S ops hops h hq hx hy hz

/-- **neighbourhood_complete** (`uspg_3d`): the object stored in the voxel of a point `s` (the last one
    placed there, `stored3`) is returned by every query from within one voxel size of `s` -/
theorem neighbourhood_complete3 (S : Setup fn δ v mn mx) (ops : List (α × V3 R)) (hops : ∀ op ∈ ops, InBox mn mx op.2)
    {o : α} {s : V3 R} (hs : InBox mn mx s)
    (h : (grid3 fn δ v mn mx ops).content (ix fn (dims fn δ v mn mx) s).1 (ix fn (dims fn δ v mn mx) s).2.1
      (ix fn (dims fn δ v mn mx) s).2.2 = some o)
    {q : V3 R} (hq : InBox mn mx q) (hx : |q.x - s.x| ≤ v) (hy : |q.y - s.y| ≤ v) (hz : |q.z - s.z| ≤ v) :
    o ∈ (grid3 fn δ v mn mx ops).nbh fn q := by
  rw [G3.nbh_eq, grid3_dims, G3.mem_collect]
  refine ⟨_, neighbour_voxel_visited S hx hy hz, ?_⟩
  unfold G3.content at h
  rw [grid3_dims, ← voxelId_eq_flatten] at h
  exact h

theorem neighbourhood_complete3_euclid (S : Setup fn δ v mn mx) (ops : List (α × V3 R)) (hops : ∀ op ∈ ops, InBox mn mx op.2)
    {o : α} {s : V3 R} (hs : InBox mn mx s)
    (h : (grid3 fn δ v mn mx ops).content (ix fn (dims fn δ v mn mx) s).1 (ix fn (dims fn δ v mn mx) s).2.1
      (ix fn (dims fn δ v mn mx) s).2.2 = some o)
    {q : V3 R} (hq : InBox mn mx q) (hd : V3.normSq (q - s) ≤ v * v) :
    o ∈ (grid3 fn δ v mn mx ops).nbh fn q := by
  obtain ⟨hx, hy, hz⟩ := abs_le_of_normSq_le S.v_pos hd
  exact neighbourhood_complete3 S ops hops hs h hq hx hy hz

/-! ### the full-content query returns each stored object exactly once -/

/-- **content_exactly_once** (`uspg_4d`): the result of `get_grid_content` is a permutation of the list
    of placed objects — as multisets they are equal: nothing missing, nothing twice, nothing else -/
theorem content_exactly_once4 (S : Setup fn δ v mn mx) (ops : List (α × V3 R)) (hops : ∀ op ∈ ops, InBox mn mx op.2) :
    (grid4 fn δ v mn mx ops).all.Perm (ops.map Prod.fst) := by
  have w : WF (grid4 fn δ v mn mx ops).dims := by rw [grid4_dims]; exact dims_wf S
  refine (G4.all_perm_flatten _ w (by rw [grid4_length, grid4_dims])).trans ?_
  have h0 : (G4.create fn δ v mn.x mn.y mn.z mx.x mx.y mx.z : G4 R α).vox.flatten = [] := by simp [G4.create]
  have := G4.flatten_placeAll fn (G4.create fn δ v mn.x mn.y mn.z mx.x mx.y mx.z : G4 R α) (dims_wf S) create4_length ops
  rw [h0, List.append_nil] at this
  exact this

/-- **content_exactly_once** (`uspg_3d`): the result of `get_grid_content` is a permutation of the objects
    held by the voxels — for every voxel of the vector, the last object placed there (`stored3`), once -/
theorem content_exactly_once3 (S : Setup fn δ v mn mx) (ops : List (α × V3 R)) (hops : ∀ op ∈ ops, InBox mn mx op.2) :
    (grid3 fn δ v mn mx ops).all.Perm
      ((List.range (dims fn δ v mn mx).total).filterMap (lastAt fn (dims fn δ v mn mx) ops)) := by
  have w : WF (grid3 fn δ v mn mx ops).dims := by rw [grid3_dims]; exact dims_wf S
  refine (G3.all_perm_filterMap _ w (by rw [grid3_length, grid3_dims])).trans ?_
  rw [← range_filterMap_getD, grid3_length]
  apply List.Perm.of_eq
  apply List.filterMap_congr
  intro id hid
  exact stored3 S ops hops (List.mem_range.mp hid)

/-! ### non-vacuity: the box of the known finding, `[2,3]³` with voxel size `1/4`, in ℚ, with `δ = 0`
    (the value the absolute padding has after absorption) -/
section nonvacuous
def fnQ : Fn ℚ := ⟨id, id, id, id, fun x => ⌊x⌋⟩
def lo : V3 ℚ := ⟨2, 2, 2⟩
def hi : V3 ℚ := ⟨3, 3, 3⟩
theorem setupQ : Setup fnQ 0 (1/4) lo hi := ⟨fun _ => rfl, le_refl _, by norm_num, by norm_num [lo, hi], by norm_num [lo, hi], by norm_num [lo, hi]⟩
example : InBox lo hi hi := by norm_num [InBox, lo, hi]
example : InBox lo hi (⟨2, 3, 5/2⟩ : V3 ℚ) := by norm_num [InBox, lo, hi]
/-- four voxels per axis … -/
example : (dims fnQ 0 (1/4) lo hi).nx = 4 := by
  norm_num [dims, Gen.updateDims4, fceil, fnQ, lo, hi]; decide
/-- … and the maximum corner, whose unclamped index is 4, is mapped to the last voxel (3,3,3) -/
example : ix fnQ (dims fnQ 0 (1/4) lo hi) hi = (3, 3, 3) := by
  norm_num [ix, dims, Gen.updateDims4, Gen.voxelIndex, fceil, fnQ, lo, hi]; decide
example : (⌊((3 : ℚ) - (2 - 0)) / (1/4)⌋ : Int) = 4 := by norm_num
/-- an object placed on the maximum corner is found by a query from the centre of the neighbouring voxel -/
example : (7 : Nat) ∈ (grid4 fnQ 0 (1/4) lo hi [((7 : Nat), hi), (8, lo)]).nbh fnQ ⟨11/4, 11/4, 11/4⟩ :=
  neighbourhood_complete4 setupQ _ (by
      intro op hop
      simp only [List.mem_cons, List.not_mem_nil, or_false] at hop
      rcases hop with rfl | rfl <;> norm_num [InBox, lo, hi])
    (List.mem_cons_self ..) (by norm_num [InBox, lo, hi])
    (by norm_num [hi, abs_le]) (by norm_num [hi, abs_le]) (by norm_num [hi, abs_le])
/-- the full content of that grid is a permutation of the two placed objects -/
example : (grid4 fnQ 0 (1/4) lo hi [((7 : Nat), hi), (8, lo)]).all.Perm [7, 8] :=
  content_exactly_once4 setupQ _ (by
      intro op hop
      simp only [List.mem_cons, List.not_mem_nil, or_false] at hop
      rcases hop with rfl | rfl <;> norm_num [InBox, lo, hi])
/-- `uspg_3d`: a second object placed on the same corner replaces the first -/
example : (grid3 fnQ 0 (1/4) lo hi ([((7 : Nat), hi)] ++ [(9, hi)])).content
    (ix fnQ (dims fnQ 0 (1/4) lo hi) hi).1 (ix fnQ (dims fnQ 0 (1/4) lo hi) hi).2.1 (ix fnQ (dims fnQ 0 (1/4) lo hi) hi).2.2 = some 9 :=
  retrievable3 setupQ _ (by
      intro op hop
      simp only [List.mem_cons, List.not_mem_nil, or_false] at hop
      subst hop; norm_num [InBox, lo, hi]) 9 (by norm_num [InBox, lo, hi])
end nonvacuous

end Simu.C20
