def hello := "world"
