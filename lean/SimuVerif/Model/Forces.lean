import SimuVerif.Gen.Forces
/-
  C02 — the internal forces of a cell: the loops of `cell::apply_internal_forces`
  (`/repo/src/mesh/cell.cpp`) as folds over the face list / the edge list.  The arithmetic done for
  one face or one hinge is NOT written here: it is `Gen.Forces.*`, regenerated from the C++ text on
  every run.  What is hand-written (and tied to the code by the correspondence harness
  `harness/h_forces.cpp` + `Driver/C02.lean`):
    * which node positions / cached face quantities / parameters are handed to the generated bodies
      (the binding lines `node& n1 = node_lst_[f.n1_id_]` … that the translator requires verbatim),
    * the edge set: one hinge per undirected edge, `f1` the face of lower index, `n3`/`n4` by
      `face::get_opposite_node`, edges visited in the order of `std::set<edge>` (Cantor hash),
    * accumulation of `add_force` into the nodes.
  Core Lean only (compiled into `drv_c02`); polymorphic in the scalar.
  Domain: every face is used, face type ids are < number of face types, the surface is a closed
  manifold (what `initialize_cell_properties(true)` accepts).
-/
namespace Simu.Forces
open Simu Simu.Gen.Forces

/-- a triangle: node ids in winding order, face type id -/
structure Face where
  a : Nat
  b : Nat
  c : Nat
  ty : Nat
deriving DecidableEq, Repr

structure FaceType (R : Type) where
  tension : R
  bending : R

/-- the scalars `apply_internal_forces` reads: `cell_type_parameters`, the members `growth_rate_`,
    `target_volume_` of the cell, and the time step -/
structure Params (R : Type) where
  K : R          -- bulk_modulus_
  maxP : R       -- max_pressure_
  aem : R        -- area_elasticity_modulus_
  iso : R        -- target_isoperimetric_ratio_
  angf : R       -- angle_regularization_factor_
  minVol : R     -- min_vol_
  growth : R     -- growth_rate_
  tvol : R       -- target_volume_ (before the call)
  dt : R         -- time_step
  ft : List (FaceType R)

/-- a force added to a node: `node_lst_[id].add_force(f)` -/
abbrev Contrib (R : Type) := Nat × V3 R

variable {R : Type} [Add R] [Sub R] [Mul R] [Div R] [Neg R] [Lit R] [LT R] [LE R] [DecidableLT R] [DecidableLE R]

def Params.ftOf (p : Params R) (i : Nat) : FaceType R := p.ft.getD i ⟨lit 0, lit 0⟩

/-- `update_face_normal_and_area`: the cached (unit normal, area) of a face -/
def faceGeom (fx : FX R) (x : Nat → V3 R) (f : Face) : V3 R × R :=
  faceNormalArea fx (x f.a) (x f.b) (x f.c)

/-- `compute_area`: `std::accumulate` over the faces from 0 -/
def cellArea (fx : FX R) (x : Nat → V3 R) (F : List Face) : R :=
  F.foldl (fun s f => s + (faceGeom fx x f).2) (lit 0)

/-- `cell::get_volume_reference_point`: the loop over `face_lst_` returns at the first USED face (`F` is the list of the
    used faces in slot order, see `liveFaces`), and falls through to the default when no face is used -/
def volRefPoint (x : Nat → V3 R) (F : List Face) : V3 R :=
  (F.head?.map fun f => volRefOfFace (x f.a) (x f.b) (x f.c)).getD volRefDefault

/-- the accumulation loop of `compute_volume` with the coordinates taken relative to `o` -/
def cellVol6At (x : Nat → V3 R) (o : V3 R) (F : List Face) : R :=
  F.foldl (fun s f => s + volTerm o (x f.a) (x f.b) (x f.c)) (lit 0)

/-- `const vec3 origin = get_volume_reference_point();` and the accumulation loop of `compute_volume`
    (six times the signed volume) -/
def cellVol6 (x : Nat → V3 R) (F : List Face) : R :=
  cellVol6At x (volOrigin (volRefPoint x F)) F

/-- `compute_volume` -/
def cellVolume (x : Nat → V3 R) (F : List Face) : R := volFinish (cellVol6 x F)

/-- the scalars the cell holds after the first five statements of `apply_internal_forces` -/
structure Pre (R : Type) where
  area : R
  volume : R
  tvol : R
  pressure : R
  targetArea : R

def prelude (fx : FX R) (x : Nat → V3 R) (F : List Face) (p : Params R) : Pre R :=
  let area := cellArea fx x F
  let volume := cellVolume x F
  let tvol := targetVolume p.tvol p.dt p.growth p.minVol
  let pr := Gen.Forces.pressure fx p.K p.maxP volume tvol
  { area := area, volume := volume, tvol := tvol, pressure := pr,
    targetArea := tensionTargetArea fx p.iso volume }

/-- `apply_pressure_on_surface` -/
def pressureContribs (fx : FX R) (x : Nat → V3 R) (F : List Face) (P : R) : List (Contrib R) :=
  F.flatMap fun f =>
    let g := faceGeom fx x f
    let r := pressureFace g.1 g.2 P
    [(f.a, r.1), (f.b, r.2.1), (f.c, r.2.2)]

/-- `apply_surface_tension_and_membrane_elasticity` -/
def tensionContribs (fx : FX R) (x : Nat → V3 R) (F : List Face) (p : Params R) (area targetArea : R) :
    List (Contrib R) :=
  F.flatMap fun f =>
    let g := faceGeom fx x f
    let r := tensionFace fx (x f.a) (x f.b) (x f.c) g.1 g.2 (p.ftOf f.ty).tension p.aem area targetArea
    [(f.a, r.1), (f.b, r.2.1), (f.c, r.2.2)]

/-- `regularize_all_face_angles` -/
def angleContribs (fx : FX R) (x : Nat → V3 R) (F : List Face) (angf : R) : List (Contrib R) :=
  F.flatMap fun f =>
    let r := angleFace fx (x f.a) (x f.b) (x f.c) angf
    [(f.a, r.1), (f.b, r.2.1), (f.c, r.2.2)]

/-! ### the edge set -/

/-- the face has both nodes (the edge `{u,v}` is one of its sides when `u ≠ v`) -/
def Face.hasNodes (f : Face) (u v : Nat) : Bool :=
  (f.a == u || f.b == u || f.c == u) && (f.a == v || f.b == v || f.c == v)

/-- `face::get_opposite_node`: the first node of the face that is neither `u` nor `v` -/
def Face.opposite (f : Face) (u v : Nat) : Nat :=
  if f.a ≠ u ∧ f.a ≠ v then f.a else if f.b ≠ u ∧ f.b ≠ v then f.b else f.c

/-- the three sides of a face as directed node pairs, in the order `generate_edge_set` inserts them -/
def Face.sides (f : Face) : List (Nat × Nat) := [(f.a, f.b), (f.b, f.c), (f.c, f.a)]

/-- an `edge` of `edge_set_` with what the bending loop derives from it -/
structure Hinge where
  n1 : Nat      -- e.n1(): the smaller node id
  n2 : Nat      -- e.n2()
  f1 : Face     -- face_lst_[e.f1()]: the first face (in face order) that has the edge
  f2 : Face     -- face_lst_[e.f2()]: the second one
  n3 : Nat      -- f1.get_opposite_node(n1, n2)
  n4 : Nat      -- f2.get_opposite_node(n1, n2)
deriving DecidableEq, Repr

def mkHinge (u v : Nat) (f g : Face) : Hinge :=
  let lo := if u < v then u else v
  let hi := if u < v then v else u
  { n1 := lo, n2 := hi, f1 := f, f2 := g, n3 := f.opposite lo hi, n4 := g.opposite lo hi }

/-- one hinge per pair (face, later face sharing a side): for a manifold surface exactly the
    edges of `edge_set_`, with `f1` the face of lower index -/
def hinges : List Face → List Hinge
  | [] => []
  | f :: rest =>
    (f.sides.filterMap fun s => (rest.find? (fun g => g.hasNodes s.1 s.2)).map (mkHinge s.1 s.2 f))
      ++ hinges rest

/-- `edge::hash` (Cantor pairing), the order of `std::set<edge>` -/
def Hinge.hash (h : Hinge) : Nat := (h.n1 + h.n2) * (h.n1 + h.n2 + 1) / 2 + h.n2

/-- the hinges in the order the bending loop visits them -/
def hingesSorted (F : List Face) : List Hinge :=
  (hinges F).mergeSort (fun h k => h.hash ≤ k.hash)

/-- the edge loop of `apply_bending_forces` over a given edge set -/
def bendingContribsOf (fx : FX R) (x : Nat → V3 R) (p : Params R) (H : List Hinge) : List (Contrib R) :=
  if p.ft.all (fun t => fx.eqb t.bending (lit 0)) then [] else
  H.flatMap fun h =>
    let g1 := faceGeom fx x h.f1
    let g2 := faceGeom fx x h.f2
    let r := bendingHinge fx (x h.n1) (x h.n2) (x h.n3) (x h.n4) g1.1 g2.1 g1.2 g2.2
               (p.ftOf h.f1.ty).bending (p.ftOf h.f2.ty).bending
    [(h.n1, r.1), (h.n2, r.2.1), (h.n3, r.2.2.1), (h.n4, r.2.2.2)]

/-- `apply_bending_forces` on a freshly built cell (edge set = `generate_edge_set`) -/
def bendingContribs (fx : FX R) (x : Nat → V3 R) (F : List Face) (p : Params R) : List (Contrib R) :=
  bendingContribsOf fx x p (hingesSorted F)

/-- `cell::apply_internal_forces`: every `add_force`, in program order -/
def internalContribs (fx : FX R) (x : Nat → V3 R) (F : List Face) (p : Params R) : List (Contrib R) :=
  let pre := prelude fx x F p
  pressureContribs fx x F pre.pressure
    ++ tensionContribs fx x F p pre.area pre.targetArea
    ++ bendingContribs fx x F p
    ++ angleContribs fx x F p.angf

/-! ### cells with unused slots (after `local_mesh_refiner::refine_mesh`, before the next `rebase`)

  An edge merge leaves two face slots and one node slot unused (`is_used() == false`) in `face_lst_` / `node_lst_`;
  every loop of `apply_internal_forces` skips them (`if(f.is_used())`).  The edge set of such a cell is maintained
  incrementally by the refiner (which face is `f1` depends on the history), so it is an input here. -/

/-- a slot of `face_lst_` -/
structure Slot where
  used : Bool
  face : Face
deriving DecidableEq, Repr

/-- the faces the loops visit: the used slots, in slot order -/
def liveFaces (S : List Slot) : List Face := S.filterMap fun s => if s.used then some s.face else none

/-- an `edge` of `edge_set_` as stored: node ids and the slot numbers of its two faces -/
structure EdgeRec where
  n1 : Nat
  n2 : Nat
  f1 : Nat
  f2 : Nat

/-- what the bending loop derives from a stored edge -/
def hingeOfEdge (S : List Slot) (e : EdgeRec) : Hinge :=
  let d : Slot := ⟨false, ⟨0, 0, 0, 0⟩⟩
  let f := (S.getD e.f1 d).face
  let g := (S.getD e.f2 d).face
  { n1 := e.n1, n2 := e.n2, f1 := f, f2 := g, n3 := f.opposite e.n1 e.n2, n4 := g.opposite e.n1 e.n2 }

/-- `cell::apply_internal_forces` on a cell with unused slots and stored edge set `E` (in `std::set` order) -/
def internalContribsSlots (fx : FX R) (x : Nat → V3 R) (S : List Slot) (E : List EdgeRec) (p : Params R) :
    List (Contrib R) :=
  let F := liveFaces S
  let pre := prelude fx x F p
  pressureContribs fx x F pre.pressure
    ++ tensionContribs fx x F p pre.area pre.targetArea
    ++ bendingContribsOf fx x p (E.map (hingeOfEdge S))
    ++ angleContribs fx x F p.angf

/-- the order of the terms above is the order of the calls in the C++ -/
def expectedOrchestration : List String :=
  ["update_all_face_normals_and_areas()", "area_=compute_area()", "volume_=compute_volume()",
   "update_target_volume(time_step)", "update_pressure()", "apply_pressure_on_surface()",
   "apply_surface_tension_and_membrane_elasticity()", "apply_bending_forces()",
   "regularize_all_face_angles()"]

/-! ### accumulation into the nodes -/

/-- `node::force_` of `n` nodes after the `add_force` calls `cs` (forces start at zero) -/
def accumulate (n : Nat) (cs : List (Contrib R)) : Array (V3 R) :=
  cs.foldl (fun acc c => acc.modify c.1 (fun v => v + c.2)) (Array.replicate n V3.zero)

end Simu.Forces
