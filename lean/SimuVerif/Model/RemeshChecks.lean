import SimuVerif.Model.Remesh
import SimuVerif.Model.Surface
/-
  Boolean checkers for the hypotheses of the refinement theorems `C01.split_refines` / `C01.swap_refines`
  (`FaceFreeOk`, `EdgeFaces`, `EdgeIdxSound`, the surface invariant of the live triangles, node free-list
  invariant).  Core Lean only: the driver evaluates them on every executed split / swap, so that the theorems
  apply to exactly the operations the correspondence harness compared with the real code.
  `Properties/C01.lean` proves that each checker implies the proposition it stands for (`checks_sound`).
-/
namespace Simu.Remesh
open Simu
section
variable {R : Type} [Add R] [Sub R] [Mul R] [Div R] [Neg R] [Lit R] [LT R] [LE R] [DecidableLT R]
  [DecidableLE R] [DecidableEq R]

def chkTriOf (f : Face R) : Option Surface.Tri := if f.used then some (f.n1, f.n2, f.n3) else none

def chkSlots (c : Cell R) : List (Option Surface.Tri) := c.faces.toList.map chkTriOf

def chkFaceFreeOk (c : Cell R) : Bool :=
  c.freeFaces.all (fun i => match c.faces[i]? with | some f => !f.used | none => false) &&
    decide c.freeFaces.Nodup

def chkLiveWith (c : Cell R) (g x y : Nat) : Bool :=
  match (chkSlots c)[g]? with
  | some (some t) => Surface.hasNode t x && Surface.hasNode t y
  | _ => false

def chkEdgeFaces (c : Cell R) (ed : Edge) (x y : Nat) : Bool :=
  match ed.f1, ed.f2 with
  | some g1, some g2 => g1 != g2 && chkLiveWith c g1 x y && chkLiveWith c g2 x y
  | _, _ => false

def chkEdgeIdxSound (c : Cell R) : Bool := c.edges.all (fun ed => chkEdgeFaces c ed ed.n1 ed.n2)

def chkNodeFreeOk (c : Cell R) : Bool :=
  c.freeNodes.all (fun i => match c.nodes[i]? with | some n => !n.used | none => false) && decide c.freeNodes.Nodup

/-- everything `split_refines` asks of the state and the popped edge -/
def chkSplitHyps (c : Cell R) (e : Edge) : Bool :=
  chkFaceFreeOk c && Surface.closedSimpleB (abs c) && Surface.nonDegB (abs c) && (e.n1 != e.n2) && chkEdgeFaces c e e.n1 e.n2

/-- everything `swap_refines` asks -/
def chkSwapHyps (c : Cell R) (e : Edge) : Bool :=
  chkSplitHyps c e && chkEdgeIdxSound c && Surface.swapGuardB (abs c) e.n1 e.n2
end
end Simu.Remesh
