import SimuVerif.Model.Scalar
/-
  3-vectors, mirroring `vec3` (`/repo/src/math_modules/vec3.cpp`): componentwise +,-,
  scalar * and /, dot, cross, squared norm.
-/
namespace Simu

structure V3 (R : Type) where
  x : R
  y : R
  z : R
deriving Repr, BEq, DecidableEq

namespace V3
variable {R : Type}

section ops
variable [Add R] [Sub R] [Mul R] [Div R] [Neg R]

@[reducible] def add (a b : V3 R) : V3 R := ⟨a.x + b.x, a.y + b.y, a.z + b.z⟩
@[reducible] def sub (a b : V3 R) : V3 R := ⟨a.x - b.x, a.y - b.y, a.z - b.z⟩
@[reducible] def smul (a : V3 R) (k : R) : V3 R := ⟨a.x * k, a.y * k, a.z * k⟩
@[reducible] def sdiv (a : V3 R) (k : R) : V3 R := ⟨a.x / k, a.y / k, a.z / k⟩
@[reducible] def neg (a : V3 R) : V3 R := ⟨-a.x, -a.y, -a.z⟩
/-- `vec3::dot`: x*x' + y*y' + z*z', left to right -/
@[reducible] def dot (a b : V3 R) : R := a.x * b.x + a.y * b.y + a.z * b.z
/-- `vec3::cross` -/
@[reducible] def cross (a b : V3 R) : V3 R :=
  ⟨a.y * b.z - a.z * b.y, a.z * b.x - a.x * b.z, a.x * b.y - a.y * b.x⟩
@[reducible] def normSq (a : V3 R) : R := dot a a

instance : Add (V3 R) := ⟨add⟩
instance : Sub (V3 R) := ⟨sub⟩
instance : Neg (V3 R) := ⟨neg⟩
instance : HMul (V3 R) R (V3 R) := ⟨smul⟩
instance : HDiv (V3 R) R (V3 R) := ⟨sdiv⟩
end ops

end V3
end Simu
