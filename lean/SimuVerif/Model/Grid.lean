import SimuVerif.Gen.Grid
/-
  C20 — executable model of `uspg_3d<T>` / `uspg_4d<T>` (include/uspg).  Core Lean only.

  All arithmetic (voxel counts, origin shift, floor/cast/clamp of the index, flattening, clipped
  3×3×3 block) is `Gen/Grid.lean`, regenerated from the headers on every run.  What is written by
  hand here is the container part, statement by statement:

    voxel_lst_                     : the flat `std::vector`, a `List` of length `total`
    uspg_4d voxel                  : `std::forward_list<T>`, a `List α` whose head is the front
    uspg_3d voxel                  : `std::optional<T>`, an `Option α`
    place_object (4d)              : `voxel_lst_[id].push_front(object)`
    place_object (3d)              : `voxel_lst_[id] = object`
    get_neighborhood / get_grid_content : x{ y{ z{ … }}} loops; every element met is `push_front`ed
                                     on the result, so the result is the reverse of the
                                     concatenation of the visited voxels in visiting order.

  Reads and writes outside the vector are undefined behaviour in C++; here they read an empty
  voxel / write nothing.  `Properties/C20.lean` proves that they never happen for points of the
  declared box (`index_in_range`, `flatten_lt`, `*_reads_in_range`), so no theorem relies on it.
-/
namespace Simu.Grid
open Simu

variable {R : Type} [Add R] [Sub R] [Mul R] [Div R] [Neg R] [Lit R]
variable {α : Type}

/-- the half-open index range `[s, e)` of a `for(size_t i = s; i < e; i++)` loop -/
def loopRange (s e : Nat) : List Nat := List.range' s (e - s)

/-- the voxels visited by `for x in [sx,ex) for y in [sy,ey) for z in [sz,ez)`, in visiting order,
    as positions in the flat vector -/
def visit (g : Dims R) (s e : Nat × Nat × Nat) : List Nat :=
  (loopRange s.1 e.1).flatMap fun x =>
    (loopRange s.2.1 e.2.1).flatMap fun y =>
      (loopRange s.2.2 e.2.2).map fun z => Gen.flatten g x y z

/-! ### uspg_4d -/

structure G4 (R α : Type) where
  dims : Dims R
  vox : List (List α)

/-- constructor: `voxel_size_ = voxel_size; update_dimensions(…)`; `resize(total, {})` after `clear()` -/
def G4.create (fn : Fn R) (δ v min_x min_y min_z max_x max_y max_z : R) : G4 R α :=
  let d := Gen.updateDims4 fn δ v min_x min_y min_z max_x max_y max_z
  ⟨d, List.replicate d.total []⟩

/-- `place_object(object, size_t voxel_id)` -/
def G4.placeAt (g : G4 R α) (o : α) (id : Nat) : G4 R α :=
  { g with vox := g.vox.modify id (fun l => o :: l) }

/-- `place_object(object, x, y, z)` -/
def G4.place (fn : Fn R) (g : G4 R α) (o : α) (p : V3 R) : G4 R α :=
  g.placeAt o (Gen.voxelId fn g.dims p.x p.y p.z)

/-- `get_voxel_content(i, j, k)` -/
def G4.content (g : G4 R α) (i j k : Nat) : List α := g.vox.getD (Gen.flatten g.dims i j k) []

/-- all elements of the given voxels, each voxel front to back, pushed to the front of the result -/
def G4.collect (g : G4 R α) (ids : List Nat) : List α := (ids.flatMap fun id => g.vox.getD id []).reverse

/-- `get_neighborhood(unsigned, unsigned, unsigned)` -/
def G4.nbhAt (g : G4 R α) (i j k : Nat) : List α :=
  let r := Gen.nbhRange4 g.dims i j k
  g.collect (visit g.dims r.1 r.2)

/-- `get_neighborhood(double, double, double)` -/
def G4.nbh (fn : Fn R) (g : G4 R α) (q : V3 R) : List α :=
  let (i, j, k) := Gen.nbhIndex4 fn g.dims q.x q.y q.z
  g.nbhAt i j k

/-- `get_grid_content()` -/
def G4.all (g : G4 R α) : List α :=
  g.collect (visit g.dims (0, 0, 0) (g.dims.nx, g.dims.ny, g.dims.nz))

/-- a history of placements -/
def G4.placeAll (fn : Fn R) (g : G4 R α) : List (α × V3 R) → G4 R α
  | [] => g
  | (o, p) :: rest => G4.placeAll fn (g.place fn o p) rest

/-! ### uspg_3d -/

structure G3 (R α : Type) where
  dims : Dims R
  vox : List (Option α)

def G3.create (fn : Fn R) (δ v min_x min_y min_z max_x max_y max_z : R) : G3 R α :=
  let d := Gen.updateDims3 fn δ v min_x min_y min_z max_x max_y max_z
  ⟨d, List.replicate d.total none⟩

/-- `place_object(object, x, y, z)`: `voxel_lst_[get_voxel_index(x, y, z)] = object` -/
def G3.place (fn : Fn R) (g : G3 R α) (o : α) (p : V3 R) : G3 R α :=
  { g with vox := g.vox.set (Gen.voxelId fn g.dims p.x p.y p.z) (some o) }

/-- `get_voxel_content(i, j, k)` -/
def G3.content (g : G3 R α) (i j k : Nat) : Option α := (g.vox.getD (Gen.flatten g.dims i j k) none)

def G3.collect (g : G3 R α) (ids : List Nat) : List α := (ids.filterMap fun id => g.vox.getD id none).reverse

def G3.nbhAt (g : G3 R α) (i j k : Nat) : List α :=
  let r := Gen.nbhRange3 g.dims i j k
  g.collect (visit g.dims r.1 r.2)

def G3.nbh (fn : Fn R) (g : G3 R α) (q : V3 R) : List α :=
  let (i, j, k) := Gen.nbhIndex3 fn g.dims q.x q.y q.z
  g.nbhAt i j k

def G3.all (g : G3 R α) : List α :=
  g.collect (visit g.dims (0, 0, 0) (g.dims.nx, g.dims.ny, g.dims.nz))

def G3.placeAll (fn : Fn R) (g : G3 R α) : List (α × V3 R) → G3 R α
  | [] => g
  | (o, p) :: rest => G3.placeAll fn (g.place fn o p) rest

end Simu.Grid
