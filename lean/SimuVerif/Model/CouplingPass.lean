import SimuVerif.Model.Vec
/-
  C03 (addition) — executable model of the TAIL of
  `contact_node_node_via_coupling::resolve_all_contacts`
  (/repo/src/contact_models/contact_node_node_via_coupling.cpp, CONTACT_MODEL_INDEX 1), i.e. the two SEQUENTIAL
  in-place loops that follow the parallel contact search:

    (A) symmetrisation   for(cell_ptr c1: cell_lst) for(node& n1: c1->node_lst_)
                           if(n1.is_used() && n1.coupled_node_.has_value()){
                             const auto [c2_id, n2_id] = n1.coupled_node_.value();
                             const node& n2 = cell_lst[c2_id]->node_lst_[n2_id];
                             if(!n2.coupled_node_.has_value() || n2.coupled_node_.value() != (c1 local id, n1 local id))
                               n1.coupled_node_ = std::nullopt; }

    (B) midpoints        for(c1_id = 0 .. ) for(node& n1: c1->node_lst_)
                           if(n1.is_used()) if(n1.coupled_node_.has_value()){
                             const auto [c2_id, n2_id] = n1.coupled_node_.value();
                             if(c1_id > c2_id){
                               node& n2 = cell_lst[c2_id]->node_lst_[n2_id];
                               const vec3 center_point = (n1.pos() + n2.pos()) * 0.5;
                               n1.pos_.reset(center_point); n2.pos_.reset(center_point); } }

  Both loops are modelled statement by statement as IN-PLACE sequential folds over the slot schedule (cells in list
  order, node slots in slot order): every test reads the CURRENT state, which earlier visits may already have written.

  Stated assumption ("ids are indices"): `c1->get_local_id()` is the position of the cell in `cell_lst` and
  `n1.get_local_id()` the position of the node in `node_lst_` (what the solver and the cell class maintain), so the
  pair loop (A) compares with is the slot `k` being visited.

  A coupling of a USED node that names a slot which does not exist makes the C++ read out of bounds (loop (A) has no
  check at all, loop (B) only `assert`s, which are compiled out): undefined behaviour.  The model does not invent a
  result: the step, and with it the whole pass, returns `none`.

  Core Lean only; polymorphic in the scalar (`Float` in the driver, anything in the theorems).  `0.5` is
  `lit 1 / lit 2` (exact in binary floating point).
-/
namespace Simu.Coupling
open Simu

/-- a slot of the population: (index of the cell in `cell_lst`, index of the node in `node_lst_`) -/
abbrev Slot := Nat × Nat

/-- what the two loops read and write of a node -/
structure CNode (R : Type) where
  /-- `is_used_` -/
  used : Bool
  /-- `coupled_node_` -/
  coup : Option Slot
  /-- `pos_` -/
  pos : V3 R
deriving Repr, DecidableEq

abbrev Pop (R : Type) := List (List (CNode R))

section getset
variable {α : Type}

/-- `cell_lst[q.1]->node_lst_[q.2]`, `none` when out of range -/
def get (p : List (List α)) (q : Slot) : Option α :=
  match p[q.1]? with
  | none => none
  | some l => l[q.2]?

/-- in-place write of a slot (no-op when out of range) -/
def set (p : List (List α)) (q : Slot) (x : α) : List (List α) :=
  match p[q.1]? with
  | none => p
  | some l => p.set q.1 (l.set q.2 x)

end getset

/-- the order of the two nested loops: cells in list order, slots in slot order -/
def slotsFrom (i : Nat) : List Nat → List Slot
  | [] => []
  | n :: rest => (List.range n).map (fun j => (i, j)) ++ slotsFrom (i + 1) rest

def slots {α : Type} (p : List (List α)) : List Slot := slotsFrom 0 (p.map List.length)

variable {R : Type} [Add R] [Sub R] [Mul R] [Div R] [Neg R] [Lit R]

/-- one visit of loop (A) -/
def symStep (p : Pop R) (k : Slot) : Option (Pop R) :=
  match get p k with
  | none => some p
  | some n1 =>
    if n1.used then                                        -- n1.is_used() &&
      match n1.coup with                                   -- n1.coupled_node_.has_value()
      | none => some p
      | some j =>                                          -- const auto [c2_id, n2_id] = n1.coupled_node_.value();
        match get p j with                                 -- const node& n2 = cell_lst[c2_id]->node_lst_[n2_id];
        | none => none                                     --   (out of range: undefined behaviour)
        | some n2 =>
          if n2.coup = some k then some p                  -- !(!n2.has_value() || n2.value() != make_pair(c1 id, n1 id))
          else some (set p k { n1 with coup := none })     -- n1.coupled_node_ = std::nullopt;
    else some p

/-- loop (A): the in-place fold over the schedule -/
def symmetrise (p : Pop R) : Option (Pop R) := (slots p).foldlM symStep p

/-- `0.5` -/
def half : R := lit 1 / lit 2

/-- one visit of loop (B) -/
def midStep (p : Pop R) (k : Slot) : Option (Pop R) :=
  match get p k with
  | none => some p
  | some n1 =>
    if n1.used then                                        -- if(n1.is_used())
      match n1.coup with                                   -- if(n1.coupled_node_.has_value())
      | none => some p
      | some j =>                                          -- const auto [c2_id, n2_id] = ...
        if j.1 < k.1 then                                  -- if(c1_id > c2_id)
          match get p j with                               -- node& n2 = c2->node_lst_[n2_id];  (asserts only)
          | none => none
          | some n2 =>
            let c : V3 R := (n1.pos + n2.pos) * (half : R)  -- (n1.pos() + n2.pos()) * 0.5
            some (set (set p k { n1 with pos := c }) j { n2 with pos := c })   -- n1.pos_.reset(c); n2.pos_.reset(c);
        else some p
    else some p

/-- loop (B) -/
def midpoints (p : Pop R) : Option (Pop R) := (slots p).foldlM midStep p

/-- the tail of `resolve_all_contacts`: loop (A) then loop (B) -/
def pass (p : Pop R) : Option (Pop R) := (symmetrise p).bind midpoints

end Simu.Coupling
