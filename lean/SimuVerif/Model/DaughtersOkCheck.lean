import SimuVerif.Model.TissueD2
import SimuVerif.Model.CellOkCheck
/-
  C14 — the per-division condition of the invariants theorems across divisions (Properties/C14DivisionInvariants.lean): both
  meshes built by `create_daughter_cells` (`TissueD2.initDaughterCell`) pass the Boolean test `Remesh.cellOkB` of the mesh
  invariants.  Evaluated by the driver (`tissued2`) on every executed division.

  Core Lean only (compiled into `drv_c14`).
-/
namespace Simu.TissueD2
open Simu Simu.Forces Simu.Gen Simu.Remesh Simu.TissueR Simu.TissueP Simu.TissueD

section
variable {R : Type} [Add R] [Sub R] [Mul R] [Div R] [Neg R] [Lit R] [LT R] [LE R] [DecidableLT R] [DecidableLE R] [DecidableEq R]
  [DEq R] [Geo.SEq R]

/-- the run-time condition of one division: both meshes built by `create_daughter_cells` pass the Boolean test of the mesh
    invariants (`true` when the division fails before: then there are no daughters) -/
def daughtersOkRebased (fn : Fn R) (c : CellTR R) (inp : DivIn R) : Bool :=
  match cutAndTriangulate fn c.mesh (centroidM c) inp.axis inp.d with
  | .error _ => true
  | .ok mf =>
    match Division.daughterFaces mf.1 mf.2 (centroidM c) inp.axis with
    | .error _ => true
    | .ok TT =>
      match initDaughterCell fn c mf.1.nodes TT.1, initDaughterCell fn c mf.1.nodes TT.2 with
      | .ok d1, .ok d2 => cellOkB d1.mesh && cellOkB d2.mesh
      | _, _ => true

def daughtersOkB (fn : Fn R) (c : CellTR R) (inp : DivIn R) : Bool :=
  match rebaseCell c with
  | .error _ => true
  | .ok c' => daughtersOkRebased fn c' inp

/-- every ready cell's division satisfies the per-division condition -/
def insDaughtersGo (fn : Fn R) : List (CellTR R) → List (DivIn R) → Bool
  | [], _ => true
  | c :: cs, ins =>
    if readyD c then
      match ins with
      | [] => true
      | inp :: rest => daughtersOkB fn c inp && insDaughtersGo fn cs rest
    else insDaughtersGo fn cs ins

def insDaughtersOk (fn : Fn R) (b : StateTR R) (ins : List (DivIn R)) : Bool :=
  if dividesNow b.iter then insDaughtersGo fn b.cells ins else true

/-- the per-division condition of one iteration: for every division executed in it, both meshes `create_daughter_cells` builds
    pass `cellOkB` -/
def divCondD2 (fn : Fn R) (K : ConstsTR R) (s : StateTP R) (ins : List (DivIn R)) : Bool :=
  match saveMeshT fn K s.base with
  | .error _ => true
  | .ok b1 => insDaughtersOk fn b1 ins

/-- … of every iteration of a run -/
def divCondRunD2 (fn : Fn R) (fx : FX R) (K : ConstsTR R) : List (List (DivIn R)) → StateTP R → Bool
  | [], _ => true
  | ins :: rest, s => divCondD2 fn K s ins &&
    match tissueIterationD2 fn fx K s ins with
    | .error _ => true
    | .ok s' => divCondRunD2 fn fx K rest s'

end

end Simu.TissueD2
