/-
  C08 — the population of cells: identities, list positions and stored cross-references.
  Hand-written executable model (core Lean only) of what `solver::solver`, `solver::run_iteration`,
  `cell_divider::run`, `contact_node_node_via_coupling::run`, `epithelial_cell::special_polarization_update`,
  `cell::apply_internal_forces` and `time_integration_scheme::update_nodes_positions` do to

    * `cell::cell_id_`, `cell::local_id_`, the position of a cell in `cell_lst_`, `solver::max_cell_id_`,
    * `node::coupled_node_ = (local id of the partner cell, node id of the partner node)`,
    * `face::owner_cell_` (a pointer: modelled by the object number `obj` of the cell it points to),
    * `face::type_id_` (an index into `cell_type_->face_types_`).

  Geometry and mechanics are NOT modelled: everything they decide enters as a parameter of the
  operation (which cells divide, which are removed, what the meshes look like after refinement /
  rebase / division, which node is coupled to which face corner, what the polarisation tests answer).
  The theorems quantify over all values of these parameters.
-/
namespace Simu.Pop

/-- `node`: `node_id_`, `is_used_`, `coupled_node_` -/
structure Node where
  nid : Nat
  used : Bool
  coupled : Option (Nat × Nat)
deriving Repr, DecidableEq, Inhabited

/-- `face`: `is_used_`, `type_id_`, `owner_cell_` (object number, `none` = null pointer), node ids -/
structure Face where
  used : Bool
  typeIdx : Nat
  owner : Option Nat
  n1 : Nat
  n2 : Nat
  n3 : Nat
deriving Repr, DecidableEq, Inhabited

/-- `cell`.  `obj` stands for the address of the object (what a `cell_ptr` compares equal on);
`kind = cell_type_->global_type_id_` (0 = epithelial), `nTypes = cell_type_->face_types_.size()`. -/
structure Cell where
  obj : Nat
  cellId : Nat
  localId : Nat
  kind : Nat
  nTypes : Nat
  isStatic : Bool
  nodes : List Node
  faces : List Face
deriving Repr, DecidableEq, Inhabited

structure Mesh where
  nodes : List Node
  faces : List Face
deriving Repr, DecidableEq, Inhabited

/-- `solver`: `cell_lst_`, `max_cell_id_`, `iteration_`; `nextObj` numbers the allocations (ghost). -/
structure State where
  cells : List Cell
  maxId : Nat
  nextObj : Nat
  iter : Nat
deriving Repr, DecidableEq, Inhabited

def ids (s : State) : List Nat := s.cells.map (·.cellId)
def objs (s : State) : List Nat := s.cells.map (·.obj)

/-! ### per-cell well-formedness (what the mesh operations of C01/C09/C11 must deliver) -/

def nodeUsedAt (ns : List Node) (k : Nat) : Bool :=
  match ns[k]? with
  | some n => n.used
  | none => false

/-- a used face points back to its cell and its three node ids designate used nodes of the cell -/
def faceRefsOKb (obj : Nat) (ns : List Node) (f : Face) : Bool :=
  !f.used || (f.owner == some obj && nodeUsedAt ns f.n1 && nodeUsedAt ns f.n2 && nodeUsedAt ns f.n3)

/-- … and its type index is inside the face-type table of the cell type -/
def faceOKb (obj nTypes : Nat) (ns : List Node) (f : Face) : Bool :=
  faceRefsOKb obj ns f && (!f.used || decide (f.typeIdx < nTypes))

def nidsOKb (ns : List Node) : Bool := ns.zipIdx.all (fun p => p.1.nid == p.2)

/-- number of face types the code writes for a cell of this kind (contact model 1, polarisation
mode 1): epithelial cells are marked apical (0) / lateral (1) -/
def reqTypes (kind : Nat) : Nat := if kind = 0 then 2 else 1

def cellOKb (c : Cell) : Bool :=
  nidsOKb c.nodes && c.faces.all (faceOKb c.obj c.nTypes c.nodes) && decide (reqTypes c.kind ≤ c.nTypes)

/-! ### start-up: `solver::solver` lines 35-39 -/

/-- `set_id(max_cell_id_++); set_local_id(get_id())` for every cell in list order -/
def assignIds : List Cell → Nat → List Cell × Nat
  | [], m => ([], m)
  | c :: cs, m =>
    let r := assignIds cs (m + 1)
    ({ c with cellId := m, localId := m } :: r.1, r.2)

def init (cells : List Cell) (nextObj : Nat) : State :=
  let r := assignIds cells 0
  { cells := r.1, maxId := r.2, nextObj := nextObj, iter := 0 }

/-! ### meshes replaced by a mesh operation (`rebase`, `refine_meshes`) -/

def setMesh (c : Cell) (m : Mesh) : Cell := { c with nodes := m.nodes, faces := m.faces }

/-- the face types of the new mesh are `0` or copied from a used face of the old mesh
(`local_mesh_refiner.cpp` copies `type_id_`, new faces start at `0`) -/
def typesFromb (old : List Face) (new : List Face) : Bool :=
  new.all (fun f => !f.used || f.typeIdx == 0 || old.any (fun g => g.used && g.typeIdx == f.typeIdx))

/-- what a mesh operation may produce for the object `obj` whose faces were `old`: node ids equal
positions, used faces point to `obj` and to used nodes, face types are `0` or inherited -/
def meshForb (obj : Nat) (old : List Face) (m : Mesh) : Bool :=
  nidsOKb m.nodes && m.faces.all (faceRefsOKb obj m.nodes) && typesFromb old m.faces

def meshOKb (c : Cell) (m : Mesh) : Bool := meshForb c.obj c.faces m

def remeshCell (ms : List (Option Mesh)) (i : Nat) (c : Cell) : Cell :=
  match ms[i]? with
  | some (some m) => setMesh c m
  | _ => c

/-- position `i` of the list gets the mesh `ms[i]` (absent = untouched) -/
def remesh (ms : List (Option Mesh)) (s : State) : State :=
  { s with cells := s.cells.mapIdx (remeshCell ms) }

def remeshOKb (ms : List (Option Mesh)) (s : State) : Bool :=
  s.cells.zipIdx.all (fun p => match ms[p.2]? with
    | some (some m) => meshOKb p.1 m
    | _ => true)

/-! ### `cell_divider::run` -/

/-- what `divide_cell` returned for one mother: the two meshes (nodes are copies of the mother's
nodes, stale couplings included) and the indeterminate `local_id_` of the fresh objects -/
structure Daughters where
  m1 : Mesh
  m2 : Mesh
  junk1 : Nat
  junk2 : Nat
deriving Repr, DecidableEq, Inhabited

/-- the statements of the critical section of `cell_divider::run`, in source order (tools/gen/c08_population.py) -/
inductive DivStmt
  | clearMother     -- cell_lst[i]->clear_data();
  | markDelete      -- cells_to_delete_lst.push_back(i);
  | freshId1        -- daughter_1->cell_id_ = max_cell_id_++;
  | freshId2        -- daughter_2->cell_id_ = max_cell_id_++;
  | push1           -- cell_lst.push_back(daughter_1);
  | push2           -- cell_lst.push_back(daughter_2);
  | collect1        -- daughter_cell_lst.push_back(daughter_1);
  | collect2        -- daughter_cell_lst.push_back(daughter_2);
deriving Repr, DecidableEq, Inhabited

/-- the statements after the loop: `cell_lst.insert(cell_lst.end(), daughter_cell_lst.begin(), daughter_cell_lst.end())`,
and, inside `if(cells_to_delete_lst.size() > 0)`, the sort, `remove_index` and the renumbering loop -/
inductive DivPost
  | appendDaughters | sortDelete | removeIndex | renumber
deriving Repr, DecidableEq, Inhabited

/-- the calls of `solver::run_iteration`, in source order (tools/gen/c08_population.py) -/
inductive Phase
  | saveMesh | divide | faceTypes | refine | contact | polarise | forces | integrate | stats | remove | renumber
deriving Repr, DecidableEq, Inhabited

/-- the shape of the code as extracted from the C++ text on every run (`SimuVerif/Gen/Population.lean`) -/
structure Code where
  phases : List Phase
  crit : List DivStmt
  /-- statements between the loop and the `if(cells_to_delete_lst.size() > 0)` block -/
  afterLoop : List DivPost
  post : List DivPost
  period : Nat
  /-- what the contact model stores as first / second component of a coupling -/
  cellKey : Cell → Nat
  nodeKey : Node → Nat

structure DState where
  cells : List Cell
  maxId : Nat
  nextObj : Nat
  toDelete : List Nat
  /-- `daughter_cell_lst`: daughters collected during the loop (empty when the code appends them directly) -/
  pending : List Cell
  d1 : Cell
  d2 : Cell
deriving Repr, Inhabited

def clearCell (c : Cell) : Cell := { c with nodes := [], faces := [] }

def runDivStmt (i : Nat) : DState → DivStmt → DState
  | st, .clearMother => { st with cells := st.cells.modify i clearCell }
  | st, .markDelete => { st with toDelete := st.toDelete ++ [i] }
  | st, .freshId1 => { st with d1 := { st.d1 with cellId := st.maxId }, maxId := st.maxId + 1 }
  | st, .freshId2 => { st with d2 := { st.d2 with cellId := st.maxId }, maxId := st.maxId + 1 }
  | st, .push1 => { st with cells := st.cells ++ [st.d1] }
  | st, .push2 => { st with cells := st.cells ++ [st.d2] }
  | st, .collect1 => { st with pending := st.pending ++ [st.d1] }
  | st, .collect2 => { st with pending := st.pending ++ [st.d2] }

/-- the daughter objects as `create_daughter_cells` builds them: `get_cell_same_type(m)` constructs
them with the MOTHER's id and type; faces point to the new object (`set_face_owner_cell`) -/
def mkDaughter (mother : Cell) (obj : Nat) (m : Mesh) (junk : Nat) : Cell :=
  { obj := obj, cellId := mother.cellId, localId := junk, kind := mother.kind, nTypes := mother.nTypes,
    isStatic := mother.isStatic, nodes := m.nodes, faces := m.faces }

/-- one successful division of the cell at position `i` (body of `if(division_result.has_value())`) -/
def divOne (crit : List DivStmt) (st : DState) (i : Nat) (d : Daughters) : DState :=
  match st.cells[i]? with
  | none => st
  | some mother =>
    let st1 := { st with d1 := mkDaughter mother st.nextObj d.m1 d.junk1,
                         d2 := mkDaughter mother (st.nextObj + 1) d.m2 d.junk2,
                         nextObj := st.nextObj + 2 }
    crit.foldl (runDivStmt i) st1

/-- admissible outcome for the mother at position `i`: inside the range of the loop (`n0` = length
at loop entry), not yet divided, daughters' meshes as `initialize_cell_properties` leaves them -/
def divStepOKb (n0 : Nat) (st : DState) (i : Nat) (d : Daughters) : Bool :=
  decide (i < n0) && !st.toDelete.contains i &&
  match st.cells[i]? with
  | none => false
  | some mother => meshForb st.nextObj mother.faces d.m1 && meshForb (st.nextObj + 1) mother.faces d.m2

def divFold (crit : List DivStmt) : DState → List (Nat × Daughters) → DState
  | st, [] => st
  | st, (i, d) :: rest => divFold crit (divOne crit st i d) rest

def divFoldOKb (crit : List DivStmt) (n0 : Nat) : DState → List (Nat × Daughters) → Bool
  | _, [] => true
  | st, (i, d) :: rest => divStepOKb n0 st i d && divFoldOKb crit n0 (divOne crit st i d) rest

/-- `remove_index(v, to_remove)` (utils.hpp) for ascending, distinct indices: the elements at the
listed positions disappear, the order of the others is kept -/
def removeIdxAux {α : Type} : List α → Nat → List Nat → List α
  | [], _, _ => []
  | a :: as, i, rm => if rm.contains i then removeIdxAux as (i + 1) rm else a :: removeIdxAux as (i + 1) rm

def removeIdx {α : Type} (l : List α) (rm : List Nat) : List α := removeIdxAux l 0 rm

/-- `for(id = 0; id < cell_lst.size(); id++) cell_lst[id]->set_local_id(id)` -/
def renumberCells (cells : List Cell) : List Cell := cells.mapIdx (fun i c => { c with localId := i })

def insertAsc (a : Nat) : List Nat → List Nat
  | [] => [a]
  | b :: bs => if a ≤ b then a :: b :: bs else b :: insertAsc a bs

/-- `std::sort(…, std::less<unsigned>())` -/
def sortAsc (l : List Nat) : List Nat := l.foldr insertAsc []

def runDivPost : DState → DivPost → DState
  | st, .appendDaughters => { st with cells := st.cells ++ st.pending, pending := [] }
  | st, .sortDelete => { st with toDelete := sortAsc st.toDelete }
  | st, .removeIndex => { st with cells := removeIdx st.cells st.toDelete }
  | st, .renumber => { st with cells := renumberCells st.cells }

/-- the mothers whose division succeeded (positions in the list at the start of the round, in the
order their critical sections ran) with what `divide_cell` returned -/
abbrev DivEv := List (Nat × Daughters)

def dstate0 (s : State) : DState :=
  { cells := s.cells, maxId := s.maxId, nextObj := s.nextObj, toDelete := [], pending := [], d1 := default, d2 := default }

def divisionRound (code : Code) (ev : DivEv) (s : State) : State :=
  let st0 := divFold code.crit (dstate0 s) ev
  let st := code.afterLoop.foldl runDivPost st0
  let st' := if st.toDelete.length > 0 then code.post.foldl runDivPost st else st
  { s with cells := st'.cells, maxId := st'.maxId, nextObj := st'.nextObj }

def divOKb (code : Code) (ev : DivEv) (s : State) : Bool :=
  divFoldOKb code.crit s.cells.length (dstate0 s) ev

/-! ### `update_face_types` (epithelial cells: every face back to type 0) -/

def resetFaceTypes (c : Cell) : Cell :=
  if c.kind = 0 then { c with faces := c.faces.map (fun f => { f with typeIdx := 0 }) } else c

def updateFaceTypes (s : State) : State := { s with cells := s.cells.map resetFaceTypes }

/-! ### contact phase: `contact_node_node_via_coupling::run` -/

def resetCouplings (c : Cell) : Cell :=
  { c with nodes := c.nodes.map (fun n => if n.used then { n with coupled := none } else n) }

/-- the search found node `k` of the cell at position `i` close to corner `w` of face `fi` of the
cell at position `j` -/
structure Contact where
  i : Nat
  k : Nat
  j : Nat
  fi : Nat
  w : Nat
deriving Repr, DecidableEq, Inhabited

def corner (f : Face) (w : Nat) : Nat := if w = 0 then f.n1 else if w = 1 then f.n2 else f.n3

def lookupObjAux : List Cell → Nat → Nat → Option (Nat × Cell)
  | [], _, _ => none
  | c :: cs, i, o => if c.obj = o then some (i, c) else lookupObjAux cs (i + 1) o

/-- `f->get_owner_cell()`: the object the pointer designates, if it is in the list (position, cell) -/
def lookupObj (cells : List Cell) (o : Nat) : Option (Nat × Cell) := lookupObjAux cells 0 o

def setCoupled (cells : List Cell) (c k : Nat) (v : Nat × Nat) : List Cell :=
  cells.modify c (fun cell => { cell with nodes := cell.nodes.modify k (fun n => { n with coupled := some v }) })

/-- `resolve_contact` as far as the couplings go (lines 171-252): `c2 = f->get_owner_cell()`,
`n2 = c2->node_lst_[f->n?_id_]`, then
`n1.set(c2->get_local_id(), n2->get_local_id()); n2->set(c1->get_local_id(), n1.get_local_id())`.
The guards are those of the code: node used (l.91), face used (l.37), ids differ (l.107). -/
def applyContact (code : Code) (cells : List Cell) (ct : Contact) : List Cell :=
  match cells[ct.i]?, cells[ct.j]? with
  | some c1, some cj =>
    match c1.nodes[ct.k]?, cj.faces[ct.fi]? with
    | some n1, some f =>
      if n1.used && f.used then
        match f.owner.bind (lookupObj cells) with
        | some (p2, c2) =>
          if c1.cellId != c2.cellId then
            match c2.nodes[corner f ct.w]? with
            | some n2 =>
              setCoupled (setCoupled cells ct.i ct.k (code.cellKey c2, code.nodeKey n2)) p2 (corner f ct.w) (code.cellKey c1, code.nodeKey n1)
            | none => cells
          else cells
        | none => cells
      else cells
    | _, _ => cells
  | _, _ => cells

def contactPhase (code : Code) (cs : List Contact) (s : State) : State :=
  { s with cells := cs.foldl (applyContact code) (s.cells.map resetCouplings) }

/-! ### polarisation: `epithelial_cell::special_polarization_update` -/

def coupledAt (ns : List Node) (k : Nat) : Bool :=
  match ns[k]? with
  | some n => n.coupled.isSome
  | none => false

/-- a used face of an epithelial cell whose three nodes are coupled is marked lateral (1) or apical (0)
according to tests on normals and on the edges of the other cell (`pol`) -/
def polariseCell (pol : Nat → Nat → Bool) (i : Nat) (c : Cell) : Cell :=
  if c.kind = 0 then
    { c with faces := c.faces.mapIdx (fun fi f =>
        if f.used && coupledAt c.nodes f.n1 && coupledAt c.nodes f.n2 && coupledAt c.nodes f.n3
        then { f with typeIdx := if pol i fi then 1 else 0 } else f) }
  else c

def polarise (pol : Nat → Nat → Bool) (s : State) : State :=
  { s with cells := s.cells.mapIdx (polariseCell pol) }

/-! ### removal: `solver::run_iteration` lines 151-163 (+ the renumbering loop) -/

/-- `cell_lst_.erase(remove_if(...))`: the cells at the listed positions (those below their minimum
volume) disappear, the order of the others is kept -/
def eraseSmall (rm : List Nat) (s : State) : State := { s with cells := removeIdx s.cells rm }

def renumber (s : State) : State := { s with cells := renumberCells s.cells }

/-! ### one iteration -/

/-- everything the mechanics decide during one iteration -/
structure IterEv where
  save : List (Option Mesh)          -- `save_mesh` → `rebase` of every cell when a file is written
  failRebase : List (Option Mesh)    -- `divide_cell` rebases the mother before it can fail
  div : DivEv
  refine : List (Option Mesh)
  contacts : List Contact
  pol : Nat → Nat → Bool
  removed : List Nat                 -- positions (after the division round) of the cells below minimum volume
deriving Inhabited

def runPhase (code : Code) (e : IterEv) (s : State) : Phase → State
  | .saveMesh => remesh e.save s
  | .divide => if s.iter % code.period = 0 then divisionRound code e.div (remesh e.failRebase s) else s
  | .faceTypes => updateFaceTypes s
  | .refine => remesh e.refine s
  | .contact => contactPhase code e.contacts s
  | .polarise => polarise e.pol s
  | .forces => s
  | .integrate => s
  | .stats => s
  | .remove => eraseSmall e.removed s
  | .renumber => renumber s

/-- preconditions on the environment's choices, phase by phase -/
def phaseOKb (code : Code) (e : IterEv) (s : State) : Phase → Bool
  | .saveMesh => remeshOKb e.save s
  | .divide => if s.iter % code.period = 0 then
      remeshOKb e.failRebase s && divOKb code e.div (remesh e.failRebase s) else true
  | .refine => remeshOKb e.refine s
  | _ => true

def runPhases (code : Code) (e : IterEv) : List Phase → State → State
  | [], s => s
  | ph :: rest, s => runPhases code e rest (runPhase code e s ph)

def phasesOKb (code : Code) (e : IterEv) : List Phase → State → Bool
  | [], _ => true
  | ph :: rest, s => phaseOKb code e s ph && phasesOKb code e rest (runPhase code e s ph)

def iteration (code : Code) (e : IterEv) (s : State) : State :=
  { runPhases code e code.phases s with iter := s.iter + 1 }

def run (code : Code) : List IterEv → State → State
  | [], s => s
  | e :: es, s => run code es (iteration code e s)

/-- the whole history is admissible -/
def WF (code : Code) : List IterEv → State → Prop
  | [], _ => True
  | e :: es, s => phasesOKb code e code.phases s = true ∧ WF code es (iteration code e s)

/-! ### the points of an iteration at which the references are used -/

def prefixThrough (ph : Phase) : List Phase → List Phase
  | [] => []
  | p :: ps => if p = ph then [p] else p :: prefixThrough ph ps

/-- the state right after phase `ph` of the iteration (phases in the order of the source) -/
def stateAfter (code : Code) (e : IterEv) (ph : Phase) (s : State) : State :=
  runPhases code e (prefixThrough ph code.phases) s

/-- state right after the division round / before the contact search / right after the contact
phase / after polarisation (= during forces and time integration) / at the end of the iteration -/
def afterDivide (code : Code) (e : IterEv) (s : State) : State := runPhase code e (remesh e.save s) .divide
def beforeContact (code : Code) (e : IterEv) (s : State) : State := remesh e.refine (updateFaceTypes (afterDivide code e s))
def afterContact (code : Code) (e : IterEv) (s : State) : State := contactPhase code e.contacts (beforeContact code e s)
def afterPolarise (code : Code) (e : IterEv) (s : State) : State := polarise e.pol (afterContact code e s)
def afterRemoval (code : Code) (e : IterEv) (s : State) : State := renumber (eraseSmall e.removed (afterPolarise code e s))


/-! ### every indexed access the phases perform -/

inductive Deref
  /-- `cell_lst[c]` -/
  | cell (c : Nat)
  /-- `cell_lst[c]->node_lst_[n]`, expected to be a used node -/
  | node (c n : Nat)
  /-- `cell_lst[c]->cell_type_->face_types_[t]` -/
  | faceType (c t : Nat)
  /-- `cell_lst[c]->face_lst_[f].owner_cell_`, expected to be `cell_lst[c]` itself -/
  | owner (c f : Nat)
deriving Repr, DecidableEq, Inhabited

def safeB (s : State) : Deref → Bool
  | .cell c => decide (c < s.cells.length)
  | .node c n => match s.cells[c]? with
    | some cell => nodeUsedAt cell.nodes n
    | none => false
  | .faceType c t => match s.cells[c]? with
    | some cell => decide (t < cell.nTypes)
    | none => false
  | .owner c f => match s.cells[c]? with
    | some cell => match cell.faces[f]? with
      | some face => (face.owner.bind (lookupObj s.cells)).map (·.1) == some c
      | none => false
    | none => false

def usedNodes (c : Cell) : List Node := c.nodes.filter (·.used)

/-- contact search (`resolve_all_contacts` / `resolve_contact`): for the face of every contact the
owner pointer, the three face nodes in the owner and the face type (repulsion branch) -/
def derefsContactSearch (cs : List Contact) (s : State) : List Deref :=
  cs.flatMap fun ct =>
    match s.cells[ct.j]? with
    | some cj => match cj.faces[ct.fi]? with
      | some f => if f.used then
          [.owner ct.j ct.fi, .node ct.j f.n1, .node ct.j f.n2, .node ct.j f.n3, .faceType ct.j f.typeIdx]
        else []
      | none => []
    | none => []

/-- second loop of `resolve_all_contacts` (lines 125-156): `if(c1_id > c2_id) cell_lst[c2_id]->node_lst_[n2_id]` -/
def derefsContactPost (s : State) : List Deref :=
  s.cells.zipIdx.flatMap fun p =>
    (usedNodes p.1).flatMap fun n =>
      match n.coupled with
      | some (c2, n2) => if p.2 > c2 then [.cell c2, .node c2 n2] else []
      | none => []

/-- `special_polarization_update`: `get_node(f.n?_id())` for used faces of epithelial cells and, when the
three nodes are coupled to the same cell index, `cell_lst[n1_c2_id]` -/
def derefsPolarise (s : State) : List Deref :=
  s.cells.zipIdx.flatMap fun p =>
    if p.1.kind = 0 then
      (p.1.faces.filter (·.used)).flatMap fun f =>
        [Deref.node p.2 f.n1, .node p.2 f.n2, .node p.2 f.n3] ++
        (match p.1.nodes[f.n1]?, p.1.nodes[f.n2]?, p.1.nodes[f.n3]? with
         | some a, some b, some c =>
           match a.coupled, b.coupled, c.coupled with
           | some (ca, _), some (cb, _), some (cc, _) => if ca = cb ∧ ca = cc then [Deref.cell ca] else []
           | _, _, _ => []
         | _, _, _ => [])
    else []

/-- `apply_internal_forces`: `cell_type_->face_types_[f.type_id_]` for every used face (cell.cpp 1374, 1448) -/
def derefsForces (s : State) : List Deref :=
  s.cells.zipIdx.flatMap fun p => (p.1.faces.filter (·.used)).map fun f => Deref.faceType p.2 f.typeIdx

/-- `update_nodes_positions` (contact model 1): `if(c1->get_local_id() > c2_id) cell_lst[c2_id]->node_lst_[n2_id]`
for the used, coupled nodes of the non-static cells -/
def derefsIntegrate (s : State) : List Deref :=
  s.cells.flatMap fun c =>
    if c.isStatic then [] else
    (usedNodes c).flatMap fun n =>
      match n.coupled with
      | some (c2, n2) => if c.localId > c2 then [.cell c2, .node c2 n2] else []
      | none => []

/-! ### executable checkers of the invariant (run by the driver on observed states) -/

def localIdsOKb (cells : List Cell) : Bool := cells.zipIdx.all (fun p => p.1.localId == p.2)

def invBaseB (s : State) : Bool :=
  localIdsOKb s.cells && decide (ids s).Nodup && s.cells.all (fun c => decide (c.cellId < s.maxId)) &&
  decide (objs s).Nodup && s.cells.all (fun c => decide (c.obj < s.nextObj)) && s.cells.all cellOKb

def couplingOKb (cells : List Cell) (i : Nat) (n : Node) : Bool :=
  !n.used || match n.coupled with
    | none => true
    | some (c2, n2) => c2 != i && match cells[c2]? with
      | some cell => nodeUsedAt cell.nodes n2
      | none => false

def couplingsValidB (s : State) : Bool :=
  s.cells.zipIdx.all (fun p => p.1.nodes.all (couplingOKb s.cells p.2))

end Simu.Pop
