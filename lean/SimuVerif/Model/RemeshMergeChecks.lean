import SimuVerif.Model.Remesh
import SimuVerif.Model.Surface
import SimuVerif.Model.RemeshChecks
/-
  Boolean checkers for the hypotheses of the collapse refinement theorem `C01.merge_refines`
  (`Lemmas/RemeshMerge*.lean`): completeness of the edge index, vertex-manifoldness of the two end nodes (the live faces
  around each of them form one fan, aligned with the edge), the link condition, freshness of the slot `add_node` hands
  out.  Core Lean only: the driver evaluates `chkMergeHyps` before every executed collapse.  The soundness lemmas
  (`idx_of_B`, `fan_of_B`, `mergeHyp_of_B`, …) are in `Lemmas/RemeshMerge7.lean`, `C01.merge_checks_sound` puts them together.
-/
namespace Simu.Remesh
open Simu Simu.Surface

/-- the keys of the three sides of a triangle -/
def sideKeys (t : Tri) : List Nat := [Edge.keyOf t.1 t.2.1, Edge.keyOf t.2.1 t.2.2, Edge.keyOf t.2.2 t.1]

def isTriB (t : Tri) (v x y : Nat) : Bool :=
  v != x && v != y && x != y && hasNode t v && hasNode t x && hasNode t y

/-- the triangle of a live slot -/
def liveAt (L : List (Option Tri)) (g : Nat) : Option Tri :=
  match L[g]? with
  | some (some t) => some t
  | _ => none

/-- finite test for `Fan L v fs ns` -/
def fanB (L : List (Option Tri)) (v : Nat) (fs ns : List Nat) : Bool :=
  decide (ns.length = fs.length) && decide (0 < fs.length) &&
  (List.range fs.length).all (fun j =>
    match liveAt L (fs.getD j 0) with
    | some t => isTriB t v (ns.getD j 0) (ns.getD ((j + 1) % fs.length) 0)
    | none => false) &&
  decide fs.Nodup && decide ns.Nodup &&
  L.zipIdx.all (fun p =>
    match p.1 with
    | some t => !hasNode t v || fs.contains p.2
    | none => true)

def sideKB (L : List (Option Tri)) (g k : Nat) : Bool :=
  match liveAt L g with
  | some t => (sideKeys t).contains k
  | none => false

def sortedB : List Edge → Bool
  | [] => true
  | x :: xs => xs.all (fun y => decide (x.key < y.key)) && sortedB xs

/-- finite test for `IdxP (SideK L) s`: sorted keys; every entry is well formed and its faces are live faces with that
    side; every side of every live face has an entry that lists the face -/
def idxB (L : List (Option Tri)) (s : EdgeSet) : Bool :=
  sortedB s &&
  s.all (fun ed =>
    decide (ed.n1 ≤ ed.n2) && ed.f1.isSome && (ed.f1 != ed.f2) &&
    (match ed.f1 with | some g => sideKB L g ed.key | none => true) &&
    (match ed.f2 with | some g => sideKB L g ed.key | none => true)) &&
  L.zipIdx.all (fun p =>
    match p.1 with
    | some t => (sideKeys t).all (fun k =>
        match EdgeSet.find? s k with
        | some ed => ed.hasFace p.2
        | none => false)
    | none => true)

/-- no live triangle has a side with key `k` -/
def noSideB (L : List (Option Tri)) (k : Nat) : Bool :=
  L.all (fun o => match o with | some t => !(sideKeys t).contains k | none => true)

/-- the node of `t` that is neither `v` nor `x` -/
def thirdNode (t : Tri) (v x : Nat) : Nat :=
  if t.1 != v && t.1 != x then t.1 else if t.2.1 != v && t.2.1 != x then t.2.1 else t.2.2

/-- walk around `v`: from the neighbour `x`, coming from face `p`, to the next face and neighbour, until the start
    neighbour `x0` is reached again -/
def fanWalk (L : List (Option Tri)) (v x0 : Nat) : Nat → Nat → Nat → List Nat → List Nat → Option (List Nat × List Nat)
  | 0, _, _, _, _ => none
  | fuel + 1, x, p, fs, ns =>
    match L.zipIdx.findSome? (fun q =>
        match q.1 with
        | some t => if q.2 != p && hasNode t v && hasNode t x then some (q.2, t) else none
        | none => none) with
    | none => none
    | some (g, t) =>
      let y := thirdNode t v x
      if y == x0 then some (fs ++ [g], ns ++ [x]) else fanWalk L v x0 fuel y g (fs ++ [g]) (ns ++ [x])

/-- non-decreasing -/
def sortedLeB : List Nat → Bool
  | [] => true
  | x :: xs => xs.all (fun y => decide (x ≤ y)) && sortedLeB xs

section
variable {R : Type} [Add R] [Sub R] [Mul R] [Div R] [Neg R] [Lit R] [LT R] [LE R] [DecidableLT R]
  [DecidableLE R] [DecidableEq R]

/-- the two neighbour lists that `can_be_merged` sorts with `Array.qsort` come out sorted (`SortSpecAt`: the one fact
    about `Array.qsort` that `C01.merge_guard_iff` takes as a hypothesis) -/
def chkSortSpec (c : Cell R) (e : Edge) : Bool :=
  match connectedNodes c e.n1 e, connectedNodes c e.n2 e with
  | .ok la, .ok lb => sortedLeB (sortNat la) && sortedLeB (sortNat lb)
  | _, _ => true

/-- the slot `add_node` will hand out -/
def chkNewSlot (c : Cell R) : Nat :=
  match c.freeNodes with
  | i :: _ => i
  | [] => c.nodes.size

/-- finite test for `EdgeIdxComplete` -/
def edgeIdxCompleteB (c : Cell R) : Bool := idxB (chkSlots c) c.edges

/-- finite test for `VertexManifold c v` with a given candidate fan -/
def vertexManifoldB (c : Cell R) (v : Nat) (fs ns : List Nat) : Bool := fanB (chkSlots c) v fs ns

def freshNodeB (c : Cell R) (n : Nat) : Bool :=
  (chkSlots c).all (fun o => match o with | some t => !hasNode t n | none => true)

/-- **all hypotheses `MergeHyp` of the collapse theorem as one finite test**: `fsA, nsA` / `fsB, nsB` are the fans around
    the two end nodes, starting at the other end node; the fan around `e.n1` ends with the first face of the popped edge
    `e`, the fan around `e.n2` with the first face of the INDEX ENTRY of the edge, which must name the same two faces as
    `e` (in `refine_mesh` the check-set copy `e` sometimes lists them in the other order) -/
def mergeHypB (c : Cell R) (e : Edge) (fsA nsA fsB nsB : List Nat) : Bool :=
  edgeIdxCompleteB c && chkFaceFreeOk c &&
  (match getEdge c e.n1 e.n2 with
   | some E => (E.f1 == some (fsB.getD (fsB.length - 1) 0)) &&
       ((E.f1 == e.f1 && E.f2 == e.f2) || (E.f1 == e.f2 && E.f2 == e.f1))
   | none => false) &&
  fanB (chkSlots c) e.n1 fsA nsA && fanB (chkSlots c) e.n2 fsB nsB &&
  (nsA.getD 0 0 == e.n2) && (nsB.getD 0 0 == e.n1) &&
  (e.f1 == some (fsA.getD (fsA.length - 1) 0)) &&
  decide (3 ≤ fsB.length) &&
  (List.range fsB.length).all (fun m => !(decide (2 ≤ m) && decide (m + 2 ≤ fsB.length)) ||
    noSideB (chkSlots c) (Edge.keyOf e.n1 (nsB.getD m 0))) &&
  freshNodeB c (chkNewSlot c)

/-- the fan around `v` that starts at the neighbour `x0` with the face other than `p0` -/
def fanOf (c : Cell R) (v x0 p0 : Nat) : Option (List Nat × List Nat) :=
  fanWalk (chkSlots c) v x0 ((chkSlots c).length + 1) x0 p0 [] []

/-- **everything `C01.merge_refines` and `C01.concrete_merge_inv` ask of the state and the popped edge**: the two fans
    are computed by `fanOf` (start at the other end node; end with the first face of the popped edge resp. of its index
    entry) and validated by `mergeHypB`; the live triangles satisfy the surface invariant and the link condition
    `linkCondB`. -/
def chkMergeHyps (c : Cell R) (e : Edge) : Bool :=
  match e.f1, (getEdge c e.n1 e.n2).bind (fun E => E.f1) with
  | some f1, some g1 =>
    match fanOf c e.n1 e.n2 f1, fanOf c e.n2 e.n1 g1 with
    | some (fsA, nsA), some (fsB, nsB) =>
      mergeHypB c e fsA nsA fsB nsB && closedSimpleB (abs c) && nonDegB (abs c) && linkCondB (abs c) e.n1 e.n2
    | _, _ => false
  | _, _ => false

end
end Simu.Remesh
