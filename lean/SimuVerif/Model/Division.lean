import SimuVerif.Model.Remesh
import SimuVerif.Model.Surface
import SimuVerif.Gen.Division
/-
  C09 — executable mirror of `cell_divider` (`/repo/src/triangulation_modules/cell_divider.cpp`), stage by stage:

    addPointToFaceL / addPointToFace      cell_divider::add_point_to_face
    addIntersectionPoints                  cell_divider::add_intersection_points (walk over the cut edges of the real edge index)
    divide5 / divideFaces                  cell_divider::divide_faces (only faces of size `Gen.div5Size` are touched, as in the code)
    coarseTriangulation                    initial_triangulation::coarse_triangulation (every non-triangle is fanned around its centre)
    mapToXY / mapBack                      map_points_to_xy_plane / map_points_to_division_plane
    createDaughters + initDaughter         create_daughter_cells + cell::initialize_cell_properties (the part that can throw)
    runRound                               cell_divider::run (ids from the counter, removal of the mothers by remove_index, renumbering)

  The straight-line arithmetic (edge–plane intersection, side test, quaternion, matrix, target volumes, id assignment, the
  index tables of divide_faces and the windings of the interface faces) is NOT written here: it is `Gen.Division.*`,
  regenerated from the C++ text on every run.  Poisson sampling and the Delaunay triangulation are opaque: their result
  (interface nodes + interface triangles `D`) is an input (`setInterface`).

  Core Lean only: compiled into `drv_c09` at `Float`.  Errors: `division` = division_exception, `badopt` =
  std::bad_optional_access, `integrity` = mesh_integrity_exception, `initial_triangulation` = initial_triangulation_exception
  (all four are caught by divide_cell and become `nullopt`); `ub` = the C++ would read out of range / call `value()` on an empty
  optional inside a noexcept function; `fuel` = the model's own recursion bound (never reached: the C++ loop is bounded by the
  number of edges).
-/
namespace Simu.Division
open Simu Simu.Remesh

inductive DErr where
  | division | badopt | integrity | initial_triangulation | ub | fuel
deriving Repr, BEq, DecidableEq

def DErr.name : DErr → String
  | .division => "division" | .badopt => "badopt" | .integrity => "integrity"
  | .initial_triangulation => "initial_triangulation" | .ub => "ub" | .fuel => "fuel"

def ofRemesh : Remesh.Err → DErr
  | .integrity => .integrity | .badopt => .badopt | .ub => .ub | .fuel => .fuel

/-- `struct mesh`: node positions and faces given as lists of node ids -/
structure Mesh (R : Type) where
  nodes : Array (V3 R)
  faces : Array (List Nat)

/-! ### add_point_to_face -/

/-- the loop of `add_point_to_face` over the edges `(f[i], f[j])`, `i` = cyclic predecessor of `j`; `prev` = `f[i]` -/
def insertGo (a b p : Nat) (prev : Nat) : List Nat → Option (List Nat)
  | [] => none
  | x :: xs =>
    if (prev == a && x == b) || (prev == b && x == a) then some (p :: x :: xs)
    else (insertGo a b p x xs).map (x :: ·)

/-- `add_point_to_face` on one face; `none` = `division_exception` ("could not be inserted") -/
def addPointToFaceL (f : List Nat) (a b p : Nat) : Option (List Nat) :=
  match f.getLast? with
  | none => none
  | some l => insertGo a b p l f

section
variable {R : Type} [Add R] [Sub R] [Mul R] [Div R] [Neg R] [Lit R] [LT R] [LE R] [DecidableLT R]
  [DecidableLE R] [DEq R]

def addPointToFace (m : Mesh R) (fid a b p : Nat) : Except DErr (Mesh R) :=
  match m.faces[fid]? with
  | none => .error .ub
  | some f =>
    match addPointToFaceL f a b p with
    | none => .error .division
    | some f' => .ok { m with faces := m.faces.set! fid f' }

/-! ### add_intersection_points -/

def zeroV3 : V3 R := ⟨lit 0, lit 0, lit 0⟩

def posOfC (c : Cell R) (i : Nat) : V3 R :=
  match c.nodes[i]? with
  | some n => n.pos
  | none => zeroV3

/-- `cell::get_mesh` -/
def meshOfCell (c : Cell R) : Mesh R :=
  ⟨c.nodes.map (·.pos), c.faces.map (fun f => [f.n1, f.n2, f.n3])⟩

def optFace (o : Option Nat) : Except DErr Nat :=
  match o with
  | some x => .ok x
  | none => .error .ub       -- `edge::f1()` is noexcept and calls `optional::value()`

/-- the new node and its insertion into the two faces of the cut edge, inside the walk:
    `add_point_to_face(m, e.f1(), …); add_point_to_face(m, e.f2(), …)` -/
def cutEdge (m : Mesh R) (e : Edge) (pt : V3 R) : Except DErr (Mesh R) := do
  let m1 : Mesh R := { m with nodes := m.nodes.push pt }
  let id := m1.nodes.size - 1
  let f1 ← optFace e.f1
  let m2 ← addPointToFace m1 f1 e.n1 e.n2 id
  let f2 ← optFace e.f2
  addPointToFace m2 f2 e.n1 e.n2 id

/-- the `while(face_to_cut != stop_face)` loop -/
def walk (c : Cell R) (p n : V3 R) (stop : Nat) :
    Nat → Nat → Mesh R → Edge → Nat → Except DErr (Mesh R)
  | 0, _, _, _, _ => .error .fuel
  | fuel + 1, iter, m, e, fc =>
    if fc == stop then .ok m else
    match c.faces[fc]? with
    | none => .error .ub
    | some f =>
      let a := e.n1
      let b := e.n2
      match oppositeNode f a b with
      | none => .error .ub
      | some cn =>
        let iac := Gen.Division.edgePlaneIntersection (posOfC c a) (posOfC c cn) p n
        let ibc := Gen.Division.edgePlaneIntersection (posOfC c b) (posOfC c cn) p n
        let pick : Except DErr (Edge × V3 R) :=
          match iac with
          | some q => (match getEdge c a cn with | some e' => .ok (e', q) | none => .error .badopt)
          | none =>
            match ibc with
            | some q => (match getEdge c b cn with | some e' => .ok (e', q) | none => .error .badopt)
            | none => .error .division
        match pick with
        | .error x => .error x
        | .ok (e', q) =>
          match cutEdge m e' q with
          | .error x => .error x
          | .ok m' =>
            -- `(edge_to_cut.f1() == face_to_cut.get_local_id()) ? edge_to_cut.f2() : edge_to_cut.f1()`
            match optFace e'.f1 with
            | .error x => .error x
            | .ok g1 =>
              let next : Except DErr Nat := if g1 == fc then optFace e'.f2 else .ok g1
              match next with
              | .error x => .error x
              | .ok nf =>
                if iter == c.edges.length - 1 then .error .division   -- "Infinite loop stopped during cell division"
                else walk c p n stop fuel (iter + 1) m' e' nf

/-- `cell_divider::add_intersection_points` -/
def addIntersectionPoints (c : Cell R) (p n : V3 R) : Except DErr (Mesh R) :=
  let m := meshOfCell c
  -- the first edge of the index (in its iteration order) that the plane cuts
  let seed := c.edges.findSome? (fun e =>
    match Gen.Division.edgePlaneIntersection (posOfC c e.n1) (posOfC c e.n2) p n with
    | some q => some (e, q)
    | none => none)
  match seed with
  | none => .error .division
  | some (e, q) => do
    let m1 : Mesh R := { m with nodes := m.nodes.push q }
    -- `const unsigned f_1_id = e.f1(); const unsigned f_2_id = e.f2();` come first
    let f1 ← optFace e.f1
    let f2 ← optFace e.f2
    let id := m1.nodes.size - 1
    let m2 ← addPointToFace m1 f1 e.n1 e.n2 id
    let m3 ← addPointToFace m2 f2 e.n1 e.n2 id
    walk c p n f1 (c.edges.length + 2) 0 m3 e f2

/-! ### divide_faces -/

/-- `std::find_if(begin + start, end, id >= thr)` as a position -/
def findFrom (thr : Nat) : List Nat → Nat → Option Nat
  | [], _ => none
  | x :: xs, i => if x ≥ thr then some i else findFrom thr xs (i + 1)

def findIdx (thr : Nat) (f : List Nat) (start : Nat) : Option Nat :=
  findFrom thr (f.drop start) start

def pick3 (f : List Nat) (t : Nat × Nat × Nat) : Option (List Nat) :=
  match f[t.1]?, f[t.2.1]?, f[t.2.2]? with
  | some a, some b, some c => some [a, b, c]
  | _, _, _ => none

/-- the three triangles built from the local positions `p1 < p2` of the two intersection points -/
def divide5At (f : List Nat) (p1 p2 : Nat) : Option (List (List Nat)) :=
  (if Gen.Division.div5IsCaseA p1 p2 then Gen.Division.div5CaseA p1 p2 else Gen.Division.div5CaseB p1 p2).mapM (pick3 f)

/-- the three triangles that replace one face of size 5 -/
def divide5 (thr : Nat) (f : List Nat) : Except DErr (List (List Nat)) :=
  match findIdx thr f 0 with
  | none => .error .ub            -- `it1 == f.end()`, then `it1 + 1`
  | some p1 =>
    match findIdx thr f (p1 + 1) with
    | none => .error .ub          -- `*it2` / `f[5]`
    | some p2 =>
      match divide5At f p1 p2 with
      | some ts => .ok ts
      | none => .error .ub

/-- `cell_divider::divide_faces` on the face list: the faces of size 5 are removed (the others keep their order) and the
    new triangles are appended in the order of the faces they come from -/
def divideFacesL (thr : Nat) : List (List Nat) → Except DErr (List (List Nat) × List (List Nat))
  | [] => .ok ([], [])
  | f :: fs =>
    if f.length == Gen.Division.div5Size then
      match divide5 thr f with
      | .error x => .error x
      | .ok ts =>
        match divideFacesL thr fs with
        | .error x => .error x
        | .ok (keep, add) => .ok (keep, ts ++ add)
    else
      match divideFacesL thr fs with
      | .error x => .error x
      | .ok (keep, add) => .ok (f :: keep, add)

def divideFaces (thr : Nat) (m : Mesh R) : Except DErr (Mesh R) :=
  match divideFacesL thr m.faces.toList with
  | .error x => .error x
  | .ok (keep, add) => .ok { m with faces := (keep ++ add).toArray }

/-! ### the polygon of the intersection points and coarse_triangulation -/

/-- `{f[i], f[j], centre}` for `j = 0 … size-1`, `i` the cyclic predecessor of `j` -/
def fanGo (centre : Nat) (prev : Nat) : List Nat → List (List Nat)
  | [] => []
  | x :: xs => [prev, x, centre] :: fanGo centre x xs

def fan (centre : Nat) (f : List Nat) : List (List Nat) :=
  match f.getLast? with
  | none => []
  | some l => fanGo centre l f

/-- `initial_triangulation::coarse_triangulation`: returns (nodes, kept faces, new faces) -/
def coarseGo : List (List Nat) → Array (V3 R) → Except DErr (Array (V3 R) × List (List Nat) × List (List Nat))
  | [], nodes => .ok (nodes, [], [])
  | f :: fs, nodes =>
    if f.length != 3 then
      -- the centre of the face: positions summed in face order, divided by the number of nodes
      match f.mapM (fun i => nodes[i]?) with
      | none => .error .ub
      | some ps =>
        let sum := ps.foldl (fun (s : V3 R) q => s + q) zeroV3
        let centre := sum / (lit f.length : R)
        let nodes' := nodes.push centre
        let cid := nodes'.size - 1
        match coarseGo fs nodes' with
        | .error x => .error x
        | .ok (nn, keep, add) => .ok (nn, keep, fan cid f ++ add)
    else
      match coarseGo fs nodes with
      | .error x => .error x
      | .ok (nn, keep, add) => .ok (nn, f :: keep, add)

def coarseTriangulation (m : Mesh R) : Except DErr (Mesh R) :=
  match coarseGo m.faces.toList m.nodes with
  | .error x => .error x
  | .ok (nn, keep, add) => .ok ⟨nn, (keep ++ add).toArray⟩

/-- lines 102–110 of `divide_cell`: the polygon through all intersection points (ids `thr …`), then coarse_triangulation -/
def addPolygonAndCoarse (thr : Nat) (m : Mesh R) : Except DErr (Mesh R) :=
  let ids := (List.range (m.nodes.size - thr)).map (· + thr)
  coarseTriangulation { m with faces := m.faces.push ids }

/-! ### map to the xy plane and back -/

abbrev M33 (R : Type) := V3 R × V3 R × V3 R

def identity33 : M33 R := (⟨lit 1, lit 0, lit 0⟩, ⟨lit 0, lit 1, lit 0⟩, ⟨lit 0, lit 0, lit 1⟩)

/-- the rotation of `map_points_to_xy_plane`: the local `plane_normal` (the orientation of the division normal with
    third component ≥ 0, `Gen.Division.planeNormalOf`) is chosen first; the identity test and the quaternion read it -/
def rotationOf (fn : Fn R) (n : V3 R) : M33 R :=
  let plane_normal := Gen.Division.planeNormalOf n
  if Gen.Division.isIdentityCase plane_normal then identity33
  else Gen.Division.quatToMatrix (Gen.Division.quatNormalize fn (Gen.Division.quatOfNormal plane_normal))

/-- apply `g` to the nodes with id ≥ thr -/
def mapTail (thr : Nat) (g : V3 R → V3 R) (nodes : Array (V3 R)) : Array (V3 R) :=
  (nodes.toList.zipIdx.map (fun (q : V3 R × Nat) => if q.2 ≥ thr then g q.1 else q.1)).toArray

/-- `cell_divider::map_points_to_xy_plane`: (translation, rotation, mesh) -/
def mapToXY (fn : Fn R) (m : Mesh R) (thr : Nat) (n : V3 R) : V3 R × M33 R × Mesh R :=
  let nb : R := (lit m.nodes.size : R) - (lit thr : R)
  let sum := (m.nodes.toList.drop thr).foldl (fun (s : V3 R) q => s + q) zeroV3
  let t := Gen.Division.translationOf sum nb
  let rot := rotationOf fn n
  let g := fun (q : V3 R) =>
    let q1 : V3 R := ⟨q.x + t.x, q.y + t.y, q.z + t.z⟩
    let r := Gen.Division.matDot rot q1
    (⟨r.x, r.y, Gen.Division.zeroedAfterRotation⟩ : V3 R)
  (t, rot, { m with nodes := mapTail thr g m.nodes })

/-- `cell_divider::map_points_to_division_plane` -/
def mapBack (m : Mesh R) (thr : Nat) (t : V3 R) (rot : M33 R) : Mesh R :=
  let rinv := Gen.Division.matTranspose rot
  { m with nodes := mapTail thr (fun q => Gen.Division.mapBackPoint rinv t q) m.nodes }

/-- what `triangulate_division_interface` leaves behind, as an input: the nodes from `thr` on and the faces from `fthr` on -/
def setInterface (m : Mesh R) (thr fthr : Nat) (pts : List (V3 R)) (tris : List (List Nat)) : Mesh R :=
  ⟨((m.nodes.toList.take thr) ++ pts).toArray, ((m.faces.toList.take fthr) ++ tris).toArray⟩

/-! ### create_daughter_cells -/

/-- `remove_index(v, idx)` for ascending, distinct, in-range `idx` (every call site sorts or builds them ascending) -/
def removeIdx {α : Type} (l : List α) (idx : List Nat) : List α :=
  (l.zipIdx.filter (fun q => !idx.contains q.2)).map (·.1)

/-- the constructor `cell(const mesh&)` reads the first three entries of every face -/
def triOfFace (f : List Nat) : Option Surface.Tri :=
  match f[0]?, f[1]?, f[2]? with
  | some a, some b, some c => some (a, b, c)
  | _, _, _ => none

/-- node order of an interface face in a daughter: entry `i` of the triple selects node `i` of the mesh face -/
def windTri (w : Nat × Nat × Nat) (t : Surface.Tri) : Surface.Tri :=
  let sel := fun (i : Nat) => if i == 0 then t.1 else if i == 1 then t.2.1 else t.2.2
  (sel w.1, sel w.2.1, sel w.2.2)

/-- the indices `f_id` pushed to `faces_to_remove_k`: those whose side test has the value `v` -/
def sideIdx (S : List Surface.Tri) (side : Surface.Tri → Bool) (v : Bool) : List Nat :=
  (List.range S.length).filter (fun i => match S[i]? with | some t => side t == v | none => false)

/-- the surface faces each daughter keeps -/
def splitSurface (S : List Surface.Tri) (side : Surface.Tri → Bool) : List Surface.Tri × List Surface.Tri :=
  (removeIdx S (sideIdx S side Gen.Division.removeFromD1WhenSide),
   removeIdx S (sideIdx S side (!Gen.Division.removeFromD1WhenSide)))

/-- the side test of `create_daughter_cells` on a triangle of the mesh -/
def sideOf (m : Mesh R) (p n : V3 R) (t : Surface.Tri) : Bool :=
  let pos := fun i => match m.nodes[i]? with | some q => q | none => zeroV3
  Gen.Division.faceSide (pos t.1) (pos t.2.1) (pos t.2.2) p n

/-- the face lists of the two daughters before `initialize_cell_properties`:
    surface faces split by `face_side_wrt_plane`, interface faces appended with the two windings -/
def daughterFaces (m : Mesh R) (fthr : Nat) (p n : V3 R) : Except DErr (List Surface.Tri × List Surface.Tri) :=
  match (m.faces.toList.take fthr).mapM triOfFace, (m.faces.toList.drop fthr).mapM triOfFace with
  | some S, some D =>
    let MM := splitSurface S (sideOf m p n)
    .ok (MM.1 ++ D.map (windTri Gen.Division.windD1), MM.2 ++ D.map (windTri Gen.Division.windD2))
  | _, _ => .error .ub

/-- six times the signed volume enclosed by a triangle list -/
def tet6 (a b c : V3 R) : R := V3.dot a (V3.cross b c)

def vol6 (pos : Nat → V3 R) (T : List Surface.Tri) : R :=
  T.foldl (fun s t => s + tet6 (pos t.1) (pos t.2.1) (pos t.2.2)) (lit 0)

/-- `cell::get_volume_reference_point` on a freshly built daughter (every face is used): the position of the first node
    of the first face; `vec3(0,0,0)` when there is no face -/
def volRef (pos : Nat → V3 R) (T : List Surface.Tri) : V3 R := (T.head?.map (fun t => pos t.1)).getD zeroV3

/-- what the signed-volume loops of `check_face_normal_orientation` / `compute_volume` accumulate: the coordinates are
    taken relative to the reference point before the products are formed (for a closed surface the same number as `vol6`:
    `C09.vol6c_eq_vol6`; far from the origin the un-centred products cancel) -/
def vol6c (pos : Nat → V3 R) (T : List Surface.Tri) : R :=
  let o := volRef pos T
  T.foldl (fun s t => s + tet6 (pos t.1 - o) (pos t.2.1 - o) (pos t.2.2 - o)) (lit 0)

structure Daughter (R : Type) where
  nnodes : Nat
  used : List Bool               -- per node slot
  faces : List Surface.Tri
  freeNodes : List Nat           -- `free_node_queue_` front to back
  reoriented : Bool              -- the flood fill of check_face_normal_orientation had something to do (not modelled further)
  vol6 : R

/-- the part of `cell::initialize_cell_properties(true)` that can throw, on a freshly built daughter -/
def initDaughter (nodes : Array (V3 R)) (T : List Surface.Tri) : Except DErr (Daughter R) :=
  let usedIds : List Nat := T.flatMap (fun t => [t.1, t.2.1, t.2.2])
  let usedArr : Array Bool := usedIds.foldl (fun (a : Array Bool) i => a.set! i true) (Array.replicate nodes.size false)
  let used := usedArr.toList
  let free := (List.range nodes.size).filter (fun i => !(usedArr.getD i false))
  -- generate_edge_set: mesh_integrity_exception on the third face of an edge
  let es : Except Remesh.Err EdgeSet := T.zipIdx.foldlM (fun (s : EdgeSet) (q : Surface.Tri × Nat) => do
      let t := q.1
      let (s1, _, _) := EdgeSet.insert s (Edge.mk' t.1 t.2.1)
      let (s2, _, _) := EdgeSet.insert s1 (Edge.mk' t.2.1 t.2.2)
      let (s3, _, _) := EdgeSet.insert s2 (Edge.mk' t.2.2 t.1)
      let s4 ← edgeAddFace s3 t.1 t.2.1 q.2
      let s5 ← edgeAddFace s4 t.2.1 t.2.2 q.2
      edgeAddFace s5 t.2.2 t.1 q.2) []
  match es with
  | .error x => .error (ofRemesh x)
  | .ok s =>
    -- is_manifold: every edge has two faces and V − E + F = 2
    let nbNodes : Int := (nodes.size - free.length : Nat)
    if !(s.all (fun e => e.isManifold)) || nbNodes - (s.length : Int) + (T.length : Int) != 2 then .error .initial_triangulation
    else
      let pos := fun i => match nodes[i]? with | some q => q | none => zeroV3
      let consistent := Surface.closedSimpleB T
      let v := vol6c pos T
      -- check_face_normal_orientation: consistent input is left alone; every face is flipped when the signed volume is negative
      let T' := if consistent && decide (v < (lit 0 : R)) then T.map (fun t => (t.1, t.2.2, t.2.1)) else T
      .ok ⟨nodes.size, used, T', free, !consistent, if v < (lit 0 : R) then -v else v⟩

/-- `cell_divider::create_daughter_cells` -/
def createDaughters (m : Mesh R) (fthr : Nat) (p n : V3 R) : Except DErr (Daughter R × Daughter R) :=
  match daughterFaces m fthr p n with
  | .error x => .error x
  | .ok (T1, T2) =>
    match initDaughter m.nodes T1 with
    | .error x => .error x
    | .ok d1 =>
      match initDaughter m.nodes T2 with
      | .error x => .error x
      | .ok d2 => .ok (d1, d2)

end

/-! ### cell_divider::run : the bookkeeping of a division round -/

/-- what the population-level statements of the property talk about -/
structure PCell (R : Type) where
  tag : String             -- only for the driver (which object this is)
  id : Nat                 -- `cell_id_`
  lid : Nat                -- `local_cell_id_`
  kind : Nat               -- global type id of the cell type
  ready : Bool             -- `is_ready_to_divide()`
  target : R               -- `target_volume_`
  surf : List Surface.Tri  -- live triangles

/-- new id of node `x` after `cell::rebase`: the number of used node slots below it -/
def rank (T : List Surface.Tri) (x : Nat) : Nat := ((Surface.vertices T).filter (· < x)).length

def rebaseT (T : List Surface.Tri) : List Surface.Tri :=
  T.map (fun t => (rank T t.1, rank T t.2.1, rank T t.2.2))

section
variable {R : Type} [Div R] [Lit R]

/-- `c->rebase()` at the start of divide_cell: node ids compacted, nothing else touched -/
def rebaseC (c : PCell R) : PCell R := { c with surf := rebaseT c.surf }

/-- `clear_data()` -/
def clearC (c : PCell R) : PCell R := { c with surf := [], target := lit 0 }

/-- the daughters as `divide_cell` returns them from the two surfaces: type and id of the mother
    (`get_cell_same_type`), half of the mother's target volume each -/
def mkDaughters (mother : PCell R) (s1 s2 : List Surface.Tri) : PCell R × PCell R :=
  ({ tag := "d" ++ mother.tag, id := mother.id, lid := 0, kind := mother.kind, ready := false,
     target := Gen.Division.targetD1 mother.target, surf := s1 },
   { tag := "d" ++ mother.tag, id := mother.id, lid := 0, kind := mother.kind, ready := false,
     target := Gen.Division.targetD2 mother.target, surf := s2 })

/-- the loop of `run` (sequential order): cells in place, indices of the mothers to delete, daughters, counter.
    `outcome i c` = the two daughter surfaces when the division of the (rebased) cell at position `i` succeeds -/
def runLoop (outcome : Nat → PCell R → Option (List Surface.Tri × List Surface.Tri)) :
    List (PCell R) → Nat → Nat → List (PCell R) × List Nat × List (PCell R) × Nat
  | [], _, ctr => ([], [], [], ctr)
  | c :: cs, i, ctr =>
    if c.ready then
      let c' := rebaseC c
      match outcome i c' with
      | some (s1, s2) =>
        let (d1, d2) := mkDaughters c' s1 s2
        let ids := Gen.Division.idAssign ctr
        let r := runLoop outcome cs (i + 1) ids.2.2
        (clearC c' :: r.1, i :: r.2.1, { d1 with id := ids.1 } :: { d2 with id := ids.2.1 } :: r.2.2.1, r.2.2.2)
      | none =>
        let r := runLoop outcome cs (i + 1) ctr
        (c' :: r.1, r.2.1, r.2.2.1, r.2.2.2)
    else
      let r := runLoop outcome cs (i + 1) ctr
      (c :: r.1, r.2.1, r.2.2.1, r.2.2.2)

def renumber (l : List (PCell R)) : List (PCell R) := l.zipIdx.map (fun q => { q.1 with lid := q.2 })

/-- `cell_divider::run` -/
def runRound (outcome : Nat → PCell R → Option (List Surface.Tri × List Surface.Tri)) (pop : List (PCell R)) (ctr : Nat) :
    List (PCell R) × Nat :=
  let r := runLoop outcome pop 0 ctr
  let all := r.1 ++ r.2.2.1
  if r.2.1.isEmpty then (all, r.2.2.2) else (renumber (removeIdx all r.2.1), r.2.2.2)

end
end Simu.Division
