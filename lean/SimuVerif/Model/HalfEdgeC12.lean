/-
  C12 — triangle lists and their directed half-edges (core Lean only; own copy for C12).
  A mesh is `T : List Tri` (node ids in winding order) together with a position map
  `Nat → V3 R`.  `Closed T`: every directed half-edge is matched by its reverse, as
  multisets — the statement "(he T).map swap is a permutation of he T".
-/
namespace Simu.Geo

abbrev Tri := Nat × Nat × Nat
abbrev HE := Nat × Nat

/-- the three directed half-edges of a triangle, in the order the C++ visits them -/
def heTri (t : Tri) : List HE := [(t.1, t.2.1), (t.2.1, t.2.2), (t.2.2, t.1)]

/-- all directed half-edges of a triangle list -/
def he : List Tri → List HE
  | [] => []
  | t :: T => heTri t ++ he T

/-- closed, consistently oriented surface: reversing every half-edge permutes the half-edge list -/
def Closed (T : List Tri) : Prop := ((he T).map Prod.swap).Perm (he T)

/-- `std::swap(f.n1_id_, f.n3_id_)` (check_face_winding_order) -/
def swap13 (t : Tri) : Tri := (t.2.2, t.2.1, t.1)
/-- `face::swap_nodes`: `std::swap(n2_id_, n3_id_)` -/
def swap23 (t : Tri) : Tri := (t.1, t.2.2, t.2.1)
def swap12 (t : Tri) : Tri := (t.2.1, t.1, t.2.2)

/-- swap of the members number `i` and `j` (1-based, as in `n1_id_`, `n2_id_`, `n3_id_`) -/
def swapMembers (ij : Nat × Nat) (t : Tri) : Tri :=
  if ij = (1, 3) ∨ ij = (3, 1) then swap13 t
  else if ij = (2, 3) ∨ ij = (3, 2) then swap23 t
  else if ij = (1, 2) ∨ ij = (2, 1) then swap12 t
  else t

/-- the node at local position `k` (0,1,2) of a triangle -/
def Tri.at (t : Tri) (k : Nat) : Nat := if k = 0 then t.1 else if k = 1 then t.2.1 else t.2.2

/-- rename the nodes of a triangle -/
def Tri.map (σ : Nat → Nat) (t : Tri) : Tri := (σ t.1, σ t.2.1, σ t.2.2)

end Simu.Geo
