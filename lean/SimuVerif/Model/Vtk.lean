import SimuVerif.Gen.VtkConsts
/-
  C16 / C17 — model of the VTK cell-data files written by `mesh_writer` and read by `mesh_reader`
  (src/io/mesh_writer.cpp, src/io/mesh_reader.cpp).  Core Lean only.

  Three layers:

  * `Raw` — what the reader's regular expressions / getline loop extract from a file, before any check:
    the matched texts and integers of each section (or `none` when a search fails).
    Two front ends produce a `Raw`:  `sectionsOf : List Token → Raw` (this file: a file seen as a list
    of whitespace separated tokens and line breaks) and `scan : List Char → Raw` (Model/VtkText.lean:
    the regular expressions re-expressed as total scanners over the characters of the file).
  * `assemble : Raw → Except Err (List Mesh × List Int)` — every check, conversion and the assembly of
    the meshes, statement by statement in the order of `mesh_reader::mesh_reader`, `get_node_pos`,
    `read_cell_faces`, `get_cell_mesh`, `get_cell_types` (the order in which
    `simulation_initializer::run` calls them), with one `Err` constructor per throw site and per
    uncaught `std::stoi` / `std::stod` exception.  This is the REPAIRED reader (fixes/C17-*.diff).
  * `writeCells : List Cell → Except WErr (List Token)` — `mesh_writer::write` for the cell-data file:
    `cell::rebase` of every cell, header, `POINTS`, coordinates, `CELLS`, one line per cell,
    `CELL_TYPES`, `CELL_DATA` arrays.

  `read P toks = assemble P (sectionsOf toks)` is the reader on token lists, `readText P s =
  assemble P (scan s)` (VtkText) the reader on characters.  Numbers: the writer's scalar type `Rw` and
  the reader's `Rr` are arbitrary types; `sprintf` enters as `Fmt.fmt`, `std::stod` as `NumSem.stod`.
-/
namespace Simu.Vtk
open Simu.Gen.Vtk

/-! ## character classes of the regular expressions (C locale) -/

def isDigit (c : Char) : Bool := decide ('0'.toNat ≤ c.toNat) && decide (c.toNat ≤ '9'.toNat)
def isLower (c : Char) : Bool := decide ('a'.toNat ≤ c.toNat) && decide (c.toNat ≤ 'z'.toNat)
def isUpper (c : Char) : Bool := decide ('A'.toNat ≤ c.toNat) && decide (c.toNat ≤ 'Z'.toNat)
def isAlpha (c : Char) : Bool := isLower c || isUpper c
/-- `[A-Za-z_]` -/
def isWordCh (c : Char) : Bool := isAlpha c || c == '_'
/-- `std::isspace` in the C locale: space, \t \n \v \f \r -/
def isSpace (c : Char) : Bool := c.toNat == 32 || (decide (9 ≤ c.toNat) && decide (c.toNat ≤ 13))

/-- value of a run of decimal digits (unbounded; the range check of `std::stoi` is `stoi` below) -/
def natOfDigits (l : List Char) : Nat := l.foldl (fun a c => 10 * a + (c.toNat - '0'.toNat)) 0

/-! ## results, errors -/

/-- a cell as `mesh_reader::read` returns it: flat coordinates, faces as lists of LOCAL node ids -/
structure Mesh (R : Type) where
  pos : List R
  faces : List (List Nat)
deriving Repr, DecidableEq

/-- one constructor per way the reader ends without a result: the `throw mesh_reader_exception`
    sites in source order (`site` below is the index into `Gen.Vtk.readerThrows`) and the
    standard-library exceptions that the reader does not catch. -/
inductive Err
  | tokenTooLong        -- ctor: a run of non-space characters longer than rMaxToken          (repair)
  | noVersion           -- ctor: header regex not found
  | stodInvalid         -- std::invalid_argument from std::stod of the version text (not caught)
  | stodRange           -- std::out_of_range from std::stod (version text or a coordinate; not caught)
  | stoiRange           -- std::out_of_range from std::stoi (any count / id; only invalid_argument is caught)
  | noPoints            -- get_node_pos: POINTS line not found
  | badCoordType        -- get_node_pos: neither float nor double
  | coordConversion     -- get_node_pos: std::invalid_argument from std::stod of a matched number (caught, rethrown)
  | coordNotFinite      -- get_node_pos: !isfinite
  | nodeCount           -- get_node_pos: size()/3 != nb_nodes
  | noCellTypes         -- read_cell_faces: CELL_TYPES not found
  | notPolyhedron       -- read_cell_faces: type != 42
  | cellTypeCount       -- read_cell_faces: i != nb_cells
  | noCells             -- read_cell_faces: CELLS line not found
  | noCellsEnd          -- read_cell_faces: no upper-case letter after the CELLS line
  | cellLineCorrupted   -- read_cell_faces: line does not start with an integer
  | cellLineCount       -- read_cell_faces: nb_cell_data != number of integers on the line
  | emptyCellLine       -- get_cell_mesh: empty connectivity list                               (repair)
  | faceDataCorrupted   -- get_cell_mesh: a face announces more nodes than there are integers left
  | faceCount           -- get_cell_mesh: number of faces != announced number
  | faceIndexRange      -- get_cell_mesh: node id >= number of points                           (repair)
  | noTypeIds           -- get_cell_types: cell_type_id array not found
deriving Repr, DecidableEq

/-- the C++ type of the exception `main` gets to report -/
inductive ExcClass | meshReader | invalidArgument | outOfRange
deriving Repr, DecidableEq

def Err.cls : Err → ExcClass
  | .stodInvalid => .invalidArgument
  | .stodRange => .outOfRange
  | .stoiRange => .outOfRange
  | _ => .meshReader

/-- index of the throw site in `Gen.Vtk.readerThrows` (source order); none for the std exceptions -/
def Err.site : Err → Option Nat
  | .tokenTooLong => some 1
  | .noVersion => some 2
  | .noPoints => some 3
  | .badCoordType => some 4
  | .coordConversion => some 5
  | .coordNotFinite => some 6
  | .nodeCount => some 7
  | .noCellTypes => some 8
  | .notPolyhedron => some 10
  | .cellTypeCount => some 11
  | .noCells => some 12
  | .noCellsEnd => some 13
  | .cellLineCorrupted => some 14
  | .cellLineCount => some 16
  | .emptyCellLine => some 17
  | .faceDataCorrupted => some 18
  | .faceCount => some 20
  | .faceIndexRange => some 21
  | .noTypeIds => some 23
  | _ => none

/-- throw sites of the source that no input reaches (see `C17.dead_sites`): 0 file not found (not a
    function of the bytes), 9 / 15 / 24 `catch (std::invalid_argument)` around `std::stoi` of a text
    matched by `[0-9]+`, 19 size of a vector just filled with `nb` elements, 22 size of a vector that
    received one element per loop iteration, 25 `isfinite` of a `short` -/
def deadSites : List Nat := [0, 9, 15, 19, 22, 24, 25]

/-- outcome of `std::stod` on a text -/
inductive Stod (R : Type)
  | value (x : R)
  | invalid        -- std::invalid_argument: no conversion could be performed
  | range          -- std::out_of_range: strtod set ERANGE
deriving Repr, DecidableEq

/-- how numbers are read: `std::stod` and `std::isfinite` -/
structure NumSem (R : Type) where
  stod : List Char → Stod R
  finite : R → Bool

def intMax : Nat := 2147483647

/-- `std::stoi` of a text matched by `[0-9]+` whose value is `n`: out_of_range above INT_MAX -/
def stoi (n : Nat) : Except Err Nat := if n ≤ intMax then .ok n else .error .stoiRange

/-- conversion `int → short` of gcc (modulo 2^16) -/
def toShort (n : Nat) : Int := Int.ofNat ((n + 32768) % 65536) - 32768

/-! ## what the searches extract -/

/-- one line of the CELLS text that is longer than `rLineSkip` characters -/
structure CellLine where
  lead : Option Nat          -- `^[0-9]+` (none: the line does not start with a digit)
  ints : List Nat            -- the `[0-9]+` matches in the rest of the line
deriving Repr, DecidableEq

structure Raw where
  maxToken : Nat                                        -- longest run of non-space characters
  version : Option (List Char)                          -- group 1 of the header regex
  points : Option (Nat × List Char × List (List Char))  -- declared count, type word, matched number texts
  cellTypes : Option (Nat × List Nat)                   -- declared count, the integers of the section
  cells : Option (Option (List CellLine))               -- none: no CELLS line; some none: no end marker
  typeIds : Option (List Nat)                           -- the integers after the cell_type_id array header
deriving Repr

/-! ## get_cell_mesh -/

/-- `std::set<unsigned>::insert` on the ascending list of the elements -/
def setInsert (x : Nat) : List Nat → List Nat
  | [] => [x]
  | y :: ys => if x < y then x :: y :: ys else if x = y then y :: ys else y :: setInsert x ys

def setOf (xs : List Nat) : List Nat := xs.foldl (fun s x => setInsert x s) []

/-- the loop over the faces of one cell (mesh_reader.cpp, `for(auto it = std::next(begin, 1); …)`):
    `nb` nodes are announced, the bound check, the copy, the jump -/
def faceLoop : List Nat → Except Err (List (List Nat))
  | [] => .ok []
  | nb :: tail =>
    if tail.length < nb then .error .faceDataCorrupted
    else match faceLoop (tail.drop nb) with
      | .ok fs => .ok (tail.take nb :: fs)
      | .error e => .error e
termination_by l => l.length
decreasing_by simp; omega

/-- body of the loop over the cells of `get_cell_mesh` -/
def cellMesh {R : Type} (nodePos : List R) : List Nat → Except Err (Mesh R)
  | [] => .error .emptyCellLine
  | nbFaces :: data =>
    match faceLoop data with
    | .error e => .error e
    | .ok faces =>
      if faces.length ≠ nbFaces then .error .faceCount
      else
        let used := setOf faces.flatten
        if used.any (fun g => decide (nodePos.length / 3 ≤ g)) then .error .faceIndexRange
        else .ok ⟨used.flatMap (fun g => (nodePos.drop (g * 3)).take 3),
                  faces.map (fun f => f.map (fun g => used.idxOf g))⟩

def mapE {α β : Type} (f : α → Except Err β) : List α → Except Err (List β)
  | [] => .ok []
  | a :: as => match f a with
    | .error e => .error e
    | .ok b => match mapE f as with
      | .error e => .error e
      | .ok bs => .ok (b :: bs)

def getCellMesh {R : Type} (nodePos : List R) (conn : List (List Nat)) : Except Err (List (Mesh R)) :=
  mapE (cellMesh nodePos) conn

/-! ## the checks of the reader, in the order the start-up code runs them -/

variable {R : Type}

def ctorCheck (P : NumSem R) (raw : Raw) : Except Err Unit :=
  if rMaxToken < raw.maxToken then .error .tokenTooLong else
  match raw.version with
  | none => .error .noVersion
  | some v => match P.stod v with
    | .invalid => .error .stodInvalid
    | .range => .error .stodRange
    | .value _ => .ok ()

def convCoord (P : NumSem R) (t : List Char) : Except Err R :=
  match P.stod t with
  | .invalid => .error .coordConversion
  | .range => .error .stodRange
  | .value x => if P.finite x then .ok x else .error .coordNotFinite

def getNodePos (P : NumSem R) (raw : Raw) : Except Err (List R) :=
  match raw.points with
  | none => .error .noPoints
  | some (nb, ty, nums) =>
    match stoi nb with
    | .error e => .error e
    | .ok nbNodes =>
      if ¬ (rCoordTypes.contains ty) then .error .badCoordType else
      match mapE (convCoord P) nums with
      | .error e => .error e
      | .ok pos => if pos.length / 3 ≠ nbNodes then .error .nodeCount else .ok pos

def checkType (t : Nat) : Except Err Unit :=
  match stoi t with
  | .error e => .error e
  | .ok v => if v ≠ rPolyType then .error .notPolyhedron else .ok ()

def convLine (l : CellLine) : Except Err (List Nat) :=
  match l.lead with
  | none => .error .cellLineCorrupted
  | some lead =>
    match stoi lead with
    | .error e => .error e
    | .ok nbData =>
      match mapE stoi l.ints with
      | .error e => .error e
      | .ok ints => if nbData ≠ ints.length then .error .cellLineCount else .ok ints

def readCellFaces (raw : Raw) : Except Err (List (List Nat)) :=
  match raw.cellTypes with
  | none => .error .noCellTypes
  | some (nb, tys) =>
    match stoi nb with
    | .error e => .error e
    | .ok nbCells =>
      match mapE checkType tys with
      | .error e => .error e
      | .ok _ =>
        if tys.length ≠ nbCells then .error .cellTypeCount else
        match raw.cells with
        | none => .error .noCells
        | some none => .error .noCellsEnd
        | some (some lines) => mapE convLine lines

def getCellTypes (raw : Raw) : Except Err (List Int) :=
  match raw.typeIds with
  | none => .error .noTypeIds
  | some ids => match mapE stoi ids with
    | .error e => .error e
    | .ok vs => .ok (vs.map toShort)

/-- constructor, `read()`, `get_cell_types()` -/
def assemble (P : NumSem R) (raw : Raw) : Except Err (List (Mesh R) × List Int) :=
  match ctorCheck P raw with
  | .error e => .error e
  | .ok _ =>
    match getNodePos P raw with
    | .error e => .error e
    | .ok pos =>
      match readCellFaces raw with
      | .error e => .error e
      | .ok conn =>
        match getCellMesh pos conn with
        | .error e => .error e
        | .ok ms =>
          match getCellTypes raw with
          | .error e => .error e
          | .ok tys => .ok (ms, tys)

/-! ## start-up cross checks of simulation_initializer::run on what the reader returned -/

inductive InitVerdict
  | mustThrow        -- an intialization_exception is certain
  | unknown          -- the cells are handed to the mesh/cell constructors, which are not modelled here
deriving Repr, DecidableEq

/-- `nTypes` cell types in the parameter file, `triangulate` = perform_initial_triangulation -/
def initChecks (nTypes : Nat) (triangulate : Bool) (ms : List (Mesh R)) (tys : List Int) : InitVerdict :=
  if ms.length ≠ tys.length then .mustThrow
  else if tys.any (fun t => decide (t < 0) || decide ((nTypes : Int) ≤ t)) then .mustThrow
  else if !triangulate && ms.any (fun m => m.faces.any (fun f => f.length != initTriangleArity)) then .mustThrow
  else .unknown

/-! ## token view of a file -/

inductive Token
  | word (w : List Char)    -- a chunk that is neither of the following (keywords, array names, types)
  | int (n : Nat)           -- a chunk of decimal digits (`std::to_string` of an unsigned)
  | num (s : List Char)     -- a chunk that starts with a digit, sign or dot (sprintf output)
  | nl                      -- line break
deriving Repr, DecidableEq

def digitsOf (n : Nat) : List Char := Nat.toDigits 10 n

def Token.len : Token → Nat
  | .word w => w.length
  | .int n => (digitsOf n).length
  | .num s => s.length
  | .nl => 0

/-- rendering: every chunk is followed by one space, a line break is `\n` -/
def Token.render : Token → List Char
  | .word w => w ++ [' ']
  | .int n => digitsOf n ++ [' ']
  | .num s => s ++ [' ']
  | .nl => ['\n']

def render (ts : List Token) : List Char := ts.flatMap Token.render

/-- keyword = literal of the writer without its white space -/
def strip (l : List Char) : List Char := l.filter (fun c => !isSpace c)

def kwPoints : List Char := strip wPointsKw
def kwFloat : List Char := strip wPointsType
def kwCells : List Char := strip wCellsKw
def kwCellTypes : List Char := strip wCellTypesKw
def kwCellData : List Char := strip wCellDataKw
def kwTypeId : List Char := ['c', 'e', 'l', 'l', '_', 't', 'y', 'p', 'e', '_', 'i', 'd']
def kwCellId : List Char := ['c', 'e', 'l', 'l', '_', 'i', 'd']

/-- maximal runs of digits of a text (successive matches of `[0-9]+`) -/
def digitRunsAux : List Char → List Char → List Nat
  | [], cur => if cur.isEmpty then [] else [natOfDigits cur.reverse]
  | c :: cs, cur =>
    if isDigit c then digitRunsAux cs (c :: cur)
    else (if cur.isEmpty then [] else [natOfDigits cur.reverse]) ++ digitRunsAux cs []

def digitRuns (l : List Char) : List Nat := digitRunsAux l []

/-- a white-space separated chunk as a token -/
def classify (w : List Char) : Token :=
  if w.all isDigit then .int (natOfDigits w)
  else match w with
    | c :: _ => if isDigit c || c == '-' || c == '+' || c == '.' then .num w else .word w
    | [] => .word []

/-- the tokens of a text: chunks between white space, line breaks kept -/
def tokenizeAux : List Char → List Char → List Token
  | [], cur => if cur.isEmpty then [] else [classify cur.reverse]
  | c :: cs, cur =>
    if c == '\n' then (if cur.isEmpty then [] else [classify cur.reverse]) ++ Token.nl :: tokenizeAux cs []
    else if isSpace c then (if cur.isEmpty then [] else [classify cur.reverse]) ++ tokenizeAux cs []
    else tokenizeAux cs (c :: cur)

def tokenize (l : List Char) : List Token := tokenizeAux l []

/-- a word ends a numeric section when it contains two consecutive `[A-Za-z_]` -/
def twoWordCh : List Char → Bool
  | a :: b :: rest => (isWordCh a && isWordCh b) || twoWordCh (b :: rest)
  | _ => false

def Token.isWord2 : Token → Bool
  | .word w => twoWordCh w
  | _ => false

def Token.hasUpper : Token → Bool
  | .word w => w.any isUpper
  | _ => false

def Token.hasAlpha : Token → Bool
  | .word w => w.any isAlpha
  | _ => false

/-- first suffix on which `p` succeeds (leftmost match of a regular expression whose first atom is a
    literal) -/
def findFirst {α : Type} (p : List Token → Option α) : List Token → Option α
  | [] => none
  | t :: ts => match p (t :: ts) with
    | some a => some a
    | none => findFirst p ts

/-- `# vtk DataFile Version (\d*\.?\d*)` on tokens: the four words, then the version text -/
def patVersion : List Token → Option (List Char)
  | .word w1 :: .word w2 :: .word w3 :: .word w4 :: rest =>
    if w1 = ['#'] ∧ w2 = ['v', 't', 'k'] ∧ w3 = ['D', 'a', 't', 'a', 'F', 'i', 'l', 'e'] ∧ w4 = ['V', 'e', 'r', 's', 'i', 'o', 'n'] then
      match rest with
      | .num s :: _ => some s
      | .int n :: _ => some (digitsOf n)
      | _ => some []
    else none
  | _ => none

/-- `POINTS ([0-9]+) ([a-z]+)` -/
def patPoints : List Token → Option (Nat × List Char × List Token)
  | .word w :: .int n :: .word ty :: rest =>
    if w = kwPoints ∧ ty.all isLower ∧ ty ≠ [] then some (n, ty, rest) else none
  | _ => none

/-- `CELL_TYPES ([0-9]+)` -/
def patCellTypes : List Token → Option (Nat × List Token)
  | .word w :: .int n :: rest => if w = kwCellTypes then some (n, rest) else none
  | _ => none

/-- `CELLS ([0-9]+) ([0-9])+` -/
def patCells : List Token → Option (List Token)
  | .word w :: .int _ :: .int _ :: rest => if w = kwCells then some rest else none
  | _ => none

/-- `[C|c]ell_type_id [0-9]+ [0-9]+ [a-zA-Z]+` -/
def patTypeIds : List Token → Option (List Token)
  | .word w :: .int _ :: .int _ :: .word ty :: rest =>
    if (w = kwTypeId ∨ w = 'C' :: kwTypeId.drop 1 ∨ w = '|' :: kwTypeId.drop 1) ∧ ty.all isAlpha ∧ ty ≠ [] then some rest else none
  | _ => none

/-- the number texts of a section -/
def numTexts : List Token → List (List Char)
  | [] => []
  | .num s :: ts => s :: numTexts ts
  | .int n :: ts => digitsOf n :: numTexts ts
  | _ :: ts => numTexts ts

/-- the `[0-9]+` matches of a section whose chunks are integers -/
def intVals : List Token → List Nat
  | [] => []
  | .int n :: ts => n :: intVals ts
  | .num s :: ts => digitRuns s ++ intVals ts
  | _ :: ts => intVals ts

/-- split at line breaks (`std::getline`: text after the last line break is a line when non-empty) -/
def splitLines : List Token → List (List Token)
  | [] => []
  | .nl :: ts => [] :: splitLines ts
  | t :: ts => match splitLines ts with
    | [] => [[t]]
    | l :: ls => (t :: l) :: ls

def lineOf (ts : List Token) : Option CellLine :=
  if (render ts).length ≤ rLineSkip then none
  else match ts with
    | .int n :: rest => some ⟨some n, intVals rest⟩
    | _ => some ⟨none, intVals ts⟩

def maxLen (ts : List Token) : Nat := ts.foldr (fun t m => max t.len m) 0

/-- what the searches of the reader extract from a file given as tokens -/
def sectionsOf (ts : List Token) : Raw :=
  { maxToken := maxLen ts
    version := findFirst patVersion ts
    points := (findFirst patPoints ts).map (fun (n, ty, rest) => (n, ty, numTexts (rest.takeWhile (fun t => !t.isWord2))))
    cellTypes := (findFirst patCellTypes ts).map (fun (n, rest) => (n, intVals (rest.takeWhile (fun t => !t.hasUpper))))
    cells := (findFirst patCells ts).map (fun rest =>
      if rest.any Token.hasUpper then
        some ((splitLines (rest.takeWhile (fun t => !t.hasUpper))).filterMap lineOf)
      else none)
    typeIds := (findFirst patTypeIds ts).map (fun rest => intVals (rest.takeWhile (fun t => !t.hasAlpha))) }

/-- the reader on a token list -/
def read (P : NumSem R) (ts : List Token) : Except Err (List (Mesh R) × List Int) := assemble P (sectionsOf ts)

/-! ## the population and `cell::rebase` -/

structure NodeSlot (R : Type) where
  x : R
  y : R
  z : R
  used : Bool
deriving Repr

structure FaceSlot where
  a : Nat
  b : Nat
  c : Nat
  used : Bool
deriving Repr, DecidableEq

/-- a cell as the writer sees it: node and face slots (a slot is unused when its index is in the
    free queue of the cell), id, the global id of its cell type, and the texts the other data
    arrays produce for it (area, volume, pressure … : not modelled, `extra k` is the text of the
    k-th array of `Gen.Vtk.cellArrays`) -/
structure Cell (R : Type) where
  nodes : List (NodeSlot R)
  faces : List FaceSlot
  id : Nat
  typeId : Int
  extra : Nat → List Char

/-- new id of the node in slot `i`: number of used slots before it (`remove_index` keeps the order) -/
def rank (nodes : List (NodeSlot R)) (i : Nat) : Nat := ((nodes.take i).filter (·.used)).length

/-- `node_id_correspondence[i]` of `cell::rebase` — built only when some node slot is free; a key that
    is absent (a free or non-existent slot) is default-inserted with value 0 by `std::map::operator[]` -/
def renum (nodes : List (NodeSlot R)) (i : Nat) : Nat :=
  if nodes.all (·.used) then i
  else match nodes[i]? with
    | some n => if n.used then rank nodes i else 0
    | none => 0

/-- `cell::rebase`: the free face slots are removed, the free node slots are removed, the remaining
    nodes are renumbered in order and the faces follow -/
def rebase (c : Cell R) : Cell R :=
  { c with
    nodes := c.nodes.filter (·.used)
    faces := (c.faces.filter (·.used)).map (fun f => ⟨renum c.nodes f.a, renum c.nodes f.b, renum c.nodes f.c, true⟩) }

/-! ## the writer -/

structure Fmt (R : Type) where
  fmt : R → List Char          -- format_number(x, wCoordFormat)
  finite : R → Bool

inductive WErr
  | emptyPopulation     -- `assert(cell_lst.size())`; `partial_sum_vector` reads `lst.front()`
  | nonFinite           -- mesh_writer_exception("NaN found in the point coordinates …")
deriving Repr, DecidableEq

def Cell.coords (c : Cell R) : List R := c.nodes.flatMap (fun n => [n.x, n.y, n.z])

/-- `write_point_data`: the i-th coordinate (counted from 1 over the whole population) is followed by
    a line break when `i % wCoordsPerLine == 0` -/
def coordToks (F : Fmt R) : Nat → List R → List Token
  | _, [] => []
  | i, x :: xs => (if (i + 1) % wCoordsPerLine = 0 then [Token.num (F.fmt x), Token.nl] else [Token.num (F.fmt x)]) ++ coordToks F (i + 1) xs

/-- the integers of the line of one cell after its leading count -/
def cellInts (off : Nat) (c : Cell R) : List Nat :=
  c.faces.length :: c.faces.flatMap (fun f => [wFaceArity, f.a + off, f.b + off, f.c + off])

/-- `cell_int_size[i]` -/
def cellIntSize (c : Cell R) : Nat := wIntsPerCellBase + c.faces.length * wIntsPerFace

def cellLines : Nat → List (Cell R) → List Token
  | _, [] => []
  | off, c :: cs => (Token.int (cellIntSize c) :: (cellInts off c).map Token.int) ++ [Token.nl] ++ cellLines (off + c.nodes.length) cs

def intTok (z : Int) : Token := if 0 ≤ z then .int z.toNat else .num ('-' :: digitsOf z.natAbs)

/-- values of one array: a line break after every `wValuesPerLine`-th value -/
def valueToks : Nat → List Token → List Token
  | _, [] => []
  | i, v :: vs => (if (i + 1) % wValuesPerLine = 0 then [v, Token.nl] else [v]) ++ valueToks (i + 1) vs

def arrayValue (k : Nat) (name : List Char) (c : Cell R) : Token :=
  if name = kwCellId then .int c.id
  else if name = kwTypeId then intTok c.typeId
  else classify (c.extra k)

def arrayToks (cs : List (Cell R)) : Nat → List (List Char × List Char) → List Token
  | _, [] => []
  | k, (name, ty) :: rest =>
    [Token.nl, .word name, .int 1, .int cs.length, .word ty, .nl] ++ valueToks 0 (cs.map (arrayValue k name)) ++ arrayToks cs (k + 1) rest

/-- the polyhedron type the writer puts on every CELL_TYPES line -/
def wPolyType : Nat := natOfDigits (strip wPolyLine)

/-- `POINTS n float` and the coordinates -/
def pointsToks (F : Fmt R) (cs : List (Cell R)) : List Token :=
  [.word kwPoints, .int (cs.map (fun c => c.nodes.length)).sum, .word kwFloat, .nl] ++ coordToks F 0 (cs.flatMap Cell.coords)

/-- `CELLS n m` (m = sum of `cell_int_size` + number of cells) and one line per cell -/
def cellsToks (cs : List (Cell R)) : List Token :=
  [.nl, .nl, .word kwCells, .int cs.length, .int ((cs.map cellIntSize).sum + cs.length), .nl] ++ cellLines 0 cs

/-- `CELL_TYPES n` and one polyhedron line per cell -/
def typesToks (cs : List (Cell R)) : List Token :=
  [.nl, .word kwCellTypes, .int cs.length, .nl] ++ cs.flatMap (fun _ => [Token.int wPolyType, Token.nl])

/-- `CELL_DATA n`, `FIELD FieldData k` and the arrays (add_cell_data_arrays_to_mesh) -/
def dataToks (cs : List (Cell R)) : List Token :=
  [.nl, .word kwCellData, .int cs.length, .nl] ++ (tokenize wFieldKw ++ (Token.int cellArrays.length :: arrayToks cs 0 cellArrays))

/-- the cell-data file of a list of cells that have no free slots -/
def fileToks (F : Fmt R) (cs : List (Cell R)) : List Token :=
  tokenize wHeader ++ (pointsToks F cs ++ (cellsToks cs ++ (typesToks cs ++ dataToks cs)))

/-- `mesh_writer::write`, cell-data file: `cell::rebase` of every cell, then header, POINTS, coordinates
    (refused when not finite), CELLS, CELL_TYPES, CELL_DATA -/
def writeCells (F : Fmt R) (pop : List (Cell R)) : Except WErr (List Token) :=
  if pop.isEmpty then .error .emptyPopulation else
  let cs := pop.map rebase
  if (cs.flatMap Cell.coords).any (fun x => !F.finite x) then .error .nonFinite else
  .ok (fileToks F cs)

end Simu.Vtk
