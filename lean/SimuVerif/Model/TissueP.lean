import SimuVerif.Model.TissueR
import SimuVerif.Gen.Population
/-
  C14 — the assembled iteration of a tissue WITH THE POPULATION EVENT "REMOVAL" (P for population).

  `tissueIterationP` = `TissueR.tissueIterationR` (one whole `solver::run_iteration` of N interacting epithelial cells, remeshing and
  the rebase of `save_mesh` included, see Model/TissueR.lean) followed by what `solver::run_iteration` (/repo/src/solver.cpp) does
  between `update_nodes_positions` and `iteration_++`:

      9. `if(iteration_ % 50 == 0) statistic_writer_ptr_->write_data(…)`      reads the cells, writes a file / string: no state of the
                                                                              tissue is touched (and it runs BEFORE the erase: the
                                                                              cells about to be removed are still in the statistics)
     10. `cell_lst_.erase(std::remove_if(begin, end, λ), end)`                λ(c) = `if(c->is_below_min_vol()) c->clear_data();
                                                                              return c->is_below_min_vol();` = `Gen.CellCycle.removalLambda`
                                                                              (regenerated from the source with `clear_data` inlined).
                                                                              `is_below_min_vol()` tests `volume_ < cell_type_->min_vol_`
                                                                              where `volume_` is the number `apply_internal_forces`
                                                                              stored in step 7 — the volume of the mesh BEFORE the
                                                                              position update of step 8, not of the mesh as it is now.
                                                                              `remove_if` applies λ once per element in list order and
                                                                              keeps the order of the survivors (`Pop.removeIdx`, C08).
     10'. `for(i = 0; i < cell_lst_.size(); i++) cell_lst_[i]->set_local_id(i)` the renumbering loop (fix 72c0b19)

  The order of these calls is not written here: it is the tail of the phase list that C08's translator extracts from `solver.cpp`
  on every run (`Gen.Population.code.phases` from `.stats` on), interpreted by `runEndPhase`.

  What is NOT touched by the removal: the couplings `coupled_node_ = (local id, node id)` stored in the nodes of the SURVIVORS.  After
  the erase they name positions of the OLD list: a coupling to the removed cell names whatever cell has taken its position (or a
  position beyond the end of the list), a coupling to a cell behind the removed one names its old position.  They stay like that
  until step 5a of the NEXT iteration resets the couplings of all used nodes; `save_mesh` (`mesh_writer` reads `is_coupled()` only),
  `update_face_types` and `refine_meshes` of that iteration do not dereference them.  The integrator of THIS iteration has already run
  (step 8) with the couplings as the contact phase of this iteration left them, the removed cell included.  The model keeps these
  stale couplings exactly as the code does (they are part of the compared state).

  `cell_id_` / `local_id_` / `max_cell_id_` are carried in `StateTP` next to the `StateTR` of Model/TissueR.lean, whose phases use the
  POSITION of a cell in the list wherever the code uses `local_id_` (contact model: `c->get_local_id()` stored in couplings,
  `cell_lst[id]` lookups; integrator: `c1->get_local_id() > c2_id`): the two agree exactly when `identsOk` (local id = position),
  which the renumbering loop establishes and which is part of the domain `stepOkTP`.

  Domain `stepOkTP` = `TissueR.stepOkTR` WITHOUT the conjunct "no cell below its minimum volume", plus `identsOk` and a non-empty
  list (`solver::run` does not call `run_iteration` on an empty list).  Division stays outside (`preOkTR`).

  Core Lean only (compiled into `drv_c14`); polymorphic in the scalar.
-/
namespace Simu.TissueP
open Simu Simu.Forces Simu.Gen Simu.TissueR

/-- `cell::cell_id_`, `cell::local_id_` -/
structure Ident where
  cellId : Nat
  localId : Nat
deriving DecidableEq, Repr, Inhabited

/-- the tissue of Model/TissueR.lean + the identities of its cells (`idents` is parallel to `base.cells`) + `solver::max_cell_id_` -/
structure StateTP (R : Type) where
  base : StateTR R
  idents : List Ident
  maxId : Nat

variable {R : Type} [Add R] [Sub R] [Mul R] [Div R] [Neg R] [Lit R] [LT R] [LE R] [DecidableLT R] [DecidableLE R] [DecidableEq R]

/-- the answer of the predicate handed to `remove_if` for this cell: `volume_` is the one stored by `apply_internal_forces` -/
def removedP (c : CellTR R) : Bool := (Gen.CellCycle.removalLambda c.volume c.tvol c.k.minVol).1

/-- the positions of `cell_lst_` at which the predicate answers true, ascending -/
def removedPositions (cells : List (CellTR R)) : List Nat := (cells.zipIdx.filter fun p => removedP p.1).map (·.2)

/-- the renumbering loop on the identities -/
def renumberIdents (l : List Ident) : List Ident := l.mapIdx fun i d => { d with localId := i }

/-- one call of the tail of `run_iteration`; `rm` = the positions the predicate selects -/
def runEndPhase (rm : List Nat) (s : StateTP R) : Pop.Phase → StateTP R
  | .remove => { s with base := { s.base with cells := Pop.removeIdx s.base.cells rm }, idents := Pop.removeIdx s.idents rm }
  | .renumber => { s with idents := renumberIdents s.idents }
  | _ => s

/-- the calls of `run_iteration` from the statistics on, as extracted from the source -/
def endPhases : List Pop.Phase := Gen.Population.code.phases.dropWhile (fun p => p != Pop.Phase.stats)

/-- steps 9, 10, 10' -/
def removalP (s : StateTP R) : StateTP R := endPhases.foldl (runEndPhase (removedPositions s.base.cells)) s

/-- one `solver::run_iteration`, removal of the cells below their minimum volume included -/
def tissueIterationP (fn : Fn R) (fx : FX R) (K : ConstsTR R) (s : StateTP R) : Except Remesh.Err (StateTP R) :=
  (tissueIterationR fn fx K s.base).map fun b => removalP { s with base := b }

/-- n iterations (an exception ends the run; so does an empty list: `solver::run` stops) -/
def tissueRunP (fn : Fn R) (fx : FX R) (K : ConstsTR R) : Nat → StateTP R → Except Remesh.Err (StateTP R)
  | 0, s => .ok s
  | n + 1, s => (tissueIterationP fn fx K s).bind (tissueRunP fn fx K n)

/-! ### the domain -/

/-- one identity per cell, local id = position in the list (what the phases of Model/TissueR.lean assume) -/
def identsOk (s : StateTP R) : Bool :=
  s.idents.length == s.base.cells.length && s.idents.zipIdx.all fun p => p.1.localId == p.2

/-- `TissueR.stepOkFromT` without "no cell below its minimum volume" -/
def stepOkFromP (s : StateTP R) (live : Bool) (ms : Except Remesh.Err (StateTR R))
    (bi : StateTR R → List (CellTR R) × Bool) : Bool :=
  preOkTR s.base && identsOk s && !s.base.cells.isEmpty && live &&
  match ms with
  | .error e => e != Remesh.Err.fuel
  | .ok s1 => s1.cells.all cellMeshOk && (bi s1).2 && coupOk (bi s1).1

/-- the next `solver::run_iteration` is `tissueIterationP` -/
def stepOkTP (fn : Fn R) (fx : FX R) (K : ConstsTR R) (s : StateTP R) : Bool :=
  stepOkFromP s (refineLiveT fn K s.base) (meshStageT fn K s.base) (fun s1 => beforeIntegrationR fn fx K.base s1.cells)

def runOkTP (fn : Fn R) (fx : FX R) (K : ConstsTR R) : Nat → StateTP R → Bool
  | 0, _ => true
  | n + 1, s => stepOkTP fn fx K s &&
    match tissueIterationP fn fx K s with
    | .error _ => true
    | .ok s' => runOkTP fn fx K n s'

/-! ### the tissue placed somewhere else -/

def translateTP (t : V3 R) (s : StateTP R) : StateTP R := { s with base := translateTR t s.base }

/-! ### the population of C08 that this state carries (identities, used flags, couplings, face references) -/

def popNodes (c : CellTR R) : List Pop.Node :=
  (List.range c.mesh.nodes.size).map fun i => ⟨i, Remesh.usedN c.mesh i, c.a.coup.getD i none⟩

def popFaces (obj : Nat) (c : CellTR R) : List Pop.Face :=
  c.mesh.faces.toList.map fun f => ⟨f.used, f.typ, some obj, f.n1, f.n2, f.n3⟩

/-- the cell as C08 sees it; the object identity is the persistent id (an object keeps its id for life) -/
def popCell (c : CellTR R) (d : Ident) : Pop.Cell :=
  { obj := d.cellId, cellId := d.cellId, localId := d.localId, kind := c.k.kind, nTypes := c.k.ft.length, isStatic := false,
    nodes := popNodes c, faces := popFaces d.cellId c }

def popOf (s : StateTP R) : Pop.State :=
  { cells := (s.base.cells.zip s.idents).map fun p => popCell p.1 p.2, maxId := s.maxId, nextObj := s.maxId, iter := s.base.iter }

end Simu.TissueP
