import SimuVerif.Model.Vec
/-
  C12 — scalar helpers used by the translated geometry code (core Lean only).
  `sabs` is `std::abs`, `SEq.seq` is `==` on doubles (Float has no `DecidableEq`, so the
  comparison enters through this class: IEEE `==` at Float, `decide (a = b)` at a field).
-/
namespace Simu.Geo

class SEq (R : Type) where
  seq : R → R → Bool
export SEq (seq)

instance : SEq Float := ⟨fun a b => a == b⟩

/-- `std::abs` -/
def sabs {R : Type} [Neg R] [Lit R] [LT R] [DecidableLT R] (x : R) : R :=
  if x < (lit 0 : R) then -x else x

end Simu.Geo
