import SimuVerif.Model.Geometry
import SimuVerif.Gen.GateConsts
/-
  C13 — executable model of what stands between the surface reconstruction and the solver.  Core Lean only.

  * `accept`     : the acceptance gate `cell(mesh)` + `cell::initialize_cell_properties(true)` (src/mesh/cell.cpp):
                   repeated-node test, `generate_edge_set` (a third face on an edge throws mesh_integrity_exception),
                   `is_manifold` (two faces per edge, V − E + F = 2 with the code's counts), the orientation flood fill of
                   `check_face_normal_orientation` with its test that every face was reached, the sign flip.
                   The edge set, the flood fill and the sign flip are the C12 model (`Model/Geometry.lean`, tied to the
                   code there and again here); which of the tests exist and the Euler number are READ FROM THE SOURCE
                   (`Gen/GateConsts.lean`), so that a removed test re-opens the proofs.
  * `tries`      : the retry loop of `simulation_initializer::triangulate_surface` (src/io/simulation_initializer.cpp).
  * `initialise` : one cell through the loop: reconstruction (opaque: any function of the attempt number — ball pivoting
                   and the clock-seeded sampling are NOT modelled) or the already-triangulated path, then the gate.
  * `coarse`     : `initial_triangulation::coarse_triangulation` (fan triangulation of the polygonal faces).
-/
namespace Simu.Gate
open Simu Simu.Geo Simu.Gen.Gate

variable {R : Type} [Add R] [Sub R] [Mul R] [Div R] [Neg R] [Lit R] [LT R] [DecidableLT R] [SEq R]

/-! ### the gate -/

/-- no face uses a node twice -/
def nonDegB (T : List Tri) : Bool := T.all (fun t => t.1 != t.2.1 && t.2.1 != t.2.2 && t.2.2 != t.1)

/-- `cell::is_manifold` with the tests the source contains -/
def isManifoldG (es : List EdgeRec) (nbNodes nbFaces : Nat) : Bool :=
  (!checksTwoFacesPerEdge || es.all (fun e => e.2.2.isSome)) &&
  (match eulerTarget with
   | none => true
   | some k => nbNodes + nbFaces == es.length + k)

/-- `cell::check_face_normal_orientation`: flood fill, (test that every face was reached), sign flip -/
def orientChecked (pos : Nat → V3 R) (es : List EdgeRec) (T : List Tri) : Except InitErr (List Tri) :=
  match floodInit (nbr es) T with
  | none => .error .undefined
  | some s0 =>
    match floodRun (nbr es) (3 * T.length + 4) s0 with
    | none => .error .undefined
    | some s =>
      if checksConnected && !(s.checked.all id) then .error .notManifold
      else .ok (finalFlip pos s.faces)

/-- the gate: the oriented faces that reach the solver, or the exception class -/
def accept (pos : Nat → V3 R) (n : Nat) (T : List Tri) : Except InitErr (List Tri) :=
  if checksNonDegenerate && !nonDegB T then .error .integrity else
  match genEdges T 0 [] with
  | none => .error .integrity
  | some es =>
    if !isManifoldG es (liveNodes T n).length T.length then .error .notManifold
    else orientChecked pos es T

/-! ### the retry loop -/

/-- the classes of `std::exception` that matter -/
inductive Exc where
  | integrity        -- mesh_integrity_exception
  | triangulation    -- initial_triangulation_exception
  | initialisation   -- intialization_exception
  | undefined        -- (the C++ would read out of range)
  | other (tag : Nat) -- any other std::exception (bpa_exception, uspg_exception, std::bad_alloc …)
deriving Repr, DecidableEq

def Exc.ofInit : InitErr → Exc
  | .integrity => .integrity
  | .notManifold => .triangulation
  | .undefined => .undefined

/-- `for(short i = 0; i < max_nb_tries; ++i){ try{ …; break; } catch(const std::exception&){ report } if(i == max_nb_tries - 1) throw fail; } return c0;`
    `rem` = iterations left, `i` = loop variable.  Result: outcome (`ok none` = the null pointer `c0` was initialised with)
    and the number of iterations executed. -/
def triesLoop {ε α : Type} (fail : ε) (attempt : Nat → Except ε α) (maxTries : Nat) : Nat → Nat → Except ε (Option α) × Nat
  | 0, i => (.ok none, i)
  | rem + 1, i =>
    match attempt i with
    | .ok c => (.ok (some c), i + 1)
    | .error _ => if i + 1 == maxTries then (.error fail, i + 1) else triesLoop fail attempt maxTries rem (i + 1)

def tries {ε α : Type} (fail : ε) (attempt : Nat → Except ε α) (maxTries : Nat) : Except ε (Option α) × Nat :=
  triesLoop fail attempt maxTries maxTries 0

/-- a triangulated mesh: `node_lst_.size()`, positions, faces -/
structure TMesh (R : Type) where
  n : Nat
  pos : Nat → V3 R
  faces : List Tri

/-- an input cell: polygonal faces -/
structure PMesh (R : Type) where
  n : Nat
  pos : Nat → V3 R
  faces : List (List Nat)

def triOfList : List Nat → Tri
  | a :: b :: c :: _ => (a, b, c)
  | _ => (0, 0, 0)

/-- the body of the `try` block for iteration `i`: reconstruction or copy, construction of the typed cell,
    `initialize_cell_properties()` -/
def attempt (performTri : Bool) (typeId : Nat) (recon : Nat → Except Exc (TMesh R)) (input : PMesh R) (i : Nat) :
    Except Exc (TMesh R) := do
  let m ← if performTri then recon i
          else if input.faces.all (fun f => f.length == 3) then
            .ok ⟨input.n, input.pos, input.faces.map triOfList⟩
          else .error .initialisation
  if typeId > 4 then .error .initialisation else
  match accept m.pos m.n m.faces with
  | .error e => .error (Exc.ofInit e)
  | .ok T => .ok ⟨m.n, m.pos, T⟩

/-- `simulation_initializer::triangulate_surface` -/
def initialise (performTri : Bool) (typeId : Nat) (recon : Nat → Except Exc (TMesh R)) (input : PMesh R) :
    Except Exc (Option (TMesh R)) × Nat :=
  tries .initialisation (attempt performTri typeId recon input) maxNbTries

/-! ### coarse triangulation -/

/-- the pairs (previous corner, corner) of `for(unsigned i = f.size()-1, j = 0; j < f.size(); i = j++)` -/
def fanPairs (f : List Nat) : List (Nat × Nat) :=
  match f.getLast? with
  | none => []
  | some l => (l :: f.dropLast).zip f

def pick (o : Nat) (a b c : Nat) : Nat := if o = 0 then a else if o = 1 then b else c

/-- the fan of one polygonal face around the centre node `c`, members ordered as in the source -/
def fanTris (f : List Nat) (c : Nat) : List Tri :=
  (fanPairs f).map (fun p => (pick fanOrder.1 p.1 p.2 c, pick fanOrder.2.1 p.1 p.2 c, pick fanOrder.2.2 p.1 p.2 c))

/-- the new triangles, polygon after polygon; `c` = id of the next centre node -/
def fans : List (List Nat) → Nat → List Tri
  | [], _ => []
  | f :: rest, c => if f.length != 3 then fanTris f c ++ fans rest (c + 1) else fans rest c

/-- the faces after `coarse_triangulation`: the triangles that were there, in order, then the fans -/
def coarseFaces (n : Nat) (faces : List (List Nat)) : List Tri :=
  ((faces.filter (fun f => f.length == 3)).map triOfList) ++ fans faces n

/-- `sum_node_pos / static_cast<double>(f.size())`, the sum taken corner after corner from (0,0,0) -/
def centre (pos : Nat → V3 R) (f : List Nat) : V3 R :=
  (f.foldl (fun s i => s + pos i) ⟨lit 0, lit 0, lit 0⟩) / (lit f.length : R)

/-- the centres appended to the node list, in order -/
def centres (pos : Nat → V3 R) (faces : List (List Nat)) : List (V3 R) :=
  (faces.filter (fun f => f.length != 3)).map (centre pos)

/-- the cell that `initial_triangulation::triangulate_surface` samples: the coarse mesh through `convert_mesh_to_cell`
    (`nodes` = number of nodes of the input, `pos` = positions of the input nodes followed by the centres).  Whether the
    integrity tests and the outward orientation are applied is read from the source. -/
def sampledSurface (pos : Nat → V3 R) (nodes : Nat) (faces : List (List Nat)) : Except InitErr (List Tri) :=
  let T := coarseFaces nodes faces
  let n := nodes + (faces.filter (fun f => f.length != 3)).length
  if coarseMeshChecked then accept pos n T else .ok T

end Simu.Gate
