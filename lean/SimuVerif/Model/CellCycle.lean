import SimuVerif.Gen.CellCycle
/-
  C04 — the cell cycle: growth of the target volume, pressure, division trigger, the 3-sigma
  clamp of the random draws, removal of the cells below the minimum volume, and the population
  over histories of iterations.

  The scalar formulas are the generated ones (`Gen/CellCycle.lean`, regenerated from the C++ on
  every run).  Hand-written here: infinite parameters (`max_pressure_ = inf`,
  `avg_division_vol_ = inf`) as `Option` (`none` = +∞: an ordered field has no such element), the cell
  and population records, the composition of the phases of `solver::run_iteration` and the
  removal filter.  Core Lean only: compiled at `Float` into `drv_c04`, reasoned about over an
  arbitrary ordered field in `Properties/C04.lean`.
-/
namespace Simu.CellCycle
open Simu

variable {R : Type} [Add R] [Sub R] [Mul R] [Div R] [Neg R] [Lit R]
  [LT R] [LE R] [DecidableLT R] [DecidableLE R] [DecidableEq R]

/-- `cell_type_parameters`, the members the cell cycle reads.  `none` stands for `+inf`. -/
structure CellType (R : Type) where
  kind   : Kind
  bulk   : R            -- bulk_modulus_
  maxP   : Option R     -- max_pressure_
  initP  : R            -- initial_pressure_
  gAvg   : R            -- avg_growth_rate_
  gStd   : R            -- std_growth_rate_
  dvAvg  : Option R     -- avg_division_vol_
  dvStd  : R            -- std_division_vol_
  minVol : R            -- min_vol_

/-- the cell-cycle state of a cell -/
structure Cell (R : Type) where
  id   : Nat
  ty   : CellType R
  vol  : R              -- volume_
  tv   : R              -- target_volume_
  p    : R              -- pressure_
  g    : R              -- growth_rate_
  vdiv : Option R       -- division_volume_

/-- `cell::update_pressure` for a finite or infinite cap: with `max_pressure_ = +inf` the
    comparison `pressure_ > max_pressure_` is false for every finite pressure -/
def pressure (fn : Fn R) (ty : CellType R) (V Vt : R) : R :=
  match ty.maxP with
  | none   => Gen.CellCycle.pressureRaw fn ty.bulk V Vt
  | some m => Gen.CellCycle.pressureCap (Gen.CellCycle.pressureRaw fn ty.bulk V Vt) m

/-- `cell::initialize_random_properties`: growth rate from the draw `x` -/
def drawGrowthRate (ty : CellType R) (x : R) : R := Gen.CellCycle.clampGrowthRate ty.gAvg ty.gStd x

/-- `cell::initialize_random_properties`: division volume from the draw `x`; with an infinite mean
    the code takes the `else` branch and copies the mean -/
def drawDivisionVolume (ty : CellType R) (x : R) : Option R :=
  match ty.dvAvg with
  | none   => none
  | some a => some (Gen.CellCycle.clampDivisionVolume a ty.dvStd false x)

/-- `is_ready_to_divide()` through the virtual dispatch: the overriding classes use their own test,
    all others the default; an infinite division volume is never reached -/
def ready (c : Cell R) : Bool :=
  if Gen.CellCycle.readyOverriders.contains c.ty.kind then
    match c.vdiv with
    | none   => false
    | some d => Gen.CellCycle.readyEpithelial c.vol d
  else Gen.CellCycle.readyDefault

/-- a cell as `cell::initialize_cell_properties` leaves it: target volume = volume, no pressure,
    growth rate and division volume drawn (`xg`, `xd` are the two draws) -/
def newborn (id : Nat) (ty : CellType R) (V xg xd : R) : Cell R :=
  { id := id, ty := ty, vol := V, tv := V, p := lit 0, g := drawGrowthRate ty xg, vdiv := drawDivisionVolume ty xd }

/-- `solver::solver`: the target volume is set from the initial pressure, then `update_pressure` -/
def solverInit (fn : Fn R) (c : Cell R) : Cell R :=
  let tv := Gen.CellCycle.initialTargetVolume fn c.vol c.ty.initP c.ty.bulk
  { c with tv := tv, p := pressure fn c.ty c.vol tv }

/-- the cell-cycle part of `apply_internal_forces(dt)`, `V` being the value `compute_volume()`
    returns in this iteration: classes that do not run `cell::apply_internal_forces` keep their state -/
def grow (fn : Fn R) (dt : R) (V : R) (c : Cell R) : Cell R :=
  if Gen.CellCycle.subjectToInternalForces c.ty.kind then
    let tv := Gen.CellCycle.updateTargetVolume c.tv c.g dt c.ty.minVol
    { c with vol := V, tv := tv, p := pressure fn c.ty V tv }
  else c

/-- the predicate of the removal phase (`std::remove_if` in `solver::run_iteration`) -/
def removed (c : Cell R) : Bool := (Gen.CellCycle.removalLambda c.vol c.tv c.ty.minVol).1

/-- the removal phase: `erase(remove_if(…))` keeps the cells for which the predicate is false, in order -/
def removeSmall (l : List (Cell R)) : List (Cell R) := l.filter (fun c => !removed c)

/-- the population: the list `solver::cell_lst_` and the id counter `max_cell_id_` -/
structure Pop (R : Type) where
  cells  : List (Cell R)
  nextId : Nat

def Pop.ids (p : Pop R) : List Nat := p.cells.map (·.id)

/-- `solver::solver`: the cells get the ids `k, k+1, …` in list order … -/
def renumber (fn : Fn R) : List (Cell R) → Nat → List (Cell R)
  | [], _ => []
  | c :: cs, k => solverInit fn { c with id := k } :: renumber fn cs (k + 1)

/-- … starting from 0, the counter ends at the number of cells; every cell gets its initial pressure -/
def initPop (fn : Fn R) (cs : List (Cell R)) : Pop R := { cells := renumber fn cs 0, nextId := cs.length }

/-- what an iteration takes from outside the cell cycle: the volumes the meshes enclose, which
    divisions succeed, what the daughters look like, whether the integrator is in a temporary step -/
structure Event (R : Type) where
  tmpStep  : Bool
  divides  : Nat → Bool                  -- does the division of the cell with this id succeed?
  daughter : Nat → Bool → R × R × R      -- (volume at birth, growth-rate draw, division-volume draw) of daughter 1/2
  vol      : Nat → R                     -- compute_volume() of the cell with this id in this iteration

/-- a daughter as `cell_divider::divide_cell` returns it: built by `initialize_cell_properties` from its own mesh
    (volume `V`), target volume taken from the mother, growth rate and division volume drawn -/
def daughterOf (id : Nat) (m : Cell R) (V xg xd : R) : Cell R :=
  { newborn id m.ty V xg xd with tv := Gen.CellCycle.daughterTargetVolume m.tv }

/-- the daughters of the mothers `ms` (in this order), ids issued from `next` on; returns them with the new counter -/
def mkDaughters (e : Event R) : List (Cell R) → Nat → List (Cell R) × Nat
  | [], next => ([], next)
  | m :: rest, next =>
    let d1 := e.daughter m.id false
    let d2 := e.daughter m.id true
    let r := mkDaughters e rest (next + 2)
    (daughterOf next m d1.1 d1.2.1 d1.2.2 :: daughterOf (next + 1) m d2.1 d2.2.1 d2.2.2 :: r.1, r.2)

/-- `cell_divider::run`: every ready cell whose division succeeds is replaced by two daughters with the
    next two ids, appended at the end in the order of the mothers -/
def divisionRound (p : Pop R) (e : Event R) : Pop R :=
  let ds := mkDaughters e (p.cells.filter (fun c => ready c && e.divides c.id)) p.nextId
  { cells := p.cells.filter (fun c => !(ready c && e.divides c.id)) ++ ds.1, nextId := ds.2 }

/-- the division phase of iteration number `it`: `cell_divider::run` is called outside temporary steps every
    `divisionPeriod` iterations -/
def divPhase (it : Nat) (p : Pop R) (e : Event R) : Pop R :=
  if !e.tmpStep && it % Gen.CellCycle.divisionPeriod == 0 then divisionRound p e else p

/-- the population after the division and the internal-force phases of iteration number `it` -/
def midPop (fn : Fn R) (dt : R) (it : Nat) (p : Pop R) (e : Event R) : Pop R :=
  let p1 := divPhase it p e
  { p1 with cells := p1.cells.map (fun c => grow fn dt (e.vol c.id) c) }

/-- one `solver::run_iteration` -/
def iterate (fn : Fn R) (dt : R) (it : Nat) (p : Pop R) (e : Event R) : Pop R :=
  let m := midPop fn dt it p e
  { m with cells := removeSmall m.cells }

/-- a history of iterations starting at iteration number `it` -/
def runFrom (fn : Fn R) (dt : R) : Nat → Pop R → List (Event R) → Pop R
  | _, p, [] => p
  | it, p, e :: es => runFrom fn dt (it + 1) (iterate fn dt it p e) es

end Simu.CellCycle
