import SimuVerif.Model.RemeshMergeChecks
import SimuVerif.Model.RemeshLive
/-
  A Boolean test of the mesh invariants `Remesh.CellOk` of C01 / C14 (Lemmas/RemeshPass2.lean): consistent free lists, sound
  and complete edge index, consistent node store, closed consistently oriented surface without repeated half-edge, a single
  fan of faces around every node, every used node on the surface.  Soundness: `Remesh.cellOk_of_B`
  (Lemmas/RemeshPassChecks.lean).  Meant for the cell a run STARTS from and for the two meshes `create_daughter_cells` builds
  (everything in between is a theorem).

  Core Lean only (compiled into `drv_c14`).
-/
namespace Simu.Remesh
open Simu Simu.Surface

section
variable {R : Type} [Add R] [Sub R] [Mul R] [Div R] [Neg R] [Lit R] [LT R] [LE R] [DecidableLT R]
  [DecidableLE R] [DecidableEq R]

/-- pick the first live face containing `v`, walk around `v` with `fanOf`, and validate the result with `fanB` -/
def vertexManifoldAutoB (c : Cell R) (v : Nat) : Bool :=
  match (List.range (chkSlots c).length).find? (fun g =>
      match liveAt (chkSlots c) g with | some t => hasNode t v | none => false) with
  | none => false
  | some g =>
    match liveAt (chkSlots c) g with
    | none => false
    | some t =>
      match fanOf c v (thirdNode t v v) g with
      | some (fs, ns) => vertexManifoldB c v fs ns
      | none => false

/-- the node store: the queue has no repetition, holds unused slots only, every unused slot is queued, the corners of
    the used faces are used slots -/
def nodesOkB (c : Cell R) : Bool :=
  decide c.freeNodes.Nodup &&
  c.freeNodes.all (fun i => decide (i < c.nodes.size) && !usedN c i) &&
  (List.range c.nodes.size).all (fun i => usedN c i || c.freeNodes.contains i) &&
  c.faces.toList.all (fun f => !f.used || fUsed c f)

/-- every used node slot is a corner of a used face -/
def coveredB (c : Cell R) : Bool :=
  (List.range c.nodes.size).all (fun i => !usedN c i || (abs c).any (fun t => hasNode t i))

/-- every unused face slot is queued -/
def fullB (c : Cell R) : Bool :=
  (List.range c.faces.size).all (fun i =>
    match c.faces[i]? with
    | some f => f.used || c.freeFaces.contains i
    | none => true)

/-- every node of the surface has a single fan of faces -/
def allVmcB (c : Cell R) : Bool :=
  (List.range c.nodes.size).all (fun v => !(abs c).any (fun t => hasNode t v) || vertexManifoldAutoB c v)

/-- the invariants `CellOk`, decidably -/
def cellOkB (c : Cell R) : Bool :=
  chkFaceFreeOk c && edgeIdxCompleteB c && nodesOkB c && closedSimpleB (abs c) && nonDegB (abs c) && allVmcB c &&
    coveredB c && c.nodes.toList.any (fun n => n.used) && fullB c

end
end Simu.Remesh
