import SimuVerif.Gen.Geometry
/-
  C12 — executable model of the geometry getters of `cell` (src/mesh/cell.cpp) and of the part of
  `cell::initialize_cell_properties(true)` that decides them.  Core Lean only; polymorphic in the
  scalar (Float in `Driver/C12.lean`, an ordered field in `Properties/C12.lean`).

  The per-face / per-node arithmetic is `SimuVerif/Gen/Geometry.lean` (regenerated from the C++ on
  every run).  Hand-written here: the folds over the face and node lists (in the order of the C++
  loops), `remove_unused_nodes`, `generate_edge_set`, `is_manifold`, the breadth-first flood fill
  of `check_face_normal_orientation` with its `std::list` queue, and the order of the steps of
  `initialize_cell_properties`.  A mesh is a triangle list `T` (face `k` of the C++ is `T[k]`; on a
  freshly constructed cell every face is used) and a position map `pos : Nat → V3 R`; `n` is
  `node_lst_.size()`.
-/
namespace Simu.Geo
open Simu Simu.Gen.Geometry

variable {R : Type} [Add R] [Sub R] [Mul R] [Div R] [Neg R] [Lit R] [LT R] [DecidableLT R] [SEq R]

/-! ### the getters -/

/-- `cell::get_volume_reference_point`: the loop returns at the first used face (every face of `T` is used),
    and falls through to the default when there is none -/
def refPoint (pos : Nat → V3 R) (T : List Tri) : V3 R :=
  (T.head?.map (volRefOfFace pos)).getD volRefDefault

/-- the loop of `compute_volume` with the coordinates taken relative to `o` -/
def volSumAt (pos : Nat → V3 R) (o : V3 R) (T : List Tri) : R := T.foldl (volStep pos o) volInit
/-- the sum `compute_volume` accumulates (six times the signed volume):
    `const vec3 origin = get_volume_reference_point();` then the loop -/
def volSum (pos : Nat → V3 R) (T : List Tri) : R := volSumAt pos (volOrigin (refPoint pos T)) T
/-- `cell::compute_volume` -/
def volume (pos : Nat → V3 R) (T : List Tri) : R := volFinish (volSum pos T)
/-- the loop of `check_face_normal_orientation` with the coordinates taken relative to `o` -/
def svSumAt (pos : Nat → V3 R) (o : V3 R) (T : List Tri) : R := T.foldl (svStep pos o) svInit
/-- the sum `check_face_normal_orientation` accumulates (`const vec3 origin = get_volume_reference_point();` is
    evaluated after the flood fill, which never rewinds the seed = first used face) -/
def svSum (pos : Nat → V3 R) (T : List Tri) : R := svSumAt pos (svOrigin (refPoint pos T)) T

/-- `face::get_area()` after `update_face_normal_and_area` -/
def faceArea (fn : Fn R) (pos : Nat → V3 R) (t : Tri) : R := (faceNormalArea fn pos t).1
/-- `face::get_normal()` after `update_face_normal_and_area` -/
def faceNormal (fn : Fn R) (pos : Nat → V3 R) (t : Tri) : V3 R := (faceNormalArea fn pos t).2

/-- `cell::compute_area` (all faces used) -/
def area (fn : Fn R) (pos : Nat → V3 R) (T : List Tri) : R :=
  T.foldl (fun s t => areaStep s true (faceArea fn pos t)) areaInit

def centroidSum (fn : Fn R) (pos : Nat → V3 R) (T : List Tri) : V3 R :=
  T.foldl (fun c t => centroidStep pos (faceArea fn pos t) c t) centroidInit
/-- `cell::compute_centroid` with `area_` the cached cell area -/
def centroid (fn : Fn R) (pos : Nat → V3 R) (T : List Tri) : V3 R :=
  centroidFinish (area fn pos T) (centroidSum fn pos T)

/-- `remove_unused_nodes`: a node stays used iff some face refers to it -/
def nodeUsed (T : List Tri) (i : Nat) : Bool := T.any (fun t => t.1 == i || t.2.1 == i || t.2.2 == i)

/-- the used nodes, in the order of `node_lst_` -/
def liveNodes (T : List Tri) (n : Nat) : List Nat := (List.range n).filter (nodeUsed T)

/-- `cell::get_aabb` as a fold over the live nodes -/
def aabbOf (inf : R) (ps : List (V3 R)) : R × R × R × R × R × R := ps.foldl aabbStep (aabbInit inf)
/-- `cell::get_aabb` -/
def aabb (inf : R) (pos : Nat → V3 R) (T : List Tri) (n : Nat) : R × R × R × R × R × R :=
  aabbOf inf ((liveNodes T n).map pos)

/-- the six covariance sums of `get_cell_longest_axis` around the point `c` -/
def covOf (c : V3 R) (ps : List (V3 R)) : R × R × R × R × R × R :=
  covFinish (lit ps.length) (ps.foldl (covStep c) covInit)
/-- the matrix handed to the eigen-solver by `get_cell_longest_axis` (rows) -/
def covMatrix (fn : Fn R) (pos : Nat → V3 R) (T : List Tri) (n : Nat) : V3 R × V3 R × V3 R :=
  covRows (covOf (centroid fn pos T) ((liveNodes T n).map pos))

/-! ### the edge set -/

/-- an `edge`: key (smaller id, larger id), first face, second face -/
abbrev EdgeRec := (Nat × Nat) × Nat × Option Nat

def edgeKey (a b : Nat) : Nat × Nat := if a < b then (a, b) else (b, a)

/-- `edge_set_.emplace(a,b)` followed by `edge::add_face(f)`; `none` = `mesh_integrity_exception` -/
def addEdgeFace : List EdgeRec → Nat × Nat → Nat → Option (List EdgeRec)
  | [], k, f => some [(k, f, none)]
  | (k', f1, f2) :: rest, k, f =>
    if k' = k then
      match f2 with
      | none => some ((k', f1, some f) :: rest)
      | some _ => none
    else (addEdgeFace rest k f).map (fun r => (k', f1, f2) :: r)

/-- `cell::generate_edge_set`: faces in order, each its edges (n1,n2), (n2,n3), (n3,n1) -/
def genEdges : List Tri → Nat → List EdgeRec → Option (List EdgeRec)
  | [], _, es => some es
  | t :: T, k, es => do
    let es ← addEdgeFace es (edgeKey t.1 t.2.1) k
    let es ← addEdgeFace es (edgeKey t.2.1 t.2.2) k
    let es ← addEdgeFace es (edgeKey t.2.2 t.1) k
    genEdges T (k + 1) es

/-- `cell::is_manifold`: every edge has two faces and V − E + F = 2 -/
def isManifold (es : List EdgeRec) (nbNodes nbFaces : Nat) : Bool :=
  es.all (fun e => e.2.2.isSome) && (nbNodes + nbFaces == es.length + 2)

/-- `get_edge(a,b)` then `e.f1() == f ? e.f2() : e.f1()`; `none`: no such edge / no second face -/
def nbr (es : List EdgeRec) (f a b : Nat) : Option Nat :=
  match es.find? (fun e => e.1 == edgeKey a b) with
  | some (_, f1, some f2) => some (if f1 == f then f2 else f1)
  | _ => none

/-! ### relative winding of two faces sharing an edge -/

/-- the index vectors of `check_face_winding_order`, as a list of pairs (ref index, che index) -/
def commonIdx (r c : Tri) : List (Nat × Nat) :=
  windingTable.filterMap (fun row =>
    if r.at (row.1 - 1) = c.at (row.2.1 - 1) then some (row.2.2.1, row.2.2.2) else none)

/-- `cell::check_face_winding_order(ref, f)`: the new node triple of `f`.
    `none`: fewer than two common nodes (the C++ then indexes an empty vector) -/
def checkWinding (r c : Tri) : Option Tri :=
  match commonIdx r c with
  | (r0, c0) :: (r1, c1) :: _ =>
    some (if sameOrder r0 r1 c0 c1 = windingSwapWhen then swapMembers windingSwap c else c)
  | _ => none

/-! ### the flood fill of `check_face_normal_orientation` -/

structure FS where
  faces : List Tri
  checked : List Bool
  queue : List (Nat × Nat)

/-- `if(!face_checked[g]) lst.push_back({f, g})` -/
def pushIfUnchecked (checked : List Bool) (q : List (Nat × Nat)) (f g : Nat) : Option (List (Nat × Nat)) :=
  match checked[g]? with
  | none => none
  | some true => some q
  | some false => some (q ++ [(f, g)])

/-- one iteration of the `while(!face_pair_to_check_lst.empty())` loop.
    `nb f a b` is the face on the other side of edge (a,b) of face `f`; `none` = undefined behaviour -/
def floodStep (nb : Nat → Nat → Nat → Option Nat) (s : FS) : Option FS :=
  match s.queue with
  | [] => some s
  | (r, f) :: q =>
    match s.checked[f]? with
    | none => none
    | some true => some { s with queue := q }
    | some false =>
      match s.faces[r]?, s.faces[f]? with
      | some tr, some tf =>
        match checkWinding tr tf with
        | none => none
        | some tf' =>
          let checked := s.checked.set f true
          match nb f tf'.1 tf'.2.1, nb f tf'.2.1 tf'.2.2, nb f tf'.2.2 tf'.1 with
          | some g1, some g2, some g3 =>
            match pushIfUnchecked checked q f g1 with
            | none => none
            | some q1 =>
              match pushIfUnchecked checked q1 f g2 with
              | none => none
              | some q2 =>
                match pushIfUnchecked checked q2 f g3 with
                | none => none
                | some q3 => some ⟨s.faces.set f tf', checked, q3⟩
          | _, _, _ => none
      | _, _ => none

/-- the loop, with fuel (3·F + 4 iterations always suffice: every face is wound at most once and
    contributes at most three pairs); `none`: undefined behaviour or fuel exhausted -/
def floodRun (nb : Nat → Nat → Nat → Option Nat) : Nat → FS → Option FS
  | 0, s => if s.queue.isEmpty then some s else none
  | k + 1, s => if s.queue.isEmpty then some s else
      match floodStep nb s with
      | none => none
      | some s' => floodRun nb k s'

/-- state before the loop: seed = first used face = face 0, its three neighbours queued -/
def floodInit (nb : Nat → Nat → Nat → Option Nat) (T : List Tri) : Option FS :=
  match T with
  | [] => none
  | t0 :: rest =>
    match nb 0 t0.1 t0.2.1, nb 0 t0.2.1 t0.2.2, nb 0 t0.2.2 t0.1 with
    | some g1, some g2, some g3 =>
      some ⟨T, true :: List.replicate rest.length false, [(0, g1), (0, g2), (0, g3)]⟩
    | _, _, _ => none

/-- the last step: all faces are flipped when the signed volume is negative -/
def finalFlip (pos : Nat → V3 R) (T : List Tri) : List Tri :=
  if flipNeeded (svSum pos T) then T.map (swapMembers flipSwap) else T

/-- `cell::check_face_normal_orientation` -/
def orient (pos : Nat → V3 R) (es : List EdgeRec) (T : List Tri) : Option (List Tri) :=
  match floodInit (nbr es) T with
  | none => none
  | some s0 =>
    match floodRun (nbr es) (3 * T.length + 4) s0 with
    | none => none
    | some s => some (finalFlip pos s.faces)

/-! ### `initialize_cell_properties(true)` -/

inductive InitErr where
  | integrity      -- mesh_integrity_exception (an edge with a third face)
  | notManifold    -- initial_triangulation_exception
  | undefined      -- the C++ would read out of range
deriving Repr, DecidableEq

structure CellGeo (R : Type) where
  faces : List Tri
  area : R
  volume : R

def initCell (fn : Fn R) (pos : Nat → V3 R) (n : Nat) (T : List Tri) : Except InitErr (CellGeo R) :=
  match genEdges T 0 [] with
  | none => .error .integrity
  | some es =>
    if !isManifold es (liveNodes T n).length T.length then .error .notManifold else
    match orient pos es T with
    | none => .error .undefined
    | some T' => .ok ⟨T', area fn pos T', volume pos T'⟩

end Simu.Geo
