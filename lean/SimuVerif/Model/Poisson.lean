import SimuVerif.Model.Grid
import SimuVerif.Gen.GateConsts
/-
  C13 — executable model of `poisson_sampling::poisson_disk_sampling` (dart throwing on two `uspg_4d` grids) and of the grid
  set-up of `poisson_sampling::compute_poisson_point_cloud(l_min, cell)`.  Core Lean only.

  The grids are the C20 model (`Model/Grid.lean`, arithmetic regenerated from include/uspg on every run).  The stored objects
  are `oriented_point`s; only their position matters here, so an object is its position.  The rejection test, the two caps
  (30 neighbours, 30 candidates), `l_min_squared` and the voxel size are READ FROM THE SOURCE (`Gen/GateConsts.lean`).
-/
namespace Simu.Poisson
open Simu Simu.Grid Simu.Gen.Gate

variable {R : Type} [Add R] [Sub R] [Mul R] [Div R] [Neg R] [Lit R] [LT R] [DecidableLT R]

/-- the inner loop `for(oriented_point poisson_point: poisson_point_lst){ if(TEST){insert = false; break;} nb_tries++; }`:
    the value of `insert_candidate_point` after it -/
def dartScan (lsq : R) (cand : V3 R) : List (V3 R) → Nat → Bool
  | [], _ => true
  | q :: rest, nbTries =>
    if dartReject lsq (V3.normSq (q - cand)) nbTries then false else dartScan lsq cand rest (nbTries + 1)

/-- the loop over the candidates of one voxel: the first one (among the first `maxCandidates`) that passes is inserted -/
def dartPick (lsq : R) (nbh : List (V3 R)) (content : List (V3 R)) : Option (V3 R) :=
  (content.take maxCandidates).find? (fun c => dartScan lsq c nbh 0)

/-- the body of the three nested loops for the voxel (i, j, k) -/
def dartVoxel (fn : Fn R) (lsq : R) (g1 : G4 R (V3 R)) (g2 : G4 R (V3 R)) (ijk : Nat × Nat × Nat) : G4 R (V3 R) :=
  match dartPick lsq (g2.nbhAt ijk.1 ijk.2.1 ijk.2.2) (g1.content ijk.1 ijk.2.1 ijk.2.2) with
  | none => g2
  | some c => g2.place fn c c

/-- the voxels in the order of `for x { for y { for z {…}}}` -/
def voxelOrder (nx ny nz : Nat) : List (Nat × Nat × Nat) :=
  (List.range nx).flatMap fun x => (List.range ny).flatMap fun y => (List.range nz).map fun z => (x, y, z)

/-- `poisson_disk_sampling(grid_1, grid_2, l_min)`: the second grid after the loops -/
def diskSampling (fn : Fn R) (l_min : R) (g1 g2 : G4 R (V3 R)) : G4 R (V3 R) :=
  (voxelOrder g1.dims.nx g1.dims.ny g1.dims.nz).foldl (dartVoxel fn (lMinSquared l_min) g1) g2

/-- the first grid of `compute_poisson_point_cloud`: the uniform cloud placed point by point -/
def cloudGrid (fn : Fn R) (δ v : R) (mn mx : V3 R) (cloud : List (V3 R)) : G4 R (V3 R) :=
  G4.placeAll fn (G4.create fn δ v mn.x mn.y mn.z mx.x mx.y mx.z) (cloud.map fun p => (p, p))

/-- the Poisson point cloud: `get_grid_content()` of the second grid -/
def poissonCloud (fn : Fn R) (δ v l_min : R) (mn mx : V3 R) (cloud : List (V3 R)) : List (V3 R) :=
  (diskSampling fn l_min (cloudGrid fn δ v mn mx cloud) (G4.create fn δ v mn.x mn.y mn.z mx.x mx.y mx.z)).all

end Simu.Poisson
