import SimuVerif.Model.Scalar
/-
  C04 — what the generated file `Gen/CellCycle.lean` needs before it: the five cell classes and the
  meaning of `std::min`, `std::max`, `std::abs` for the translator.  Core Lean only.
-/
namespace Simu.CellCycle

/-- the cell classes of `include/mesh/cell_types/` (`global_type_id_` 0 … 4) -/
inductive Kind where
  | epithelial | ecm | lumen | nucleus | static
deriving DecidableEq, Repr

section
variable {R : Type} [LT R] [DecidableLT R]
/-- `std::min(a, b)`: `(b < a) ? b : a` -/
def smin (a b : R) : R := if b < a then b else a
/-- `std::max(a, b)`: `(a < b) ? b : a` -/
def smax (a b : R) : R := if a < b then b else a
/-- `std::abs` -/
def sabs [Neg R] [Lit R] (a : R) : R := if a < lit 0 then -a else a
end

end Simu.CellCycle
