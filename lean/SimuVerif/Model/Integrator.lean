import SimuVerif.Gen.Integrator
/-
  C03 — executable model of `time_integration_scheme::update_nodes_positions`
  (/repo/src/time_integration/time_integration.cpp), core Lean only.

  What is hand-written here is the loop / branch skeleton of the function:
    * cells are visited in list order, the node slots of a cell in slot order (`sched`);
    * static cells are skipped, unused slots are skipped;
    * CONTACT_MODEL_INDEX 0: every used node is integrated on its own;
    * CONTACT_MODEL_INDEX 1: an uncoupled node is integrated on its own; a coupled node is integrated, TOGETHER
      with its partner `cell_lst[c2_id]->node_lst_[n2_id]` (updated in place), only by the cell for which
      `c1->get_local_id() > c2_id` holds; otherwise nothing happens at that slot;
    * CONTACT_MODEL_INDEX 2: a node is integrated together with all the entries of its `coupled_nodes_map_`
      (ascending key order) when its cell's local id is greater than every key; otherwise nothing happens.
  Every arithmetic statement inside those branches is the text generated from the C++ source
  (`Gen.node0x`, `Gen.single1x`, `Gen.pair1x`, `Gen.init2x/acc2x/own2x/partner2x`, `Gen.owns1/2`, `Gen.timeStep`,
  `Gen.nodeMass`, `Gen.staticTypeIds`).

  The state is split in an immutable part (`CellT`: local id, type id, density, volume, per slot `used` and the
  coupling entries — nothing of this is written by the function) and the dynamic part (`Dyn`: position,
  momentum, force of every slot), which is updated in place, sequentially.

  Not modelled: the kinetic-energy accumulators; the OpenMP schedule (the model is the sequential order; for
  populations whose couplings are mutual the result does not depend on the order, see Properties/C03);
  couplings that name a non-existing slot (the code has only `assert`s there: undefined behaviour; the model
  leaves the state unchanged and the harness never generates them) or a slot of the node's own cell.
-/
namespace Simu.Integ
open Simu

variable {R : Type} [Add R] [Sub R] [Mul R] [Div R] [Neg R] [Lit R] [LT R] [LE R] [DecidableLT R] [DecidableLE R] [DecidableEq R]

/-- compile-time contact model (CONTACT_MODEL_INDEX 0 / 1 / 2) -/
inductive CM | springs | nodeNode | faceFace
deriving DecidableEq, Repr
/-- compile-time dynamic model (DYNAMIC_MODEL_INDEX 0 / 1) -/
inductive DM | semiImplicit | overdamped
deriving DecidableEq, Repr

/-- a slot of the population: (index of the cell in `cell_lst`, index of the node in `node_lst_`) -/
abbrev Slot := Nat × Nat

/-- immutable data of a node slot -/
structure NodeT where
  used : Bool
  /-- CM 1: `coupled_node_` (empty = `nullopt`, otherwise the head); CM 2: `coupled_nodes_map_` in key order -/
  coup : List Slot
deriving Repr

/-- immutable data of a cell -/
structure CellT (R : Type) where
  localId : Nat
  /-- `cell_type_->global_type_id_`, which selects the class (simulation_initializer.cpp) -/
  kind : Nat
  density : R
  volume : R
  nodes : List NodeT

/-- `is_static_`: set by the constructors of the classes listed in `Gen.staticTypeIds`, false otherwise -/
def CellT.isStatic (c : CellT R) : Bool := Gen.staticTypeIds.contains c.kind

/-- `free_node_queue_.size()`: the unused slots -/
def CellT.nbFree (c : CellT R) : Nat := (c.nodes.filter (fun n => !n.used)).length

/-- `get_node_mass()` -/
def CellT.mass (c : CellT R) : R := Gen.nodeMass c.density c.volume (Gen.nbNodes c.nodes.length c.nbFree)

/-- dynamic state of a node slot -/
structure Dyn (R : Type) where
  pos : V3 R
  mom : V3 R
  force : V3 R

abbrev DynS (R : Type) := List (List (Dyn R))

structure State (R : Type) where
  time : R
  dyn : DynS R

def getD (d : DynS R) (q : Slot) : Option (Dyn R) :=
  match d[q.1]? with
  | none => none
  | some l => l[q.2]?

def setD (d : DynS R) (q : Slot) (x : Dyn R) : DynS R :=
  match d[q.1]? with
  | none => d
  | some l => d.set q.1 (l.set q.2 x)

def ofT (t : V3 R × V3 R × V3 R) : Dyn R := ⟨t.1, t.2.1, t.2.2⟩

/-- what the visit of one slot does, as far as it is determined by the immutable data -/
inductive Plan (R : Type)
  | skip
  /-- integrate the node alone, with node mass `m1` -/
  | single (m1 : R)
  /-- CM 1: integrate the node and its partner `p` (node masses `m1`, `m2`) -/
  | pair (m1 m2 : R) (p : Slot)
  /-- CM 2: integrate the node and every coupled node (slot, node mass of its cell) -/
  | multi (m1 : R) (ps : List (Slot × R))

def plan (cm : CM) (topo : List (CellT R)) (k : Slot) : Plan R :=
  match topo[k.1]? with
  | none => .skip
  | some c1 =>
    if c1.isStatic then .skip else                        -- if(c1->is_static_){continue;}
    match c1.nodes[k.2]? with
    | none => .skip
    | some nt =>
      if !nt.used then .skip else                         -- if(n1.is_used())
      match cm with
      | .springs => .single c1.mass
      | .nodeNode =>
        match nt.coup with
        | [] => .single c1.mass                           -- else branch of coupled_node_.has_value()
        | e :: _ =>
          if Gen.owns1 c1.localId e.1 then                -- if(c1->get_local_id() > c2_id)
            match topo[e.1]? with
            | some c2 => .pair c1.mass c2.mass e
            | none => .skip
          else .skip
      | .faceFace =>
        if nt.coup.all (fun e => Gen.owns2 c1.localId e.1) then    -- std::all_of(...)
          match nt.coup.mapM (fun e => (topo[e.1]?).map (fun c2 => (e, c2.mass))) with
          | some ps => .multi c1.mass ps
          | none => .skip
        else .skip

/-- the slots a plan writes -/
def Plan.wset (k : Slot) : Plan R → List Slot
  | .skip => []
  | .single _ => [k]
  | .pair _ _ p => [k, p]
  | .multi _ ps => k :: ps.map (·.1)

def single (cm : CM) (dm : DM) (dt damping m1 : R) (x : Dyn R) : Dyn R :=
  match cm, dm with
  | .springs, .semiImplicit => ofT (Gen.node00 dt damping m1 x.pos x.mom x.force)
  | .springs, .overdamped => ofT (Gen.node01 dt damping m1 x.pos x.mom x.force)
  | _, .semiImplicit => ofT (Gen.single10 dt damping m1 x.pos x.mom x.force)
  | _, .overdamped => ofT (Gen.single11 dt damping m1 x.pos x.mom x.force)

def pairF (dm : DM) (dt damping m1 m2 : R) (x1 x2 : Dyn R) : Dyn R × Dyn R :=
  match dm with
  | .semiImplicit =>
    let r := Gen.pair10 dt damping m1 m2 x1.pos x1.mom x1.force x2.pos x2.mom x2.force
    (ofT r.1, ofT r.2)
  | .overdamped =>
    let r := Gen.pair11 dt damping m1 m2 x1.pos x1.mom x1.force x2.pos x2.mom x2.force
    (ofT r.1, ofT r.2)

abbrev Acc (R : Type) := V3 R × V3 R × R

def zero3 : V3 R := ⟨lit 0, lit 0, lit 0⟩

def initF (dm : DM) (m1 : R) (x1 : Dyn R) : Acc R :=
  match dm with
  | .semiImplicit => Gen.init20 m1 x1.pos x1.mom x1.force zero3
  | .overdamped => Gen.init21 m1 x1.pos x1.mom x1.force zero3

def accF (dm : DM) (a : Acc R) (x2 : Dyn R) (m2 : R) : Acc R :=
  match dm with
  | .semiImplicit => Gen.acc20 a.1 a.2.1 a.2.2 x2.pos x2.mom x2.force m2
  | .overdamped => Gen.acc21 a.1 a.2.1 a.2.2 x2.pos x2.mom x2.force m2

def ownF (dm : DM) (dt damping : R) (nbc : Nat) (a : Acc R) (x1 : Dyn R) : Dyn R :=
  match dm with
  | .semiImplicit => ofT (Gen.own20 dt damping nbc a.1 a.2.1 a.2.2 x1.pos x1.mom x1.force)
  | .overdamped => ofT (Gen.own21 dt damping nbc a.1 a.2.1 a.2.2 x1.pos x1.mom x1.force)

def partnerF (dm : DM) (dt damping : R) (nbc : Nat) (a : Acc R) (x1 x2 : Dyn R) : Dyn R :=
  match dm with
  | .semiImplicit => ofT (Gen.partner20 dt damping nbc a.1 a.2.1 a.2.2 x1.pos x1.mom x1.force x2.pos x2.mom x2.force)
  | .overdamped => ofT (Gen.partner21 dt damping nbc a.1 a.2.1 a.2.2 x1.pos x1.mom x1.force x2.pos x2.mom x2.force)

/-- first loop of CM 2: read every coupled node and accumulate; `none` when a slot does not exist -/
def accAll (dm : DM) (d : DynS R) : Acc R → List (Slot × R) → Option (Acc R)
  | a, [] => some a
  | a, (p, m2) :: rest =>
    match getD d p with
    | none => none
    | some x2 => accAll dm d (accF dm a x2 m2) rest

/-- second loop of CM 2: update every coupled node in place -/
def partnersAll (dm : DM) (dt damping : R) (nbc : Nat) (a : Acc R) (x1 : Dyn R) : DynS R → List (Slot × R) → DynS R
  | d, [] => d
  | d, (p, _) :: rest =>
    match getD d p with
    | none => partnersAll dm dt damping nbc a x1 d rest
    | some x2 => partnersAll dm dt damping nbc a x1 (setD d p (partnerF dm dt damping nbc a x1 x2)) rest

/-- execution of a plan on the dynamic state -/
def exec (cm : CM) (dm : DM) (dt damping : R) (d : DynS R) (k : Slot) : Plan R → DynS R
  | .skip => d
  | .single m1 =>
    match getD d k with
    | none => d
    | some x => setD d k (single cm dm dt damping m1 x)
  | .pair m1 m2 p =>
    match getD d k, getD d p with
    | some x1, some x2 =>
      let r := pairF dm dt damping m1 m2 x1 x2
      setD (setD d k r.1) p r.2
    | _, _ => d
  | .multi m1 ps =>
    match getD d k with
    | none => d
    | some x1 =>
      match accAll dm d (initF dm m1 x1) ps with
      | none => d
      | some a =>
        partnersAll dm dt damping ps.length a x1 (setD d k (ownF dm dt damping ps.length a x1)) ps

def nodeStep (cm : CM) (dm : DM) (topo : List (CellT R)) (dt damping : R) (d : DynS R) (k : Slot) : DynS R :=
  exec cm dm dt damping d k (plan cm topo k)

/-- the order of the two nested loops: cells in list order, slots in slot order -/
def schedFrom (i : Nat) : List Nat → List Slot
  | [] => []
  | n :: rest => (List.range n).map (fun j => (i, j)) ++ schedFrom (i + 1) rest

def sched (topo : List (CellT R)) : List Slot := schedFrom 0 (topo.map (fun c => c.nodes.length))

/-- one call of `update_nodes_positions` -/
def step (cm : CM) (dm : DM) (topo : List (CellT R)) (dt damping : R) (s : State R) : State R :=
  { time := Gen.timeStep s.time dt
    dyn := (sched topo).foldl (nodeStep cm dm topo dt damping) s.dyn }

/-- `n` consecutive calls -/
def stepN (cm : CM) (dm : DM) (topo : List (CellT R)) (dt damping : R) : Nat → State R → State R
  | 0, s => s
  | n + 1, s => stepN cm dm topo dt damping n (step cm dm topo dt damping s)

end Simu.Integ
