import SimuVerif.Model.Vec
/-
  C06 / C07 — what the generated files `Gen/BroadPhase.lean` and `Gen/ContactRule.lean` (translated from
  `src/contact_models/*.cpp` and `include/uspg/uspg_4d.hpp`) are expressed in.  Core Lean only.
-/
namespace Simu

section scalar
variable {R : Type} [LT R] [DecidableLT R]
/-- `std::min(a, b)` = `(b < a) ? b : a` -/
def cmin (a b : R) : R := if b < a then b else a
/-- `std::max(a, b)` = `(a < b) ? b : a` -/
def cmax (a b : R) : R := if a < b then b else a
end scalar

/-- `std::ceil` through the `floor` of the scalar interface: `⌈x⌉ = −⌊−x⌋` (exact on doubles too) -/
def cceil {R : Type} [Neg R] (fn : Fn R) (x : R) : Int := - fn.floor (-x)

/-- the zero vector (a default-constructed `vec3`) -/
def vzero {R : Type} [Lit R] : V3 R := ⟨lit 0, lit 0, lit 0⟩

/-- an axis-aligned box: six consecutive entries of `face_aabb_lst_`, or the `global_min/max_*_` members -/
structure Box (R : Type) where
  lox : R
  loy : R
  loz : R
  hix : R
  hiy : R
  hiz : R

/-- the members of `grid_` that the contact models read: origin, voxel counts, voxel size, and the length that
    `update_dimensions` gives to `voxel_lst_` -/
structure GDims (R : Type) where
  min_x : R
  min_y : R
  min_z : R
  nx : Nat
  ny : Nat
  nz : Nat
  v : R
  total : Nat

/-- first and last voxel (inclusive) of a face box on the three axes -/
structure VRange where
  x0 : Nat
  y0 : Nat
  z0 : Nat
  x1 : Nat
  y1 : Nat
  z1 : Nat
deriving Repr, DecidableEq

/-- what a contact rule reads of a node: position, normal, curvature, and whether it is already coupled (towards
    the other cell of the pair) and at which squared distance -/
structure CNode (R : Type) where
  pos : V3 R
  normal : V3 R
  curvature : R
  coupled : Bool
  sqd : R

/-- what a contact rule reads of a cell: id, type id, `surface_coupling_max_curvature_` of its type -/
structure CCell (R : Type) where
  id : Nat
  type : Nat
  maxCurv : R

/-- what a contact rule reads of a face: cached normal and area, and the two strengths of its face type
    (`adh`: the type in force when the adhesion branch reads it, `rep`: when the repulsion branch reads it) -/
structure CFace (R : Type) where
  normal : V3 R
  area : R
  adh : R
  rep : R

/-- members of the contact model objects -/
structure CParams (R : Type) where
  cutAdh : R          -- interaction_cutoff_adhesion_
  cutAdhSq : R        -- interaction_cutoff_square_adhesion_
  cutRep : R          -- interaction_cutoff_repulsion_
  cutRepSq : R        -- interaction_cutoff_square_repulsion_
  maxCutSq : R        -- max_interaction_cutoff_square_
  padding : R         -- aabb_padding_
  voxel : R           -- grid_.voxel_size_
  cut0 : R            -- contact_node_face_via_spring::interaction_cutoff_
  cut0Sq : R          -- contact_node_face_via_spring::interaction_cutoff_square_
  hardening : R       -- contact_node_face_via_spring::hardening_distance_
  dotAdh : R          -- max_dot_product_adhesion_ of the model compiled
  dotRep : R          -- max_dot_product_repulsion_
  big : R             -- std::numeric_limits<double>::max()

/-- forces added by one pair interaction on the node and on the three nodes of the face -/
structure Forces (R : Type) where
  fn : V3 R
  f1 : V3 R
  f2 : V3 R
  f3 : V3 R

/-- the outcome of one call of a per-pair rule: forces, and the coupling it creates (index 1..3 of the face node
    chosen and the squared distance recorded), if any -/
structure PairOut (R : Type) where
  forces : Forces R
  coupled : Bool
  idx : Nat
  dist : R

end Simu
