import SimuVerif.Model.Vec
/-
  C02 — scalar interface of the force model (core Lean only).

  Everything in the force terms of `cell` (`/repo/src/mesh/cell.cpp`) that is not a field operation
  enters the model through the parameter pack `FX R`: square root, logarithm, cube root, the
  trigonometric functions, `std::pow`, the constant `M_PI`, and the Boolean tests `==` on doubles,
  `std::isfinite`, `std::isnan`, `almost_equal`.  The driver instantiates the pack at `Float` with the
  C library functions; the theorems quantify over an arbitrary pack and state the identities they
  need as hypotheses (they are listed in the trusted base of notes/C02.md).
-/
namespace Simu

structure FX (R : Type) where
  sqrt : R → R
  ln : R → R
  cbrt : R → R
  acos : R → R
  cos : R → R
  sin : R → R
  tan : R → R
  pow : R → R → R
  pi : R
  /-- `==` on doubles -/
  eqb : R → R → Bool
  isFinite : R → Bool
  isNaN : R → Bool
  /-- `almost_equal(x, y)` of `include/utils.hpp` with the default `ulp = 2` -/
  almostEq : R → R → Bool

def floatAlmostEq (x y : Float) : Bool :=
  -- std::fabs(x-y) <= epsilon * std::fabs(x+y) * 2 || std::fabs(x-y) < DBL_MIN
  let eps : Float := Float.ofBits 0x3CB0000000000000      -- 2^-52
  let dmin : Float := Float.ofBits 0x0010000000000000     -- 2^-1022
  (Float.abs (x - y) ≤ eps * Float.abs (x + y) * 2.0) || (Float.abs (x - y) < dmin)

def FX.float : FX Float :=
  { sqrt := Float.sqrt, ln := Float.log, cbrt := Float.cbrt, acos := Float.acos, cos := Float.cos,
    sin := Float.sin, tan := Float.tan, pow := Float.pow,
    pi := Float.ofBits 0x400921FB54442D18,                 -- M_PI
    eqb := fun a b => a == b, isFinite := Float.isFinite, isNaN := Float.isNaN,
    almostEq := floatAlmostEq }

/-- `std::abs` -/
def fabsR {R : Type} [Neg R] [Lit R] [LT R] [DecidableLT R] (x : R) : R :=
  if x < (lit 0 : R) then -x else x

/-- the zero vector `vec3(0., 0., 0.)` -/
@[reducible] def V3.zero {R : Type} [Lit R] : V3 R := ⟨lit 0, lit 0, lit 0⟩

end Simu
