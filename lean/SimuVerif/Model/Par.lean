/-
  C15: abstract parallel phases.  Core Lean only.

  * per-cell parallel loops: every task is a sequence of atomic steps that only touch the task's own
    cell; a schedule is ANY sequence of task picks (any interleaving, any thread count);
  * the division round of `cell_divider::run`: every dividing cell computes its outcome from its own data,
    then enters the critical section in an order chosen by the scheduler; the daughters are collected and
    appended after the loop, the mothers removed;
  * `parallel_exception_handler`: all tasks are run, the exception stored last in the critical section is
    rethrown after the loop.
-/
namespace Simu.Par

/-- a task in progress: its remaining steps and the current value of its own cell -/
structure Slot (α : Type) where
  rem : List (α → α)
  val : α

/-- the scheduler picks task `i`: it performs its next step (nothing if it has finished) -/
def tick {α : Type} (st : List (Slot α)) (i : Nat) : List (Slot α) :=
  st.modify i (fun s => match s.rem with
    | [] => s
    | f :: r => ⟨r, f s.val⟩)

def run {α : Type} (st : List (Slot α)) (sched : List Nat) : List (Slot α) := sched.foldl tick st

/-- what the task would produce if run to completion on its own -/
def final {α : Type} (s : Slot α) : α := s.rem.foldl (fun x f => f x) s.val

def start {α : Type} (tasks : List (List (α → α))) (cells : List α) : List (Slot α) :=
  List.zipWith (fun t c => ⟨t, c⟩) tasks cells

/-- sequential execution: task 0 to completion, then task 1, … -/
def sequential {α : Type} (tasks : List (List (α → α))) (cells : List α) : List α :=
  (start tasks cells).map final

/-! ### division round -/

/-- population entries: (persistent id, payload) -/
abbrev Pop (β : Type) := List (Nat × β)

/-- the critical sections entered in the order `order` (indices into the population of the cells whose
    division succeeded): each takes two fresh ids from the counter and records its daughters -/
def critical {β : Type} (pop : Pop β) (outcome : β → Option (β × β)) : List Nat → Nat → Pop β × Nat
  | [], m => ([], m)
  | i :: rest, m =>
    match pop[i]? with
    | none => critical pop outcome rest m
    | some (_, b) =>
      match outcome b with
      | none => critical pop outcome rest m
      | some (d1, d2) =>
        let (ds, m') := critical pop outcome rest (m + 2)
        ((m, d1) :: (m + 1, d2) :: ds, m')

/-- indices of the cells whose division succeeds -/
def dividing {β : Type} (pop : Pop β) (outcome : β → Option (β × β)) : List Nat :=
  (List.range pop.length).filter (fun i => match pop[i]? with
    | some (_, b) => (outcome b).isSome
    | none => false)

/-- survivors (in list order) followed by the daughters (in critical-section order) -/
def divisionRound {β : Type} (pop : Pop β) (outcome : β → Option (β × β)) (order : List Nat) (maxId : Nat) : Pop β × Nat :=
  let (ds, m') := critical pop outcome order maxId
  let keep := (List.range pop.length).filterMap (fun i =>
    if (dividing pop outcome).contains i then none else pop[i]?)
  (keep ++ ds, m')

/-! ### parallel_exception_handler -/

/-- `results[i]` is what `func(vec[i])` did; `order` is the order in which the throwing tasks entered the
    critical section that stores the exception.  Returns (number of tasks run, outcome) -/
def handler {ε : Type} (results : List (Except ε Unit)) (order : List Nat) : Nat × Except ε Unit :=
  let stored : Option ε := order.foldl (fun (acc : Option ε) (i : Nat) => match results[i]? with
    | some (Except.error e) => some e
    | _ => acc) none
  (results.length, match stored with | some e => .error e | none => .ok ())

/-- the indices of the tasks that threw -/
def failing {ε : Type} (results : List (Except ε Unit)) : List Nat :=
  (List.range results.length).filter (fun i => match results[i]? with | some (Except.error _) => true | _ => false)

end Simu.Par
