import SimuVerif.Model.Vec
/-
  Executable mirror of the mesh bookkeeping of `cell` (`/repo/src/mesh/cell.cpp`,
  `edge.cpp`, `face.cpp`, `node.cpp`) and of `local_mesh_refiner`
  (`/repo/src/triangulation_modules/local_mesh_refiner.cpp`), statement by statement:
  slot stores with LIFO free queues, the edge index ordered by the Cantor key of `edge::hash`,
  `add_node / add_face / delete_face / delete_node / replace_node / get_connected_nodes /
  check_face_winding_order / rebase`, and `split_edge / can_be_merged / merge_edge / swap_edge /
  get_triangle_score / remove_elongated_triangles / refine_mesh`.

  Core Lean only: compiled into `drv_c01` at `Float` and compared state-for-state with the real
  code by the correspondence harness; `abs` (the live triangle list) connects it to the abstract
  operations the theorems are about.

  Errors: `integrity` = `mesh_integrity_exception`; `badopt` = `std::bad_optional_access`
  (`edge::f1()/f2()` on an edge without that face, `optional::value()` on a missing edge);
  `ub` = the C++ would dereference an end iterator / read an indeterminate value; `fuel` = the
  walk did not close (the C++ would loop).
-/
namespace Simu.Remesh
open Simu

inductive Err where
  | integrity | badopt | ub | fuel
deriving Repr, BEq, DecidableEq

def Err.name : Err → String
  | .integrity => "integrity" | .badopt => "badopt" | .ub => "ub" | .fuel => "fuel"

structure Node (R : Type) where
  pos : V3 R
  mom : V3 R
  used : Bool

structure Face (R : Type) where
  n1 : Nat
  n2 : Nat
  n3 : Nat
  typ : Nat
  normal : V3 R
  area : R
  used : Bool

/-- `edge`: node ids ordered (`n1 ≤ n2`), up to two face ids -/
structure Edge where
  n1 : Nat
  n2 : Nat
  f1 : Option Nat
  f2 : Option Nat
deriving Repr, BEq, DecidableEq

namespace Edge
/-- the constructor orders the node ids -/
def mk' (a b : Nat) (f1 f2 : Option Nat := none) : Edge :=
  if a < b then ⟨a, b, f1, f2⟩ else ⟨b, a, f1, f2⟩

/-- `edge::hash` (Cantor pairing); the set is ordered by it -/
def key (e : Edge) : Nat := (e.n1 + e.n2) * (e.n1 + e.n2 + 1) / 2 + e.n2

def keyOf (a b : Nat) : Nat := (mk' a b).key

def isManifold (e : Edge) : Bool := e.f1.isSome && e.f2.isSome

def hasFace (e : Edge) (f : Nat) : Bool := e.f1 == some f || e.f2 == some f

def hasNode (e : Edge) (n : Nat) : Bool := e.n1 == n || e.n2 == n

def addFace (e : Edge) (f : Nat) : Except Err Edge :=
  match e.f1, e.f2 with
  | none, _ => .ok { e with f1 := some f }
  | some _, none => .ok { e with f2 := some f }
  | some _, some _ => .error .integrity

/-- `edge::delete_face` -/
def deleteFace (e : Edge) (f : Nat) : Except Err Edge :=
  if e.f1 == some f then
    match e.f2 with
    | some g => .ok { e with f1 := some g, f2 := none }
    | none => .ok { e with f2 := none }
  else if e.f2 == some f then .ok { e with f2 := none }
  else .error .integrity

/-- `edge::replace_face` (asserts only; without them: replaces f1 if it matches, else f2) -/
def replaceFace (e : Edge) (old new : Nat) : Edge :=
  if e.f1 == some old then { e with f1 := some new } else { e with f2 := some new }

def otherFace (e : Edge) (f : Nat) : Except Err Nat :=
  -- `e.f1() == f ? e.f2() : e.f1()`
  match e.f1 with
  | none => .error .badopt
  | some a => if a == f then (match e.f2 with | some b => .ok b | none => .error .badopt) else .ok a
end Edge

/-- `std::set<edge>` ordered by `hash`: a list sorted by key, keys unique -/
abbrev EdgeSet := List Edge

namespace EdgeSet
def find? (s : EdgeSet) (k : Nat) : Option Edge := List.find? (fun e => e.key == k) s

/-- `emplace`/`insert`: no effect when an equivalent element exists; returns the stored element and whether inserted -/
def insert (s : EdgeSet) (e : Edge) : EdgeSet × Edge × Bool :=
  let rec go : List Edge → List Edge × Edge × Bool
    | [] => ([e], e, true)
    | x :: xs =>
      if x.key == e.key then (x :: xs, x, false)
      else if e.key < x.key then (e :: x :: xs, e, true)
      else
        let (r, st, b) := go xs
        (x :: r, st, b)
  go s

def erase (s : EdgeSet) (k : Nat) : EdgeSet := List.filter (fun e => e.key != k) s

/-- overwrite the element with the same key (models `const_cast<edge&>(*it) = …`) -/
def update (s : EdgeSet) (e : Edge) : EdgeSet := List.map (fun x => if x.key == e.key then e else x) s
end EdgeSet

structure Cell (R : Type) where
  nodes : Array (Node R)
  faces : Array (Face R)
  edges : EdgeSet
  freeNodes : List Nat      -- `free_node_queue_` (a vector used as a stack): head = back()
  freeFaces : List Nat

section
variable {R : Type} [Add R] [Sub R] [Mul R] [Div R] [Neg R] [Lit R] [LT R] [LE R] [DecidableLT R]
  [DecidableLE R] [DecidableEq R]

def zeroV : V3 R := ⟨lit 0, lit 0, lit 0⟩

/-- `update_face_normal_and_area` -/
def normalArea (fn : Fn R) (p1 p2 p3 : V3 R) : V3 R × R :=
  let n := V3.cross (p2 - p1) (p3 - p1)
  let nn := fn.sqrt (V3.normSq n)
  let area := (lit 1 / lit 2 : R) * nn
  let nrm := if nn = lit 0 then zeroV else n / nn
  (nrm, area)

def posOf (c : Cell R) (i : Nat) : V3 R :=
  match c.nodes[i]? with
  | some n => n.pos
  | none => zeroV

def updFaceGeom (fn : Fn R) (c : Cell R) (fid : Nat) : Cell R :=
  match c.faces[fid]? with
  | none => c
  | some f =>
    let (nrm, ar) := normalArea fn (posOf c f.n1) (posOf c f.n2) (posOf c f.n3)
    { c with faces := c.faces.set! fid { f with normal := nrm, area := ar } }

def updAllFaceGeom (fn : Fn R) (c : Cell R) : Cell R :=
  (List.range c.faces.size).foldl (fun c i =>
    match c.faces[i]? with
    | some f => if f.used then updFaceGeom fn c i else c
    | none => c) c

/-- `cell::add_node` -/
def addNode (c : Cell R) (pos mom : V3 R) : Cell R × Nat :=
  match c.freeNodes with
  | i :: rest => ({ c with nodes := c.nodes.set! i ⟨pos, mom, true⟩, freeNodes := rest }, i)
  | [] => ({ c with nodes := c.nodes.push ⟨pos, mom, true⟩ }, c.nodes.size)

/-- `cell::delete_node` (`node::reset` zeroes the vectors) -/
def deleteNode (c : Cell R) (i : Nat) : Cell R :=
  { c with nodes := c.nodes.set! i ⟨zeroV, zeroV, false⟩, freeNodes := i :: c.freeNodes }

/-- add face `fid` to the edge `(a,b)` of the index, creating the edge when absent -/
def edgeAddFace (s : EdgeSet) (a b fid : Nat) : Except Err EdgeSet := do
  let (s1, st, _) := EdgeSet.insert s (Edge.mk' a b)
  let e ← st.addFace fid
  pure (EdgeSet.update s1 e)

/-- `cell::add_face` / `create_face` (the new face has type 0) -/
def addFace (fn : Fn R) (c : Cell R) (a b d : Nat) : Except Err (Cell R × Nat) := do
  let f0 : Face R := ⟨a, b, d, 0, zeroV, lit 0, true⟩
  let (c1, fid) : Cell R × Nat :=
    match c.freeFaces with
    | i :: rest => ({ c with faces := c.faces.set! i f0, freeFaces := rest }, i)
    | [] => ({ c with faces := c.faces.push f0 }, c.faces.size)
  -- the three emplace calls come first, then the three add_face calls
  let (s1, _, _) := EdgeSet.insert c1.edges (Edge.mk' a b)
  let (s2, _, _) := EdgeSet.insert s1 (Edge.mk' b d)
  let (s3, _, _) := EdgeSet.insert s2 (Edge.mk' d a)
  let s4 ← edgeAddFace s3 a b fid
  let s5 ← edgeAddFace s4 b d fid
  let s6 ← edgeAddFace s5 d a fid
  pure (updFaceGeom fn { c1 with edges := s6 } fid, fid)

/-- one edge of `cell::delete_face` -/
def delFaceEdge (s : EdgeSet) (a b fid : Nat) : Except Err EdgeSet :=
  match EdgeSet.find? s (Edge.keyOf a b) with
  | none => .error .ub
  | some e =>
    -- `it->f1() == id || it->f2() == id`
    match e.f1 with
    | none => .error .badopt
    | some g =>
      let has : Except Err Bool :=
        if g == fid then .ok true else
        match e.f2 with
        | none => .error .badopt
        | some h => .ok (h == fid)
      match has with
      | .error x => .error x
      | .ok false => .ok s
      | .ok true =>
        if !e.isManifold then .ok (EdgeSet.erase s e.key)
        else match e.deleteFace fid with
          | .ok e' => .ok (EdgeSet.update s e')
          | .error x => .error x

/-- `cell::delete_face` -/
def deleteFace (c : Cell R) (fid : Nat) : Except Err (Cell R) :=
  match c.faces[fid]? with
  | none => .error .ub
  | some f => do
    let s1 ← delFaceEdge c.edges f.n1 f.n2 fid
    let s2 ← delFaceEdge s1 f.n2 f.n3 fid
    let s3 ← delFaceEdge s2 f.n3 f.n1 fid
    pure { c with edges := s3, faces := c.faces.set! fid { f with used := false }, freeFaces := fid :: c.freeFaces }

/-- `face::get_opposite_node`: the first node of the face different from both arguments -/
def oppositeNode (f : Face R) (a b : Nat) : Option Nat :=
  if f.n1 != a && f.n1 != b then some f.n1
  else if f.n2 != a && f.n2 != b then some f.n2
  else if f.n3 != a && f.n3 != b then some f.n3
  else none

def faceReplaceNode (f : Face R) (old new : Nat) : Face R :=
  if f.n1 == old then { f with n1 := new }
  else if f.n2 == old then { f with n2 := new }
  else { f with n3 := new }

def getEdge (c : Cell R) (a b : Nat) : Option Edge := EdgeSet.find? c.edges (Edge.keyOf a b)

/-- `cell::replace_node`; returns the cell and the (deleted, created) edge lists -/
def replaceNode (fn : Fn R) (c : Cell R) (start : Edge) (old new : Nat) :
    Except Err (Cell R × List Edge × List Edge) := do
  let sf1 ← (match start.f1 with | some x => .ok x | none => .error Err.badopt)
  -- `start_edge.f2()` is evaluated lazily inside the loop (only when needed)
  let rec loop (fuel : Nat) (c : Cell R) (cur : Option Edge) (faceId : Nat) (del cre : List Edge) :
      Except Err (Cell R × List Edge × List Edge) :=
    match fuel with
    | 0 => .error .fuel
    | fuel + 1 =>
      match cur with
      | none => .error .ub
      | some e => do
        let oldFace := faceId
        let faceId ← e.otherFace faceId
        let f ← (match c.faces[faceId]? with | some f => .ok f | none => .error Err.ub)
        let c := { c with faces := c.faces.set! faceId (faceReplaceNode f old new) }
        let c := updFaceGeom fn c faceId
        let ef1 ← (match e.f1 with | some x => .ok x | none => .error Err.badopt)
        let ef2 ← (match e.f2 with | some x => .ok x | none => .error Err.badopt)
        let ne := Edge.mk' (if e.n1 == old then new else e.n1) (if e.n2 == old then new else e.n2) (some ef1) (some ef2)
        let (s1, st, ins) := EdgeSet.insert c.edges ne
        let isStart (x : Nat) : Bool := some x == start.f1 || some x == start.f2
        let (s2, stored) ←
          (if ins then (pure (s1, st) : Except Err (EdgeSet × Edge)) else do
            let newFace := if isStart oldFace then faceId else oldFace
            let g1 ← (match st.f1 with | some x => .ok x | none => .error Err.badopt)
            let g2 ← (match st.f2 with | some x => .ok x | none => .error Err.badopt)
            let e' : Edge := ⟨st.n1, st.n2, some (if isStart g1 then newFace else g1), some (if isStart g2 then newFace else g2)⟩
            pure (EdgeSet.update s1 e', e'))
        let cre := cre ++ [stored]
        let del := del ++ [e]
        let s3 := EdgeSet.erase s2 e.key
        let c := { c with edges := s3 }
        let f' ← (match c.faces[faceId]? with | some f => .ok f | none => .error Err.ub)
        match oppositeNode f' stored.n1 stored.n2 with
        | none =>
          -- the C++ reads an indeterminate `opposite_node_id` here; every edge of `old` is gone by then
          .ok (c, del, cre)
        | some opp =>
          match getEdge c old opp with
          | none => .ok (c, del, cre)
          | some nxt => loop fuel c (some nxt) faceId del cre
  let first := EdgeSet.find? c.edges (Edge.keyOf start.n1 start.n2)
  let (c, del, cre) ← loop (c.faces.size + 2) c first sf1 [] []
  pure (deleteNode c old, del, cre)

/-- `cell::get_connected_nodes` -/
def connectedNodes (c : Cell R) (node : Nat) (start : Edge) : Except Err (List Nat) := do
  let stop ← (match start.f1 with | some x => .ok x | none => .error Err.badopt)
  let nf ← (match start.f2 with | some x => .ok x | none => .error Err.badopt)
  let first := if node == start.n1 then start.n2 else start.n1
  let rec loop (fuel : Nat) (e : Edge) (next : Nat) (acc : List Nat) : Except Err (List Nat) :=
    match fuel with
    | 0 => .error .fuel
    | fuel + 1 =>
      if next == stop then .ok acc else
      match c.faces[next]? with
      | none => .error .ub
      | some f =>
        match oppositeNode f e.n1 e.n2 with
        | none => .error .ub
        | some opp =>
          match getEdge c opp node with
          | none => .error .badopt
          | some e' =>
            let acc := acc ++ [if node == e'.n1 then e'.n2 else e'.n1]
            match e'.otherFace next with
            | .error x => .error x
            | .ok nx => loop fuel e' nx acc
  loop (c.faces.size + 2) start nf [first]

def sortNat (l : List Nat) : List Nat := (l.toArray.qsort (· < ·)).toList

/-- `std::set_intersection` of two sorted ranges into a `std::set` (size of the result) -/
def interSize (a b : List Nat) : Nat :=
  let rec go (fuel : Nat) (a b : List Nat) (acc : List Nat) : List Nat :=
    match fuel with
    | 0 => acc
    | fuel + 1 =>
      match a, b with
      | x :: xs, y :: ys =>
        if x < y then go fuel xs (y :: ys) acc
        else if y < x then go fuel (x :: xs) ys acc
        else go fuel xs ys (if acc.contains x then acc else x :: acc)
      | _, _ => acc
  (go (a.length + b.length + 1) a b []).length

/-- `local_mesh_refiner::can_be_merged` -/
def canBeMerged (c : Cell R) (e : Edge) : Except Err Bool := do
  let la ← connectedNodes c e.n1 e
  let lb ← connectedNodes c e.n2 e
  pure (interSize (sortNat la) (sortNat lb) == 2)

/-- `cell::check_face_winding_order`: returns the (possibly flipped) checked face -/
def checkWinding (ref f : Face R) : Face R :=
  let r := [ref.n1, ref.n2, ref.n3]
  let ch := [f.n1, f.n2, f.n3]
  let pairs : List (Nat × Nat) :=
    (List.range 3).flatMap (fun i => (List.range 3).filterMap (fun j =>
      if r.getD i 0 == ch.getD j 0 then some (i, j) else none))
  match pairs with
  | (r0, c0) :: (r1, c1) :: _ =>
    let sameOrder := (((r0 + 1) % 3 == r1) == ((c0 + 1) % 3 == c1))
    if sameOrder then { f with n1 := f.n3, n3 := f.n1 } else f
  | _ => f

/-- the check set of `refine_mesh` (copies of the edges, with their own face ids) -/
abbrev CheckSet := EdgeSet

def isDirected (f : Face R) (a b : Nat) : Bool :=
  (f.n1 == a && f.n2 == b) || (f.n2 == a && f.n3 == b) || (f.n3 == a && f.n1 == b)

def setFaceType (c : Cell R) (fid t : Nat) : Cell R :=
  match c.faces[fid]? with
  | some f => { c with faces := c.faces.set! fid { f with typ := t } }
  | none => c

def scaleV (v : V3 R) (k : R) : V3 R := v * k

/-- momentum fractions of `split_edge`, as written in the source -/
structure SplitConsts (R : Type) where
  keep : R          -- `2./3.`
  giveDiv : R       -- `/ 3.0`
  mid : R           -- `* 0.5`

/-- `local_mesh_refiner::split_edge` -/
def splitEdge (fn : Fn R) (k : SplitConsts R) (c : Cell R) (e : Edge) (chk : CheckSet) :
    Except Err (Cell R × CheckSet) := do
  let a := e.n1
  let b := e.n2
  let f1id ← (match e.f1 with | some x => .ok x | none => .error Err.badopt)
  let f2id ← (match e.f2 with | some x => .ok x | none => .error Err.badopt)
  let f1 ← (match c.faces[f1id]? with | some f => .ok f | none => .error Err.ub)
  let f2 ← (match c.faces[f2id]? with | some f => .ok f | none => .error Err.ub)
  let na ← (match c.nodes[a]? with | some n => .ok n | none => .error Err.ub)
  let nb ← (match c.nodes[b]? with | some n => .ok n | none => .error Err.ub)
  let cc ← (match oppositeNode f1 a b with | some x => .ok x | none => .error Err.ub)
  let dd ← (match oppositeNode f2 a b with | some x => .ok x | none => .error Err.ub)
  let o1 := isDirected f1 a b
  let o2 := isDirected f2 a b
  let ePos := (nb.pos + na.pos) * k.mid
  let eMom := (na.mom + nb.mom) / k.giveDiv
  let c := { c with nodes := (c.nodes.set! a { na with mom := na.mom * k.keep }).set! b { nb with mom := nb.mom * k.keep } }
  let (c, ee) := addNode c ePos eMom
  let c ← deleteFace c f1id
  let c ← deleteFace c f2id
  let (c, f3, f5) ←
    (if o1 then do
      let (c, f3) ← addFace fn c cc a ee
      let (c, f5) ← addFace fn c cc ee b
      pure (c, f3, f5)
    else do
      let (c, f3) ← addFace fn c cc ee a
      let (c, f5) ← addFace fn c cc b ee
      pure (c, f3, f5) : Except Err (Cell R × Nat × Nat))
  let (c, f4, f6) ←
    (if o2 then do
      let (c, f4) ← addFace fn c dd a ee
      let (c, f6) ← addFace fn c dd ee b
      pure (c, f4, f6)
    else do
      let (c, f4) ← addFace fn c dd ee a
      let (c, f6) ← addFace fn c dd b ee
      pure (c, f4, f6) : Except Err (Cell R × Nat × Nat))
  let c := setFaceType (setFaceType (setFaceType (setFaceType c f3 f1.typ) f4 f2.typ) f5 f1.typ) f6 f2.typ
  let eea ← (match getEdge c ee a with | some x => .ok x | none => .error Err.badopt)
  let eeb ← (match getEdge c ee b with | some x => .ok x | none => .error Err.badopt)
  let eec ← (match getEdge c ee cc with | some x => .ok x | none => .error Err.badopt)
  let eed ← (match getEdge c ee dd with | some x => .ok x | none => .error Err.badopt)
  let chk := (EdgeSet.insert chk eea).1
  let chk := (EdgeSet.insert chk eeb).1
  let chk := (EdgeSet.insert chk eec).1
  let chk := (EdgeSet.insert chk eed).1
  let upd (chk : CheckSet) (x y old new : Nat) : CheckSet :=
    match EdgeSet.find? chk (Edge.keyOf x y) with
    | some ed => EdgeSet.update chk (ed.replaceFace old new)
    | none => chk
  let chk := upd chk a cc f1id f3
  let chk := upd chk b cc f1id f5
  let chk := upd chk a dd f2id f4
  let chk := upd chk b dd f2id f6
  pure (c, chk)

/-- `local_mesh_refiner::merge_edge` -/
def mergeEdge (fn : Fn R) (k : SplitConsts R) (c : Cell R) (e : Edge) (chk : CheckSet) :
    Except Err (Cell R × CheckSet) := do
  let a := e.n1
  let b := e.n2
  let f1id ← (match e.f1 with | some x => .ok x | none => .error Err.badopt)
  let f2id ← (match e.f2 with | some x => .ok x | none => .error Err.badopt)
  let na ← (match c.nodes[a]? with | some n => .ok n | none => .error Err.ub)
  let nb ← (match c.nodes[b]? with | some n => .ok n | none => .error Err.ub)
  let iPos := (nb.pos + na.pos) * k.mid
  let iMom := na.mom + nb.mom
  let (c, i) := addNode c iPos iMom
  let (c, delA, creA) ← replaceNode fn c e a i
  let ebi ← (match getEdge c b i with | some x => .ok x | none => .error Err.badopt)
  let (c, delB, creB) ← replaceNode fn c ebi b i
  let c ← deleteFace c f1id
  let c ← deleteFace c f2id
  let chk := (delA ++ delB).foldl (fun s ed => EdgeSet.erase s ed.key) chk
  let keepE (ed : Edge) : Bool :=
    !ed.hasNode a && !ed.hasNode b && ed.n1 != ed.n2 && !ed.hasFace f1id && !ed.hasFace f2id
  let chk := (creA ++ creB).foldl (fun s ed => if keepE ed then (EdgeSet.insert s ed).1 else s) chk
  pure (c, chk)

/-- `local_mesh_refiner::swap_edge` -/
def swapEdge (fn : Fn R) (c : Cell R) (e : Edge) : Except Err (Cell R) := do
  let a := e.n1
  let b := e.n2
  let f1id ← (match e.f1 with | some x => .ok x | none => .error Err.badopt)
  let f2id ← (match e.f2 with | some x => .ok x | none => .error Err.badopt)
  let f1 ← (match c.faces[f1id]? with | some f => .ok f | none => .error Err.ub)
  let f2 ← (match c.faces[f2id]? with | some f => .ok f | none => .error Err.ub)
  let cc ← (match oppositeNode f1 a b with | some x => .ok x | none => .error Err.ub)
  let dd ← (match oppositeNode f2 a b with | some x => .ok x | none => .error Err.ub)
  let eac ← (match getEdge c a cc with | some x => .ok x | none => .error Err.badopt)
  let ecb ← (match getEdge c cc b with | some x => .ok x | none => .error Err.badopt)
  let ebd ← (match getEdge c b dd with | some x => .ok x | none => .error Err.badopt)
  let eda ← (match getEdge c dd a with | some x => .ok x | none => .error Err.badopt)
  let f5 ← eac.otherFace f1id
  let f8 ← ecb.otherFace f1id
  let f7 ← ebd.otherFace f2id
  let f6 ← eda.otherFace f2id
  if f5 == f6 || f7 == f8 then pure c else
  if (getEdge c cc dd).isSome then pure c else do
  let c ← deleteFace c f1id
  let c ← deleteFace c f2id
  -- the four get_edge(...).value() calls after the deletion
  let _ ← (match getEdge c a cc with | some x => .ok x | none => .error Err.badopt)
  let _ ← (match getEdge c cc b with | some x => .ok x | none => .error Err.badopt)
  let _ ← (match getEdge c b dd with | some x => .ok x | none => .error Err.badopt)
  let _ ← (match getEdge c dd a with | some x => .ok x | none => .error Err.badopt)
  let (c, f3) ← addFace fn c a dd cc
  let (c, f4) ← addFace fn c b cc dd
  let r5 ← (match c.faces[f5]? with | some f => .ok f | none => .error Err.ub)
  let r8 ← (match c.faces[f8]? with | some f => .ok f | none => .error Err.ub)
  let g3 ← (match c.faces[f3]? with | some f => .ok f | none => .error Err.ub)
  let c := { c with faces := c.faces.set! f3 (checkWinding r5 g3) }
  let g4 ← (match c.faces[f4]? with | some f => .ok f | none => .error Err.ub)
  let c := { c with faces := c.faces.set! f4 (checkWinding r8 g4) }
  let c := updFaceGeom fn (updFaceGeom fn c f3) f4
  let _ ← (match getEdge c a cc with | some x => .ok x | none => .error Err.badopt)
  let _ ← (match getEdge c cc b with | some x => .ok x | none => .error Err.badopt)
  let _ ← (match getEdge c b dd with | some x => .ok x | none => .error Err.badopt)
  let _ ← (match getEdge c dd a with | some x => .ok x | none => .error Err.badopt)
  pure c

structure RefineConsts (R : Type) where
  split : SplitConsts R
  qmin : R               -- `36. / std::sqrt(3.)`
  scoreMin : R           -- `triangle_score_min_`

/-- `get_triangle_score`: (score, longest edge) -/
def triangleScore (fn : Fn R) (k : RefineConsts R) (c : Cell R) (f : Face R) : Except Err (R × Edge) := do
  let pa := posOf c f.n1
  let pb := posOf c f.n2
  let pc := posOf c f.n3
  let lab := fn.sqrt (V3.normSq (pa - pb))
  let lbc := fn.sqrt (V3.normSq (pb - pc))
  let lca := fn.sqrt (V3.normSq (pc - pa))
  let le : Option Edge :=
    if lbc < lab then (if lca < lab then getEdge c f.n1 f.n2 else getEdge c f.n3 f.n1)
    else (if lca < lbc then getEdge c f.n2 f.n3 else getEdge c f.n3 f.n1)
  let le ← (match le with | some x => .ok x | none => .error Err.badopt)
  let per := lab + lbc + lca
  pure (k.qmin * f.area / (per * per), le)

/-- `remove_elongated_triangles` -/
def removeElongated (fn : Fn R) (k : RefineConsts R) (c : Cell R) : Except Err (Cell R) :=
  let rec loop (fuel : Nat) (i : Nat) (c : Cell R) : Except Err (Cell R) :=
    match fuel with
    | 0 => .ok c
    | fuel + 1 =>
      if c.faces.size ≤ i then .ok c else
      match c.faces[i]? with
      | none => .ok c
      | some f =>
        if !f.used then loop fuel (i + 1) c else
        match triangleScore fn k c f with
        | .error x => .error x
        | .ok (score, le) =>
          if score < k.scoreMin then
            match swapEdge fn c le with
            | .error x => .error x
            | .ok c' => loop fuel (i + 1) c'
          else loop fuel (i + 1) c
  loop (2 * c.faces.size + 8) 0 c

inductive Outcome where
  | returned | threw (e : Err) | fuelOut
deriving Repr, BEq

/-- `refine_mesh`; `log` records the operations performed (split?, a, b, squared length that decided), newest first -/
def refineMesh (fn : Fn R) (k : RefineConsts R) (lminSq lmaxSq : R) (swapOn : Bool) (c : Cell R) (maxIter : Nat) :
    Cell R × Outcome × List (Bool × Nat × Nat × R) :=
  let c0 : Except Err (Cell R) := if swapOn then removeElongated fn k c else .ok c
  match c0 with
  | .error x => (c, .threw x, [])
  | .ok c =>
    let rec loop (fuel : Nat) (c : Cell R) (chk : CheckSet) (iter : Nat) (log : List (Bool × Nat × Nat × R)) :
        Cell R × Outcome × List (Bool × Nat × Nat × R) :=
      match fuel with
      | 0 => (c, .fuelOut, log)
      | fuel + 1 =>
        if chk.isEmpty || !(iter < c.edges.length) then
          (c, if iter == c.edges.length then .threw .integrity else .returned, log)
        else
          match chk with
          | [] => (c, .returned, log)
          | e :: rest =>
            let l2 := V3.normSq (posOf c e.n1 - posOf c e.n2)
            if lmaxSq < l2 then
              match splitEdge fn k.split c e rest with
              | .error x => (c, .threw x, log)
              | .ok (c', chk') => loop fuel c' chk' (iter + 1) ((true, e.n1, e.n2, l2) :: log)
            else if l2 < lminSq then
              match canBeMerged c e with
              | .error x => (c, .threw x, log)
              | .ok false => loop fuel c rest iter log
              | .ok true =>
                match mergeEdge fn k.split c e rest with
                | .error x => (c, .threw x, log)
                | .ok (c', chk') => loop fuel c' chk' (iter + 1) ((false, e.n1, e.n2, l2) :: log)
            else loop fuel c rest iter log
    loop maxIter c c.edges 0 []

/-- `remove_index` on a vector + the renumbering of `cell::rebase` -/
def rebase (c : Cell R) : Except Err (Cell R) := do
  let regen := !(c.freeFaces.isEmpty && c.freeNodes.isEmpty)
  let faces := if c.freeFaces.isEmpty then c.faces else
    (c.faces.toList.zipIdx.filter (fun p => !c.freeFaces.contains p.2)).map (·.1) |>.toArray
  let c := { c with faces := faces, freeFaces := [] }
  let c :=
    if c.freeNodes.isEmpty then c else
      let kept := c.nodes.toList.zipIdx.filter (fun p => !c.freeNodes.contains p.2)
      let oldIds := kept.map (·.2)
      let newId (o : Nat) : Nat := (oldIds.idxOf o)
      let ren (f : Face R) : Face R :=
        -- `std::map::operator[]` inserts 0 for a missing key
        let m (o : Nat) : Nat := if oldIds.contains o then newId o else 0
        { f with n1 := m f.n1, n2 := m f.n2, n3 := m f.n3 }
      { c with nodes := (kept.map (·.1)).toArray, freeNodes := [], faces := c.faces.map ren }
  if regen then
    -- `generate_edge_set` loops over every face of the list
    let s ← c.faces.toList.zipIdx.foldlM (fun (s : EdgeSet) (p : Face R × Nat) => do
      let f := p.1
      let (s1, _, _) := EdgeSet.insert s (Edge.mk' f.n1 f.n2)
      let (s2, _, _) := EdgeSet.insert s1 (Edge.mk' f.n2 f.n3)
      let (s3, _, _) := EdgeSet.insert s2 (Edge.mk' f.n3 f.n1)
      let s4 ← edgeAddFace s3 f.n1 f.n2 p.2
      let s5 ← edgeAddFace s4 f.n2 f.n3 p.2
      edgeAddFace s5 f.n3 f.n1 p.2) []
    pure { c with edges := s }
  else pure c

/-- `initialize_cell_properties` for an already consistently outward-oriented input:
    `remove_unused_nodes`, `generate_edge_set`, `update_all_face_normals_and_areas` -/
def initCell (fn : Fn R) (pos : List (V3 R)) (tris : List (Nat × Nat × Nat)) : Except Err (Cell R) := do
  let usedIds : List Nat := tris.flatMap (fun t => [t.1, t.2.1, t.2.2])
  let nodes : List (Node R) := pos.zipIdx.map (fun p =>
    if usedIds.contains p.2 then ⟨p.1, zeroV, true⟩ else ⟨zeroV, zeroV, false⟩)
  let free : List Nat := ((List.range pos.length).filter (fun i => !usedIds.contains i)).reverse
  let faces : List (Face R) := tris.map (fun t => ⟨t.1, t.2.1, t.2.2, 0, zeroV, lit 0, true⟩)
  let c : Cell R := ⟨nodes.toArray, faces.toArray, [], free, []⟩
  let s ← c.faces.toList.zipIdx.foldlM (fun (s : EdgeSet) (p : Face R × Nat) => do
      let f := p.1
      let (s1, _, _) := EdgeSet.insert s (Edge.mk' f.n1 f.n2)
      let (s2, _, _) := EdgeSet.insert s1 (Edge.mk' f.n2 f.n3)
      let (s3, _, _) := EdgeSet.insert s2 (Edge.mk' f.n3 f.n1)
      let s4 ← edgeAddFace s3 f.n1 f.n2 p.2
      let s5 ← edgeAddFace s4 f.n2 f.n3 p.2
      edgeAddFace s5 f.n3 f.n1 p.2) []
  pure (updAllFaceGeom fn { c with edges := s })

/-- the live triangles: everything the topological theorems need to know about a cell -/
def abs (c : Cell R) : List (Nat × Nat × Nat) :=
  c.faces.toList.filterMap (fun f => if f.used then some (f.n1, f.n2, f.n3) else none)

end
end Simu.Remesh
