/-
  Abstract triangulated surfaces: a list of oriented triangles over node ids, its directed
  half-edges, and the three abstract remeshing operations (edge split, edge swap, edge collapse)
  as list rewrites.  Core Lean only (also compiled into the drivers, which check on every
  executed operation that the concrete bookkeeping model refines these).
-/
namespace Simu.Surface

abbrev Tri := Nat × Nat × Nat
abbrev HE := Nat × Nat

def heTri (t : Tri) : List HE := [(t.1, t.2.1), (t.2.1, t.2.2), (t.2.2, t.1)]

/-- all directed half-edges, with multiplicity -/
def he (T : List Tri) : List HE := T.flatMap heTri

def hasDir (t : Tri) (a b : Nat) : Bool :=
  (t.1 == a && t.2.1 == b) || (t.2.1 == a && t.2.2 == b) || (t.2.2 == a && t.1 == b)

/-- the node of `t` opposite to the directed edge `a→b` (meaningful when `hasDir t a b`) -/
def opp (t : Tri) (a b : Nat) : Nat :=
  if t.1 == a && t.2.1 == b then t.2.2
  else if t.2.1 == a && t.2.2 == b then t.1
  else t.2.1

def hasNode (t : Tri) (a : Nat) : Bool := t.1 == a || t.2.1 == a || t.2.2 == a

/-- the first triangle that traverses the directed edge `a→b` -/
def findDir (T : List Tri) (a b : Nat) : Option Tri := T.find? (fun t => hasDir t a b)

/-- edge split at the new node `e`: the triangle through `a→b` (opposite node `c`) and the one through
    `b→a` (opposite node `d`) are each cut in two; the surface is unchanged when the edge is absent -/
def splitT (T : List Tri) (a b e : Nat) : List Tri :=
  match findDir T a b, findDir T b a with
  | some t1, some t2 =>
    let c := opp t1 a b
    let d := opp t2 b a
    (c, a, e) :: (c, e, b) :: (d, b, e) :: (d, e, a) :: (T.erase t1).erase t2
  | _, _ => T

/-- edge swap: the two triangles `(a,b,c)` and `(b,a,d)` become `(a,d,c)` and `(b,c,d)` -/
def swapT (T : List Tri) (a b : Nat) : List Tri :=
  match findDir T a b, findDir T b a with
  | some t1, some t2 =>
    let c := opp t1 a b
    let d := opp t2 b a
    (a, d, c) :: (b, c, d) :: (T.erase t1).erase t2
  | _, _ => T

def ren (a b i : Nat) (x : Nat) : Nat := if x == a || x == b then i else x

/-- edge collapse: triangles containing both `a` and `b` disappear, `a` and `b` become `i` -/
def collapseT (T : List Tri) (a b i : Nat) : List Tri :=
  (T.filter (fun t => !(hasNode t a && hasNode t b))).map
    (fun t => (ren a b i t.1, ren a b i t.2.1, ren a b i t.2.2))

/-- rotate a triangle so that its smallest node id comes first -/
def canonTri (t : Tri) : Tri :=
  let (a, b, c) := t
  if a ≤ b && a ≤ c then (a, b, c) else if b ≤ a && b ≤ c then (b, c, a) else (c, a, b)

def triLt (s t : Tri) : Bool :=
  s.1 < t.1 || (s.1 == t.1 && (s.2.1 < t.2.1 || (s.2.1 == t.2.1 && s.2.2 < t.2.2)))

def canon (T : List Tri) : List Tri := ((T.map canonTri).toArray.qsort triLt).toList

/-- number of distinct undirected edges -/
def undirected (T : List Tri) : List HE :=
  ((he T).map (fun e => if e.1 ≤ e.2 then e else (e.2, e.1))).eraseDups

def vertices (T : List Tri) : List Nat := (T.flatMap (fun t => [t.1, t.2.1, t.2.2])).eraseDups

/-- Euler characteristic V − E + F -/
def chi (T : List Tri) : Int := (vertices T).length - (undirected T).length + T.length

/-- executable check: every half-edge occurs once and its reverse occurs once -/
def closedSimpleB (T : List Tri) : Bool :=
  let h := he T
  h.all (fun e => h.count e == 1 && h.count (e.2, e.1) == 1)

def nonDegB (T : List Tri) : Bool := T.all (fun t => t.1 != t.2.1 && t.2.1 != t.2.2 && t.2.2 != t.1)

/-- nodes joined to `a` by an edge -/
def neighbours (T : List Tri) (a : Nat) : List Nat :=
  ((he T).filterMap (fun e => if e.1 == a then some e.2 else if e.2 == a then some e.1 else none)).eraseDups

/-- executable form of the link condition (`LinkCond`): the common neighbours of `a` and `b` are exactly the two
    opposite nodes, which are different -/
def linkCondB (T : List Tri) (a b : Nat) : Bool :=
  match findDir T a b, findDir T b a with
  | some t1, some t2 =>
    let c := opp t1 a b
    let d := opp t2 b a
    c != d && ((neighbours T a).filter (fun x => (neighbours T b).contains x)).all (fun x => x == c || x == d)
  | _, _ => false

/-- executable form of `SwapGuard` -/
def swapGuardB (T : List Tri) (a b : Nat) : Bool :=
  match findDir T a b, findDir T b a with
  | some t1, some t2 =>
    let c := opp t1 a b
    let d := opp t2 b a
    c != d && !((neighbours T c).contains d)
  | _, _ => true

/-- executable form of the guard of an enabled split -/
def splitGuardB (T : List Tri) (a b : Nat) : Bool :=
  match findDir T a b, findDir T b a with
  | some t1, some t2 => opp t1 a b != opp t2 b a
  | _, _ => true

end Simu.Surface
