import SimuVerif.Model.Pipeline
import SimuVerif.Model.RemeshLive
import SimuVerif.Gen.RemeshConsts
import SimuVerif.Gen.Schedule
/-
  C14 — the assembled iteration of a single free cell WITH remeshing: `solver::run_iteration` for one free cell, in which
  step 4 (`local_mesh_refiner::refine_meshes`) is the executable mirror `Remesh.refineMesh` of `refine_mesh` (the model C01 /
  C11 validate state for state) instead of the identity on in-band meshes, and the `rebase` done by `save_mesh` is modelled.

  The cell is therefore kept in the representation of `Model/Remesh.lean` (`Remesh.Cell`: node slots with used flag, face
  slots with cached normal / area and used flag, edge index in `std::set` order with the face ids as stored, the two free
  queues), because that is what the code holds between iterations: `rebase` is NOT called by `run_iteration` except through
  `save_mesh`, so released slots survive from one iteration to the next, the loops of `apply_internal_forces` and of the
  integrator skip them, `get_nb_of_nodes()` subtracts the free queue, and `apply_bending_forces` walks the edge index as the
  refiner left it (`Forces.internalContribsSlots` of C02).  No arithmetic is rewritten.

  `solver::run_iteration`, statement by statement (default build CM 1 / DM 0 / PM 1, one thread):
    1. `save_mesh()`  `new = floor(time / sampling_period) + 1` (`Gen.fileNumber`); `while(file_number_ < new)` … `mesh_writer::write`
                      → `parallel_exception_handler(cell_lst, rebase)`: `Remesh.rebase` (identity on a cell without released
                      slots, so the repeated calls of the `while` are one call); files are not modelled            — `saveMesh`
    2. `cell_divider::run` when iteration % 5 = 0                                                                   — `ready` (domain)
    3. `update_face_types()`  epithelial_cell: the type of EVERY face slot := 0                                     — `faceTypes`
    4. `refine_meshes` → `parallel_exception_handler` → `refine_mesh`: `update_centroid()` writes `centroid_`, which only the
                      dead store `ref_normal` of `split_edge` reads; then `Remesh.refineMesh` with `l_min² = l_min·l_min`,
                      `l_max = l_min·3.`, `l_max² = l_max·l_max` (constructor of `local_mesh_refiner`) and the swap pass when
                      `enable_edge_swap_operation`.  An exception leaves `run_iteration` (the run ends)              — `refine`
    5./6. contact model, polarisation: identity for a single free cell (as in Model/Pipeline.lean)
    7. `apply_internal_forces`: `update_all_face_normals_and_areas` (cache of the used faces), area, volume, target volume,
                      pressure (`Forces.prelude` on the used faces in slot order), forces of `Forces.internalContribsSlots`
                      accumulated from zero                                                                         — `forceStage`
    8. `update_nodes_positions`: every USED node: `Gen.single10` with `get_node_mass()` = density · volume /
                      (`node_lst_.size() − free_node_queue_.size()`); time += dt
   10. removal when `volume_ < min_vol_`                                                                           — `belowMinR` (domain)
   11. `iteration_++`
  `cellIterationR` is total (`Except`: the exception kinds of the refiner / of `rebase`); `stepOkR` says whether the state is
  in the domain where it IS the code.

  Core Lean only (compiled into `drv_c14`); polymorphic in the scalar.
-/
namespace Simu.PipelineR
open Simu Simu.Forces Simu.Remesh

/-- `Pipeline.Consts` + what only matters once the mesh may change -/
structure ConstsR (R : Type) where
  base : Pipeline.Consts R
  /-- `sampling_period_` -/
  samplingPeriod : R
  /-- `enable_edge_swap_operation_` -/
  swapOn : Bool
  /-- fuel of the model of the `while` loop of `refine_mesh` (not a quantity of the code; running out of it is reported as
      `Err.fuel` and is outside the domain) -/
  maxIter : Nat

/-- the part of the solver / cell state that an iteration reads and writes -/
structure StateR (R : Type) where
  iter : Nat                 -- solver::iteration_
  time : R                   -- simulation_time_
  fileNo : Int               -- solver::file_number_
  cell : Remesh.Cell R       -- node_lst_, face_lst_, edge_set_, free_node_queue_, free_face_queue_
  area : R                   -- cell::area_
  volume : R                 -- cell::volume_
  tvol : R                   -- cell::target_volume_
  pressure : R               -- cell::pressure_

variable {R : Type} [Add R] [Sub R] [Mul R] [Div R] [Neg R] [Lit R] [LT R] [LE R] [DecidableLT R] [DecidableLE R]
  [DecidableEq R]

/-! ### adapters between `Remesh.Cell` and the force model of C02 (no arithmetic) -/

def faceOf (f : Remesh.Face R) : Forces.Face := ⟨f.n1, f.n2, f.n3, f.typ⟩

/-- `face_lst_` as the slot list of `Forces.internalContribsSlots` -/
def slots (c : Cell R) : List Forces.Slot := c.faces.toList.map fun f => ⟨f.used, faceOf f⟩

/-- `edge_set_` as stored (`e.f1()`, `e.f2()`; a missing face would be `std::terminate`: excluded by `edgesOk`) -/
def edgeRecs (c : Cell R) : List Forces.EdgeRec := c.edges.map fun e => ⟨e.n1, e.n2, e.f1.getD 0, e.f2.getD 0⟩

/-- the faces the loops of `apply_internal_forces` visit -/
def liveF (c : Cell R) : List Forces.Face := liveFaces (slots c)

/-- the position of the first used node slot (only used to totalise `posT`) -/
def anchor (c : Cell R) : V3 R :=
  match c.nodes.toList.find? (fun n => n.used) with
  | some n => n.pos
  | none => zeroV

/-- `node_lst_[i].pos_` for a USED slot `i`.  Ids that are not used slots are never read by steps 7–8 when the mesh is
    consistent (`meshOk`); the lookup is totalised for them with the position of the first used node, so that the completion
    moves with the cell (the role of `Slots.rest` in Model/Pipeline.lean). -/
def posT (c : Cell R) (i : Nat) : V3 R :=
  match c.nodes[i]? with
  | some n => if n.used then n.pos else anchor c
  | none => anchor c

/-! ### the steps -/

/-- 1. `save_mesh` (what it does to the cell and to `file_number_`) -/
def saveMesh (fn : Fn R) (K : ConstsR R) (s : StateR R) : Except Err (StateR R) :=
  if Gen.saveCond (Gen.fileNumber fn s.time K.samplingPeriod) s.fileNo then
    (rebase s.cell).map fun c => { s with cell := c, fileNo := Gen.fileNumber fn s.time K.samplingPeriod }
  else .ok s

/-- 3. `update_face_types()` -/
def faceTypes (K : ConstsR R) (c : Cell R) : Cell R :=
  if K.base.epithelial then { c with faces := c.faces.map fun f => { f with typ := 0 } } else c

def lminSq (K : ConstsR R) : R := K.base.lmin * K.base.lmin
def lmaxSq (K : ConstsR R) : R := (K.base.lmin * (lit 3 : R)) * (K.base.lmin * (lit 3 : R))

/-- 4. `refine_mesh`: the refined cell, or the exception that leaves `run_iteration` -/
def refineResult (r : Cell R × Outcome × List (Bool × Nat × Nat × R)) : Except Err (Cell R) :=
  match r.2.1 with
  | .returned => .ok r.1
  | .threw e => .error e
  | .fuelOut => .error .fuel

def refine (fn : Fn R) (K : ConstsR R) (c : Cell R) : Except Err (Cell R) :=
  refineResult (refineMesh fn (Gen.refineConsts fn) (lminSq K) (lmaxSq K) K.swapOn c K.maxIter)

/-- the operations `refine_mesh` performs in this iteration (split?, a, b, l²), newest first -/
def refineLog (fn : Fn R) (K : ConstsR R) (c : Cell R) : List (Bool × Nat × Nat × R) :=
  (refineMesh fn (Gen.refineConsts fn) (lminSq K) (lmaxSq K) K.swapOn c K.maxIter).2.2

/-- steps 1, 3, 4 -/
def meshStage (fn : Fn R) (K : ConstsR R) (s : StateR R) : Except Err (StateR R) :=
  (saveMesh fn K s).bind fun s1 =>
  (refine fn K (faceTypes K s1.cell)).map fun c => { s1 with cell := c }

/-- `update_all_face_normals_and_areas`: the cache of every used face -/
def refreshGeom (fx : FX R) (c : Cell R) : Cell R :=
  { c with faces := c.faces.map fun f =>
      if f.used then { f with normal := (faceGeom fx (posT c) (faceOf f)).1, area := (faceGeom fx (posT c) (faceOf f)).2 } else f }

/-- steps 7, 8, 11 -/
def forceStage (fx : FX R) (K : ConstsR R) (s : StateR R) : StateR R :=
  let c := s.cell
  let x := posT c
  let p := Pipeline.forceParams K.base s.tvol
  let pre := prelude fx x (liveF c) p
  let force := accumulate c.nodes.size (internalContribsSlots fx x (slots c) (edgeRecs c) p)
  let m := Gen.nodeMass K.base.density pre.volume (Gen.nbNodes c.nodes.size c.freeNodes.length)
  let c1 := refreshGeom fx c
  { iter := s.iter + 1
    time := Gen.timeStep s.time K.base.dt
    fileNo := s.fileNo
    cell := { c1 with nodes := c.nodes.mapIdx fun i n =>
                if n.used then
                  { n with pos := (Gen.single10 K.base.dt K.base.damping m n.pos n.mom (force.getD i V3.zero)).1,
                           mom := (Gen.single10 K.base.dt K.base.damping m n.pos n.mom (force.getD i V3.zero)).2.1 }
                else n }
    area := pre.area
    volume := pre.volume
    tvol := pre.tvol
    pressure := pre.pressure }

/-- one `solver::run_iteration` -/
def cellIterationR (fn : Fn R) (fx : FX R) (K : ConstsR R) (s : StateR R) : Except Err (StateR R) :=
  (meshStage fn K s).map (forceStage fx K)

/-- n iterations (an exception ends the run) -/
def runR (fn : Fn R) (fx : FX R) (K : ConstsR R) : Nat → StateR R → Except Err (StateR R)
  | 0, s => .ok s
  | n + 1, s => (cellIterationR fn fx K s).bind (runR fn fx K n)

/-! ### the domain: when is `cellIterationR` the code, and when do the theorems apply? -/

/-- 2. `cell_divider::run` would divide the cell -/
def readyR (K : ConstsR R) (s : StateR R) : Bool :=
  s.iter % Gen.CellCycle.divisionPeriod == 0 && K.base.epithelial && Gen.CellCycle.readyEpithelial s.volume K.base.divVol

def heLe (p q : Nat × Nat) : Bool := p.1 < q.1 || (p.1 == q.1 && p.2 ≤ q.2)

/-- merge of two lists of directed sides (structural in the fuel, so that the kernel can evaluate it) -/
def mergeF : Nat → List (Nat × Nat) → List (Nat × Nat) → List (Nat × Nat)
  | 0, l, r => l ++ r
  | _ + 1, [], r => r
  | _ + 1, l, [] => l
  | f + 1, a :: l, b :: r => if heLe a b then a :: mergeF f l (b :: r) else b :: mergeF f (a :: l) r

/-- merge sort with fuel -/
def sortF : Nat → List (Nat × Nat) → List (Nat × Nat)
  | 0, l => l
  | f + 1, l =>
    if l.length ≤ 1 then l
    else mergeF l.length (sortF f (l.take (l.length / 2))) (sortF f (l.drop (l.length / 2)))

/-- every directed side (a,b) of the used faces is matched by a side (b,a), with multiplicity (`Forces.Closed`, decided by
    sorting both lists) -/
def closedB (F : List Forces.Face) : Bool :=
  sortF (3 * F.length) ((F.flatMap Face.sides).map Prod.swap) == sortF (3 * F.length) (F.flatMap Face.sides)

/-- every edge of the index has its two faces, and they are face slots -/
def edgesOk (c : Cell R) : Bool :=
  c.edges.all fun e => e.isManifold && decide (e.f1.getD 0 < c.faces.size) && decide (e.f2.getD 0 < c.faces.size)

/-- the cell has a node -/
def hasNode (c : Cell R) : Bool := c.nodes.toList.any fun n => n.used

/-- the mesh the force and integration stages work on: no released slot is referenced, closed, edge index complete -/
def meshOk (c : Cell R) : Bool := liveCell c && edgesOk c && closedB (liveF c) && hasNode c

/-- 10. the cell is removed at the end of the iteration -/
def belowMinR (fx : FX R) (K : ConstsR R) (s : StateR R) : Bool :=
  let pre := prelude fx (posT s.cell) (liveF s.cell) (Pipeline.forceParams K.base s.tvol)
  Gen.CellCycle.belowMinVol pre.volume pre.tvol K.base.minVol

/-- the refinement pass of this iteration never reads a released slot (`Remesh.refineLive`) -/
def refineLiveR (fn : Fn R) (K : ConstsR R) (s : StateR R) : Bool :=
  match saveMesh fn K s with
  | .error _ => true
  | .ok s1 => refineLive fn (Gen.refineConsts fn) (lminSq K) (lmaxSq K) K.swapOn (faceTypes K s1.cell) K.maxIter

/-- the domain test, given the verdict of `refineLiveR` and the result of `meshStage` (so that the driver evaluates both once) -/
def stepOkFrom (fx : FX R) (K : ConstsR R) (s : StateR R) (live : Bool) (ms : Except Err (StateR R)) : Bool :=
  !readyR K s && live &&
  match ms with
  | .error e => e != Err.fuel
  | .ok s1 => meshOk s1.cell && !belowMinR fx K s1

/-- the next `solver::run_iteration` is `cellIterationR` (an exception of the refiner counts: the model reports the same one) -/
def stepOkR (fn : Fn R) (fx : FX R) (K : ConstsR R) (s : StateR R) : Bool :=
  stepOkFrom fx K s (refineLiveR fn K s) (meshStage fn K s)

/-- … for each of the next n iterations -/
def runOkR (fn : Fn R) (fx : FX R) (K : ConstsR R) : Nat → StateR R → Bool
  | 0, _ => true
  | n + 1, s => stepOkR fn fx K s &&
    match cellIterationR fn fx K s with
    | .error _ => true
    | .ok s' => runOkR fn fx K n s'

/-- the same cell placed `t` further -/
def translateR (t : V3 R) (s : StateR R) : StateR R := { s with cell := translateCell t s.cell }

/-! ### the old model as a special case: the state of `Model/Pipeline.lean` seen as a `StateR` -/

/-- a freshly loaded cell (all slots used, empty free queues) with a given edge index and cached face geometry -/
def ofState (s : Pipeline.State R) (edges : EdgeSet) (geom : Nat → V3 R × R) (fileNo : Int) : StateR R :=
  { iter := s.iter, time := s.time, fileNo := fileNo,
    cell := { nodes := (Array.range s.nn).map fun i => ⟨s.pos.get i, s.mom.get i, true⟩,
              faces := (s.faces.zipIdx.map fun p => (⟨p.1.a, p.1.b, p.1.c, p.1.ty, (geom p.2).1, (geom p.2).2, true⟩ : Remesh.Face R)).toArray,
              edges := edges, freeNodes := [], freeFaces := [] },
    area := s.area, volume := s.volume, tvol := s.tvol, pressure := s.pressure }

end Simu.PipelineR
