import SimuVerif.Model.Pipeline
import SimuVerif.Model.BroadPhase
import SimuVerif.Gen.ContactRule
import SimuVerif.Model.CouplingPass
import SimuVerif.Model.Integrator
import SimuVerif.Gen.NodeNormals
/-
  C14 — ONE executable model of a whole `solver::run_iteration` (/repo/src/solver.cpp) for a TISSUE of interacting
  epithelial cells, default build (CONTACT_MODEL_INDEX 1 = node–node coupling, DYNAMIC_MODEL_INDEX 0 = semi-implicit Euler,
  POLARIZATION_MODE_INDEX 1 = polarisation by contacts), in the domain where no cell divides, none is removed and every
  mesh is inside the refinement band (`stepOk`).  The stage models of the other properties are ASSEMBLED here in the order
  of the code; none of their arithmetic is rewritten:

    C02  `Forces.prelude`, `Forces.internalContribs`, `Forces.faceGeom`, `Forces.hingesSorted`     (Gen/Forces.lean)
    C03  `Integ.step .nodeNode .semiImplicit` with the coupling table of this iteration             (Gen/Integrator.lean)
         `Coupling.pass` = the symmetrisation and midpoint loops of `resolve_all_contacts`
    C06  `BP.faceRecs`, `BP.dims`, `BP.buildGrid`, `BP.candidates`                                  (Gen/BroadPhase.lean)
    C07  `Gen.rule1` = `resolve_contact`, gates `Gen.nodeGate1`, `Gen.pairGate1`, `Gen.mkParams12`   (Gen/ContactRule.lean, Gen/Kernel.lean)
    C04  `Gen.CellCycle.readyEpithelial`, `belowMinVol`, `divisionPeriod`                           (Gen/CellCycle.lean)
    new  `Gen.NodeNormals.*` = `cell::compute_node_curvature_and_normals`                           (Gen/NodeNormals.lean)
  (all `Gen.*` are regenerated from the C++ text on every run; `Gen.NodeNormals.polariseDecision` is the decision tree of
  `epithelial_cell::special_polarization_update`).  Hand-written here: the loops / containers / bindings that connect them.

  `solver::run_iteration`, statement by statement:
    1. `save_mesh()`                       writes files (`rebase` of a mesh without unused slots keeps every index)      — omitted
    2. `cell_divider::run` (iteration % 5 = 0)   nothing happens unless some `is_ready_to_divide()`                      — `ready` (domain)
    3. `update_face_types()`               epithelial_cell: every face type := 0                                          — `updateFaceTypes`
    4. `refine_meshes`                     no edge is split or merged when every edge is inside [l_min², (3 l_min)²]
                                           (C11 `conforming_fixpoint`); swap off; `update_centroid` is not read below      — `inBand` (domain)
    5. `contact_model_ptr_->run(cell_lst_)`                                                                               — `contactRun`
         a. `face_lst_` / `global_face_id_`: the used faces of the cells in list order                                    — `bfaces`, `faceIndex`
            `coupled_node_ := nullopt`, `squared_distance_to_closest_node_ := max()` for every node                       — `resetMut`
         b. `update_face_aabbs`, `store_face_in_uspg`                                                                     — `BP.faceRecs`, `BP.dims`, `BP.buildGrid`
         c. `resolve_all_contacts`, first loop (OpenMP over the cells; the model is the SEQUENTIAL order cells → node
            slots → voxel list, which is what one thread executes): node gate, voxel of the node, for every face of the
            voxel: other cell ∧ box test (`BP.candidates`), normal gate, `resolve_contact` (`rule1`), whose coupling is
            written on both nodes and whose forces are added to the four nodes                                             — `nodeSearch`, `pairStep`, `applyOut`
         d. second and third loop: one-sided couplings removed, coupled pairs moved to their midpoint                     — `Coupling.pass`
    6. `special_polarization_update`       reads couplings, node normals, cached face normals, edge sets; writes face types — `polarise`
    7. `apply_internal_forces(dt)`         cached face normals / areas, area, volume, target volume, pressure, the internal
                                           forces ADDED to `node::force_` (which holds the contact forces of 5c),
                                           `compute_node_curvature_and_normals` (read by 5c and 6 of the NEXT iteration)    — `applyInternalForces`, `nodeNormals`
    8. `update_nodes_positions`            `Integ.step`: uncoupled node alone, coupled pair together by the cell of higher
                                           index; forces reset; `simulation_time_ += dt_`                                  — `integrate`
    9. statistics every 50 iterations      read only                                                                      — omitted
   10. removal when `volume_ < min_vol_`   — `belowMin` (domain)
   11. local ids := list positions (unchanged: no cell was removed), `iteration_++`
  `tissueIteration` is total; `stepOk` says whether the state is in the domain where it IS the code (tests 2, 4, 10, and
  "every coupling names an existing slot" — otherwise 5d reads out of bounds, `Coupling.pass = none`, recorded in `defined`).

  Stated assumptions: the cells sit in `cell_lst_` at the position given by their id and local id (true until the first
  division / removal); node and face slots are all in use (true until the first remeshing operation); every cell is epithelial.

  Core Lean only (compiled into `drv_c14`); polymorphic in the scalar.
-/
namespace Simu.Tissue
open Simu Simu.Forces Simu.Pipeline Simu.Gen

/-- `cell_type_parameters` and the per-cell members `growth_rate_`, `division_volume_`: read, never written -/
structure CellK (R : Type) where
  kind : Nat          -- global_type_id_
  K : R               -- bulk_modulus_
  maxP : R            -- max_pressure_
  aem : R             -- area_elasticity_modulus_
  iso : R             -- target_isoperimetric_ratio_
  angf : R            -- angle_regularization_factor_
  minVol : R          -- min_vol_
  growth : R          -- growth_rate_
  divVol : R          -- division_volume_
  density : R         -- mass_density_
  maxCurv : R         -- surface_coupling_max_curvature_
  ft : List (FaceType R)      -- surface_tension_, bending_modulus_ of the face types
  rep : List R                -- repulsion_strength_ of the face types

/-- the numerical parameters and the constants of the contact model class -/
structure Consts (R : Type) where
  dt : R              -- time_step_
  damping : R         -- damping_coefficient_
  lmin : R            -- min_edge_len_
  cutAdh : R          -- contact_cutoff_adhesion_
  cutRep : R          -- contact_cutoff_repulsion_
  dotAdh : R          -- max_dot_product_adhesion_
  dotRep : R          -- max_dot_product_repulsion_
  big : R             -- std::numeric_limits<double>::max()
  inf : R             -- std::numeric_limits<double>::infinity()
  delta : R           -- uspg `delta`

/-- a cell: what an iteration reads and writes.  Node tables are indexed by the node slot, face tables by the face slot -/
structure Cell (R : Type) where
  k : CellK R
  pos : Slots (V3 R)                       -- node::pos_
  mom : Array (V3 R)                       -- node::momentum_
  force : Array (V3 R)                     -- node::force_
  normal : Array (V3 R)                    -- node::normal_
  curv : Array R                           -- node::curvature_
  coup : Array (Option (Nat × Nat))        -- node::coupled_node_
  sqd : Array R                            -- node::squared_distance_to_closest_node_
  faces : List Face                        -- face_lst_ with face::type_id_
  fgeom : Array (V3 R × R)                 -- face::normal_, face::area_ (cached by update_all_face_normals_and_areas)
  area : R
  volume : R
  tvol : R
  pressure : R

structure State (R : Type) where
  iter : Nat                 -- solver::iteration_
  time : R                   -- simulation_time_
  cells : List (Cell R)      -- cell_lst_
  /-- false once `Coupling.pass` was undefined (a coupling named a slot that does not exist) -/
  defined : Bool

variable {R : Type} [Add R] [Sub R] [Mul R] [Div R] [Neg R] [Lit R] [LT R] [LE R] [DecidableLT R] [DecidableLE R] [DecidableEq R]

/-- number of node slots -/
def Cell.nn (c : Cell R) : Nat := c.pos.arr.size

/-- the constants of the single-cell stage definitions (`Pipeline.updateFaceTypes`, `forceParams`, `edgeInBand`) -/
def pconsts (K : Consts R) (k : CellK R) : Pipeline.Consts R :=
  { K := k.K, maxP := k.maxP, aem := k.aem, iso := k.iso, angf := k.angf, minVol := k.minVol, growth := k.growth,
    divVol := k.divVol, density := k.density, dt := K.dt, damping := K.damping, lmin := K.lmin, ft := k.ft,
    epithelial := k.kind == 0 }

/-- members of the contact model object (constructor of `contact_model_abstract`) -/
def cparams (K : Consts R) : CParams R := mkParams12 K.cutAdh K.cutRep K.lmin K.dotAdh K.dotRep K.big

/-! ### 3. update_face_types -/

def updateFaceTypesCell (K : Consts R) (c : Cell R) : Cell R :=
  { c with faces := Pipeline.updateFaceTypes (pconsts K c.k) c.faces }

/-! ### 5. the contact model -/

/-- what the contact search reads of a cell and does not write -/
structure Geo (R : Type) where
  k : CellK R
  x : Slots (V3 R)
  normal : Array (V3 R)
  curv : Array R
  faces : Array Face
  fgeom : Array (V3 R × R)

/-- what the contact search writes -/
structure Mut (R : Type) where
  coup : Array (Option (Nat × Nat))
  sqd : Array R
  force : Array (V3 R)

def Cell.geo (c : Cell R) : Geo R := ⟨c.k, c.pos, c.normal, c.curv, c.faces.toArray, c.fgeom⟩

/-- 5a. `n.coupled_node_ = std::nullopt; n.squared_distance_to_closest_node_ = max()` -/
def resetMut (K : Consts R) (c : Cell R) : Mut R :=
  ⟨Array.replicate c.nn none, Array.replicate c.nn K.big, c.force⟩

/-- 5a. `face_lst_`: owner and corners of the faces in the order of their `global_face_id_` -/
def bfaces (cells : List (Cell R)) : List (BP.BFace R) :=
  cells.zipIdx.flatMap fun ci => ci.1.faces.map fun f => ⟨ci.2, ci.1.pos.get f.a, ci.1.pos.get f.b, ci.1.pos.get f.c⟩

/-- `global_face_id_` ↦ (position of the owner cell, face slot) -/
def faceIndex (cells : List (Cell R)) : Array (Nat × Nat) :=
  (cells.zipIdx.flatMap fun ci => (List.range ci.1.faces.length).map fun fj => (ci.2, fj)).toArray

def ccell (ci : Nat) (g : Geo R) : CCell R := ⟨ci, g.k.kind, g.k.maxCurv⟩

/-- a node as `resolve_contact` reads it NOW (couplings and closest distances are those written so far) -/
def cnode (g : Geo R) (m : Mut R) (i : Nat) : CNode R :=
  ⟨g.x.get i, g.normal.getD i vzero, g.curv.getD i (lit 0), (m.coup.getD i none).isSome, m.sqd.getD i (lit 0)⟩

def emptyMut : Mut R := ⟨#[], #[], #[]⟩

/-- the effects of one `resolve_contact`: `set_coupled_node_and_min_distance` on both nodes, or the four `add_force`
    (face nodes first, then the node) -/
def applyOut (st : Array (Mut R)) (ci ni cj : Nat) (f : Face) (o : PairOut R) : Array (Mut R) :=
  if o.coupled then
    let n2 := if o.idx = 1 then f.a else if o.idx = 2 then f.b else f.c
    let st := st.modify ci fun m => { m with coup := m.coup.setIfInBounds ni (some (cj, n2)), sqd := m.sqd.setIfInBounds ni o.dist }
    st.modify cj fun m => { m with coup := m.coup.setIfInBounds n2 (some (ci, ni)), sqd := m.sqd.setIfInBounds n2 o.dist }
  else
    let st := st.modify cj fun m =>
      { m with force := ((m.force.modify f.a (fun v => v + o.forces.f1)).modify f.b (fun v => v + o.forces.f2)).modify f.c (fun v => v + o.forces.f3) }
    st.modify ci fun m => { m with force := m.force.modify ni (fun v => v + o.forces.fn) }

/-- 5c, innermost: one face `gid` of the voxel list that passed the cell and box tests, for node `ni` of cell `ci` -/
def pairStep (fn : Fn R) (P : CParams R) (geo : Array (Geo R)) (gf : Array (Nat × Nat)) (ci ni : Nat)
    (st : Array (Mut R)) (gid : Nat) : Array (Mut R) :=
  match gf[gid]? with
  | none => st
  | some q =>
    match geo[ci]? with
    | none => st
    | some g1 =>
      match geo[q.1]? with
      | none => st
      | some g2 =>
        match g2.faces[q.2]? with
        | none => st
        | some f =>
          let fg := g2.fgeom.getD q.2 (vzero, lit 0)
          let n1 := cnode g1 (st.getD ci emptyMut) ni
          let cf : CFace R := ⟨fg.1, fg.2, lit 0, g2.k.rep.getD f.ty (lit 0)⟩
          if pairGate1 P n1 cf then                                     -- n.normal_.dot(f->normal_) < max_dot_product_repulsion_
            let m2 := st.getD q.1 emptyMut
            applyOut st ci ni q.1 f
              (rule1 fn P (ccell ci g1) (ccell q.1 g2) n1 cf (cnode g2 m2 f.a) (cnode g2 m2 f.b) (cnode g2 m2 f.c))
          else st

/-- 5c: one node slot.  `cand ci ni` is the list of faces the voxel lookup hands over (other cell ∧ box test passed) -/
def nodeSearch (fn : Fn R) (P : CParams R) (geo : Array (Geo R)) (gf : Array (Nat × Nat)) (cand : Nat → Nat → List Nat)
    (st : Array (Mut R)) (k : Nat × Nat) : Array (Mut R) :=
  match geo[k.1]? with
  | some g1 =>
    if nodeGate1 (ccell k.1 g1) (cnode g1 (st.getD k.1 emptyMut) k.2) then    -- n.is_used() && n.curvature_ < surface_coupling_max_curvature
      (cand k.1 k.2).foldl (pairStep fn P geo gf k.1 k.2) st
    else st
  | none => st

/-- 5b: `face_aabb_lst_` (with the owner cells), `grid_` and its `voxel_lst_` of this iteration, and the node positions -/
structure GridCtx (R : Type) where
  rs : List (BP.FaceRec R)
  g : GDims R
  grid : List (List Nat)
  xs : Array (Slots (V3 R))

def mkGrid (fn : Fn R) (K : Consts R) (cells : List (Cell R)) : GridCtx R :=
  let P := cparams K
  let rs := BP.faceRecs P.padding (bfaces cells)
  let g := BP.dims fn K.delta P.voxel P.padding K.inf rs
  ⟨rs, g, BP.buildGrid fn g rs, (cells.map fun c => c.pos).toArray⟩

/-- the voxel lookup of 5c: the faces handed over for node `ni` of cell `ci` (other cell ∧ box test passed) -/
def gridCandidates (fn : Fn R) (ctx : GridCtx R) (ci ni : Nat) : List Nat :=
  match ctx.xs[ci]? with
  | some x => BP.candidates fn ctx.g ctx.grid ctx.rs ⟨ci, x.get ni⟩
  | none => []

/-- the node slots in the order of the two nested loops -/
def slotOrder (cells : List (Cell R)) : List (Nat × Nat) := Coupling.slotsFrom 0 (cells.map fun c => c.nn)

/-- 5a–5c: couplings, closest distances and forces after the search -/
def contactSearch (fn : Fn R) (K : Consts R) (cells : List (Cell R)) : Array (Mut R) :=
  let geo := (cells.map Cell.geo).toArray
  let ctx := mkGrid fn K cells
  (slotOrder cells).foldl (nodeSearch fn (cparams K) geo (faceIndex cells) (gridCandidates fn ctx))
    (cells.map (resetMut K)).toArray

def writeMut (cells : List (Cell R)) (st : Array (Mut R)) : List (Cell R) :=
  cells.zipIdx.map fun ci =>
    match st[ci.2]? with
    | some m => { ci.1 with coup := m.coup, sqd := m.sqd, force := m.force }
    | none => ci.1

/-- the nodes as the two tail loops see them -/
def toPop (cells : List (Cell R)) : Coupling.Pop R :=
  cells.map fun c => (List.range c.nn).map fun i => ⟨true, c.coup.getD i none, c.pos.get i⟩

/-- write the couplings and positions of one cell back (one entry per node slot of the cell) -/
def ofPopCell (c : Cell R) (l : List (Coupling.CNode R)) : Cell R :=
  let a := l.toArray
  { c with
    coup := (Array.range c.nn).map fun i => ((a[i]?).map fun n => n.coup).getD (c.coup.getD i none)
    pos := ⟨(Array.range c.nn).map fun i => ((a[i]?).map fun n => n.pos).getD (c.pos.get i), c.pos.rest⟩ }

def ofPop (cells : List (Cell R)) (p : Coupling.Pop R) : List (Cell R) :=
  cells.zipIdx.map fun ci =>
    match p[ci.2]? with
    | some l => ofPopCell ci.1 l
    | none => ci.1

/-- 5. `contact_node_node_via_coupling::run`; the flag is false when 5d was undefined -/
def contactRun (fn : Fn R) (K : Consts R) (cells : List (Cell R)) : List (Cell R) × Bool :=
  let cells1 := writeMut cells (contactSearch fn K cells)
  match Coupling.pass (toPop cells1) with
  | some p => (ofPop cells1 p, true)
  | none => (cells1, false)

/-! ### 6. special_polarization_update -/

/-- `c2->get_edge(a, b).has_value()`: some face of the cell has the side {a, b} -/
def hasEdge (F : List Face) (a b : Nat) : Bool := a != b && F.any (fun g => g.hasNodes a b)

/-- the faces of `cell_lst[i]` (their sides are its edge set) -/
def otherFaces (cells : List (Cell R)) (i : Nat) : Option (List Face) := (cells[i]?).map fun c => c.faces

/-- the body of the face loop of `epithelial_cell::special_polarization_update` (POLARIZATION_MODE_INDEX 1, CONTACT_MODEL_INDEX 1): the
    bindings (three nodes, their couplings, `cell_lst[n1_c2_id]`, the three `get_edge(…).has_value()`); the decision itself is the
    generated `polariseDecision`.  A coupling that names a cell which does not exist (undefined in the C++) cannot reach this point
    inside the domain: loop (A) of the coupling pass has dereferenced every coupling (`defined`); the model reads an empty edge set -/
def polariseFace (cells : List (Cell R)) (c : Cell R) (fi : Nat) (f : Face) : Face :=
  match c.coup.getD f.a none, c.coup.getD f.b none, c.coup.getD f.c none with
  | some q1, some q2, some q3 =>                                        -- n1.is_coupled() && n2.is_coupled() && n3.is_coupled()
    let F2 := (otherFaces cells q1.1).getD []
    { f with ty := Gen.NodeNormals.polariseDecision (c.normal.getD f.a vzero) (c.normal.getD f.b vzero) (c.normal.getD f.c vzero)
                     (c.fgeom.getD fi (vzero, lit 0)).1 q1.1 q2.1 q3.1
                     (hasEdge F2 q1.2 q2.2) (hasEdge F2 q2.2 q3.2) (hasEdge F2 q3.2 q1.2) }
  | _, _, _ => f

def polariseCell (cells : List (Cell R)) (c : Cell R) : Cell R :=
  if c.k.kind = 0 then { c with faces := c.faces.zipIdx.map fun fi => polariseFace cells c fi.2 fi.1 } else c

def polarise (cells : List (Cell R)) : List (Cell R) := cells.map (polariseCell cells)

/-! ### 7. apply_internal_forces -/

/-- `add_force` calls accumulated into forces that are already there (the contact forces) -/
def accumulateFrom (init : Array (V3 R)) (cs : List (Contrib R)) : Array (V3 R) :=
  cs.foldl (fun acc c => acc.modify c.1 (fun v => v + c.2)) init

open Simu.Gen.NodeNormals in
/-- `cell::compute_node_curvature_and_normals`: (`curvature_`, `normal_`) of the `n` node slots.  The edge set is the one of
    `apply_bending_forces` (`hingesSorted`: Cantor order, `f1` the face of lower index) -/
def nodeNormals (fx : FX R) (x : Nat → V3 R) (F : List Face) (volume : R) (n : Nat) : Array (R × V3 R) :=
  let nsum : Array (V3 R) := F.foldl (fun acc f =>
      let g := faceGeom fx x f
      let v := nnFaceTerm g.1 g.2
      ((acc.modify f.a (fun w => w + v)).modify f.b (fun w => w + v)).modify f.c (fun w => w + v))
    (Array.replicate n V3.zero)
  let thr := curvThreshold fx volume
  let im : Array R × Array (V3 R) := (hingesSorted F).foldl (fun im h =>
      let r := nnEdge fx (x h.n1) (x h.n2) (x h.n3) (x h.n4) (faceGeom fx x h.f1).2 (faceGeom fx x h.f2).2
                 (im.1.getD h.n1 (lit 0)) (im.1.getD h.n2 (lit 0)) (im.2.getD h.n1 V3.zero) (im.2.getD h.n2 V3.zero)
      ((im.1.setIfInBounds h.n1 r.1).setIfInBounds h.n2 r.2.1, (im.2.setIfInBounds h.n1 r.2.2.1).setIfInBounds h.n2 r.2.2.2))
    (Array.replicate n (lit 0), Array.replicate n V3.zero)
  (Array.range n).map fun i => nnFinish fx (nsum.getD i V3.zero) (im.2.getD i V3.zero) (im.1.getD i (lit 0)) thr

def applyInternalForces (fx : FX R) (K : Consts R) (c : Cell R) : Cell R :=
  let x := c.pos.get
  let p := forceParams (pconsts K c.k) c.tvol
  let pre := prelude fx x c.faces p
  let nrm := nodeNormals fx x c.faces pre.volume c.nn
  { c with
    force := accumulateFrom c.force (internalContribs fx x c.faces p)
    fgeom := (c.faces.map (faceGeom fx x)).toArray
    curv := nrm.map fun r => r.1
    normal := nrm.map fun r => r.2
    area := pre.area, volume := pre.volume, tvol := pre.tvol, pressure := pre.pressure }

/-! ### 8. update_nodes_positions -/

def topo (cells : List (Cell R)) : List (Integ.CellT R) :=
  cells.zipIdx.map fun ci =>
    { localId := ci.2, kind := ci.1.k.kind, density := ci.1.k.density, volume := ci.1.volume,
      nodes := (List.range ci.1.nn).map fun i => ⟨true, (ci.1.coup.getD i none).toList⟩ }

def toDyn (cells : List (Cell R)) : Integ.DynS R :=
  cells.map fun c => (List.range c.nn).map fun i => ⟨c.pos.get i, c.mom.getD i V3.zero, c.force.getD i V3.zero⟩

def ofDynCell (c : Cell R) (l : List (Integ.Dyn R)) : Cell R :=
  let a := l.toArray
  { c with
    pos := ⟨(Array.range c.nn).map fun i => ((a[i]?).map fun n => n.pos).getD (c.pos.get i), c.pos.rest⟩
    mom := (Array.range c.nn).map fun i => ((a[i]?).map fun n => n.mom).getD (c.mom.getD i V3.zero)
    force := (Array.range c.nn).map fun i => ((a[i]?).map fun n => n.force).getD (c.force.getD i V3.zero) }

def ofDyn (cells : List (Cell R)) (d : Integ.DynS R) : List (Cell R) :=
  cells.zipIdx.map fun ci =>
    match d[ci.2]? with
    | some l => ofDynCell ci.1 l
    | none => ci.1

def integrate (K : Consts R) (time : R) (cells : List (Cell R)) : R × List (Cell R) :=
  let s := Integ.step .nodeNode .semiImplicit (topo cells) K.dt K.damping ⟨time, toDyn cells⟩
  (s.time, ofDyn cells s.dyn)

/-! ### the iteration -/

/-- steps 3, 5, 6, 7 of `solver::run_iteration`: the state in front of `update_nodes_positions` -/
def beforeIntegration (fn : Fn R) (fx : FX R) (K : Consts R) (cells : List (Cell R)) : List (Cell R) × Bool :=
  let r := contactRun fn K (cells.map (updateFaceTypesCell K))
  ((polarise r.1).map (applyInternalForces fx K), r.2)

/-- steps 3, 5, 6, 7, 8, 11 of `solver::run_iteration` -/
def tissueIteration (fn : Fn R) (fx : FX R) (K : Consts R) (s : State R) : State R :=
  let r := beforeIntegration fn fx K s.cells
  let i := integrate K s.time r.1
  { iter := s.iter + 1, time := i.1, cells := i.2, defined := s.defined && r.2 }

/-- n iterations -/
def tissueRun (fn : Fn R) (fx : FX R) (K : Consts R) : Nat → State R → State R
  | 0, s => s
  | n + 1, s => tissueRun fn fx K n (tissueIteration fn fx K s)

/-! ### the domain: when is `tissueIteration` the code? -/

/-- 2. `cell_divider::run` would divide the cell (it reads the `volume_` left by the previous iteration) -/
def ready (iter : Nat) (c : Cell R) : Bool :=
  iter % Gen.CellCycle.divisionPeriod == 0 && c.k.kind == 0 && Gen.CellCycle.readyEpithelial c.volume c.k.divVol

/-- 4. no edge of the cell is split or merged -/
def inBand (K : Consts R) (c : Cell R) : Bool :=
  c.faces.all fun f => f.sides.all fun e => edgeInBand (pconsts K c.k) c.pos.get e.1 e.2

/-- 10. the cell is removed at the end of the iteration (`volume_` is the one computed in step 7 of that iteration) -/
def belowMin (c : Cell R) : Bool := Gen.CellCycle.belowMinVol c.volume c.tvol c.k.minVol

/-- tested on the state in front of the iteration -/
def preOk (K : Consts R) (s : State R) : Bool :=
  s.defined && s.cells.all (fun c => c.k.kind == 0) && !s.cells.any (ready s.iter) && s.cells.all (inBand K)

/-- tested on the state the iteration produced -/
def postOk (s : State R) : Bool := s.defined && !s.cells.any belowMin

/-- the next `solver::run_iteration` is `tissueIteration` -/
def stepOk (fn : Fn R) (fx : FX R) (K : Consts R) (s : State R) : Bool :=
  preOk K s && postOk (tissueIteration fn fx K s)

/-- … for each of the next n iterations -/
def runOk (fn : Fn R) (fx : FX R) (K : Consts R) : Nat → State R → Bool
  | 0, _ => true
  | n + 1, s => stepOk fn fx K s && runOk fn fx K n (tissueIteration fn fx K s)

/-! ### the tissue placed somewhere else -/

/-- the same cell placed `t` further: every node position is shifted, nothing else changes -/
def trCell (t : V3 R) (c : Cell R) : Cell R := { c with pos := c.pos.map (fun p => p + t) }

/-- the same tissue placed `t` further -/
def translate (t : V3 R) (s : State R) : State R := { s with cells := s.cells.map (trCell t) }

/-! ### well-formedness of the meshes and tables (preserved by the iteration; decided by the driver on the initial state) -/

/-- every node slot is a corner of some face of the cell, face corners are node slots, the tables have one entry per slot -/
def cellWf (c : Cell R) : Bool :=
  (List.range c.nn).all (fun i => c.faces.any fun f => f.a == i || f.b == i || f.c == i)
  && c.faces.all (fun f => decide (f.a < c.nn) && decide (f.b < c.nn) && decide (f.c < c.nn))
  && c.mom.size == c.nn && c.force.size == c.nn && c.normal.size == c.nn && c.curv.size == c.nn
  && c.coup.size == c.nn && c.sqd.size == c.nn && c.fgeom.size == c.faces.length

end Simu.Tissue
