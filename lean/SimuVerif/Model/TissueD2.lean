import SimuVerif.Model.TissueD
import SimuVerif.Model.Division
import SimuVerif.Gen.Geometry
/-
  C14 — the WHOLE `cell_divider::divide_cell` (/repo/src/triangulation_modules/cell_divider.cpp:84-167) as a function of the
  assembled tissue model, composed from C09's stage definitions (Model/Division.lean; their arithmetic is `Gen.Division.*`,
  regenerated from the C++), C01's mesh bookkeeping (Model/Remesh.lean) and the cell of Model/TissueR.lean, and plugged into the
  division round of Model/TissueD.lean in place of the recorded daughters:

      c->rebase()                                          `rebaseCell`
      centroid = c->compute_centroid()                     `centroidM`  (Σ cached face area · face centroid / `area_`)
      division_plane_normal = c->get_cell_division_axis()  INPUT `DivIn.axis` (eigen-solver of the covariance matrix: opaque)
      add_intersection_points                              `Division.addIntersectionPoints`
      divide_faces                                         `Division.divideFaces`
      polygon of the intersection points, coarse_triangulation   `Division.addPolygonAndCoarse`
      map_points_to_xy_plane                               `Division.mapToXY`
      triangulate_division_interface                       INPUT `DivIn.d` = what Poisson sampling + Delaunay ADD to the mesh in the plane
                                                           frame: the 2-D points created by the sampling and the triangles kept
                                                           (`none` = the stage threw); `addInterface`
      map_points_to_division_plane                         `Division.mapBack`
      create_daughter_cells                                `Division.daughterFaces` (side test, `remove_index`, windings) + `initDaughterCell`:
                                                           `get_cell_same_type(mesh)`, the mother's node OBJECTS copied over the first
                                                           slots, `initialize_cell_properties()`: `remove_unused_nodes` (→ `node::reset`,
                                                           free queue), the "same node twice" test, `generate_edge_set`, `is_manifold`,
                                                           `check_face_normal_orientation` (flood fill over the edge index with
                                                           `check_face_winding_order`, connectivity test, signed volume relative to the
                                                           reference point = `Gen.Geometry.svStep`, global flip), cached normals / areas,
                                                           `area_`, `volume_`, `target_volume_`, `initialize_random_properties` (std 0)
      lmr.refine_mesh(daughter) ×2                         `refineDaughter` = `Remesh.refineMesh` + attribute replay (no `update_face_types`)
      target_volume_ = c->target_volume_ / 2 ×2            `Gen.Division.targetD1/2`
      daughter->rebase() ×2                                `rebaseCell`
      catch(std::exception&) → nullopt                     every `Except.error` → `none`

  `tissueIterationD2 … ins` is `TissueD.tissueIterationD` with the events COMPUTED by `divideCellM` from the recorded axis / `D` of
  every ready cell (in list order, one thread).

  Core Lean only (compiled into `drv_c14`); polymorphic in the scalar.
-/
namespace Simu.TissueD2
open Simu Simu.Forces Simu.Gen Simu.Remesh Simu.TissueR Simu.TissueP Simu.TissueD

/-- what `triangulate_division_interface` adds to the mesh, in the frame of the plane -/
structure RecD (R : Type) where
  /-- the points created by the Poisson sampling (appended to `node_pos_lst` with third coordinate `0.`) -/
  pts : List (R × R)
  /-- the Delaunay triangles that were kept, node indices relative to the first interface point -/
  tris : List (Nat × Nat × Nat)

/-- the recorded inputs of one `divide_cell` call -/
structure DivIn (R : Type) where
  axis : V3 R
  d : Option (RecD R)

variable {R : Type} [Add R] [Sub R] [Mul R] [Div R] [Neg R] [Lit R] [LT R] [LE R] [DecidableLT R] [DecidableLE R] [DecidableEq R]
  [DEq R] [Geo.SEq R]

/-- `cell::compute_centroid` -/
def centroidM (c : CellTR R) : V3 R :=
  (c.mesh.faces.toList.foldl (fun (acc : V3 R) f =>
      if f.used then
        acc + (((posOf c.mesh f.n1 + posOf c.mesh f.n2) + posOf c.mesh f.n3) / (lit 3 : R)) * f.area
      else acc) zeroV) / c.area

/-- `triangulate_division_interface` given its recorded result: Poisson points appended, the coarse interface faces replaced -/
def addInterface (m : Division.Mesh R) (thr fthr : Nat) (D : RecD R) : Division.Mesh R :=
  ⟨m.nodes ++ (D.pts.map fun q => (⟨q.1, q.2, lit 0⟩ : V3 R)).toArray,
   ((m.faces.toList.take fthr) ++ D.tris.map fun t => [thr + t.1, thr + t.2.1, thr + t.2.2]).toArray⟩

/-- `add_intersection_points` + `divide_faces` -/
def cutFaces (m : Remesh.Cell R) (p n : V3 R) : Except Division.DErr (Division.Mesh R) :=
  (Division.addIntersectionPoints m p n).bind fun m1 => Division.divideFaces m.nodes.size m1

/-- `map_points_to_xy_plane`, `triangulate_division_interface` (recorded), `map_points_to_division_plane` -/
def interfaceStage (fn : Fn R) (m3 : Division.Mesh R) (thr fthr : Nat) (n : V3 R) (D : RecD R) : Division.Mesh R :=
  let x := Division.mapToXY fn m3 thr n
  Division.mapBack (addInterface x.2.2 thr fthr D) thr x.1 x.2.1

/-- lines 99–133 of `divide_cell`: the mesh with the cut faces and the triangulated interface mapped back, and `division_face_ids_threshold` -/
def cutAndTriangulate (fn : Fn R) (m : Remesh.Cell R) (p n : V3 R) (d : Option (RecD R)) : Except Division.DErr (Division.Mesh R × Nat) :=
  (cutFaces m p n).bind fun m2 =>
  (Division.addPolygonAndCoarse m.nodes.size m2).bind fun m3 =>
  match d with
  | none => .error .division
  | some D => .ok (interfaceStage fn m3 m.nodes.size m2.faces.size n D, m2.faces.size)

/-- what the later stages need of the cut mesh: no empty face (the centre of a face is a mean), faces on existing nodes, at least one
    intersection point (`nb_points_division_interface` ≠ 0) -/
def cutOk (m : Remesh.Cell R) (p n : V3 R) : Bool :=
  match cutFaces m p n with
  | .error _ => true
  | .ok m2 =>
    m2.faces.all (fun f => !f.isEmpty) && decide (m.nodes.size < m2.nodes.size) &&
    match Division.addPolygonAndCoarse m.nodes.size m2 with
    | .error _ => true
    | .ok m3 => decide (m.nodes.size < m3.nodes.size)

/-! ### create_daughter_cells: the cell built from the mesh -/

/-- `generate_edge_set` over a face list (ids = positions) -/
def genEdges (faces : List (Remesh.Face R)) : Except Remesh.Err EdgeSet :=
  faces.zipIdx.foldlM (fun (s : EdgeSet) (p : Remesh.Face R × Nat) => do
      let f := p.1
      let (s1, _, _) := EdgeSet.insert s (Edge.mk' f.n1 f.n2)
      let (s2, _, _) := EdgeSet.insert s1 (Edge.mk' f.n2 f.n3)
      let (s3, _, _) := EdgeSet.insert s2 (Edge.mk' f.n3 f.n1)
      let s4 ← edgeAddFace s3 f.n1 f.n2 p.2
      let s5 ← edgeAddFace s4 f.n2 f.n3 p.2
      edgeAddFace s5 f.n3 f.n1 p.2) []

/-- `get_edge(a, b)` then `.value()` (throws `bad_optional_access`), then `e.f1() == fid ? e.f2() : e.f1()` (noexcept `value()`) -/
def neighbourOf (edges : EdgeSet) (a b fid : Nat) : Except Division.DErr Nat :=
  match EdgeSet.find? edges (Edge.keyOf a b) with
  | none => .error .badopt
  | some e =>
    match e.otherFace fid with
    | .ok g => .ok g
    | .error _ => .error .ub

/-- the three faces across the edges (n1,n2), (n2,n3), (n3,n1) of face `fid` -/
def neighbours (edges : EdgeSet) (f : Remesh.Face R) (fid : Nat) : Except Division.DErr (Nat × Nat × Nat) :=
  (neighbourOf edges f.n1 f.n2 fid).bind fun a =>
  (neighbourOf edges f.n2 f.n3 fid).bind fun b =>
  (neighbourOf edges f.n3 f.n1 fid).bind fun d => .ok (a, b, d)

/-- `if(!face_checked[g]) list.push_back({ref, g})` -/
def pushIf (chk : Array Bool) (ref g : Nat) (q : List (Nat × Nat)) : Except Division.DErr (List (Nat × Nat)) :=
  match chk[g]? with
  | none => .error .ub
  | some true => .ok q
  | some false => .ok (q ++ [(ref, g)])

/-- the `while(!face_pair_to_check_lst.empty())` loop of `check_face_normal_orientation` -/
def flood (edges : EdgeSet) : Nat → Array (Remesh.Face R) → Array Bool → List (Nat × Nat) →
    Except Division.DErr (Array (Remesh.Face R) × Array Bool)
  | 0, _, _, _ => .error .fuel
  | fuel + 1, F, chk, q =>
    match q with
    | [] => .ok (F, chk)
    | (r, c) :: rest =>
      match chk[c]? with
      | none => .error .ub
      | some true => flood edges fuel F chk rest
      | some false =>
        match F[r]?, F[c]? with
        | some fr, some fc =>
          let fc' := checkWinding fr fc
          let F' := F.setIfInBounds c fc'
          let chk' := chk.setIfInBounds c true
          match neighbours edges fc' c with
          | .error e => .error e
          | .ok (a, b, d) =>
            match (pushIf chk' c a rest).bind fun q1 => (pushIf chk' c b q1).bind fun q2 => pushIf chk' c d q2 with
            | .error e => .error e
            | .ok q3 => flood edges fuel F' chk' q3
        | _, _ => .error .ub

/-- `cell::check_face_normal_orientation` on a fresh cell (every face slot used) -/
def orientFaces (edges : EdgeSet) (pos : Nat → V3 R) (F : Array (Remesh.Face R)) : Except Division.DErr (Array (Remesh.Face R)) :=
  match F[0]? with
  | none => .error .ub
  | some seed =>
    match neighbours edges seed 0 with
    | .error e => .error e
    | .ok (a, b, d) =>
      match flood edges (3 * F.size + 4) F ((Array.replicate F.size false).setIfInBounds 0 true) [(0, a), (0, b), (0, d)] with
      | .error e => .error e
      | .ok (F1, chk) =>
        if !(chk.all id) then .error .initial_triangulation else
        let tris : List Geo.Tri := F1.toList.map fun f => (f.n1, f.n2, f.n3)
        let origin := Gen.Geometry.svOrigin ((tris.head?.map (Gen.Geometry.volRefOfFace pos)).getD Gen.Geometry.volRefDefault)
        let sv := tris.foldl (Gen.Geometry.svStep pos origin) Gen.Geometry.svInit
        .ok (if Gen.Geometry.flipNeeded sv then F1.map (fun f => { f with n2 := f.n3, n3 := f.n2 }) else F1)

/-- a per-slot table of the mother extended to `n` slots with the value a freshly constructed node has -/
def extendTo {α : Type} (a : Array α) (n : Nat) (dflt : α) : Array α := ((List.range n).map fun i => a.getD i dflt).toArray

/-- `get_cell_same_type(mesh)` + the copy of the mother's node objects + the face list + `initialize_cell_properties()` -/
def initDaughterCell (fn : Fn R) (mother : CellTR R) (pts : Array (V3 R)) (T : List Surface.Tri) : Except Division.DErr (CellTR R) :=
  let n := pts.size
  -- `node(x, y, z, id)` for every point of the mesh, then `daughter_node_lst[i] = mother_node_lst[i]`
  let nodes0 : Array (Remesh.Node R) := pts.mapIdx fun i q => (mother.mesh.nodes[i]?).getD ⟨q, zeroV, true⟩
  let A0 : Attrs R := ⟨extendTo mother.a.force n vzero, extendTo mother.a.normal n vzero, extendTo mother.a.curv n (lit 0),
                       extendTo mother.a.coup n none, extendTo mother.a.sqd n (lit 0)⟩
  -- `remove_unused_nodes`
  let usedArr : Array Bool := T.foldl (fun (a : Array Bool) t => ((a.setIfInBounds t.1 true).setIfInBounds t.2.1 true).setIfInBounds t.2.2 true)
    (Array.replicate n false)
  let unused := (List.range n).filter fun i => !(usedArr.getD i false)
  let nodes1 : Array (Remesh.Node R) := nodes0.mapIdx fun i nd => if usedArr.getD i false then nd else ⟨zeroV, zeroV, false⟩
  let A1 : Attrs R := unused.foldl (fun A i => A.release i) A0
  -- "A face of cell … uses the same node twice"
  if T.any (fun t => t.1 == t.2.1 || t.2.1 == t.2.2 || t.2.2 == t.1) then .error .integrity else
  let faces0 : List (Remesh.Face R) := T.map fun t => ⟨t.1, t.2.1, t.2.2, 0, zeroV, lit 0, true⟩
  match genEdges faces0 with
  | .error e => .error (Division.ofRemesh e)
  | .ok es =>
    -- `is_manifold`
    let nbNodes : Int := ((n - unused.length : Nat) : Int)
    if !(es.all Edge.isManifold) || nbNodes - (es.length : Int) + (faces0.length : Int) != 2 then .error .initial_triangulation else
    let pos := fun i => match nodes1[i]? with | some nd => nd.pos | none => zeroV
    match orientFaces es pos faces0.toArray with
    | .error e => .error e
    | .ok F =>
      let m := updAllFaceGeom fn (⟨nodes1, F, es, unused.reverse, []⟩ : Remesh.Cell R)
      let area := m.faces.toList.foldl (fun (s : R) f => s + (if f.used then f.area else lit 0)) (lit 0)
      let volume := Forces.cellVolume (PipelineR.posT m) (PipelineR.liveF m)
      .ok { k := mother.k, mesh := m, a := A1, area := area, volume := volume, tvol := volume, pressure := lit 0 }

/-- `lmr.refine_mesh(daughter)` -/
def refineDaughter (fn : Fn R) (K : ConstsTR R) (c : CellTR R) : Except Remesh.Err (CellTR R) :=
  let r := refineMesh fn (Gen.refineConsts fn) (PipelineR.lminSq (kR K c.k)) (PipelineR.lmaxSq (kR K c.k)) K.swapOn c.mesh K.maxIter
  (PipelineR.refineResult r).map fun m => { c with mesh := m, a := (replayLog c.a c.mesh r.2.2).1 }

def liftR {α : Type} (x : Except Remesh.Err α) : Except Division.DErr α :=
  match x with
  | .ok a => .ok a
  | .error e => .error (Division.ofRemesh e)

/-- refinement, halved target volume, rebase of one daughter -/
def finishDaughter (fn : Fn R) (K : ConstsTR R) (tv : R) (d : CellTR R) : Except Division.DErr (CellTR R) :=
  (liftR (refineDaughter fn K d)).bind fun r => liftR (rebaseCell { r with tvol := tv })

/-- `divide_cell` after the rebase of the mother -/
def divideRebased (fn : Fn R) (K : ConstsTR R) (c : CellTR R) (inp : DivIn R) : Except Division.DErr (CellTR R × CellTR R) :=
  let p := centroidM c
  (cutAndTriangulate fn c.mesh p inp.axis inp.d).bind fun mf =>
  (Division.daughterFaces mf.1 mf.2 p inp.axis).bind fun TT =>
  (initDaughterCell fn c mf.1.nodes TT.1).bind fun d1 =>
  (initDaughterCell fn c mf.1.nodes TT.2).bind fun d2 =>
  -- both refinements come before the target volumes and the rebases; nothing is observable of a failed attempt
  (liftR (refineDaughter fn K d1)).bind fun r1 =>
  (liftR (refineDaughter fn K d2)).bind fun r2 =>
  (liftR (rebaseCell { r1 with tvol := Gen.Division.targetD1 c.tvol })).bind fun b1 =>
  (liftR (rebaseCell { r2 with tvol := Gen.Division.targetD2 c.tvol })).bind fun b2 => .ok (b1, b2)

/-- the whole `cell_divider::divide_cell`: `nullopt` for every exception -/
def divideCellM (fn : Fn R) (K : ConstsTR R) (c : CellTR R) (inp : DivIn R) : Option (CellTR R × CellTR R) :=
  match rebaseCell c with
  | .error _ => none
  | .ok c' =>
    match divideRebased fn K c' inp with
    | .ok r => some r
    | .error _ => none

/-! ### the division round with computed daughters -/

/-- the loop of `cell_divider::run` (one thread): every ready cell consumes one recorded input and is divided -/
def eventsGo (fn : Fn R) (K : ConstsTR R) : Nat → List (CellTR R) → List (DivIn R) → List (DivEv R)
  | _, [], _ => []
  | i, c :: cs, ins =>
    if readyD c then
      match ins with
      | [] => eventsGo fn K (i + 1) cs []
      | inp :: rest =>
        match divideCellM fn K c inp with
        | some d => ⟨i, d.1, d.2⟩ :: eventsGo fn K (i + 1) cs rest
        | none => eventsGo fn K (i + 1) cs rest
    else eventsGo fn K (i + 1) cs ins

/-- the successful divisions of the round that starts on the state `b` (the one `save_mesh` left) -/
def eventsD2 (fn : Fn R) (K : ConstsTR R) (b : StateTR R) (ins : List (DivIn R)) : List (DivEv R) :=
  if dividesNow b.iter then eventsGo fn K 0 b.cells ins else []

/-- steps 1, 2 with the daughters computed by `divideCellM` -/
def afterDividerD2 (fn : Fn R) (K : ConstsTR R) (s : StateTP R) (ins : List (DivIn R)) : Except Remesh.Err (StateTP R) :=
  (saveMeshT fn K s.base).map fun b1 => divisionRoundD { s with base := b1 } (eventsD2 fn K b1 ins)

/-- one `solver::run_iteration`: division round (daughters computed from the recorded axes / interface triangulations) … removal -/
def tissueIterationD2 (fn : Fn R) (fx : FX R) (K : ConstsTR R) (s : StateTP R) (ins : List (DivIn R)) : Except Remesh.Err (StateTP R) :=
  (afterDividerD2 fn K s ins).bind (restD fn fx K)

def tissueRunD2 (fn : Fn R) (fx : FX R) (K : ConstsTR R) : List (List (DivIn R)) → StateTP R → Except Remesh.Err (StateTP R)
  | [], s => .ok s
  | ins :: rest, s => (tissueIterationD2 fn fx K s ins).bind (tissueRunD2 fn fx K rest)

/-! ### the domain of one `divide_cell` -/

/-- node ids of a triangle list below `n` -/
def trisBelow (n : Nat) (T : List Surface.Tri) : Bool := T.all fun t => t.1 < n && t.2.1 < n && t.2.2 < n

/-- the rebased mother: no released slot, every face / edge on existing nodes, `area_` = the sum of the cached face areas (what
    `apply_internal_forces` stored) and not 0, attribute tables complete -/
def motherOk (c : CellTR R) : Bool :=
  c.mesh.nodes.all (fun nd => nd.used) && c.mesh.faces.all (fun f => f.used) && c.mesh.freeNodes.isEmpty && c.mesh.freeFaces.isEmpty &&
  c.mesh.faces.all (fun f => f.n1 < c.mesh.nodes.size && f.n2 < c.mesh.nodes.size && f.n3 < c.mesh.nodes.size) &&
  c.mesh.edges.all (fun e => e.n1 < c.mesh.nodes.size && e.n2 < c.mesh.nodes.size) &&
  decide (c.area = c.mesh.faces.toList.foldl (fun (s : R) f => s + (if f.used then f.area else lit 0)) (lit 0)) &&
  !decide (c.area = lit 0) && attrsOk c && !c.mesh.faces.isEmpty

/-- the refinement pass of a fresh daughter never reads a released slot and its log replays -/
def daughterLive (fn : Fn R) (K : ConstsTR R) (d : CellTR R) : Bool :=
  refineLive fn (Gen.refineConsts fn) (PipelineR.lminSq (kR K d.k)) (PipelineR.lmaxSq (kR K d.k)) K.swapOn d.mesh K.maxIter

/-- the decidable domain of `divideRebased`: where the model is the code and where `divideRebased_translate` applies.
    Evaluated by the driver on every executed `divide_cell`. -/
def divOkRebased (fn : Fn R) (K : ConstsTR R) (c : CellTR R) (inp : DivIn R) : Bool :=
  motherOk c && cutOk c.mesh (centroidM c) inp.axis &&
  let p := centroidM c
  match cutAndTriangulate fn c.mesh p inp.axis inp.d with
  | .error e => e != .ub && e != .fuel
  | .ok mf =>
    -- every face of the cut mesh names existing nodes
    mf.1.faces.all (fun f => f.all (· < mf.1.nodes.size)) &&
    match Division.daughterFaces mf.1 mf.2 p inp.axis with
    | .error _ => false
    | .ok TT =>
      trisBelow mf.1.nodes.size TT.1 && trisBelow mf.1.nodes.size TT.2 &&
      match initDaughterCell fn c mf.1.nodes TT.1, initDaughterCell fn c mf.1.nodes TT.2 with
      | .ok d1, .ok d2 => daughterLive fn K d1 && daughterLive fn K d2
      | .error e, _ => e != .ub && e != .fuel
      | _, .error e => e != .ub && e != .fuel

def divOkM (fn : Fn R) (K : ConstsTR R) (c : CellTR R) (inp : DivIn R) : Bool :=
  match rebaseCell c with
  | .error _ => true
  | .ok c' => divOkRebased fn K c' inp

/-- every ready cell has its recorded input and its `divide_cell` is in the domain -/
def insOkGo (fn : Fn R) (K : ConstsTR R) : List (CellTR R) → List (DivIn R) → Bool
  | [], ins => ins.isEmpty
  | c :: cs, ins =>
    if readyD c then
      match ins with
      | [] => false
      | inp :: rest => divOkM fn K c inp && insOkGo fn K cs rest
    else insOkGo fn K cs ins

def insOkD2 (fn : Fn R) (K : ConstsTR R) (b : StateTR R) (ins : List (DivIn R)) : Bool :=
  if dividesNow b.iter then insOkGo fn K b.cells ins else ins.isEmpty

/-- the next `solver::run_iteration` is `tissueIterationD2 … ins` -/
def stepOkTD2 (fn : Fn R) (fx : FX R) (K : ConstsTR R) (s : StateTP R) (ins : List (DivIn R)) : Bool :=
  match saveMeshT fn K s.base with
  | .error e => stepOkTD fn fx K s []
  | .ok b1 => insOkD2 fn K b1 ins && stepOkTD fn fx K s (eventsD2 fn K b1 ins)

def runOkTD2 (fn : Fn R) (fx : FX R) (K : ConstsTR R) : List (List (DivIn R)) → StateTP R → Bool
  | [], _ => true
  | ins :: rest, s => stepOkTD2 fn fx K s ins &&
    match tissueIterationD2 fn fx K s ins with
    | .error _ => true
    | .ok s' => runOkTD2 fn fx K rest s'

end Simu.TissueD2
