import SimuVerif.Model.Forces
import SimuVerif.Gen.Integrator
import SimuVerif.Gen.CellCycle
/-
  C14 — ONE executable model of a whole `solver::run_iteration` (/repo/src/solver.cpp) for the simplest tissue:
  a single free cell (no other cell, hence no contact and no coupling) whose mesh is inside the refinement band.
  The stage models of C02 (internal forces), C03 (time integrator, default build CONTACT_MODEL_INDEX 1 /
  DYNAMIC_MODEL_INDEX 0) and C04 (target volume, pressure, division / removal tests) are ASSEMBLED here in the
  order of the code; none of their arithmetic is rewritten (`Forces.internalContribs`, `Forces.prelude`,
  `Forces.accumulate`, `Gen.single10`, `Gen.nodeMass`, `Gen.nbNodes`, `Gen.timeStep`,
  `Gen.CellCycle.readyEpithelial`, `Gen.CellCycle.belowMinVol`, `Gen.CellCycle.divisionPeriod` are the
  definitions regenerated from the C++ text on every run).

  `solver::run_iteration`, statement by statement, for that tissue:
    1. `save_mesh()`                              writes files, does not touch the cells                — omitted
    2. `cell_divider::run` when iteration % 5 = 0 nothing happens unless `is_ready_to_divide()`          — `ready` (domain)
    3. `update_face_types()`                      epithelial_cell: every face type := 0; base class: {}  — `updateFaceTypes`
    4. `refine_meshes`                            `update_centroid` (not read by anything below); swap off; no edge
                                                  is split or merged when every edge is inside [l_min², l_max²]
                                                  (C11 `conforming_fixpoint`)                            — `inBand` (domain)
    5. `contact_model_ptr_->run`                  resets the couplings; candidate faces of the SAME cell are skipped
                                                  (`c1->get_id() != c2->get_id()`): no force, no coupling — identity
    6. `special_polarization_update`              only faces whose three nodes are coupled              — identity
    7. `apply_internal_forces(time_step)`         `Forces.prelude` (area, volume, target volume, pressure) and
                                                  `Forces.internalContribs` accumulated into `node::force_` (zero before:
                                                  the integrator resets it); `compute_node_curvature_and_normals` writes
                                                  `curvature_` / `normal_` only, which the contact model alone reads
    8. `update_nodes_positions`                   every used, uncoupled node: `Gen.single10` with
                                                  `get_node_mass()` = density · volume_ / number of nodes (volume_ is the one
                                                  just computed in 7); `simulation_time_ += dt_`
    9. statistics every 50 iterations             read only                                              — omitted
   10. removal when `volume_ < min_vol_`          — `belowMin` (domain)
   11. `iteration_++`
  `cellIteration` is total; `stepOk` says whether the state is in the domain where it IS the code (tests 2, 4, 10).
  The correspondence (tools/props/c14_pipeline.py) compares every double of every iteration with the real solver.

  Core Lean only (compiled into `drv_c14`); polymorphic in the scalar.
-/
namespace Simu.Pipeline
open Simu Simu.Forces

/-- a table over the node slots of `node_lst_` (all used: a freshly loaded cell).  `arr` are the slots; `rest`
    totalises the lookup for ids that are not slots (never read when the face ids are valid). -/
structure Slots (α : Type) where
  arr : Array α
  rest : Nat → α

def Slots.get {α : Type} (t : Slots α) (i : Nat) : α :=
  match t.arr[i]? with
  | some v => v
  | none => t.rest i

def Slots.map {α β : Type} (f : α → β) (t : Slots α) : Slots β := ⟨t.arr.map f, fun i => f (t.rest i)⟩

/-- what the iteration reads and never writes: `cell_type_parameters`, `growth_rate_`, `division_volume_` of the cell,
    and the numerical parameters -/
structure Consts (R : Type) where
  K : R          -- bulk_modulus_
  maxP : R       -- max_pressure_
  aem : R        -- area_elasticity_modulus_
  iso : R        -- target_isoperimetric_ratio_
  angf : R       -- angle_regularization_factor_
  minVol : R     -- min_vol_
  growth : R     -- growth_rate_
  divVol : R     -- division_volume_
  density : R    -- mass_density_
  dt : R         -- time_step_
  damping : R    -- damping_coefficient_
  lmin : R       -- min_edge_len_
  ft : List (FaceType R)
  /-- the cell is an `epithelial_cell` (global type id 0): overrides `update_face_types` and `is_ready_to_divide` -/
  epithelial : Bool

/-- the part of the solver / cell state that an iteration reads and writes -/
structure State (R : Type) where
  iter : Nat                 -- solver::iteration_
  time : R                   -- simulation_time_
  pos : Slots (V3 R)         -- node::pos_
  mom : Slots (V3 R)         -- node::momentum_
  faces : List Face          -- face_lst_ (all used), with face::type_id_
  area : R                   -- cell::area_
  volume : R                 -- cell::volume_
  tvol : R                   -- cell::target_volume_
  pressure : R               -- cell::pressure_

variable {R : Type} [Add R] [Sub R] [Mul R] [Div R] [Neg R] [Lit R] [LT R] [LE R] [DecidableLT R] [DecidableLE R]

/-- number of node slots (`node_lst_.size()`; the free queue is empty) -/
def State.nn (s : State R) : Nat := s.pos.arr.size

/-- `update_face_types()` -/
def updateFaceTypes (c : Consts R) (F : List Face) : List Face :=
  if c.epithelial then F.map (fun f => { f with ty := 0 }) else F

/-- what `apply_internal_forces` reads -/
def forceParams (c : Consts R) (tvol : R) : Forces.Params R :=
  { K := c.K, maxP := c.maxP, aem := c.aem, iso := c.iso, angf := c.angf, minVol := c.minVol,
    growth := c.growth, tvol := tvol, dt := c.dt, ft := c.ft }

/-- steps 3, 7, 8, 11 of `solver::run_iteration` -/
def cellIteration (fx : FX R) (c : Consts R) (s : State R) : State R :=
  -- 3. update_face_types
  let F := updateFaceTypes c s.faces
  -- 7. apply_internal_forces
  let x := s.pos.get
  let p := forceParams c s.tvol
  let pre := prelude fx x F p
  let force := accumulate s.nn (internalContribs fx x F p)
  -- 8. update_nodes_positions: c1_node_mass = get_mass() / get_nb_of_nodes(), then the loop over node_lst_
  let m := Gen.nodeMass c.density pre.volume (Gen.nbNodes s.nn 0)
  let upd := (Array.range s.nn).map fun i =>
    Gen.single10 c.dt c.damping m (x i) (s.mom.get i) (force.getD i V3.zero)
  { iter := s.iter + 1
    time := Gen.timeStep s.time c.dt
    pos := ⟨upd.map (fun r => r.1), s.pos.rest⟩
    mom := ⟨upd.map (fun r => r.2.1), s.mom.rest⟩
    faces := F
    area := pre.area
    volume := pre.volume
    tvol := pre.tvol
    pressure := pre.pressure }

/-- n iterations -/
def run (fx : FX R) (c : Consts R) : Nat → State R → State R
  | 0, s => s
  | n + 1, s => run fx c n (cellIteration fx c s)

/-! ### the domain: when is `cellIteration` the code? -/

/-- 2. `cell_divider::run` would divide the cell (it reads the `volume_` left by the previous iteration) -/
def ready (c : Consts R) (s : State R) : Bool :=
  s.iter % Gen.CellCycle.divisionPeriod == 0 && c.epithelial && Gen.CellCycle.readyEpithelial s.volume c.divVol

/-- the test of `refine_mesh` on the edge {u, v}: neither `l² > l_max²` (split) nor `l² < l_min²` (merge), with
    `l_max = l_min * 3.` and the squares as the constructor of `local_mesh_refiner` computes them -/
def edgeInBand (c : Consts R) (x : Nat → V3 R) (u v : Nat) : Bool :=
  let lmax := c.lmin * (lit 3 : R)
  let l2 := V3.normSq (x u - x v)
  !(decide (lmax * lmax < l2)) && !(decide (l2 < c.lmin * c.lmin))

/-- 4. no edge of the cell is split or merged -/
def inBand (c : Consts R) (s : State R) : Bool :=
  s.faces.all fun f => f.sides.all fun e => edgeInBand c s.pos.get e.1 e.2

/-- 10. the cell is removed at the end of the iteration (`volume_` is the one computed in step 7) -/
def belowMin (fx : FX R) (c : Consts R) (s : State R) : Bool :=
  let pre := prelude fx s.pos.get (updateFaceTypes c s.faces) (forceParams c s.tvol)
  Gen.CellCycle.belowMinVol pre.volume pre.tvol c.minVol

/-- the next `solver::run_iteration` is `cellIteration` -/
def stepOk (fx : FX R) (c : Consts R) (s : State R) : Bool :=
  !ready c s && inBand c s && !belowMin fx c s

/-- … for each of the next n iterations -/
def runOk (fx : FX R) (c : Consts R) : Nat → State R → Bool
  | 0, _ => true
  | n + 1, s => stepOk fx c s && runOk fx c n (cellIteration fx c s)

end Simu.Pipeline
