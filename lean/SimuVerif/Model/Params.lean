import SimuVerif.Model.Scalar
/-
  Model of `parameter_reader` (src/io/parameter_reader.cpp): how the XML parameter file becomes
  the structures `global_simulation_parameters`, `cell_type_parameters`, `face_type_parameters`.
  Core Lean only (compiled into `drv_c18`; shared with C17).

  The reader is table driven in the model: every `get_string_value(section, "tag")` block of the
  C++ (look-up, missing-tag test, conversion, assignment, validity tests) is one `Entry`; the
  tables themselves are regenerated from the C++ text on every run (`Gen/ParamTable.lean`).

  What is opaque: the text → number conversions `std::stod` / `std::stoi` (`Parsers.stod`,
  `Parsers.stoi`), the value of C++ constant expressions such as
  `std::numeric_limits<double>::infinity()` (`Parsers.const`) and tinyxml2 (the model starts from
  the element tree: for each section the list of `(child element name, text)` in document order).
-/
namespace Simu.Params

/-- how the text of an element is converted (`kind`) -/
inductive Kind
  | str    -- `x = opt.value()`
  | dbl    -- `x = std::stod(opt.value())`
  | int    -- `x = std::stoi(opt.value())`
  | bool   -- `x = (std::stoi(opt.value()) == 0) ? false : true`
  deriving DecidableEq, Repr, Inhabited

/-- a validity test placed after the assignment of an entry: the reader throws when it holds -/
inductive Check
  | le0 (field : String)        -- `if(s.field <= 0.0) throw …`   (documented rule: field > 0)
  | lt0 (field : String)        -- `if(s.field <  0.0) throw …`   (documented rule: field ≥ 0)
  | ltField (a b : String)      -- `if(s.a < s.b) throw …`        (documented rule: a ≥ b)
  deriving DecidableEq, Repr, Inhabited

/-- one `get_string_value` block of the reader -/
structure Entry where
  tag      : String            -- XML markup looked up with FirstChildElement
  field    : String            -- struct member the converted value is assigned to
  kind     : Kind
  ctype    : String            -- declared C++ type of the member (custom_structures.hpp)
  lower    : Bool              -- `get_string_value(…, true)`: the text is lower-cased first
  inf      : Option String     -- literal the text is compared with before `std::stod`
  infValue : String            -- C++ expression assigned when the literal matches
  checks   : List Check
  deriving DecidableEq, Repr, Inhabited

/-- the C++ expression for +∞ -/
def infinityExpr : String := "std::numeric_limits<double>::infinity()"

/-- a converted value -/
inductive Value (R : Type)
  | str (s : String)
  | dbl (x : R)
  | int (n : Int)
  | bool (b : Bool)
  deriving Repr, Inhabited, DecidableEq

/-- what the reader does instead of returning -/
inductive Err
  | missingSection (name : String)   -- parameter_reader_exception (select_section)
  | noCellType                       -- parameter_reader_exception
  | noFaceType                       -- parameter_reader_exception
  | missingTag (tag : String)        -- parameter_reader_exception "The xml markup … was not found"
  | rejected (tag : String) (k : Nat)-- parameter_reader_exception of the k-th validity test of that entry
  | badNumber (tag : String)         -- std::invalid_argument / std::out_of_range out of stod / stoi
  | emptyText (tag : String)         -- `std::string(nullptr)` inside the noexcept get_string_value: std::terminate (C17, DESIGN §7 row 10)
  deriving DecidableEq, Repr, Inhabited

/-- the opaque conversions, and what `get_string_value` does with an element that has no text
    (`<tag></tag>`, GetText() = nullptr): `emptyIsMissing = false` is the code that constructs
    `std::string(nullptr)` inside a noexcept function (std::terminate, DESIGN §7 row 10);
    `emptyIsMissing = true` is the repaired code (fixes/C17-empty-xml-element.diff) that returns
    `std::nullopt`, so that the caller throws its "markup was not found" exception.  The flag is
    extracted from the source (`Gen.emptyIsMissing`). -/
structure Parsers (R : Type) where
  stod  : String → Option R
  stoi  : String → Option Int
  const : String → R
  emptyIsMissing : Bool := false

abbrev Children := List (String × String)
abbrev Record (R : Type) := List (String × Value R)

/-- first pair with the given key (`FirstChildElement(tag)`; also member access on a record) -/
def assoc {α β : Type} [DecidableEq α] (k : α) : List (α × β) → Option β
  | [] => none
  | (a, b) :: l => if a = k then some b else assoc k l

/-- assignment to a member: overwrite when already assigned, else append -/
def setField {β : Type} (k : String) (v : β) : List (String × β) → List (String × β)
  | [] => [(k, v)]
  | (a, b) :: l => if a = k then (a, v) :: l else (a, b) :: setField k v l

/-- `std::tolower` on every byte (ASCII) -/
def lowerS (s : String) : String := String.ofList (s.toList.map Char.toLower)

/-- `int → short` conversion as gcc does it (modulo 2^16) -/
def toShort (n : Int) : Int := (n + 32768) % 65536 - 32768

def convInt (ctype : String) (n : Int) : Int := if ctype = "short" then toShort n else n

section
variable {R : Type} [Lit R] [LT R] [LE R] [DecidableLT R] [DecidableLE R]

/-- conversion of the text of one element (the right-hand side of the assignment) -/
def readValue (P : Parsers R) (e : Entry) (text : String) : Except Err (Value R) :=
  if text = "" then .error (if P.emptyIsMissing then .missingTag e.tag else .emptyText e.tag) else
  let t := if e.lower then lowerS text else text
  match e.kind with
  | .str => .ok (.str t)
  | .dbl =>
    if e.inf = some t then .ok (.dbl (P.const e.infValue)) else
    match P.stod t with
    | some x => .ok (.dbl x)
    | none => .error (.badNumber e.tag)
  | .int =>
    match P.stoi t with
    | some n => .ok (.int (convInt e.ctype n))
    | none => .error (.badNumber e.tag)
  | .bool =>
    match P.stoi t with
    | some n => .ok (.bool (n != 0))
    | none => .error (.badNumber e.tag)

/-- does the validity test throw, given the members assigned so far?  (A member that has not been
    assigned yet is not modelled: the test is taken not to fire; well-formed tables never do that.) -/
def Check.fires (r : Record R) : Check → Bool
  | .le0 f =>
    match assoc f r with
    | some (.dbl x) => decide (x ≤ lit 0)
    | some (.int n) => decide (n ≤ 0)
    | _ => false
  | .lt0 f =>
    match assoc f r with
    | some (.dbl x) => decide (x < lit 0)
    | some (.int n) => decide (n < 0)
    | _ => false
  | .ltField a b =>
    match assoc a r, assoc b r with
    | some (.dbl x), some (.dbl y) => decide (x < y)
    | some (.int n), some (.int m) => decide (n < m)
    | _, _ => false

/-- index of the first validity test that throws -/
def firstFiring (r : Record R) : List Check → Nat → Option Nat
  | [], _ => none
  | c :: cs, k => if c.fires r then some k else firstFiring r cs (k + 1)

/-- the body of a `read_*_parameters` function: the blocks in source order -/
def readGo (P : Parsers R) (children : Children) : List Entry → Record R → Except Err (Record R)
  | [], acc => .ok acc
  | e :: es, acc =>
    match assoc e.tag children with
    | none => .error (.missingTag e.tag)
    | some text =>
      match readValue P e text with
      | .error err => .error err
      | .ok v =>
        let acc' := setField e.field v acc
        match firstFiring acc' e.checks 0 with
        | some k => .error (.rejected e.tag k)
        | none => readGo P children es acc'

def readSection (P : Parsers R) (T : List Entry) (children : Children) : Except Err (Record R) :=
  readGo P children T []

/-- the three tables and the shape of the two loops of `read_biomechanical_parameters` -/
structure Tables where
  numerical : List Entry
  cell : List Entry
  face : List Entry
  cellLoopForward : Bool     -- FirstChildElement/NextSiblingElement + push_back
  faceLoopForward : Bool
  deriving Repr, Inhabited

/-- `<cell_type>`: its leaf children and, when present, the `<face_type>` children of its first `<face_types>` -/
structure CellSec where
  children : Children
  faceTypes : Option (List Children)
  deriving Repr, Inhabited

/-- the element tree of a parameter file as far as the reader looks at it -/
structure XmlTree where
  numerical : Option Children          -- none: no <numerical_parameters>
  cellTypes : Option (List CellSec)    -- none: no <cell_types>
  deriving Repr, Inhabited

structure CellParams (R : Type) where
  fields : Record R
  faces : List (Record R)

structure Params (R : Type) where
  numerical : Record R
  cells : List (CellParams R)

def loopOrder {α : Type} (forward : Bool) (l : List α) : List α := if forward then l else l.reverse

/-- one iteration of the cell-type loop: read_cell_type_parameters, then the face-type loop -/
def readCell (P : Parsers R) (TB : Tables) (c : CellSec) : Except Err (CellParams R) :=
  match readSection P TB.cell c.children with
  | .error e => .error e
  | .ok r =>
    match c.faceTypes with
    | none => .error (.missingTag "face_types")
    | some [] => .error .noFaceType
    | some fs =>
      match (loopOrder TB.faceLoopForward fs).mapM (readSection P TB.face) with
      | .error e => .error e
      | .ok l => .ok ⟨r, l⟩

/-- `read_biomechanical_parameters` -/
def readCells (P : Parsers R) (TB : Tables) (t : XmlTree) : Except Err (List (CellParams R)) :=
  match t.cellTypes with
  | none => .error (.missingSection "cell_types")
  | some [] => .error .noCellType
  | some cs => (loopOrder TB.cellLoopForward cs).mapM (readCell P TB)

/-- `read_numerical_parameters` -/
def readNumerical (P : Parsers R) (TB : Tables) (t : XmlTree) : Except Err (Record R) :=
  match t.numerical with
  | none => .error (.missingSection "numerical_parameters")
  | some ch => readSection P TB.numerical ch

/-- the reader as `simulation_initializer` drives it: numerical parameters first, then the cell types -/
def readParams (P : Parsers R) (TB : Tables) (t : XmlTree) : Except Err (Params R) :=
  match readNumerical P TB t with
  | .error e => .error e
  | .ok n =>
    match readCells P TB t with
    | .error e => .error e
    | .ok cs => .ok ⟨n, cs⟩

end

/-! ### decidable well-formedness of a table (what the generated tables are shown to satisfy) -/

def Check.wfFor (e : Entry) (earlier : List String) : Check → Bool
  | .le0 f => f = e.field
  | .lt0 f => f = e.field
  | .ltField a b => a = e.field && earlier.contains b

def Entry.wf (e : Entry) (earlier : List String) : Bool :=
  -- getter and declared member type fit together
  (match e.kind with
   | .str => e.ctype = "std::string" && !e.lower
   | .dbl => e.ctype = "double"
   | .int => e.ctype = "short" || e.ctype = "int"
   | .bool => e.ctype = "bool")
  -- every validity test is about the member just assigned (and members assigned before)
  && e.checks.all (Check.wfFor e earlier)
  && (e.checks.isEmpty || e.kind = .dbl || e.kind = .int)
  -- the INF convention: literal "inf" on lower-cased text, value +infinity, only for doubles
  && (match e.inf with
      | none => !e.lower
      | some l => l = "inf" && e.lower && e.kind = .dbl && e.infValue = infinityExpr)

def wfGo : List Entry → List String → Bool
  | [], _ => true
  | e :: es, earlier => e.wf earlier && !earlier.contains e.field && wfGo es (earlier ++ [e.field])

def nodupB : List String → Bool
  | [] => true
  | a :: l => !l.contains a && nodupB l

def wfTable (T : List Entry) : Bool :=
  nodupB (T.map (·.tag)) && nodupB (T.map (·.field)) && wfGo T []

def Tables.wf (TB : Tables) : Bool :=
  wfTable TB.numerical && wfTable TB.cell && wfTable TB.face && TB.cellLoopForward && TB.faceLoopForward

/-- the documented constraint on a value, as read off an entry's tests on its own member -/
inductive Sign | none | nonneg | pos
  deriving DecidableEq, Repr, Inhabited

def Entry.sign (e : Entry) : Sign :=
  if e.checks.contains (.le0 e.field) then .pos
  else if e.checks.contains (.lt0 e.field) then .nonneg
  else .none

end Simu.Params
