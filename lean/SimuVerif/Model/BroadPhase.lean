import SimuVerif.Gen.BroadPhase
/-
  C06 — executable model of the broad phase of the contact models
  (`update_face_aabbs`, `store_face_in_uspg`, the per-node lookup of the three resolve loops).
  All arithmetic is in `Gen/BroadPhase.lean` (regenerated from the C++ on every run); here are the
  loops, written as folds, and the containers (`face_aabb_lst_` = the `box` fields of a list of records in
  `face_lst_` order, `grid_.voxel_lst_` = a list of lists of global face ids, `push_front` = cons).
  Core Lean only: compiled into `drv_c06` at `Float`, reasoned about over an ordered field in `Properties/C06.lean`.
-/
namespace Simu.BP
open Simu Simu.Gen
variable {R : Type} [Add R] [Sub R] [Mul R] [Div R] [Neg R] [Lit R] [LT R] [LE R] [DecidableLT R] [DecidableLE R] [DecidableEq R]

/-- a face as the broad phase sees it: id of the owner cell and the three corners -/
structure BFace (R : Type) where
  cell : Nat
  a : V3 R
  b : V3 R
  c : V3 R

/-- a node as the broad phase sees it: id of its cell and its position -/
structure BNode (R : Type) where
  cell : Nat
  pos : V3 R

/-- entry `i` of `face_lst_` together with entries `6i … 6i+5` of `face_aabb_lst_` -/
structure FaceRec (R : Type) where
  cell : Nat
  box : Box R

/-- the loop of `update_face_aabbs`: one padded box per face, in `face_lst_` order -/
def faceRecs (pad : R) (fs : List (BFace R)) : List (FaceRec R) :=
  fs.map fun f => ⟨f.cell, faceBox pad f.a f.b f.c⟩

/-- `global_min_*_`, `global_max_*_` after `update_face_aabbs` (`inf` is `numeric_limits<double>::infinity()`) -/
def globalBox (pad inf : R) (rs : List (FaceRec R)) : Box R :=
  globalFinish pad (rs.foldl (fun g r => globalStep g r.box) ⟨inf, inf, inf, -inf, -inf, -inf⟩)

/-- `grid_` after `grid_.update_dimensions(face_lst_.size(), global_min…, global_max…)` -/
def dims (fn : Fn R) (δ vs pad inf : R) (rs : List (FaceRec R)) : GDims R :=
  let g := globalBox pad inf rs
  gridDims fn δ vs g.lox g.loy g.loz g.hix g.hiy g.hiz

/-- the flattened voxel ids visited by the x{y{z loop nest of `store_face_in_uspg` for one face, in loop order -/
def voxelIds (g : GDims R) (r : VRange) : List Nat :=
  (List.range' r.x0 (loopLen r.x0 r.x1)).flatMap fun x =>
    (List.range' r.y0 (loopLen r.y0 r.y1)).flatMap fun y =>
      (List.range' r.z0 (loopLen r.z0 r.z1)).map fun z => flat g x y z

/-- `voxel_lst_[i].push_front(f)`.  Outside the vector the C++ is undefined; the model leaves the grid
    unchanged there and `C06.face_voxels_in_range` shows that it does not happen -/
def pushAt : List (List Nat) → Nat → Nat → List (List Nat)
  | [], _, _ => []
  | l :: ls, 0, f => (f :: l) :: ls
  | l :: ls, i + 1, f => l :: pushAt ls i f

/-- one face registered in every voxel of its range -/
def placeFace (g : GDims R) (grid : List (List Nat)) (fid : Nat) (r : VRange) : List (List Nat) :=
  (voxelIds g r).foldl (fun gr vid => pushAt gr vid fid) grid

/-- `store_face_in_uspg`: `voxel_lst_` after all faces were registered -/
def buildGrid (fn : Fn R) (g : GDims R) (rs : List (FaceRec R)) : List (List Nat) :=
  rs.zipIdx.foldl (fun gr ri => placeFace g gr ri.2 (faceRange fn g ri.1.box)) (List.replicate g.total [])

/-- flattened id of the voxel of a node -/
def nodeVoxelId (fn : Fn R) (g : GDims R) (pos : V3 R) : Nat :=
  let v := nodeVoxel fn g pos
  flat g v.1 v.2.1 v.2.2

/-- the test in front of the per-pair rule that depends on the spatial structure: other cell and inside the box -/
def spatialTest (rs : List (FaceRec R)) (n : BNode R) (i : Nat) : Bool :=
  match rs[i]? with
  | some r => decide (cellTest n.cell r.cell) && aabbCheck r.box n.pos
  | none => false

/-- the faces (global ids, in the order the voxel list holds them) that the resolve loops hand to the rule for a node.
    A voxel id outside the vector is undefined in C++; the model reads an empty voxel and
    `C06.node_voxel_in_range` shows that it does not happen -/
def candidates (fn : Fn R) (g : GDims R) (grid : List (List Nat)) (rs : List (FaceRec R)) (n : BNode R) : List Nat :=
  (grid.getD (nodeVoxelId fn g n.pos) []).filter (spatialTest rs n)

/-- all faces of other cells, in the order of descending global id (the order of every voxel list) -/
def otherCellFaces (rs : List (FaceRec R)) (n : BNode R) : List Nat :=
  ((rs.zipIdx.filter fun ri => decide (cellTest n.cell ri.1.cell)).map Prod.snd).reverse

end Simu.BP
