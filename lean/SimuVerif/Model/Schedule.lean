import SimuVerif.Gen.Schedule
/-
  C19 — executable model of the schedule of a run: `solver::run`, `solver::run_iteration`, `solver::save_mesh`
  and the row discipline of the two statistics writers.  Core Lean only; polymorphic in the scalar `R` of the
  simulation time (instantiated at `Float` in `Driver/C19.lean`, at an ordered field with floor — and, for the
  clauses that do not depend on arithmetic, at ANY `R` — in `Properties/C19.lean`).

  Everything that is a formula or a constant of the code comes from `Gen/Schedule.lean` (regenerated from the
  C++ on every run): loop condition, time update, file-number formula, guard / update of the writing block of
  `save_mesh` (an `if` is a `while` that runs at most once), division and statistics periods, initial values.
  The physics of an iteration is abstracted to what it does to the population: the history gives, for every
  iteration, the cell list right after `cell_divider::run` (`mid`, only looked at in the iterations in which the
  divider is called) and the cells removed at the end of the iteration (`dead`).
-/
namespace Simu.Schedule
open Simu

variable {R : Type} [Add R] [Sub R] [Mul R] [Div R] [Neg R] [Lit R] [LT R] [LE R] [DecidableLT R] [DecidableLE R] [DecidableEq R]

/-- `sim_parameters_`: duration, time step, sampling period -/
structure Params (R : Type) where
  T : R
  dt : R
  S : R

/-- what one iteration does to the population -/
structure Event where
  /-- the cell list (ids, in list order) right after `cell_divider::run` -/
  mid : List Nat
  /-- the cells that are below their minimum volume at the end of the iteration -/
  dead : List Nat

/-- a pair of mesh files: iteration in which it was written, number, ids of the cells in it -/
structure FileRec where
  iter : Nat
  number : Int
  cells : List Nat
deriving DecidableEq, Repr

/-- one `write_data` call: iteration and time passed to it, ids of the cells (one row each) -/
structure StatRec (R : Type) where
  iter : Nat
  time : R
  cells : List Nat

/-- the members of `solver` the schedule depends on, plus what has been written so far -/
structure St (R : Type) where
  iter : Nat
  time : R
  fileNo : Int
  cells : List Nat
  files : List FileRec
  stats : List (StatRec R)

/-- state after the constructor -/
def St.init (cells : List Nat) : St R :=
  { iter := Gen.initIteration, time := Gen.initTime, fileNo := Gen.initFileNumber, cells := cells, files := [], stats := [] }

/-- the writing block of `save_mesh`: `file_number_` takes its new value, one pair of files is written with the current cells -/
def writeFiles (new : Int) (s : St R) : St R :=
  { s with fileNo := Gen.saveNext new s.fileNo,
           files := s.files ++ [{ iter := s.iter, number := Gen.saveNext new s.fileNo, cells := s.cells }] }

/-- the guarded block of `save_mesh`, executed while its guard holds (at most `fuel` times) -/
def saveLoop : Nat → Int → St R → St R
  | 0, _, s => s
  | fuel + 1, new, s => if Gen.saveCond new s.fileNo then saveLoop fuel new (writeFiles new s) else s

/-- how often the block can run: once for an `if`; for the `while` the distance to the target number -/
def saveFuel (new old : Int) : Nat := if Gen.saveRepeats then (new - old).toNat else 1

/-- `solver::save_mesh` -/
def saveMesh (fn : Fn R) (P : Params R) (s : St R) : St R :=
  let new := Gen.fileNumber fn s.time P.S
  saveLoop (saveFuel new s.fileNo) new s

/-- `statistic_writer_ptr_->write_data(iteration_, time, cell_lst_)`: one row per cell of the list -/
def record (s : St R) : St R :=
  { s with stats := s.stats ++ [{ iter := s.iter, time := s.time, cells := s.cells }] }

/-! the statements of `solver::run_iteration` (order: `Gen.iterationOrder`) -/

/-- `if(!is_step_tmp()) save_mesh();` -/
def phaseSave (fn : Fn R) (P : Params R) (s : St R) : St R := if Gen.stepTmp then s else saveMesh fn P s

/-- `if(!is_step_tmp() && iteration_ % 5 == 0) cell_divider::run(cell_lst_, ...);` -/
def phaseDivide (e : Event) (s : St R) : St R :=
  if !Gen.stepTmp && s.iter % Gen.divisionPeriod == 0 then { s with cells := e.mid } else s

/-- `update_nodes_positions`: `simulation_time_ += dt_` -/
def phaseAdvance (P : Params R) (s : St R) : St R := { s with time := Gen.advance s.time P.dt }

/-- `if(iteration_ % 50 == 0) write_data(iteration_, time, cell_lst_);` -/
def phaseRecord (s : St R) : St R := if s.iter % Gen.statsPeriod == 0 then record s else s

/-- `cell_lst_.erase(remove_if(is_below_min_vol))` -/
def phaseRemove (e : Event) (s : St R) : St R := { s with cells := s.cells.filter (fun c => !e.dead.contains c) }

/-- `iteration_++` -/
def phaseCount (s : St R) : St R := { s with iter := s.iter + 1 }

/-- `solver::run_iteration` -/
def iteration (fn : Fn R) (P : Params R) (e : Event) (s : St R) : St R :=
  phaseCount (phaseRemove e (phaseRecord (phaseAdvance P (phaseDivide e (phaseSave fn P s)))))

/-- the main loop of `solver::run`, at most `fuel` iterations -/
def loop (fn : Fn R) (P : Params R) (hist : Nat → Event) : Nat → St R → St R
  | 0, s => s
  | fuel + 1, s =>
    if Gen.continueRun s.time P.T s.cells.length then loop fn P hist fuel (iteration fn P (hist s.iter) s) else s

/-- `solver::run`: the loop, then the final `write_data` -/
def run (fn : Fn R) (P : Params R) (init : List Nat) (hist : Nat → Event) (fuel : Nat) : St R :=
  record (loop fn P hist fuel (St.init init))

/-- the loop has ended by its own condition (not because the fuel of the model was used up) -/
def finished (P : Params R) (s : St R) : Bool := !Gen.continueRun s.time P.T s.cells.length

/-! ### the statistics table -/

/-- the header line: fixed columns then one column per mapper, every field followed by the separator -/
def headerFields (fixed : List String) : List String := fixed ++ Gen.mapperColumns.map (·.1)

/-- the items of a row: fixed items then one item per mapper, every item followed by the separator -/
def rowFields (fixed : List String) : List String := fixed ++ Gen.mapperColumns.map (·.2)

end Simu.Schedule
