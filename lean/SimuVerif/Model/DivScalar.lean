import SimuVerif.Model.Vec
/-
  C09 — scalar helper of the translated division code (core Lean only).
  `DEq.deq` is `==` on doubles (`Float` has no `DecidableEq`): IEEE `==` at `Float`,
  `decide (a = b)` at a field (instance in `Lemmas/C09_Quat.lean`).
-/
namespace Simu

class DEq (R : Type) where
  deq : R → R → Bool

instance : DEq Float := ⟨fun a b => a == b⟩

end Simu
