import SimuVerif.Model.Vec
/-
  C20 — what the generated file `Gen/Grid.lean` (translated from `include/uspg/*.hpp`) is
  expressed in: the scalar members of `uspg_abstract` and `std::ceil` through the `floor` of the
  scalar interface.  Core Lean only.
-/
namespace Simu

/-- the scalar members of `uspg_abstract` (`min_x_ … voxel_size_`) plus the size that
    `update_dimensions` hands to `voxel_lst_.resize` -/
structure Dims (R : Type) where
  min_x : R
  min_y : R
  min_z : R
  max_x : R
  max_y : R
  max_z : R
  nx : Nat
  ny : Nat
  nz : Nat
  v : R
  total : Nat

/-- `std::ceil` expressed with the `floor` of the scalar interface: `⌈x⌉ = −⌊−x⌋`
    (an identity on the doubles as well: negation is exact) -/
def fceil {R : Type} [Neg R] (fn : Fn R) (x : R) : Int := - fn.floor (-x)

end Simu
