import SimuVerif.Model.Remesh
/-
  C14 (remeshing inside the assembled iteration) — additions to the executable remeshing model `Model/Remesh.lean`
  (which is not edited):

    * `translateCell t c`  the same cell placed `t` further: the position of every USED node slot is shifted.  A slot that
                           `cell::delete_node` has released holds the position (0,0,0) written by `node::reset` — in the
                           reference run and in the translated run alike — so it is NOT shifted.
    * the decidable "no released slot is read" checks.  The geometric decisions of `local_mesh_refiner` are functions of
      DIFFERENCES of node positions; they are translation invariant exactly as long as no position of a released slot (an
      absolute (0,0,0)) enters such a difference.  For a consistent mesh that never happens: every edge of the check set and
      of the edge index joins used nodes and points to faces whose corners are used nodes.  That consistency is not proved
      here for the concrete operations (it is what C01 establishes piecewise); instead the theorems of
      `Lemmas/RemeshTranslate.lean` take it as the hypothesis `refineLive … = true`, a boolean that follows the control flow of
      `refine_mesh` and looks, just before every operation, at exactly the slots that operation is going to read:
        - every step:  the popped edge joins used nodes and its two faces have used corners (`edgeLive`), the slot
                        `add_node` would take is a slot of the node list (`freeHeadOk`);
        - collapse:    the faces the two `replace_node` walks can reach through the edge index have used corners
                        (`idxFacesLive`), before the first walk and between the two walks (`mergeMidLive`);
        - swap pass:   the scored triangle has used corners, the swapped edge is `edgeLive`.
      The driver evaluates it on every executed pass (line `L`), `refineLive_translate` shows it does not depend on where the
      cell is.

  Core Lean only (compiled into `drv_c14`).
-/
namespace Simu.Remesh
open Simu

section
variable {R : Type} [Add R] [Sub R] [Mul R] [Div R] [Neg R] [Lit R] [LT R] [LE R] [DecidableLT R]
  [DecidableLE R] [DecidableEq R]

/-- a used node follows the translation; a released slot keeps what `node::reset` wrote -/
def trNode (t : V3 R) (n : Node R) : Node R := if n.used then { n with pos := n.pos + t } else n

/-- the cell placed `t` further: connectivity, face records, edge index, free lists and momenta are the same -/
def translateCell (t : V3 R) (c : Cell R) : Cell R := { c with nodes := c.nodes.map (trNode t) }

/-- slot `i` of `node_lst_` exists and `is_used()` -/
def usedN (c : Cell R) (i : Nat) : Bool :=
  match c.nodes[i]? with
  | some n => n.used
  | none => false

/-- the three corners of a face record are used node slots -/
def fUsed (c : Cell R) (f : Face R) : Bool := usedN c f.n1 && usedN c f.n2 && usedN c f.n3

/-- the face slot `fid` (when it exists) has used corners -/
def faceLive (c : Cell R) (fid : Nat) : Bool :=
  match c.faces[fid]? with
  | some f => fUsed c f
  | none => true

def optFaceLive (c : Cell R) (o : Option Nat) : Bool :=
  match o with
  | some f => faceLive c f
  | none => true

/-- the faces an edge record points to have used corners -/
def edgeFacesLive (c : Cell R) (e : Edge) : Bool := optFaceLive c e.f1 && optFaceLive c e.f2

/-- an edge record joins used nodes and points to faces with used corners -/
def edgeLive (c : Cell R) (e : Edge) : Bool := usedN c e.n1 && usedN c e.n2 && edgeFacesLive c e

/-- every face reachable through the edge index has used corners (what a `replace_node` walk may touch) -/
def idxFacesLive (c : Cell R) : Bool := c.edges.all (edgeFacesLive c)

/-- the slot `add_node` is going to use is a slot of the node list -/
def freeHeadOk (c : Cell R) : Bool :=
  match c.freeNodes with
  | i :: _ => decide (i < c.nodes.size)
  | [] => true

/-- the state between the two `replace_node` walks of `merge_edge` (first lines of `mergeEdge`): the new node is still
    used and every face the second walk can reach has used corners -/
def mergeMidLive (fn : Fn R) (k : SplitConsts R) (c : Cell R) (e : Edge) : Bool :=
  match c.nodes[e.n1]? with
  | none => true
  | some na =>
    match c.nodes[e.n2]? with
    | none => true
    | some nb =>
      match replaceNode fn (addNode c ((nb.pos + na.pos) * k.mid) (na.mom + nb.mom)).1 e e.n1
              (addNode c ((nb.pos + na.pos) * k.mid) (na.mom + nb.mom)).2 with
      | .error _ => true
      | .ok r => usedN r.1 (addNode c ((nb.pos + na.pos) * k.mid) (na.mom + nb.mom)).2 && idxFacesLive r.1

/-- follows `refineMesh.loop`: before every step the slots that step reads are live -/
def liveLoop (fn : Fn R) (k : RefineConsts R) (lminSq lmaxSq : R) : Nat → Cell R → CheckSet → Nat → Bool
  | 0, _, _, _ => true
  | _ + 1, _, [], _ => true
  | fuel + 1, c, e :: rest, iter =>
    if iter < c.edges.length then
      edgeLive c e && freeHeadOk c &&
      (if lmaxSq < V3.normSq (posOf c e.n1 - posOf c e.n2) then
        match splitEdge fn k.split c e rest with
        | .error _ => true
        | .ok r => liveLoop fn k lminSq lmaxSq fuel r.1 r.2 (iter + 1)
      else if V3.normSq (posOf c e.n1 - posOf c e.n2) < lminSq then
        match canBeMerged c e with
        | .error _ => true
        | .ok false => liveLoop fn k lminSq lmaxSq fuel c rest iter
        | .ok true =>
          idxFacesLive c && mergeMidLive fn k.split c e &&
          match mergeEdge fn k.split c e rest with
          | .error _ => true
          | .ok r => liveLoop fn k lminSq lmaxSq fuel r.1 r.2 (iter + 1)
      else liveLoop fn k lminSq lmaxSq fuel c rest iter)
    else true

/-- follows `removeElongated.loop` -/
def liveSwapLoop (fn : Fn R) (k : RefineConsts R) : Nat → Nat → Cell R → Bool
  | 0, _, _ => true
  | fuel + 1, i, c =>
    if c.faces.size ≤ i then true else
    match c.faces[i]? with
    | none => true
    | some f =>
      if !f.used then liveSwapLoop fn k fuel (i + 1) c else
      fUsed c f &&
      match triangleScore fn k c f with
      | .error _ => true
      | .ok r =>
        if r.1 < k.scoreMin then
          edgeLive c r.2 &&
          match swapEdge fn c r.2 with
          | .error _ => true
          | .ok c' => liveSwapLoop fn k fuel (i + 1) c'
        else liveSwapLoop fn k fuel (i + 1) c

/-- follows `refineMesh`: the whole pass never reads a released slot -/
def refineLive (fn : Fn R) (k : RefineConsts R) (lminSq lmaxSq : R) (swapOn : Bool) (c : Cell R) (maxIter : Nat) : Bool :=
  if swapOn then
    liveSwapLoop fn k (2 * c.faces.size + 8) 0 c &&
    match removeElongated fn k c with
    | .error _ => true
    | .ok c' => liveLoop fn k lminSq lmaxSq maxIter c' c'.edges 0
  else liveLoop fn k lminSq lmaxSq maxIter c c.edges 0

/-- the cell as a whole: every used face has used corners, every edge of the index is `edgeLive`
    (what the force and integration stages of the iteration read) -/
def liveCell (c : Cell R) : Bool :=
  c.faces.toList.all (fun f => !f.used || fUsed c f) && c.edges.all (edgeLive c)

end
end Simu.Remesh
