/-
  C10: reference-invalidation traces.  A function body is abstracted to the sequence of events
  that matter for dangling references into growable containers (std::vector):
    bind r c   a reference / iterator `r` into container `c` is taken
    grow c     an operation that MAY reallocate `c` (push_back, emplace_back, add_node, add_face, get_edge …)
    use r      `r` is dereferenced
  `safe` is the static check the translator's output is submitted to; `execOk` is the dynamic meaning
  (every container has an epoch that a reallocation bumps; a reference remembers the epoch at which it
  was taken; using a reference whose epoch is stale is a use-after-free).  Core Lean only.
-/
namespace Simu.RefTrace

inductive Ev where
  | bind (r c : Nat)
  | grow (c : Nat)
  | use (r : Nat)
deriving Repr, DecidableEq

/-- static state: for every tracked reference its container and whether it is still known valid -/
abbrev SState := List (Nat × Nat × Bool)

def sLookup (σ : SState) (r : Nat) : Option (Nat × Bool) :=
  match σ.find? (fun e => e.1 == r) with
  | some e => some (e.2.1, e.2.2)
  | none => none

def sStep (σ : SState) : Ev → Option SState
  | .bind r c => some ((r, c, true) :: σ.filter (fun e => e.1 != r))
  | .grow c => some (σ.map (fun e => (e.1, e.2.1, e.2.2 && e.2.1 != c)))
  | .use r =>
    match sLookup σ r with
    | some (_, false) => none
    | _ => some σ

def sRun (σ : SState) : List Ev → Option SState
  | [] => some σ
  | e :: es => match sStep σ e with
    | some σ' => sRun σ' es
    | none => none

/-- the static verdict on a trace -/
def safe (tr : List Ev) : Bool := (sRun [] tr).isSome

/-- dynamic state: epoch of every container, and for every live reference (container, epoch when taken) -/
structure DState where
  epoch : Nat → Nat
  refs : List (Nat × Nat × Nat)

def dLookup (d : DState) (r : Nat) : Option (Nat × Nat) :=
  match d.refs.find? (fun e => e.1 == r) with
  | some e => some (e.2.1, e.2.2)
  | none => none

/-- one event; `realloc` says whether this particular growth reallocates (unknown to the program:
    it depends on the capacity).  `none` = a stale reference is dereferenced. -/
def dStep (d : DState) (realloc : Bool) : Ev → Option DState
  | .bind r c => some { d with refs := (r, c, d.epoch c) :: d.refs.filter (fun e => e.1 != r) }
  | .grow c => some (if realloc then { d with epoch := fun x => if x = c then d.epoch c + 1 else d.epoch x } else d)
  | .use r =>
    match dLookup d r with
    | some (c, ep) => if d.epoch c = ep then some d else none
    | none => some d

/-- run a trace under an oracle giving, for the i-th event, whether a growth there reallocates -/
def dRun (d : DState) (oracle : Nat → Bool) (i : Nat) : List Ev → Option DState
  | [] => some d
  | e :: es => match dStep d (oracle i) e with
    | some d' => dRun d' oracle (i + 1) es
    | none => none

def execOk (oracle : Nat → Bool) (tr : List Ev) : Bool := (dRun ⟨fun _ => 0, []⟩ oracle 0 tr).isSome

end Simu.RefTrace
