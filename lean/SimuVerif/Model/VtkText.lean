import SimuVerif.Model.Vtk
/-
  C17 (and the character side of C16) — the searches of `mesh_reader` on the characters of a file.

  Every `std::regex_search` / `std::getline` of src/io/mesh_reader.cpp is re-expressed as a total
  scanner over `List Char` (one character per byte of the file).  The regular expressions are
  simple enough for their leftmost, greedy-with-backtracking ECMAScript match to be computed
  without backtracking; the reasoning is given at each scanner.  The texts of the regular
  expressions these scanners were written for are pinned in Properties/C17.lean against
  Gen/VtkConsts.lean.  `scan` produces the same `Raw` record as `sectionsOf` does for token
  lists, and `readText P s = assemble P (scan s)` shares every check with the token-level reader.

  Also here: `stodFloat`, the exact (correctly rounded, ERANGE-aware) model of `std::stod` on the
  texts the reader hands to it, used by the drivers.
-/
namespace Simu.Vtk
open Simu.Gen.Vtk

/-- `l` starts with `lit`: what follows -/
def stripPrefix : List Char → List Char → Option (List Char)
  | [], l => some l
  | _ :: _, [] => none
  | a :: as, c :: cs => if a = c then stripPrefix as cs else none

/-- leftmost match: the first suffix of the text on which the anchored matcher succeeds -/
def findFirstC {α : Type} (p : List Char → Option α) : List Char → Option α
  | [] => none
  | c :: cs => match p (c :: cs) with
    | some a => some a
    | none => findFirstC p cs

/-- `[0-9]+` anchored: (value, rest); greedy, and no later atom of any of the expressions below
    can start with a digit, so the maximal run is the only candidate -/
def mDigits (l : List Char) : Option (Nat × List Char) :=
  let ds := l.takeWhile isDigit
  if ds.isEmpty then none else some (natOfDigits ds, l.dropWhile isDigit)

def mChar (c : Char) : List Char → Option (List Char)
  | d :: t => if c = d then some t else none
  | [] => none

def litVersion : List Char := ['#', ' ', 'v', 't', 'k', ' ', 'D', 'a', 't', 'a', 'F', 'i', 'l', 'e', ' ', 'V', 'e', 'r', 's', 'i', 'o', 'n', ' ']
def litPoints : List Char := ['P', 'O', 'I', 'N', 'T', 'S', ' ']
def litCellTypes : List Char := ['C', 'E', 'L', 'L', '_', 'T', 'Y', 'P', 'E', 'S', ' ']
def litCells : List Char := ['C', 'E', 'L', 'L', 'S', ' ']
def litTypeIdTail : List Char := ['e', 'l', 'l', '_', 't', 'y', 'p', 'e', '_', 'i', 'd', ' ']

/-- `# vtk DataFile Version (\d*\.?\d*)` anchored: group 1.  Every quantified atom is optional and
    nothing follows the group, so the greedy choice always yields a match. -/
def mVersion (l : List Char) : Option (List Char) :=
  match stripPrefix litVersion l with
  | none => none
  | some r =>
    let d1 := r.takeWhile isDigit
    let r1 := r.dropWhile isDigit
    match r1 with
    | '.' :: r2 => some (d1 ++ '.' :: r2.takeWhile isDigit)
    | _ => some d1

/-- `POINTS ([0-9]+) ([a-z]+)` anchored: (count, type word, rest) -/
def mPoints (l : List Char) : Option (Nat × List Char × List Char) :=
  match stripPrefix litPoints l with
  | none => none
  | some r => match mDigits r with
    | none => none
    | some (n, r1) => match mChar ' ' r1 with
      | none => none
      | some r2 =>
        let ty := r2.takeWhile isLower
        if ty.isEmpty then none else some (n, ty, r2.dropWhile isLower)

/-- the text before the first match of `([A-Za-z_]){2,}` (all of it when there is none) -/
def beforeTwoWordCh : List Char → List Char
  | a :: b :: t => if isWordCh a && isWordCh b then [] else a :: beforeTwoWordCh (b :: t)
  | l => l

def isSign (c : Char) : Bool := c == '-' || c == '+'
def isNumCh (c : Char) : Bool := isDigit c || c == '.'
/-- `[e|E]` is a bracket expression: it contains the bar -/
def isExpCh (c : Char) : Bool := c == 'e' || c == '|' || c == 'E'

/-- `([-\+]?[\d.]+(?:[e|E][-\+]?\d+)?)` anchored: (match, rest).
    When a sign is present the body must follow it (the alternative "no sign" would need the sign
    character to be in `[\d.]`); the body is the maximal run (the exponent cannot start inside it);
    the exponent group is taken when it matches, else skipped. -/
def mNumber (l : List Char) : Option (List Char × List Char) :=
  let sl : List Char × List Char := match l with
    | c :: t => if isSign c then ([c], t) else ([], l)
    | [] => ([], [])
  let body := sl.2.takeWhile isNumCh
  let l2 := sl.2.dropWhile isNumCh
  if body.isEmpty then none else
  match l2 with
  | e :: t =>
    if isExpCh e then
      let st : List Char × List Char := match t with
        | c :: t' => if isSign c then ([c], t') else ([], t)
        | [] => ([], [])
      let ds := st.2.takeWhile isDigit
      if ds.isEmpty then some (sl.1 ++ body, l2)
      else some (sl.1 ++ body ++ e :: st.1 ++ ds, st.2.dropWhile isDigit)
    else some (sl.1 ++ body, l2)
  | [] => some (sl.1 ++ body, [])

/-- successive matches (`search_start = suffix().first`); the fuel is the length of the text, one
    unit per character consumed or skipped -/
def allNumbersAux : Nat → List Char → List (List Char)
  | 0, _ => []
  | _, [] => []
  | f + 1, c :: cs => match mNumber (c :: cs) with
    | some (m, rest) => m :: allNumbersAux f rest
    | none => allNumbersAux f cs

def allNumbers (l : List Char) : List (List Char) := allNumbersAux l.length l

/-- `CELL_TYPES ([0-9]+)` anchored -/
def mCellTypes (l : List Char) : Option (Nat × List Char) :=
  match stripPrefix litCellTypes l with
  | none => none
  | some r => mDigits r

/-- `CELLS ([0-9]+) ([0-9])+` anchored: the rest after the match -/
def mCells (l : List Char) : Option (List Char) :=
  match stripPrefix litCells l with
  | none => none
  | some r => match mDigits r with
    | none => none
    | some (_, r1) => match mChar ' ' r1 with
      | none => none
      | some r2 => match mDigits r2 with
        | none => none
        | some (_, r3) => some r3

/-- `[C|c]ell_type_id [0-9]+ [0-9]+ [a-zA-Z]+` anchored: the rest after the match -/
def mTypeIds : List Char → Option (List Char)
  | c :: t =>
    if c == 'C' || c == '|' || c == 'c' then
      match stripPrefix litTypeIdTail t with
      | none => none
      | some r => match mDigits r with
        | none => none
        | some (_, r1) => match mChar ' ' r1 with
          | none => none
          | some r2 => match mDigits r2 with
            | none => none
            | some (_, r3) => match mChar ' ' r3 with
              | none => none
              | some r4 =>
                if (r4.takeWhile isAlpha).isEmpty then none else some (r4.dropWhile isAlpha)
    else none
  | [] => none

/-- `std::getline` on the text: split at `\n`, what follows the last `\n` is a line when non-empty -/
def linesOf : List Char → List (List Char)
  | [] => []
  | c :: cs =>
    if c = '\n' then [] :: linesOf cs
    else match linesOf cs with
      | [] => [[c]]
      | l :: ls => (c :: l) :: ls

/-- one line of the CELLS text (`if (line.size() <= 3) continue;`, `^[0-9]+`, then `[0-9]+` repeatedly) -/
def cellLineOf (line : List Char) : Option CellLine :=
  if line.length ≤ rLineSkip then none
  else
    let lead := line.takeWhile isDigit
    if lead.isEmpty then some ⟨none, digitRuns line⟩
    else some ⟨some (natOfDigits lead), digitRuns (line.dropWhile isDigit)⟩

/-- longest run of characters that are not white space -/
def maxRunAux : List Char → Nat → Nat → Nat
  | [], cur, best => max cur best
  | c :: cs, cur, best => if isSpace c then maxRunAux cs 0 (max cur best) else maxRunAux cs (cur + 1) best

def maxRun (l : List Char) : Nat := maxRunAux l 0 0

/-- what the searches of the reader extract from the characters of a file -/
def scan (s : List Char) : Raw :=
  { maxToken := maxRun s
    version := findFirstC mVersion s
    points := (findFirstC mPoints s).map (fun (n, ty, rest) => (n, ty, allNumbers (beforeTwoWordCh rest)))
    cellTypes := (findFirstC mCellTypes s).map (fun (n, rest) => (n, digitRuns (rest.takeWhile (fun c => !isUpper c))))
    cells := (findFirstC mCells s).map (fun rest =>
      if rest.any isUpper then
        -- `sub_string.substr(1, cell_pos_end)`: skips one character, keeps `cell_pos_end` characters
        some ((linesOf ((rest.drop rCellTextStart).take (rest.takeWhile (fun c => !isUpper c)).length)).filterMap cellLineOf)
      else none)
    typeIds := (findFirstC mTypeIds s).map (fun rest => digitRuns (rest.takeWhile (fun c => !isAlpha c))) }

/-- the reader on the characters of a file -/
def readText {R : Type} (P : NumSem R) (s : List Char) : Except Err (List (Mesh R) × List Int) := assemble P (scan s)

/-! ## `std::stod` at `Float`, exactly -/

/-- `± mant × 10^exp10` -/
structure Dec where
  neg : Bool
  mant : Nat
  exp10 : Int
deriving Repr

/-- the decimal grammar of `strtod` on the longest prefix of the text; none: no conversion.
    (hexadecimal, `inf` and `nan` forms cannot occur in the texts the reader passes: they consist of
    `[-+0-9.eE|]`) -/
def parseDec (l0 : List Char) : Option Dec :=
  let l := l0.dropWhile isSpace
  let sl : Bool × List Char := match l with
    | c :: t => if c == '-' then (true, t) else if c == '+' then (false, t) else (false, l)
    | [] => (false, [])
  let ip := sl.2.takeWhile isDigit
  let l1 := sl.2.dropWhile isDigit
  let fl : List Char × List Char := match l1 with
    | '.' :: t => (t.takeWhile isDigit, t.dropWhile isDigit)
    | _ => ([], l1)
  if ip.isEmpty && fl.1.isEmpty then none else
  let e : Int := match fl.2 with
    | c :: t =>
      if c == 'e' || c == 'E' then
        let st : Bool × List Char := match t with
          | c :: t' => if c == '-' then (true, t') else if c == '+' then (false, t') else (false, t)
          | [] => (false, [])
        let ds := st.2.takeWhile isDigit
        if ds.isEmpty then 0 else if st.1 then - Int.ofNat (natOfDigits ds) else Int.ofNat (natOfDigits ds)
      else 0
    | [] => 0
  some ⟨sl.1, natOfDigits (ip ++ fl.1), e - Int.ofNat fl.1.length⟩

/-- bits of the double nearest to `p/q` (ties to even) and whether `strtod` sets ERANGE -/
def ratToBits (p q : Nat) : Nat × Bool :=
  let lp := p.log2
  let lq := q.log2
  -- b = floor(log2(p/q)) ∈ {lp-lq-1, lp-lq}
  let d : Int := Int.ofNat lp - Int.ofNat lq
  let ge : Bool := if d ≥ 0 then decide (q * 2 ^ d.toNat ≤ p) else decide (q ≤ p * 2 ^ (-d).toNat)
  let b : Int := if ge then d else d - 1
  let u : Int := max (b - 52) (-1074)
  let num := if u ≥ 0 then p else p * 2 ^ (-u).toNat
  let den := if u ≥ 0 then q * 2 ^ u.toNat else q
  let m0 := num / den
  let r := num % den
  let m := if 2 * r > den ∨ (2 * r = den ∧ m0 % 2 = 1) then m0 + 1 else m0
  let inexact := r != 0
  if m < 2 ^ 52 then
    -- subnormal (or zero): tiny, ERANGE when inexact
    (m, inexact)
  else
    let mu : Nat × Int := if m = 2 ^ 53 then (2 ^ 52, u + 1) else (m, u)
    let biased := mu.2 + 1075
    if biased ≥ 2047 then (0x7FF0000000000000, true)
    else (biased.toNat * 2 ^ 52 + (mu.1 - 2 ^ 52), false)

def decToFloat (d : Dec) : Stod Float :=
  let sign : Nat := if d.neg then 2 ^ 63 else 0
  if d.mant = 0 then .value (Float.ofBits (UInt64.ofNat sign))
  else
    let nd : Int := Int.ofNat (Nat.toDigits 10 d.mant).length
    let mag := d.exp10 + nd
    if mag > 400 then .range
    else if mag < -400 then .range
    else
      let pq : Nat × Nat := if d.exp10 ≥ 0 then (d.mant * 10 ^ d.exp10.toNat, 1) else (d.mant, 10 ^ (-d.exp10).toNat)
      let br := ratToBits pq.1 pq.2
      if br.2 then .range else .value (Float.ofBits (UInt64.ofNat (sign + br.1)))

def stodFloat (l : List Char) : Stod Float :=
  match parseDec l with
  | none => .invalid
  | some d => decToFloat d

def floatSem : NumSem Float := { stod := stodFloat, finite := Float.isFinite }

end Simu.Vtk
